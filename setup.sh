#!/bin/bash
# MANIFEST.setup_cmd: regenerate Gen/ from /repo's working tree, then build the Lean library and the driver.
# Every check rebuilds incrementally by itself; a proof that no longer builds is reported by the check of
# its property (not by setup), so setup only fails when the toolchain itself is unusable.
cd "$(dirname "$0")"
/venv/bin/python -B tools/extract.py --json /dev/null || echo "setup: translator reported an error (checks will report it)"
cd lean || exit 1
lake build mkdrv MorphKgc 2>&1 | tail -15
if [ "${PIPESTATUS[0]}" != "0" ]; then
  echo "setup: full build failed; building module by module so that unaffected properties stay available"
  for f in MorphKgc/Props/*.lean; do m=${f%.lean}; lake build "${m//\//.}" >/dev/null 2>&1 || echo "setup: ${m} does not build"; done
  lake build mkdrv >/dev/null 2>&1 || echo "setup: driver does not build"
fi
lake --version >/dev/null 2>&1 || exit 1
exit 0
