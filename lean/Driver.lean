/-
Line-protocol driver: one JSON request per line on stdin, one JSON response per line on stdout.
`{"op": ..., ...}`  ->  `{"ok": <value>}` | `{"err": "..."}`.
Runs the executable definitions of the model/specification that the theorems are about.
-/
import MorphKgc.Drv.All

open Lean Drv

def dispatch (line : String) : Json :=
  match Json.parse line with
  | .error e => jobj [("err", Json.str s!"parse: {e}")]
  | .ok j =>
    match j.getObjValAs? String "op" with
    | .error e => jobj [("err", Json.str s!"op: {e}")]
    | .ok op =>
      if op == "ping" then jobj [("ok", Json.str "pong")] else
      match handlers.findSome? (fun h => h op j) with
      | none => jobj [("err", Json.str s!"unknown op {op}")]
      | some (.ok v) => jobj [("ok", v)]
      | some (.error e) => jobj [("err", Json.str e)]

partial def loop (hin : IO.FS.Stream) (hout : IO.FS.Stream) : IO Unit := do
  let line ← hin.getLine
  if line.isEmpty then return ()
  let t := line.trimAscii.toString
  if t.isEmpty then loop hin hout else
  hout.putStrLn (Json.compress (dispatch t))
  hout.flush
  loop hin hout

def main : IO Unit := do
  loop (← IO.getStdin) (← IO.getStdout)
