/-
C06 — where NULLs enter and where they are removed: executable models of the per-source entry points
(`relational_db._build_sql_query`, `data_file._read_csv/_read_json/_read_xml`, `python_data.get_ram_data`) and of the two
recognised statement orders of `materializer._preprocess_data`.  Every reader returns a `Model.Table`; a cell is
`Cell.null repr` exactly where Python delivers a NULL object whose `str()` is `repr` (`None`, `nan`, `<NA>`, `NaT`).

The shapes (`Gen.sqlShape`, `Gen.jsonFileShape`, …) are parameters of the models; the theorems instantiate them with the
values the translator read from /repo.

Bounds of the reader models (the harness generates inside them): JSON records of depth two (scalars, objects of scalars,
arrays of scalars; string or null leaves), XML iterator elements with attributes and direct children carrying attributes and
text, frames / lists of dicts with string or NULL cells.  JSONPath / XPath evaluation of the *iterator* is not modelled: the
readers start from the selected objects / elements.
-/
import MorphKgc.Model.Eval
import MorphKgc.Gen.Null

namespace Model
open Py

/-! ## `na_values` -/

/-- `Config.get_na_values`: `list(set(raw.split(',')))` (as a duplicate-free list; the order is never used) -/
def naValuesOf (raw : Str) : List Str := dedupFirst (split raw [','])

/-- the tokens of the default configuration, from `Gen.defaultNaRaw` -/
def defaultNa : List Str := naValuesOf Gen.defaultNaRaw

/-- the Python `str()` of the NULL objects a reader can deliver -/
def nullReprs : List Str := ["None".toList, "nan".toList, "<NA>".toList, "NaT".toList]

/-! ## `_preprocess_data`, by statement order -/

/-- some referenced cell of the row is a NULL object -/
def rawNullIn (refs : List Str) (ρ : Row) : Bool :=
  refs.any fun c => match lookup c ρ with | some (.null _) => true | _ => false

/-- `_preprocess_data` for the statement order `k`.
    `strThenNa` is the shared `Model.preprocess` (stringify, then NA tokens, then `dropna(subset=references)`);
    with `keepNullThenNa` the NULL objects survive `map` and are dropped by the same `dropna` as the NA tokens.
    (The guard `if config.get_na_values()` is always true: `naValuesOf_ne_nil`.) -/
def preprocessG (k : PreKind) (na : List Str) (refs : List Str) (t : Table) : Except MatErr (List SRow) :=
  match k with
  | .strThenNa => preprocess na refs t
  | .keepNullThenNa => preprocess na refs (t.filter fun ρ => !rawNullIn refs ρ)

/-- `_materialize_rml_rule` (non-star fragment) with `_preprocess_data` of order `k`; `evalRuleG .strThenNa = evalRule` -/
def evalRuleG (k : PreKind) (env : Env) (rules : List Rule) (r : Rule) : Except MatErr (List Str) := do
  if isAllConstant r then
    let t ← rowTriple env r r.objectMapType r.objectMapValue [] []
    pure [t]
  else if r.objectMapType = .parentTM then
    match findRule rules r.objectMapValue with
    | none => .error (.keyError r.objectMapValue)
    | some parent =>
      let refs := refsOfRule r
      let prefs := refsOfRule parent true ++ r.objectJoin.map (·.2)
      let data ← preprocessG k env.na refs (env.table r)
      let pdata ← preprocessG k env.na prefs (env.table parent)
      let merged := mergeData data pdata r.objectJoin
      merged.mapM (rowTriple env r parent.subjectMapType parent.subjectMapValue "parent_".toList)
  else do
    let data ← preprocessG k env.na (refsOfRule r) (env.table r)
    data.mapM (rowTriple env r r.objectMapType r.objectMapValue [])

/-! ## SQL: the text of `_build_sql_query` and what a DBMS answers -/

def SqlItem.render (it : SqlItem) (x : Str) : Str := it.pre ++ replace x it.old it.new ++ it.suf

/-- `s[:-k]` -/
def cutEnd (k : Nat) (s : Str) : Str := if k = 0 then [] else s.take (s.length - k)

/-- the `RML_TABLE_NAME` branch, statement by statement -/
def buildTableQuery (sh : SqlShape) (lsv : Str) (refs : List Str) : Str :=
  let q := refs.foldl (fun q r => q ++ sh.selItem.render r) sh.head
  let q := cutEnd sh.cut1 q ++ sh.fromItem.render lsv
  let q := refs.foldl (fun q r => q ++ sh.whereItem.render r) q
  cutEnd sh.cut2 q

/-- `_build_sql_query(rml_rule, references)`; `none` = Python `None` -/
def buildSqlQuery (sh : SqlShape) (lst : Option LogicalSourceType) (lsv : Str) (refs : List Str) : Option Str :=
  match lst with
  | some .query => if sh.queryPassThrough then some lsv else none
  | some .tableName => if sh.tableNeedsRefs && refs.isEmpty then none else some (buildTableQuery sh lsv refs)
  | _ => none

/-- abstract syntax of the one query form the engine generates -/
structure SelectAst where
  cols : List Str
  table : Str
  notNull : List Str
  deriving DecidableEq, Repr

/-- MySQL-style delimited identifier; schema-qualified names are split at the dots -/
def quoteIdent (s : Str) : Str := ['`'] ++ replace s ['.'] ['`', '.', '`'] ++ ['`']

/-- concrete syntax: ``SELECT `c1`, `c2` FROM `t` WHERE `c1` IS NOT NULL AND `c2` IS NOT NULL`` -/
def SelectAst.render (a : SelectAst) : Str :=
  "SELECT ".toList ++ join ", ".toList (a.cols.map quoteIdent) ++ " FROM ".toList ++ quoteIdent a.table ++ " WHERE ".toList ++
    join " AND ".toList (a.notNull.map fun c => quoteIdent c ++ " IS NOT NULL".toList)

def cellIsNull : Cell → Bool
  | .null _ => true
  | .str _ => false

/-- SQL semantics of that form over a stored table (a SQL NULL is a `Cell.null`): selection, then projection -/
def execSelect (a : SelectAst) (t : Table) : Table :=
  (t.filter fun ρ => a.notNull.all fun c => match lookup c ρ with | some (.str _) => true | _ => false).map fun ρ =>
    a.cols.filterMap fun c => (lookup c ρ).map fun cell => (c, cell)

/-- the table `get_sql_data` delivers: for `rr:tableName` the answer to the generated query, for `rr:sqlQuery` the answer to the
    user's query (`t` is then that answer) -/
def sqlDeliver (lst : Option LogicalSourceType) (lsv : Str) (refs : List Str) (t : Table) : Table :=
  match lst with
  | some .tableName => execSelect ⟨refs, lsv, refs⟩ t
  | _ => t

/-! ## CSV / TSV -/

/-- pandas `STR_NA_VALUES` -/
def pandasNaStrings : List Str :=
  ["", "#N/A", "#N/A N/A", "#NA", "-1.#IND", "-1.#QNAN", "-NaN", "-nan", "1.#IND", "1.#QNAN", "<NA>", "N/A", "NA", "NULL", "NaN",
   "None", "n/a", "nan", "null"].map String.toList

/-- `pd.read_table(…, dtype=str, keep_default_na=…, na_filter=…)` on parsed fields -/
def csvDeliver (sh : CsvShape) (rows : List (List (Str × Str))) : Table :=
  rows.map fun ρ => ρ.map fun kv =>
    (kv.1, if sh.naFilter && sh.keepDefaultNa && pandasNaStrings.contains kv.2 then Cell.null "nan".toList else Cell.str kv.2)

/-! ## JSON (file and in-memory dict / JSON text) -/

inductive JField
  /-- a string, or JSON `null` -/
  | scalar (v : Option Str)
  /-- an object of scalars -/
  | obj (kvs : List (Str × Option Str))
  /-- an array of scalars -/
  | arr (vs : List (Option Str))
  deriving DecidableEq, Repr, Inhabited

/-- one object selected by the iterator -/
abbrev JRecord := List (Str × JField)

def cellOfOpt : Option Str → Cell
  | some s => .str s
  | none => .null "None".toList

def fillCell : MissingFill → Cell
  | .pyNone => .null "None".toList
  | .npNan => .null "nan".toList

/-- the JSONPath projection `iterator.(k1,k2,…)`: only keys that are present appear in the result -/
def jsonProject (p : JsonProjection) (refs : List Str) (rec : JRecord) : JRecord :=
  match p with
  | .topLevelKey =>
    let keys := refs.map fun r => (split r ['.']).headD []
    rec.filter fun kv => keys.contains kv.1
  | .fullReference =>
    (dedupFirst refs).filterMap fun r =>
      match breakOn ['.'] r with
      | none => (lookup r rec).map fun f => (r, f)
      | some (a, b) =>
        match lookup a rec with
        | some (.obj kvs) => (lookup b kvs).map fun v => (r, JField.scalar v)
        | _ => none

/-- `normalize_hierarchical_data` on one record: the cartesian product over its arrays -/
def jsonFlatten (rec : JRecord) : List JRecord :=
  rec.foldr (fun kv acc =>
    let alts : List JField := match kv.2 with
      | .arr vs => vs.map JField.scalar
      | f => [f]
    alts.flatMap fun a => acc.map fun rest => (kv.1, a) :: rest) [[]]

/-- `None in json_object.values()` -/
def jsonHasTopNone (rec : JRecord) : Bool := rec.any fun kv => kv.2 = JField.scalar none

/-- `pd.json_normalize` on one flattened record: nested keys joined with a dot -/
def jsonNormalizeRow (rec : JRecord) : Row :=
  rec.flatMap fun kv => match kv.2 with
    | .scalar v => [(kv.1, cellOfOpt v)]
    | .obj kvs => kvs.map fun p => (kv.1 ++ ['.'] ++ p.1, cellOfOpt p.2)
    | .arr _ => []

/-- rows with different key sets become one frame: absent cells are `nan` -/
def frameOfRows (rows : List Row) : Table :=
  let cols := dedupFirst (rows.flatMap fun ρ => ρ.map (·.1))
  rows.map fun ρ => cols.map fun c => (c, (lookup c ρ).getD (.null "nan".toList))

def addMissing (fill : MissingFill) (refs : List Str) (t : Table) : Table :=
  t.map fun ρ => ρ ++ ((dedupFirst refs).filter fun c => (lookup c ρ).isNone).map fun c => (c, fillCell fill)

def dropnaBy (sub : DropSubset) (refs : List Str) (t : Table) : Table :=
  match sub with
  | .noDrop => t
  | .allColumns => t.filter fun ρ => ρ.all fun kv => !cellIsNull kv.2
  | .references => t.filter fun ρ => !rawNullIn refs ρ

/-- `_read_json` / `_read_inmemory_json` from the objects the iterator selects -/
def readJson (sh : JsonShape) (refs : List Str) (recs : List JRecord) : Table :=
  let flat := (recs.map (jsonProject sh.projection refs)).flatMap jsonFlatten
  let kept := if sh.noneFilter then flat.filter fun r => !jsonHasTopNone r else flat
  dropnaBy sh.dropSubset refs (addMissing sh.missingFill refs (frameOfRows (kept.map jsonNormalizeRow)))

/-! ## XML -/

structure XChild where
  tag : Str
  attrs : List (Str × Str) := []
  /-- `Element.text`: `None` for `<v/>` and `<v></v>` -/
  text : Option Str := none
  deriving DecidableEq, Repr, Inhabited

/-- one element selected by the iterator -/
structure XElem where
  attrs : List (Str × Str) := []
  children : List XChild := []
  deriving DecidableEq, Repr, Inhabited

inductive XRef
  | selfAttr (a : Str)
  | childAttr (tag a : Str)
  | childText (tag : Str)
  deriving DecidableEq, Repr

/-- the reference dispatch of `_read_xml` -/
def parseXRef (r : Str) : XRef :=
  let r := replace r ['/', '@'] ['@']
  if startsWith r ['@'] then .selfAttr (r.drop 1)
  else if isInfix ['@'] r then
    let ps := split r ['@']
    .childAttr (ps.headD []) ((ps.drop 1).headD [])
  else .childText r

/-- `data_value` of one reference for one element -/
def xmlValues (sh : XmlShape) (e : XElem) (r : Str) : Except MatErr (List (Option Str)) :=
  match parseXRef r with
  | .selfAttr a =>
    match lookup a e.attrs, sh.selfAttr with
    | some v, _ => .ok [some v]
    | none, .get => .ok [none]
    | none, .subscript => .error (.keyError a)
  | .childAttr tag a => .ok ((e.children.filter fun c => c.tag = tag).map fun c => lookup a c.attrs)
  | .childText tag => .ok ((e.children.filter fun c => c.tag = tag).map (·.text))

/-- `DataFrame.explode` over every reference in turn: an empty list becomes `nan`, a `None` element stays `None` -/
def explodeRow (rec : List (Str × List (Option Str))) : List Row :=
  rec.foldr (fun kv acc =>
    let alts : List Cell := if kv.2.isEmpty then [.null "nan".toList] else kv.2.map cellOfOpt
    alts.flatMap fun a => acc.map fun rest => (kv.1, a) :: rest) [[]]

/-- `_read_xml` from the elements the iterator selects. The `dropna` before the `explode` loop sees list cells only and
    removes nothing; a `dropna` after it (`dropBeforeExplode = false`) removes by its subset. -/
def readXml (sh : XmlShape) (refs : List Str) (elems : List XElem) : Except MatErr Table := do
  let refs := dedupFirst refs
  let recs ← elems.mapM fun e => refs.mapM fun r => do
    let vs ← xmlValues sh e r
    pure (r, vs)
  let rows := recs.flatMap explodeRow
  pure (if sh.dropBeforeExplode then rows else dropnaBy sh.dropSubset refs rows)

/-! ## in-memory Python objects -/

/-- DataFrame: the referenced columns of a copy with `"` removed from the strings (`KeyError` for an unknown column) -/
def frameDeliver (refs : List Str) (t : Table) : Except MatErr Table :=
  t.mapM fun ρ => (dedupFirst refs).mapM fun c =>
    match (lookup c ρ : Option Cell) with
    | some (Cell.str s) => .ok (c, Cell.str (s.filter fun ch => ch ≠ '"'))
    | some n => .ok (c, n)
    | none => .error (.keyError c)

/-- list / tuple of dicts: `pd.DataFrame(rows, columns=references)`; a `None` value stays `None`, an absent key is `nan` -/
def listDeliver (refs : List Str) (recs : List (List (Str × Option Str))) : Table :=
  recs.map fun d => (dedupFirst refs).map fun c =>
    (c, match lookup c d with
        | some (some s) => Cell.str s
        | some none => Cell.null "None".toList
        | none => Cell.null "nan".toList)

/-! ## the kinds of logical source, and what each hands to `_preprocess_data` -/

inductive SourceKind
  | sqlTable | sqlQuery | csv | jsonFile | xml | frame | pyList | pyDict
  deriving DecidableEq, Repr, Inhabited

end Model
