/-
C09 — the surface syntax of a mapping document and its normalisation.

`SDoc` is a mapping document *as written*: it records every spelling choice the property lists —
  * the vocabulary its terms are taken from (`needsR2rml`, `needsLegacy`: which of the two vocabulary rewrites it still needs),
  * each term map either as a constant shortcut (`rr:subject / rr:predicate / rr:object / rr:graph`) or as an expanded term map,
  * classes as `rr:class` on the subject map (`classes`) or as explicit predicate-object maps,
  * graph maps on the subject map (`graphs`) or on predicate-object maps,
  * multi-valued predicate-object maps (lists of predicate / object / graph slots),
  * term types written or left out (`termType : Option _`), language / datatype as shortcut property or as expanded map
    (`ldExpanded`).

`normalizeSurface` is what `mapping_parser._parse_data_source_mapping_files` + `_preprocess_mappings` make of it: the fold of the
normalisation steps in the order GENERATED from the source (`Gen.normalisationOrder`), then the cartesian product of
`RML_PARSING_QUERY` (`extract`), then `drop_duplicates` and self-join elimination (`post`).  Each step is the effect of the
corresponding SPARQL-update-style function on the tree-shaped part of the mapping graph; a step's queries only match terms of the
RML vocabulary, so a structural step does nothing while a vocabulary rewrite is still pending.
-/
import MorphKgc.Model.Normalize
import MorphKgc.Gen.NormOrder
import MorphKgc.Gen.Vocab
import MorphKgc.Spec.Vocab

namespace Model
open Py Spec

/-! ### vocabulary rewriting -/

/-- `for old, new in table.items(): replace(old, new)` seen from one term: it follows the chain in dict order -/
def rewriteChain : List (Str × Str) → Str → Str
  | [], x => x
  | (a, b) :: t, x => if x = a then rewriteChain t b else rewriteChain t x

def entryOK (preds objs : List (Str × Str)) (e : VEntry) : Bool :=
  match e.role with
  | .pred => rewriteChain preds e.old == e.new
  | .obj => rewriteChain objs e.old == e.new
  | .unread => true

/-- the terms a vocabulary rewrite must leave alone: the RML terms (targets of either vocabulary) -/
def rmlTerms : List Str := (r2rmlVocabulary ++ legacyVocabulary).filterMap fun e => if e.role = .unread then none else some e.new

/-- `_r2rml_to_rml` does its job: every R2RML term that is read becomes its RML term, RML terms and legacy terms are left alone -/
def r2rmlStepOK : Bool :=
  r2rmlVocabulary.all (entryOK Gen.r2rmlToRmlPred Gen.r2rmlToRmlObj) &&
  (rmlTerms ++ legacyVocabulary.map (·.old)).all fun t =>
    rewriteChain Gen.r2rmlToRmlPred t == t && rewriteChain Gen.r2rmlToRmlObj t == t

/-- `_rml_legacy_to_rml` does its job -/
def legacyStepOK : Bool :=
  legacyVocabulary.all (entryOK Gen.legacyToRml []) &&
  (rmlTerms ++ (r2rmlVocabulary.filter (·.role ≠ .unread)).map (·.old)).all fun t => rewriteChain Gen.legacyToRml t == t

/-- the terms the parsing queries and the normalisation steps understand -/
def understoodTerms : List Str := Gen.parsingQueryVocabulary ++ Gen.stepVocabulary

/-! ### the surface AST -/

/-- an expanded term map as written (no defaults applied) -/
structure STermMap where
  kind : TMKind
  /-- constant value / column name / template text -/
  value : Str := []
  /-- for constants: the constant is an RDF literal (`rr:constant "x"`), not an IRI -/
  isLit : Bool := false
  termType : Option TermType := none
  lang : Option Str := none
  datatype : Option Str := none
  /-- language / datatype are given as `rml:languageMap` / `rml:datatypeMap` (true) or by the shortcut properties (false) -/
  ldExpanded : Bool := false
  deriving DecidableEq, Repr, Inhabited

inductive SSlot
  /-- `rr:subject / rr:predicate / rr:object / rr:graph <constant>` -/
  | short (value : Str) (isLit : Bool)
  /-- `rr:subjectMap / … [ … ]` -/
  | full (tm : STermMap)
  deriving DecidableEq, Repr, Inhabited

inductive SObj
  | slot (s : SSlot)
  | ref (parent : Str) (join : List (Str × Str))
  deriving DecidableEq, Repr, Inhabited

structure SPom where
  predicates : List SSlot
  objects : List SObj
  graphs : List SSlot := []
  deriving DecidableEq, Repr, Inhabited

structure STm where
  id : Str
  sourceName : Str := []
  lsv : Str := []
  /-- `rml:source`, `rml:tableName` or `rml:query` -/
  lsType : Option LogicalSourceType := some .source
  subject : SSlot
  /-- `rr:class` on the subject map -/
  classes : List Str := []
  /-- graph slots on the subject map -/
  graphs : List SSlot := []
  poms : List SPom := []
  /-- typed `rr:TriplesMap` (or untyped and not shown to be non-asserted) -/
  asserted : Bool := true
  deriving DecidableEq, Repr, Inhabited

structure SDoc where
  /-- the document uses R2RML terms (`rr:`): `_r2rml_to_rml` has to run before anything matches -/
  needsR2rml : Bool := false
  /-- the document uses legacy RML terms -/
  needsLegacy : Bool := false
  tms : List STm
  deriving DecidableEq, Repr, Inhabited

def SDoc.resolved (d : SDoc) : Bool := !d.needsR2rml && !d.needsLegacy

/-! ### the steps -/

/-- does `constant_shortcuts_dict` send the shortcut property to the term-map property? -/
def expands (shortcut map : Str) : Bool := lookup shortcut Gen.shortcutToMap == some map

def expandsSubject : Bool := expands Gen.Iri.rmlSubjectShortcut Gen.Iri.rmlSubjectMap
def expandsPredicate : Bool := expands Gen.Iri.rmlPredicateShortcut Gen.Iri.rmlPredicateMap
def expandsObject : Bool := expands Gen.Iri.rmlObjectShortcut Gen.Iri.rmlObjectMap
def expandsGraph : Bool := expands Gen.Iri.rmlGraphShortcut Gen.Iri.rmlGraphMap
def expandsLangDt : Bool := expands Gen.Iri.rmlLanguageShortcut Gen.Iri.rmlLanguageMap && expands Gen.Iri.rmlDatatypeShortcut Gen.Iri.rmlDatatypeMap

def SSlot.isFull : SSlot → Bool
  | .full _ => true
  | .short _ _ => false

/-- `s <shortcut> o`  ⟶  `s <map> [ rml:constant o ]` -/
def expandSlot (on : Bool) : SSlot → SSlot
  | .short v l => if on then .full { kind := .constant, value := v, isLit := l } else .short v l
  | .full tm => .full tm

/-- language / datatype shortcut inside a term map ⟶ language / datatype map -/
def expandLd (on : Bool) : SSlot → SSlot
  | .full tm => .full (if on then { tm with ldExpanded := true } else tm)
  | s => s

def expandObj (on ld : Bool) : SObj → SObj
  | .slot s => .slot (expandLd ld (expandSlot on s))
  | o => o

/-- the predicate-object map `_rdf_class_to_pom` adds for a class: both term maps as constant shortcuts -/
def classPom (c : Str) : SPom :=
  { predicates := [.short Gen.Iri.rdfType false], objects := [.slot (.short c false)], graphs := [] }

def defaultGraphMap : SSlot := .full { kind := .constant, value := Gen.Iri.rmlDefaultGraph }

def defaultTermType (isObject : Bool) (tm : STermMap) : TermType :=
  if tm.kind = .constant && tm.isLit then .literal
  else if isObject && (tm.kind = .reference || (tm.ldExpanded && (tm.lang.isSome || tm.datatype.isSome))) then .literal
  else .iri

def completeSlot (isObject : Bool) : SSlot → SSlot
  | .full tm => .full { tm with termType := some (tm.termType.getD (defaultTermType isObject tm)) }
  | s => s

def completeObj : SObj → SObj
  | .slot s => .slot (completeSlot true s)
  | o => o

/-- one normalisation step on one triples map (the vocabulary steps and the validation do not change the tree) -/
def stepTm : Step → STm → STm
  | .classToPom, tm => { tm with poms := tm.classes.map classPom ++ tm.poms, classes := [] }
  | .expandShortcuts, tm =>
    { tm with subject := expandSlot expandsSubject tm.subject,
              graphs := tm.graphs.map (expandSlot expandsGraph),
              poms := tm.poms.map fun pom =>
                { predicates := pom.predicates.map (expandSlot expandsPredicate),
                  objects := pom.objects.map (expandObj expandsObject expandsLangDt),
                  graphs := pom.graphs.map (expandSlot expandsGraph) } }
  | .subjectGraphsToPom, tm =>
    { tm with poms := tm.poms.map fun pom => { pom with graphs := tm.graphs.filter (·.isFull) ++ pom.graphs },
              graphs := tm.graphs.filter (!·.isFull) }
  | .defaultGraph, tm =>
    { tm with poms := tm.poms.map fun pom =>
        if pom.graphs.any (·.isFull) then pom else { pom with graphs := pom.graphs ++ [defaultGraphMap] } }
  | .termtypes, tm =>
    { tm with subject := completeSlot false tm.subject,
              poms := tm.poms.map fun pom => { pom with objects := pom.objects.map completeObj } }
  | .tmClass, tm => { tm with asserted := tm.asserted && !tm.poms.isEmpty }
  | _, tm => tm

def isStructural : Step → Bool
  | .r2rmlToRml | .legacyToRml | .validate => false
  | _ => true

def applyStep (s : Step) (d : SDoc) : SDoc :=
  match s with
  | .r2rmlToRml => if r2rmlStepOK then { d with needsR2rml := false } else d
  | .legacyToRml => if legacyStepOK then { d with needsLegacy := false } else d
  | .validate => d
  | s => if d.resolved then { d with tms := d.tms.map (stepTm s) } else d

def runNormSteps (order : List Step) (d : SDoc) : SDoc := order.foldl (fun d s => applyStep s d) d

/-! ### the parsing query -/

def mapTypeOf : TMKind → MapType
  | .constant => .constant
  | .template => .template
  | .reference => .reference

def fullMaps (l : List SSlot) : List STermMap := l.filterMap fun | .full tm => some tm | _ => none

/-- `?object_map ?lang_datatype ?m . ?m rml:constant ?v . FILTER (?v != xsd:string)` -/
def sLangDt (o : STermMap) : Option LangDt × Option MapType × Str :=
  if o.ldExpanded then
    match o.lang, o.datatype with
    | some l, _ => (some .languageMap, some .constant, l)
    | none, some d => if d = Gen.Iri.xsdString then (none, none, []) else (some .datatypeMap, some .constant, d)
    | none, none => (none, none, [])
  else (none, none, [])

def sBaseRule (tm : STm) (sm : STermMap) : Rule :=
  { sourceName := tm.sourceName, tmId := tm.id, logicalSourceType := tm.lsType, logicalSourceValue := tm.lsv, asserted := tm.asserted,
    subjectMapType := mapTypeOf sm.kind, subjectMapValue := sm.value, subjectTermtype := sm.termType.getD .iri }

/-- term type of a referencing object map: that of the parent's subject map -/
def parentTermType (d : SDoc) (parent : Str) : TermType :=
  match d.tms.find? (fun t => t.id = parent) with
  | some ptm => (match ptm.subject with | .full sm => sm.termType.getD .iri | _ => .iri)
  | none => .iri

def objRules (d : SDoc) (b : Rule) (p g : STermMap) : SObj → List Rule
  | .slot (.full o) =>
    let (ld, ldt, ldv) := sLangDt o
    [{ b with predicateMapType := mapTypeOf p.kind, predicateMapValue := p.value,
              objectMapType := mapTypeOf o.kind, objectMapValue := o.value, objectTermtype := o.termType.getD .iri,
              langDatatype := ld, langDatatypeMapType := ldt, langDatatypeMapValue := ldv,
              graphMapType := mapTypeOf g.kind, graphMapValue := g.value }]
  | .slot (.short _ _) => []
  | .ref parent conds =>
    [{ b with predicateMapType := mapTypeOf p.kind, predicateMapValue := p.value,
              objectMapType := .parentTM, objectMapValue := parent, objectTermtype := parentTermType d parent,
              objectJoin := conds, graphMapType := mapTypeOf g.kind, graphMapValue := g.value }]

def SObj.isOrdinary : SObj → Bool
  | .slot (.full _) => true
  | _ => false

def SObj.isRef : SObj → Bool
  | .ref _ _ => true
  | _ => false

/-- the object maps of a predicate-object map that `RML_PARSING_QUERY` delivers.  The query has two consecutive OPTIONAL blocks over
    the same variable `?object_map`: the first binds it to the object maps that have a constant / template / reference, the second (for
    `rml:parentTriplesMap`) can only extend solutions in which it is still unbound.  So as soon as a predicate-object map has an
    ordinary object map, its referencing object maps are not delivered (finding `C09_F3`). -/
def effObjectsWith (k : Gen.ObjectDelivery) (pom : SPom) : List SObj :=
  match k with
  | .union => pom.objects
  | .consecutiveOptionals => if pom.objects.any (·.isOrdinary) then pom.objects.filter (·.isOrdinary) else pom.objects

def effObjects (pom : SPom) : List SObj := effObjectsWith Gen.objectDelivery pom

/-- the rows of one predicate-object map: predicate × object × graph -/
def pomRows (d : SDoc) (b : Rule) (pom : SPom) : List Rule :=
  (fullMaps pom.predicates).flatMap fun p => (effObjects pom).flatMap fun o => (fullMaps pom.graphs).flatMap fun g =>
    objRules d b p g o

/-- the rows the generation rules ask for: every object map and every referencing object map -/
def pomRowsAll (d : SDoc) (b : Rule) (pom : SPom) : List Rule :=
  (fullMaps pom.predicates).flatMap fun p => pom.objects.flatMap fun o => (fullMaps pom.graphs).flatMap fun g =>
    objRules d b p g o

/-- the rows `RML_PARSING_QUERY` returns for one triples map: subject × (predicate-object map × predicate × object × graph) -/
def extractTm (d : SDoc) (tm : STm) : List Rule :=
  match tm.subject with
  | .short _ _ => []
  | .full sm =>
    let b := sBaseRule tm sm
    if tm.poms.isEmpty then [b] else tm.poms.flatMap (pomRows d b)

def extract (d : SDoc) : List Rule := if d.resolved then d.tms.flatMap (extractTm d) else []

/-! ### `_preprocess_mappings` -/

/-- `_is_delimited_identifier` / `_get_undelimited_identifier` -/
def undelimIdent (s : Str) : Str :=
  if s.length > 2 && s.head? == some '"' && s.getLast? == some '"' then (s.drop 1).dropLast else s

/-- `_get_valid_template_identifiers` -/
def undelimTemplate (s : Str) : Str := replace (replace s "{\"".toList "{".toList) "\"}".toList "}".toList

def undelimMap (mt : MapType) (v : Str) : Str :=
  match mt with
  | .template => undelimTemplate v
  | .reference => undelimIdent v
  | _ => v

/-- `_remove_delimiters_from_mappings` on one rule -/
def undelimRule (r : Rule) : Rule :=
  { r with logicalSourceValue := if r.logicalSourceType = some .tableName then undelimIdent r.logicalSourceValue else r.logicalSourceValue,
           subjectMapValue := undelimMap r.subjectMapType r.subjectMapValue,
           predicateMapValue := undelimMap r.predicateMapType r.predicateMapValue,
           objectMapValue := undelimMap r.objectMapType r.objectMapValue,
           graphMapValue := undelimMap r.graphMapType r.graphMapValue,
           subjectJoin := r.subjectJoin.map fun p => (undelimIdent p.1, undelimIdent p.2),
           objectJoin := r.objectJoin.map fun p => (undelimIdent p.1, undelimIdent p.2) }

/-- `drop_duplicates`, delimiter removal, self-join elimination -/
def post (rules : List Rule) : List Rule :=
  let rules := (dedupFirst rules).map undelimRule
  rules.map (eliminateSelfJoin rules)

/-- the rows of the parsing query after the normalisation steps in the order of the source -/
def rawRules (d : SDoc) : List Rule := extract (runNormSteps Gen.normalisationOrder d)

/-- the normalised rule table of a mapping document as written -/
def normalizeSurface (d : SDoc) : List Rule := post (rawRules d)

/-! ### respellings -/

/-- every constant shortcut written as an expanded term map, every language / datatype shortcut as a map -/
def expandShortcutsTm (tm : STm) : STm :=
  { tm with subject := expandSlot true tm.subject, graphs := tm.graphs.map (expandSlot true),
            poms := tm.poms.map fun pom =>
              { predicates := pom.predicates.map (expandSlot true), objects := pom.objects.map (expandObj true true),
                graphs := pom.graphs.map (expandSlot true) } }

def expandShortcuts (d : SDoc) : SDoc := { d with tms := d.tms.map expandShortcutsTm }

/-- `rr:class c` written as the predicate-object map `rr:predicate rdf:type ; rr:object c` -/
def classAsPomTm (tm : STm) : STm := { tm with poms := tm.classes.map classPom ++ tm.poms, classes := [] }
def classAsPom (d : SDoc) : SDoc := { d with tms := d.tms.map classAsPomTm }

/-- the graph slots of the subject map repeated on every predicate-object map instead -/
def graphsOnPomsTm (tm : STm) : STm :=
  { tm with poms := tm.poms.map fun pom => { pom with graphs := tm.graphs ++ pom.graphs }, graphs := [] }
def graphsOnPoms (d : SDoc) : SDoc := { d with tms := d.tms.map graphsOnPomsTm }

/-- one predicate-object map per (predicate, object) pair -/
def splitPom (pom : SPom) : List SPom :=
  pom.predicates.flatMap fun p => pom.objects.map fun o => { predicates := [p], objects := [o], graphs := pom.graphs }
def splitPomsTm (tm : STm) : STm := { tm with poms := tm.poms.flatMap splitPom }
def splitPoms (d : SDoc) : SDoc := { d with tms := d.tms.map splitPomsTm }

/-- the same document in another vocabulary -/
def respell (r2rml legacy : Bool) (d : SDoc) : SDoc := { d with needsR2rml := r2rml, needsLegacy := legacy }

end Model
