/-
Process model for C16: what one interpreter keeps between library calls of morph-kgc, and how a call
(`materialize_set(config, python_source)`) threads it.

The materialization logic itself is a *parameter* (`Logic.F`): the theorems hold for every logic. What is modelled
concretely are the mechanisms through which one call could reach another:

  * `sys.modules['udfs']`  — `fnml_executer.load_udfs` (shape generated: `Shape.udfLoad`)
  * the root logger        — `utils.configure_logger` / `logging.basicConfig` (first call wins)
  * the caller's objects   — `python_data.get_ram_data` reads `python_source` BY REFERENCE; for DataFrames the
                             unfixed code strips `"` from object columns in place (`Shape.frameMutatesCaller`)
  * the file system        — a library call writes only its logging file (through the handler installed by the
                             FIRST call that configured logging)
  * nondeterminism         — `uuid()` and blank nodes minted while parsing draw from an entropy source (`Logic.E`)

`Shape` is produced by the translator (`Gen.procShape`, tools/gen/C16.py) from the AST of /repo.
-/
import MorphKgc.Py.Str

namespace Model.Proc
open Py

/-- how `load_udfs` treats a module loaded earlier -/
inductive UdfLoad
  | freshPerUse      -- new ModuleType, registered in sys.modules['udfs'] before exec, its udf_dict returned
  | reuseIfLoaded    -- `if 'udfs' in sys.modules: return sys.modules['udfs'].udf_dict` (a cache; not the code of /repo)
  deriving DecidableEq, Repr

structure Shape where
  udfLoad : UdfLoad
  /-- `load_udfs` is reached only from `execute_fnml`, in the branch `function_id not in bif_dict` -/
  udfOnlyIfNotBuiltin : Bool
  /-- `get_ram_data` assigns into the caller's DataFrame (the `"`-stripping loop without a copy) -/
  frameMutatesCaller : Bool
  /-- what `get_ram_data` returns for a DataFrame is a new frame (`frame[list]`), not the caller's object -/
  frameReturnsCopy : Bool
  /-- list / tuple / dict / JSON-string sources are only read -/
  othersReadOnly : Bool
  /-- `logging.basicConfig` is called without `force=True` -/
  loggerFirstCallWins : Bool
  /-- the package never reads the logging configuration -/
  loggingWriteOnly : Bool
  /-- `materialize_set` rebuilds Config / MappingParser / rule tables from its argument, assigns locals only -/
  configRebuiltPerCall : Bool
  deriving DecidableEq, Repr

/-- the shapes for which `callWith` below is a description of the code (everything else is a translation failure) -/
def Shape.recognised (s : Shape) : Bool :=
  s.udfOnlyIfNotBuiltin && s.frameReturnsCopy && s.othersReadOnly && s.loggingWriteOnly && s.configRebuiltPerCall

/-! ### the caller's in-memory objects -/

inductive Cell
  | str (s : Str)          -- a Python `str`
  | other (repr : Str)     -- anything else (numbers, None, NaN, nested objects), by `repr`
  deriving DecidableEq, Repr

structure Column where
  name : Str
  objectDtype : Bool
  cells : List Cell
  deriving DecidableEq, Repr

inductive Obj
  | frame (cols : List Column)
  | rows (json : Str)          -- list of rows
  | tuple (json : Str)
  | dict (json : Str)
  | jsonStr (s : Str)
  deriving DecidableEq, Repr

abbrev Heap := List (Str × Obj)
abbrev Files := List (Str × Str)

/-- dictionary / file-system lookup by key -/
def look {β : Type} (l : List (Str × β)) (q : Str) : Option β := List.lookup q l

def quote : Str := ['"']

/-- `x.replace('"', '') if isinstance(x, str) else x` -/
def stripCell : Cell → Cell
  | .str s => .str (replace s quote [])
  | c => c

/-- `source_value[col] = source_value[col].apply(...)` for the columns of `select_dtypes(include=['object'])` -/
def stripColumn (c : Column) : Column :=
  if c.objectDtype then { c with cells := c.cells.map stripCell } else c

def stripObj : Obj → Obj
  | .frame cols => .frame (cols.map stripColumn)
  | o => o

def cellHasQuote : Cell → Bool
  | .str s => s.contains '"'
  | _ => false

def objHasQuote : Obj → Bool
  | .frame cols => cols.any fun c => c.objectDtype && c.cells.any cellHasQuote
  | _ => false

/-! ### arguments, state -/

structure LogCfg where
  level : Str
  file : Option Str
  deriving DecidableEq, Repr

structure Args where
  /-- the configuration text (the INI string, or the contents of the INI file) — opaque for the model -/
  config : Str
  /-- keys of `python_source` that the mapping rules name -/
  sourceNames : List Str
  /-- paths of the configuration, mapping and data files the call reads -/
  inputs : List Str
  /-- `udfs=` option -/
  udfFile : Option Str
  /-- some executed function id is not in `bif_dict` -/
  usesUdf : Bool
  /-- `number_of_processes > 1`: the groups run in forked workers that receive pickled copies of `python_source` -/
  multiproc : Bool
  logging : LogCfg
  /-- the mapping executes `uuid()` or parsing mints blank-node constants -/
  nondet : Bool
  deriving DecidableEq, Repr

structure Proc where
  /-- contents of the UDF file last executed into `sys.modules['udfs']` -/
  udfModule : Option Str
  /-- configuration of the root logger, once some call configured it -/
  logger : Option LogCfg
  heap : Heap
  files : Files
  /-- position in the entropy stream -/
  clock : Nat
  deriving Repr

/-- The logic between the mechanisms, abstract. `F a sources inputs udfs entropy`. -/
structure Logic (ρ ε : Type) where
  F : Args → List (Str × Option Obj) → List (Str × Option Str) → Option Str → ε → ρ
  /-- text appended to the active logging file -/
  W : Args → Files → Str → Str
  E : Nat → ε

/-- hypothesis on the logic: without `uuid()` / minted blank nodes the result does not read the entropy -/
def Logic.entropyFree {ρ ε} (L : Logic ρ ε) : Prop :=
  ∀ a, a.nondet = false → ∀ h f d e e', L.F a h f d e = L.F a h f d e'

/-! ### the mechanisms -/

/-- `load_udfs`: `(sys.modules['udfs'] afterwards, the udf_dict handed to execute_fnml)`.
    `content = none`: the file cannot be opened, `open` raises before anything is registered. -/
def loadUdfs (k : UdfLoad) (cur : Option Str) (content : Option Str) : Option Str × Option Str :=
  match k, cur with
  | .reuseIfLoaded, some m => (some m, some m)
  | _, _ =>
    match content with
    | some c => (some c, some c)
    | none => (cur, none)

def configureLogger (firstWins : Bool) (cur : Option LogCfg) (new : LogCfg) : Option LogCfg :=
  if firstWins then (match cur with | some c => some c | none => some new) else some new

def touchHeap (sh : Shape) (names : List Str) (h : Heap) : Heap :=
  h.map fun no => if sh.frameMutatesCaller && names.contains no.1 then (no.1, stripObj no.2) else no

def upsert (fs : Files) (q c : Str) : Files :=
  match fs with
  | [] => [(q, c)]
  | (r, d) :: rest => if r == q then (q, c) :: rest else (r, d) :: upsert rest q c

/-- the file the root logger writes to -/
def activeLog (lg : Option LogCfg) : List Str := (lg.bind (·.file)).toList

def Args.outputs (a : Args) : List Str := a.logging.file.toList

def reads (a : Args) : List Str := a.udfFile.toList ++ a.inputs

def viewSources (h : Heap) (a : Args) : List (Str × Option Obj) := a.sourceNames.map fun n => (n, look h n)
def viewInputs (fs : Files) (a : Args) : List (Str × Option Str) := a.inputs.map fun q => (q, look fs q)

def writeLog (fs : Files) (paths : List Str) (content : Str → Str) : Files :=
  paths.foldl (fun fs q => upsert fs q (content q)) fs

/-- One library call. -/
def callWith {ρ ε} (sh : Shape) (L : Logic ρ ε) (p : Proc) (a : Args) : Proc × ρ :=
  let lg := configureLogger sh.loggerFirstCallWins p.logger a.logging
  let ld := if a.usesUdf then loadUdfs sh.udfLoad p.udfModule (a.udfFile.bind (look p.files)) else (p.udfModule, none)
  let res := L.F a (viewSources p.heap a) (viewInputs p.files a) ld.2 (L.E p.clock)
  ({ udfModule := if a.multiproc then p.udfModule else ld.1
     logger := lg
     heap := if a.multiproc then p.heap else touchHeap sh a.sourceNames p.heap
     files := writeLog p.files (activeLog lg) (L.W a p.files)
     clock := p.clock + 1 }, res)

/-- a history of calls in one process -/
def run {ρ ε} (sh : Shape) (L : Logic ρ ε) : Proc → List Args → Proc × List ρ
  | p, [] => (p, [])
  | p, a :: as =>
    let s := callWith sh L p a
    let t := run sh L s.1 as
    (t.1, s.2 :: t.2)

/-- a fresh interpreter started on the same objects and files -/
def fresh (h : Heap) (fs : Files) : Proc := { udfModule := none, logger := none, heap := h, files := fs, clock := 0 }

/-- Scope of finding C16_F1: the call runs in-process and names a DataFrame source with a `"` in an object column. -/
def scopeF1 (h : Heap) (a : Args) : Bool :=
  !a.multiproc && h.any fun no => a.sourceNames.contains no.1 && objHasQuote no.2

def scope_C16_F1 (p : Proc) (a : Args) : Bool := scopeF1 p.heap a

end Model.Proc
