/-
Model of RML-FNML evaluation as the code does it:
  `fnml/fnml_executer.py`  `execute_fnml` (L69-122), `_materialize_fnml_template` (L44-66), `load_udfs` / `bif` registries,
  `utils.get_fnml_execution`, `utils.get_references_in_fnml_execution`, `utils.remove_null_values_from_dataframe`
  (with `column=`), and `materializer._materialize_fnml_execution` (L150-175).

The model works on FRAMES (lists of rows) exactly in the order of the Python statements: inner executions first, each one
rewriting the whole frame; then one call per row; the result column; NULL removal and `explode` in the order the translator
reads from the source (`Gen.executeSteps`, classified by `execKindOf`).  That this frame-level pipeline is a per-row
semantics (`Spec.Fnml.execRow`) is the content of the theorems in `Props/C14.lean`, not of the definitions here.

Exceptions.  A Python exception raised for one row ends the whole run.  The model represents it as a POISONED cell
(`Atom.exc name`); a row with a poisoned cell is never dropped and every later result computed for it is the poison
(`callOn`), so the run aborts iff a poisoned cell is left in the final frame (`outcomeOf`).  Up to WHICH exception is reported when several rows raise, this is the same outcome as Python's immediate
abort (validated by the correspondence I11/I7); it makes every step a plain function on lists.
Exceptions that Python raises regardless of the rows (unknown function id, missing column, unknown execution id) are
mapping errors; the model poisons every row, which differs from Python only on an EMPTY frame (stated in the claim).

Generic in the function environment `FunEnv`: the registry of signatures (Python parameter name ↦ parameter IRI, from the
`@bif` / `@udf` decorators) and the functions themselves, `call : function id → keyword arguments → PyVal`.
-/
import MorphKgc.Model.Eval
import MorphKgc.Model.Canon

namespace Model.Fnml
open Py Model

/-! ### values -/

/-- what one cell of a column can hold after `explode` -/
inductive Atom
  /-- a Python `str` -/
  | str (s : Str)
  /-- a NULL object (`None`, `float('nan')`, `pd.NA`); `repr` is its `str()` -/
  | null (repr : Str)
  /-- any other object (int, float, bool, a list inside a list, …); `repr` is its `str()` -/
  | other (repr : Str)
  /-- poison: the computation of this cell raised the exception `name` -/
  | exc (name : Str)
  deriving DecidableEq, Repr, Inhabited

/-- what a function returns -/
inductive PyVal
  | atom (a : Atom)
  /-- list / tuple / set / ndarray …: everything `DataFrame.explode` treats as list-like -/
  | list (xs : List Atom)
  deriving DecidableEq, Repr, Inhabited

def Atom.isExc : Atom → Bool | .exc _ => true | _ => false
def Atom.isNull : Atom → Bool | .null _ => true | _ => false

/-- a row of the frame: data columns (always `str` after `_preprocess_data`), execution result columns, term columns -/
abbrev FR := List (Str × Atom)
abbrev Frame := List FR

/-- `data[c] = …` for one row: the column is overwritten or added -/
def setCol (σ : FR) (c : Str) (a : Atom) : FR := (c, a) :: σ.filter (fun kv => kv.1 ≠ c)

def getCol (σ : FR) (c : Str) : Atom :=
  match lookup c σ with | some a => a | none => .exc "KeyError".toList

/-! ### the FNML rule table (`fnml_df`) -/

inductive VType | constant | template | reference | execution | other
  deriving DecidableEq, Repr, Inhabited

/-- one row of `fnml_df` (`FNML_PARSING_QUERY`): one input of one execution -/
structure FRow where
  exec : Str
  fn : Str
  param : Str
  vtype : VType
  value : Str
  deriving DecidableEq, Repr, Inhabited

abbrev FnmlDf := List FRow

/-- `utils.get_fnml_execution` -/
def rowsOf (df : FnmlDf) (id : Str) : List FRow := df.filter (fun r => r.exec = id)

/-- `dict(zip(keys, values))[k]`: the LAST pair with that key -/
def lookupLast {β} (k : Str) (l : List (Str × β)) : Option β := lookup k l.reverse

/-! ### the function environment -/

/-- decorator metadata: Python parameter name ↦ parameter IRI, in declaration order -/
abbrev Sig := List (Str × Str)
/-- keyword arguments of one call, in the order of the decorator -/
abbrev Args := List (Str × Atom)

structure FunEnv where
  /-- `bif_dict[f]['parameters']`, else `udf_dict[f]['parameters']`; `none` = `KeyError` -/
  sigs : Str → Option Sig
  /-- `function(**exec_params)`; an exception is `PyVal.atom (.exc name)` -/
  call : Str → Args → PyVal

/-! ### the order of NULL removal and `explode` (read from the source by the translator) -/

inductive ExecStep
  | lookupExecution | functionId | innerExecutions | paramTypes | paramValues | resolveFunction | initParams | bindParams
  | initResults | rowwiseCall | assignResult | removeNulls | explode | ret | unrecognised
  deriving DecidableEq, Repr, Inhabited

inductive NullOrder | dropnaThenExplode | explodeThenDropna
  deriving DecidableEq, Repr, Inhabited

/-- `data[fnml_execution] = exec_res` (a plain list: pandas infers the dtype, float64 when the frame has no rows, so every later
    string operation on the column raises) or `… = pd.Series(exec_res, index=data.index, dtype=object)` -/
inductive AssignShape | plainList | objectSeries
  deriving DecidableEq, Repr, Inhabited

def idxOf (s : ExecStep) (l : List ExecStep) : Nat := l.findIdx (· == s)

def allExecSteps : List ExecStep :=
  [.lookupExecution, .functionId, .innerExecutions, .paramTypes, .paramValues, .resolveFunction, .initParams, .bindParams,
   .initResults, .rowwiseCall, .assignResult, .removeNulls, .explode, .ret]

/-- The recognised statement orders of `execute_fnml`: every step exactly once; the execution is looked up first; the inner
    executions run before the arguments are bound; binding before the row-wise call before the assignment of the result
    column; NULL removal and `explode` after the assignment (in either order: that order is the result); `return` last.
    Statements that do not depend on each other may be reordered. -/
def execKindOf (l : List ExecStep) : Option NullOrder :=
  let once := allExecSteps.all fun s => l.count s == 1
  let before (a b : ExecStep) : Bool := idxOf a l < idxOf b l
  if once && l.length == allExecSteps.length && before .lookupExecution .functionId &&
     before .lookupExecution .innerExecutions && before .lookupExecution .paramTypes && before .lookupExecution .paramValues &&
     before .functionId .resolveFunction && before .innerExecutions .bindParams && before .paramTypes .bindParams &&
     before .paramValues .bindParams && before .resolveFunction .bindParams && before .initParams .bindParams &&
     before .bindParams .rowwiseCall && before .initResults .rowwiseCall && before .rowwiseCall .assignResult &&
     before .assignResult .removeNulls && before .assignResult .explode &&
     before .removeNulls .ret && before .explode .ret && idxOf .ret l + 1 == l.length then
    some (if before .removeNulls .explode then .dropnaThenExplode else .explodeThenDropna)
  else none

/-! ### arguments -/

/-- `_materialize_fnml_template` on one row: the split/join loop of `_materialize_template` without any escaping -/
def fnmlTemplate (σ : FR) (tpl : Str) : Atom :=
  let refs := getReferencesInTemplate tpl
  let tpl' := replace (replace tpl ['\\', '{'] ['{']) ['\\', '}'] ['}']
  match templateLoop {} false none [] (fun r => match lookup r σ with | some (.str s) => some s | _ => none) refs tpl' [] with
  | .ok s => .str s
  | .error _ => .exc "KeyError".toList

/-- the value of one input for one row (L96-103): constant, template, and `else: data[value]` for everything else -/
def argOf (σ : FR) (vt : VType) (v : Str) : Atom :=
  match vt with
  | .constant => .str v
  | .template => fnmlTemplate σ v
  | _ => getCol σ v

/-- L78-81 and L92-103: for every decorator parameter `k ↦ iri` that occurs among the inputs, `k` is bound to the value of
    the input registered under `iri` in the two `dict(zip(…))` -/
def bindArgs (sig : Sig) (rows : List FRow) (σ : FR) : Args :=
  let types := rows.map fun r => (r.param, r.vtype)
  let values := rows.map fun r => (r.param, r.value)
  sig.filterMap fun kv =>
    match lookupLast kv.2 types, lookupLast kv.2 values with
    | some vt, some v => some (kv.1, argOf σ vt v)
    | _, _ => none

/-- the call for one row; a poisoned argument means Python never got here -/
def callRow (env : FunEnv) (fn : Str) (args : Args) : PyVal :=
  match args.find? (fun a => a.2.isExc) with
  | some a => .atom a.2
  | none => env.call fn args

/-- … and so does a poisoned cell anywhere in the row: the run has ended before this call.  The result is the poison itself,
    which is not NULL, so a poisoned row is never dropped and reaches the end of the pipeline. -/
def callOn (env : FunEnv) (fn : Str) (args : FR → Args) (σ : FR) : PyVal :=
  match σ.find? (fun kv => kv.2.isExc) with
  | some kv => .atom kv.2
  | none => callRow env fn (args σ)

/-! ### NULL removal and explode on the result column -/

/-- `data[col].replace(na_values, None)` on one cell: whole-cell match of a `str`; list cells are not looked into -/
def naReplace (na : List Str) : PyVal → PyVal
  | .atom (.str s) => if na.contains s then .atom (.null "None".toList) else .atom (.str s)
  | v => v

def isNullVal : PyVal → Bool
  | .atom (.null _) => true
  | _ => false

/-- `remove_null_values_from_dataframe(data, config, col, column=col)`: replace in that column, `dropna(subset=col)` -/
def removeNulls (na : List Str) (st : List (FR × PyVal)) : List (FR × PyVal) :=
  (st.map fun p => (p.1, naReplace na p.2)).filter fun p => !isNullVal p.2

/-- `data.explode(col)`: one row per element; an EMPTY list gives one row holding NaN; scalars are kept -/
def explode (st : List (FR × PyVal)) : List (FR × PyVal) :=
  st.flatMap fun p =>
    match p.2 with
    | .list [] => [(p.1, .atom (.null "nan".toList))]
    | .list xs => xs.map fun a => (p.1, PyVal.atom a)
    | .atom a => [(p.1, .atom a)]

def cellOf : PyVal → Atom
  | .atom a => a
  | .list _ => .other "list".toList

def finish (ord : NullOrder) (na : List Str) (id : Str) (st : List (FR × PyVal)) : Frame :=
  let st := match ord with
    | .dropnaThenExplode => explode (removeNulls na st)
    | .explodeThenDropna => removeNulls na (explode st)
  st.map fun p => setCol p.1 id (cellOf p.2)

/-! ### `execute_fnml` -/

def poisonAll (fr : Frame) (id : Str) (name : String) : Frame := fr.map fun σ => setCol σ id (.exc name.toList)

/-- L73-76: the loop over the inputs, executing every `RML_EXECUTION` input on the whole frame, in row order of `fnml_df` -/
def innerPhase (exec : Str → Frame → Frame) : List FRow → Frame → Frame
  | [], fr => fr
  | r :: rs, fr => innerPhase exec rs (if r.vtype = .execution then exec r.value fr else fr)

/-- the function call level (L78-112) for a frame on which the inner executions have run -/
def callLevel (env : FunEnv) (rows : List FRow) (sig : Sig) (fn : Str) (fr : Frame) : List (FR × PyVal) :=
  fr.map fun σ => (σ, callOn env fn (bindArgs sig rows) σ)

/-- `execute_fnml(data, fnml_df, fnml_execution, config)`.  `fuel` bounds the nesting depth (a cyclic table recurses for
    ever in Python: `RecursionError`). -/
def executeFnml (env : FunEnv) (ord : NullOrder) (na : List Str) (df : FnmlDf) : Nat → Str → Frame → Frame
  | 0, id, fr => poisonAll fr id "RecursionError"
  | n + 1, id, fr =>
    let rows := rowsOf df id
    match rows with
    | [] => poisonAll fr id "IndexError"
    | r0 :: _ =>
      let fr1 := innerPhase (executeFnml env ord na df n) rows fr
      match env.sigs r0.fn with
      | none => poisonAll fr1 id "KeyError"
      | some sig => finish ord na id (callLevel env rows sig r0.fn fr1)

/-! ### `utils.get_references_in_fnml_execution` -/

def refsOfExecution (df : FnmlDf) : Nat → Str → List Str
  | 0, _ => []
  | n + 1, id =>
    (rowsOf df id).flatMap fun r =>
      match r.vtype with
      | .template => getReferencesInTemplate r.value
      | .reference => [r.value]
      | .execution => refsOfExecution df n r.value
      | _ => []

/-! ### term construction at the FNML site (`_materialize_fnml_execution` L153-175) -/

/-- Python's `str.isspace` characters (what `str.strip()` without argument removes) -/
def pyIsSpace (c : Char) : Bool :=
  let n := c.toNat
  (9 ≤ n && n ≤ 13) || (28 ≤ n && n ≤ 32) || n == 0x85 || n == 0xA0 || n == 0x1680 || (0x2000 ≤ n && n ≤ 0x200A) ||
  n == 0x2028 || n == 0x2029 || n == 0x202F || n == 0x205F || n == 0x3000

/-- `s.strip()` -/
def pyStrip (s : Str) : Str := ((s.dropWhile pyIsSpace).reverse.dropWhile pyIsSpace).reverse

def quoteLit (l : Str) : Str := ['"'] ++ l ++ ['"']

/-- the term written into `results_df[position]` for one cell of the execution column.
    `tt = none` stands for a term type none of the three branches handles: without an `else` branch nothing is assigned and the
    later access `results_df[position]` raises `KeyError`; with the `else` branch (`raw`) the value is taken as it is. -/
def fnmlTerm (site : CanonSite) (raw : Bool) (tt : Option TermType) (dt : Str) : Atom → Atom
  | .exc n => .exc n
  | .str s =>
    match tt with
    | some .literal =>
      (match literalLex site dt s with | .ok l => .str (quoteLit l) | .error _ => .exc "unsupportedShape".toList)
    | some .iri => .str (['<'] ++ pyStrip s ++ ['>'])
    | some .bnode => .str (['_', ':'] ++ s)
    | _ => if raw then .str s else .exc "KeyError".toList      -- `else: results_df[position] = results_df[fnml_execution]`, if present
  | .null r =>
    match tt with
    | some .literal =>
      -- `.str.…` on NaN is NaN; only `.astype(str)` (the xsd:integer branch) turns the NULL into the text `nan` / `None`
      if shapeOf site.ladder dt = .stripDotZero then
        (match literalLex site dt r with | .ok l => .str (quoteLit l) | .error _ => .exc "unsupportedShape".toList)
      else .null "nan".toList
    | some .iri => .exc "AttributeError".toList          -- `x.strip()` on None / float
    | some .bnode => .null "nan".toList
    | _ => if raw then .null "nan".toList else .exc "KeyError".toList
  | .other r =>
    match tt with
    | some .literal =>
      if shapeOf site.ladder dt = .stripDotZero then
        (match literalLex site dt r with | .ok l => .str (quoteLit l) | .error _ => .exc "unsupportedShape".toList)
      else .exc "nonStr".toList
    | _ => .exc "nonStr".toList

/-! ### a rule with function-valued term maps -/

/-- what the translator reads of the call sites of `_materialize_fnml_execution` -/
structure SiteShape where
  /-- the default of the `termtype` parameter (used by the language-map call, which passes none) -/
  defaultTermtype : Option TermType
  /-- term type the language-map call ends up with (`none`: the raw value, no delimiters) -/
  langTermtype : Option TermType
  /-- `x.strip()` in the IRI branch -/
  iriStrip : Bool
  /-- the termtype ladder ends in `else: results_df[position] = results_df[fnml_execution]` -/
  rawElse : Bool := false
  /-- `_materialize_fnml_execution` receives / honours `columns_alias` (it does not: the parent's function of a
      referencing object map reads the CHILD's columns) -/
  aliasAware : Bool
  deriving DecidableEq, Repr, Inhabited

structure FEnv where
  fun_ : FunEnv
  ord : NullOrder
  assign : AssignShape := .plainList
  df : FnmlDf
  site : CanonSite
  shape : SiteShape
  fuel : Nat := 32

/-- string concatenation of term columns (`a + ' ' + b`): an exception wins, then NaN -/
def concatCells (parts : List Atom) : Atom :=
  match parts.find? (·.isExc) with
  | some e => e
  | none =>
    if parts.any (fun a => match a with | .str _ => false | _ => true) then .null "nan".toList
    else .str (parts.flatMap fun a => match a with | .str s => s | _ => [])

def strRow (σ : FR) (c : Str) : Option Str := match lookup c σ with | some (.str s) => some s | _ => none

/-- `_materialize_template` for one row of the frame -/
def templateCell (cfg : TermCfg) (kind : MapType) (value : Str) (tt : Option TermType) (dt alias : Str) (σ : FR) : Atom :=
  match materializeTemplate cfg kind value tt dt alias (strRow σ) with
  | .ok s => .str s
  | .error _ => .exc "KeyError".toList

/-- a function-valued position whose string operations raise on a float64 column (every branch except the literal one
    under a datatype whose ladder entry starts with `.astype(str)`) -/
def fnPositionAborts (site : CanonSite) (tt : Option TermType) (dt : Str) : Bool :=
  !(tt = some TermType.literal && shapeOf site.ladder dt = .stripDotZero)

/-- a float NaN (as opposed to `None`) -/
def isFloatNan : PyVal → Bool
  | .atom (.null r) => r = "nan".toList
  | _ => false

/-- pandas infers dtype float64 for the list assigned by `data[fnml_execution] = exec_res` (after the inner executions): the list is
    EMPTY (the frame has no rows) or every result is a float NaN -/
def emptyAtAssign (env : FunEnv) (ord : NullOrder) (na : List Str) (df : FnmlDf) : Nat → Str → Frame → Bool
  | 0, _, _ => false
  | n + 1, id, fr =>
    match rowsOf df id with
    | [] => false
    | r0 :: rs =>
      match env.sigs r0.fn with
      | none => false
      | some sig =>
        (callLevel env (r0 :: rs) sig r0.fn (innerPhase (executeFnml env ord na df n) (r0 :: rs) fr)).all fun p => isFloatNan p.2

/-- the frame of a rule under construction, and the exception that ended the run regardless of the rows, if any -/
structure RuleState where
  abort : Option Str := none
  frame : Frame
  deriving Repr

/-- the frame after one position of `_materialize_rml_rule_terms`: `_materialize_template` or `_materialize_fnml_execution` -/
def posFrame (E : FEnv) (env : Env) (pos : Str) (kind : MapType) (value : Str) (tt : Option TermType) (dt alias : Str)
    (fr : Frame) : Frame :=
  match kind with
  | .execution =>
    (executeFnml E.fun_ E.ord env.na E.df E.fuel value fr).map fun σ => setCol σ pos (fnmlTerm E.site E.shape.rawElse tt dt (getCol σ value))
  | _ => fr.map fun σ => setCol σ pos (templateCell env.cfg kind value tt dt alias σ)

/-- With a plain-list assignment of the result column, an execution that finds NO ROWS leaves a float64 column, on which every
    string operation of the term construction raises. -/
def posAborts (E : FEnv) (env : Env) (kind : MapType) (value : Str) (tt : Option TermType) (dt : Str) (fr : Frame) : Bool :=
  kind = MapType.execution && E.assign = .plainList && emptyAtAssign E.fun_ E.ord env.na E.df E.fuel value fr &&
  fnPositionAborts E.site tt dt

def positionStep (E : FEnv) (env : Env) (pos : Str) (kind : MapType) (value : Str) (tt : Option TermType) (dt alias : Str)
    (st : RuleState) : RuleState :=
  if st.abort.isSome then st
  else if posAborts E env kind value tt dt st.frame then { st with abort := some "emptyFrame".toList }
  else { st with frame := posFrame E env pos kind value tt dt alias st.frame }

def sSubject : Str := "subject".toList
def sPredicate : Str := "predicate".toList
def sObject : Str := "object".toList
def sLangDt : Str := "lang_datatype".toList
def sGraph : Str := "graph".toList
def sTriple : Str := "triple".toList

def mapFrame (f : FR → FR) (st : RuleState) : RuleState := { st with frame := st.frame.map f }

/-- `_materialize_rml_rule_terms` + triple assembly + graph, on a frame -/
def ruleFrame (E : FEnv) (env : Env) (r : Rule) (objKind : MapType) (objValue alias : Str) (fr : Frame) : RuleState :=
  let st : RuleState := { frame := fr }
  let st := positionStep E env sSubject r.subjectMapType r.subjectMapValue (some r.subjectTermtype) [] [] st
  let st := positionStep E env sPredicate r.predicateMapType r.predicateMapValue (some .iri) [] [] st
  let st := positionStep E env sObject objKind objValue (some r.objectTermtype) (litDatatype r) alias st
  let st := match r.langDatatype, r.langDatatypeMapType with
    | some .languageMap, some mt =>
      let st := positionStep E env sLangDt mt r.langDatatypeMapValue
        (if mt = MapType.execution then E.shape.langTermtype else none) [] [] st
      mapFrame (fun σ => setCol σ sObject (concatCells [getCol σ sObject, .str ['@'], getCol σ sLangDt])) st
    | some .datatypeMap, some mt =>
      let st := positionStep E env sLangDt mt r.langDatatypeMapValue (some .iri) [] [] st
      mapFrame (fun σ => setCol σ sObject (concatCells [getCol σ sObject, .str ['^', '^'], getCol σ sLangDt])) st
    | _, _ => st
  let st := mapFrame (fun σ => setCol σ sTriple
    (concatCells [getCol σ sSubject, .str [' '], getCol σ sPredicate, .str [' '], getCol σ sObject])) st
  match env.fmt with
  | .ntriples => st
  | .nquads =>
    let st :=
      if r.graphMapType = MapType.execution then positionStep E env sGraph MapType.execution r.graphMapValue (some .iri) [] [] st
      else if r.graphMapValue ≠ env.defaultGraph then
        positionStep E env sGraph r.graphMapType r.graphMapValue (some .iri) [] [] st
      else mapFrame (fun σ => setCol σ sGraph (.str [])) st
    mapFrame (fun σ => setCol σ sTriple (concatCells [getCol σ sTriple, .str [' '], getCol σ sGraph])) st

/-- references of a term map, functions included (`_get_references_in_rml_rule`) -/
def refsOfMapF (E : FEnv) (mt : MapType) (v : Str) : List Str :=
  match mt with
  | .execution => refsOfExecution E.df E.fuel v
  | _ => refsOfMap mt v

def refsOfRuleF (E : FEnv) (r : Rule) (onlySubject : Bool := false) : List Str :=
  if onlySubject then refsOfMapF E r.subjectMapType r.subjectMapValue
  else
    refsOfMapF E r.subjectMapType r.subjectMapValue ++ refsOfMapF E r.predicateMapType r.predicateMapValue ++
    refsOfMapF E r.objectMapType r.objectMapValue ++ refsOfMapF E r.graphMapType r.graphMapValue ++
    (match r.langDatatypeMapType with | some mt => refsOfMapF E mt r.langDatatypeMapValue | none => []) ++
    r.subjectJoin.map (·.1) ++ r.objectJoin.map (·.1)

/-- the result of one rule: the run aborts, or a collection whose members are statements or float `nan` objects -/
inductive Outcome
  | abort (name : Str)
  | ok (members : List (Option Str))
  deriving DecidableEq, Repr, Inhabited

def outcomeOf (fr : Frame) : Outcome :=
  let cells := fr.map fun σ => getCol σ sTriple
  match cells.find? (·.isExc) with
  | some (.exc n) => .abort n
  | _ => .ok (cells.map fun a => match a with | .str s => some s | _ => none)

def toFR (ρ : SRow) : FR := ρ.map fun kv => (kv.1, Atom.str kv.2)

def Outcome.toExcept : Outcome → Except Str (List (Option Str))
  | .abort n => .error n
  | .ok ms => .ok ms

/-- the frame-level part of a rule and its outcome -/
def runRule (E : FEnv) (env : Env) (r : Rule) (objKind : MapType) (objValue alias : Str) (fr : Frame) : Outcome :=
  let st := ruleFrame E env r objKind objValue alias fr
  match st.abort with
  | some n => .abort n
  | none => outcomeOf st.frame

/-- `_materialize_rml_rule` (nest level 0; plain rules and referencing object maps) for rules that may use functions -/
def evalRuleF (E : FEnv) (env : Env) (rules : List Rule) (r : Rule) : Outcome :=
  if isAllConstant r then
    -- L240-243: a one-row placeholder frame (no function is involved: all four term maps are constants)
    runRule E env r r.objectMapType r.objectMapValue [] [[]]
  else if r.objectMapType = .parentTM then
    match findRule rules r.objectMapValue with
    | none => .abort "IndexError".toList
    | some parent =>
      let refs := refsOfRuleF E r
      let prefs := refsOfRuleF E parent true ++ r.objectJoin.map (·.2)
      match preprocess env.na refs (env.table r), preprocess env.na prefs (env.table parent) with
      | .ok data, .ok pdata =>
        let merged := mergeData data pdata r.objectJoin
        -- the parent's subject map becomes the object map; the `parent_` alias reaches `_materialize_template` only
        runRule E env r parent.subjectMapType parent.subjectMapValue "parent_".toList (merged.map toFR)
      | _, _ => .abort "KeyError".toList
  else
    match preprocess env.na (refsOfRuleF E r) (env.table r) with
    | .ok data => runRule E env r r.objectMapType r.objectMapValue [] (data.map toFR)
    | .error _ => .abort "KeyError".toList

/-- `materialize_set`: union over the asserted rules -/
def evalAllF (E : FEnv) (env : Env) (rules : List Rule) : Except Str (List (Option Str)) := do
  let parts ← (rules.filter (·.asserted)).mapM fun r => (evalRuleF E env rules r).toExcept
  pure (@dedupFirst (Option Str) instBEqOfDecidableEq parts.flatten)

/-- the same, group by group (groups in label order), as `materialize_set` does it -/
def evalGroupedF (E : FEnv) (env : Env) (rules : List Rule) : Except Str (List (Option Str)) := do
  let asserted := rules.filter (·.asserted)
  let labels := dedupFirst (asserted.map (·.partition))
  let groups ← labels.mapM fun l => do
    let parts ← (asserted.filter (·.partition = l)).mapM fun r => (evalRuleF E env rules r).toExcept
    pure (@dedupFirst (Option Str) instBEqOfDecidableEq parts.flatten)
  pure (@dedupFirst (Option Str) instBEqOfDecidableEq groups.flatten)

end Model.Fnml
