/-
C10 — executable CONTRACTS of the third-party decoders the source readers call, as far as string cells are concerned:

  * `Csv.parse`: pandas' C tokenizer (`pandas/_libs/src/parser/tokenizer.c`, `tokenize_bytes` + `parser_handle_eof`) under the keyword
    arguments of `data_file._read_csv` (`Gen.csvOpts`): one-character `sep`, `quotechar='"'`, `doublequote=True`, no `escapechar`,
    `skipinitialspace=False`, `quoting=QUOTE_MINIMAL`, default line terminators (LF, CR, CRLF), `skip_blank_lines=True`, no comment
    character, not strict.  State by state; the states that cannot be reached with these arguments are left out.
  * `jsonUnescape`: the string scanner of `json.loads` (strict): `\" \\ \/ \b \f \n \r \t \uXXXX`, no raw control characters.
  * `xmlDecodeText`: character data / attribute values as an XML 1.0 parser (expat) delivers them: line ends normalised (§2.11),
    the five predefined entities and numeric character references resolved.
  * `sqlUnquote`: a string literal of SQL (`'…'`, `''` for a quote) as SQLite reads it.

They are tied to the real decoders by the correspondence I12 of tools/props/C10.py (the real readers are fed the bytes rendered by
`Spec.Payload`, and the CSV tokenizer is also compared with pandas on arbitrary small texts).
-/
import MorphKgc.Py.Str

namespace Model
open Py

namespace Csv

inductive St
  | startRecord | startField | inField | wsLine | inQuoted | quoteInQuoted | eatCrnl | eatCrnlNop
  deriving DecidableEq, Repr, Inhabited

/-- tokenizer state: the field being read, the fields of the current record, the finished records -/
structure Cfg where
  st : St := .startRecord
  cur : Str := []
  row : List Str := []
  acc : List (List Str) := []
  deriving DecidableEq, Repr, Inhabited

def isBlank (c : Char) : Bool := c = ' ' || c = '\t'

/-- `PUSH_CHAR` -/
def push (g : Cfg) (c : Char) : Cfg := { g with cur := g.cur ++ [c] }
/-- `END_FIELD` -/
def endField (g : Cfg) (st : St) : Cfg := { g with cur := [], row := g.row ++ [g.cur], st := st }
/-- `END_LINE` (after the last `END_FIELD`) -/
def endLine (g : Cfg) (st : St) : Cfg := { st := st, cur := [], row := [], acc := g.acc ++ [g.row] }

def stepStartField (sep : Char) (g : Cfg) (c : Char) : Cfg :=
  if c = '\n' then endLine (endField g .startRecord) .startRecord
  else if c = '\r' then endField g .eatCrnl
  else if c = '"' then { g with st := .inQuoted }
  else if c = sep then endField g .startField
  else { push g c with st := .inField }

def stepInField (sep : Char) (g : Cfg) (c : Char) : Cfg :=
  if c = '\n' then endLine (endField g .startRecord) .startRecord
  else if c = '\r' then endField g .eatCrnl
  else if c = sep then endField g .startField
  else { push g c with st := .inField }

/-- `START_RECORD`: empty lines are skipped; a blank that is not the separator may begin a whitespace-only line -/
def stepStartRecord (sep : Char) (g : Cfg) (c : Char) : Cfg :=
  if c = '\n' then g
  else if c = '\r' then { g with st := .eatCrnlNop }
  else if isBlank c && c ≠ sep then { push g c with st := .wsLine }
  else stepStartField sep g c

/-- `WHITESPACE_LINE`: a line of blanks only is skipped like an empty line; any other character makes the blanks read so far the
    beginning of an ordinary field (the C code backtracks to the start of the line) -/
def stepWsLine (sep : Char) (g : Cfg) (c : Char) : Cfg :=
  if c = '\n' then { g with cur := [], st := .startRecord }
  else if c = '\r' then { g with cur := [], st := .eatCrnlNop }
  else if isBlank c && c ≠ sep then push g c
  else stepInField sep g c

def stepQuoteInQuoted (sep : Char) (g : Cfg) (c : Char) : Cfg :=
  if c = '"' then { push g c with st := .inQuoted }
  else if c = sep then endField g .startField
  else if c = '\n' then endLine (endField g .startRecord) .startRecord
  else if c = '\r' then endField g .eatCrnl
  else { push g c with st := .inField }

def step (sep : Char) (g : Cfg) (c : Char) : Cfg :=
  match g.st with
  | .startRecord => stepStartRecord sep g c
  | .startField => stepStartField sep g c
  | .inField => stepInField sep g c
  | .wsLine => stepWsLine sep g c
  | .inQuoted => if c = '"' then { g with st := .quoteInQuoted } else push g c
  | .quoteInQuoted => stepQuoteInQuoted sep g c
  | .eatCrnl =>
    -- after CR: LF belongs to the terminator; the separator ends the line AND an empty first field; anything else is reread
    if c = '\n' then endLine g .startRecord
    else if c = sep then endField (endLine g .startField) .startField
    else stepStartRecord sep (endLine g .startRecord) c
  | .eatCrnlNop =>
    -- after the CR of a skipped line: LF and (a quirk) the separator are swallowed, anything else is reread
    if c = '\n' || c = sep then { g with st := .startRecord }
    else stepStartRecord sep { g with st := .startRecord } c

def run (sep : Char) (g : Cfg) (s : Str) : Cfg := s.foldl (step sep) g

/-- `parser_handle_eof`; `none` = "EOF inside string" -/
def finish (g : Cfg) : Option (List (List Str)) :=
  match g.st with
  | .startRecord | .wsLine | .eatCrnlNop => some g.acc
  | .inQuoted => none
  | .inField | .startField | .quoteInQuoted => some (g.acc ++ [g.row ++ [g.cur]])
  | .eatCrnl => some (g.acc ++ [g.row])

/-- the records of a CSV text -/
def parse (sep : Char) (s : Str) : Option (List (List Str)) := finish (run sep {} s)

/-- `pd.read_table(…, header=0 (inferred), dtype=str, na_filter=False)` on rectangular records: the first record names the columns -/
def frame : List (List Str) → List (List (Str × Str))
  | [] => []
  | h :: rows => rows.map fun r => h.zip r

end Csv

/-! ## JSON strings -/

def hexVal (c : Char) : Option Nat :=
  if '0' ≤ c ∧ c ≤ '9' then some (c.toNat - 48)
  else if 'a' ≤ c ∧ c ≤ 'f' then some (c.toNat - 87)
  else if 'A' ≤ c ∧ c ≤ 'F' then some (c.toNat - 55)
  else none

def hex4Val (a b c d : Char) : Option Nat :=
  match hexVal a, hexVal b, hexVal c, hexVal d with
  | some x, some y, some z, some w => some (x * 4096 + y * 256 + z * 16 + w)
  | _, _, _, _ => none

/-- the character a one-letter escape stands for -/
def jsonSimpleEscape (e : Char) : Option Char :=
  if e = '"' then some '"' else if e = '\\' then some '\\' else if e = '/' then some '/' else if e = 'b' then some '\x08'
  else if e = 'f' then some '\x0c' else if e = 'n' then some '\n' else if e = 'r' then some '\r' else if e = 't' then some '\t'
  else none

inductive JSt
  | normal
  /-- after a backslash -/
  | esc
  /-- after `\\u`, with the hexadecimal digits read so far -/
  | uni (ds : List Char)
  deriving DecidableEq, Repr

def jsonGo : JSt → Str → Option Str
  | .normal, [] => some []
  | .esc, [] => none
  | .uni _, [] => none
  | .normal, c :: r =>
    if c = '\\' then jsonGo .esc r
    else if c = '"' ∨ c.toNat < 32 then none
    else (jsonGo .normal r).map (c :: ·)
  | .esc, e :: r =>
    if e = 'u' then jsonGo (.uni []) r
    else match jsonSimpleEscape e with
      | some ch => (jsonGo .normal r).map (ch :: ·)
      | none => none
  | .uni ds, c :: r =>
    match ds with
    | [a, b, c3] =>
      match hex4Val a b c3 c with
      | some n => if 0xD800 ≤ n ∧ n ≤ 0xDFFF then none else (jsonGo .normal r).map (Char.ofNat n :: ·)
      | none => none
    | _ => jsonGo (.uni (ds ++ [c])) r

/-- the content of a JSON string literal (between the quotes) -> the string; `none` = `JSONDecodeError`.
    Surrogate escapes (`\\ud800`–`\\udfff`) are outside the model. -/
def jsonUnescape (s : Str) : Option Str := jsonGo .normal s

/-! ## XML character data -/

/-- decimal digits -> number -/
def decVal (ds : Str) : Option Nat :=
  if ds = [] then none else ds.foldl (fun acc c => acc.bind fun n => if '0' ≤ c ∧ c ≤ '9' then some (n * 10 + (c.toNat - 48)) else none) (some 0)

/-- a reference without its `&`, up to and excluding `;` -> its replacement -/
def xmlRef (name : Str) : Option Char :=
  if name = "amp".toList then some '&' else if name = "lt".toList then some '<' else if name = "gt".toList then some '>'
  else if name = "quot".toList then some '"' else if name = "apos".toList then some '\''
  else match name with
    | '#' :: ds => (decVal ds).map Char.ofNat
    | _ => none

/-- one pass: `pend` = the name of the reference being read, `afterCR` = the previous character was a literal CR -/
def xmlDecodeGo (pend : Option Str) (afterCR : Bool) : Str → Option Str
  | [] => if pend.isSome then none else some []
  | c :: r =>
    match pend with
    | some name =>
      if c = ';' then
        match xmlRef name with
        | some ch => (xmlDecodeGo none false r).map (ch :: ·)
        | none => none
      else xmlDecodeGo (some (name ++ [c])) false r
    | none =>
      if c = '&' then xmlDecodeGo (some []) false r
      else if c = '<' then none
      else if c = '\r' then (xmlDecodeGo none true r).map ('\n' :: ·)
      else if c = '\n' && afterCR then xmlDecodeGo none false r
      else (xmlDecodeGo none false r).map (c :: ·)

/-- character data between two tags (or an attribute value between its quotes) as the parser reports it: line ends normalised
    (a literal CR LF or CR becomes LF), entity and decimal character references resolved -/
def xmlDecodeText (s : Str) : Option Str := xmlDecodeGo none false s

/-! ## quoted text with the quote doubled: SQL string literals and delimited identifiers -/

/-- `afterQ` = the previous character was a quote that is either the closing one or the first of a doubled pair -/
def unquoteGo (q : Char) (afterQ : Bool) : Str → Option Str
  | [] => if afterQ then some [] else none
  | c :: r =>
    if afterQ then (if c = q then (unquoteGo q false r).map (q :: ·) else none)
    else if c = q then unquoteGo q true r
    else (unquoteGo q false r).map (c :: ·)

def unquoteDoubled (q : Char) : Str → Option Str
  | [] => none
  | c :: r => if c = q then unquoteGo q false r else none

/-- `'…'` -> the string; `none` = not one complete literal -/
def sqlUnquote (s : Str) : Option Str := unquoteDoubled '\'' s

/-- a delimited identifier `"…"` -> the name -/
def sqlUnquoteIdent (s : Str) : Option Str := unquoteDoubled '"' s

end Model
