/-
Model of the two loading entry points of `src/morph_kgc/__init__.py` as they are:

    triples = materialize_set(config, python_source)
    graph = Graph()                      -- / Store()
    if triples:
        rdf_ntriples = '.\n'.join(triples) + '.'
        graph.parse(data=rdf_ntriples, format='nquads')      -- / bulk_load(BytesIO(text.encode()), 'application/n-quads')
    return graph

The separator, terminator, guard, format string, input expression and target constructor are *generated*
(`Gen/Loader.lean`, by tools/gen/C18.py from the AST); this file only gives them a meaning.
-/
import MorphKgc.Py.Str

namespace Model
open Py

/-- `sep.join(ls) + term` -/
def joinForLoader (sep term : Str) (ls : List Str) : Str := Py.join sep ls ++ term

/-- the guard in front of the parse call -/
inductive LoaderGuard
  | truthy        -- `if triples:`  (a non-empty set)
  | always        -- no guard
  deriving DecidableEq, Repr

structure LoaderShape where
  sep : Str
  term : Str
  guard : LoaderGuard
  /-- `format=` of `Graph.parse` / second argument of `Store.bulk_load` -/
  format : Str
  /-- the set comes from `materialize_set(<the function's own parameters, in order>)` and is not touched before the join -/
  sameArgs : Bool
  /-- constructor of the returned object: `Graph` / `Store` -/
  target : Str
  deriving DecidableEq, Repr

/-- what the entry point does with the set `ls` (in some iteration order) -/
inductive LoaderAction
  | skip                              -- the parser is not invoked; the fresh graph / store is returned
  | parse (text : Str) (format : Str)
  deriving DecidableEq, Repr

def loaderAction (sh : LoaderShape) (ls : List Str) : LoaderAction :=
  match sh.guard, ls with
  | .truthy, [] => .skip
  | _, _ => .parse (joinForLoader sh.sep sh.term ls) sh.format

/-- Content of the returned graph / store, given the third-party parser `P format text`
    (`none` = the parser raises).  A fresh `Graph()` / `Store()` is empty. -/
def loaderResult {α} (P : Str → Str → Option (List α)) (sh : LoaderShape) (ls : List Str) : Option (List α) :=
  match loaderAction sh ls with
  | .skip => some []
  | .parse text fmt => P fmt text

end Model
