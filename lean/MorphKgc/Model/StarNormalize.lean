/-
From an abstract RML-star document to the rule table the materializer sees:

* `rulesOfTm`: the *result* of `_parse_data_source_mapping_files` for one triples map (as `Model.rulesOfTm`, with quoted
  maps: map type `rml:quotedTriplesMap`, term type `rml:RDFstarTriple` completed by `_complete_termtypes`, the join
  conditions of the term map, `triples_map_type` from `_complete_triples_map_class`);
* `expandStep`: `MappingParser._expand_rml_star`, statement by statement (`#TM<i>` ids by position, one appended copy of a
  quoting rule per id of the quoted triples map — subject position first, then object position on the enlarged table —,
  the first-id substitution applied to *every* rule's subject and object value, `drop_duplicates`, ids become the
  triples map ids);
* `normalizeStar`: `_normalize_rml_star`, the loop `expand; if unchanged length: stop; else: expand` (fuelled: `none` = the
  loop did not stop within the fuel).
-/
import MorphKgc.Model.Normalize
import MorphKgc.Model.Star
import MorphKgc.Spec.Star

namespace Model.Star
open Py Model Spec Spec.Star

def posOf (p : Pos) : MapType × Str × TermType × List (Str × Str) :=
  match p with
  | .term tm => ((mapOf tm).1, (mapOf tm).2, tm.termType, [])
  | .quoted id conds => (.quoted, id, .star, conds)

def graphsOf (tm : STm) (own : List TermMap) : List (MapType × Str) :=
  let gs := (tm.graphs ++ own).map mapOf
  if gs = [] then [(.constant, defaultGraphIri)] else dedupFirst gs

def baseRuleS (tm : STm) : Rule :=
  let (st, sv, stt, sj) := posOf tm.subject
  { sourceName := tm.sourceName, tmId := tm.id, logicalSourceValue := tm.lsv, asserted := tm.asserted,
    subjectMapType := st, subjectMapValue := sv, subjectTermtype := stt, subjectJoin := sj }

/-- the flat rules of one triples map before `_normalize_rml_star` -/
def rulesOfTm (tm : STm) : List Rule :=
  let b := baseRuleS tm
  let classRules := tm.classes.flatMap fun c =>
    (graphsOf tm []).map fun g =>
      { b with predicateMapType := .constant, predicateMapValue := rdfTypeIri,
               objectMapType := .constant, objectMapValue := c, objectTermtype := .iri,
               graphMapType := g.1, graphMapValue := g.2 }
  let pomRules := tm.poms.flatMap fun pom =>
    pom.predicates.flatMap fun p => pom.objects.flatMap fun o => (graphsOf tm pom.graphs).map fun g =>
      let (pt, pv) := mapOf p
      match o with
      | .term otm =>
        let (ot, ov) := mapOf otm
        let (ld, ldt, ldv) := langDt otm
        { b with predicateMapType := pt, predicateMapValue := pv, objectMapType := ot, objectMapValue := ov,
                 objectTermtype := otm.termType, langDatatype := ld, langDatatypeMapType := ldt, langDatatypeMapValue := ldv,
                 graphMapType := g.1, graphMapValue := g.2 }
      | .quoted id conds =>
        { b with predicateMapType := pt, predicateMapValue := pv, objectMapType := .quoted, objectMapValue := id,
                 objectTermtype := .star, objectJoin := conds, graphMapType := g.1, graphMapValue := g.2 }
  let rs := classRules ++ pomRules
  -- a triples map without predicate-object maps is typed non-asserted by `_complete_triples_map_class`
  if rs = [] then [{ b with asserted := false }] else rs

def rulesOfDoc (doc : SDoc) : List Rule := dedupFirst (doc.tms.flatMap rulesOfTm)

/-! ### `_expand_rml_star` -/

def ruleId (i : Nat) : Str := Gen.Star.idPrefix ++ (Nat.repr i).toList

def withIdsFrom : Nat → List Rule → List (Rule × Str)
  | _, [] => []
  | k, r :: rs => (r, ruleId k) :: withIdsFrom (k + 1) rs

/-- `rml_df.insert(0, 'id', '#TM' + position)` -/
def withIds (rules : List Rule) : List (Rule × Str) := withIdsFrom 0 rules

/-- `tm_to_id_list_dict[tm]` -/
def idsOf (w0 : List (Rule × Str)) (tm : Str) : List Str := (w0.filter (fun p => p.1.tmId = tm)).map (·.2)

/-- `tm_to_id_dict.get(v, v)` (the `.map(...).fillna(...)` of the value columns) -/
def firstId (w0 : List (Rule × Str)) (v : Str) : Str := (idsOf w0 v).headD v

def quotedAt (subj : Bool) (r : Rule) : Bool := if subj then r.subjectMapType = .quoted else r.objectMapType = .quoted
def valAt (subj : Bool) (r : Rule) : Str := if subj then r.subjectMapValue else r.objectMapValue
def setVal (subj : Bool) (r : Rule) (v : Str) : Rule :=
  if subj then { r with subjectMapValue := v } else { r with objectMapValue := v }

/-- the copies one rule contributes to a position's pass: one per id of the quoted triples map (a copy keeps the `id` of its origin) -/
def expandRow (subj : Bool) (w0 : List (Rule × Str)) (p : Rule × Str) : Except Err (List (Rule × Str)) :=
  if quotedAt subj p.1 then
    match idsOf w0 (valAt subj p.1) with
    | [] => .error (.noRule (valAt subj p.1))
    | ids => .ok ((if Gen.Star.expandWholeList then ids else ids.take 1).map fun q => (setVal subj p.1 q, p.2))
  else .ok []

/-- one position's pass: for every rule of the current table whose map at the position is a quoted map, the copies are appended -/
def expandPos (subj : Bool) (w0 w : List (Rule × Str)) : Except Err (List (Rule × Str)) :=
  match w.mapM (expandRow subj w0) with
  | .ok adds => .ok (w ++ adds.flatten)
  | .error e => .error e

/-- the substitution of first ids in the two value columns (`tm_to_id_dict`), as guarded as the source says -/
def refersToTm (mt : MapType) : Bool := mt = .parentTM || mt = .quoted

def mapFirst (w0 : List (Rule × Str)) (r : Rule) : Rule :=
  if Gen.Star.expandRewriteGuarded then
    { r with subjectMapValue := if refersToTm r.subjectMapType then firstId w0 r.subjectMapValue else r.subjectMapValue,
             objectMapValue := if refersToTm r.objectMapType then firstId w0 r.objectMapValue else r.objectMapValue }
  else
    { r with subjectMapValue := firstId w0 r.subjectMapValue, objectMapValue := firstId w0 r.objectMapValue }

def expandStep (rules : List Rule) : Except Err (List Rule) :=
  let w0 := withIds rules
  match expandPos true w0 w0 with
  | .error e => .error e
  | .ok w1 =>
    match expandPos false w0 w1 with
    | .error e => .error e
    | .ok w2 => .ok ((dedupFirst (w2.map fun p => (mapFirst w0 p.1, p.2))).map fun p => { p.1 with tmId := p.2 })

/-- `_normalize_rml_star`; state = (`num_rules_before_expansion`, table) at the head of the `while True` -/
def normLoop : Nat → Nat → List Rule → Except Err (Option (List Rule))
  | 0, _, _ => pure none
  | fuel + 1, num, rules => do
    let r1 ← expandStep rules
    if num = r1.length then pure (some r1)
    else do
      let r2 ← expandStep r1
      normLoop fuel r1.length r2

def normalizeStar (rules : List Rule) : Except Err (Option (List Rule)) := normLoop (rules.length + 2) rules.length rules

/-- `_preprocess_mappings` on the rules of a document: star normalisation, then self-join elimination -/
def normalizeDocStar (doc : SDoc) : Except Err (Option (List Rule)) := do
  match ← normalizeStar (rulesOfDoc doc) with
  | none => pure none
  | some rs => pure (some (rs.map (eliminateSelfJoin rs)))

end Model.Star
