/-
C07: the facts of the join code that the translator (`tools/gen/C07.py`) reads from the Python source on every run
(`materializer._merge_data`, the referencing-object-map branch of `_materialize_rml_rule`,
`_add_references_in_join_condition`, `utils.get_references_in_join_condition`,
`mapping_parser._get_join_conditions_dict`, `JOIN_CONDITION_PARSING_QUERY`,
`MappingParser._remove_self_joins_no_condition`), as Lean data.  `Gen/Join.lean` holds the current values.
-/
import MorphKgc.Py.Str

namespace Model
open Py

/-- the `how=` of `DataFrame.join` / `DataFrame.merge` -/
inductive JoinHow | inner | left | right | outer | cross
  deriving DecidableEq, Repr, Inhabited

/-- which list of join references (child side / parent side of the conditions) an argument is fed with -/
inductive Side | child | parent
  deriving DecidableEq, Repr, Inhabited

/-- `materializer._merge_data` -/
structure MergeShape where
  /-- `parent_data = parent_data.add_prefix(<this>)` -/
  addPrefix : Str
  /-- `parent_join_references = [<this> + reference for reference in parent_join_references]` -/
  refPrefix : Str
  /-- the index path is taken when `len(child_join_references) == <this>` -/
  indexPathLen : Nat
  /-- `data.set_index(<side> references, drop=…)` -/
  indexChildBy : Side
  /-- `parent_data.set_index(<side> references, drop=…)` -/
  indexParentBy : Side
  /-- `drop=` of both `set_index` calls (true if they differ: then the translator fails anyway) -/
  indexDrop : Bool
  /-- `data.join(parent_data, how=…)` (pandas default `left`) -/
  joinHow : JoinHow
  /-- `data.merge(parent_data, how=…)` (pandas default `inner`) -/
  mergeHow : JoinHow
  mergeLeftOn : Side
  mergeRightOn : Side
  deriving DecidableEq, Repr, Inhabited

/-- the shape the theorems are proved for -/
def MergeShape.expected : MergeShape :=
  { addPrefix := "parent_".toList, refPrefix := "parent_".toList, indexPathLen := 1, indexChildBy := .child,
    indexParentBy := .parent, indexDrop := false, joinHow := .inner, mergeHow := .inner,
    mergeLeftOn := .child, mergeRightOn := .parent }

/-- how a join condition travels from the mapping to the two reference lists -/
structure JoinCondShape where
  /-- `JOIN_CONDITION_PARSING_QUERY`: (local name of the RML property, SPARQL variable bound to its value) -/
  queryVars : List (Str × Str)
  /-- `_get_join_conditions_dict`: (dictionary key, attribute of the result row stored under it) -/
  dictKeys : List (Str × Str)
  /-- `get_references_in_join_condition`: dictionary key appended to the FIRST returned list -/
  firstListKey : Str
  /-- … and to the SECOND returned list -/
  secondListKey : Str
  deriving DecidableEq, Repr, Inhabited

/-- the RML property whose value ends up in the list fed by dictionary key `k` -/
def JoinCondShape.propertyOf (s : JoinCondShape) (k : Str) : Option Str :=
  match s.dictKeys.find? (fun p => p.1 = k) with
  | none => none
  | some dk => (s.queryVars.find? (fun p => p.2 = dk.2)).map (·.1)

/-- the first list holds the `rml:child` columns, the second the `rml:parent` columns -/
def JoinCondShape.OK (s : JoinCondShape) : Bool :=
  s.propertyOf s.firstListKey == some "child".toList && s.propertyOf s.secondListKey == some "parent".toList

/-- the referencing-object-map branch of `_materialize_rml_rule` -/
structure RefBranchShape where
  /-- parent references start from `_get_references_in_rml_rule(parent, …, only_subject_map=True)` -/
  parentSubjectOnly : Bool
  /-- `_add_references_in_join_condition` adds the parent side of the conditions to the parent references -/
  parentJoinRefsAdded : Bool
  /-- … and the child side to the child references -/
  childJoinRefsAdded : Bool
  /-- `columns_alias=` of the term materialisation of the merged frame -/
  alias : Str
  /-- the object term is built from the parent's subject map (`object_map_type/value := parent subject_map_type/value`) -/
  objectFromParentSubject : Bool
  deriving DecidableEq, Repr, Inhabited

def RefBranchShape.expected : RefBranchShape :=
  { parentSubjectOnly := true, parentJoinRefsAdded := true, childJoinRefsAdded := true, alias := "parent_".toList,
    objectFromParentSubject := true }

/-- extra condition on the parent subject map under which `_remove_self_joins_no_condition` rewrites a join -/
inductive SubjRefsCond
  /-- none (the code as found) -/
  | unchecked
  /-- only when the set of parent subject references equals the set of join columns (the proposed repair) -/
  | eqJoinCols
  deriving DecidableEq, Repr, Inhabited

/-- `MappingParser._remove_self_joins_no_condition` -/
structure ElimShape where
  /-- `rml_rule['logical_source_value'] == parent['logical_source_value']` is required -/
  sameSource : Bool
  /-- `str(rml_rule['iterator']) == str(parent['iterator'])` is required -/
  sameIterator : Bool
  /-- every condition must have `child_value == parent_value` -/
  sameColumns : Bool
  subjRefs : SubjRefsCond
  /-- `rml_rule['source_name'] == parent['source_name']` is required (both rules come from the same configuration section;
      the repair of C07_F5) -/
  sameSection : Bool
  deriving DecidableEq, Repr, Inhabited

/-- the code as found -/
def ElimShape.found : ElimShape :=
  { sameSource := true, sameIterator := true, sameColumns := true, subjRefs := .unchecked, sameSection := false }
/-- after the first repair (fixes/applied/C07_F1.diff, commit 6642bb9): still without the test of the section (finding C07_F5) -/
def ElimShape.repaired : ElimShape := { ElimShape.found with subjRefs := .eqJoinCols }
/-- the shape now: both repairs (fixes/C07_F1.diff and fixes/C07_F5.diff) -/
def ElimShape.current : ElimShape := { ElimShape.repaired with sameSection := true }

/-- how `RML_PARSING_QUERY` collects the object maps of a predicate-object map -/
inductive ObjectQueryShape
  /-- two consecutive OPTIONAL blocks binding the same variable `?object_map`: the second (referencing object maps) can only
      extend a solution in which the first (term-valued object maps) bound nothing -/
  | twoOptionals
  /-- one OPTIONAL block with the two patterns as UNION branches (the proposed repair) -/
  | union
  deriving DecidableEq, Repr, Inhabited

end Model
