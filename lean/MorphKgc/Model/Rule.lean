/-
One row of `rml_df`: a normalised ("flat") mapping rule, as produced by
`mapping_parser.MappingParser.parse_mappings` and consumed by the partitioner and the materializer.
-/
import MorphKgc.Py.Str

namespace Model
open Py

inductive MapType | constant | template | reference | execution | quoted | parentTM
  deriving DecidableEq, Repr, Inhabited

inductive TermType | iri | bnode | literal | star
  deriving DecidableEq, Repr, Inhabited

inductive LangDt | languageMap | datatypeMap
  deriving DecidableEq, Repr, Inhabited

inductive SourceType | rdb | file | memory
  deriving DecidableEq, Repr, Inhabited

inductive LogicalSourceType | source | tableName | query
  deriving DecidableEq, Repr, Inhabited

structure Rule where
  sourceName : Str := []
  tmId : Str := []
  /-- `triples_map_type == rml:TriplesMap` (non-asserted maps are only quoted / joined) -/
  asserted : Bool := true
  sourceType : SourceType := .file
  logicalSourceType : Option LogicalSourceType := some .source
  logicalSourceValue : Str := []
  iterator : Option Str := none
  subjectMapType : MapType := .template
  subjectMapValue : Str := []
  subjectTermtype : TermType := .iri
  predicateMapType : MapType := .constant
  predicateMapValue : Str := []
  objectMapType : MapType := .constant
  objectMapValue : Str := []
  objectTermtype : TermType := .iri
  langDatatype : Option LangDt := none
  langDatatypeMapType : Option MapType := none
  langDatatypeMapValue : Str := []
  graphMapType : MapType := .constant
  graphMapValue : Str := []
  /-- (child reference, parent reference) pairs; `[]` is the NaN of the DataFrame -/
  subjectJoin : List (Str × Str) := []
  objectJoin : List (Str × Str) := []
  partition : Str := []
  deriving DecidableEq, Repr, Inhabited

end Model
