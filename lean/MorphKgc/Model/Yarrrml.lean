/-
C09 — YARRRML term templates: model of `yarrrml._template_to_rml` and `yarrrml._add_template`.

A YARRRML template is text with references `$(name)`; an RML template has references `{name}` and backslash-escaped braces in its
literal text.  Both functions are parametrised by the shape the translator recognised in the source (`Gen.yTemplateKind`,
`Gen.yAddKind`): the code as it is (`raw`, `startsCount`) and the code of the proposed repairs (`escaped`, `wholeRef`).
-/
import MorphKgc.Model.Surface

namespace Model
open Py Spec

def yOpen : Str := ['$', '(']
def yClose : Str := [')']

/-- the literal text of a YARRRML template as it is copied into the RML template -/
def yLit (k : Gen.YTemplateKind) (s : Str) : Str :=
  match k with
  | .raw => s
  | .escaped => escBrace s

/-- the `while ref_ini_pos != -1` loop of `_template_to_rml`; `fuel` bounds the number of references -/
def yTemplateLoop (k : Gen.YTemplateKind) : Nat → Str → Str → Str
  | 0, acc, t => acc ++ yLit k t
  | n + 1, acc, t =>
    match breakOn yOpen t with
    | none => acc ++ yLit k t
    | some (pre, rest) =>
      match breakOn yClose rest with
      | some (name, rest') => yTemplateLoop k n (acc ++ yLit k pre ++ ['{'] ++ name ++ ['}']) rest'
      -- `find(')') == -1`: Python slices `[:-1]` for the name and keeps the whole rest
      | none => yTemplateLoop k n (acc ++ yLit k pre ++ ['{'] ++ rest.dropLast ++ ['}']) rest

/-- `_template_to_rml` -/
def yTemplateToRml (k : Gen.YTemplateKind) (t : Str) : Str := yTemplateLoop k (t.length + 1) [] t

/-- `str.count(sub)` -/
def countOcc (sub : Str) (s : Str) : Nat := (split s sub).length - 1

/-- what `_add_template` adds to a term map -/
inductive YTerm
  | reference (name : Str)
  | template (t : Str)
  | rdfType
  | constIri (v : Str)
  | constLit (v : Str)
  deriving DecidableEq, Repr, Inhabited

/-- is the template taken for a single reference? -/
def yIsReference (a : Gen.YAddKind) (t : Str) : Bool :=
  match a with
  | .startsCount => startsWith t yOpen && countOcc yOpen t == 1
  | .wholeRef => startsWith t yOpen && countOcc yOpen t == 1 && (match breakOn yClose t with | some (_, []) => true | _ => false)

/-- `_add_template` -/
def yAddTemplate (a : Gen.YAddKind) (k : Gen.YTemplateKind) (t : Str) : YTerm :=
  if yIsReference a t then .reference ((t.drop 2).dropLast)
  else if isInfix yOpen t then .template (yTemplateToRml k t)
  else if t = ['a'] then .rdfType
  else if startsWith t "http".toList || startsWith t "ftp".toList then .constIri t
  else .constLit t

/-- YARRRML syntax of an abstract template -/
def _root_.Spec.Tpl.renderY (t : Tpl) : Str := t.pre ++ t.parts.flatMap fun p => yOpen ++ p.1 ++ yClose ++ p.2

/-- the RML template text with the literal text copied as it is (no brace escaping) -/
def _root_.Spec.Tpl.renderRaw (t : Tpl) : Str := t.pre ++ t.parts.flatMap fun p => ['{'] ++ p.1 ++ ['}'] ++ p.2

end Model
