/-
C11 — the *shapes* that the translator (`tools/gen/C11.py`) reads off the Python source and writes to `Gen/RowIndep.lean`: everything in
the source that makes the result a *set* computed *row by row* —
  * the arguments of `drop_duplicates` in `_preprocess_data` (which subset, which `keep`),
  * the typing-relevant keyword arguments of the readers (`pd.read_sql_query(coerce_float=…)`, `dtype=str` / `na_filter` of the text and
    spreadsheet readers, `dtype_backend` of the columnar readers, `dtype=` of the in-memory list reader),
  * an audit of the term-construction functions: every operation on a data column is element-wise (`.str.…`, `.apply(lambda x: …)`,
    `.astype(str)`, `+`), none looks at the column as a whole (aggregates, dtype inference, sorting, grouping), and no row-count changing
    operation other than the join sits between `_preprocess_data` and the sink,
  * the call order of `_get_data` (reader, then `_preprocess_data`).
Only types live here (the generated file imports this one).
-/
import MorphKgc.Py.Str

namespace Model
open Py

/-- the `subset=` of `data.drop_duplicates(…)` in `_preprocess_data` -/
inductive DedupSubset
  /-- no `subset=`: rows are duplicates only when they agree on every (projected) column -/
  | allColumns
  /-- `subset=references` / `list(references)`: the same columns, spelled out -/
  | references
  /-- anything else (a single column, the subject's references, …) -/
  | other
  deriving DecidableEq, Repr, Inhabited

/-- the `keep=` of `drop_duplicates` -/
inductive DedupKeep | first | last | dropAll
  deriving DecidableEq, Repr, Inhabited

structure DedupShape where
  /-- `_preprocess_data` contains exactly one `data = data.drop_duplicates(…)` -/
  present : Bool
  subset : DedupSubset
  keep : DedupKeep
  deriving DecidableEq, Repr, Inhabited

/-- `relational_db.get_sql_data`: how the answer of the query becomes a frame -/
structure SqlReadShape where
  /-- the frame is `pd.read_sql_query(sql_query, con=…, …)` and is returned as it is -/
  viaReadSqlQuery : Bool
  /-- `coerce_float=False` is passed (decimal.Decimal values are not turned into float64) -/
  coerceFloatFalse : Bool
  /-- a `dtype=` / `dtype_backend=` / `parse_dates=` / `chunksize=` argument is present -/
  typingArgs : Bool
  deriving DecidableEq, Repr, Inhabited

/-- readers of text-like tabular files (`pd.read_table`, `pd.read_excel`): do they deliver strings only? -/
structure TextReadShape where
  dtypeStr : Bool
  keepDefaultNa : Bool
  naFilter : Bool
  deriving DecidableEq, Repr, Inhabited

/-- readers of typed columnar files (`pd.read_parquet`, `pd.read_feather`, `pd.read_orc`) -/
structure ColumnarReadShape where
  /-- the frame of the pandas reader is returned as it is, restricted to `columns=references` -/
  passThrough : Bool
  /-- a `dtype_backend=` argument (nullable / arrow dtypes) is present -/
  dtypeBackendArg : Bool
  deriving DecidableEq, Repr, Inhabited

/-- how `python_data.get_ram_data` strips `"` from the string cells of the object columns of a caller's DataFrame -/
inductive FrameStrip
  /-- `source_value[col] = source_value[col].apply(lambda x: …)`: pandas infers the dtype of the result anew from its cells -/
  | applyInfers
  /-- `source_value[col] = pd.Series([… for x in source_value[col]], index=source_value.index, dtype=object)`: the column stays a column of Python objects -/
  | keepsObject
  | unrecognised
  deriving DecidableEq, Repr, Inhabited

/-- audit of one term-construction function of `materializer.py` -/
structure ElementwiseAudit where
  /-- every statement of the function was classified -/
  recognised : Bool
  /-- number of element-wise column operations found (`.str.replace`, `.str.lower`, `.apply(lambda x: …)`, `.astype(str)`, `+`) -/
  elementwiseOps : Nat
  /-- number of operations that look at a whole column / the whole frame (aggregates, `convert_dtypes`, `to_numeric`, sorting, grouping,
      `drop_duplicates`, `len(df)`, …) or data-dependent control flow -/
  columnOps : Nat
  deriving DecidableEq, Repr, Inhabited

/-- what happens to the frame between `_get_data` and the sink in `_materialize_rml_rule` (plain and referencing branches) -/
structure RuleBodyShape where
  /-- `_get_data` is: one reader call per source type, then `data = _preprocess_data(data, rml_rule, references, config)`, then `return data` -/
  getDataThenPreprocess : Bool
  /-- the only row-count changing call on the data is `_merge_data` (no `drop_duplicates`, `groupby`, `head`, `sample`, `sort_values`, boolean
      indexing, …) -/
  rowPreserving : Bool
  /-- `data['triple'] = data['subject'] + ' ' + data['predicate'] + ' ' + data['object']` (row-wise concatenation) -/
  tripleIsConcat : Bool
  deriving DecidableEq, Repr, Inhabited

end Model
