/-
Model of `mapping_parser.MappingParser._infer_datatypes`: which rules receive an inferred datatype.
The catalogue lookup is a parameter (`lk`); its table part is `Model.sqlLookupWith`.
-/
import MorphKgc.Model.Rule

namespace Model
open Py

def inferRule (infer : Bool) (lk : Rule → Option Str) (r : Rule) : Rule :=
  if infer && r.sourceType == .rdb && r.objectTermtype == .literal && r.langDatatype == none
      && r.objectMapType == .reference then
    match lk r with
    | some dt => { r with langDatatype := some .datatypeMap, langDatatypeMapType := some .constant,
                          langDatatypeMapValue := dt }
    | none => r
  else r

def inferDatatypes (infer : Bool) (lk : Rule → Option Str) (rs : List Rule) : List Rule :=
  rs.map (inferRule infer lk)

end Model
