/-
Model of `mapping_partitioner.py`: term invariants, the PARTIAL-AGGREGATIONS partition (four independent
sort-and-scan passes) and the MAXIMAL partition (nested passes for all 24 position orderings, the ordering with
the most groups wins, first maximum).  A literal transcription, including the quirks (the literal-type state of
the object scan is not reset at a group boundary; the initial "global group" is that of the row with index 0).
-/
import MorphKgc.Model.Term

namespace Model
open Py

inductive PartErr | invalidTemplate (t : Str) | noParent (tm : Str)
  deriving DecidableEq, Repr

inductive PartMode | none | partialAggregations | maximal
  deriving DecidableEq, Repr

/-- the auxiliary columns `_get_term_invariants` adds, plus `literal_type` -/
structure PRule where
  idx : Nat
  rule : Rule
  sInv : Str
  pInv : Str
  oInv : Str
  gInv : Str
  /-- `literal_type` column; `none` is NaN -/
  litType : Option Str
  /-- `mapping_partition` being built -/
  label : Str := []
  deriving Repr

def invOf (mt : MapType) (v : Str) : Except PartErr Str :=
  match mt with
  | .template => match getInvariantOfTemplate v with
    | some i => .ok i
    | none => .error (.invalidTemplate v)
  | .constant => .ok v
  | _ => .ok []

def termTypeIri : TermType → Str
  | .iri => "http://w3id.org/rml/IRI".toList
  | .bnode => "http://w3id.org/rml/BlankNode".toList
  | .literal => "http://w3id.org/rml/Literal".toList
  | .star => "http://w3id.org/rml/RDFstarTriple".toList

def langDtIri : LangDt → Str
  | .languageMap => "http://w3id.org/rml/languageMap".toList
  | .datatypeMap => "http://w3id.org/rml/datatypeMap".toList

/-- `_get_term_invariants` + the `literal_type` column -/
def termInvariants (rules : List Rule) : Except PartErr (List PRule) := do
  let dynamicLit := rules.any fun r => r.langDatatypeMapType = some .reference || r.langDatatypeMapType = some .template
  let go (ir : Nat × Rule) : Except PartErr PRule := do
    let (i, r) := ir
    let s ← invOf r.subjectMapType r.subjectMapValue
    let p ← invOf r.predicateMapType r.predicateMapValue
    let o ← match r.objectMapType with
      | .parentTM => match rules.find? (fun q => q.tmId = r.objectMapValue) with
        | some parent => invOf parent.subjectMapType parent.subjectMapValue
        | none => .error (.noParent r.objectMapValue)
      | mt => invOf mt r.objectMapValue
    let g ← invOf r.graphMapType r.graphMapValue
    let lt : Option Str :=
      if dynamicLit then r.langDatatype.map langDtIri
      else if r.langDatatype.isSome then some r.langDatatypeMapValue else none
    pure { idx := i, rule := r, sInv := s, pInv := p, oInv := o, gInv := g, litType := lt }
  (List.zip (List.range rules.length) rules).mapM go

/-- NaN sorts last -/
def ltOpt : Option Str → Option Str → Bool
  | some a, some b => ltStr a b
  | some _, none => true
  | none, _ => false

/-- lexicographic comparison of key tuples given as lists of optional strings -/
def ltKeys : List (Option Str) → List (Option Str) → Bool
  | [], _ => false
  | _, [] => false
  | a :: as, b :: bs => if ltOpt a b then true else if ltOpt b a then false else ltKeys as bs

def natStr (n : Nat) : Str := (toString n).toList

/-- state of one scan -/
structure Scan where
  group : Nat := 0
  inv : Str := auxString
  lit : Str := auxString
  /-- MAXIMAL only: the partition prefix the scan is currently inside -/
  global : Str := []

inductive Pos | S | P | O | G
  deriving DecidableEq, Repr

def Pos.keys (pos : Pos) (r : PRule) : List (Option Str) :=
  match pos with
  | .S => [some r.sInv]
  | .P => [some r.pInv]
  | .O => [some (termTypeIri r.rule.objectTermtype), r.litType, some r.oInv]
  | .G => [some r.gInv]

/-- one step of a scan: the group component assigned to the rule, and the new state.
    `enforce` = all predicate (graph) maps are constants: equality instead of `startswith`. -/
def scanStep (pos : Pos) (enforce : Bool) (st : Scan) (r : PRule) : Str × Scan :=
  let same (inv : Str) : Bool := if enforce then inv = st.inv else startsWith inv st.inv
  let byInv (inv : Str) : Str × Scan :=
    if same inv then (natStr st.group, st)
    else (natStr (st.group + 1), { st with group := st.group + 1, inv := inv })
  match pos with
  | .S => if r.rule.subjectTermtype = .bnode then ("0".toList, st) else byInv r.sInv
  | .P => byInv r.pInv
  | .G => byInv r.gInv
  | .O =>
    if r.rule.objectTermtype = .bnode then ("0".toList, st)
    else if r.rule.objectTermtype = .literal then
      let lt := match r.litType with | some s => s | none => "nan".toList
      if lt ≠ st.lit then (natStr (st.group + 1), { st with group := st.group + 1, lit := lt })
      else (natStr st.group, st)
    else byInv r.oInv

def enforceFor (pos : Pos) (rs : List PRule) : Bool :=
  match pos with
  | .P => rs.all fun r => r.rule.predicateMapType = .constant
  | .G => rs.all fun r => r.rule.graphMapType = .constant
  | _ => false

/-- PARTIAL-AGGREGATIONS: one independent pass; returns (idx, component) -/
def partialPass (pos : Pos) (rs : List PRule) : List (Nat × Str) :=
  let sorted := sortBy (fun a b => ltKeys (pos.keys a) (pos.keys b)) rs
  let enforce := enforceFor pos rs
  (sorted.foldl (fun (acc : List (Nat × Str) × Scan) r =>
      let (c, st) := scanStep pos enforce acc.2 r
      ((r.idx, c) :: acc.1, st)) ([], {})).1

def componentOf (comps : List (Nat × Str)) (i : Nat) : Str :=
  match comps.find? (fun p => p.1 = i) with | some p => p.2 | none => []

def partialAggregations (rs : List PRule) : List (Nat × Str) :=
  let s := partialPass .S rs
  let p := partialPass .P rs
  let o := partialPass .O rs
  let g := partialPass .G rs
  rs.map fun r => (r.idx, componentOf s r.idx ++ ['-'] ++ componentOf p r.idx ++ ['-'] ++ componentOf o r.idx ++ ['-'] ++ componentOf g r.idx)

/-- MAXIMAL: one nested pass over the rules already labelled by the earlier positions -/
def maximalPass (pos : Pos) (rs : List PRule) : List PRule :=
  let sorted := sortBy (fun a b => ltKeys (some a.label :: pos.keys a) (some b.label :: pos.keys b)) rs
  let enforce := enforceFor pos rs
  let init : Scan := { global := match rs.find? (fun r => r.idx = 0) with | some r => r.label | none => [] }
  (sorted.foldl (fun (acc : List PRule × Scan) r =>
      let st := if acc.2.global ≠ r.label then { acc.2 with group := 0, inv := auxString, global := r.label } else acc.2
      let (c, st') := scanStep pos enforce st r
      ({ r with label := r.label ++ ['-'] ++ c } :: acc.1, st')) ([], init)).1.reverse

def permutations4 : List (List Pos) :=
  -- itertools.permutations(['S','P','O','G'])
  let xs := [Pos.S, Pos.P, Pos.O, Pos.G]
  xs.flatMap fun a => (xs.filter (· ≠ a)).flatMap fun b => ((xs.filter (· ≠ a)).filter (· ≠ b)).flatMap fun c =>
    (((xs.filter (· ≠ a)).filter (· ≠ b)).filter (· ≠ c)).map fun d => [a, b, c, d]

def maximalFor (ordering : List Pos) (rs : List PRule) : List PRule :=
  ordering.foldl (fun acc pos => maximalPass pos acc) rs

def numGroups (rs : List PRule) : Nat := (dedupFirst (rs.map (·.label))).length

def maximal (rs : List PRule) : List (Nat × Str) :=
  let cands := permutations4.map fun o => maximalFor o rs
  let best := cands.foldl (fun (acc : Option (List PRule)) c =>
    match acc with
    | none => some c
    | some b => if numGroups c > numGroups b then some c else some b) none
  match best with
  | some b => b.map fun r => (r.idx, r.label.drop 1)
  | none => []

/-- `MappingPartitioner.partition_mappings`: the label of every rule, in the original rule order -/
def partitionLabels (mode : PartMode) (rules : List Rule) : Except PartErr (List Str) :=
  match mode with
  | .none => .ok (rules.map fun _ => "0-0-0-0".toList)
  | .partialAggregations => do
      let rs ← termInvariants rules
      let ls := partialAggregations rs
      pure ((List.range rules.length).map (componentOf ls))
  | .maximal => do
      let rs ← termInvariants rules
      let ls := maximal rs
      pure ((List.range rules.length).map (componentOf ls))

def withLabels (rules : List Rule) (labels : List Str) : List Rule :=
  (rules.zip labels).map fun p => { p.1 with partition := p.2 }

end Model
