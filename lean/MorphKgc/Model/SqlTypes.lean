/-
Model of `relational_db._get_column_table_datatype`'s tail: upper-casing of the catalogue string and
the lookup in `SQL_RDF_DATATYPE`.  The table itself and the lookup kind are generated from /repo
(`Gen/SqlTypes.lean`).
-/
import MorphKgc.Py.Str

namespace Model
open Py

inductive SqlLookupKind
  /-- `for k, v in table.items(): if k in data_type: return v` -/
  | firstSubstring
  /-- longest key occurring as a whole word (not preceded by a letter/digit/underscore, not followed by a
      letter/underscore); ties resolved by table order -/
  | longestWord
  deriving DecidableEq, Repr

/-- regex class `[A-Z0-9_]` -/
def isWordBefore (c : Char) : Bool := c.isUpper || c.isDigit || c = '_'
/-- regex class `[A-Z_]` -/
def isWordAfter (c : Char) : Bool := c.isUpper || c = '_'

/-- does `k` occur in `s` at some position such that the char before is not in `isWordBefore`
    and the char after is not in `isWordAfter`?  `prev` is the character preceding `s`, if any. -/
def wordOccursFrom (k : Str) : Option Char → Str → Bool
  | prev, [] => k = [] && (match prev with | some p => !isWordBefore p | none => true)
  | prev, c :: s =>
    let here :=
      k.isPrefixOf (c :: s) &&
      (match prev with | some p => !isWordBefore p | none => true) &&
      (match ((c :: s).drop k.length).head? with | some n => !isWordAfter n | none => true)
    here || wordOccursFrom k (some c) s

def wordOccurs (k s : Str) : Bool := wordOccursFrom k none s

def lookupFirstSubstring (table : List (Str × Str)) (ty : Str) : Option Str :=
  (table.find? (fun kv => isInfix kv.1 ty)).map (·.2)

/-- first maximum of key length among the matching entries -/
def longestOf : List (Str × Str) → Option (Str × Str)
  | [] => none
  | kv :: rest =>
    match longestOf rest with
    | none => some kv
    | some best => if best.1.length > kv.1.length then some best else some kv

def lookupLongestWord (table : List (Str × Str)) (ty : Str) : Option Str :=
  (longestOf (table.filter (fun kv => wordOccurs kv.1 ty))).map (·.2)

def sqlLookupWith (kind : SqlLookupKind) (table : List (Str × Str)) (catalogueType : Str) : Option Str :=
  let ty := asciiUpper catalogueType
  match kind with
  | .firstSubstring => lookupFirstSubstring table ty
  | .longestWord => lookupLongestWord table ty

/-- `relational_db.get_rdb_reference_datatype`, query branch: what the translator reads of the loop over the tables of the query -/
structure RefLoopShape where
  /-- `if inferred_data_type: break` directly after the lookup, inside the `try` -/
  breakOnFound : Bool
  /-- `except: pass` (a table that cannot be asked is skipped) -/
  exceptPasses : Bool
  /-- any other `break` / `return` / `continue` in the loop -/
  otherExits : Bool
  deriving DecidableEq, Repr

/-- one catalogue answer: an exception, no datatype (`None` / empty), or a datatype -/
inductive CatAnswer | raises | nothing | datatype (dt : Str)
  deriving DecidableEq, Repr

/-- the loop as written (`inferred_data_type = ''` before it): the value left in `inferred_data_type`, as `Option` (falsy = `none`;
    the caller only tests truthiness) -/
def refDatatypeLoop (ask : Str → CatAnswer) : List Str → Option Str
  | [] => none
  | t :: ts =>
    match ask t with
    | .datatype dt => some dt                 -- truthy: break
    | .nothing => refDatatypeLoop ask ts      -- falsy: next table
    | .raises => refDatatypeLoop ask ts       -- except: pass

end Model
