/-
C10 — the *shapes* the translator (`tools/gen/C10.py`) reads off the source-reading code and writes to `Gen/Source.lean`:
the keyword arguments of the `pandas` calls of every file reader, the dispatch chain of `get_file_data`, the extension table,
the decision chain of `_complete_source_types`, the call order of `_preprocess_mappings`, the dialect table of
`_replace_query_enclosing_characters` and the character deleted from DataFrame sources.  Types only (the generated file imports
this one).
-/
import MorphKgc.Py.Str

namespace Model
open Py

/-- keyword arguments of one `pd.read_table` call of `data_file._read_csv` -/
structure CsvCall where
  /-- `sep=delimiter` (first call) / `sep=None` (fallback, the separator is sniffed) -/
  sepIsDelimiter : Bool
  engineC : Bool
  dtypeStr : Bool
  keepDefaultNa : Bool
  naFilter : Bool
  indexColFalse : Bool
  usecolsRefs : Bool
  utf8Strict : Bool
  /-- keyword arguments other than those above (e.g. `skipinitialspace`, `quoting`, `quotechar`, `escapechar`, `comment`,
      `skip_blank_lines`, `header`, `na_values`, `converters`): the tokenizer contract `Csv.parse` assumes there is none -/
  otherKw : List Str
  deriving DecidableEq, Repr, Inhabited

/-- `delimiter = <a> if file_source_type == <k> else <b>` -/
structure CsvDelimiter where
  testConst : Str
  thenSep : Str
  elseSep : Str
  deriving DecidableEq, Repr, Inhabited

/-- keyword arguments of `pd.read_excel` in `_read_excel` / `_read_ods` -/
structure ExcelCall where
  engine : Str
  sheetFirst : Bool
  usecolsRefs : Bool
  dtypeStr : Bool
  keepDefaultNa : Bool
  naFilter : Bool
  otherKw : List Str
  deriving DecidableEq, Repr, Inhabited

/-- a columnar / statistical reader: the pandas function and its keyword arguments (name, source text) -/
structure PlainCall where
  func : Str
  columnsRefs : Bool
  kws : List (Str × Str)
  deriving DecidableEq, Repr, Inhabited

inductive FileReader
  | view | csv | excel | ods | parquet | feather | orc | stata | sas | spss | json | xml
  deriving DecidableEq, Repr, Inhabited

/-- one test of the `if / elif` chain of `get_file_data` -/
inductive FileTest
  /-- `rml_rule['logical_source_type'] == RML_QUERY` -/
  | isQuery
  /-- `file_source_type in [...]` / `== ...`: the values of the constants -/
  | typeIn (types : List Str)
  deriving DecidableEq, Repr, Inhabited

/-- one step of `_complete_source_types` (an `if / elif` branch), in source order -/
inductive SrcStep
  /-- `pd.notna(rf) and '<needle>' in rf.upper()` -/
  | refFormContains (needle : Str) (result : Str)
  /-- `self.config.has_db_url(source_name)` -/
  | hasDbUrl (result : Str)
  /-- `logical_source_type == RML_QUERY` -/
  | isQuery (result : Str)
  /-- `logical_source_type == RML_SOURCE and lsv.startswith('{') and lsv.endswith('}')` -/
  | braces (result : Str)
  /-- `logical_source_type == RML_SOURCE`: extension (`os.path.splitext(str(lsv))[1][1:].strip()`, upper-cased) if it is a file
      source type, else the reference formulation without the RML namespace, upper-cased, else an exception -/
  | byExtension
  deriving DecidableEq, Repr, Inhabited

/-- what `_replace_query_enclosing_characters` does with the backticks for a group of dialects -/
inductive QuoteStyle
  | keep
  /-- alternately `[` and `]` -/
  | brackets
  /-- `sql_query.replace('`', s)` -/
  | replaceBy (s : Str)
  deriving DecidableEq, Repr, Inhabited

end Model
