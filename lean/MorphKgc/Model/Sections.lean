/-
C12 — configurations with several data-source sections and several mapping files per section.

Model of `mapping_parser.MappingParser.parse_mappings` up to (not including) the partitioner, over abstract mapping
documents (`Spec.Doc`):

  `_get_from_r2_rml`                      for every section (in the order `config.get_data_sources_sections()` delivers them):
                                          all mapping files of the section are parsed into ONE graph, normalised, queried;
                                          `source_name` = the section name; the per-section tables are concatenated
  `_preprocess_mappings`                  `drop_duplicates` (all columns), …, `_normalize_rml_star` (every rule gets the
                                          fresh id `#TM<row position>`; values naming a triples map are rewritten to the id
                                          of the FIRST rule of that triples map), `_remove_self_joins_no_condition`
  `_infer_datatypes`                      (relational sources only: identity here)
  `validate_mappings`                     a `triples_map_id` that occurs with two different `source_name`s is an error

The ORDER of these calls is not fixed here: `parseMappings` interprets the two call sequences that the translator reads
from the source (`Gen.parseOrder`, `Gen.preprocessOrder`, tools/gen/C12.py).

Outside the model (stated in the claim): two files of one section declaring the same triples-map IRI (RDF merge gives the
cartesian product of their parts), RDF-star expansion (C13), `file_path` overriding, delimited identifiers.
-/
import MorphKgc.Model.Normalize

namespace Model.Sections
open Py Spec Model

/-- a mapping file: the triples maps it declares (their `sourceName` is supplied by the section that loads the file) -/
abbrev MFile := List TriplesMap

/-- a data-source section of the configuration: its name and the mapping files of its `mappings` option -/
structure Sec where
  name : Str
  files : List MFile
  deriving Repr, DecidableEq, Inhabited

/-- the data-source sections in the order `get_data_sources_sections()` returns them -/
abbrev Config := List Sec

/-- calls made by `parse_mappings` before partitioning -/
inductive Step | getFromR2rml | preprocess | inferDatatypes | validate
  deriving DecidableEq, Repr, Inhabited

/-- calls made by `_preprocess_mappings` -/
inductive PStep | dropDuplicates | completeSourceFilePaths | completeSourceTypes | removeDelimiters | normalizeRmlStar
  | removeSelfJoins
  deriving DecidableEq, Repr, Inhabited

inductive ParseErr
  /-- 'The following triples maps appear in more than one data source' -/
  | dupTriplesMap (ids : List Str)
  deriving DecidableEq, Repr, Inhabited

/-- all files of a section are loaded into one graph: the section's document -/
def secDoc (s : Sec) : Doc := ⟨s.files.flatten.map fun tm => { tm with sourceName := s.name }⟩

/-- `_parse_data_source_mapping_files`: the rule table of one section (parent lookups see this section's graph only) -/
def secRules (s : Sec) : List Rule := (secDoc s).tms.flatMap (rulesOfTm (secDoc s))

/-- `_get_from_r2_rml`: concatenation over the sections -/
def rawRules (cfg : Config) : List Rule := cfg.flatMap secRules

/-- the id given to the rule at row position `i` -/
def tmName (i : Nat) : Str := "#TM".toList ++ Nat.toDigits 10 i

/-- `tm_to_id_dict`: position of the first rule of a triples map -/
def firstIdx (id : Str) : List Rule → Option Nat
  | [] => none
  | r :: rs => if r.tmId = id then some 0 else (firstIdx id rs).map (· + 1)

/-- `df[col].map(tm_to_id_dict).fillna(df[col])`; `guarded` = only values of referencing / quoted maps are rewritten -/
def mapVal (guarded : Bool) (all : List Rule) (mt : MapType) (v : Str) : Str :=
  if guarded && !(mt = .parentTM || mt = .quoted) then v
  else match firstIdx v all with
    | some k => tmName k
    | none => v

def renumberRule (guarded : Bool) (all : List Rule) (i : Nat) (r : Rule) : Rule :=
  { r with tmId := tmName i,
           subjectMapValue := mapVal guarded all r.subjectMapType r.subjectMapValue,
           objectMapValue := mapVal guarded all r.objectMapType r.objectMapValue }

def renumberFrom (guarded : Bool) (all : List Rule) : Nat → List Rule → List Rule
  | _, [] => []
  | i, r :: rs => renumberRule guarded all i r :: renumberFrom guarded all (i + 1) rs

/-- `_expand_rml_star` on a table without quoted triples maps (one pass; a second pass is the identity) -/
def renumber (guarded : Bool) (rs : List Rule) : List Rule := renumberFrom guarded rs 0 rs

/-- `get_repeated_elements_in_list` (as a set) -/
def repeated (l : List Str) : List Str := dedupFirst (l.filter fun x => l.count x > 1)

/-- the check of `validate_mappings`: ids left after `[['source_name', 'triples_map_id']].drop_duplicates()` that repeat -/
def dupIds (rs : List Rule) : List Str :=
  repeated ((dedupFirst (rs.map fun r => (r.sourceName, r.tmId))).map (·.2))

/-- one call of `_preprocess_mappings` -/
def runP (guarded : Bool) : PStep → List Rule → List Rule
  | .dropDuplicates, rs => dedupFirst rs
  | .normalizeRmlStar, rs => renumber guarded rs
  | .removeSelfJoins, rs => rs.map (eliminateSelfJoin rs)
  | _, rs => rs

def preprocessRules (guarded : Bool) (porder : List PStep) (rs : List Rule) : List Rule :=
  porder.foldl (fun acc s => runP guarded s acc) rs

/-- one call of `parse_mappings` -/
def runStep (guarded : Bool) (porder : List PStep) (cfg : Config) : Step → List Rule → Except ParseErr (List Rule)
  | .getFromR2rml, _ => .ok (rawRules cfg)
  | .preprocess, rs => .ok (preprocessRules guarded porder rs)
  | .inferDatatypes, rs => .ok rs
  | .validate, rs => if dupIds rs = [] then .ok rs else .error (.dupTriplesMap (dupIds rs))

def runSteps (guarded : Bool) (porder : List PStep) (cfg : Config) : List Step → List Rule → Except ParseErr (List Rule)
  | [], rs => .ok rs
  | s :: ss, rs =>
    match runStep guarded porder cfg s rs with
    | .ok rs' => runSteps guarded porder cfg ss rs'
    | .error e => .error e

/-- `parse_mappings` (before partitioning) for the call sequences `order` / `porder` -/
def parseMappings (guarded : Bool) (order : List Step) (porder : List PStep) (cfg : Config) : Except ParseErr (List Rule) :=
  runSteps guarded porder cfg order []

/-- the whole configuration as one document (what the property calls "the mapping document") -/
def cfgDoc (cfg : Config) : Doc := ⟨cfg.flatMap fun s => (secDoc s).tms⟩

/-- the triples-map identifiers a section declares -/
def secIds (s : Sec) : List Str := s.files.flatten.map (·.id)

/-- **scope of C12_F1**: some identifier is declared by two sections with different names -/
def hasDupId (cfg : Config) : Bool :=
  cfg.any fun s₁ => cfg.any fun s₂ => s₁.name != s₂.name && (secIds s₁).any fun i => (secIds s₂).contains i

/-- **scope of C12_F2**: the value of a subject map, or of an object map that is not a referencing object map, is the
    identifier of a triples map of the configuration -/
def valueClash (rs : List Rule) : Bool :=
  rs.any fun r => (firstIdx r.subjectMapValue rs).isSome ||
    (r.objectMapType != .parentTM && (firstIdx r.objectMapValue rs).isSome)

end Model.Sections
