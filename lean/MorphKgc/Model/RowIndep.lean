/-
C11 — typed sources.  Executable model of the *column-wise* dtype decision that pandas takes when a reader builds a frame from Python objects
(`lib.maybe_convert_objects`, reached from `pd.read_sql_query(coerce_float=False)`, `pd.DataFrame(<list of dicts>, columns=…)`,
`pd.json_normalize`, and — with the same outcome for the cases modelled — from pyarrow's `to_pandas` for Parquet / Feather columns), and of how each
cell is then rendered by `str()` in `_preprocess_data`.  This is the one place where the rendering of a value depends on the *other rows*.

Cell language: Python `int`, `float` (carrying its `repr`, computed by Python; no floating-point arithmetic is modelled), `bool`, `str`, `None`, and the
float `nan` that pandas writes for a key that a record does not have.

Bounds (the harness generates inside them): integers with |i| ≤ 2^53 (beyond, float64 rounds and `repr` switches to exponent notation at 1e16; the direct
oracle of the check does go beyond), no `Decimal` / `bytes` / `datetime` objects (SQLite delivers TIMESTAMP / DATE columns as int, float or str).
-/
import MorphKgc.Model.NullSources
import MorphKgc.Gen.RowIndep

namespace Model
open Py

/-! ## typed cells and the dtype decision -/

inductive TCell
  | int (i : Int)
  /-- a finite Python float, with its `repr` -/
  | float (repr : Str)
  | bool (b : Bool)
  | str (s : Str)
  /-- Python `None` (SQL NULL, JSON null, a `None` in a list of dicts, a null of a columnar file) -/
  | none
  /-- float `nan`: what pandas fills in for a key that is absent from a record -/
  | nan
  deriving DecidableEq, Repr, Inhabited

abbrev TRow := List (Str × TCell)
abbrev TTable := List TRow

inductive Dtype | int64 | float64 | bool | object
  deriving DecidableEq, Repr, Inhabited

def TCell.isInt : TCell → Bool | .int _ => true | _ => false
def TCell.isFloat : TCell → Bool | .float _ => true | _ => false
def TCell.isBool : TCell → Bool | .bool _ => true | _ => false
def TCell.isStr : TCell → Bool | .str _ => true | _ => false
def TCell.isNone : TCell → Bool | .none => true | _ => false
def TCell.isNan : TCell → Bool | .nan => true | _ => false

/-- `lib.maybe_convert_objects` on the cells of one column (default arguments, `convert_to_nullable_dtype=False`):
    a string makes the column `object`; booleans stay `bool` only when alone, otherwise `object`; otherwise a float, a `nan`, or a `None`
    next to an integer make it `float64`; only `None`s: `object`; only integers: `int64`. -/
def inferDtype (col : List TCell) : Dtype :=
  if col.any TCell.isStr then .object
  else if col.any TCell.isBool then (if col.all TCell.isBool then .bool else .object)
  else if col.any TCell.isFloat || col.any TCell.isNan then .float64
  else if col.any TCell.isNone then (if col.any TCell.isInt then .float64 else .object)
  else .int64

/-- Python `str(i)` -/
def decInt (i : Int) : Str :=
  if i < 0 then '-' :: Nat.toDigits 10 i.natAbs else Nat.toDigits 10 i.toNat

def pyBool (b : Bool) : Str := if b then "True".toList else "False".toList

/-- the cell as `data.map(str)` sees it when nothing was coerced (object column, or a column of one kind): `Cell.null` = a NULL object -/
def renderAlone : TCell → Cell
  | .int i => .str (decInt i)
  | .float r => .str r
  | .bool b => .str (pyBool b)
  | .str s => .str s
  | .none => .null "None".toList
  | .nan => .null "nan".toList

/-- the cell of a column of dtype `d`: in a `float64` column an integer `i` has become the float `i.0` and `None` has become `nan` -/
def renderIn (d : Dtype) (c : TCell) : Cell :=
  match d, c with
  | .float64, .int i => .str (decInt i ++ ['.', '0'])
  | .float64, .none => .null "nan".toList
  | _, c => renderAlone c

/-- one column, as the frame holds it -/
def coerceColumn (col : List TCell) : List Cell := col.map (renderIn (inferDtype col))

/-- the cells of column `c` (records that lack the key contribute nothing here; see `fillAbsent`) -/
def colOf (c : Str) (tt : TTable) : List TCell := tt.filterMap (lookup c)

/-- a row of the frame built from `tt`: every cell rendered under the dtype that *all rows* give its column -/
def coerceRow (tt : TTable) (ρ : TRow) : Row := ρ.map fun kv => (kv.1, renderIn (inferDtype (colOf kv.1 tt)) kv.2)

/-- **the frame a reader builds from typed rows**: column-wise dtype decision, then cell by cell -/
def coerceTable (tt : TTable) : Table := tt.map (coerceRow tt)

/-- the same rows with every cell rendered on its own — what the frame would be if no column were coerced -/
def aloneRow (ρ : TRow) : Row := ρ.map fun kv => (kv.1, renderAlone kv.2)
def aloneTable (tt : TTable) : Table := tt.map aloneRow

/-! ## per source kind -/

/-- records with absent keys → rectangular: `pd.DataFrame(records, columns=cols)` writes `nan` where a record lacks the key -/
def fillAbsent (cols : List Str) (tt : TTable) : TTable :=
  tt.map fun ρ => cols.map fun c => (c, (lookup c ρ).getD .nan)

/-- `rr:sqlQuery`: the whole answer of the user's query is one frame (`read_sql_query`, `coerce_float=False`) -/
def sqlQueryDeliverT (tt : TTable) : Table := coerceTable tt

/-- `rr:tableName`: the generated query selects the referenced columns of the rows in which none of them is NULL; that answer is the frame -/
def sqlTableDeliverT (refs : List Str) (tt : TTable) : Table :=
  let refs := dedupFirst refs
  coerceTable ((tt.filter fun ρ => refs.all fun c => match lookup c ρ with | some .none => false | some _ => true | none => false).map fun ρ =>
    refs.filterMap fun c => (lookup c ρ).map fun v => (c, v))

/-- a Python list / tuple of dicts: `pd.DataFrame(source_value, columns=references)` -/
def listDeliverT (refs : List Str) (tt : TTable) : Table := coerceTable (fillAbsent (dedupFirst refs) tt)

/-- Parquet / Feather / ORC column chunks (one arrow type per column, nulls as `none`): `to_pandas` gives int64 → float64 when a null is present,
    bool → object when a null is present, double → float64, string → object — the same outcome as `inferDtype` on such columns -/
def columnarDeliverT (refs : List Str) (tt : TTable) : Table :=
  coerceTable (tt.map fun ρ => (dedupFirst refs).filterMap fun c => (lookup c ρ).map fun v => (c, v))

/-- flat JSON records (no nesting): projection on the referenced keys, objects with a `null` among them are dropped *before* the frame is built
    (`if None not in json_object.values()`), absent keys become `nan`, references that no record has are added as a column of `None` (file) /
    `nan` (in-memory) after the frame is built, then the reader's `dropna` -/
def jsonFlatDeliverT (sh : JsonShape) (refs : List Str) (recs : TTable) : Table :=
  let refs' := dedupFirst refs
  let proj := recs.map fun ρ => ρ.filter fun kv => refs'.contains kv.1
  let kept := if sh.noneFilter then proj.filter fun ρ => ρ.all fun kv => !kv.2.isNone else proj
  let cols := dedupFirst (kept.flatMap fun ρ => ρ.map (·.1))
  dropnaBy sh.dropSubset refs (addMissing sh.missingFill refs (coerceTable (fillAbsent cols kept)))

/-- the dtype under which `get_ram_data` hands on column `c` of a caller's DataFrame: the caller's dtype — except that an `object` column is
    rebuilt by the quote-stripping step, and with `Series.apply` (`FrameStrip.applyInfers`) pandas infers the dtype of the result anew from the
    cells of the (sub-)frame -/
def frameColDtype (fs : FrameStrip) (dtypes : List (Str × Dtype)) (c : Str) (tt : TTable) : Dtype :=
  match (lookup c dtypes).getD .object, fs with
  | .object, .keepsObject => .object
  | .object, _ => inferDtype (colOf c tt)
  | d, _ => d

/-- a caller's DataFrame (rows = rows of the frame, the dtypes travel with it) -/
def frameDeliverT (fs : FrameStrip) (dtypes : List (Str × Dtype)) (refs : List Str) (tt : TTable) : Table :=
  tt.map fun ρ => (dedupFirst refs).filterMap fun c => (lookup c ρ).map fun v => (c, renderIn (frameColDtype fs dtypes c tt) v)

/-- the row of a frame rendered from the row and the caller's dtypes alone (`renderIn .object = renderAlone`) -/
def frameAloneRow (dtypes : List (Str × Dtype)) (refs : List Str) (ρ : TRow) : Row :=
  (dedupFirst refs).filterMap fun c => (lookup c ρ).map fun v => (c, renderIn ((lookup c dtypes).getD .object) v)

/-- text sources (`dtype=str`, `na_filter=False`): every cell is the text of the field -/
def textDeliverT (sh : TextReadShape) (tt : TTable) : Table :=
  if sh.dtypeStr && !sh.naFilter then aloneTable tt else coerceTable tt

/-! ## scope of finding C11_F1 -/

/-- the dtype decision changes how some cell of the column is rendered: the column became `float64` and holds an integer (rendered `i.0`
    instead of `i`) — or, under the statement order in which NULL objects are stringified (`strThenNa`), a `None` (rendered `nan` instead of `None`) -/
def unstableCol (k : PreKind) (col : List TCell) : Bool :=
  inferDtype col == .float64 && (col.any TCell.isInt || (k == .strThenNa && col.any TCell.isNone))

/-- **scope of C11_F1**: some referenced column of the typed table is coerced to float64 although it holds an integer (or a rendered `None`) -/
def scope_C11_F1 (k : PreKind) (refs : List Str) (tt : TTable) : Bool :=
  refs.any fun c => unstableCol k (colOf c tt)

/-- **scope of C11_F2**: the quote stripping re-infers object columns (`fs ≠ keepsObject`) and some referenced `object` column of the (sub-)frame
    would be inferred float64 although it holds an integer (or, under `strThenNa`, a rendered `None`) -/
def scope_C11_F2 (k : PreKind) (fs : FrameStrip) (dtypes : List (Str × Dtype)) (refs : List Str) (tt : TTable) : Bool :=
  fs != .keepsObject && refs.any fun c => ((lookup c dtypes).getD .object == .object) && unstableCol k (colOf c tt)

/-! ## environments -/

/-- the source key `(source name, logical source value)` of a rule -/
def keyOf (r : Rule) : Str × Str := (r.sourceName, r.logicalSourceValue)

/-- the environment in which the logical source `key` delivers the table `t` -/
def Env.withTable (env : Env) (key : Str × Str) (t : Table) : Env := { env with tables := (key, t) :: env.tables }

/-- `materialize_set` with `_preprocess_data` of order `k`; `evalAllG .strThenNa = evalAll` -/
def evalAllG (k : PreKind) (env : Env) (rules : List Rule) : Except MatErr (List Str) := do
  let parts ← (rules.filter (·.asserted)).mapM (evalRuleG k env rules)
  pure (dedupFirst parts.flatten)

/-- group by group, as `materialize_set` does it -/
def evalGroupedG (k : PreKind) (env : Env) (rules : List Rule) : Except MatErr (List Str) := do
  let asserted := rules.filter (·.asserted)
  let labels := dedupFirst (asserted.map (·.partition))
  let groups ← labels.mapM fun l => do
    let parts ← (asserted.filter (·.partition = l)).mapM (evalRuleG k env rules)
    pure (dedupFirst parts.flatten)
  pure (dedupFirst groups.flatten)

end Model
