/-
Model of the datatype-driven canonicalisation of literal values in `materializer.py`
(`_materialize_template` and `_materialize_fnml_execution`): the `if datatype == XSD_…` ladder that
sits under `termtype.strip() == RML_LITERAL`, followed by the literal escape chain.

Which shape each branch has, which IRI keys it and the order (canonicalise, then escape) are read
from /repo by the translator (`Gen/Canon.lean`); this file gives every recognised shape its meaning.
-/
import MorphKgc.Py.Str

namespace Model
open Py

/-- the recognised right-hand sides of one `datatype == K` branch -/
inductive CanonShape
  /-- no statement: the value is left as it is -/
  | none
  /-- `col.str.lower()` -/
  | lowerAll
  /-- `col.str.replace(old, new, regex=False)` -/
  | replaceAll (old new : Str)
  /-- `col.astype(float).astype(int).astype(str)` (the shape before the `fix:`; NOT given a meaning here:
      it goes through float64/int64, rounds, truncates, saturates and raises) -/
  | viaFloatInt
  /-- `col[.astype(str)].str.replace(r'^([+-]?[0-9]+)\.0\Z', r'\1', regex=True)` -/
  | stripDotZero
  /-- anything the translator does not recognise (also reported as a translation failure) -/
  | unrecognised
  deriving DecidableEq, Repr

/-- ways in which a canonicalisation step can end the run -/
inductive Abort
  | valueError
  | overflowError
  /-- the generated shape has no executable meaning in the model (`.viaFloatInt`, `.replaceAll [] _`):
      every theorem about the generated ladder fails to build, which triggers the failing-input search -/
  | unsupportedShape
  deriving DecidableEq, Repr


/-- regex `[+-]?` at the start of the string -/
def dropSign : Str → Str
  | '+' :: s => s
  | '-' :: s => s
  | s => s

/-- does `v` match `^[+-]?[0-9]+\.0\Z` ?  (`[0-9]` is ASCII-only also in Python 3 `str` patterns; the greedy
    `[0-9]+` cannot give a digit back to `\.`, so the match is deterministic) -/
def matchesDotZero (v : Str) : Bool :=
  let body := dropSign v
  let digits := body.takeWhile Char.isDigit
  let rest := body.dropWhile Char.isDigit
  !digits.isEmpty && rest == ['.', '0']

/-- `re.sub(r'^([+-]?[0-9]+)\.0\Z', r'\1', v)`: at most one match (anchored at both ends); the replacement is
    group 1 = the string without its last two characters -/
def stripDotZero (v : Str) : Str :=
  if matchesDotZero v then v.take (v.length - 2) else v

/-- meaning of one branch on one cell -/
def canon : CanonShape → Str → Except Abort Str
  | .none, v => .ok v
  | .lowerAll, v => .ok (asciiLower v)
  | .replaceAll [] _, _ => .error .unsupportedShape
  | .replaceAll (c :: old) new, v => .ok (replace v (c :: old) new)
  | .viaFloatInt, _ => .error .unsupportedShape
  | .unrecognised, _ => .error .unsupportedShape
  | .stripDotZero, v => .ok (stripDotZero v)

/-- the `if datatype == K1: … elif datatype == K2: …` ladder: the first branch whose key equals the datatype -/
def shapeOf (ladder : List (Str × CanonShape)) (datatype : Str) : CanonShape :=
  match ladder.find? (fun kv => kv.1 == datatype) with
  | some kv => kv.2
  | none => .none

def canonFor (ladder : List (Str × CanonShape)) (datatype v : Str) : Except Abort Str :=
  canon (shapeOf ladder datatype) v

/-- relative order of the ladder and the escape chain in the source -/
inductive CanonOrder | canonThenEscape | escapeThenCanon
  deriving DecidableEq, Repr

/-- what the translator reads at one site (`_materialize_template` / `_materialize_fnml_execution`) -/
structure CanonSite where
  /-- `(K, shape)` for every `datatype == K` branch, in source order -/
  ladder : List (Str × CanonShape)
  order : CanonOrder
  /-- the ladder is a direct statement of the `termtype.strip() == RML_LITERAL` block -/
  underLiteral : Bool
  /-- the `.str.replace(a, b, regex=False)` chain next to the ladder -/
  escapeChain : List (Str × Str)
  deriving Repr

/-- the lexical form written between the quotes for one reference value, for any escape function -/
def literalLexWith (order : CanonOrder) (ladder : List (Str × CanonShape)) (escape : Str → Str)
    (datatype v : Str) : Except Abort Str :=
  match order with
  | .canonThenEscape => (canonFor ladder datatype v).map escape
  | .escapeThenCanon => canonFor ladder datatype (escape v)

/-- … with the site's own escape chain -/
def literalLex (site : CanonSite) (datatype v : Str) : Except Abort Str :=
  literalLexWith site.order site.ladder (applyChain site.escapeChain) datatype v

end Model
