/-
The engine's configuration handling *as it is in /repo now*: the parametric model of `Model/Config.lean`
instantiated with the tables, call orders and shapes regenerated into `Gen/Config.lean`.
`cpu` is `multiprocessing.cpu_count()` (symbolic: `DEFAULT_NUMBER_OF_PROCESSES = 2 * mp.cpu_count()`).
-/
import MorphKgc.Gen.Config

namespace Model.Config
open Py Model

/-- `Config.complete_configuration_with_defaults` -/
def completeDefaults (cpu : Nat) (c : Cfg) : Cfg := completeWith Gen.Config.completeSteps cpu c

/-- `Config.validate_configuration_section` -/
def validate (c : Cfg) : Except CfgErr Cfg := validateWith Gen.Config.enumChecks c

/-- `args_parser._parse_config` -/
def parseConfig (cpu : Nat) (c : Cfg) : Except CfgErr Cfg :=
  parseConfigWith Gen.Config.completeSteps Gen.Config.enumChecks cpu c

/-- `load_config_from_argument(path)` / `(text)` / `load_config_from_command_line()` applied to what configparser read -/
def loadFromFile (cpu : Nat) (c : Cfg) : Except CfgErr Cfg :=
  runSteps Gen.Config.completeSteps Gen.Config.enumChecks cpu Gen.Config.loaderFileSteps c
def loadFromString (cpu : Nat) (c : Cfg) : Except CfgErr Cfg :=
  runSteps Gen.Config.completeSteps Gen.Config.enumChecks cpu Gen.Config.loaderStringSteps c
def loadFromCli (cpu : Nat) (c : Cfg) : Except CfgErr Cfg :=
  runSteps Gen.Config.completeSteps Gen.Config.enumChecks cpu Gen.Config.loaderCliSteps c

/-- the `(empty_value_is_valid, option, default)` triples the code visits -/
def entries : List (Bool × Str × DefaultVal) := completeEntries Gen.Config.completeSteps

/-- the table entry of an option: `(is it in the EMPTY_VALID loop, default)` -/
def entryOf (o : Str) : Option (Bool × DefaultVal) :=
  (entries.find? (fun e => e.2.1 = o)).map fun e => (e.1, e.2.2)

/-- the default the code holds for an option -/
def genDefault (o : Str) : Option DefaultVal := (entryOf o).map (·.2)

/-- names of the options validated as enumerations, in code order -/
def enumOptions : List Str := Gen.Config.enumChecks.map (·.option)

/-- the list an enumerated option is tested against -/
def validValues (o : Str) : List Str :=
  ((Gen.Config.enumChecks.find? (fun e => e.option = o)).map (·.valid)).getD []

def parseBool (v : Str) : Option Bool := parseBoolWith Gen.Config.booleanStates v

def getterOf (method : String) : Option (GetterKind × Str) :=
  (Gen.Config.getters.find? (fun g => g.1 = method)).map (·.2)

def naValues (v : Str) : List Str := naValuesWith Gen.Config.naShape v

def outputFilePath (c : Cfg) : Option Str :=
  outputFilePathWith Gen.Config.OUTPUT_FORMAT_FILE_EXTENSION Gen.Config.OUTPUT_FORMAT Gen.Config.OUTPUT_FILE
    Gen.Config.outputFileFallback c

def outputExtension (c : Cfg) : Option Str :=
  (cfgGet c Gen.Config.OUTPUT_FORMAT).bind fun f =>
    (Gen.Config.OUTPUT_FORMAT_FILE_EXTENSION.find? (fun p => p.1 = f)).map (·.2)

/-- the value stored for option `o` by `complete_configuration_with_defaults`, as a function of what the user
    wrote for `o` alone (`none` = absent) -/
def completedValue (cpu : Nat) (o : Str) (cur : Option Str) : Option Str :=
  match entryOf o with
  | some (ev, d) => some (finalOf cpu ev d cur)
  | none => cur

/-- the value stored for option `o` by `_parse_config` -/
def finalValue (cpu : Nat) (o : Str) (cur : Option Str) : Option Str :=
  if o ∈ enumOptions then (completedValue cpu o cur).map asciiUpper else completedValue cpu o cur

end Model.Config
