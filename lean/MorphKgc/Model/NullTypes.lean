/-
C06 — the *shapes* that the translator (`tools/gen/C06.py`) reads off the Python source and writes to `Gen/Null.lean`:
which statements `_preprocess_data` executes in which order, how `remove_null_values_from_dataframe` replaces and drops,
the text pieces of `_build_sql_query`, and the null-relevant arguments of the file / in-memory readers.
Only types live here (the generated file imports this one; `Model/NullSources.lean` imports the generated file).
-/
import MorphKgc.Py.Str

namespace Model
open Py

/-- one statement of `materializer._preprocess_data` after the ORACLE block -/
inductive PreStep
  /-- `data = data.map(str)`: every cell, NULLs included, becomes its Python `str()` -/
  | mapStr
  /-- `data = data.map(lambda value: None if <is a scalar NULL> else str(value))`: NULLs stay NULL -/
  | mapStrKeepNull
  /-- `data = remove_null_values_from_dataframe(data, config, references)` -/
  | removeNulls
  /-- `data = data.convert_dtypes(convert_boolean=False)` -/
  | convertDtypes
  /-- `data = data.astype(str)` -/
  | astypeStr
  /-- `data = data.drop_duplicates()` -/
  | dropDuplicates
  deriving DecidableEq, Repr, Inhabited

/-- the two recognised orders of stringification and NULL removal -/
inductive PreKind
  /-- `map(str)` first: a NULL object reaches the NA replacement as the string `None` / `nan` / `<NA>` / `NaT` -/
  | strThenNa
  /-- NULL objects survive the stringification and are dropped with the NA tokens -/
  | keepNullThenNa
  deriving DecidableEq, Repr, Inhabited

/-- classification of the statement list; `none` = an order the model does not cover -/
def preKindOf : List PreStep → Option PreKind
  | [.mapStr, .removeNulls, .convertDtypes, .astypeStr, .dropDuplicates] => some .strThenNa
  | [.mapStrKeepNull, .removeNulls, .convertDtypes, .astypeStr, .dropDuplicates] => some .keepNullThenNa
  | _ => none

/-- how `data.replace(na_values, None)` matches -/
inductive NaMatch
  /-- whole-cell equality with one of the tokens (`DataFrame.replace(list, None)`, no `regex=`) -/
  | wholeCell
  | regex
  deriving DecidableEq, Repr, Inhabited

/-- the `subset=` of a `dropna` -/
inductive DropSubset
  | references
  /-- no `subset=`: every column of the frame -/
  | allColumns
  /-- there is no `dropna` call at all -/
  | noDrop
  deriving DecidableEq, Repr, Inhabited

/-- shape of `utils.remove_null_values_from_dataframe` (the `column=None` path) -/
structure RemoveNullsShape where
  /-- the body is guarded by `if config.get_na_values():` -/
  guardedByNaValues : Bool
  naMatch : NaMatch
  /-- replacement value is `None` -/
  replaceByNone : Bool
  dropSubset : DropSubset
  /-- `how='any'`, `axis=0` -/
  howAny : Bool
  deriving DecidableEq, Repr, Inhabited

/-- `f'{query}<pre>{x.replace(old, new)}<suf>'` -/
structure SqlItem where
  pre : Str
  old : Str
  new : Str
  suf : Str
  deriving DecidableEq, Repr, Inhabited

/-- the text pieces of the `RML_TABLE_NAME` branch of `relational_db._build_sql_query`, in statement order -/
structure SqlShape where
  /-- `query = 'SELECT '` -/
  head : Str
  /-- first loop over the references -/
  selItem : SqlItem
  /-- `query[:-cut1]` -/
  cut1 : Nat
  /-- `f'{query[:-cut1]}<fromItem.pre>{logical_source_value.replace(..)}<fromItem.suf>'` -/
  fromItem : SqlItem
  /-- second loop over the references -/
  whereItem : SqlItem
  /-- final `query = query[:-cut2]` -/
  cut2 : Nat
  /-- `rr:sqlQuery` sources pass their text through unchanged (first branch) -/
  queryPassThrough : Bool
  /-- the table branch requires `len(references) > 0`, otherwise `None` -/
  tableNeedsRefs : Bool
  deriving DecidableEq, Repr, Inhabited

/-- value written into reference columns that the hierarchical file does not have -/
inductive MissingFill | pyNone | npNan
  deriving DecidableEq, Repr, Inhabited

/-- which part of a reference is put into the JSONPath projection `iterator.(k1,k2,…)` -/
inductive JsonProjection
  /-- `reference.split('.')[0]` -/
  | topLevelKey
  /-- the reference itself -/
  | fullReference
  deriving DecidableEq, Repr, Inhabited

/-- null-relevant shape of `data_file._read_json` / `python_data._read_inmemory_json` -/
structure JsonShape where
  projection : JsonProjection
  /-- the comprehension keeps a flattened object only `if None not in json_object.values()` -/
  noneFilter : Bool
  missingFill : MissingFill
  /-- final `json_df.dropna(axis=0, how='any', …)` -/
  dropSubset : DropSubset
  deriving DecidableEq, Repr, Inhabited

/-- how the attribute of the iterator element itself (`@id`) is read -/
inductive SelfAttr
  /-- `e.attrib[attribute]`: `KeyError` when the attribute is missing -/
  | subscript
  /-- `e.get(attribute)`: `None` when the attribute is missing -/
  | get
  deriving DecidableEq, Repr, Inhabited

/-- null-relevant shape of `data_file._read_xml` -/
structure XmlShape where
  selfAttr : SelfAttr
  /-- child attributes are read with `r.get(attribute)` and element text with `r.text` -/
  childGetAndText : Bool
  missingFill : MissingFill
  dropSubset : DropSubset
  /-- the `dropna` statement comes before the `explode` loop (so it sees lists, never the NULLs inside them) -/
  dropBeforeExplode : Bool
  deriving DecidableEq, Repr, Inhabited

/-- null-relevant keyword arguments of `pd.read_table` in `data_file._read_csv` (both calls) -/
structure CsvShape where
  dtypeStr : Bool
  keepDefaultNa : Bool
  naFilter : Bool
  deriving DecidableEq, Repr, Inhabited

/-- `python_data.get_ram_data`, per container kind -/
structure RamShape where
  /-- DataFrame: `source_value[references]` after the quote stripping on a copy -/
  frameProjects : Bool
  /-- list / tuple: `pd.DataFrame(<list>, columns=references)` -/
  listViaDataFrame : Bool
  /-- dict / JSON text go through `_read_inmemory_json` -/
  dictViaJson : Bool
  deriving DecidableEq, Repr, Inhabited

end Model
