/-
The flat rule (row of `rml_df` after `_normalize_rml_star`) that corresponds to an abstract flat RML-star rule.
-/
import MorphKgc.Model.StarNormalize

namespace Model.Star
open Py Model Spec Spec.Star

def objLang : Pos → Option LangDt × Option MapType × Str
  | .term otm => langDt otm
  | .quoted _ _ => (none, none, [])

def toRule (fr : FlatRule) : Rule :=
  { sourceName := fr.sourceName, tmId := fr.id, asserted := fr.asserted, logicalSourceValue := fr.lsv,
    subjectMapType := (posOf fr.subject).1, subjectMapValue := (posOf fr.subject).2.1,
    subjectTermtype := (posOf fr.subject).2.2.1, subjectJoin := (posOf fr.subject).2.2.2,
    predicateMapType := (mapOf fr.pred).1, predicateMapValue := (mapOf fr.pred).2,
    objectMapType := (posOf fr.object).1, objectMapValue := (posOf fr.object).2.1,
    objectTermtype := (posOf fr.object).2.2.1, objectJoin := (posOf fr.object).2.2.2,
    langDatatype := (objLang fr.object).1, langDatatypeMapType := (objLang fr.object).2.1,
    langDatatypeMapValue := (objLang fr.object).2.2,
    graphMapType := (mapOf fr.graph).1, graphMapValue := (mapOf fr.graph).2 }

end Model.Star
