/-
C07: model of the join code, line by line.

  * `Frame`, `indexJoin`, `mergeOn`: the contracts of `DataFrame.set_index(keys, drop=…)` + `DataFrame.join(other, how=…)`
    (join on equal index values; overlapping column names raise) and of
    `DataFrame.merge(other, how=…, left_on=…, right_on=…)` (equal key tuples; a key pair with the same name on both sides
    is kept once; other overlapping names get the suffixes `_x` / `_y`) on frames whose cells are strings;
  * `mergeFrames`: `materializer._merge_data` with its two code paths, driven by the generated `MergeShape`;
  * `evalRefRule`: the referencing-object-map branch of `_materialize_rml_rule`, driven by the generated `RefBranchShape`;
  * `eliminateSelfJoinG` / `normalizeDocG`: `_remove_self_joins_no_condition`, driven by the generated `ElimShape`.

The shared engine model (`Model.mergeData`, `Model.evalRule`, `Model.eliminateSelfJoin`) is shown in `Lemmas/Join.lean`
to be what these give for the shapes found in /repo.
-/
import MorphKgc.Model.JoinTypes
import MorphKgc.Model.Normalize

namespace Model
open Py Spec

/-- a DataFrame after `_preprocess_data`: column labels and rows of strings -/
structure Frame where
  cols : List Str
  rows : List SRow
  deriving DecidableEq, Repr, Inhabited

inductive JoinErr
  /-- an exception of the materializer model (`KeyError`) -/
  | mat (e : MatErr)
  /-- `ValueError: columns overlap but no suffix specified` -/
  | overlap (cols : List Str)
  /-- `merge` without / with differently many keys (`IndexError`, `ValueError`) -/
  | badKeys
  /-- the generated shape has no executable meaning in the model (a `how` other than `inner`) -/
  | unsupportedShape
  deriving DecidableEq, Repr

def prefixRow (p : Str) (ρ : SRow) : SRow := ρ.map fun kv => (p ++ kv.1, kv.2)

/-- `DataFrame.add_prefix` -/
def Frame.addPrefix (p : Str) (f : Frame) : Frame := ⟨f.cols.map (p ++ ·), f.rows.map (prefixRow p)⟩

/-- the values of the key columns of a row -/
def keyVals (ks : List Str) (ρ : SRow) : List (Option Str) := ks.map fun k => lookup k ρ

def firstMissing (ks cols : List Str) : Option Str := ks.find? fun k => !cols.contains k

def dropCols (ks : List Str) (ρ : SRow) : SRow := ρ.filter fun kv => !ks.contains kv.1

/-- `l.set_index(lk, drop=d).join(r.set_index(rk, drop=d), how=h)` -/
def indexJoin (how : JoinHow) (drop : Bool) (lk rk : List Str) (l r : Frame) : Except JoinErr Frame :=
  match firstMissing lk l.cols, firstMissing rk r.cols with
  | some k, _ => .error (.mat (.keyError k))
  | none, some k => .error (.mat (.keyError k))
  | none, none =>
    let lcols := if drop then l.cols.filter (fun c => !lk.contains c) else l.cols
    let rcols := if drop then r.cols.filter (fun c => !rk.contains c) else r.cols
    let ov := lcols.filter fun c => rcols.contains c
    if ov ≠ [] then .error (.overlap ov)
    else match how with
      | .inner =>
        .ok ⟨lcols ++ rcols, l.rows.flatMap fun a =>
          (r.rows.filter fun b => keyVals lk a == keyVals rk b).map fun b =>
            (if drop then dropCols lk a else a) ++ (if drop then dropCols rk b else b)⟩
      | _ => .error .unsupportedShape

/-- `l.merge(r, how=h, left_on=lk, right_on=rk)` -/
def mergeOn (how : JoinHow) (lk rk : List Str) (l r : Frame) : Except JoinErr Frame :=
  if lk = [] ∨ lk.length ≠ rk.length then .error .badKeys
  else match firstMissing lk l.cols, firstMissing rk r.cols with
  | some k, _ => .error (.mat (.keyError k))
  | none, some k => .error (.mat (.keyError k))
  | none, none =>
    match how with
    | .inner =>
      -- a key pair with one name on both sides is kept once
      let coal := (lk.zip rk).filterMap fun p => if p.1 = p.2 then some p.1 else none
      let rcols := r.cols.filter fun c => !coal.contains c
      let ov := l.cols.filter fun c => rcols.contains c
      let ren (sfx : Str) (ρ : SRow) : SRow := ρ.map fun kv => (if ov.contains kv.1 then kv.1 ++ sfx else kv.1, kv.2)
      .ok ⟨(l.cols.map fun c => if ov.contains c then c ++ "_x".toList else c) ++
            (rcols.map fun c => if ov.contains c then c ++ "_y".toList else c),
           l.rows.flatMap fun a =>
             (r.rows.filter fun b => keyVals lk a == keyVals rk b).map fun b =>
               ren "_x".toList a ++ ren "_y".toList (dropCols coal b)⟩
    | _ => .error .unsupportedShape

def pickSide (s : Side) (cj pj : List Str) : List Str := match s with | .child => cj | .parent => pj

/-- `materializer._merge_data(data, parent_data, rml_rule, 'object_join_conditions')`; `conds` are the
    (child reference, parent reference) pairs that `get_references_in_join_condition` returns -/
def mergeFrames (sh : MergeShape) (data parent : Frame) (conds : List (Str × Str)) : Except JoinErr Frame :=
  let parent' := parent.addPrefix sh.addPrefix
  let cj := conds.map (·.1)
  let pj := conds.map fun cp => sh.refPrefix ++ cp.2
  if cj.length = sh.indexPathLen then
    indexJoin sh.joinHow sh.indexDrop (pickSide sh.indexChildBy cj pj) (pickSide sh.indexParentBy cj pj) data parent'
  else
    mergeOn sh.mergeHow (pickSide sh.mergeLeftOn cj pj) (pickSide sh.mergeRightOn cj pj) data parent'

def liftMat {α} (x : Except MatErr α) : Except JoinErr α :=
  match x with | .ok a => .ok a | .error e => .error (.mat e)

/-- references of the child frame / of the parent frame in the referencing-object-map branch -/
def childRefs (bs : RefBranchShape) (r : Rule) : List Str :=
  refsOfRule r ++ (if bs.childJoinRefsAdded then r.objectJoin.map (·.1) else [])

def parentRefs (bs : RefBranchShape) (r parent : Rule) : List Str :=
  refsOfRule parent bs.parentSubjectOnly ++ (if bs.parentJoinRefsAdded then r.objectJoin.map (·.2) else [])

/-- the branch `elif rml_rule['object_map_type'] == RML_PARENT_TRIPLES_MAP` of `_materialize_rml_rule` (nest level 0) -/
def evalRefRule (ms : MergeShape) (bs : RefBranchShape) (env : Env) (rules : List Rule) (r : Rule) :
    Except JoinErr (List Str) :=
  match findRule rules r.objectMapValue with
  | none => .error (.mat (.keyError r.objectMapValue))
  | some parent => do
    let refs := childRefs bs r
    let prefs := parentRefs bs r parent
    let data ← liftMat (preprocess env.na refs (env.table r))
    let pdata ← liftMat (preprocess env.na prefs (env.table parent))
    let merged ← mergeFrames ms ⟨dedupFirst refs, data⟩ ⟨dedupFirst prefs, pdata⟩ r.objectJoin
    let (ok, ov) := if bs.objectFromParentSubject then (parent.subjectMapType, parent.subjectMapValue)
                    else (r.objectMapType, r.objectMapValue)
    liftMat (merged.rows.mapM (rowTriple env r ok ov bs.alias))

/-- same elements -/
def sameSet (a b : List Str) : Bool := a.all (b.contains ·) && b.all (a.contains ·)

/-- the tests of `_remove_self_joins_no_condition` on a referencing rule and its parent rule -/
def elimTests (sh : ElimShape) (r parent : Rule) : Bool :=
  (!sh.sameSection || r.sourceName = parent.sourceName)
  && (!sh.sameSource || r.logicalSourceValue = parent.logicalSourceValue)
  && (!sh.sameIterator || r.iterator = parent.iterator)
  && (!sh.sameColumns || r.objectJoin.all (fun cp => cp.1 = cp.2))
  && (match sh.subjRefs with
      | .unchecked => true
      | .eqJoinCols => r.objectJoin.isEmpty ||
          ((parent.subjectMapType = .template || parent.subjectMapType = .reference || parent.subjectMapType = .constant)
           && sameSet (refsOfRule parent true) (r.objectJoin.map (·.2))))

/-- `_remove_self_joins_no_condition` for one rule -/
def eliminateSelfJoinG (sh : ElimShape) (rules : List Rule) (r : Rule) : Rule :=
  if r.objectMapType = .parentTM then
    match rules.find? (fun p => p.tmId = r.objectMapValue) with
    | some parent =>
      if elimTests sh r parent then
        { r with objectMapType := parent.subjectMapType, objectMapValue := parent.subjectMapValue,
                 objectTermtype := parent.subjectTermtype, objectJoin := [] }
      else r
    | none => r
  else r

def isTermObj : ObjMap → Bool
  | .term _ => true
  | .ref _ _ => false

/-- the object maps of one predicate-object map that `RML_PARSING_QUERY` delivers -/
def objectsSeen (sh : ObjectQueryShape) (objs : List ObjMap) : List ObjMap :=
  match sh with
  | .twoOptionals => if objs.any isTermObj then objs.filter isTermObj else objs
  | .union => objs

/-- scope of C07_F4: a predicate-object map with a term-valued and a referencing object map -/
def scope_C07_F4 (objs : List ObjMap) : Bool := objs.any isTermObj && objs.any (fun o => !isTermObj o)

def applyObjectsSeen (sh : ObjectQueryShape) (doc : Doc) : Doc :=
  ⟨doc.tms.map fun tm => { tm with poms := tm.poms.map fun pom => { pom with objects := objectsSeen sh pom.objects } }⟩

def normalizeDocG (sh : ElimShape) (doc : Doc) : List Rule :=
  let rules := dedupFirst (doc.tms.flatMap (rulesOfTm doc))
  rules.map (eliminateSelfJoinG sh rules)

end Model
