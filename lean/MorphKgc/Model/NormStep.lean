/-
The normalisation steps `_parse_data_source_mapping_files` applies to the mapping graph between loading it and running the parsing
query.  (`Gen/NormOrder.lean` lists them in the order of the source; `Model/Surface.lean` gives each its meaning.)
-/
namespace Model

inductive Step
  | r2rmlToRml          -- `_r2rml_to_rml`
  | legacyToRml         -- `_rml_legacy_to_rml`
  | classToPom          -- `_rdf_class_to_pom`
  | expandShortcuts     -- `_expand_constant_shortcut_properties`
  | subjectGraphsToPom  -- `_subject_graph_maps_to_pom`
  | defaultGraph        -- `_complete_pom_with_default_graph`
  | termtypes           -- `_complete_termtypes`
  | tmClass             -- `_complete_triples_map_class`
  | validate            -- `_validate_termtypes`
  deriving DecidableEq, Repr, Inhabited

end Model
