/-
Term construction: model of `utils.get_references_in_template`, `mapping_partitioner.get_invariant_of_template`
and `materializer._materialize_template` for one row.  A literal transcription of the Python, including
its quirks; the specification it is compared with lives in `Spec/`.
-/
import MorphKgc.Py.Str
import MorphKgc.Model.Rule

namespace Model
open Py

/-- `AUXILIAR_UNIQUE_REPLACING_STRING = 'zzyy_xxww​'` -/
def auxString : Str := "zzyy_xxww".toList ++ [Char.ofNat 0x200B]

/-- `re.findall('\\{([^}]+)', t)`: state = the group being collected, if inside a match -/
def findallBraceRef : Option Str → Str → List Str
  | none, [] => []
  | some g, [] => if g = [] then [] else [g]
  | none, c :: s => if c = '{' then findallBraceRef (some []) s else findallBraceRef none s
  | some g, c :: s =>
    if c = '}' then (if g = [] then findallBraceRef none s else g :: findallBraceRef none s)
    else findallBraceRef (some (g ++ [c])) s

/-- `utils.get_references_in_template` -/
def getReferencesInTemplate (t : Str) : List Str :=
  let t := replace (replace t ['\\', '{'] auxString) ['\\', '}'] auxString
  (findallBraceRef none t).map fun r => replace (replace r auxString ['\\', '{']) auxString ['\\', '}']

/-- `mapping_partitioner.get_invariant_of_template`; `none` = the `Invalid template` exception -/
def getInvariantOfTemplate (t : Str) : Option Str :=
  let t' := replace t ['\\', '{'] auxString
  if isInfix ['{'] t' then
    some (replace ((split t' ['{']).headD []) auxString ['\\', '{'])
  else none

/-! ### value transformations -/

def hexDigit (n : Nat) : Char := if n < 10 then Char.ofNat (48 + n) else Char.ofNat (55 + n)

def isUnreserved (c : Char) : Bool := c.isAlphanum || c = '-' || c = '.' || c = '_' || c = '~'

/-- one UTF-8 byte under `falcon.uri.encode_value` (safe = []) / `urllib.parse.quote(_, safe=safe)` -/
def encByte (safe : Str) (b : UInt8) : Str :=
  let c := Char.ofNat b.toNat
  if b.toNat < 128 && (isUnreserved c || safe.contains c) then [c]
  else ['%', hexDigit (b.toNat / 16), hexDigit (b.toNat % 16)]

def utf8Bytes (v : Str) : List UInt8 := v.flatMap String.utf8EncodeChar

def pctEncode (safe : Str) (v : Str) : Str := (utf8Bytes v).flatMap (encByte safe)

/-- configuration facts that term construction reads -/
structure TermCfg where
  /-- `safe_percent_encoding` (ASCII part) -/
  safe : Str := []
  /-- `only_printable_chars` together with the characters `str.isprintable` rejects (Unicode database: a parameter) -/
  nonPrintable : Option (Char → Bool) := none
  /-- the literal escape chain (generated) -/
  escapeChain : List (Str × Str) := []
  /-- canonicalisation keyed on the datatype IRI (generated shapes; `Model/Canon` once merged) -/
  canon : Str → Str → Str := fun _ v => v

inductive MatErr | keyError (col : Str)
  deriving Repr, DecidableEq


/-- transformation of one referenced value inside `_materialize_template` -/
def transformValue (cfg : TermCfg) (isTemplate : Bool) (tt : Option TermType) (datatype : Str) (v : Str) : Str :=
  let v := match cfg.nonPrintable with | some np => v.filter (fun c => !np c) | none => v
  match tt with
  | some .iri => if isTemplate then pctEncode cfg.safe v else v
  | some .literal => applyChain cfg.escapeChain (cfg.canon datatype v)
  | _ => v

/-- the split/join loop over the references, for one row -/
def templateLoop (cfg : TermCfg) (isTemplate : Bool) (tt : Option TermType) (datatype : Str)
    (row : Str → Option Str) : List Str → Str → Str → Except MatErr Str
  | [], tpl, acc => .ok (acc ++ tpl)
  | r :: refs, tpl, acc =>
    match row r with
    | none => .error (.keyError r)
    | some v =>
      let v := transformValue cfg isTemplate tt datatype v
      let pat := ['{'] ++ r ++ ['}']
      let parts := split tpl pat
      templateLoop cfg isTemplate tt datatype row refs (join pat parts.tail) (acc ++ parts.headD [] ++ v)

def wrapTerm (tt : Option TermType) (s : Str) : Str :=
  match tt with
  | some .iri => ['<'] ++ s ++ ['>']
  | some .bnode => ['_', ':'] ++ s
  | some .literal => ['"'] ++ s ++ ['"']
  | _ => s

/-- `_materialize_template(df, value, kind, config, position, termtype=…, datatype=…)` on one row.
    `kind` is constant, template or reference; `alias` is the `columns_alias` prefix. -/
def materializeTemplate (cfg : TermCfg) (kind : MapType) (value : Str) (tt : Option TermType) (datatype : Str)
    (alias : Str) (row : Str → Option Str) : Except MatErr Str :=
  let tpl := if kind = .reference then ['{'] ++ value ++ ['}'] else value
  let refs := getReferencesInTemplate tpl
  let tpl' := replace (replace tpl ['\\', '{'] ['{']) ['\\', '}'] ['}']
  match templateLoop cfg (kind = .template) tt datatype (fun r => row (alias ++ r)) refs tpl' [] with
  | .ok s => .ok (wrapTerm tt s)
  | .error e => .error e

end Model

namespace Model
open Py

def xsdNs : Str := "http://www.w3.org/2001/XMLSchema#".toList

end Model
