/-
Model of the output path of the command line run (C04).

* `WriterShape`, `MainShape`, `LibShape`: what the translator (`tools/gen/C04.py`) reads from
  `utils.triples_to_file`, `__main__.py`, `materializer._materialize_mapping_group_to_file` and
  `__init__.materialize_set`.  The values themselves are generated (`Gen/Writer.lean`).
* `rawWrites`: CPython 3.12 `io.TextIOWrapper.write` (textio.c `_io_TextIOWrapper_write_impl`,
  `_textiowrapper_writeflush`) composed with `io.BufferedWriter.write` (bufferedio.c
  `_io__Buffered_write_impl`) and the final `flush()`: the list of `write(2)` payloads, in order, that one
  `triples_to_file` call produces.  Payload sizes are measured by a weight `w` per element (UTF-8 size of a
  character), so text stays text and lengths are byte lengths.
* an abstract regular file opened with `O_APPEND`: every `write(2)` appends its payload atomically
  (`appendAll`), and `Interleaving`: every schedule of the workers' payload sequences.
-/
import MorphKgc.Py.Str

namespace Model.Writer
open Py

/-! ### shapes read from the Python source -/

/-- one piece of the argument of an `f.write(...)` call: a literal or the loop variable `{triple}` -/
inductive Piece where
  | lit (s : Str)
  | triple
  deriving DecidableEq, Repr

/-- `utils.triples_to_file` -/
structure WriterShape where
  /-- `open(path, 'a', …)`; `false` = any other mode -/
  append : Bool
  /-- the `f.write` calls of one iteration of `for triple in triples:`, in order, each a format -/
  calls : List (List Piece)
  flush : Bool
  fsync : Bool
  close : Bool
  deriving DecidableEq, Repr

/-- `__main__.py` and `_materialize_mapping_group_to_file` -/
structure MainShape where
  /-- `prepare_output_files(config, rml_df)` is a top-level statement before the pool is created / the loop starts -/
  prepareBeforeWorkers : Bool
  /-- multi-process branch: `sum(pool.starmap(_materialize_mapping_group_to_file, zip(mapping_groups, repeat…)))` -/
  poolStarmapAllGroups : Bool
  /-- single-process branch: `for mapping_group in mapping_groups: num_triples += _materialize_mapping_group_to_file(mapping_group, …)` -/
  seqLoopAllGroups : Bool
  /-- the worker calls `triples_to_file(triples, config, <partition of the group>)` exactly once, after its rule loop -/
  workerWritesOnce : Bool
  deriving DecidableEq, Repr

/-- how `materialize_set` combines the per-group results -/
inductive Combine where
  /-- `set().union(*parts)` -/
  | unionStar
  /-- `acc = set(); for part in parts: acc.update(part)` -/
  | updateLoop
  | unknown
  deriving DecidableEq, Repr

structure LibShape where
  /-- multi-process branch (over `pool.starmap(_materialize_mapping_group_to_set, zip(mapping_groups, …))`) -/
  pool : Combine
  /-- single-process branch (loop over `mapping_groups`) -/
  seq : Combine
  deriving DecidableEq, Repr

/-! ### what one loop iteration hands to `f.write` -/

def renderCall (t : Str) (ps : List Piece) : Str :=
  ps.flatMap fun p => match p with | .lit s => s | .triple => t

/-- the arguments of the `f.write` calls of one loop iteration -/
def callsOfTriple (sh : WriterShape) (t : Str) : List Str := sh.calls.map (renderCall t)

/-- all `f.write` arguments of one `triples_to_file` call, in order -/
def callsOf (sh : WriterShape) (triples : List Str) : List Str := triples.flatMap (callsOfTriple sh)

/-- the text one loop iteration contributes to the file -/
def renderLine (sh : WriterShape) (t : Str) : Str := (callsOfTriple sh t).flatten

/-- decidable side condition on a format: its last piece is a literal ending in `'\n'` and no other literal
character is a newline -/
def lineFormatOk (ps : List Piece) : Bool :=
  match ps.getLast? with
  | some (.lit s) =>
      s.getLast? == some '\n' && !(s.dropLast.contains '\n') &&
        ps.dropLast.all fun p => match p with | .lit s' => !(s'.contains '\n') | .triple => true
  | _ => false

/-- decidable side condition on the writer: append mode, exactly one `f.write` per statement whose text ends
with the only newline, and the file object is flushed or closed before the function returns -/
def WriterShape.ok (sh : WriterShape) : Bool :=
  sh.append && (match sh.calls with | [ps] => lineFormatOk ps | _ => false) && (sh.flush || sh.close)

def MainShape.ok (m : MainShape) : Bool :=
  m.prepareBeforeWorkers && m.poolStarmapAllGroups && m.seqLoopAllGroups && m.workerWritesOnce

def LibShape.ok (l : LibShape) : Bool :=
  (l.pool == .unionStar || l.pool == .updateLoop) && (l.seq == .unionStar || l.seq == .updateLoop)

/-! ### CPython's io layers -/

section io
variable {α : Type}

/-- size in bytes of a text (or of a buffer) -/
def wlen (w : α → Nat) (l : List α) : Nat := (l.map w).sum

/-- `BufferedWriter.write(d)` with `b` already in the buffer of size `B`: data that fits is copied; otherwise
the buffer is flushed with one raw write (if it holds anything), and data larger than the buffer is written
directly with one raw write, smaller data is copied to the emptied buffer.
Returns (raw writes issued, new buffer content). -/
def bufWrite (w : α → Nat) (B : Nat) (b d : List α) : List (List α) × List α :=
  if wlen w d ≤ B - wlen w b then ([], b ++ d)
  else
    let o := if b.isEmpty then [] else [b]
    if B < wlen w d then (o ++ [d], []) else (o, d)

/-- `_textiowrapper_writeflush`: the joined pending text goes to `BufferedWriter.write` in ONE call
(`none` = `pending_bytes == NULL`) -/
def textFlush (w : α → Nat) (B : Nat) (b : List α) (p : Option (List α)) : List (List α) × List α :=
  match p with
  | none => ([], b)
  | some t => bufWrite w B b t

/-- `TextIOWrapper.write(d)` (no line buffering, no write-through) with chunk size `C`:
pending text is flushed *before* it would exceed `C`, and again as soon as it reaches `C`.
Returns (raw writes issued, new buffer content, new pending text). -/
def textWrite (w : α → Nat) (C B : Nat) (b : List α) (p : Option (List α)) (d : List α) :
    List (List α) × List α × Option (List α) :=
  let r1 : List (List α) × List α × List α :=
    match p with
    | none => ([], b, d)
    | some t =>
      if C < wlen w t + wlen w d then ((bufWrite w B b t).1, (bufWrite w B b t).2, d)
      else ([], b, t ++ d)
  if C ≤ wlen w r1.2.2 then (r1.1 ++ (bufWrite w B r1.2.1 r1.2.2).1, (bufWrite w B r1.2.1 r1.2.2).2, none)
  else (r1.1, r1.2.1, some r1.2.2)

/-- the `f.write` calls followed by `f.flush()` (text flush, then the buffer is written if it holds anything) -/
def run (w : α → Nat) (C B : Nat) : List α → Option (List α) → List (List α) → List (List α)
  | b, p, [] =>
      (textFlush w B b p).1 ++ (if (textFlush w B b p).2.isEmpty then [] else [(textFlush w B b p).2])
  | b, p, d :: ds =>
      (textWrite w C B b p d).1 ++ run w C B (textWrite w C B b p d).2.1 (textWrite w C B b p d).2.2 ds

/-- the `write(2)` payloads, in order, of: open; `write(d)` for every `d` in `calls`; flush -/
def rawWrites (w : α → Nat) (C B : Nat) (calls : List (List α)) : List (List α) :=
  run w C B [] none calls

end io

/-- UTF-8 size of a character: the weight used for text -/
def utf8w (c : Char) : Nat := c.utf8Size

/-- payload *lengths* for a list of call lengths (what the correspondence compares with strace):
a call of `n > 0` bytes is represented by the one-element list `[n-1]` of weight `n` -/
def rawLens (C B : Nat) (ns : List Nat) : List Nat :=
  (rawWrites (fun n => n + 1) C B (ns.map fun n => if n = 0 then [] else [n - 1])).map (wlen fun n => n + 1)

/-- the raw writes of one `triples_to_file(triples, …)` call -/
def workerWrites (sh : WriterShape) (C B : Nat) (triples : List Str) : List Str :=
  rawWrites utf8w C B (callsOf sh triples)

/-! ### the file -/

section file
variable {α : Type}

/-- a regular file opened with `O_APPEND`: each `write(2)` appends its whole payload at the end -/
def appendAll (f0 : List α) (sched : List (List α)) : List α := sched.foldl (· ++ ·) f0

/-- `Interleaving ws s`: `s` is a schedule of the workers `ws` — every step takes the next item of some
worker that still has one; it ends when no worker has anything left -/
inductive Interleaving {β : Type} : List (List β) → List β → Prop where
  | done {ws : List (List β)} : (∀ w ∈ ws, w = []) → Interleaving ws []
  | step {pre post : List (List β)} {w : List β} {c : β} {s : List β} :
      Interleaving (pre ++ w :: post) s → Interleaving (pre ++ (c :: w) :: post) (c :: s)

/-- the lines of a text, each with its terminator; a trailing unterminated rest is the last item -/
def lines [DecidableEq α] (nl : α) : List α → List (List α)
  | [] => []
  | x :: xs =>
    if x = nl then [x] :: lines nl xs
    else match lines nl xs with
      | [] => [[x]]
      | l :: ls => (x :: l) :: ls

/-- a complete line: content without the terminator, then the terminator -/
def IsLine (nl : α) (l : List α) : Prop := ∃ c, nl ∉ c ∧ l = c ++ [nl]

/-- a concatenation of complete lines -/
def WholeLines (nl : α) (c : List α) : Prop := ∃ ls : List (List α), (∀ l ∈ ls, IsLine nl l) ∧ c = ls.flatten

/-- executable form of `WholeLines`: empty, or the last element is the terminator -/
def wholeLinesB [DecidableEq α] (nl : α) (c : List α) : Bool :=
  match c.getLast? with | none => true | some x => x = nl

end file

/-- the output file after a command line run: `prepare_output_files` removes the old file iff it runs before
the workers; then the workers' raw writes are appended in schedule order -/
def cliFile (m : MainShape) (old : Str) (sched : List Str) : Str :=
  appendAll (if m.prepareBeforeWorkers then [] else old) sched

/-- the library result as a membership list -/
def combine : Combine → List (List Str) → List Str
  | .unionStar, parts => parts.flatten
  | .updateLoop, parts => parts.foldl (· ++ ·) []
  | .unknown, _ => []

end Model.Writer
