/-
Model of `morph_kgc.config.Config` (the CONFIGURATION section) and of `args_parser._parse_config`.

A configuration is the association list of the options of the CONFIGURATION section *after* configparser
has read the text: option names lower-cased (`optionxform`), values stripped.  configparser itself (INI
syntax, `ExtendedInterpolation`, duplicate detection, the DEFAULT section) is not modelled: it is trusted
and checked by the correspondence harness.  `ConfigParser.set` replaces the value of an existing option in
place and appends a new option at the end (dict semantics) — `cfgSet`.

Everything that comes from a table, a call order or a shape in config.py / args_parser.py is a *parameter*
here; the instances are generated from /repo into `Gen/Config.lean`.
-/
import MorphKgc.Py.Str

namespace Model
open Py

abbrev Cfg := List (Str × Str)

inductive CfgErr
  /-- `ValueError` raised for this option (by `validate_configuration_section`, `getboolean`, `getint`) -/
  | valueError (option : Str)
  /-- `configparser.NoOptionError` -/
  | noOption (option : Str)
  /-- `FileNotFoundError` raised by `get_mappings_files` for this path -/
  | fileNotFound (path : Str)
  deriving DecidableEq, Repr

deriving instance DecidableEq for Except

/-- `config.get(CONFIGURATION, o)` / `has_option` -/
def cfgGet : Cfg → Str → Option Str
  | [], _ => none
  | (k, v) :: r, o => if k = o then some v else cfgGet r o

/-- `config.set(CONFIGURATION, o, v)` -/
def cfgSet : Cfg → Str → Str → Cfg
  | [], o, v => [(o, v)]
  | (k, w) :: r, o, v => if k = o then (k, v) :: r else (k, w) :: cfgSet r o v

/-- what configparser hands over for raw `(name, value)` pairs: names lower-cased, values stripped
    (ASCII only in the model) -/
def cfgOfRaw (raw : List (Str × Str)) : Cfg := raw.map fun p => (asciiLower p.1, strip p.2)

/-! ### defaults -/

/-- decimal `str(n)` of a natural number -/
def natStrFuel : Nat → Nat → Str → Str
  | 0, _, acc => acc
  | f + 1, n, acc =>
    let d := Char.ofNat (48 + n % 10)
    if n / 10 = 0 then d :: acc else natStrFuel f (n / 10) (d :: acc)
def natStrDec (n : Nat) : Str := natStrFuel (n + 1) n []

/-- a default as written in config.py: a constant, or `2 * mp.cpu_count()` (kept symbolic) -/
inductive DefaultVal
  | lit (s : Str)
  | twiceCpu
  deriving DecidableEq, Repr

/-- `str(default)` on a machine with `cpu` CPUs -/
def DefaultVal.eval (cpu : Nat) : DefaultVal → Str
  | .lit s => s
  | .twiceCpu => natStrDec (2 * cpu)

/-- one `for option, default in TABLE.items(): if not _is_option_provided(self, option, empty_value_is_valid=F): set`
    loop of `complete_configuration_with_defaults` -/
structure CompleteStep where
  emptyValid : Bool
  table : List (Str × DefaultVal)
  deriving DecidableEq, Repr

/-- `_is_option_provided(config, option, empty_value_is_valid)` -/
def isProvided (c : Cfg) (o : Str) (emptyValid : Bool) : Bool :=
  match cfgGet c o with
  | none => false
  | some v => if v = [] ∧ emptyValid = false then false else true

/-- one table entry of one loop -/
def completeEntry (cpu : Nat) (c : Cfg) (e : Bool × Str × DefaultVal) : Cfg :=
  if isProvided c e.2.1 e.1 then c else cfgSet c e.2.1 (e.2.2.eval cpu)

/-- all `(empty_value_is_valid, option, default)` triples in the order in which the code visits them -/
def completeEntries (steps : List CompleteStep) : List (Bool × Str × DefaultVal) :=
  steps.flatMap fun s => s.table.map fun od => (s.emptyValid, od.1, od.2)

/-- `Config.complete_configuration_with_defaults` -/
def completeWith (steps : List CompleteStep) (cpu : Nat) (c : Cfg) : Cfg :=
  (completeEntries steps).foldl (completeEntry cpu) c

/-- the value an option holds after its table entry `(emptyValid, d)` has been visited, as a function of
    what the user wrote for it (`none` = absent) -/
def finalOf (cpu : Nat) (emptyValid : Bool) (d : DefaultVal) : Option Str → Str
  | none => d.eval cpu
  | some v => if v = [] ∧ emptyValid = false then d.eval cpu else v

/-! ### validation of the enumerated options -/

/-- shape of one block of `validate_configuration_section`:
    `x = str(self.get_o()).upper(); self.set_o(x); if x not in VALID: raise ValueError(...)` -/
structure EnumCheck where
  option : Str
  /-- the value is upper-cased (`str(...).upper()`) before it is tested -/
  upper : Bool
  /-- the (upper-cased) value is written back with the setter before the test -/
  writeBack : Bool
  /-- the setter applies `.upper()` once more (`set_mapping_partitioning`) -/
  setterUpper : Bool
  valid : List Str
  /-- `ValueError` is raised when the value is not in `valid` -/
  raises : Bool
  deriving DecidableEq, Repr

def checkEnum (e : EnumCheck) (c : Cfg) : Except CfgErr Cfg :=
  match cfgGet c e.option with
  | none => .error (.noOption e.option)
  | some v =>
    let v' := if e.upper then asciiUpper v else v
    let c' := if e.writeBack then cfgSet c e.option (if e.setterUpper then asciiUpper v' else v') else c
    if v' ∈ e.valid then .ok c'
    else if e.raises then .error (.valueError e.option) else .ok c'

/-- `Config.validate_configuration_section` (the three enumerated options, in code order; the two
    `create_dirs_in_path` calls before them only touch the file system) -/
def validateWith : List EnumCheck → Cfg → Except CfgErr Cfg
  | [], c => .ok c
  | e :: es, c =>
    match checkEnum e c with
    | .error err => .error err
    | .ok c' => validateWith es c'

/-! ### `_parse_config` and the two loaders -/

inductive LoadStep
  | readFile | readString | completeDefaults | validate | configureLogger | logInfo
  deriving DecidableEq, Repr

/-- the effect of one step on the CONFIGURATION section (`read*` is configparser's: the association list is
    its result; logger configuration and logging do not touch the configuration) -/
def runStep (steps : List CompleteStep) (checks : List EnumCheck) (cpu : Nat) : LoadStep → Cfg → Except CfgErr Cfg
  | .completeDefaults, c => .ok (completeWith steps cpu c)
  | .validate, c => validateWith checks c
  | _, c => .ok c

def runSteps (steps : List CompleteStep) (checks : List EnumCheck) (cpu : Nat) : List LoadStep → Cfg → Except CfgErr Cfg
  | [], c => .ok c
  | s :: ss, c =>
    match runStep steps checks cpu s c with
    | .error e => .error e
    | .ok c' => runSteps steps checks cpu ss c'

/-- `_parse_config`: defaults, then validation -/
def parseConfigWith (steps : List CompleteStep) (checks : List EnumCheck) (cpu : Nat) (c : Cfg) : Except CfgErr Cfg :=
  validateWith checks (completeWith steps cpu c)

/-! ### getters -/

inductive GetterKind
  | get | getboolean | getint | naList
  deriving DecidableEq, Repr

/-- `RawConfigParser._convert_to_boolean`: `BOOLEAN_STATES[value.lower()]`, `ValueError` when absent -/
def parseBoolWith (states : List (Str × Bool)) (v : Str) : Option Bool :=
  (states.find? (fun kb => kb.1 = asciiLower v)).map (·.2)

def digitVal (c : Char) : Nat := c.toNat - 48

/-- digits with single underscores strictly between digits (`int('1_000')`) -/
def parseNatU (s : Str) : Option Nat :=
  if s = [] then none
  else if s.head? = some '_' ∨ s.getLast? = some '_' then none
  else if isInfix "__".toList s then none
  else if s.all (fun c => c.isDigit || c = '_') then
    some ((s.filter Char.isDigit).foldl (fun acc c => 10 * acc + digitVal c) 0)
  else none

/-- `int(value)` for ASCII input: surrounding whitespace, an optional sign, decimal digits -/
def parseInt (v : Str) : Option Int :=
  match strip v with
  | '-' :: r => (parseNatU r).map fun n => - (Int.ofNat n)
  | '+' :: r => (parseNatU r).map Int.ofNat
  | r => (parseNatU r).map Int.ofNat

def getBool (states : List (Str × Bool)) (c : Cfg) (o : Str) : Except CfgErr Bool :=
  match cfgGet c o with
  | none => .error (.noOption o)
  | some v => match parseBoolWith states v with
    | some b => .ok b
    | none => .error (.valueError o)

def getInt (c : Cfg) (o : Str) : Except CfgErr Int :=
  match cfgGet c o with
  | none => .error (.noOption o)
  | some v => match parseInt v with
    | some n => .ok n
    | none => .error (.valueError o)

/-- shape of `get_na_values`: `list(set(value.split(sep)))` or `value.split(sep)` -/
structure NaShape where
  sep : Str
  dedup : Bool
  deriving DecidableEq, Repr

/-- `Config.get_na_values` (as a list; the order of a Python `set` is not modelled, compare as sets) -/
def naValuesWith (sh : NaShape) (v : Str) : List Str :=
  if sh.dedup then dedup (split v sh.sep) else split v sh.sep

/-- the NA test of `utils.remove_null_values_from_dataframe`: `DataFrame.replace(list, None)` matches whole cells -/
def isNaCell (sh : NaShape) (naOption : Str) (cell : Str) : Bool := (naValuesWith sh naOption).contains cell

/-! ### output file name -/

/-- `PurePath.suffix` / `with_suffix` on a path *string* without normalisation (no `//`, no trailing `/`):
    the suffix of the last component is replaced, or `ext` appended when there is none -/
def lastComponentStart (s : Str) : Nat :=
  match (s.reverse.idxOf? '/') with
  | some i => s.length - i
  | none => 0

def withSuffix (path ext : Str) : Str :=
  let k := lastComponentStart path
  let dir := path.take k
  let name := path.drop k
  -- i = name.rfind('.') ; suffix iff 0 < i < len(name) - 1
  match name.reverse.idxOf? '.' with
  | none => dir ++ name ++ ext
  | some j =>
    let i := name.length - 1 - j
    if 0 < i ∧ i < name.length - 1 then dir ++ name.take i ++ ext else dir ++ name ++ ext

/-- `Config.get_output_file_path()` when `output_dir` is empty: `fallback` is the name used by the last branch -/
def outputFilePathWith (extTable : List (Str × Str)) (optFormat optFile fallback : Str) (c : Cfg) : Option Str :=
  match cfgGet c optFormat, cfgGet c optFile with
  | some f, some file =>
    match (extTable.find? (fun p => p.1 = f)).map (·.2) with
    | none => none      -- KeyError
    | some ext => some (withSuffix (if file = [] then fallback else file) ext)
  | _, _ => none

/-! ### mapping paths -/

inductive PathKind | file | dir (entries : List (Str × Bool)) | missing
  deriving DecidableEq, Repr

def mappingsStep (fs : Str → PathKind) (acc : Except CfgErr (List Str)) (p : Str) : Except CfgErr (List Str) :=
  match acc with
  | .error e => .error e
  | .ok l =>
    match fs p with
    | .file => .ok (l ++ [p])
    | .dir es => .ok (l ++ (es.filter (·.2)).map fun e => p ++ "/".toList ++ e.1)
    | .missing => if startsWith p "http".toList then .ok (l ++ [p]) else .error (.fileNotFound p)

/-- `Config.get_mappings_files` over an abstract file system (`fs path`); a directory lists `(name, isfile)`;
    paths are NOT stripped (`'a.ttl, b.ttl'` asks for the file `' b.ttl'`) -/
def mappingsFiles (fs : Str → PathKind) (sep : Str) (value : Str) : Except CfgErr (List Str) :=
  (split value sep).foldl (mappingsStep fs) (.ok [])

end Model
