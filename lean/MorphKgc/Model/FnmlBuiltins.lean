/-
The built-in function registry of `fnml/built_in_functions.py`.

Which functions are registered, under which id, with which parameter IRIs, and the SHAPE of each body are read from /repo by
the translator (`Gen/Fnml.lean`, `Gen.builtins`); this file gives every recognised shape its meaning.  Python library
behaviour that is not modelled (Unicode case mapping, `html.escape`, `datetime.strptime`, `eval`, `repr` of a list,
`int()`, `round(float())`, SHA-256, `uuid4`) is the abstract parameter `PyLib`; everything else is executable here.
-/
import MorphKgc.Model.Fnml

namespace Model.Fnml
open Py Model

/-- result of `try: x = eval(s) except: pass` -/
inductive EvalRes
  /-- `eval` gave a list (of anything) -/
  | list (xs : List Atom)
  /-- `eval` raised: the value stays the string it was -/
  | keep
  /-- `eval` gave a `str` -/
  | text (s : Str)
  /-- `eval` gave some other object (a number, a dict, …) -/
  | otherObj
  deriving DecidableEq, Repr, Inhabited

/-- Python library behaviour outside the model -/
structure PyLib where
  lower : Str → Str
  upper : Str → Str
  title : Str → Str
  htmlEscape : Str → Str
  /-- `str(datetime.strptime(s, fmt).date())`, or the exception -/
  strptimeDate : Str → Str → Atom
  /-- `str(list)` -/
  reprList : List Atom → Str
  evalSeq : Str → EvalRes
  /-- `int(s)`; `none` = `ValueError` -/
  parseInt : Str → Option Int
  /-- `bool(eval(s))`; `none` = the evaluation raised -/
  evalTruthy : Str → Option Bool
  /-- `str(round(float(s)))`, or the exception -/
  roundFloat : Str → Atom
  /-- `sha256(s.encode('UTF-8')).hexdigest()` -/
  sha256hex : Str → Str
  uuid4 : Str

inductive BuiltinShape
  | escapeHtml | indexOf | toStr | strptimeDate | splitRepr | arrayGet | arraySlice | replaceAll | lower | upper | title
  | reverse | strip | ifEval | roundNumber
  /-- `string.lower() in [falsy…]` -/
  | ifCast (falsy : List Str)
  | uuid | splitList | concat3
  /-- `toUpperCaseURL`; `rest = true`: the part AFTER the scheme is upper-cased and encoded (`url[8:]`);
      `rest = false`: the scheme itself (`url[:8]`, the code as it is) -/
  | upperUrl (rest : Bool)
  | sha256Hex | hashIri
  /-- the body loads a name that is bound nowhere (not a parameter, local, local import, module global or builtin):
      every call raises `NameError` -/
  | nameError (name : Str)
  | unrecognised
  deriving DecidableEq, Repr, Inhabited

structure Builtin where
  funId : Str
  /-- name of the Python function -/
  name : Str
  /-- decorator keyword arguments: Python parameter name ↦ parameter IRI -/
  params : Sig
  /-- the positional parameters of the `def`, in order -/
  argNames : List Str
  shape : BuiltinShape
  deriving DecidableEq, Repr, Inhabited

/-! ### Python primitives -/

/-- `s.split(sep)` with an explicit separator; `none` = `ValueError: empty separator` -/
def pySplit (s sep : Str) : Option (List Str) := if sep = [] then none else some (split s sep)

/-- `s.replace(old, new)`; an empty `old` matches between all characters and at both ends -/
def pyReplace (s old new : Str) : Str :=
  if old = [] then new ++ s.flatMap (fun c => c :: new) else replace s old new

/-- `s.index(sub)`; `none` = `ValueError: substring not found` -/
def pyIndexOf (s sub : Str) : Option Nat :=
  if sub = [] then some 0 else (breakOn sub s).map fun p => p.1.length

/-- `l[i]` with Python's negative indices; `none` = `IndexError` -/
def pyIndex {α} (l : List α) (i : Int) : Option α :=
  if 0 ≤ i then l[i.toNat]? else if -i ≤ l.length then l[l.length - (-i).toNat]? else none

/-- a slice bound, clamped into `[0, len]` -/
def clampIdx (len : Nat) (i : Int) : Nat :=
  if 0 ≤ i then min i.toNat len else len - min (-i).toNat len

/-- `l[a:b]` (`b = none`: to the end) -/
def pySlice {α} (l : List α) (a : Int) (b : Option Int) : List α :=
  let a' := clampIdx l.length a
  let b' := match b with | some b => clampIdx l.length b | none => l.length
  (l.drop a').take (b' - a')

/-- `str(x)` / `f'{x}'` -/
def strOf : Atom → Str
  | .str s => s
  | .null r => r
  | .other r => r
  | .exc _ => []

/-- an argument that must be a `str` for the method call to succeed -/
def needStr (a : Option Atom) (k : Str → PyVal) : PyVal :=
  match a with
  | some (.str s) => k s
  | some (.exc n) => .atom (.exc n)
  | some _ => .atom (.exc "AttributeError".toList)
  | none => .atom (.exc "TypeError".toList)           -- a required positional argument is missing

/-- `int(x)` for a `str` or a number -/
def needInt (lib : PyLib) (a : Option Atom) (k : Int → PyVal) : PyVal :=
  match a with
  | some (.str s) | some (.other s) =>
    (match lib.parseInt s with | some i => k i | none => .atom (.exc "ValueError".toList))
  | some (.exc n) => .atom (.exc n)
  | _ => .atom (.exc "TypeError".toList)

/-- `if end:` -/
def truthy : Option Atom → Bool
  | some (.str s) => !s.isEmpty
  | some (.other _) => true
  | _ => false

def orNone : Option Atom → PyVal
  | some a => .atom a
  | none => .atom (.null "None".toList)

def pstr (s : Str) : PyVal := .atom (.str s)

def sHttps : Str := "https://".toList
def sHttp : Str := "http://".toList

/-- shared by `array_get` / `array_slice`: the value after the `try: eval` -/
inductive SeqVal | strs (l : List Atom) | text (s : Str) | bad

def seqOf (lib : PyLib) (s : Str) : SeqVal :=
  match lib.evalSeq s with
  | .list xs => .strs xs
  | .keep => .text s
  | .text t => .text t
  | .otherObj => .bad

def sliceRepr (lib : PyLib) (v : SeqVal) (a : Int) (b : Option Int) : PyVal :=
  match v with
  | .strs l => pstr (lib.reprList (pySlice l a b))
  | .text s => pstr (pySlice s a b)
  | .bad => .atom (.exc "TypeError".toList)

/-- meaning of one recognised body shape; `arg i` is the value bound to the `i`-th positional parameter of the `def` -/
def applyShape (lib : PyLib) (shape : BuiltinShape) (arg : Nat → Option Atom) : PyVal :=
  match shape with
  | .escapeHtml =>
    (match arg 1 with
     | some (.str m) => if m = "html".toList then needStr (arg 0) fun s => pstr (lib.htmlEscape s) else .atom (.null "None".toList)
     | some (.exc n) => .atom (.exc n)
     | none => .atom (.exc "TypeError".toList)
     | _ => .atom (.null "None".toList))
  | .indexOf =>
    needStr (arg 0) fun s => needStr (arg 1) fun sub =>
      match pyIndexOf s sub with
      | some i => .atom (.other (toString i).toList)
      | none => .atom (.exc "ValueError".toList)
  | .toStr => (match arg 0 with | some (.exc n) => .atom (.exc n) | some a => pstr (strOf a) | none => .atom (.exc "TypeError".toList))
  | .strptimeDate => needStr (arg 0) fun s => needStr (arg 1) fun f => .atom (lib.strptimeDate s f)
  | .splitRepr =>
    needStr (arg 0) fun s => needStr (arg 1) fun sep =>
      match pySplit s sep with
      | some l => pstr (lib.reprList (l.map .str))
      | none => .atom (.exc "ValueError".toList)
  | .arrayGet =>
    needStr (arg 0) fun s => needInt lib (arg 1) fun a =>
      if truthy (arg 2) then needInt lib (arg 2) fun b => sliceRepr lib (seqOf lib s) a (some b)
      else match seqOf lib s with
        | .strs l => (match pyIndex l a with | some x => .atom x | none => .atom (.exc "IndexError".toList))
        | .text t => (match pyIndex t a with | some c => pstr [c] | none => .atom (.exc "IndexError".toList))
        | .bad => .atom (.exc "TypeError".toList)
  | .arraySlice =>
    needStr (arg 0) fun s => needInt lib (arg 1) fun a =>
      if truthy (arg 2) then needInt lib (arg 2) fun b => sliceRepr lib (seqOf lib s) a (some b)
      else sliceRepr lib (seqOf lib s) a none
  | .replaceAll => needStr (arg 0) fun s => needStr (arg 1) fun o => needStr (arg 2) fun n => pstr (pyReplace s o n)
  | .lower => needStr (arg 0) fun s => pstr (lib.lower s)
  | .upper => needStr (arg 0) fun s => pstr (lib.upper s)
  | .title => needStr (arg 0) fun s => pstr (lib.title s)
  | .reverse => needStr (arg 0) fun s => pstr s.reverse
  | .strip => needStr (arg 0) fun s => pstr (pyStrip s)
  | .ifEval =>
    needStr (arg 0) fun b =>
      match lib.evalTruthy b with
      | some true => orNone (arg 1)
      | some false => orNone (arg 2)
      | none => .atom (.exc "EvalError".toList)
  | .roundNumber =>
    needStr (arg 0) fun n =>
      let n := if n.contains ',' && n.contains '.' then n.filter (· ≠ ',')
               else if n.contains ',' then n.map (fun c => if c = ',' then '.' else c) else n
      .atom (lib.roundFloat n)
  | .ifCast falsy => needStr (arg 0) fun s => if falsy.contains (lib.lower s) then orNone (arg 2) else orNone (arg 1)
  | .uuid => pstr lib.uuid4
  | .splitList =>
    needStr (arg 0) fun s => needStr (arg 1) fun sep =>
      match pySplit s sep with
      | some l => .list (l.map .str)
      | none => .atom (.exc "ValueError".toList)
  | .concat3 =>
    (match arg 0, arg 1 with
     | some a, some b =>
       (match [a, b, (arg 2).getD (.str [])].find? (·.isExc) with
        | some e => .atom e
        | none => pstr (strOf a ++ strOf ((arg 2).getD (.str [])) ++ strOf b))
     | _, _ => .atom (.exc "TypeError".toList))
  | .upperUrl rest =>
    needStr (arg 0) fun url =>
      let low := lib.lower url
      if startsWith low sHttps then pstr (sHttps ++ pctEncode [] (lib.upper (if rest then url.drop 8 else url.take 8)))
      else if startsWith low sHttp then pstr (sHttp ++ pctEncode [] (lib.upper (if rest then url.drop 7 else url.take 7)))
      else pstr (sHttp ++ pctEncode [] (lib.upper url))
  | .sha256Hex => needStr (arg 0) fun s => pstr (lib.sha256hex s)
  | .hashIri => needStr (arg 0) fun s => pstr ("http://example.com/ns#".toList ++ lib.sha256hex s)
  | .nameError _ => .atom (.exc "NameError".toList)
  | .unrecognised => .atom (.exc "unrecognisedShape".toList)

def findBuiltin (tbl : List Builtin) (f : Str) : Option Builtin := tbl.find? (fun b => b.funId = f)

def applyBuiltin (lib : PyLib) (b : Builtin) (args : Args) : PyVal :=
  applyShape lib b.shape fun i => match b.argNames[i]? with | some k => lookup k args | none => none

/-- `bif_dict` first, then the user's `udf_dict` (fnml_executer.py L84-90) -/
def withBuiltins (tbl : List Builtin) (lib : PyLib) (udf : FunEnv) : FunEnv where
  sigs f := match findBuiltin tbl f with | some b => some b.params | none => udf.sigs f
  call f args := match findBuiltin tbl f with | some b => applyBuiltin lib b args | none => udf.call f args

end Model.Fnml
