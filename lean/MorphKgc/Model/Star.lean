/-
The RDF-star branch of `materializer._materialize_rml_rule` (quoted triples map in subject and/or object position),
transcribed branch by branch, together with the pieces it shares with the other branches when they are reached
through the recursion (`data=` passed down, `nest_level`, `parent_join_references`).

Data frames are modelled with their column *names* (pandas raises on missing / overlapping names whatever the rows are)
and their rows.  The cells read by term maps and join conditions live in `FRow.src` (source columns, and the `parent_…`
columns added by `_merge_data`); the scratch columns the engine itself creates are separate fields (`subject`, `object`,
`triple`, `parent_triple`, `keep_subject<n>`) or names only (`reference_results`, `lang_datatype`: never read back).
A source column that carries one of the scratch names is outside the model (as in `Model.evalRule`).

The string constants, the nest-level arithmetic, the `keep_subject` key and the join flavour come from `Gen/Star.lean`,
which the translator regenerates from the Python source.
-/
import MorphKgc.Model.Eval
import MorphKgc.Gen.Star

namespace Model.Star
open Py Model

inductive Err
  | keyError (col : Str)
  /-- `DataFrame.join`: "columns overlap but no suffix specified" -/
  | overlap (cols : List Str)
  /-- `DataFrame.merge`: "… is both an index level and a column label, which is ambiguous" -/
  | ambiguous (col : Str)
  /-- `get_rml_rule(...).iloc[0]` / `tm_to_id_list_dict[...]` on an unknown triples map -/
  | noRule (tm : Str)
  | fuel
  deriving Repr, DecidableEq

def liftMat {α} : Except MatErr α → Except Err α
  | .ok a => .ok a
  | .error (.keyError c) => .error (.keyError c)

structure FRow where
  src : SRow
  subject : Option Str := none
  object : Option Str := none
  triple : Option Str := none
  /-- the `parent_triple` column between `_merge_data` and its `drop` -/
  parentTriple : Option Str := none
  /-- the `keep_subject<n>` columns -/
  keep : List (Nat × Str) := []
  deriving Repr, DecidableEq

structure Frame where
  srcCols : List Str
  /-- names of the scratch columns present (`triple`, `reference_results`, `lang_datatype`, `keep_subject<n>`, and their
      `parent_`-prefixed copies); `subject`/`predicate`/`object`/`graph` are dropped before a frame leaves
      `_materialize_rml_rule` and never meet a prefixed name, so they are not tracked -/
  scratch : List Str := []
  /-- name of the index left by `set_index([...], drop=False)` -/
  index : Option Str := none
  rows : List FRow
  deriving Repr, DecidableEq

def Frame.allCols (F : Frame) : List Str := F.srcCols ++ F.scratch
def Frame.mapRows (F : Frame) (f : FRow → FRow) : Frame := { F with rows := F.rows.map f }
def Frame.addScratch (F : Frame) (names : List Str) : Frame :=
  { F with scratch := F.scratch ++ names.filter fun n => !F.scratch.contains n }
def Frame.dropScratch (F : Frame) (name : Str) : Frame := { F with scratch := F.scratch.filter (· ≠ name) }

def tripleCol : Str := "triple".toList
def refResCol : Str := "reference_results".toList
def langDtCol : Str := "lang_datatype".toList
def placeholder : Str := "placeholder".toList

def wrapQuoted (t : Str) : Str := Gen.Star.quoteOpen ++ t ++ Gen.Star.quoteClose
def nextNest (n : Nat) : Nat := n + Gen.Star.nestIncrement
def keepKey (n : Nat) : Nat := if Gen.Star.keepKeyPerLevel then n else 0
def keepName (n : Nat) : Str := Gen.Star.keepKeyPrefix ++ (Nat.repr (keepKey n)).toList
def prefixName (c : Str) : Str := Gen.Star.parentPrefix ++ c
def graphApplies (nest : Nat) : Bool := if Gen.Star.graphAtNestZeroOnly then nest == 0 else true

def lookupKeep (k : Nat) : List (Nat × Str) → Option Str
  | [] => none
  | (a, b) :: r => if a = k then some b else lookupKeep k r

def setKeep (k : Nat) (v : Option Str) (l : List (Nat × Str)) : List (Nat × Str) :=
  match v with
  | some s => (k, s) :: l.filter (·.1 ≠ k)
  | none => l.filter (·.1 ≠ k)

def isTermKind (mt : MapType) : Bool := mt = .template || mt = .constant || mt = .reference
def isStar (r : Rule) : Bool := r.subjectMapType = .quoted || r.objectMapType = .quoted

/-- the references a position adds: those of the quoted rule when there is no join condition -/
def posRefsStar (rules : List Rule) (rec : Rule → Except Err (List Str)) (mt : MapType) (v : Str) (join : List (Str × Str)) :
    Except Err (List Str) :=
  if mt = .quoted && join.isEmpty then
    match findRule rules v with
    | none => .error (.noRule v)
    | some q => rec q
  else .ok []

/-- `_get_references_in_rml_rule` including the recursion into quoted maps without join condition -/
def refsStar (rules : List Rule) : Nat → Rule → Except Err (List Str)
  | 0, _ => .error .fuel
  | n + 1, r =>
    match posRefsStar rules (refsStar rules n) r.subjectMapType r.subjectMapValue r.subjectJoin with
    | .error e => .error e
    | .ok s =>
      match posRefsStar rules (refsStar rules n) r.objectMapType r.objectMapValue r.objectJoin with
      | .error e => .error e
      | .ok o => .ok (refsOfRule r ++ s ++ o)

/-- `_get_data`: reader + `_preprocess_data` on the given references -/
def getData (env : Env) (r : Rule) (refs : List Str) : Except Err Frame := do
  let rows ← liftMat (preprocess env.na refs (env.table r))
  -- a reader asked for NO column returns no row, whatever the table holds (`pd.read_csv(usecols=[])` is a (0, 0) frame)
  pure { srcCols := dedupFirst refs, rows := if refs.isEmpty then [] else rows.map fun σ => { src := σ } }

/-- the environment `_materialize_rml_rule` effectively works in at a nesting level: no graph term below level 0 -/
def envAt (env : Env) (nest : Nat) : Env := if graphApplies nest then env else { env with fmt := .ntriples }

/-- the `subject` column of a row: materialised from the subject map, or (quoted map) what the star branch has put there -/
def subjTerm (env : Env) (r : Rule) (φ : FRow) : Except Err Str :=
  if isTermKind r.subjectMapType then
    liftMat (materializeTemplate env.cfg r.subjectMapType r.subjectMapValue (some r.subjectTermtype) [] []
      (fun c => lookup c φ.src))
  else match φ.subject with
    | some s => .ok s
    | none => .error (.keyError "subject".toList)

def predTerm (env : Env) (r : Rule) (φ : FRow) : Except Err Str :=
  if isTermKind r.predicateMapType then
    liftMat (materializeTemplate env.cfg r.predicateMapType r.predicateMapValue (some .iri) [] [] (fun c => lookup c φ.src))
  else .error (.keyError "predicate".toList)

def objTerm (env : Env) (r : Rule) (objKind : MapType) (objValue objAlias : Str) (φ : FRow) : Except Err Str :=
  if isTermKind objKind then
    liftMat (materializeTemplate env.cfg objKind objValue (some r.objectTermtype) (litDatatype r) objAlias
      (fun c => lookup c φ.src))
  else match φ.object with
    | some o => .ok o
    | none => .error (.keyError "object".toList)

/-- `results_df['object'] = results_df['object'] + '@' + …` / `+ '^^' + …` -/
def objSuffixed (env : Env) (r : Rule) (φ : FRow) (o : Str) : Except Err Str :=
  match r.langDatatype, r.langDatatypeMapType with
  | some .languageMap, some mt =>
    match liftMat (materializeTemplate env.cfg mt r.langDatatypeMapValue none [] [] (fun c => lookup c φ.src)) with
    | .ok l => .ok (o ++ ['@'] ++ l)
    | .error e => .error e
  | some .datatypeMap, some mt =>
    match liftMat (materializeTemplate env.cfg mt r.langDatatypeMapValue (some .iri) [] [] (fun c => lookup c φ.src)) with
    | .ok d => .ok (o ++ ['^', '^'] ++ d)
    | .error e => .error e
  | _, _ => .ok o

/-- the graph term, when the format asks for one (`env` is already `envAt nest`) -/
def withGraph (env : Env) (r : Rule) (φ : FRow) (t : Str) : Except Err Str :=
  match env.fmt with
  | .ntriples => .ok t
  | .nquads =>
    if r.graphMapValue ≠ env.defaultGraph then
      match liftMat (materializeTemplate env.cfg r.graphMapType r.graphMapValue (some .iri) [] [] (fun c => lookup c φ.src)) with
      | .ok g => .ok (t ++ [' '] ++ g)
      | .error e => .error e
    else .ok (t ++ [' '])

/-- `_materialize_rml_rule_terms` + `data['triple'] = …` (+ graph) for one row.  A quoted position reads the column the
    star branch has filled; every other position is materialised from its term map. -/
def lineOf (env : Env) (r : Rule) (objKind : MapType) (objValue objAlias : Str) (φ : FRow) : Except Err Str :=
  match subjTerm env r φ with
  | .error e => .error e
  | .ok s =>
    match predTerm env r φ with
    | .error e => .error e
    | .ok p =>
      match objTerm env r objKind objValue objAlias φ with
      | .error e => .error e
      | .ok o =>
        match objSuffixed env r φ o with
        | .error e => .error e
        | .ok o => withGraph env r φ (s ++ [' '] ++ p ++ [' '] ++ o)

/-- the columns `lineOf` reads: pandas raises `KeyError` for a missing one whatever the rows are -/
def colsRead (env : Env) (r : Rule) (objKind : MapType) (objValue objAlias : Str) : List Str :=
  (if isTermKind r.subjectMapType then refsOfMap r.subjectMapType r.subjectMapValue else []) ++
  (if isTermKind r.predicateMapType then refsOfMap r.predicateMapType r.predicateMapValue else []) ++
  (if isTermKind objKind then (refsOfMap objKind objValue).map (objAlias ++ ·) else []) ++
  (match r.langDatatype, r.langDatatypeMapType with
   | some _, some mt => refsOfMap mt r.langDatatypeMapValue
   | _, _ => []) ++
  (match env.fmt with
   | .ntriples => []
   | .nquads => if r.graphMapValue ≠ env.defaultGraph then refsOfMap r.graphMapType r.graphMapValue else [])

def finishRow (env : Env) (r : Rule) (objKind : MapType) (objValue objAlias : Str) (φ : FRow) : Except Err FRow :=
  match lineOf env r objKind objValue objAlias φ with
  | .ok t => .ok { φ with triple := some t, subject := none, object := none }
  | .error e => .error e

/-- terms, triple, graph and the final `drop(columns=['subject', 'predicate', 'object'])` on a frame -/
def finish (env : Env) (r : Rule) (nest : Nat) (objKind : MapType) (objValue objAlias : Str) (F : Frame) :
    Except Err Frame := do
  let env' := envAt env nest
  match (colsRead env' r objKind objValue objAlias).find? (fun c => !F.srcCols.contains c) with
  | some c => .error (.keyError c)
  | none =>
    let rows ← F.rows.mapM (finishRow env' r objKind objValue objAlias)
    let names := [tripleCol] ++
      (if (colsRead env' r objKind objValue objAlias).isEmpty then [] else [refResCol]) ++
      (match r.langDatatype with | some _ => [langDtCol] | none => [])
    pure ({ F with rows := rows }.addScratch names)

/-- the join conditions hold between a child row and a parent row (NULL keys were removed by `_preprocess_data`) -/
def keysMatch (conds : List (Str × Str)) (l p : FRow) : Bool :=
  conds.all fun cp => lookup cp.1 l.src = lookup cp.2 p.src && (lookup cp.1 l.src).isSome

/-- `add_prefix('parent_')` on the cells of a row -/
def prefixRow (σ : SRow) : SRow := σ.map fun kv => (prefixName kv.1, kv.2)

def suffixRow (ov : List Str) (suf : Str) (σ : SRow) : SRow :=
  σ.map fun kv => if ov.contains kv.1 then (kv.1 ++ suf, kv.2) else kv

def suffixNames (ov : List Str) (suf : Str) (cs : List Str) : List Str :=
  cs.map fun c => if ov.contains c then c ++ suf else c

/-- `_merge_data`: the parent frame gets the `parent_` prefix on every column; one condition: `set_index(drop=False)` on
    both sides and `DataFrame.join(how='inner')` (raises on overlapping column names, leaves the child key as index
    name); otherwise `DataFrame.merge(how='inner', left_on, right_on)` (suffixes `_x`/`_y` on overlapping names; raises
    when a key is both an index level and a column).  The parent's `triple` column arrives as `parentTriple`.
    Which index name an inner `join` leaves depends on the rows in pandas (the child key when rows match on both sides,
    `None` when nothing keysMatch, the parent key when the parent frame is empty): the model keeps the child key, so the
    `ambiguous` outcome is exact only when the first join produced rows (finding C13_F2 covers the whole situation). -/
def mergeFrames (L R : Frame) (conds : List (Str × Str)) : Except Err Frame :=
  let ck := conds.map (·.1)
  let pk := conds.map fun c => prefixName c.2
  let rSrc := R.srcCols.map prefixName
  let rScratch := R.scratch.map prefixName
  let rAll := rSrc ++ rScratch
  let ov := L.allCols.filter (rAll.contains ·)
  match ck.find? (fun c => !L.srcCols.contains c), pk.find? (fun c => !rSrc.contains c) with
  | some c, _ => .error (.keyError c)
  | none, some c => .error (.keyError c)
  | none, none =>
    if Gen.Star.singleConditionUsesJoin && conds.length = 1 then
      if Gen.Star.joinSuffixed then
        -- `join(..., lsuffix='_x', rsuffix='_y').reset_index(drop=True)`: overlapping names are suffixed, no index name is left
        .ok {
          srcCols := suffixNames ov "_x".toList L.srcCols ++ suffixNames ov "_y".toList rSrc,
          scratch := suffixNames ov "_x".toList L.scratch ++ suffixNames ov "_y".toList rScratch, index := none,
          rows := L.rows.flatMap fun l => (R.rows.filter (keysMatch conds l)).map fun p =>
            { l with src := suffixRow ov "_x".toList l.src ++ suffixRow ov "_y".toList (prefixRow p.src),
                     parentTriple := p.triple } }
      else if !ov.isEmpty then .error (.overlap ov)
      else .ok {
        srcCols := L.srcCols ++ rSrc, scratch := L.scratch ++ rScratch, index := ck.head?,
        rows := L.rows.flatMap fun l => (R.rows.filter (keysMatch conds l)).map fun p =>
          { l with src := l.src ++ prefixRow p.src, parentTriple := p.triple } }
    else
      let ambL := match L.index with | some k => if ck.contains k then some k else none | none => none
      let ambR := match R.index with | some k => if pk.contains k then some k else none | none => none
      match ambL, ambR with
      | some k, _ => .error (.ambiguous k)
      | none, some k => .error (.ambiguous k)
      | none, none => .ok {
        srcCols := suffixNames ov "_x".toList L.srcCols ++ suffixNames ov "_y".toList rSrc,
        scratch := suffixNames ov "_x".toList L.scratch ++ suffixNames ov "_y".toList rScratch, index := none,
        rows := L.rows.flatMap fun l => (R.rows.filter (keysMatch conds l)).map fun p =>
          { l with src := suffixRow ov "_x".toList l.src ++ suffixRow ov "_y".toList (prefixRow p.src),
                   parentTriple := p.triple } }

/-- how the recursion is called from the star branch -/
abbrev Rec := Rule → Option Frame → List Str → Nat → Except Err Frame

/-- one quoted position of the star branch (`set` writes the `subject` resp. `object` column).
    With join conditions: the quoted map is materialised on its own data at the next nest level (with the parent side of
    the join conditions as `parent_join_references`), merged, `'<< ' + data['parent_triple'] + ' >>'` is written and
    `parent_triple` dropped.  Without: the quoted map is materialised on THIS frame (`data=data`) and
    `'<< ' + data['triple'] + ' >>'` is written. -/
def quotedStep (set : FRow → Option Str → FRow) (rules : List Rule) (rec : Rec) (qid : Str) (conds : List (Str × Str))
    (nest : Nat) (F : Frame) : Except Err Frame :=
  match findRule rules qid with
  | none => .error (.noRule qid)
  | some q =>
    if !conds.isEmpty then do
      let P ← rec q none (conds.map (·.2)) (nextNest nest)
      let M ← mergeFrames F P conds
      pure ((M.mapRows fun φ => set { φ with parentTriple := none } (φ.parentTriple.map wrapQuoted)).dropScratch
        (prefixName tripleCol))
    else do
      let G ← rec q (some F) [] (nextNest nest)
      pure (G.mapRows fun φ => set φ (φ.triple.map wrapQuoted))

def setSubject (φ : FRow) (v : Option Str) : FRow := { φ with subject := v }
def setObject (φ : FRow) (v : Option Str) : FRow := { φ with object := v }

/-- `data['keep_subject' + str(nest_level)] = data['subject']` -/
def keepSubject (nest : Nat) (F : Frame) : Frame :=
  (F.mapRows fun φ => { φ with keep := setKeep (keepKey nest) φ.subject φ.keep }).addScratch [keepName nest]
/-- `data['subject'] = data['keep_subject' + str(nest_level)]` -/
def restoreSubject (nest : Nat) (F : Frame) : Frame :=
  if Gen.Star.subjectRestored then F.mapRows fun φ => { φ with subject := lookupKeep (keepKey nest) φ.keep } else F

/-- the subject block of the star branch -/
def subjectStep (rules : List Rule) (rec : Rec) (r : Rule) (nest : Nat) (F : Frame) : Except Err Frame :=
  if r.subjectMapType = .quoted then do
    let F ← quotedStep setSubject rules rec r.subjectMapValue r.subjectJoin nest F
    pure (keepSubject nest F)
  else pure F

/-- the object block of the star branch -/
def objectStep (rules : List Rule) (rec : Rec) (r : Rule) (nest : Nat) (F : Frame) : Except Err Frame :=
  if r.objectMapType = .quoted then do
    let F ← quotedStep setObject rules rec r.objectMapValue r.objectJoin nest F
    pure (if r.subjectMapType = .quoted then restoreSubject nest F else F)
  else pure F

def placeholderFrame : Frame := { srcCols := [placeholder], rows := [{ src := [(placeholder, placeholder)] }] }

/-- the frame a rule works on: the one passed down, or its own data -/
def frameOf (env : Env) (r : Rule) (refs : List Str) : Option Frame → Except Err Frame
  | some d => pure d
  | none => getData env r refs

/-- the frame a rule with a quoted map works on (repaired shape `Gen.Star.noRefPlaceholder`: a rule that reads no reference at all —
    its own term maps and every triples map it quotes are constant-valued — gets the one-row placeholder frame instead of the
    `(0, 0)` frame a reader returns for an empty reference set) -/
def frameOfStar (env : Env) (r : Rule) (refs : List Str) : Option Frame → Except Err Frame
  | some d => pure d
  | none => if Gen.Star.noRefPlaceholder && refs.isEmpty then pure placeholderFrame else getData env r refs

/-- `_materialize_rml_rule(rml_rule, …, data=data, parent_join_references=pjr, nest_level=nest)`: the frame it returns -/
def evalStar (env : Env) (rules : List Rule) : Nat → Rule → Option Frame → List Str → Nat → Except Err Frame
  | 0, _, _, _, _ => .error .fuel
  | fuel + 1, r, data, pjr, nest => do
    let refs0 ← refsStar rules (fuel + 1) r
    let refs := refs0 ++ pjr
    if isAllConstant r then
      if Gen.Star.allConstKeepsFrame then do
        -- repaired shape: the placeholder frame only when the rule is materialised on its own
        let F ← match data with
          | some d => pure d
          | none => if pjr.isEmpty then pure placeholderFrame else getData env r refs
        finish env r nest r.objectMapType r.objectMapValue [] F
      else
        -- the frame is REPLACED by a one-row placeholder frame, also when `data` was passed down
        finish env r nest r.objectMapType r.objectMapValue [] placeholderFrame
    else if isStar r then do
      let F ← frameOfStar env r refs data
      let F ← subjectStep rules (evalStar env rules fuel) r nest F
      let F ← objectStep rules (evalStar env rules fuel) r nest F
      finish env r nest r.objectMapType r.objectMapValue [] F
    else if r.objectMapType = .parentTM then
      match findRule rules r.objectMapValue with
      | none => .error (.noRule r.objectMapValue)
      | some parent => do
        let F ← frameOf env r refs data
        let P ← getData env parent (refsOfRule parent true ++ r.objectJoin.map (·.2))
        let M ← mergeFrames F P r.objectJoin
        finish env r nest parent.subjectMapType parent.subjectMapValue Gen.Star.parentPrefix M
    else do
      let F ← frameOf env r refs data
      finish env r nest r.objectMapType r.objectMapValue [] F

def Frame.triples (F : Frame) : List Str := F.rows.filterMap (·.triple)

/-- quoting depth is bounded by the number of rules on acyclic tables -/
def fuelFor (rules : List Rule) : Nat := rules.length + 1

/-- one top-level rule: the statements it contributes (`set(data['triple'])`); rules without a quoted map go through
    the shared `Model.evalRule` -/
def evalRuleStar (env : Env) (rules : List Rule) (r : Rule) : Except Err (List Str) :=
  if isStar r then (evalStar env rules (fuelFor rules) r none [] 0).map Frame.triples
  else liftMat (evalRule env rules r)

/-- `materialize_set`: only rules with `triples_map_type == rml:TriplesMap` are materialised at the top level -/
def evalAllStar (env : Env) (rules : List Rule) : Except Err (List Str) := do
  let parts ← (rules.filter (·.asserted)).mapM (evalRuleStar env rules)
  pure (dedupFirst parts.flatten)

/-- the same, group by group (`groupby('mapping_partition')`) -/
def evalGroupedStar (env : Env) (rules : List Rule) : Except Err (List Str) := do
  let asserted := rules.filter (·.asserted)
  let labels := dedupFirst (asserted.map (·.partition))
  let groups ← labels.mapM fun l => do
    let parts ← (asserted.filter (·.partition = l)).mapM (evalRuleStar env rules)
    pure (dedupFirst parts.flatten)
  pure (dedupFirst groups.flatten)

end Model.Star
