/-
From an abstract mapping document to the flat rule table: the *result* of
`mapping_parser._parse_data_source_mapping_files` (class → POM, shortcut expansion, subject graph maps copied to
every POM, default graph for POMs without graph map, term-type completion, the cartesian product of
`RML_PARSING_QUERY`) followed by `_preprocess_mappings` (`#TMi` renumbering, self-join elimination).
The correspondence check I6 compares it with the rule table of the real parser, up to the numbering.
-/
import MorphKgc.Spec.Rules

namespace Model
open Py Spec

def mapOf (tm : TermMap) : MapType × Str :=
  match tm.kind with
  | .constant => (.constant, tm.value)
  | .reference => (.reference, tm.value)
  | .template => (.template, tm.tpl.render)

def rdfTypeIri : Str := "http://www.w3.org/1999/02/22-rdf-syntax-ns#type".toList
def defaultGraphIri : Str := "http://w3id.org/rml/defaultGraph".toList

/-- graph maps that apply to a POM: those of the subject map plus its own; none at all = the default graph -/
def pomGraphs (tm : TriplesMap) (own : List TermMap) : List (MapType × Str) :=
  let gs := (tm.graphs ++ own).map mapOf
  if gs = [] then [(.constant, defaultGraphIri)] else dedupFirst gs

def langDt (o : TermMap) : Option LangDt × Option MapType × Str :=
  match o.lang, o.datatype with
  | some l, _ => (some .languageMap, some .constant, l)
  | none, some d => if d = xsdNs ++ "string".toList then (none, none, []) else (some .datatypeMap, some .constant, d)
  | none, none => (none, none, [])

def baseRule (tm : TriplesMap) : Rule :=
  let (st, sv) := mapOf tm.subject
  { sourceName := tm.sourceName, tmId := tm.id, logicalSourceValue := tm.lsv,
    subjectMapType := st, subjectMapValue := sv, subjectTermtype := tm.subject.termType }

/-- the flat rules of one triples map, before renumbering (`tmId` = the triples map's own id) -/
def rulesOfTm (doc : Doc) (tm : TriplesMap) : List Rule :=
  let b := baseRule tm
  let classRules := tm.classes.flatMap fun c =>
    (pomGraphs tm []).map fun g =>
      { b with predicateMapType := .constant, predicateMapValue := rdfTypeIri,
               objectMapType := .constant, objectMapValue := c, objectTermtype := .iri,
               graphMapType := g.1, graphMapValue := g.2 }
  let pomRules := tm.poms.flatMap fun pom =>
    pom.predicates.flatMap fun p => pom.objects.flatMap fun o => (pomGraphs tm pom.graphs).map fun g =>
      let (pt, pv) := mapOf p
      match o with
      | .term otm =>
        let (ot, ov) := mapOf otm
        let (ld, ldt, ldv) := langDt otm
        { b with predicateMapType := pt, predicateMapValue := pv, objectMapType := ot, objectMapValue := ov,
                 objectTermtype := otm.termType, langDatatype := ld, langDatatypeMapType := ldt, langDatatypeMapValue := ldv,
                 graphMapType := g.1, graphMapValue := g.2 }
      | .ref parent conds =>
        let ptt := match doc.tms.find? (fun t => t.id = parent) with | some ptm => ptm.subject.termType | none => .iri
        { b with predicateMapType := pt, predicateMapValue := pv, objectMapType := .parentTM, objectMapValue := parent,
                 objectTermtype := ptt, objectJoin := conds, graphMapType := g.1, graphMapValue := g.2 }
  let rs := classRules ++ pomRules
  -- a triples map without predicate-object maps stays in the table as a non-asserted rule (it can be a join parent)
  if rs = [] then [{ b with asserted := false }] else rs

/-- the test added to `_remove_self_joins_no_condition` by fix commit "only replace a self-join by the row itself when the parent
    subject map uses exactly the join references": no conditions at all, or a plain parent subject map whose references are, as a
    set, the parent side of the join conditions -/
def subjRefsAreJoinCols (r parent : Rule) : Bool :=
  r.objectJoin.isEmpty ||
    ((parent.subjectMapType = .template || parent.subjectMapType = .reference || parent.subjectMapType = .constant)
     && ((refsOfRule parent true).all ((r.objectJoin.map (·.2)).contains ·)
         && (r.objectJoin.map (·.2)).all ((refsOfRule parent true).contains ·)))

/-- `_remove_self_joins_no_condition` (as repaired: see `subjRefsAreJoinCols`, and the test of the configuration section
    `source_name` added by the repair of C07_F5; the code as found before the repairs is `Model.eliminateSelfJoinG ElimShape.found`,
    after the first repair only `Model.eliminateSelfJoinG ElimShape.repaired`, Model/Join.lean) -/
def eliminateSelfJoin (rules : List Rule) (r : Rule) : Rule :=
  if r.objectMapType = .parentTM then
    match rules.find? (fun p => p.tmId = r.objectMapValue) with
    | some parent =>
      if r.sourceName = parent.sourceName && r.logicalSourceValue = parent.logicalSourceValue && r.iterator = parent.iterator
          && r.objectJoin.all (fun cp => cp.1 = cp.2) && subjRefsAreJoinCols r parent then
        { r with objectMapType := parent.subjectMapType, objectMapValue := parent.subjectMapValue,
                 objectTermtype := parent.subjectTermtype, objectJoin := [] }
      else r
    | none => r
  else r

def normalizeDoc (doc : Doc) : List Rule :=
  let rules := dedupFirst (doc.tms.flatMap (rulesOfTm doc))
  rules.map (eliminateSelfJoin rules)

end Model
