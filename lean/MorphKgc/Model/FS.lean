/-
Abstract file system and the command-line run of morph-kgc as far as output files are concerned
(`__main__.py`, `utils.prepare_output_files`, `utils.create_dirs_in_path`, `utils.triples_to_file`,
`materializer._materialize_mapping_group_to_file`).

The *paths* come from the translated `Gen.getOutputFilePath`; *which* files are removed, whether directories are
made, the open mode, the text appended after every triple and the order "prepare, then write" come from the shape
constants of `Gen/Output.lean`.  What is modelled by hand: `os.remove`, `os.makedirs`, `open(p, 'a'|'w')` on a local
POSIX file system whose files are identified by their normalised path strings (no `..`, no symlinks), with
files as lists of newline-terminated lines.  `open` fails (FileNotFoundError) when the parent directory is missing.
Other OS errors (a path component that is a regular file, a target that is a directory, permissions) are outside
the model.
-/
import MorphKgc.Gen.Output

namespace Model
open Py

abbrev Path := Str
abbrev Line := Str

structure FS where
  /-- regular files: content as a list of lines (each written with a final newline) -/
  files : Path → Option (List Line)
  /-- directories that exist, by normalised path string; the roots and the working directory always exist -/
  dirs : Path → Bool

/-- `if os.path.exists(p): os.remove(p)` -/
def FS.remove (fs : FS) (p : Path) : FS :=
  { fs with files := fun q => if q = p then none else fs.files q }

/-- content after `open(p, 'a')`, writing `ls`, `close()` -/
def FS.append (fs : FS) (p : Path) (ls : List Line) : FS :=
  { fs with files := fun q => if q = p then some ((fs.files p).getD [] ++ ls) else fs.files q }

/-- content after `open(p, 'w')`, writing `ls`, `close()` -/
def FS.write (fs : FS) (p : Path) (ls : List Line) : FS :=
  { fs with files := fun q => if q = p then some ls else fs.files q }

/-- `os.makedirs(raw)` (guarded by `os.path.exists`): every prefix of the parsed path becomes a directory -/
def FS.makedirs (fs : FS) (raw : Str) : FS :=
  { fs with dirs := fun q => fs.dirs q || (ancestorsOrSelf (parsePath raw)).contains q }

/-- the directory denoted by a parsed path exists (roots and the working directory always do) -/
def FS.dirExists (fs : FS) (pp : PurePath) : Bool := pp.parts.isEmpty || fs.dirs (pathStr pp)

inductive RunErr
  /-- a Python exception raised while computing an output path -/
  | py (e : PyErr)
  /-- `open` on a path whose directory does not exist -/
  | fileNotFound
  deriving DecidableEq, Repr

/-- `open(p, mode)`; write the lines; close -/
def FS.openWrite (mode : Gen.OpenMode) (fs : FS) (p : Path) (ls : List Line) : Except RunErr FS :=
  if fs.dirExists (parsePath (dirname p)) then
    .ok (match mode with | .append => fs.append p ls | .write => fs.write p ls)
  else .error .fileNotFound

/-- one command-line run, as far as the output is concerned -/
structure RunCfg where
  /-- `output_format` after upper-casing and validation -/
  format : Str
  /-- `output_dir` as written in the INI file (`none` = option absent) -/
  outputDir : Option Str
  /-- `output_file` as written in the INI file (`none` = option absent) -/
  outputFile : Option Str
  /-- the mapping groups of the asserted rules in the order they are written: label, triples (without the final dot) -/
  groups : List (Str × List Str)
  /-- partition labels carried only by non-asserted rules of the rule table (removed by prepare, never written) -/
  otherGroups : List Str := []

/-- `complete_configuration_with_defaults` for one option -/
def effective (v : Option Str) (dflt : Str) (emptyKept : Bool) : Str :=
  match v with
  | none => dflt
  | some s => if s.isEmpty && !emptyKept then dflt else s

def RunCfg.dir (r : RunCfg) : Str := effective r.outputDir Gen.outputDirDefault Gen.outputDirEmptyKept
def RunCfg.file (r : RunCfg) : Str := effective r.outputFile Gen.outputFileDefault Gen.outputFileEmptyKept

/-- `config.get_output_file_path(g)` -/
def RunCfg.path (r : RunCfg) (g : Option Str) : Except PyErr Path :=
  Gen.getOutputFilePath r.format r.dir r.file g

def RunCfg.dirMode (r : RunCfg) : Bool := truthy r.dir

/-- the line written for a triple (without the newline) -/
def lineOf (t : Str) : Line := t ++ Gen.lineSuffix

structure Outcome where
  fs : FS
  err : Option RunErr

/-- the removal loop of `prepare_output_files` in output_dir mode -/
def removeEach (r : RunCfg) : FS → List Str → Outcome
  | fs, [] => ⟨fs, none⟩
  | fs, g :: gs =>
    match r.path (some g) with
    | .error e => ⟨fs, some (.py e)⟩
    | .ok p => removeEach r (fs.remove p) gs

/-- `create_dirs_in_path(p)` -/
def createDirsInPath (strips : Bool) (fs : FS) (p : Path) : FS :=
  let p' := if strips then pyStrip p else p
  let d := dirname p'
  if d.isEmpty then fs else fs.makedirs d

def removalScope (sc : Gen.RemoveScope) (r : RunCfg) : List Str :=
  match sc with
  | .allRuleGroups => r.groups.map (·.1) ++ r.otherGroups
  | .assertedGroups => r.groups.map (·.1)
  | .none => []

/-- `prepare_output_files(config, rml_df)` -/
def prepare (sh : Gen.PrepareShape) (strips : Bool) (fs : FS) (r : RunCfg) : Outcome :=
  if r.dirMode then
    let fs1 := if sh.dirMakedirs then fs.makedirs r.dir else fs
    removeEach r fs1 (removalScope sh.dirRemove r)
  else
    match r.path none with
    | .error e => ⟨fs, some (.py e)⟩
    | .ok p =>
      let fs1 := if sh.fileCreateDirs then createDirsInPath strips fs p else fs
      ⟨if sh.fileRemove then fs1.remove p else fs1, none⟩

/-- the loop over the mapping groups: `_materialize_mapping_group_to_file` → `triples_to_file(triples, config, label)` -/
def writeGroups (mode : Gen.OpenMode) (r : RunCfg) : FS → List (Str × List Str) → Outcome
  | fs, [] => ⟨fs, none⟩
  | fs, g :: rest =>
    match r.path (some g.1) with
    | .error e => ⟨fs, some (.py e)⟩
    | .ok p =>
      match fs.openWrite mode p (g.2.map lineOf) with
      | .error e => ⟨fs, some e⟩
      | .ok fs' => writeGroups mode r fs' rest

/-- a run with explicit shape parameters -/
def cliRunWith (sh : Gen.PrepareShape) (strips : Bool) (mode : Gen.OpenMode) (prepFirst : Bool)
    (fs : FS) (r : RunCfg) : Outcome :=
  let o := if prepFirst then prepare sh strips fs r else ⟨fs, none⟩
  match o.err with
  | some _ => o
  | none => writeGroups mode r o.fs r.groups

/-- a run of the command line as /repo defines it now -/
def cliRun (fs : FS) (r : RunCfg) : Outcome :=
  cliRunWith Gen.prepareShape Gen.createDirsStrips Gen.openMode Gen.prepareBeforeWrite fs r

/-- the file system after a sequence of runs (a run that crashes leaves what it had done so far) -/
def history (fs₀ : FS) (runs : List RunCfg) : FS := runs.foldl (fun fs r => (cliRun fs r).fs) fs₀

/-- does group label `g` go to path `p`? -/
def RunCfg.goesTo (r : RunCfg) (g : Str) (p : Path) : Bool :=
  match r.path (some g) with
  | .ok q => q = p
  | .error _ => false

/-- the files the run writes -/
def targets (r : RunCfg) : List Path :=
  r.groups.filterMap fun g => match r.path (some g.1) with | .ok p => some p | .error _ => none

/-- the lines of the run that belong into `p`: the statements of every group whose file is `p` -/
def stmtsOf (r : RunCfg) (gs : List (Str × List Str)) (p : Path) : List Line :=
  (gs.filter fun g => r.goesTo g.1 p).flatMap fun g => g.2.map lineOf

def stmtsFor (r : RunCfg) (p : Path) : List Line := stmtsOf r r.groups p

/-- all lines of the run -/
def resultLines (r : RunCfg) : List Line := r.groups.flatMap fun g => g.2.map lineOf

def emptyFS : FS := { files := fun _ => none, dirs := fun _ => false }

/-- a finite file system (for the driver and for examples) -/
def FS.ofLists (files : List (Path × List Line)) (dirs : List Path) : FS :=
  { files := fun q => (files.find? (fun kv => kv.1 = q)).map (·.2), dirs := fun q => dirs.contains q }

end Model
