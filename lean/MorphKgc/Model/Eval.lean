/-
Rule evaluation: model of `materializer._preprocess_data`, `_get_references_in_rml_rule`,
`_materialize_rml_rule_terms`, `_merge_data` and `_materialize_rml_rule` (constant, plain and
referencing-object-map branches; the RDF-star branch is in `Model/Star.lean`), and of the union over
rules and groups performed by `materialize_set`.
-/
import MorphKgc.Model.Term

namespace Model
open Py

/-- a cell as delivered by a source reader: a string, or a null whose Python `str()` is `repr`
    (`None`, `nan`, `<NA>`, `NaT`) -/
inductive Cell
  | str (s : Str)
  | null (repr : Str)
  deriving DecidableEq, Repr, Inhabited

def pyStr : Cell → Str
  | .str s => s
  | .null r => r

abbrev Row := List (Str × Cell)
abbrev Table := List Row
/-- a row after `_preprocess_data`: every cell is a string -/
abbrev SRow := List (Str × Str)

def lookup {β} (k : Str) : List (Str × β) → Option β
  | [] => none
  | (a, b) :: r => if a = k then some b else lookup k r

inductive OutFmt | ntriples | nquads
  deriving DecidableEq, Repr, Inhabited

structure Env where
  cfg : TermCfg := {}
  fmt : OutFmt := .ntriples
  /-- `config.get_na_values()` -/
  na : List Str := [[], "nan".toList]
  /-- what the reader of each logical source returns, keyed by (source name, logical source value) -/
  tables : List ((Str × Str) × Table) := []
  defaultGraph : Str := "http://w3id.org/rml/defaultGraph".toList

def Env.table (env : Env) (r : Rule) : Table :=
  match env.tables.find? (fun p => p.1 = (r.sourceName, r.logicalSourceValue)) with
  | some p => p.2
  | none => []

/-- references of a term map -/
def refsOfMap (mt : MapType) (v : Str) : List Str :=
  match mt with
  | .template => getReferencesInTemplate v
  | .reference => [v]
  | _ => []

/-- `_get_references_in_rml_rule` without quoted maps / functions -/
def refsOfRule (r : Rule) (onlySubject : Bool := false) : List Str :=
  if onlySubject then refsOfMap r.subjectMapType r.subjectMapValue
  else
    refsOfMap r.subjectMapType r.subjectMapValue ++ refsOfMap r.predicateMapType r.predicateMapValue ++
    refsOfMap r.objectMapType r.objectMapValue ++ refsOfMap r.graphMapType r.graphMapValue ++
    (match r.langDatatypeMapType with | some mt => refsOfMap mt r.langDatatypeMapValue | none => []) ++
    r.subjectJoin.map (·.1) ++ r.objectJoin.map (·.1)

/-- project a row to the references and stringify (`data[references]`, `data.map(str)`) -/
def projectRow (refs : List Str) (ρ : Row) : Except MatErr SRow :=
  refs.mapM fun c => match lookup c ρ with
    | some cell => .ok (c, pyStr cell)
    | none => .error (.keyError c)

/-- `_preprocess_data`: stringify, NA tokens become null, rows with a null reference are dropped, duplicates removed -/
def preprocess (na : List Str) (refs : List Str) (t : Table) : Except MatErr (List SRow) := do
  let refs := dedupFirst refs
  let rows ← t.mapM (projectRow refs)
  pure (dedupFirst (rows.filter fun ρ => ρ.all fun p => !na.contains p.2))

def litDatatype (r : Rule) : Str := r.langDatatypeMapValue

/-- `_materialize_rml_rule_terms` + triple assembly for one (possibly merged) row -/
def rowTriple (env : Env) (r : Rule) (objKind : MapType) (objValue : Str) (objAlias : Str) (ρ : SRow) :
    Except MatErr Str := do
  let row := fun c => lookup c ρ
  let s ← materializeTemplate env.cfg r.subjectMapType r.subjectMapValue (some r.subjectTermtype) [] [] row
  let p ← materializeTemplate env.cfg r.predicateMapType r.predicateMapValue (some .iri) [] [] row
  let o ← materializeTemplate env.cfg objKind objValue (some r.objectTermtype) (litDatatype r) objAlias row
  let o ← match r.langDatatype, r.langDatatypeMapType with
    | some .languageMap, some mt => do
        let l ← materializeTemplate env.cfg mt r.langDatatypeMapValue none [] [] row
        pure (o ++ ['@'] ++ l)
    | some .datatypeMap, some mt => do
        let d ← materializeTemplate env.cfg mt r.langDatatypeMapValue (some .iri) [] [] row
        pure (o ++ ['^', '^'] ++ d)
    | _, _ => pure o
  let t := s ++ [' '] ++ p ++ [' '] ++ o
  match env.fmt with
  | .ntriples => pure t
  | .nquads =>
    if r.graphMapValue ≠ env.defaultGraph then do
      let g ← materializeTemplate env.cfg r.graphMapType r.graphMapValue (some .iri) [] [] row
      pure (t ++ [' '] ++ g)
    else pure (t ++ [' '])

def isAllConstant (r : Rule) : Bool :=
  r.subjectMapType = .constant && r.predicateMapType = .constant && r.objectMapType = .constant && r.graphMapType = .constant

/-- `_merge_data`: inner equi-join; parent columns get the `parent_` prefix -/
def mergeData (child parent : List SRow) (conds : List (Str × Str)) : List SRow :=
  child.flatMap fun c =>
    (parent.filter fun p => conds.all fun cp => lookup cp.1 c = lookup cp.2 p && (lookup cp.1 c).isSome).map fun p =>
      c ++ p.map fun kv => ("parent_".toList ++ kv.1, kv.2)

def findRule (rules : List Rule) (tm : Str) : Option Rule := rules.find? (fun r => r.tmId = tm)

/-- `_materialize_rml_rule` at nesting level 0 for the non-star fragment: the list of statement strings -/
def evalRule (env : Env) (rules : List Rule) (r : Rule) : Except MatErr (List Str) := do
  if isAllConstant r then
    let t ← rowTriple env r r.objectMapType r.objectMapValue [] []
    pure [t]
  else if r.objectMapType = .parentTM then
    match findRule rules r.objectMapValue with
    | none => .error (.keyError r.objectMapValue)
    | some parent =>
      let refs := refsOfRule r
      let prefs := refsOfRule parent true ++ r.objectJoin.map (·.2)
      let data ← preprocess env.na refs (env.table r)
      let pdata ← preprocess env.na prefs (env.table parent)
      let merged := mergeData data pdata r.objectJoin
      merged.mapM (rowTriple env r parent.subjectMapType parent.subjectMapValue "parent_".toList)
  else do
    let data ← preprocess env.na (refsOfRule r) (env.table r)
    data.mapM (rowTriple env r r.objectMapType r.objectMapValue [])

/-- `materialize_set`: union over the asserted rules (grouping by `mapping_partition` does not enter) -/
def evalAll (env : Env) (rules : List Rule) : Except MatErr (List Str) := do
  let parts ← (rules.filter (·.asserted)).mapM (evalRule env rules)
  pure (dedupFirst parts.flatten)

/-- the same, group by group as `materialize_set` does it (groups in label order) -/
def evalGrouped (env : Env) (rules : List Rule) : Except MatErr (List Str) := do
  let asserted := rules.filter (·.asserted)
  let labels := dedupFirst (asserted.map (·.partition))
  let groups ← labels.mapM fun l => do
    let parts ← (asserted.filter (·.partition = l)).mapM (evalRule env rules)
    pure (dedupFirst parts.flatten)
  pure (dedupFirst groups.flatten)

end Model
