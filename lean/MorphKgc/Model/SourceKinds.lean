/-
C10 — which reader a logical source gets and how it is parameterised: executable models, driven by the shapes of `Gen/Source.lean`, of
  * `mapping_parser._complete_source_types` (kind from reference formulation, `db_url`, `rml:query`, `{…}`, file extension),
  * the dispatch chain of `data_file.get_file_data` and the separator choice of `_read_csv`,
  * `relational_db._replace_query_enclosing_characters` (dialect quoting of the generated SQL),
  * the DataFrame branch of `python_data.get_ram_data` (deleting `Gen.frameStrip` from string cells),
  * the readers of typed tabular files (Parquet, Feather, ORC, Stata, Excel, ODS, duckdb views): the identity on string cells, with the one
    conversion pandas' ODF reader hard-codes.
The per-format reader models (CSV, JSON, XML, SQL, frames, lists, dicts) are those of C06 (`Model/NullSources.lean`).
-/
import MorphKgc.Py.Path
import MorphKgc.Model.NullSources
import MorphKgc.Model.SourceDecode
import MorphKgc.Gen.Source

namespace Model
open Py

/-! ## `os.path.splitext` (posixpath) -/

/-- text before and after the last occurrence of `c` -/
def splitLast (c : Char) (s : Str) : Option (Str × Str) :=
  let r := s.reverse
  match r.dropWhile (· ≠ c) with
  | [] => none
  | _ :: before => some (before.reverse, (r.takeWhile (· ≠ c)).reverse)

/-- `os.path.splitext(p)[1]`: the extension with its dot; a name consisting of leading dots only has none -/
def extOf (p : Str) : Str :=
  let base := match splitLast '/' p with | some (_, b) => b | none => p
  match splitLast '.' base with
  | none => []
  | some (pre, post) => if pre.all (· = '.') then [] else '.' :: post

/-- `os.path.splitext(str(lsv))[1][1:].strip().upper()` (ASCII upper-casing) -/
def extensionKind (lsv : Str) : Str := asciiUpper (pyStrip ((extOf lsv).drop 1))

/-! ## `_complete_source_types` -/

/-- the source type of one rule; `none` = the exception "No source type could be retrieved" -/
def completeSourceType (steps : List SrcStep) (fileTypes : List Str) (ns : Str) (rf : Option Str) (hasDbUrl : Bool)
    (lst : Option LogicalSourceType) (lsv : Str) : Option Str :=
  match steps with
  | [] => none
  | s :: rest =>
    let next := completeSourceType rest fileTypes ns rf hasDbUrl lst lsv
    match s with
    | .refFormContains needle res =>
      match rf with
      | some f => if isInfix needle (asciiUpper f) then some res else next
      | none => next
    | .hasDbUrl res => if hasDbUrl then some res else next
    | .isQuery res => if lst = some .query then some res else next
    | .braces res => if lst = some .source && startsWith lsv ['{'] && endsWith lsv ['}'] then some res else next
    | .byExtension =>
      if lst = some .source then
        let e := extensionKind lsv
        if fileTypes.contains e then some e
        else match rf with
          | some f => some (asciiUpper (replace f ns []))
          | none => none
      else next

/-! ## `get_file_data` / `_read_csv` -/

/-- the reader the chain selects; `none` = `ValueError` -/
def fileReaderFor (chain : List (FileTest × FileReader)) (isQuery : Bool) (sourceType : Str) : Option FileReader :=
  match chain with
  | [] => none
  | (.isQuery, r) :: rest => if isQuery then some r else fileReaderFor rest isQuery sourceType
  | (.typeIn ts, r) :: rest => if ts.contains sourceType then some r else fileReaderFor rest isQuery sourceType

/-- `delimiter = a if file_source_type == k else b` -/
def csvSepFor (d : CsvDelimiter) (sourceType : Str) : Str := if sourceType = d.testConst then d.thenSep else d.elseSep

/-- the keyword arguments under which `Csv.parse` is the contract of the reader: C engine, the chosen one-character separator, and no
    argument that changes tokenisation or values -/
def CsvCall.contractual (c : CsvCall) : Bool :=
  c.sepIsDelimiter && c.engineC && c.dtypeStr && !c.naFilter && !c.keepDefaultNa && c.indexColFalse && c.usecolsRefs && c.otherKw.isEmpty

/-! ## `_replace_query_enclosing_characters` -/

def bracketsFrom (n : Nat) : Str → Str
  | [] => []
  | c :: r => if c = '`' then (if n % 2 = 0 then '[' else ']') :: bracketsFrom (n + 1) r else c :: bracketsFrom n r

def applyStyle : QuoteStyle → Str → Str
  | .keep, q => q
  | .brackets, q => bracketsFrom 0 q
  | .replaceBy s, q => replace q ['`'] s

def styleFor (styles : List (List Str × QuoteStyle)) (default : QuoteStyle) (dialect : Str) : QuoteStyle :=
  match styles.find? (fun p => p.1.contains dialect) with
  | some p => p.2
  | none => default

/-- the SQL text handed to the DBMS of `dialect` (upper-cased SQLAlchemy dialect name) -/
def dialectQuery (styles : List (List Str × QuoteStyle)) (default : QuoteStyle) (dialect : Str) (q : Str) : Str :=
  applyStyle (styleFor styles default dialect) q

/-! ## in-memory DataFrame, typed tabular files -/

/-- `x.replace(strip, '')`; nothing happens for the empty `strip` (the loop is absent) -/
def stripCell (strip : Str) (s : Str) : Str := if strip.isEmpty then s else replace s strip []

/-- DataFrame source: the referenced columns of a copy whose string cells lost `strip` (`KeyError` for an unknown column) -/
def frameDeliverG (strip : Str) (refs : List Str) (t : Table) : Except MatErr Table :=
  t.mapM fun ρ => (dedupFirst refs).mapM fun c =>
    match (lookup c ρ : Option Cell) with
    | some (Cell.str s) => .ok (c, Cell.str (stripCell strip s))
    | some n => .ok (c, n)
    | none => .error (.keyError c)

/-- Parquet / Feather / ORC / Stata / Excel / duckdb view: the referenced columns, cells unchanged (`KeyError`-like failure for an unknown column) -/
def typedDeliver (refs : List Str) (t : Table) : Except MatErr Table := frameDeliverG [] refs t

/-- pandas' ODF reader turns a string cell whose text is `#N/A` into NaN, whatever `na_filter` says -/
def odsCell : Cell → Cell
  | .str s => if s = "#N/A".toList then .null "nan".toList else .str s
  | c => c

def odsDeliver (refs : List Str) (t : Table) : Except MatErr Table :=
  typedDeliver refs (t.map fun ρ => ρ.map fun kv => (kv.1, odsCell kv.2))

end Model
