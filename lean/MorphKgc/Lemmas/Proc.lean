/- Helper lemmas for the process model (C16). -/
import MorphKgc.Model.Proc

namespace Model.Proc
open Py

theorem breakOn_quote_none (s : Str) (h : s.contains '"' = false) : breakOn quote s = none := by
  induction s with
  | nil => rfl
  | cons c s ih =>
    have hc : c ≠ '"' := by
      intro e; subst e; simp at h
    have hs : s.contains '"' = false := by
      simp at h ⊢; exact h.2
    have hc' : ¬ ('"' = c) := fun e => hc e.symm
    simp only [breakOn, quote, List.isPrefixOf_cons_cons]
    have := ih hs
    simp only [quote] at this
    simp [hc', this]

theorem replace_noquote (s : Str) (h : s.contains '"' = false) : replace s quote [] = s := by
  unfold replace
  cases hn : s.length with
  | zero => rfl
  | succ n => simp [replaceFuel, breakOn_quote_none s h]

theorem stripCell_id (c : Cell) (h : cellHasQuote c = false) : stripCell c = c := by
  cases c with
  | str s => simp [stripCell, replace_noquote s (by simpa [cellHasQuote] using h)]
  | other r => rfl

theorem stripCells_id (cs : List Cell) (h : cs.any cellHasQuote = false) : cs.map stripCell = cs := by
  induction cs with
  | nil => rfl
  | cons c cs ih =>
    simp only [List.any_cons, Bool.or_eq_false_iff] at h
    simp [stripCell_id c h.1, ih h.2]

theorem stripColumn_id (c : Column) (h : (c.objectDtype && c.cells.any cellHasQuote) = false) : stripColumn c = c := by
  unfold stripColumn
  by_cases ho : c.objectDtype = true
  · have : c.cells.any cellHasQuote = false := by simpa [ho] using h
    rw [if_pos ho, stripCells_id _ this]
  · rw [if_neg ho]

theorem stripColumns_id (cols : List Column) (h : (cols.any fun c => c.objectDtype && c.cells.any cellHasQuote) = false) :
    cols.map stripColumn = cols := by
  induction cols with
  | nil => rfl
  | cons c cs ih =>
    simp only [List.any_cons, Bool.or_eq_false_iff] at h
    simp [stripColumn_id c h.1, ih h.2]

theorem stripObj_id (o : Obj) (h : objHasQuote o = false) : stripObj o = o := by
  cases o with
  | frame cols => simp [stripObj, stripColumns_id cols (by simpa [objHasQuote] using h)]
  | rows j => rfl
  | tuple j => rfl
  | dict j => rfl
  | jsonStr s => rfl

/-- the heap is untouched when the shape does not mutate, or when no named source carries a quote -/
theorem touchHeap_id (sh : Shape) (names : List Str) (h : Heap)
    (hk : sh.frameMutatesCaller = false ∨ (h.any fun no => names.contains no.1 && objHasQuote no.2) = false) :
    touchHeap sh names h = h := by
  unfold touchHeap
  cases hk with
  | inl hf => simp [hf]
  | inr hq =>
    induction h with
    | nil => rfl
    | cons no rest ih =>
      simp only [List.any_cons, Bool.or_eq_false_iff] at hq
      simp only [List.map_cons]
      rw [ih hq.2]
      by_cases hc : (sh.frameMutatesCaller && names.contains no.1) = true
      · have hn : names.contains no.1 = true := by
          simp only [Bool.and_eq_true] at hc; exact hc.2
        have hq1 := hq.1
        rw [hn, Bool.true_and] at hq1
        rw [if_pos hc, stripObj_id no.2 hq1]
      · rw [if_neg hc]

theorem lookup_upsert_ne (fs : Files) (q c r : Str) (h : r ≠ q) : look (upsert fs q c) r = look fs r := by
  induction fs with
  | nil =>
    have : (r == q) = false := by simpa using h
    simp [upsert, look, List.lookup, this]
  | cons e rest ih =>
    obtain ⟨k, d⟩ := e
    unfold upsert
    by_cases hk : (k == q) = true
    · have hkq : k = q := by simpa using hk
      have h1 : (r == q) = false := by simpa using h
      have h2 : (r == k) = false := by rw [hkq]; exact h1
      simp [hk, look, List.lookup, h1, h2]
    · have hk' : (k == q) = false := by simpa using hk
      unfold look at ih ⊢
      rw [hk']
      simp only [Bool.false_eq_true, if_false, List.lookup]
      cases hr : (r == k) with
      | true => rfl
      | false => exact ih

theorem lookup_writeLog (paths : List Str) (f : Str → Str) (r : Str) (h : r ∉ paths) :
    ∀ fs : Files, look (writeLog fs paths f) r = look fs r := by
  induction paths with
  | nil => intro fs; rfl
  | cons q qs ih =>
    intro fs
    have hq : r ≠ q := by intro e; exact h (by simp [e])
    have hqs : r ∉ qs := by intro e; exact h (by simp [e])
    show look (writeLog (upsert fs q (f q)) qs f) r = look fs r
    rw [ih hqs, lookup_upsert_ne fs q (f q) r hq]

theorem loadUdfs_fresh (cur content : Option Str) : (loadUdfs .freshPerUse cur content).2 = content := by
  cases content <;> cases cur <;> rfl

theorem activeLog_configure_sub (fw : Bool) (cur : Option LogCfg) (new : LogCfg) :
    ∀ q ∈ activeLog (configureLogger fw cur new), q ∈ activeLog cur ∨ q ∈ new.file.toList := by
  intro q hq
  unfold configureLogger at hq
  cases fw with
  | false => right; simpa [activeLog] using hq
  | true =>
    cases cur with
    | none => right; simpa [activeLog] using hq
    | some c => left; simpa using hq

end Model.Proc
