/-
Structure of the partitioner model: what `termInvariants` returns, the passes as `scanMap`s, which rows come out.
Shared by C02 (totality) and C03 (separation).
-/
import MorphKgc.Model.Partition
import MorphKgc.Lemmas.Grouping

namespace Model
open Py

instance : Inhabited PRule := ⟨{ idx := 0, rule := default, sInv := [], pInv := [], oInv := [], gInv := [], litType := none }⟩

/-! ### `_get_term_invariants` -/

/-- the `literal_type` column chooses `lang_datatype` when some language/datatype map is data-dependent -/
def dynamicLit (rules : List Rule) : Bool :=
  rules.any fun r => r.langDatatypeMapType = some .reference || r.langDatatypeMapType = some .template

def litTypeOf (rules : List Rule) (r : Rule) : Option Str :=
  if dynamicLit rules then r.langDatatype.map langDtIri
  else if r.langDatatype.isSome then some r.langDatatypeMapValue else none

/-- the object invariant: own map, or the subject map of the join parent -/
def objInv (rules : List Rule) (r : Rule) : Except PartErr Str :=
  match r.objectMapType with
  | .parentTM => match rules.find? (fun q => q.tmId = r.objectMapValue) with
    | some parent => invOf parent.subjectMapType parent.subjectMapValue
    | none => .error (.noParent r.objectMapValue)
  | mt => invOf mt r.objectMapValue

/-- one iteration of the loop of `_get_term_invariants` -/
def invRow (rules : List Rule) (ir : Nat × Rule) : Except PartErr PRule := do
  let s ← invOf ir.2.subjectMapType ir.2.subjectMapValue
  let p ← invOf ir.2.predicateMapType ir.2.predicateMapValue
  let o ← objInv rules ir.2
  let g ← invOf ir.2.graphMapType ir.2.graphMapValue
  pure { idx := ir.1, rule := ir.2, sInv := s, pInv := p, oInv := o, gInv := g, litType := litTypeOf rules ir.2 }

theorem termInvariants_eq (rules : List Rule) :
    termInvariants rules = (List.zip (List.range rules.length) rules).mapM (invRow rules) := by
  unfold termInvariants
  dsimp only
  congr 1
  funext ⟨i, r⟩
  unfold invRow objInv litTypeOf dynamicLit
  dsimp only
  cases hm : r.objectMapType <;> try rfl
  cases hf : List.find? (fun q => decide (q.tmId = r.objectMapValue)) rules <;> rfl

/-- the row for a rule, when it exists, carries exactly the four invariants -/
theorem invRow_ok_iff (rules : List Rule) (ir : Nat × Rule) (pr : PRule) :
    invRow rules ir = .ok pr ↔
      ∃ s p o g, invOf ir.2.subjectMapType ir.2.subjectMapValue = .ok s ∧
        invOf ir.2.predicateMapType ir.2.predicateMapValue = .ok p ∧ objInv rules ir.2 = .ok o ∧
        invOf ir.2.graphMapType ir.2.graphMapValue = .ok g ∧
        pr = { idx := ir.1, rule := ir.2, sInv := s, pInv := p, oInv := o, gInv := g, litType := litTypeOf rules ir.2 } := by
  unfold invRow
  cases hs : invOf ir.2.subjectMapType ir.2.subjectMapValue <;>
  cases hp : invOf ir.2.predicateMapType ir.2.predicateMapValue <;>
  cases ho : objInv rules ir.2 <;>
  cases hg : invOf ir.2.graphMapType ir.2.graphMapValue <;>
  simp [bind, Except.bind, pure, Except.pure, eq_comm]

/-- rows of a successful `_get_term_invariants`: the `i`-th row belongs to the `i`-th rule -/
structure RowOf (rules : List Rule) (i : Nat) (r : Rule) (pr : PRule) : Prop where
  idx : pr.idx = i
  rule : pr.rule = r
  s : invOf r.subjectMapType r.subjectMapValue = .ok pr.sInv
  p : invOf r.predicateMapType r.predicateMapValue = .ok pr.pInv
  o : objInv rules r = .ok pr.oInv
  g : invOf r.graphMapType r.graphMapValue = .ok pr.gInv
  lit : pr.litType = litTypeOf rules r
  label : pr.label = []

theorem termInvariants_ok (rules : List Rule) (rs : List PRule) (h : termInvariants rules = .ok rs) :
    rs.map (·.idx) = List.range rules.length ∧ rs.map (·.rule) = rules ∧
    ∀ pr ∈ rs, ∃ i r, (i, r) ∈ List.zip (List.range rules.length) rules ∧ RowOf rules i r pr := by
  rw [termInvariants_eq] at h
  have hall := mapM_ok_forall _ _ _ h
  rw [mapM_ok_of_forall _ _ hall] at h
  cases h
  have hrow : ∀ ir ∈ List.zip (List.range rules.length) rules, RowOf rules ir.1 ir.2 (okVal (invRow rules ir)) := by
    intro ir hir
    obtain ⟨pr, hpr⟩ := hall ir hir
    rw [hpr]
    obtain ⟨s, p, o, g, hs, hp, ho, hg, rfl⟩ := (invRow_ok_iff rules ir pr).mp hpr
    exact ⟨rfl, rfl, hs, hp, ho, hg, rfl, rfl⟩
  refine ⟨?_, ?_, ?_⟩
  · rw [List.map_map]
    calc List.map ((·.idx) ∘ fun ir => okVal (invRow rules ir)) (List.zip (List.range rules.length) rules)
        = List.map Prod.fst (List.zip (List.range rules.length) rules) :=
          List.map_congr_left fun ir hir => (hrow ir hir).idx
      _ = List.range rules.length := List.map_fst_zip (by simp)
  · rw [List.map_map]
    calc List.map ((·.rule) ∘ fun ir => okVal (invRow rules ir)) (List.zip (List.range rules.length) rules)
        = List.map Prod.snd (List.zip (List.range rules.length) rules) :=
          List.map_congr_left fun ir hir => (hrow ir hir).rule
      _ = rules := List.map_snd_zip (by simp)
  · intro pr hpr
    obtain ⟨ir, hir, rfl⟩ := List.mem_map.mp hpr
    exact ⟨ir.1, ir.2, hir, hrow ir hir⟩

/-- `_get_term_invariants` raises exactly when some row raises -/
theorem termInvariants_isOk_iff (rules : List Rule) :
    (∃ rs, termInvariants rules = .ok rs) ↔ ∀ r ∈ rules, ∀ i, ∃ pr, invRow rules (i, r) = .ok pr := by
  rw [termInvariants_eq]
  constructor
  · rintro ⟨rs, h⟩ r hr i
    obtain ⟨j, hj, rfl⟩ := List.mem_iff_getElem.mp hr
    have hmem : (j, rules[j]) ∈ List.zip (List.range rules.length) rules := by
      rw [List.mem_iff_getElem]
      exact ⟨j, by simpa using hj, by simp⟩
    obtain ⟨pr, hpr⟩ := mapM_ok_forall _ _ _ h _ hmem
    obtain ⟨s, p, o, g, hs, hp, ho, hg, _⟩ := (invRow_ok_iff rules _ pr).mp hpr
    exact ⟨_, (invRow_ok_iff rules (i, rules[j]) _).mpr ⟨s, p, o, g, hs, hp, ho, hg, rfl⟩⟩
  · intro h
    exact ⟨_, mapM_ok_of_forall _ _ fun ir hir => h ir.2 (List.of_mem_zip hir).2 ir.1⟩

/-! ### lookups by row index -/

theorem componentOf_of_mem {comps : List (Nat × Str)} {i : Nat} (h : ∃ p ∈ comps, p.1 = i) :
    ∃ p ∈ comps, p.1 = i ∧ componentOf comps i = p.2 := by
  unfold componentOf
  cases hf : comps.find? (fun p => p.1 = i) with
  | none =>
    obtain ⟨p, hp, hi⟩ := h
    have := List.find?_eq_none.mp hf p hp
    simp [hi] at this
  | some p =>
    exact ⟨p, List.mem_of_find?_eq_some hf, by simpa using List.find?_some hf, rfl⟩

theorem eq_of_fst_eq_of_nodup {β} : ∀ (l : List (Nat × β)), (l.map (·.1)).Nodup →
    ∀ a b : Nat × β, a ∈ l → b ∈ l → a.1 = b.1 → a = b := by
  intro l
  induction l with
  | nil => intro _ a b ha; cases ha
  | cons x l ihl =>
    intro hn a b ha hb hab
    rw [List.map_cons, List.nodup_cons] at hn
    rcases List.mem_cons.mp ha with ha' | ha'
    · rcases List.mem_cons.mp hb with hb' | hb'
      · rw [ha', hb']
      · exact absurd (List.mem_map.mpr ⟨b, hb', by rw [← hab, ha']⟩ : x.1 ∈ l.map (·.1)) hn.1
    · rcases List.mem_cons.mp hb with hb' | hb'
      · exact absurd (List.mem_map.mpr ⟨a, ha', by rw [hab, hb']⟩ : x.1 ∈ l.map (·.1)) hn.1
      · exact ihl hn.2 a b ha' hb' hab

/-- with distinct indices the lookup returns *the* entry -/
theorem componentOf_eq {comps : List (Nat × Str)} (hnd : (comps.map (·.1)).Nodup) {i : Nat} {c : Str}
    (h : (i, c) ∈ comps) : componentOf comps i = c := by
  obtain ⟨p, hp, hpi, hc⟩ := componentOf_of_mem ⟨(i, c), h, rfl⟩
  rw [hc, eq_of_fst_eq_of_nodup comps hnd p (i, c) hp h hpi]

/-! ### the passes as scans -/

theorem partialPass_eq (pos : Pos) (rs : List PRule) :
    partialPass pos rs =
      (((sortBy (fun a b => ltKeys (pos.keys a) (pos.keys b)) rs).zip
        (scanMap (scanStep pos (enforceFor pos rs)) {} (sortBy (fun a b => ltKeys (pos.keys a) (pos.keys b)) rs))).map
          fun p => (p.1.idx, p.2)).reverse := by
  unfold partialPass
  have := foldl_scan (scanStep pos (enforceFor pos rs)) (fun (r : PRule) c => (r.idx, c))
    (sortBy (fun a b => ltKeys (pos.keys a) (pos.keys b)) rs) [] {}
  simp only [List.append_nil] at this
  exact this

/-- one step of a MAXIMAL pass: the restart at a label boundary, then the ordinary step -/
def maxStep (pos : Pos) (enforce : Bool) (st : Scan) (r : PRule) : Str × Scan :=
  scanStep pos enforce (if st.global ≠ r.label then { st with group := 0, inv := auxString, global := r.label } else st) r

def maxSorted (pos : Pos) (rs : List PRule) : List PRule :=
  sortBy (fun a b => ltKeys (some a.label :: pos.keys a) (some b.label :: pos.keys b)) rs

def maxInit (rs : List PRule) : Scan :=
  { global := match rs.find? (fun r => r.idx = 0) with | some r => r.label | none => [] }

theorem maximalPass_eq (pos : Pos) (rs : List PRule) :
    maximalPass pos rs =
      ((maxSorted pos rs).zip (scanMap (maxStep pos (enforceFor pos rs)) (maxInit rs) (maxSorted pos rs))).map
          fun p => { p.1 with label := p.1.label ++ ['-'] ++ p.2 } := by
  unfold maximalPass
  have := foldl_scan (maxStep pos (enforceFor pos rs)) (fun (r : PRule) c => { r with label := r.label ++ ['-'] ++ c })
    (maxSorted pos rs) [] (maxInit rs)
  simp only [List.append_nil] at this
  simp only
  rw [← List.reverse_reverse (List.map _ _), ← this]
  rfl

end Model

namespace Model
open Py

/-! ### which rows a MAXIMAL run returns -/

theorem maximalPass_spec (pos : Pos) (rs : List PRule) :
    ((maximalPass pos rs).map (·.idx)).Perm (rs.map (·.idx)) ∧
    ∀ r' ∈ maximalPass pos rs, ∃ r ∈ rs, ∃ c, r' = { r with label := r.label ++ ['-'] ++ c } := by
  rw [maximalPass_eq]
  have hlen : (maxSorted pos rs).length ≤ (scanMap (maxStep pos (enforceFor pos rs)) (maxInit rs) (maxSorted pos rs)).length := by
    rw [scanMap_length]; exact Nat.le_refl _
  constructor
  · rw [List.map_map]
    have : List.map ((·.idx) ∘ fun (p : PRule × Str) => { p.1 with label := p.1.label ++ ['-'] ++ p.2 })
        ((maxSorted pos rs).zip (scanMap (maxStep pos (enforceFor pos rs)) (maxInit rs) (maxSorted pos rs)))
        = ((maxSorted pos rs).zip (scanMap (maxStep pos (enforceFor pos rs)) (maxInit rs) (maxSorted pos rs))).unzip.1.map (·.idx) := by
      rw [List.unzip_eq_map, List.map_map]; rfl
    rw [this, List.unzip_zip_left hlen]
    exact (sortBy_perm _ rs).map _
  · intro r' hr'
    obtain ⟨p, hp, rfl⟩ := List.mem_map.mp hr'
    exact ⟨p.1, (mem_sortBy _ rs p.1).mp (List.of_mem_zip hp).1, p.2, rfl⟩

theorem maximalFor_spec (o : List Pos) (rs : List PRule) (k : Nat) (h : ∀ r ∈ rs, k ≤ r.label.length) :
    ((maximalFor o rs).map (·.idx)).Perm (rs.map (·.idx)) ∧ ∀ r ∈ maximalFor o rs, k + o.length ≤ r.label.length := by
  unfold maximalFor
  induction o generalizing rs k with
  | nil => exact ⟨List.Perm.refl _, by simpa using h⟩
  | cons pos o ih =>
    rw [List.foldl_cons]
    have hp := maximalPass_spec pos rs
    have hk : ∀ r ∈ maximalPass pos rs, k + 1 ≤ r.label.length := by
      intro r' hr'
      obtain ⟨r, hr, c, rfl⟩ := hp.2 r' hr'
      have := h r hr
      simp; omega
    obtain ⟨h1, h2⟩ := ih (maximalPass pos rs) (k + 1) hk
    refine ⟨h1.trans hp.1, ?_⟩
    intro r hr
    have := h2 r hr
    simp only [List.length_cons]; omega

/-- "first maximum wins" picks one of the candidates -/
theorem pick_mem (cands : List (List PRule)) (a : List PRule) :
    ∃ b, cands.foldl (fun (acc : Option (List PRule)) c =>
      match acc with
      | none => some c
      | some b => if numGroups c > numGroups b then some c else some b) (some a) = some b ∧ b ∈ a :: cands := by
  induction cands generalizing a with
  | nil => exact ⟨a, rfl, by simp⟩
  | cons c cands ih =>
    rw [List.foldl_cons]
    by_cases hc : numGroups c > numGroups a
    · obtain ⟨b, hb, hm⟩ := ih c
      refine ⟨b, by simpa [hc] using hb, ?_⟩
      rcases List.mem_cons.mp hm with rfl | hm
      · simp
      · exact List.mem_cons_of_mem _ (List.mem_cons_of_mem _ hm)
    · obtain ⟨b, hb, hm⟩ := ih a
      refine ⟨b, by simpa [hc] using hb, ?_⟩
      rcases List.mem_cons.mp hm with rfl | hm
      · simp
      · exact List.mem_cons_of_mem _ (List.mem_cons_of_mem _ hm)

theorem permutations4_length : ∀ o ∈ permutations4, o.length = 4 := by decide

theorem permutations4_ne_nil : permutations4 ≠ [] := by decide

/-- MAXIMAL returns the labels of one of the 24 nested runs -/
theorem maximal_eq (rs : List PRule) :
    ∃ o ∈ permutations4, maximal rs = (maximalFor o rs).map fun r => (r.idx, r.label.drop 1) := by
  unfold maximal
  dsimp only
  cases hc : permutations4.map (fun o => maximalFor o rs) with
  | nil => exact absurd (List.map_eq_nil_iff.mp hc) permutations4_ne_nil
  | cons c cands =>
    rw [List.foldl_cons]
    obtain ⟨b, hb, hm⟩ := pick_mem cands c
    generalize hfold : List.foldl _ (some c) cands = best
    have hbest : best = some b := hfold.symm.trans hb
    subst hbest
    dsimp only
    have hm' : b ∈ permutations4.map (fun o => maximalFor o rs) := by rw [hc]; exact hm
    obtain ⟨o, ho, rfl⟩ := List.mem_map.mp hm'
    exact ⟨o, ho, rfl⟩

/-- MAXIMAL returns every row exactly once, each with a label of at least three characters -/
theorem maximal_spec (rs : List PRule) :
    ((maximal rs).map (·.1)).Perm (rs.map (·.idx)) ∧ ∀ p ∈ maximal rs, 3 ≤ p.2.length := by
  unfold maximal
  dsimp only
  cases hc : permutations4.map (fun o => maximalFor o rs) with
  | nil => exact absurd (List.map_eq_nil_iff.mp hc) permutations4_ne_nil
  | cons c cands =>
    rw [List.foldl_cons]
    obtain ⟨b, hb, hm⟩ := pick_mem cands c
    generalize hfold : List.foldl _ (some c) cands = best
    have hbest : best = some b := hfold.symm.trans hb
    subst hbest
    dsimp only
    have hm' : b ∈ permutations4.map (fun o => maximalFor o rs) := by rw [hc]; exact hm
    obtain ⟨o, ho, rfl⟩ := List.mem_map.mp hm'
    obtain ⟨h1, h2⟩ := maximalFor_spec o rs 0 (fun _ _ => Nat.zero_le _)
    rw [permutations4_length o ho] at h2
    constructor
    · rw [List.map_map]; exact h1
    · intro p hp
      obtain ⟨r, hr, rfl⟩ := List.mem_map.mp hp
      have := h2 r hr
      simp only [List.length_drop]; omega

end Model
