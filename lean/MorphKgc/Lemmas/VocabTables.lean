/-
C09 — the decidable side conditions on the GENERATED vocabulary tables, shortcut table and step order (each `decide` re-runs whenever
the translator writes a different `Gen/Vocab.lean` / `Gen/NormOrder.lean`).  They are kept in a file of their own because evaluating
the rewrite chains over the whole vocabularies takes the kernel a few seconds.
-/
import MorphKgc.Lemmas.SurfaceSpell

namespace Model
open Py Spec

/-- every R2RML term that a processor has to read is rewritten to its RML term by the dict of `_r2rml_to_rml` that applies to its
    role (predicate / object), and the rewrite leaves RML terms and legacy RML terms alone -/
theorem r2rmlStepOK_holds : r2rmlStepOK = true := by decide +kernel

/-- the same for `_rml_legacy_to_rml` -/
theorem legacyStepOK_holds : legacyStepOK = true := by decide +kernel

/-- every RML term a vocabulary term is rewritten to is one the parsing queries or the normalisation steps mention -/
def rewrittenUnderstood : Bool :=
  (r2rmlVocabulary ++ legacyVocabulary).all fun e => e.role != .pred || understoodTerms.contains e.new

theorem rewrittenUnderstood_holds : rewrittenUnderstood = true := by decide +kernel

/-- the shortcut table has the four term-map shortcuts and the language / datatype shortcuts of the specification -/
theorem shortcutTableOK_holds : shortcutTableOK = true := by decide +kernel

def shortcutTableMatchesSpec : Bool := Spec.shortcuts.all fun p => lookup p.1 Gen.shortcutToMap == some p.2

theorem shortcutTableMatchesSpec_holds : shortcutTableMatchesSpec = true := by decide +kernel

/-- the order of the steps in `_parse_data_source_mapping_files` is one of the acceptable ones -/
theorem orderOK_holds : OrderOK Gen.normalisationOrder = true := by decide +kernel

/-- the translator recognised every shape it reads -/
theorem surfaceTranslated : (Gen.vocabTranslated && Gen.normOrderTranslated && Gen.parsingQueryDistinct) = true := by decide

end Model
