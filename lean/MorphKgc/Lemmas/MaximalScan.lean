/-
MAXIMAL (C03, layer B6): each nested pass is the PARTIAL pass run block by block (one block per incoming label, the
scan restarted at each block, `lit` not reset); hence rows whose labels first differ at some pass are separated at
that pass's position.
-/
import MorphKgc.Lemmas.PartialScan

namespace Model
open Py

/-! ### splitting a sorted list at a key -/

/-- a predicate that, along the list, can only switch from true to false -/
theorem split_mono {α} (P : α → Bool) (L : List α) (hs : L.Pairwise fun a b => P b = true → P a = true) :
    L = L.filter P ++ L.filter (fun x => !P x) := by
  induction L with
  | nil => rfl
  | cons a L ih =>
    rw [List.pairwise_cons] at hs
    cases ha : P a with
    | true => simp only [List.filter_cons, ha, ↓reduceIte, Bool.not_true, Bool.false_eq_true, List.cons_append]; rw [← ih hs.2]
    | false =>
      have h1 : L.filter P = [] := by
        rw [List.filter_eq_nil_iff]
        intro x hx hp
        have := hs.1 x hx hp
        rw [ha] at this; cases this
      have h2 : L.filter (fun x => !P x) = L := by
        rw [List.filter_eq_self]
        intro x hx
        cases hp : P x with
        | false => rfl
        | true => have := hs.1 x hx hp; rw [ha] at this; cases this
      simp [ha, h1, h2]

theorem lt_of_le_of_lt {a b c : Str} (h1 : le a b) (h2 : ltStr b c = true) : ltStr a c = true := by
  cases h : ltStr a c with
  | true => rfl
  | false =>
    have : le c b := le_trans h h1
    unfold le at this
    rw [this] at h2; cases h2

theorem key_split3 {α} (key : α → Str) (ℓ : Str) (L : List α) (hs : L.Pairwise fun a b => le (key a) (key b)) :
    ∃ A B C, L = A ++ B ++ C ∧ (∀ x ∈ A, key x ≠ ℓ) ∧ (∀ x ∈ B, key x = ℓ) ∧ (∀ x ∈ C, key x ≠ ℓ) := by
  have h1 := split_mono (fun x => ltStr (key x) ℓ) L (hs.imp fun {a b} hab hb => lt_of_le_of_lt hab hb)
  have hs2 : (L.filter (fun x => !ltStr (key x) ℓ)).Pairwise fun a b => le (key a) (key b) :=
    hs.sublist List.filter_sublist
  have h2 := split_mono (fun x => !ltStr ℓ (key x)) _ (hs2.imp fun {a b} hab hb => by
    simp only [Bool.not_eq_true'] at hb ⊢
    exact le_trans hab hb)
  refine ⟨L.filter (fun x => ltStr (key x) ℓ),
    (L.filter (fun x => !ltStr (key x) ℓ)).filter (fun x => !ltStr ℓ (key x)),
    (L.filter (fun x => !ltStr (key x) ℓ)).filter (fun x => !(!ltStr ℓ (key x))), ?_, ?_, ?_, ?_⟩
  · rw [List.append_assoc, ← h2, ← h1]
  · intro x hx e
    have := (List.mem_filter.mp hx).2
    rw [e, ltStr_irrefl] at this; cases this
  · intro x hx
    have h := List.mem_filter.mp hx
    have h' := (List.mem_filter.mp h.1).2
    have h'' := h.2
    simp only [Bool.not_eq_true'] at h' h''
    exact ltStr_total _ _ h' h''
  · intro x hx e
    have := (List.mem_filter.mp hx).2
    rw [e, ltStr_irrefl] at this; cases this

/-! ### one nested pass -/

theorem scanStep_global (pos : Pos) (enf : Bool) (st : Scan) (r : PRule) : (scanStep pos enf st r).2.global = st.global := by
  unfold scanStep
  cases pos <;> dsimp only <;> (repeat' split) <;> rfl

/-- inside a block of one incoming label the nested pass is the plain pass -/
theorem scanMap_maxStep_block (pos : Pos) (enf : Bool) (ℓ : Str) (B : List PRule) (hB : ∀ x ∈ B, x.label = ℓ)
    (st : Scan) (hst : st.global = ℓ) : scanMap (maxStep pos enf) st B = scanMap (scanStep pos enf) st B := by
  induction B generalizing st with
  | nil => rfl
  | cons x B ih =>
    have hx : x.label = ℓ := hB x (by simp)
    have e : maxStep pos enf st x = scanStep pos enf st x := by
      unfold maxStep; rw [if_neg (by rw [hst, hx]; simp)]
    simp only [scanMap, e]
    rw [ih (fun y hy => hB y (List.mem_cons_of_mem _ hy)) _ (by rw [scanStep_global, hst])]

/-- … started in some state (the restart at the block boundary; `lit` survives) -/
theorem scanMap_maxStep_block' (pos : Pos) (enf : Bool) (ℓ : Str) (B : List PRule) (hB : ∀ x ∈ B, x.label = ℓ)
    (st : Scan) : ∃ st', scanMap (maxStep pos enf) st B = scanMap (scanStep pos enf) st' B := by
  cases B with
  | nil => exact ⟨st, rfl⟩
  | cons x B =>
    by_cases hst : st.global = ℓ
    · exact ⟨st, scanMap_maxStep_block pos enf ℓ _ hB st hst⟩
    · have hx : x.label = ℓ := hB x (by simp)
      refine ⟨{ st with group := 0, inv := auxString, global := x.label }, ?_⟩
      have e : maxStep pos enf st x = scanStep pos enf { st with group := 0, inv := auxString, global := x.label } x := by
        unfold maxStep; rw [if_pos (by rw [hx]; exact hst)]
      simp only [scanMap, e]
      rw [scanMap_maxStep_block pos enf ℓ B (fun y hy => hB y (List.mem_cons_of_mem _ hy)) _
        (by rw [scanStep_global]; exact hx)]

/-- separation at one position (`eP`, `eG`: all predicate / graph maps are constants) -/
def SepAt (eP eG : Bool) (pos : Pos) (a b : PRule) : Prop :=
  match pos with
  | .S => (a.rule.subjectTermtype = .bnode ∧ b.rule.subjectTermtype ≠ .bnode) ∨
      (a.rule.subjectTermtype ≠ .bnode ∧ b.rule.subjectTermtype = .bnode) ∨
      (a.rule.subjectTermtype ≠ .bnode ∧ b.rule.subjectTermtype ≠ .bnode ∧ Incomp a.sInv b.sInv)
  | .P => Unrel (relOf eP) a.pInv b.pInv
  | .O => a.rule.objectTermtype ≠ b.rule.objectTermtype ∨
      (a.rule.objectTermtype = .literal ∧ b.rule.objectTermtype = .literal ∧ a.litType ≠ b.litType) ∨
      (a.rule.objectTermtype = b.rule.objectTermtype ∧ a.rule.objectTermtype ≠ .literal ∧
        a.rule.objectTermtype ≠ .bnode ∧ Incomp a.oInv b.oInv)
  | .G => Unrel (relOf eG) a.gInv b.gInv

theorem maxSorted_sorted (pos : Pos) (rs : List PRule) :
    (maxSorted pos rs).Pairwise fun a b => le a.label b.label ∧ (a.label = b.label → ltKeys (pos.keys b) (pos.keys a) = false) := by
  have := sortBy_sorted (strictOrd_ltKeys (fun a : PRule => some a.label :: pos.keys a)) rs
  refine List.Pairwise.imp (fun {a b} h => ?_) this
  simp only [ltKeys_cons_cons, Bool.or_eq_false_iff, Bool.and_eq_false_iff, Bool.not_eq_false'] at h
  refine ⟨h.1, ?_⟩
  intro e
  rcases h.2 with h2 | h2
  · rw [e, ltOpt_irrefl] at h2; cases h2
  · exact h2

/-- **pass-level scan lemma for MAXIMAL**: two rows with the same incoming label that receive different components
    are separated at the position of the pass -/
theorem maximalPass_sep (pos : Pos) (rs : List PRule)
    (hO : ∀ r ∈ rs, r.rule.objectTermtype ≠ .literal → r.litType = none) :
    ∀ p ∈ (maxSorted pos rs).zip (scanMap (maxStep pos (enforceFor pos rs)) (maxInit rs) (maxSorted pos rs)),
    ∀ q ∈ (maxSorted pos rs).zip (scanMap (maxStep pos (enforceFor pos rs)) (maxInit rs) (maxSorted pos rs)),
      p.1.label = q.1.label → p.2 ≠ q.2 → SepAt (enforceFor .P rs) (enforceFor .G rs) pos p.1 q.1 := by
  intro p hp q hq hlab hne
  have hsorted := maxSorted_sorted pos rs
  obtain ⟨A, B, C, hL, hA, hB, hC⟩ := key_split3 (fun x : PRule => x.label) p.1.label _ (hsorted.imp fun h => h.1)
  have hBsub : B.Sublist (maxSorted pos rs) := by
    rw [hL]; exact (List.sublist_append_right A B).trans (List.sublist_append_left (A ++ B) C)
  have hBrs : ∀ x ∈ B, x ∈ rs := fun x hx => (mem_sortBy _ rs x).mp (hBsub.subset hx)
  have hBsorted : KeySorted pos B :=
    List.Pairwise.imp_of_mem (fun {a b} ha hb h => h.2 ((hB a ha).trans (hB b hb).symm)) (hsorted.sublist hBsub)
  rw [hL] at hp hq
  have hpB := zip_scan_block _ _ A B C p hp (fun h => hA _ h rfl) (fun h => hC _ h rfl)
  have hqB := zip_scan_block _ _ A B C q hq (fun h => hA _ h hlab.symm) (fun h => hC _ h hlab.symm)
  obtain ⟨st', hst'⟩ := scanMap_maxStep_block' pos (enforceFor pos rs) p.1.label B hB
    (scanEnd (maxStep pos (enforceFor pos rs)) (maxInit rs) A)
  rw [hst'] at hpB hqB
  cases pos with
  | S => exact sepS_gen B hBsorted st' p hpB q hqB hne
  | P => exact sepP_gen B hBsorted _ st' p hpB q hqB hne
  | O => exact sepO_gen B hBsorted (fun r hr => hO r (hBrs r hr)) st' p hpB q hqB hne
  | G => exact sepG_gen B hBsorted _ st' p hpB q hqB hne

/-! ### through the four passes -/

/-- a row without its label -/
def core (r : PRule) : PRule := { r with label := [] }

theorem sepAt_core (eP eG : Bool) (pos : Pos) (a b : PRule) : SepAt eP eG pos (core a) (core b) ↔ SepAt eP eG pos a b := by
  cases pos <;> exact Iff.rfl

/-- rows with different labels are separated at some position -/
def LabelsSeparate (eP eG : Bool) (T : List PRule) : Prop :=
  ∀ x ∈ T, ∀ y ∈ T, x.label ≠ y.label → ∃ pos, SepAt eP eG pos x y

theorem maximalPass_rows (pos : Pos) (rs : List PRule) :
    (∀ r' ∈ maximalPass pos rs, ∃ p ∈ (maxSorted pos rs).zip
        (scanMap (maxStep pos (enforceFor pos rs)) (maxInit rs) (maxSorted pos rs)),
        r' = { p.1 with label := p.1.label ++ ['-'] ++ p.2 }) ∧
    (∀ r ∈ rs, ∃ r' ∈ maximalPass pos rs, core r' = core r) := by
  rw [maximalPass_eq]
  constructor
  · intro r' hr'
    obtain ⟨p, hp, rfl⟩ := List.mem_map.mp hr'
    exact ⟨p, hp, rfl⟩
  · intro r hr
    have hmem : r ∈ maxSorted pos rs := (mem_sortBy _ rs r).mpr hr
    obtain ⟨c, hc⟩ := exists_zip_of_mem hmem (scanMap_length (maxStep pos (enforceFor pos rs)) (maxInit rs) _).symm
    exact ⟨_, List.mem_map.mpr ⟨(r, c), hc, rfl⟩, rfl⟩

theorem maximalPass_core (pos : Pos) (rs : List PRule) : ∀ r' ∈ maximalPass pos rs, ∃ r ∈ rs, core r' = core r := by
  intro r' hr'
  obtain ⟨r, hr, c, rfl⟩ := (maximalPass_spec pos rs).2 r' hr'
  exact ⟨r, hr, rfl⟩

theorem all_congr_core (f : Rule → Bool) (T T' : List PRule) (h1 : ∀ r' ∈ T', ∃ r ∈ T, core r' = core r)
    (h2 : ∀ r ∈ T, ∃ r' ∈ T', core r' = core r) : (T'.all fun r => f r.rule) = (T.all fun r => f r.rule) := by
  rw [Bool.eq_iff_iff, List.all_eq_true, List.all_eq_true]
  constructor
  · intro h r hr
    obtain ⟨r', hr', e⟩ := h2 r hr
    have : r'.rule = r.rule := show (core r').rule = (core r).rule from congrArg PRule.rule e
    rw [← this]; exact h r' hr'
  · intro h r' hr'
    obtain ⟨r, hr, e⟩ := h1 r' hr'
    have : r'.rule = r.rule := show (core r').rule = (core r).rule from congrArg PRule.rule e
    rw [this]; exact h r hr

theorem enforceFor_maximalPass (pos' pos : Pos) (rs : List PRule) :
    enforceFor pos' (maximalPass pos rs) = enforceFor pos' rs := by
  cases pos' with
  | S => rfl
  | O => rfl
  | P =>
    exact all_congr_core (fun r => decide (r.predicateMapType = .constant)) rs _ (maximalPass_core pos rs)
      (maximalPass_rows pos rs).2
  | G =>
    exact all_congr_core (fun r => decide (r.graphMapType = .constant)) rs _ (maximalPass_core pos rs)
      (maximalPass_rows pos rs).2

theorem maximalPass_labelsSeparate (pos : Pos) (rs : List PRule)
    (hO : ∀ r ∈ rs, r.rule.objectTermtype ≠ .literal → r.litType = none)
    (h : LabelsSeparate (enforceFor .P rs) (enforceFor .G rs) rs) :
    LabelsSeparate (enforceFor .P rs) (enforceFor .G rs) (maximalPass pos rs) := by
  intro x' hx' y' hy' hne
  obtain ⟨p, hp, rfl⟩ := (maximalPass_rows pos rs).1 x' hx'
  obtain ⟨q, hq, rfl⟩ := (maximalPass_rows pos rs).1 y' hy'
  have hpm : p.1 ∈ rs := (mem_sortBy _ rs p.1).mp (List.of_mem_zip hp).1
  have hqm : q.1 ∈ rs := (mem_sortBy _ rs q.1).mp (List.of_mem_zip hq).1
  by_cases hlab : p.1.label = q.1.label
  · have hc : p.2 ≠ q.2 := by
      intro e; apply hne; simp only [hlab, e]
    exact ⟨pos, maximalPass_sep pos rs hO p hp q hq hlab hc⟩
  · obtain ⟨pos', hs⟩ := h p.1 hpm q.1 hqm hlab
    exact ⟨pos', hs⟩

theorem maximalFor_labelsSeparate (o : List Pos) (rs : List PRule)
    (hO : ∀ r ∈ rs, r.rule.objectTermtype ≠ .literal → r.litType = none)
    (h : LabelsSeparate (enforceFor .P rs) (enforceFor .G rs) rs) :
    LabelsSeparate (enforceFor .P rs) (enforceFor .G rs) (maximalFor o rs) ∧
    (∀ r' ∈ maximalFor o rs, ∃ r ∈ rs, core r' = core r) := by
  unfold maximalFor
  induction o generalizing rs with
  | nil => exact ⟨h, fun r hr => ⟨r, hr, rfl⟩⟩
  | cons pos o ih =>
    rw [List.foldl_cons]
    have hcore := maximalPass_core pos rs
    have hO' : ∀ r ∈ maximalPass pos rs, r.rule.objectTermtype ≠ .literal → r.litType = none := by
      intro r' hr'
      obtain ⟨r, hr, e⟩ := hcore r' hr'
      have e1 : r'.rule = r.rule := show (core r').rule = (core r).rule from congrArg PRule.rule e
      have e2 : r'.litType = r.litType := show (core r').litType = (core r).litType from congrArg PRule.litType e
      rw [e1, e2]; exact hO r hr
    have hsep := maximalPass_labelsSeparate pos rs hO h
    rw [← enforceFor_maximalPass .P pos rs, ← enforceFor_maximalPass .G pos rs] at hsep
    obtain ⟨i1, i2⟩ := ih (maximalPass pos rs) hO' hsep
    rw [enforceFor_maximalPass .P pos rs, enforceFor_maximalPass .G pos rs] at i1
    refine ⟨i1, ?_⟩
    intro r'' hr''
    obtain ⟨r', hr', e'⟩ := i2 r'' hr''
    obtain ⟨r, hr, e⟩ := hcore r' hr'
    exact ⟨r, hr, e'.trans e⟩

end Model
