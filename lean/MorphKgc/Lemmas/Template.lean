/-
The split/join loop of `_materialize_template` on escape-free templates: it computes the substitution that the
generation rules prescribe.  (`Model.materializeTemplate` vs. the abstract template `Spec.Tpl`.)
-/
import MorphKgc.Lemmas.Str
import MorphKgc.Spec.Rules
import MorphKgc.Model.Normalize
import MorphKgc.Gen.Escape

namespace Py

/-- a separator containing a character that does not occur in `s` is not found in `s` -/
theorem breakOn_none_of_not_mem {sep s : Str} {c : Char} (hc : c ∈ sep) (hs : c ∉ s) : breakOn sep s = none := by
  cases h : breakOn sep s with
  | none => rfl
  | some p =>
    obtain ⟨a, b⟩ := p
    have := breakOn_eq_some h
    subst this
    exact absurd (by simp [hc]) hs

theorem replace_of_breakOn_none {s old new : Str} (h : breakOn old s = none) : replace s old new = s := by
  unfold replace
  cases s.length <;> simp [replaceFuel, h]

theorem split_of_breakOn_none {s sep : Str} (h : breakOn sep s = none) : split s sep = [s] := by
  unfold split
  cases s.length <;> simp [splitFuel, h]

theorem replace_of_not_mem {s old new : Str} {c : Char} (hc : c ∈ old) (hs : c ∉ s) : replace s old new = s :=
  replace_of_breakOn_none (breakOn_none_of_not_mem hc hs)

/-- the first occurrence of `c :: rest` is found behind text that does not contain `c` -/
theorem breakOn_first {c : Char} {rest lit tail : Str} (h : c ∉ lit) :
    breakOn (c :: rest) (lit ++ (c :: rest) ++ tail) = some (lit, tail) := by
  induction lit with
  | nil =>
    simp only [List.nil_append, List.cons_append]
    unfold breakOn
    have : rest.isPrefixOf (rest ++ tail) = true := List.isPrefixOf_iff_prefix.mpr (List.prefix_append _ _)
    simp [this]
  | cons d lit ih =>
    simp only [List.mem_cons, not_or] at h
    simp only [List.cons_append]
    unfold breakOn
    have hne : (c == d) = false := by simpa using h.1
    simp only [List.isPrefixOf_cons_cons, hne, Bool.false_and]
    have := ih h.2
    simp only [List.cons_append, List.append_assoc] at this
    simp [this]

/-- the template loop's idiom at the first occurrence of the pattern -/
theorem split_first {c : Char} {rest lit tail : Str} (h : c ∉ lit) :
    (split (lit ++ (c :: rest) ++ tail) (c :: rest)).headD [] = lit ∧
    join (c :: rest) (split (lit ++ (c :: rest) ++ tail) (c :: rest)).tail = tail := by
  have := split_head_tail (c :: rest) (lit ++ (c :: rest) ++ tail) (by simp)
  rw [breakOn_first h] at this
  generalize split (lit ++ (c :: rest) ++ tail) (c :: rest) = sp at this
  obtain ⟨h1, h2⟩ := this
  cases sp <;> simp_all

end Py

namespace Model
open Py Spec

/-- no backslash, brace or U+200B -/
def PlainStr (s : Str) : Bool := s.all fun c => c != '\\' && c != '{' && c != '}' && c != Char.ofNat 0x200B

def WFTpl (t : Spec.Tpl) : Bool :=
  PlainStr t.pre && t.parts.all fun p => PlainStr p.1 && !p.1.isEmpty && PlainStr p.2

theorem PlainStr.not_mem {s : Str} (h : PlainStr s = true) :
    '\\' ∉ s ∧ '{' ∉ s ∧ '}' ∉ s ∧ Char.ofNat 0x200B ∉ s := by
  simp only [PlainStr, List.all_eq_true, Bool.and_eq_true, bne_iff_ne, ne_eq] at h
  refine ⟨fun hm => (h _ hm).1.1.1 rfl, fun hm => (h _ hm).1.1.2 rfl, fun hm => (h _ hm).1.2 rfl, fun hm => (h _ hm).2 rfl⟩

theorem PlainStr_append {a b : Str} : PlainStr (a ++ b) = (PlainStr a && PlainStr b) := by
  simp [PlainStr]

theorem PlainStr_nil : PlainStr [] = true := rfl

/-- the parts of a well-formed template -/
def PartsOK (parts : List (Str × Str)) : Prop :=
  ∀ p ∈ parts, PlainStr p.1 = true ∧ p.1 ≠ [] ∧ PlainStr p.2 = true

theorem WFTpl_iff (t : Spec.Tpl) : WFTpl t = true ↔ PlainStr t.pre = true ∧ PartsOK t.parts := by
  simp [WFTpl, PartsOK, List.all_eq_true, and_assoc]

theorem PartsOK_cons {p : Str × Str} {ps : List (Str × Str)} :
    PartsOK (p :: ps) ↔ (PlainStr p.1 = true ∧ p.1 ≠ [] ∧ PlainStr p.2 = true) ∧ PartsOK ps := by
  simp [PartsOK]

theorem escBrace_plain {s : Str} (h : PlainStr s = true) : escBrace s = s := by
  have h1 := (PlainStr.not_mem h).2.1
  have h2 := (PlainStr.not_mem h).2.2.1
  clear h
  unfold escBrace
  induction s with
  | nil => rfl
  | cons c s ih =>
    simp only [List.mem_cons, not_or] at h1 h2
    have e1 : c ≠ '{' := fun e => h1.1 e.symm
    have e2 : c ≠ '}' := fun e => h2.1 e.symm
    simp [List.flatMap_cons, e1, e2, ih h1.2 h2.2]

/-- concrete syntax of the reference/literal pairs -/
def partsText (parts : List (Str × Str)) : Str := parts.flatMap fun p => ['{'] ++ p.1 ++ ['}'] ++ p.2

theorem partsText_cons (p : Str × Str) (ps : List (Str × Str)) :
    partsText (p :: ps) = '{' :: (p.1 ++ '}' :: (p.2 ++ partsText ps)) := by
  simp [partsText, List.flatMap_cons]

theorem render_parts_plain {parts : List (Str × Str)} (h : PartsOK parts) :
    (parts.flatMap fun p => ['{'] ++ p.1 ++ ['}'] ++ escBrace p.2) = partsText parts := by
  induction parts with
  | nil => rfl
  | cons p ps ih =>
    rw [PartsOK_cons] at h
    simp only [List.flatMap_cons, partsText]
    rw [escBrace_plain h.1.2.2]
    congr 1
    exact ih h.2

/-- `escBrace` is the identity on plain text -/
theorem render_plain (t : Spec.Tpl) (h : WFTpl t = true) :
    t.render = t.pre ++ t.parts.flatMap fun p => ['{'] ++ p.1 ++ ['}'] ++ p.2 := by
  rw [WFTpl_iff] at h
  unfold Tpl.render
  rw [escBrace_plain h.1, render_parts_plain h.2]; rfl

theorem backslash_not_mem_partsText {parts : List (Str × Str)} (h : PartsOK parts) : '\\' ∉ partsText parts := by
  induction parts with
  | nil => simp [partsText]
  | cons p ps ih =>
    rw [PartsOK_cons] at h
    rw [partsText_cons]
    have h1 := (PlainStr.not_mem h.1.1).1
    have h2 := (PlainStr.not_mem h.1.2.2).1
    simp [h1, h2, ih h.2]

/-! ### the reference scanner -/

theorem findall_none_skip (lit s : Str) (h : '{' ∉ lit) : findallBraceRef none (lit ++ s) = findallBraceRef none s := by
  induction lit with
  | nil => rfl
  | cons c lit ih =>
    simp only [List.mem_cons, not_or] at h
    have hne : c ≠ '{' := fun e => h.1 e.symm
    simp only [List.cons_append]
    rw [findallBraceRef.eq_def]
    simp [hne, ih h.2]

theorem findall_none_plain (lit : Str) (h : '{' ∉ lit) : findallBraceRef none lit = [] := by
  have := findall_none_skip lit [] h
  simpa [findallBraceRef] using this

theorem findall_some_name (g name s : Str) (h : '}' ∉ name) :
    findallBraceRef (some g) (name ++ '}' :: s) =
      if g ++ name = [] then findallBraceRef none s else (g ++ name) :: findallBraceRef none s := by
  induction name generalizing g with
  | nil =>
    rw [List.nil_append, findallBraceRef.eq_def]
    simp
  | cons c name ih =>
    simp only [List.mem_cons, not_or] at h
    have hne : c ≠ '}' := fun e => h.1 e.symm
    simp only [List.cons_append]
    rw [findallBraceRef.eq_def]
    simp only [hne, ↓reduceIte]
    rw [ih _ h.2]
    simp

theorem findall_partsText {parts : List (Str × Str)} (h : PartsOK parts) (lit : Str) (hl : '{' ∉ lit) :
    findallBraceRef none (lit ++ partsText parts) = parts.map (·.1) := by
  induction parts generalizing lit with
  | nil => simpa [partsText] using findall_none_plain lit hl
  | cons p ps ih =>
    rw [PartsOK_cons] at h
    rw [findall_none_skip _ _ hl, partsText_cons, findallBraceRef.eq_def]
    simp only [↓reduceIte]
    rw [findall_some_name _ _ _ (PlainStr.not_mem h.1.1).2.2.1]
    simp only [List.nil_append, h.1.2.1, ↓reduceIte, List.map_cons]
    rw [ih h.2 _ (PlainStr.not_mem h.1.2.2).2.1]

theorem auxString_not_in_plain {r : Str} (h : PlainStr r = true) (new : Str) : replace r auxString new = r :=
  replace_of_not_mem (c := Char.ofNat 0x200B) (by decide +kernel) (PlainStr.not_mem h).2.2.2

/-- the references of an escape-free text are the brace groups -/
theorem refs_of_plain_text {parts : List (Str × Str)} (h : PartsOK parts) (lit : Str) (hl : PlainStr lit = true) :
    getReferencesInTemplate (lit ++ partsText parts) = parts.map (·.1) := by
  have hb : '\\' ∉ lit ++ partsText parts := by
    simp [(PlainStr.not_mem hl).1, backslash_not_mem_partsText h]
  unfold getReferencesInTemplate
  simp only
  rw [replace_of_not_mem (c := '\\') (by simp) hb, replace_of_not_mem (c := '\\') (by simp) hb,
    findall_partsText h lit (PlainStr.not_mem hl).2.1]
  rw [List.map_map]
  apply List.map_congr_left
  intro p hp
  have := (h p hp).1
  simp [auxString_not_in_plain this]

theorem refs_of_render (t : Spec.Tpl) (h : WFTpl t = true) :
    getReferencesInTemplate t.render = t.parts.map (·.1) := by
  rw [render_plain t h]
  rw [WFTpl_iff] at h
  exact refs_of_plain_text h.2 _ h.1

/-! ### the split/join loop -/

/-- The loop over the references of a well-formed template, when every reference has a value in the row, appends
    the text before each reference and the transformed value.  (`f` gives the value of each reference.) -/
theorem templateLoop_parts (cfg : TermCfg) (isT : Bool) (tt : Option TermType) (dt : Str) (row : Str → Option Str)
    (f : Str → Str) {parts : List (Str × Str)} (h : PartsOK parts) (hrow : ∀ p ∈ parts, row p.1 = some (f p.1))
    (lit acc : Str) (hl : '{' ∉ lit) :
    templateLoop cfg isT tt dt row (parts.map (·.1)) (lit ++ partsText parts) acc
      = .ok (acc ++ lit ++ parts.flatMap fun p => transformValue cfg isT tt dt (f p.1) ++ p.2) := by
  induction parts generalizing lit acc with
  | nil => simp [templateLoop, partsText]
  | cons p ps ih =>
    rw [PartsOK_cons] at h
    have hr := hrow p (by simp)
    simp only [List.map_cons, templateLoop, hr]
    have hsp := split_first (c := '{') (rest := p.1 ++ ['}']) (lit := lit) (tail := p.2 ++ partsText ps) hl
    have e : lit ++ partsText (p :: ps) = lit ++ ('{' :: (p.1 ++ ['}'])) ++ (p.2 ++ partsText ps) := by
      simp [partsText_cons]
    rw [e]
    have epat : ['{'] ++ p.1 ++ ['}'] = '{' :: (p.1 ++ ['}']) := rfl
    rw [epat]
    rw [hsp.1, hsp.2, ih h.2 (fun q hq => hrow q (List.mem_cons_of_mem _ hq)) _ _ (PlainStr.not_mem h.1.2.2).2.1]
    simp [List.flatMap_cons]

theorem zip_map_flatMap {α β γ} (l : List α) (g : α → β) (k : α × β → List γ) :
    (l.zip (l.map g)).flatMap k = l.flatMap fun a => k (a, g a) := by
  induction l with
  | nil => rfl
  | cons a l ih => simp [List.flatMap_cons, ih]

/-- … in the form with the list of values -/
theorem templateLoop_render (cfg : TermCfg) (isT : Bool) (tt : Option TermType) (dt : Str) (row : Str → Option Str)
    (t : Spec.Tpl) (h : WFTpl t = true) (vals : List Str) (hv : t.parts.map (fun p => row p.1) = vals.map some) (acc : Str) :
    templateLoop cfg isT tt dt row (getReferencesInTemplate t.render) t.render acc
      = .ok (acc ++ t.pre ++ (t.parts.zip vals).flatMap fun pv => transformValue cfg isT tt dt pv.2 ++ pv.1.2) := by
  rw [refs_of_render t h, render_plain t h]
  rw [WFTpl_iff] at h
  -- a value function from the list of values
  let f : Str → Str := fun c => (row c).getD []
  have hrow : ∀ p ∈ t.parts, row p.1 = some (f p.1) := by
    intro p hp
    have : (row p.1) ∈ t.parts.map (fun p => row p.1) := List.mem_map.mpr ⟨p, hp, rfl⟩
    rw [hv] at this
    obtain ⟨v, _, hv'⟩ := List.mem_map.mp this
    simp [f, ← hv']
  have hvals : vals = t.parts.map fun p => f p.1 := by
    have : vals.map some = (t.parts.map fun p => f p.1).map some := by
      rw [← hv, List.map_map]
      exact List.map_congr_left fun p hp => hrow p hp
    have := congrArg (List.map (fun o => Option.getD o ([] : Str))) this
    simpa [List.map_map, Function.comp_def] using this
  have := templateLoop_parts cfg isT tt dt row f h.2 hrow t.pre acc (PlainStr.not_mem h.1).2.1
  rw [partsText] at this
  rw [this, hvals, zip_map_flatMap]

/-- the unescaping step is the identity on escape-free text -/
theorem unescape_plain_text {parts : List (Str × Str)} (h : PartsOK parts) (lit : Str) (hl : PlainStr lit = true) :
    replace (replace (lit ++ partsText parts) ['\\', '{'] ['{']) ['\\', '}'] ['}'] = lit ++ partsText parts := by
  have hb : '\\' ∉ lit ++ partsText parts := by
    simp [(PlainStr.not_mem hl).1, backslash_not_mem_partsText h]
  rw [replace_of_not_mem (c := '\\') (by simp) hb, replace_of_not_mem (c := '\\') (by simp) hb]

/-- **Template maps.** On an escape-free template the engine computes the substitution. -/
theorem materializeTemplate_eq_subst (cfg : TermCfg) (t : Spec.Tpl) (h : WFTpl t = true) (tt : Option TermType) (dt : Str)
    (row : Str → Option Str) (vals : List Str) (hv : t.parts.map (fun p => row p.1) = vals.map some) :
    materializeTemplate cfg .template t.render tt dt [] row
      = .ok (wrapTerm tt (t.pre ++ (t.parts.zip vals).flatMap fun pv => transformValue cfg true tt dt pv.2 ++ pv.1.2)) := by
  have hl := templateLoop_render cfg true tt dt row t h vals hv []
  unfold materializeTemplate
  have hu : replace (replace t.render ['\\', '{'] ['{']) ['\\', '}'] ['}'] = t.render := by
    rw [render_plain t h]
    rw [WFTpl_iff] at h
    exact unescape_plain_text h.2 _ h.1
  simp only [reduceCtorEq, ↓reduceIte, hu, List.nil_append, decide_true]
  rw [hl]
  simp

/-- the same with a value function instead of a value list -/
theorem materializeTemplate_template (cfg : TermCfg) (t : Spec.Tpl) (h : WFTpl t = true) (tt : Option TermType) (dt : Str)
    (row : Str → Option Str) (f : Str → Str) (hrow : ∀ p ∈ t.parts, row p.1 = some (f p.1)) :
    materializeTemplate cfg .template t.render tt dt [] row
      = .ok (wrapTerm tt (t.pre ++ t.parts.flatMap fun p => transformValue cfg true tt dt (f p.1) ++ p.2)) := by
  rw [materializeTemplate_eq_subst cfg t h tt dt row (t.parts.map fun p => f p.1)
    (by rw [List.map_map]; exact List.map_congr_left fun p hp => hrow p hp), zip_map_flatMap]

/-- **Reference maps.** -/
theorem materializeTemplate_reference (cfg : TermCfg) (col : Str) (hc : PlainStr col = true) (hne : col ≠ [])
    (tt : Option TermType) (dt : Str) (row : Str → Option Str) (v : Str) (hrow : row col = some v) :
    materializeTemplate cfg .reference col tt dt [] row = .ok (wrapTerm tt (transformValue cfg false tt dt v)) := by
  have hp : PartsOK [(col, ([] : Str))] := by
    intro p hp
    simp only [List.mem_singleton] at hp
    subst hp
    exact ⟨hc, hne, rfl⟩
  have htxt : ['{'] ++ col ++ ['}'] = [] ++ partsText [(col, [])] := by simp [partsText]
  unfold materializeTemplate
  simp only [↓reduceIte, htxt]
  rw [refs_of_plain_text hp [] rfl, unescape_plain_text hp [] rfl]
  have := templateLoop_parts cfg false tt dt (fun r => row ([] ++ r)) (fun _ => v) hp
    (by intro p hp'; simp only [List.mem_singleton] at hp'; subst hp'; simpa using hrow) [] [] (by simp)
  simp only [reduceCtorEq, decide_false]
  rw [this]
  simp

/-- **Constant maps.** -/
theorem materializeTemplate_constant (cfg : TermCfg) (value : Str) (hc : PlainStr value = true)
    (tt : Option TermType) (dt : Str) (alias : Str) (row : Str → Option Str) :
    materializeTemplate cfg .constant value tt dt alias row = .ok (wrapTerm tt value) := by
  have hp : PartsOK [] := fun p hp => by simp at hp
  have htxt : value = value ++ partsText [] := by simp [partsText]
  unfold materializeTemplate
  simp only [reduceCtorEq, ↓reduceIte]
  rw [htxt, refs_of_plain_text hp value hc, unescape_plain_text hp value hc]
  simp [templateLoop]

end Model

/-! ### literal escaping: the generated chain is the character-wise ECHAR escaping of the specification -/

namespace Model
open Py Spec

def escChar (c : Char) : Str :=
  if c = '\\' then ['\\', '\\'] else if c = '"' then ['\\', '"'] else if c = '\'' then ['\\', '\'']
  else if c = '\n' then ['\\', 'n'] else if c = '\r' then ['\\', 'r'] else if c = '\t' then ['\\', 't']
  else if c = Char.ofNat 8 then ['\\', 'b'] else if c = Char.ofNat 12 then ['\\', 'f'] else [c]

theorem escapeLit_eq (s : Str) : escapeLit s = s.flatMap escChar := rfl

/-- the characters that have an ECHAR -/
def echarSources : List Char := ['\\', '"', '\'', '\n', '\r', '\t', Char.ofNat 8, Char.ofNat 12]

/-- text that needs no escaping inside a literal -/
def NoEsc (s : Str) : Bool := s.all fun c => !echarSources.contains c

theorem escChar_of_not_source {c : Char} (h : c ∉ echarSources) : escChar c = [c] := by
  simp only [echarSources, List.mem_cons, List.not_mem_nil, or_false, not_or] at h
  simp [escChar, h]

theorem escapeLit_append (a b : Str) : escapeLit (a ++ b) = escapeLit a ++ escapeLit b := by
  simp [escapeLit_eq, List.flatMap_append]

theorem escapeLit_noEsc {s : Str} (h : NoEsc s = true) : escapeLit s = s := by
  rw [escapeLit_eq]
  induction s with
  | nil => rfl
  | cons c s ih =>
    simp only [NoEsc, List.all_cons, Bool.and_eq_true, Bool.not_eq_true', List.contains_eq_mem,
      decide_eq_false_iff_not] at h
    rw [List.flatMap_cons, escChar_of_not_source h.1, ih (by simpa [NoEsc] using h.2)]
    rfl

/-- decidable side condition on the generated chain: single-character sources, all of them ECHAR characters, and the
    whole chain maps each ECHAR character to what the specification writes -/
def ChainIsEchar (chain : List (Str × Str)) : Bool :=
  SingleSources chain &&
  (chain.all fun p => match p.1 with | [c] => echarSources.contains c | _ => false) &&
  echarSources.all fun c => applyChain chain [c] == escChar c

theorem applyChain_eq_escapeLit {chain : List (Str × Str)} (h : ChainIsEchar chain = true) (v : Str) :
    applyChain chain v = escapeLit v := by
  simp only [ChainIsEchar, Bool.and_eq_true] at h
  obtain ⟨⟨hs, hsrc⟩, hall⟩ := h
  rw [applyChain_eq_flatMap hs, escapeLit_eq]
  congr 1
  funext c
  by_cases hc : c ∈ echarSources
  · simpa using List.all_eq_true.mp hall c hc
  · rw [escChar_of_not_source hc]
    apply applyChain_singleton_of_not_source c _ hs
    intro p hp e
    have := List.all_eq_true.mp hsrc p hp
    rw [e] at this
    exact hc (by simpa using this)

theorem chainIsEchar_template : ChainIsEchar Gen.escapeChainTemplate = true := by decide +kernel

/-- the escape chain of `_materialize_template` is the specification's `escapeLit`, for every string -/
theorem escapeChain_eq_escapeLit (v : Str) : applyChain Gen.escapeChainTemplate v = escapeLit v :=
  applyChain_eq_escapeLit chainIsEchar_template v

/-! ### one term map: engine = generation rule -/

/-- the configuration of the fragment: no printable filter, the generated escape chain, no canonicalisation -/
structure CfgOK (cfg : TermCfg) (safe : Str) : Prop where
  np : cfg.nonPrintable = none
  chain : cfg.escapeChain = Gen.escapeChainTemplate
  canon : ∀ d v, cfg.canon d v = v
  safe : cfg.safe = safe

theorem transformValue_eq {cfg : TermCfg} {safe : Str} (h : CfgOK cfg safe) (isT : Bool) (tt : TermType) (dt v : Str) :
    transformValue cfg isT (some tt) dt v =
      match tt with
      | .iri => if isT then pctEncode safe v else v
      | .literal => escapeLit v
      | _ => v := by
  cases tt <;> simp [transformValue, h.np, h.chain, h.canon, h.safe, escapeChain_eq_escapeLit]

/-- the column references of a term map -/
def tmRefs (tm : TermMap) : List Str :=
  match tm.kind with
  | .constant => []
  | .reference => [tm.value]
  | .template => tm.tpl.parts.map (·.1)

/-- term maps of the fragment: escape-free syntax; for literals, text that needs no ECHAR -/
def WFTermMap (tm : TermMap) : Bool :=
  match tm.kind with
  | .constant => PlainStr tm.value && (tm.termType != .literal || NoEsc tm.value)
  | .reference => PlainStr tm.value && !tm.value.isEmpty
  | .template => WFTpl tm.tpl && (tm.termType != .literal || (NoEsc tm.tpl.pre && tm.tpl.parts.all fun p => NoEsc p.2))

theorem refsOfMap_mapOf (tm : TermMap) (h : WFTermMap tm = true) : refsOfMap (mapOf tm).1 (mapOf tm).2 = tmRefs tm := by
  unfold WFTermMap at h
  unfold mapOf tmRefs
  cases hk : tm.kind <;> simp only [hk, Bool.and_eq_true] at h ⊢
  · rfl
  · exact refs_of_render _ h.1
  · rfl

/-- lexical form inside the delimiters -/
def lexOf (tt : TermType) (v : Str) : Str := if tt = .literal then escapeLit v else v

/-- language tag / datatype suffix of a literal -/
def termSuffix (tm : TermMap) : Str :=
  match tm.termType with
  | .literal =>
    (match tm.lang, tm.datatype with
     | some l, _ => ['@'] ++ l
     | none, some d => if d = xsdNs ++ "string".toList then [] else ['^', '^', '<'] ++ d ++ ['>']
     | none, none => [])
  | _ => []

theorem renderTerm_eq (tm : TermMap) (v : Str) :
    renderTerm tm v = wrapTerm (some tm.termType) (lexOf tm.termType v) ++ termSuffix tm := by
  unfold renderTerm termSuffix
  cases tm.termType <;> cases tm.lang <;> cases tm.datatype <;> simp [wrapTerm, lexOf]

theorem fold_none {α} (step : Option Str → α → Option Str) (hstep : ∀ a, step none a = none) (l : List α) :
    l.foldl step none = none := by
  induction l with
  | nil => rfl
  | cons a l ih => rw [List.foldl_cons, hstep, ih]

section genValue
variable (na : List Str) (ρ : Row) (enc : Str → Str)

/-- the fold of `Spec.genValue` -/
def gvStep : Option Str → Str × Str → Option Str := fun acc p =>
  match acc, valueOf na ρ p.1 with
  | some a, some v => some (a ++ enc v ++ p.2)
  | _, _ => none

theorem gvStep_fold_some (f : Str → Str) (parts : List (Str × Str))
    (hval : ∀ p ∈ parts, valueOf na ρ p.1 = some (f p.1)) (acc : Str) :
    parts.foldl (gvStep na ρ enc) (some acc) = some (acc ++ parts.flatMap fun p => enc (f p.1) ++ p.2) := by
  induction parts generalizing acc with
  | nil => simp
  | cons p ps ih =>
    rw [List.foldl_cons]
    have : gvStep na ρ enc (some acc) p = some (acc ++ enc (f p.1) ++ p.2) := by
      simp [gvStep, hval p (by simp)]
    rw [this, ih (fun q hq => hval q (List.mem_cons_of_mem _ hq))]
    simp [List.flatMap_cons]

theorem gvStep_fold_none (parts : List (Str × Str)) (hex : ∃ p ∈ parts, valueOf na ρ p.1 = none) (acc : Option Str) :
    parts.foldl (gvStep na ρ enc) acc = none := by
  induction parts generalizing acc with
  | nil => simp at hex
  | cons p ps ih =>
    rw [List.foldl_cons]
    by_cases hp : valueOf na ρ p.1 = none
    · have : gvStep na ρ enc acc p = none := by
        unfold gvStep; rw [hp]; cases acc <;> rfl
      rw [this]
      exact fold_none _ (fun a => by simp [gvStep]) ps
    · apply ih
      obtain ⟨q, hq, hqv⟩ := hex
      simp only [List.mem_cons] at hq
      rcases hq with rfl | hq
      · exact absurd hqv hp
      · exact ⟨q, hq, hqv⟩

end genValue

theorem genValue_template (safe : Str) (na : List Str) (tm : TermMap) (ρ : Row) (hk : tm.kind = .template) :
    genValue safe na tm ρ =
      tm.tpl.parts.foldl (gvStep na ρ fun v => if tm.termType = .iri then pctEncode safe v else v) (some tm.tpl.pre) := by
  unfold genValue
  rw [hk]
  rfl

/-- a null reference makes the term null -/
theorem genValue_none (safe : Str) (na : List Str) (tm : TermMap) (ρ : Row)
    (hex : ∃ c ∈ tmRefs tm, valueOf na ρ c = none) : genValue safe na tm ρ = none := by
  obtain ⟨c, hc, hv⟩ := hex
  unfold tmRefs at hc
  cases hk : tm.kind <;> simp only [hk] at hc
  · simp at hc
  · rw [genValue_template safe na tm ρ hk]
    apply gvStep_fold_none
    obtain ⟨p, hp, rfl⟩ := List.mem_map.mp hc
    exact ⟨p, hp, hv⟩
  · simp only [List.mem_singleton] at hc
    subst hc
    simp [genValue, hk, hv]

theorem escapeLit_parts (f : Str → Str) (parts : List (Str × Str)) (h : parts.all (fun p => NoEsc p.2) = true) :
    escapeLit (parts.flatMap fun p => f p.1 ++ p.2) = parts.flatMap fun p => escapeLit (f p.1) ++ p.2 := by
  induction parts with
  | nil => rfl
  | cons p ps ih =>
    simp only [List.all_cons, Bool.and_eq_true] at h
    rw [List.flatMap_cons, List.flatMap_cons, escapeLit_append, escapeLit_append, escapeLit_noEsc h.1, ih h.2]

/-- **One term map.** When every reference of the term map has a non-null value (`f`), the engine's term is the
    delimited lexical form of the value the generation rules prescribe. -/
theorem term_refines {cfg : TermCfg} {safe : Str} (hcfg : CfgOK cfg safe) (na : List Str) (tm : TermMap)
    (hwf : WFTermMap tm = true) (dt : Str) (ρ : Row) (row : Str → Option Str) (f : Str → Str)
    (hrow : ∀ c ∈ tmRefs tm, row c = some (f c)) (hval : ∀ c ∈ tmRefs tm, valueOf na ρ c = some (f c)) :
    ∃ v, genValue safe na tm ρ = some v ∧
      materializeTemplate cfg (mapOf tm).1 (mapOf tm).2 (some tm.termType) dt [] row
        = .ok (wrapTerm (some tm.termType) (lexOf tm.termType v)) := by
  unfold WFTermMap at hwf
  unfold tmRefs at hrow hval
  cases hk : tm.kind <;> simp only [hk, Bool.and_eq_true, Bool.or_eq_true, bne_iff_ne, ne_eq] at hwf hrow hval
  · -- constant
    refine ⟨tm.value, by simp [genValue, hk], ?_⟩
    simp only [mapOf, hk]
    rw [materializeTemplate_constant cfg _ hwf.1]
    congr 2
    unfold lexOf
    split
    · rename_i hl
      rcases hwf.2 with h | h
      · exact absurd hl h
      · exact (escapeLit_noEsc h).symm
    · rfl
  · -- template
    have hrow' : ∀ p ∈ tm.tpl.parts, row p.1 = some (f p.1) := fun p hp => hrow _ (List.mem_map.mpr ⟨p, hp, rfl⟩)
    have hval' : ∀ p ∈ tm.tpl.parts, valueOf na ρ p.1 = some (f p.1) := fun p hp => hval _ (List.mem_map.mpr ⟨p, hp, rfl⟩)
    refine ⟨tm.tpl.pre ++ tm.tpl.parts.flatMap fun p =>
      (fun v => if tm.termType = .iri then pctEncode safe v else v) (f p.1) ++ p.2, ?_, ?_⟩
    · rw [genValue_template safe na tm ρ hk]
      exact gvStep_fold_some na ρ _ f _ hval' _
    · simp only [mapOf, hk]
      rw [materializeTemplate_template cfg _ hwf.1 _ dt row f hrow']
      congr 2
      simp only [transformValue_eq hcfg]
      unfold lexOf
      cases htt : tm.termType <;> simp only [reduceCtorEq, ↓reduceIte]
      rcases hwf.2 with h | h
      · exact absurd htt h
      · rw [escapeLit_append, escapeLit_noEsc h.1, escapeLit_parts f _ h.2]
  · -- reference
    have hr := hrow tm.value (by simp)
    have hv := hval tm.value (by simp)
    refine ⟨f tm.value, by simp [genValue, hk, hv], ?_⟩
    simp only [mapOf, hk]
    rw [materializeTemplate_reference cfg _ hwf.1 (by simpa using hwf.2) _ dt row _ hr]
    congr 2
    rw [transformValue_eq hcfg]
    unfold lexOf
    cases tm.termType <;> simp

end Model
