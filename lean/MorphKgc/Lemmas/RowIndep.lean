/-
C11 — engine-specific lemmas: rule evaluation as a `RowWise` function of the table of one logical source (plain rules, referencing rules split on the
child side or on the parent side, all statement orders of `_preprocess_data`), and the typed layer (`coerceTable`): the dtype decision depends only
on the set of cells of a column, and outside the scope of C11_F1 it changes no rendering.
-/
import MorphKgc.Model.RowIndep
import MorphKgc.Lemmas.RowWise

namespace Model
open Py

/-! ### environments -/

theorem table_withTable_same (env : Env) (key : Str × Str) (t : Table) (r : Rule) (h : keyOf r = key) :
    (env.withTable key t).table r = t := by
  unfold keyOf at h
  subst h
  simp [Env.table, Env.withTable]

theorem table_withTable_other (env : Env) (key : Str × Str) (t : Table) (r : Rule) (h : keyOf r ≠ key) :
    (env.withTable key t).table r = env.table r := by
  unfold keyOf at h
  have : ¬ key = (r.sourceName, r.logicalSourceValue) := fun e => h e.symm
  simp [Env.table, Env.withTable, this]

theorem rowTriple_withTable (env : Env) (key : Str × Str) (t : Table) (r : Rule) (ok : MapType) (ov al : Str) (σ : SRow) :
    rowTriple (env.withTable key t) r ok ov al σ = rowTriple env r ok ov al σ := rfl

/-! ### the branches of `evalRuleG` -/

theorem evalRuleG_const (k : PreKind) (env : Env) (rules : List Rule) (r : Rule) (hc : isAllConstant r = true) :
    evalRuleG k env rules r = (rowTriple env r r.objectMapType r.objectMapValue [] [] >>= fun t => pure [t]) := by
  unfold evalRuleG
  simp only [hc, ↓reduceIte]

theorem evalRuleG_plain_eq' (k : PreKind) (env : Env) (rules : List Rule) (r : Rule) (hc : isAllConstant r = false)
    (hp : r.objectMapType ≠ .parentTM) :
    evalRuleG k env rules r =
      (preprocessG k env.na (refsOfRule r) (env.table r)) >>= fun data =>
        data.mapM (rowTriple env r r.objectMapType r.objectMapValue []) := by
  unfold evalRuleG
  simp [hc, hp]

theorem evalRuleG_noParent (k : PreKind) (env : Env) (rules : List Rule) (r : Rule) (hc : isAllConstant r = false)
    (hp : r.objectMapType = .parentTM) (hf : findRule rules r.objectMapValue = none) :
    evalRuleG k env rules r = .error (.keyError r.objectMapValue) := by
  unfold evalRuleG
  simp [hc, hp, hf]

theorem evalRuleG_join_eq (k : PreKind) (env : Env) (rules : List Rule) (r parent : Rule) (hc : isAllConstant r = false)
    (hp : r.objectMapType = .parentTM) (hf : findRule rules r.objectMapValue = some parent) :
    evalRuleG k env rules r =
      (preprocessG k env.na (refsOfRule r) (env.table r) >>= fun data =>
        preprocessG k env.na (refsOfRule parent true ++ r.objectJoin.map (·.2)) (env.table parent) >>= fun pdata =>
          (mergeData data pdata r.objectJoin).mapM (rowTriple env r parent.subjectMapType parent.subjectMapValue "parent_".toList)) := by
  unfold evalRuleG
  simp [hc, hp, hf]

/-! ### the join, membership-wise -/

/-- the join test of `_merge_data` for one pair of rows -/
def joinMatch (conds : List (Str × Str)) (c p : SRow) : Bool :=
  conds.all fun cp => lookup cp.1 c = lookup cp.2 p && (lookup cp.1 c).isSome

def prefixParent (p : SRow) : SRow := p.map fun kv => ("parent_".toList ++ kv.1, kv.2)

theorem mem_mergeData_rows (child parent : List SRow) (conds : List (Str × Str)) (m : SRow) :
    m ∈ mergeData child parent conds ↔ ∃ c ∈ child, ∃ p ∈ parent, joinMatch conds c p = true ∧ m = c ++ prefixParent p := by
  simp only [mergeData, List.mem_flatMap, List.mem_map, List.mem_filter, joinMatch, prefixParent]
  constructor
  · rintro ⟨c, hc, p, ⟨hp, hm⟩, rfl⟩; exact ⟨c, hc, p, hp, hm, rfl⟩
  · rintro ⟨c, hc, p, hp, hm, rfl⟩; exact ⟨c, hc, p, ⟨hp, hm⟩, rfl⟩

/-! ### `_preprocess_data` followed by per-row work is row-wise -/

theorem preprocessG_bind_rowWise {τ} (k : PreKind) (na refs : List Str) (expand : List SRow → List τ) (e : SRow → List τ)
    (hE : ∀ l m, m ∈ expand l ↔ ∃ s ∈ l, m ∈ e s) (g : τ → Except MatErr Str) :
    RowWise (fun t : Table => preprocessG k na refs t >>= fun data => (expand data).mapM g) := by
  have base : RowWise (fun t : Table => preprocess na refs t >>= fun data => (expand data).mapM g) := by
    refine (rowWise_pipeline (projectRow (dedupFirst refs)) (fun ρ => ρ.all fun p => !na.contains p.2) expand e hE g).congr fun t => ?_
    simp only [preprocess]
    cases hm : List.mapM (projectRow (dedupFirst refs)) t <;> rfl
  cases k with
  | strThenNa => exact base
  | keepNullThenNa => exact (base.filter fun ρ => !rawNullIn refs ρ).congr fun t => rfl

/-! ### rule evaluation as a function of one logical source -/

/-- a referencing rule whose child *and* parent read the logical source `key`: splitting that source splits both sides of the join -/
def SelfJoinOn (key : Str × Str) (rules : List Rule) (r : Rule) : Prop :=
  r.objectMapType = .parentTM ∧ ∃ parent, findRule rules r.objectMapValue = some parent ∧ keyOf r = key ∧ keyOf parent = key

theorem evalRuleG_rowWise (k : PreKind) (env : Env) (rules : List Rule) (r : Rule) (key : Str × Str)
    (h : ¬ SelfJoinOn key rules r) : RowWise (fun t => evalRuleG k (env.withTable key t) rules r) := by
  cases hc : isAllConstant r with
  | true =>
    exact (RowWise.const (evalRuleG k env rules r)).congr fun t => by
      rw [evalRuleG_const k _ rules r hc, evalRuleG_const k env rules r hc]; rfl
  | false =>
    by_cases hp : r.objectMapType = .parentTM
    · cases hf : findRule rules r.objectMapValue with
      | none =>
        exact (RowWise.const (.error (.keyError r.objectMapValue))).congr fun t => evalRuleG_noParent k _ rules r hc hp hf
      | some parent =>
        let g := rowTriple env r parent.subjectMapType parent.subjectMapValue "parent_".toList
        let refs := refsOfRule r
        let prefs := refsOfRule parent true ++ r.objectJoin.map (·.2)
        by_cases hk : keyOf r = key
        · have hk' : keyOf parent ≠ key := fun e => h ⟨hp, parent, hf, hk, e⟩
          -- the child side is split, the parent side is fixed
          cases hpd : preprocessG k env.na prefs (env.table parent) with
          | error err =>
            refine RowWise.of_never_ok fun t => ?_
            rw [evalRuleG_join_eq k _ rules r parent hc hp hf, table_withTable_other _ _ _ _ hk']
            show ¬ IsOk (preprocessG k env.na refs _ >>= fun data => preprocessG k env.na prefs (env.table parent) >>= _)
            rw [hpd]
            cases preprocessG k env.na refs ((env.withTable key t).table r) <;> simp [bind, Except.bind]
          | ok pdata =>
            refine (preprocessG_bind_rowWise k env.na refs (fun data => mergeData data pdata r.objectJoin)
              (fun c => (pdata.filter fun p => joinMatch r.objectJoin c p).map fun p => c ++ prefixParent p) ?_ g).congr fun t => ?_
            · intro l m
              rw [mem_mergeData_rows]
              simp only [List.mem_map, List.mem_filter]
              constructor
              · rintro ⟨c, hc, p, hp, hm, rfl⟩; exact ⟨c, hc, p, ⟨hp, hm⟩, rfl⟩
              · rintro ⟨c, hc, p, ⟨hp, hm⟩, rfl⟩; exact ⟨c, hc, p, hp, hm, rfl⟩
            · rw [evalRuleG_join_eq k _ rules r parent hc hp hf, table_withTable_other _ _ _ _ hk', table_withTable_same _ _ _ _ hk]
              show (preprocessG k env.na refs t >>= fun data => preprocessG k env.na prefs (env.table parent) >>= _) = _
              rw [hpd]
              rfl
        · by_cases hk' : keyOf parent = key
          · -- the parent side is split, the child side is fixed
            cases hcd : preprocessG k env.na refs (env.table r) with
            | error err =>
              refine RowWise.of_never_ok fun t => ?_
              rw [evalRuleG_join_eq k _ rules r parent hc hp hf, table_withTable_other _ _ _ _ hk]
              show ¬ IsOk (preprocessG k env.na refs (env.table r) >>= _)
              rw [hcd]
              simp [bind, Except.bind]
            | ok cdata =>
              refine (preprocessG_bind_rowWise k env.na prefs (fun pdata => mergeData cdata pdata r.objectJoin)
                (fun p => (cdata.filter fun c => joinMatch r.objectJoin c p).map fun c => c ++ prefixParent p) ?_ g).congr fun t => ?_
              · intro l m
                rw [mem_mergeData_rows]
                simp only [List.mem_map, List.mem_filter]
                constructor
                · rintro ⟨c, hc, p, hp, hm, rfl⟩; exact ⟨p, hp, c, ⟨hc, hm⟩, rfl⟩
                · rintro ⟨p, hp, c, ⟨hc, hm⟩, rfl⟩; exact ⟨c, hc, p, hp, hm, rfl⟩
              · rw [evalRuleG_join_eq k _ rules r parent hc hp hf, table_withTable_other _ _ _ _ hk, table_withTable_same _ _ _ _ hk']
                show (preprocessG k env.na refs (env.table r) >>= _) = _
                rw [hcd]
                rfl
          · exact (RowWise.const (evalRuleG k env rules r)).congr fun t => by
              rw [evalRuleG_join_eq k _ rules r parent hc hp hf, evalRuleG_join_eq k env rules r parent hc hp hf,
                table_withTable_other _ _ _ _ hk, table_withTable_other _ _ _ _ hk']
              rfl
    · by_cases hk : keyOf r = key
      · refine (preprocessG_bind_rowWise k env.na (refsOfRule r) id (fun s => [s]) (by intro l m; simp)
          (rowTriple env r r.objectMapType r.objectMapValue [])).congr fun t => ?_
        rw [evalRuleG_plain_eq' k _ rules r hc hp, table_withTable_same _ _ _ _ hk]
        rfl
      · exact (RowWise.const (evalRuleG k env rules r)).congr fun t => by
          rw [evalRuleG_plain_eq' k _ rules r hc hp, evalRuleG_plain_eq' k env rules r hc hp, table_withTable_other _ _ _ _ hk]
          rfl

/-- `materialize_set` (all asserted rules, de-duplicated) is row-wise in the table of a logical source that no rule joins with itself -/
theorem evalAllG_rowWise (k : PreKind) (env : Env) (rules : List Rule) (key : Str × Str)
    (h : ∀ r ∈ rules, r.asserted = true → ¬ SelfJoinOn key rules r) : RowWise (fun t => evalAllG k (env.withTable key t) rules) := by
  have hl := RowWise.flattenMapM (fun (r : Rule) (t : Table) => evalRuleG k (env.withTable key t) rules r) (rules.filter (·.asserted))
    (fun r hr => evalRuleG_rowWise k env rules r key (h r (List.mem_filter.mp hr).1 (by simpa using (List.mem_filter.mp hr).2)))
  refine (hl.mapSame dedupFirst fun l y => mem_dedupFirst l y).congr fun t => ?_
  unfold evalAllG
  cases List.mapM (fun r => evalRuleG k (env.withTable key t) rules r) (rules.filter (·.asserted)) <;> rfl

/-- the same, accumulated group by group -/
theorem evalGroupedG_rowWise (k : PreKind) (env : Env) (rules : List Rule) (key : Str × Str)
    (h : ∀ r ∈ rules, r.asserted = true → ¬ SelfJoinOn key rules r) : RowWise (fun t => evalGroupedG k (env.withTable key t) rules) := by
  let asserted := rules.filter (·.asserted)
  let labels := dedupFirst (asserted.map (·.partition))
  have hg : ∀ l ∈ labels, RowWise (fun t => (List.mapM (evalRuleG k (env.withTable key t) rules) (asserted.filter (·.partition = l))) >>=
      fun parts => (pure (dedupFirst parts.flatten) : Except MatErr (List Str))) := by
    intro l _
    have hl := RowWise.flattenMapM (fun (r : Rule) (t : Table) => evalRuleG k (env.withTable key t) rules r) (asserted.filter (·.partition = l))
      (fun r hr => by
        have hr' := (List.mem_filter.mp (List.mem_filter.mp hr).1)
        exact evalRuleG_rowWise k env rules r key (h r hr'.1 (by simpa using hr'.2)))
    refine (hl.mapSame dedupFirst fun l y => mem_dedupFirst l y).congr fun t => ?_
    cases List.mapM (fun r => evalRuleG k (env.withTable key t) rules r) (asserted.filter (·.partition = l)) <;> rfl
  have hall := RowWise.flattenMapM (fun (l : Str) (t : Table) => (List.mapM (evalRuleG k (env.withTable key t) rules) (asserted.filter (·.partition = l))) >>=
      fun parts => (pure (dedupFirst parts.flatten) : Except MatErr (List Str))) labels hg
  refine (hall.mapSame dedupFirst fun l y => mem_dedupFirst l y).congr fun t => ?_
  unfold evalGroupedG
  show (List.mapM _ labels >>= _) = _
  cases List.mapM (fun l => List.mapM (evalRuleG k (env.withTable key t) rules) (asserted.filter (·.partition = l)) >>=
      fun parts => (pure (dedupFirst parts.flatten) : Except MatErr (List Str))) labels <;> rfl

/-! ### the typed layer -/

theorem any_congr_mem {α} (p : α → Bool) {l l' : List α} (h : ∀ x, x ∈ l ↔ x ∈ l') : l.any p = l'.any p := by
  rw [Bool.eq_iff_iff]
  simp only [List.any_eq_true]
  exact ⟨fun ⟨x, hx, px⟩ => ⟨x, (h x).mp hx, px⟩, fun ⟨x, hx, px⟩ => ⟨x, (h x).mpr hx, px⟩⟩

theorem all_congr_mem {α} (p : α → Bool) {l l' : List α} (h : ∀ x, x ∈ l ↔ x ∈ l') : l.all p = l'.all p := by
  rw [Bool.eq_iff_iff]
  simp only [List.all_eq_true]
  exact ⟨fun a x hx => a x ((h x).mpr hx), fun a x hx => a x ((h x).mp hx)⟩

/-- **the dtype decision depends only on the set of cells of the column** (not on their order or multiplicity) -/
theorem inferDtype_congr {l l' : List TCell} (h : ∀ x, x ∈ l ↔ x ∈ l') : inferDtype l = inferDtype l' := by
  unfold inferDtype
  rw [any_congr_mem TCell.isStr h, any_congr_mem TCell.isBool h, all_congr_mem TCell.isBool h, any_congr_mem TCell.isFloat h,
    any_congr_mem TCell.isNan h, any_congr_mem TCell.isNone h, any_congr_mem TCell.isInt h]

theorem mem_colOf (c : Str) (tt : TTable) (v : TCell) : v ∈ colOf c tt ↔ ∃ ρ ∈ tt, lookup c ρ = some v := by
  simp [colOf, List.mem_filterMap]

theorem colOf_congr (c : Str) {t t' : TTable} (h : ∀ ρ, ρ ∈ t ↔ ρ ∈ t') (v : TCell) : v ∈ colOf c t ↔ v ∈ colOf c t' := by
  rw [mem_colOf, mem_colOf]
  exact ⟨fun ⟨ρ, hρ, hl⟩ => ⟨ρ, (h ρ).mp hρ, hl⟩, fun ⟨ρ, hρ, hl⟩ => ⟨ρ, (h ρ).mpr hρ, hl⟩⟩

theorem coerceRow_congr {t t' : TTable} (h : ∀ ρ, ρ ∈ t ↔ ρ ∈ t') : coerceRow t = coerceRow t' := by
  funext ρ
  unfold coerceRow
  apply List.map_congr_left
  intro kv _
  rw [inferDtype_congr (colOf_congr kv.1 h)]

theorem lookup_map_val {β γ} (c : Str) (f : Str → β → γ) (ρ : List (Str × β)) :
    lookup c (ρ.map fun kv => (kv.1, f kv.1 kv.2)) = (lookup c ρ).map (f c) := by
  induction ρ with
  | nil => rfl
  | cons a ρ ih =>
    obtain ⟨a1, a2⟩ := a
    simp only [List.map_cons, lookup]
    by_cases e : a1 = c
    · subst e; simp
    · simp [e, ih]

theorem lookup_coerceRow (tt : TTable) (ρ : TRow) (c : Str) :
    lookup c (coerceRow tt ρ) = (lookup c ρ).map (renderIn (inferDtype (colOf c tt))) :=
  lookup_map_val c (fun c v => renderIn (inferDtype (colOf c tt)) v) ρ

theorem lookup_aloneRow (ρ : TRow) (c : Str) : lookup c (aloneRow ρ) = (lookup c ρ).map renderAlone :=
  lookup_map_val c (fun _ v => renderAlone v) ρ

/-- outside the scope of C11_F1 the dtype of the column changes no rendering — except, under the repaired statement order, `None` → `nan`,
    which are both NULL objects and are dropped alike -/
theorem stable_render {k : PreKind} {col : List TCell} (h : unstableCol k col = false) {v : TCell} (hv : v ∈ col) :
    renderIn (inferDtype col) v = renderAlone v ∨ (k = .keepNullThenNa ∧ v = .none) := by
  cases hd : inferDtype col with
  | float64 =>
    simp only [unstableCol, hd, beq_self_eq_true, Bool.true_and, Bool.or_eq_false_iff, Bool.and_eq_false_iff] at h
    obtain ⟨hi, hn⟩ := h
    cases v with
    | int i =>
      have : col.any TCell.isInt = true := List.any_eq_true.mpr ⟨_, hv, rfl⟩
      rw [this] at hi; cases hi
    | none =>
      cases k with
      | keepNullThenNa => exact .inr ⟨rfl, rfl⟩
      | strThenNa =>
        have : col.any TCell.isNone = true := List.any_eq_true.mpr ⟨_, hv, rfl⟩
        rcases hn with hn | hn
        · cases hn
        · rw [this] at hn; cases hn
    | float r => exact .inl rfl
    | bool b => exact .inl rfl
    | str s => exact .inl rfl
    | nan => exact .inl rfl
  | int64 => exact .inl (by cases v <;> rfl)
  | bool => exact .inl (by cases v <;> rfl)
  | object => exact .inl (by cases v <;> rfl)

/-- rows related for `_preprocess_data` of order `k`: equal on the references — or, for the order that drops NULL objects first, NULL in the same
    rows and equal on the references where no referenced cell is a NULL object -/
def relK (k : PreKind) (refs : List Str) (ρ ρ' : Row) : Prop :=
  match k with
  | .strThenNa => agreeOn refs ρ ρ'
  | .keepNullThenNa => rawNullIn refs ρ = rawNullIn refs ρ' ∧ (rawNullIn refs ρ = false → agreeOn refs ρ ρ')

theorem forall₂_filter_strengthen {α} {R S : α → α → Prop} (p : α → Bool) {l l' : List α} (h : Forall2 R l l')
    (hp : ∀ a b, R a b → p a = p b) (hS : ∀ a b, R a b → p a = true → S a b) : Forall2 S (l.filter p) (l'.filter p) := by
  induction h with
  | nil => exact .nil
  | @cons a b l l' hab _ ih =>
    simp only [List.filter_cons, ← hp a b hab]
    cases hpa : p a with
    | true => exact .cons (hS a b hab hpa) ih
    | false => exact ih

theorem preprocessG_congrK (k : PreKind) (na refs : List Str) {t t' : Table} (h : Forall2 (relK k refs) t t') :
    preprocessG k na refs t = preprocessG k na refs t' := by
  cases k with
  | strThenNa => exact preprocess_congr na refs h
  | keepNullThenNa =>
    refine preprocess_congr na refs (forall₂_filter_strengthen _ h (fun a b hab => by rw [hab.1]) fun a b hab hpa => hab.2 ?_)
    simpa using hpa

theorem forall₂_map_map {α β} (R : β → β → Prop) (f g : α → β) (l : List α) (h : ∀ a ∈ l, R (f a) (g a)) :
    Forall2 R (l.map f) (l.map g) := by
  induction l with
  | nil => exact .nil
  | cons a l ih => exact .cons (h a (by simp)) (ih fun x hx => h x (List.mem_cons_of_mem _ hx))

def cellIsNullB : Option Cell → Bool
  | some (.null _) => true
  | _ => false

theorem rawNullIn_eq (refs : List Str) (ρ : Row) : rawNullIn refs ρ = refs.any fun c => cellIsNullB (lookup c ρ) := by
  unfold rawNullIn
  apply congrArg (fun f => refs.any f)
  funext c
  cases lookup c ρ with
  | none => rfl
  | some v => cases v <;> rfl

/-- two rows whose referenced cells are equal — or, for the order that drops NULL objects first, both NULL objects — are related -/
theorem relK_of_cells (k : PreKind) (refs : List Str) (ρ₁ ρ₂ : Row)
    (cell : ∀ c ∈ refs, lookup c ρ₁ = lookup c ρ₂ ∨
      (k = .keepNullThenNa ∧ cellIsNullB (lookup c ρ₁) = true ∧ cellIsNullB (lookup c ρ₂) = true)) : relK k refs ρ₁ ρ₂ := by
  cases k with
  | strThenNa =>
    intro c hc
    rcases cell c hc with e | ⟨ek, _⟩
    · exact e
    · cases ek
  | keepNullThenNa =>
    have hnull : ∀ c ∈ refs, cellIsNullB (lookup c ρ₁) = cellIsNullB (lookup c ρ₂) := by
      intro c hc
      rcases cell c hc with e | ⟨_, a, b⟩
      · rw [e]
      · rw [a, b]
    refine ⟨?_, fun hno c hc => ?_⟩
    · rw [rawNullIn_eq, rawNullIn_eq]
      rw [Bool.eq_iff_iff]
      simp only [List.any_eq_true]
      exact ⟨fun ⟨c, hc, x⟩ => ⟨c, hc, by rw [← hnull c hc]; exact x⟩, fun ⟨c, hc, x⟩ => ⟨c, hc, by rw [hnull c hc]; exact x⟩⟩
    · rcases cell c hc with e | ⟨_, a, _⟩
      · exact e
      · rw [rawNullIn_eq] at hno
        have := (List.any_eq_false.mp hno) c hc
        rw [a] at this
        exact absurd rfl this

/-- the cell-level consequence of `stable_render` -/
theorem stable_cell {k : PreKind} {col : List TCell} (hu : unstableCol k col = false) {v : TCell} (hv : v ∈ col) (d0 : Dtype)
    (hd0 : renderIn d0 v = renderAlone v) :
    some (renderIn (inferDtype col) v) = some (renderIn d0 v) ∨
      (k = .keepNullThenNa ∧ cellIsNullB (some (renderIn (inferDtype col) v)) = true ∧ cellIsNullB (some (renderIn d0 v)) = true) := by
  rcases stable_render hu hv with e | ⟨ek, ev⟩
  · exact .inl (by rw [e, hd0])
  · subst ev
    refine .inr ⟨ek, ?_, ?_⟩
    · cases inferDtype col <;> rfl
    · cases d0 <;> rfl

/-- outside the scope of C11_F1 the frame built from typed rows and the rows rendered one by one are related row by row -/
theorem coerce_rel_alone (k : PreKind) (refs : List Str) (tt : TTable) (hs : scope_C11_F1 k refs tt = false) :
    Forall2 (relK k refs) (coerceTable tt) (aloneTable tt) := by
  refine forall₂_map_map _ _ _ tt fun ρ hρ => relK_of_cells k refs _ _ fun c hc => ?_
  rw [lookup_coerceRow, lookup_aloneRow]
  cases hl : lookup c ρ with
  | none => exact .inl rfl
  | some v =>
    have hu : unstableCol k (colOf c tt) = false := by
      simp only [scope_C11_F1, List.any_eq_false] at hs
      simpa using hs c hc
    have := stable_cell hu ((mem_colOf c tt v).mpr ⟨ρ, hρ, hl⟩) .object (by cases v <;> rfl)
    have e : renderIn .object v = renderAlone v := by cases v <;> rfl
    simpa [e] using this

theorem lookup_filterMap_refs {β γ} (c : Str) (l : List Str) (g : Str → Option β) (f : Str → β → γ) :
    lookup c (l.filterMap fun c' => (g c').map fun v => (c', f c' v)) = if c ∈ l then (g c).map (f c) else none := by
  induction l with
  | nil => rfl
  | cons a l ih =>
    simp only [List.filterMap_cons]
    cases hga : g a with
    | none =>
      simp only [Option.map_none, ih, List.mem_cons]
      by_cases e : c = a
      · subst e; simp [hga]
      · simp [e]
    | some v =>
      simp only [Option.map_some, lookup, ih, List.mem_cons]
      by_cases e : a = c
      · subst e; simp [hga]
      · have : ¬ c = a := fun h => e h.symm
        simp [e, this]

/-- outside the scope of C11_F2 a (sub-)frame delivers what its rows and the caller's dtypes determine one by one -/
theorem frame_rel_alone (k : PreKind) (fs : FrameStrip) (dtypes : List (Str × Dtype)) (refs : List Str) (tt : TTable)
    (hs : scope_C11_F2 k fs dtypes refs tt = false) :
    Forall2 (relK k refs) (frameDeliverT fs dtypes refs tt) (tt.map (frameAloneRow dtypes refs)) := by
  refine forall₂_map_map _ _ _ tt fun ρ hρ => relK_of_cells k refs _ _ fun c hc => ?_
  have hc' : c ∈ dedupFirst refs := by simpa using hc
  unfold frameAloneRow
  rw [lookup_filterMap_refs c (dedupFirst refs) (fun c => lookup c ρ) (fun c v => renderIn (frameColDtype fs dtypes c tt) v),
    lookup_filterMap_refs c (dedupFirst refs) (fun c => lookup c ρ) (fun c v => renderIn ((lookup c dtypes).getD .object) v)]
  simp only [hc', ↓reduceIte]
  cases hl : lookup c ρ with
  | none => exact .inl rfl
  | some v =>
    simp only [Option.map_some]
    cases hd : (lookup c dtypes).getD .object with
    | int64 => exact .inl (by simp [frameColDtype, hd])
    | float64 => exact .inl (by simp [frameColDtype, hd])
    | bool => exact .inl (by simp [frameColDtype, hd])
    | object =>
      cases fs with
      | keepsObject => exact .inl (by simp [frameColDtype, hd])
      | applyInfers =>
        have hu : unstableCol k (colOf c tt) = false := by
          simp only [scope_C11_F2, List.any_eq_false, Bool.and_eq_false_iff] at hs
          rcases hs with h | h
          · simp at h
          · have := h c hc
            simpa [hd] using this
        have := stable_cell hu ((mem_colOf c tt v).mpr ⟨ρ, hρ, hl⟩) .object (by cases v <;> rfl)
        simpa [frameColDtype, hd] using this
      | unrecognised =>
        have hu : unstableCol k (colOf c tt) = false := by
          simp only [scope_C11_F2, List.any_eq_false, Bool.and_eq_false_iff] at hs
          rcases hs with h | h
          · simp at h
          · have := h c hc
            simpa [hd] using this
        have := stable_cell hu ((mem_colOf c tt v).mpr ⟨ρ, hρ, hl⟩) .object (by cases v <;> rfl)
        simpa [frameColDtype, hd] using this

/-- a join-free rule reads its table only through `_preprocess_data` on its references -/
theorem evalRuleG_congr_table (k : PreKind) (env : Env) (rules : List Rule) (r : Rule) (hp : r.objectMapType ≠ .parentTM) (key : Str × Str)
    (t t' : Table) (h : preprocessG k env.na (refsOfRule r) t = preprocessG k env.na (refsOfRule r) t') :
    evalRuleG k (env.withTable key t) rules r = evalRuleG k (env.withTable key t') rules r := by
  cases hc : isAllConstant r with
  | true => rw [evalRuleG_const k _ rules r hc, evalRuleG_const k _ rules r hc]; rfl
  | false =>
    rw [evalRuleG_plain_eq' k _ rules r hc hp, evalRuleG_plain_eq' k _ rules r hc hp]
    by_cases hk : keyOf r = key
    · rw [table_withTable_same _ _ _ _ hk, table_withTable_same _ _ _ _ hk]
      show preprocessG k env.na _ t >>= _ = preprocessG k env.na _ t' >>= _
      rw [h]
      rfl
    · rw [table_withTable_other _ _ _ _ hk, table_withTable_other _ _ _ _ hk]
      rfl

end Model
