/-
C10 — what each reader hands to `_preprocess_data` for the payload of one abstract table, and why `_preprocess_data` cannot tell the
results apart: tables whose rows agree, on the referenced columns, up to "equal or both NULL for the engine" are preprocessed to the
same rows; rows a reader drops because of a referenced NULL would be dropped anyway.
-/
import MorphKgc.Lemmas.Null
import MorphKgc.Lemmas.CsvRoundTrip
import MorphKgc.Model.SourceKinds

namespace Lemmas.Read
open Py Model Spec.Payload

/-! ## lookups in zipped rows -/

theorem lookup_map_snd {β γ} (f : β → γ) (c : Str) (l : List (Str × β)) :
    lookup c (l.map fun kv => (kv.1, f kv.2)) = (lookup c l).map f := by
  induction l with
  | nil => rfl
  | cons a l ih =>
    obtain ⟨k, v⟩ := a
    simp only [List.map_cons, lookup]
    by_cases h : k = c <;> simp [h, ih]

theorem zip_map_right {β γ} (f : β → γ) (cols : List Str) (r : List β) :
    cols.zip (r.map f) = (cols.zip r).map fun kv => (kv.1, f kv.2) := by
  induction cols generalizing r with
  | nil => simp
  | cons c cols ih => cases r with
    | nil => simp
    | cons v r => simp [ih]

theorem lookup_zip_map {β γ} (f : β → γ) (c : Str) (cols : List Str) (r : List β) :
    lookup c (cols.zip (r.map f)) = (lookup c (cols.zip r)).map f := by
  rw [zip_map_right, lookup_map_snd]

theorem lookup_zip_isSome {β} (c : Str) (cols : List Str) (r : List β) (hc : c ∈ cols) (hl : r.length = cols.length) :
    (lookup c (cols.zip r)).isSome = true := by
  induction cols generalizing r with
  | nil => simp at hc
  | cons a cols ih =>
    cases r with
    | nil => simp at hl
    | cons v r =>
      simp only [List.zip_cons_cons, lookup]
      by_cases h : a = c
      · simp [h]
      · simp only [h, ↓reduceIte]
        have : c ∈ cols := by
          rcases List.mem_cons.mp hc with e | e
          · exact absurd e.symm h
          · exact e
        exact ih r this (by simpa using hl)

/-! ## the abstract table as the reference input of `_preprocess_data` -/

/-- the table with a NULL object (`None`) for every NULL -/
def asCells (T : StrTable) : Table := T.rows.map fun r => T.cols.zip (r.map cellOfOpt)

theorem complete_asCells (T : StrTable) (hwf : T.WF) (refs : List Str) (hr : ∀ c ∈ refs, c ∈ T.cols) :
    Complete refs (asCells T) = true := by
  simp only [Complete, asCells, List.all_eq_true, List.mem_map]
  rintro _ ⟨r, hr', rfl⟩ c hc
  rw [lookup_zip_map]
  have := lookup_zip_isSome c T.cols r (hr c hc) (hwf.2.2 r hr')
  cases h : lookup c (T.cols.zip r) <;> simp_all

/-! ## rows the engine cannot tell apart -/

/-- equal, or both NULL for `_preprocess_data` of order `pk` with the tokens `na` -/
def CellSim (pk : PreKind) (na : List Str) : Option Cell → Option Cell → Prop
  | some a, some b => a = b ∨ (cellNullG pk na a = true ∧ cellNullG pk na b = true)
  | none, none => True
  | _, _ => False

def RowSim (pk : PreKind) (na refs : List Str) (ρ ρ' : Row) : Prop := ∀ c ∈ refs, CellSim pk na (lookup c ρ) (lookup c ρ')

theorem all_congr_mem {α} (l : List α) (f g : α → Bool) (h : ∀ x ∈ l, f x = g x) : l.all f = l.all g := by
  induction l with
  | nil => rfl
  | cons a l ih =>
    simp only [List.all_cons, h a (by simp), ih fun x hx => h x (List.mem_cons_of_mem _ hx)]

theorem survivesG_sim {pk : PreKind} {na refs : List Str} {ρ ρ' : Row} (h : RowSim pk na refs ρ ρ') :
    survivesG pk na refs ρ = survivesG pk na refs ρ' := by
  unfold survivesG
  apply all_congr_mem
  intro c hc
  have := h c hc
  cases h1 : lookup c ρ <;> cases h2 : lookup c ρ' <;> simp only [h1, h2, CellSim] at this ⊢
  rcases this with e | ⟨e1, e2⟩
  · rw [e]
  · rw [e1, e2]

theorem cellStr_sim {pk : PreKind} {na refs : List Str} {ρ ρ' : Row} (h : RowSim pk na refs ρ ρ')
    (hs : survivesG pk na refs ρ = true) (c : Str) (hc : c ∈ refs) : cellStr ρ c = cellStr ρ' c := by
  have := h c hc
  simp only [survivesG, List.all_eq_true] at hs
  have hs := hs c hc
  unfold cellStr
  cases h1 : lookup c ρ <;> cases h2 : lookup c ρ' <;> simp only [h1, h2, CellSim] at this hs ⊢
  rcases this with e | ⟨e1, _⟩
  · rw [e]
  · simp [e1] at hs

theorem projRow_sim {pk : PreKind} {na refs : List Str} {ρ ρ' : Row} (h : RowSim pk na refs ρ ρ')
    (hs : survivesG pk na refs ρ = true) : projRow (dedupFirst refs) ρ = projRow (dedupFirst refs) ρ' := by
  unfold projRow
  apply List.map_congr_left
  intro c hc
  rw [cellStr_sim h hs c (by simpa using hc)]

theorem rows_sim {pk : PreKind} {na refs : List Str} {t t' : Table} (h : Forall2 (RowSim pk na refs) t t') :
    (t.filter (survivesG pk na refs)).map (projRow (dedupFirst refs)) =
      (t'.filter (survivesG pk na refs)).map (projRow (dedupFirst refs)) := by
  induction h with
  | nil => rfl
  | cons hab _ ih =>
    simp only [List.filter_cons, ← survivesG_sim hab]
    split
    · next hs => simp only [List.map_cons, ih, projRow_sim hab hs]
    · exact ih

theorem complete_sim {pk : PreKind} {na refs : List Str} {t t' : Table} (h : Forall2 (RowSim pk na refs) t t')
    (hc : Complete refs t' = true) : Complete refs t = true := by
  induction h with
  | nil => rfl
  | @cons a b l l' hab _ ih =>
    simp only [Complete, List.all_cons, Bool.and_eq_true] at hc ⊢
    refine ⟨?_, by simpa [Complete] using ih hc.2⟩
    have hc1 := hc.1
    simp only [List.all_eq_true] at hc1 ⊢
    intro c hcr
    have := hab c hcr
    have h2 := hc1 c hcr
    cases h1 : lookup c a <;> cases h3 : lookup c b <;> simp_all [CellSim]

/-- **tables whose rows the engine cannot tell apart are preprocessed to the same rows** -/
theorem preprocessG_sim {pk : PreKind} {na refs : List Str} {t t' : Table} (h : Forall2 (RowSim pk na refs) t t')
    (hc : Complete refs t' = true) : preprocessG pk na refs t = preprocessG pk na refs t' := by
  rw [preprocessG_eq pk na refs t (complete_sim h hc), preprocessG_eq pk na refs t' hc, rows_sim h]

/-- **rows a reader drops because the engine would drop them do not matter** -/
theorem preprocessG_filter {pk : PreKind} {na refs : List Str} (t : Table) (q : Row → Bool)
    (hq : ∀ ρ ∈ t, survivesG pk na refs ρ = true → q ρ = true) (hc : Complete refs t = true) :
    preprocessG pk na refs (t.filter q) = preprocessG pk na refs t := by
  have e : (t.filter q).filter (survivesG pk na refs) = t.filter (survivesG pk na refs) := by
    rw [List.filter_filter]
    apply List.filter_congr
    intro ρ hρ
    cases hs : survivesG pk na refs ρ with
    | false => simp
    | true => simp [hq ρ hρ hs]
  rw [preprocessG_eq pk na refs _ (Complete_filter q hc), preprocessG_eq pk na refs t hc, e]

theorem forall2_map {α} {R : Row → Row → Prop} (rows : List α) (f g : α → Row) (h : ∀ r ∈ rows, R (f r) (g r)) :
    Forall2 R (rows.map f) (rows.map g) := by
  induction rows with
  | nil => exact .nil
  | cons r rows ih =>
    exact .cons (h r (by simp)) (ih fun x hx => h x (List.mem_cons_of_mem _ hx))

/-- the engine drops every NULL object a reader can deliver (`None`, `nan`): always the case for the statement order that keeps NULLs,
    and for the other order exactly when both words are listed in `na_values` -/
def NullsDropped (pk : PreKind) (na : List Str) : Prop :=
  cellNullG pk na (.null "None".toList) = true ∧ cellNullG pk na (.null "nan".toList) = true

theorem nullsDropped_keepNull (na : List Str) : NullsDropped .keepNullThenNa na := ⟨rfl, rfl⟩

end Lemmas.Read
