/-
C10 — per source kind: the table the reader delivers for the payload of an abstract table `T`, and the proof that `_preprocess_data`
maps it to the same rows as `T` itself (`asCells T`).
-/
import MorphKgc.Lemmas.SourceRead
import MorphKgc.Lemmas.Str

namespace Lemmas.Read
open Py Model Spec.Payload

/-- the source kinds with a Lean reader model -/
inductive Kind
  | csv | tsv | jsonFile | jsonMem | xml | sqlTable | sqlQuery | frame | pyList
  /-- Parquet, Feather, ORC, Stata, Excel, duckdb view: typed tabular files whose string cells arrive unchanged -/
  | typed
  | ods
  deriving DecidableEq, Repr

/-! ## structured payloads -/

def jsonRecords (T : StrTable) : List JRecord := T.rows.map fun r => T.cols.zip (r.map JField.scalar)

/-- ElementTree: the text of `<c></c>` is `None` -/
def xmlText (s : Str) : Option Str := if s.isEmpty then none else some s

def xmlElems (T : StrTable) : List XElem :=
  T.rows.map fun r => { children := (T.cols.zip r).filterMap fun kv => kv.2.map fun s => { tag := kv.1, text := xmlText s } }

def pyDicts (T : StrTable) : List (List (Str × Option Str)) := T.rows.map fun r => T.cols.zip r

/-- CSV / TSV: the text is rendered, tokenized (contract of the C tokenizer) and framed; a tokenizer failure is reported as an exception -/
def csvTable (sh : CsvShape) (sep : Char) (T : StrTable) : Except MatErr Table :=
  match Csv.parse sep (renderCsv sep T) with
  | some recs => .ok (csvDeliver sh (Csv.frame recs))
  | none => .error (.keyError "ParserError".toList)

/-- what the reader of kind `k` hands to `_preprocess_data` for the payload of `T` when the rule references `refs` -/
def deliver (k : Kind) (T : StrTable) (refs : List Str) : Except MatErr Table :=
  match k with
  | .csv => csvTable Gen.csvShape ',' T
  | .tsv => csvTable Gen.csvShape '\t' T
  | .jsonFile => .ok (readJson Gen.jsonFileShape refs (jsonRecords T))
  | .jsonMem => .ok (readJson Gen.jsonMemShape refs (jsonRecords T))
  | .xml => readXml Gen.xmlShape refs (xmlElems T)
  | .sqlTable => .ok (sqlDeliver (some .tableName) "t".toList refs (asCells T))
  | .sqlQuery => .ok (sqlDeliver (some .query) "SELECT * FROM t".toList refs (asCells T))
  | .frame => frameDeliverG Gen.frameStrip refs (asCells T)
  | .pyList => .ok (listDeliver refs (pyDicts T))
  | .typed => typedDeliver refs (asCells T)
  | .ods => odsDeliver refs (asCells T)

/-! ## CSV / TSV -/

/-- the rows of `T` with the empty string for a NULL -/
def csvCells (T : StrTable) : Table := T.rows.map fun r => T.cols.zip (r.map fun v => Cell.str (v.getD []))

theorem records_ne_nil (T : StrTable) (hwf : T.WF) : ∀ r ∈ T.records, r ≠ [] := by
  intro r hr
  simp only [StrTable.records, List.mem_cons, List.mem_map] at hr
  rcases hr with rfl | ⟨r0, h0, rfl⟩
  · exact hwf.1
  · intro e
    have hl := hwf.2.2 r0 h0
    have : r0 = [] := by simpa using e
    rw [this] at hl
    exact hwf.1 (List.length_eq_zero_iff.mp hl.symm)

theorem csvDeliver_str (sh : CsvShape) (hsh : (sh.naFilter && sh.keepDefaultNa) = false) (x : List (List (Str × Str))) :
    csvDeliver sh x = x.map fun ρ => ρ.map fun kv => (kv.1, Cell.str kv.2) := by
  simp [csvDeliver, hsh]

theorem csv_row (cols : List Str) (r : List (Option Str)) :
    (cols.zip (r.map fun v => v.getD [])).map (fun kv => (kv.1, Cell.str kv.2)) = cols.zip (r.map fun v => Cell.str (v.getD [])) := by
  induction cols generalizing r with
  | nil => simp
  | cons c cols ih => cases r with
    | nil => simp
    | cons v r => simp [ih]

theorem csvTable_eq (sh : CsvShape) (hsh : (sh.naFilter && sh.keepDefaultNa) = false) {sep : Char} (hs : Lemmas.Csv.SepOk sep)
    (T : StrTable) (hwf : T.WF) : csvTable sh sep T = .ok (csvCells T) := by
  unfold csvTable renderCsv
  rw [Lemmas.Csv.parse_render hs T.records (records_ne_nil T hwf)]
  show Except.ok (csvDeliver sh (Csv.frame T.records)) = _
  rw [csvDeliver_str sh hsh]
  show Except.ok (((T.rows.map fun r => r.map fun v => v.getD []).map fun r => T.cols.zip r).map _) = _
  rw [List.map_map, List.map_map]
  unfold csvCells
  congr 1
  apply List.map_congr_left
  intro r _
  exact csv_row T.cols r

theorem csvCells_sim {pk : PreKind} {na : List Str} (hn : NullsDropped pk na) (he : ([] : Str) ∈ na) (refs : List Str) (T : StrTable) :
    Forall2 (RowSim pk na refs) (csvCells T) (asCells T) := by
  unfold csvCells asCells
  apply forall2_map
  intro r _ c _
  rw [lookup_zip_map, lookup_zip_map]
  cases lookup c (T.cols.zip r) with
  | none => trivial
  | some v =>
    cases v with
    | some s => exact .inl rfl
    | none =>
      refine .inr ⟨?_, hn.1⟩
      simp [cellNullG, he]

/-! ## SQL -/

theorem lookup_filterMap_none (ρ : Row) (a : Str) (l : List Str) (h : a ∉ l) :
    lookup a (l.filterMap fun c => (lookup c ρ).map fun cell => (c, cell)) = none := by
  induction l with
  | nil => rfl
  | cons b l ih =>
    simp only [List.filterMap_cons]
    have hb : b ≠ a := fun e => h (e ▸ List.mem_cons_self)
    have hl : a ∉ l := fun hm => h (List.mem_cons_of_mem _ hm)
    cases lookup b ρ <;> simp [lookup, hb, ih hl]

theorem lookup_filterMap_refs (ρ : Row) (refs : List Str) (c : Str) (hcr : c ∈ refs) :
    lookup c (refs.filterMap fun c => (lookup c ρ).map fun cell => (c, cell)) = lookup c ρ := by
  induction refs with
  | nil => simp at hcr
  | cons a refs ih =>
    simp only [List.filterMap_cons]
    by_cases h : a = c
    · subst h
      cases hl : lookup a ρ with
      | none =>
        simp only [Option.map_none]
        by_cases hm : a ∈ refs
        · rw [ih hm, hl]
        · rw [lookup_filterMap_none ρ a refs hm]
      | some cell => simp [lookup]
    · have hm : c ∈ refs := by
        rcases List.mem_cons.mp hcr with e | e
        · exact absurd e.symm h
        · exact e
      cases lookup a ρ <;> simp [lookup, h, ih hm]

theorem sqlTable_pre {pk : PreKind} {na : List Str} (refs : List Str) (lsv : Str) (t : Table)
    (hc : Complete refs t = true) (hnone : ∀ ρ ∈ t, ∀ c ∈ refs, ∀ r, lookup c ρ = some (.null r) → cellNullG pk na (.null r) = true) :
    preprocessG pk na refs (sqlDeliver (some .tableName) lsv refs t) = preprocessG pk na refs t := by
  have hq : ∀ ρ ∈ t, survivesG pk na refs ρ = true → (!rawNullIn refs ρ) = true := by
    intro ρ hρ hs
    simp only [survivesG, List.all_eq_true] at hs
    simp only [rawNullIn, Bool.not_eq_true', List.any_eq_false]
    intro c hcr
    have := hs c hcr
    cases hl : lookup c ρ with
    | none => simp
    | some cell =>
      cases cell with
      | str s => simp
      | null r => simp [hl, hnone ρ hρ c hcr r hl] at this
  rw [← preprocessG_filter t (fun ρ => !rawNullIn refs ρ) hq hc]
  have hdel : sqlDeliver (some .tableName) lsv refs t =
      (t.filter fun ρ => !rawNullIn refs ρ).map fun ρ => refs.filterMap fun c => (lookup c ρ).map fun cell => (c, cell) := by
    simp only [sqlDeliver, execSelect]
    congr 1
    apply List.filter_congr
    intro ρ hρ
    simp only [Complete, List.all_eq_true] at hc
    rw [Bool.eq_iff_iff]
    simp only [rawNullIn, List.all_eq_true, Bool.not_eq_true', List.any_eq_false]
    constructor
    · intro hx c hcr
      have := hx c hcr
      cases hl : lookup c ρ with
      | none => simp
      | some cell => cases cell <;> simp_all
    · intro hx c hcr
      have := hx c hcr
      obtain ⟨cell, hl⟩ := Option.isSome_iff_exists.mp (hc ρ hρ c hcr)
      cases cell <;> simp_all
  rw [hdel]
  apply preprocessG_sim _ (Complete_filter _ hc)
  rw [show (t.filter fun ρ => !rawNullIn refs ρ) = (t.filter fun ρ => !rawNullIn refs ρ).map id by simp]
  rw [List.map_map]
  apply forall2_map
  intro ρ _ c hcr
  simp only [Function.comp, id]
  have := lookup_filterMap_refs ρ refs c hcr
  rw [this]
  cases lookup c ρ with
  | none => trivial
  | some cell => exact .inl rfl

/-! ## in-memory objects and typed files -/

theorem frameDeliverG_ok (strip : Str) (refs : List Str) (t : Table) (hc : Complete refs t = true) :
    frameDeliverG strip refs t = .ok (t.map fun ρ => (dedupFirst refs).map fun c =>
      (c, match lookup c ρ with | some (Cell.str s) => Cell.str (stripCell strip s) | some n => n | none => Cell.null [])) := by
  unfold frameDeliverG
  apply mapM_ok_of_forall
  intro ρ hρ
  apply mapM_ok_of_forall
  intro c hcr
  simp only [Complete, List.all_eq_true] at hc
  obtain ⟨cell, hl⟩ := Option.isSome_iff_exists.mp (hc ρ hρ c (by simpa using hcr))
  cases cell <;> simp [hl]

/-- no referenced string cell contains the text a DataFrame source deletes -/
def NoStrip (strip : Str) (refs : List Str) (t : Table) : Prop :=
  ∀ ρ ∈ t, ∀ c ∈ refs, ∀ s, lookup c ρ = some (.str s) → stripCell strip s = s

theorem frame_pre {pk : PreKind} {na : List Str} (strip : Str) (refs : List Str) (t : Table) (hc : Complete refs t = true)
    (hns : NoStrip strip refs t) :
    (frameDeliverG strip refs t).bind (preprocessG pk na refs) = preprocessG pk na refs t := by
  rw [frameDeliverG_ok strip refs t hc]
  show preprocessG pk na refs _ = _
  apply preprocessG_sim _ hc
  rw [show t = t.map id by simp, List.map_map]
  apply forall2_map
  intro ρ hρ c hcr
  simp only [Function.comp, id]
  rw [lookup_map_self]
  simp only [mem_dedupFirst, hcr, ↓reduceIte]
  simp only [Complete, List.all_eq_true] at hc
  obtain ⟨cell, hl⟩ := Option.isSome_iff_exists.mp (hc ρ hρ c hcr)
  rw [hl]
  cases cell with
  | str s => exact .inl (by simp [hns ρ hρ c hcr s hl])
  | null r => exact .inl rfl

theorem noStrip_nil (refs : List Str) (t : Table) : NoStrip [] refs t := by
  intro _ _ _ _ s _; rfl

theorem listDeliver_sim {pk : PreKind} {na : List Str} (refs : List Str) (T : StrTable) (hwf : T.WF) (hr : ∀ c ∈ refs, c ∈ T.cols) :
    Forall2 (RowSim pk na refs) (listDeliver refs (pyDicts T)) (asCells T) := by
  unfold listDeliver pyDicts asCells
  rw [List.map_map]
  apply forall2_map
  intro r hrow c hcr
  simp only [Function.comp]
  rw [lookup_map_self, lookup_zip_map]
  simp only [mem_dedupFirst, hcr, ↓reduceIte]
  have := lookup_zip_isSome c T.cols r (hr c hcr) (hwf.2.2 r hrow)
  cases hl : lookup c (T.cols.zip r) with
  | none => simp [hl] at this
  | some v => cases v <;> exact .inl rfl

/-- ODS: no referenced cell is the text `#N/A` -/
def NoOdsNA (refs : List Str) (t : Table) : Prop := ∀ ρ ∈ t, ∀ c ∈ refs, lookup c ρ ≠ some (.str "#N/A".toList)

theorem ods_pre {pk : PreKind} {na : List Str} (refs : List Str) (t : Table) (hc : Complete refs t = true) (hno : NoOdsNA refs t) :
    (odsDeliver refs t).bind (preprocessG pk na refs) = preprocessG pk na refs t := by
  unfold odsDeliver typedDeliver
  have hsim : Forall2 (RowSim pk na refs) (t.map fun ρ => ρ.map fun kv => (kv.1, odsCell kv.2)) t := by
    rw [show (Forall2 (RowSim pk na refs) (t.map fun ρ => ρ.map fun kv => (kv.1, odsCell kv.2)) t) =
      (Forall2 (RowSim pk na refs) (t.map fun ρ => ρ.map fun kv => (kv.1, odsCell kv.2)) (t.map id)) by simp]
    apply forall2_map
    intro ρ hρ c hcr
    rw [lookup_map_snd]
    simp only [id]
    cases hl : lookup c ρ with
    | none => trivial
    | some cell =>
      cases cell with
      | null r => exact .inl rfl
      | str s =>
        have : s ≠ "#N/A".toList := fun e => hno ρ hρ c hcr (e ▸ hl)
        exact .inl (by show (if s = "#N/A".toList then Cell.null "nan".toList else Cell.str s) = _; rw [if_neg this])
  have hc' := complete_sim hsim hc
  rw [frame_pre [] refs _ hc' (noStrip_nil refs _)]
  exact preprocessG_sim hsim hc

end Lemmas.Read
