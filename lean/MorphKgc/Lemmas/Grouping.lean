/-
Generic list lemmas used by C02/C03: `mapM` in `Except`, `dedupFirst`, the accumulate-while-scanning fold of the
partitioner (`scanMap`), `insertBy`/`sortBy` (permutation, sortedness).
-/
import MorphKgc.Py.Str

namespace Py

/-! ### `List.mapM` in `Except` -/

section mapM
variable {ε α β : Type}

theorem mapM_except_nil (f : α → Except ε β) : ([] : List α).mapM f = .ok [] := by
  simp [pure, Except.pure]

theorem mapM_except_cons (f : α → Except ε β) (x : α) (l : List α) :
    (x :: l).mapM f = (match f x with
      | .error e => .error e
      | .ok y => match l.mapM f with
        | .error e => .error e
        | .ok ys => .ok (y :: ys)) := by
  rw [List.mapM_cons]
  cases hx : f x with
  | error e => rfl
  | ok y =>
    cases hl : l.mapM f with
    | error e => simp [bind, Except.bind]
    | ok ys => simp [bind, Except.bind, pure, Except.pure]

/-- value of a successful computation (anything on failure) -/
def okVal [Inhabited β] : Except ε β → β
  | .ok y => y
  | .error _ => default

/-- every element evaluates: `mapM` succeeds with the list of values -/
theorem mapM_ok_of_forall [Inhabited β] (f : α → Except ε β) (l : List α)
    (h : ∀ x ∈ l, ∃ y, f x = .ok y) : l.mapM f = .ok (l.map fun x => okVal (f x)) := by
  induction l with
  | nil => exact mapM_except_nil f
  | cons x l ih =>
    rw [mapM_except_cons, ih (fun x hx => h x (List.mem_cons_of_mem _ hx))]
    obtain ⟨y, hy⟩ := h x (by simp)
    simp [hy, okVal]

/-- some element raises: `mapM` raises -/
theorem mapM_error_of_exists (f : α → Except ε β) (l : List α)
    (h : ∃ x ∈ l, ∃ e, f x = .error e) : ∃ e, l.mapM f = .error e := by
  induction l with
  | nil => simp at h
  | cons x l ih =>
    rw [mapM_except_cons]
    cases hx : f x with
    | error e => exact ⟨e, rfl⟩
    | ok y =>
      obtain ⟨z, hz, e, he⟩ := h
      rcases List.mem_cons.mp hz with rfl | hz
      · rw [hx] at he; cases he
      · obtain ⟨e', he'⟩ := ih ⟨z, hz, e, he⟩
        exact ⟨e', by simp [he']⟩

/-- the two cases are exhaustive (constructively) -/
theorem forall_ok_or_exists_error (f : α → Except ε β) (l : List α) :
    (∀ x ∈ l, ∃ y, f x = .ok y) ∨ (∃ x ∈ l, ∃ e, f x = .error e) := by
  induction l with
  | nil => left; simp
  | cons x l ih =>
    cases hx : f x with
    | error e => right; exact ⟨x, by simp, e, hx⟩
    | ok y =>
      rcases ih with h | ⟨z, hz, e, he⟩
      · left
        intro w hw
        rcases List.mem_cons.mp hw with rfl | hw
        · exact ⟨y, hx⟩
        · exact h w hw
      · right; exact ⟨z, List.mem_cons_of_mem _ hz, e, he⟩

theorem mapM_ok_forall (f : α → Except ε β) (l : List α) (ys : List β) (h : l.mapM f = .ok ys) :
    ∀ x ∈ l, ∃ y, f x = .ok y := by
  rcases forall_ok_or_exists_error f l with h' | h'
  · exact h'
  · obtain ⟨e, he⟩ := mapM_error_of_exists f l h'
    rw [h] at he; cases he

theorem mapM_ok_length (f : α → Except ε β) (l : List α) (ys : List β) (h : l.mapM f = .ok ys) :
    ys.length = l.length := by
  induction l generalizing ys with
  | nil => rw [mapM_except_nil] at h; cases h; rfl
  | cons x l ih =>
    rw [mapM_except_cons] at h
    cases hx : f x with
    | error e => simp [hx] at h
    | ok y =>
      cases hl : l.mapM f with
      | error e => simp [hx, hl] at h
      | ok zs =>
        simp only [hx, hl, Except.ok.injEq] at h
        subst h
        simp [ih zs hl]

end mapM

/-! ### `dedupFirst` -/

theorem mem_dedupFirst_fold {α} [BEq α] [LawfulBEq α] (xs acc : List α) (x : α) :
    x ∈ xs.foldl (fun acc y => if acc.elem y then acc else y :: acc) acc ↔ x ∈ acc ∨ x ∈ xs := by
  induction xs generalizing acc with
  | nil => simp
  | cons y xs ih =>
    rw [List.foldl_cons, ih]
    by_cases hy : y ∈ acc
    · have : acc.elem y = true := by simpa using hy
      simp only [this, ↓reduceIte, List.mem_cons]
      grind
    · have : acc.elem y = false := by simpa using hy
      simp only [this, List.mem_cons]
      grind

/-- `drop_duplicates` / `set(...)` keeps exactly the members -/
theorem mem_dedupFirst {α} [BEq α] [LawfulBEq α] (xs : List α) (x : α) : x ∈ dedupFirst xs ↔ x ∈ xs := by
  unfold dedupFirst
  rw [List.mem_reverse, mem_dedupFirst_fold]
  simp

theorem nodup_dedupFirst_fold {α} [BEq α] [LawfulBEq α] (xs acc : List α) (h : acc.Nodup) :
    (xs.foldl (fun acc y => if acc.elem y then acc else y :: acc) acc).Nodup := by
  induction xs generalizing acc with
  | nil => simpa
  | cons y xs ih =>
    rw [List.foldl_cons]
    apply ih
    by_cases hy : y ∈ acc
    · have : acc.elem y = true := by simpa using hy
      simpa only [this, ↓reduceIte] using h
    · have : acc.elem y = false := by simpa using hy
      simp only [this]
      exact List.nodup_cons.mpr ⟨hy, h⟩

theorem nodup_dedupFirst {α} [BEq α] [LawfulBEq α] (xs : List α) : (dedupFirst xs).Nodup := by
  unfold dedupFirst
  have h := nodup_dedupFirst_fold xs [] List.nodup_nil
  unfold List.Nodup at *
  rw [List.pairwise_reverse]
  exact h.imp (fun h => h.symm)

theorem dedupFirst_fold_of_nodup {α} [BEq α] [LawfulBEq α] (xs acc : List α) (h1 : ∀ x ∈ xs, x ∉ acc) (h2 : xs.Nodup) :
    xs.foldl (fun acc y => if acc.elem y then acc else y :: acc) acc = xs.reverse ++ acc := by
  induction xs generalizing acc with
  | nil => rfl
  | cons y xs ih =>
    rw [List.nodup_cons] at h2
    have hy : acc.elem y = false := by simpa using h1 y (by simp)
    rw [List.foldl_cons]
    simp only [hy, Bool.false_eq_true, ↓reduceIte]
    rw [ih]
    · simp
    · intro x hx hmem
      rcases List.mem_cons.mp hmem with rfl | hmem
      · exact h2.1 hx
      · exact h1 x (List.mem_cons_of_mem _ hx) hmem
    · exact h2.2

/-- nothing to drop from a list without duplicates -/
theorem dedupFirst_of_nodup {α} [BEq α] [LawfulBEq α] (xs : List α) (h : xs.Nodup) : dedupFirst xs = xs := by
  unfold dedupFirst
  rw [dedupFirst_fold_of_nodup xs [] (by simp) h]
  simp

/-! ### scanning with a state while accumulating outputs -/

/-- outputs of a left-to-right scan with state -/
def scanMap {σ α β} (f : σ → α → β × σ) : σ → List α → List β
  | _, [] => []
  | s, x :: xs => (f s x).1 :: scanMap f (f s x).2 xs

/-- final state of the scan -/
def scanEnd {σ α β} (f : σ → α → β × σ) : σ → List α → σ
  | s, [] => s
  | s, x :: xs => scanEnd f (f s x).2 xs

theorem scanMap_length {σ α β} (f : σ → α → β × σ) (s : σ) (xs : List α) : (scanMap f s xs).length = xs.length := by
  induction xs generalizing s with
  | nil => rfl
  | cons x xs ih => simp [scanMap, ih]

theorem scanMap_append {σ α β} (f : σ → α → β × σ) (s : σ) (xs ys : List α) :
    scanMap f s (xs ++ ys) = scanMap f s xs ++ scanMap f (scanEnd f s xs) ys := by
  induction xs generalizing s with
  | nil => rfl
  | cons x xs ih => simp [scanMap, scanEnd, ih]

/-- the imperative loop `for x in xs: (c, st) = step(st, x); out.append(g(x, c))` -/
theorem foldl_scan {σ α β γ} (f : σ → α → β × σ) (g : α → β → γ) (xs : List α) (acc : List γ) (s : σ) :
    (xs.foldl (fun (a : List γ × σ) x => (g x (f a.2 x).1 :: a.1, (f a.2 x).2)) (acc, s)).1
      = ((xs.zip (scanMap f s xs)).map fun p => g p.1 p.2).reverse ++ acc := by
  induction xs generalizing acc s with
  | nil => rfl
  | cons x xs ih =>
    rw [List.foldl_cons, ih]
    simp [scanMap]

/-- items on which the step leaves the state alone can be dropped from the scan -/
theorem scan_filter {σ α β} (f : σ → α → β × σ) (T : α → Bool) (hskip : ∀ s x, T x = false → (f s x).2 = s)
    (s : σ) (xs : List α) :
    (xs.zip (scanMap f s xs)).filter (fun p => T p.1) = (xs.filter T).zip (scanMap f s (xs.filter T)) := by
  induction xs generalizing s with
  | nil => rfl
  | cons x xs ih =>
    cases hT : T x with
    | true => simp [scanMap, hT, ih]
    | false => simp [scanMap, hT, ih, hskip s x hT]

/-! ### insertion sort -/

theorem insertBy_perm {α} (lt : α → α → Bool) (x : α) (l : List α) : (insertBy lt x l).Perm (x :: l) := by
  induction l with
  | nil => exact List.Perm.refl _
  | cons y ys ih =>
    unfold insertBy
    split
    · exact List.Perm.refl _
    · exact (List.Perm.cons y ih).trans (List.Perm.swap x y ys)

theorem sortBy_perm {α} (lt : α → α → Bool) (l : List α) : (sortBy lt l).Perm l := by
  induction l with
  | nil => exact List.Perm.refl _
  | cons x xs ih =>
    show (insertBy lt x (sortBy lt xs)).Perm (x :: xs)
    exact (insertBy_perm lt x _).trans (List.Perm.cons x ih)

theorem mem_sortBy {α} (lt : α → α → Bool) (l : List α) (x : α) : x ∈ sortBy lt l ↔ x ∈ l :=
  (sortBy_perm lt l).mem_iff

/-- a strict order given as a Bool function -/
structure StrictOrd {α} (lt : α → α → Bool) : Prop where
  asymm : ∀ a b, lt a b = true → lt b a = false
  trans : ∀ a b c, lt a b = true → lt b c = true → lt a c = true

/-- `l` is sorted: no later element is strictly below an earlier one -/
def SortedBy {α} (lt : α → α → Bool) (l : List α) : Prop := l.Pairwise fun a b => lt b a = false

theorem insertBy_sorted {α} {lt : α → α → Bool} (ho : StrictOrd lt) (x : α) (l : List α) (h : SortedBy lt l) :
    SortedBy lt (insertBy lt x l) := by
  induction l with
  | nil => simp [insertBy, SortedBy]
  | cons y ys ih =>
    unfold SortedBy at h ⊢
    rw [List.pairwise_cons] at h
    unfold insertBy
    cases hxy : lt x y with
    | true =>
      simp only [↓reduceIte]
      rw [List.pairwise_cons]
      refine ⟨?_, List.pairwise_cons.mpr h⟩
      intro z hz
      rcases List.mem_cons.mp hz with rfl | hz
      · exact ho.asymm _ _ hxy
      · -- y ≤ z and x < y
        cases hzx : lt z x with
        | false => rfl
        | true =>
          have := ho.trans _ _ _ hzx hxy
          rw [h.1 z hz] at this; cases this
    | false =>
      simp only [Bool.false_eq_true, ↓reduceIte]
      rw [List.pairwise_cons]
      refine ⟨?_, ih h.2⟩
      intro z hz
      rcases List.mem_cons.mp ((insertBy_perm lt x ys).mem_iff.mp hz) with rfl | hz
      · exact hxy
      · exact h.1 z hz

theorem sortBy_sorted {α} {lt : α → α → Bool} (ho : StrictOrd lt) (l : List α) : SortedBy lt (sortBy lt l) := by
  induction l with
  | nil => simp [sortBy, SortedBy]
  | cons x xs ih => exact insertBy_sorted ho x _ ih

end Py
