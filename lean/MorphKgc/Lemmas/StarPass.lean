/-
C13, helper lemmas XI: the subject block, the object block, and the induction on the quoting depth.
-/
import MorphKgc.Lemmas.StarFinish

namespace Model.Star
open Py Model Spec Spec.Star

def SubjQuoted (fr : FlatRule) : Prop := ∃ id conds, fr.subject = .quoted id conds

theorem toRule_subject_quoted_iff (fr : FlatRule) : (toRule fr).subjectMapType = .quoted ↔ SubjQuoted fr := by
  rw [toRule_subjectMapType]
  cases h : fr.subject with
  | term tm => simp [posOf_term, mapOf_ne_quoted, SubjQuoted, h]
  | quoted id conds => simp [posOf_quoted, SubjQuoted, h]

theorem toRule_object_quoted_iff (fr : FlatRule) : (toRule fr).objectMapType = .quoted ↔ ∃ id conds, fr.object = .quoted id conds := by
  rw [toRule_objectMapType]
  cases h : fr.object with
  | term tm => simp [posOf_term, mapOf_ne_quoted, h]
  | quoted id conds => simp [posOf_quoted, h]

theorem clean_addScratch {F : Frame} (names : List Str) (h : Clean F) (hn : ∀ x ∈ names, hasPP x = false) : Clean (F.addScratch names) := by
  refine ⟨h.1, ?_⟩
  intro c hc
  simp only [Frame.allCols, Frame.addScratch, List.mem_append, List.mem_filter] at hc
  rcases hc with hc | hc | ⟨hc, _⟩
  · exact h.2 c (by simp [Frame.allCols, hc])
  · exact h.2 c (by simp [Frame.allCols, hc])
  · exact hn c hc

/-- **The subject block.** -/
theorem subjectStep_post {env : Env} {senv : SEnv} (frs : List FlatRule) (n : Nat)
    (hpass : PassClaim env senv frs n) (hfresh : FreshClaim env senv frs n) (fr : FlatRule)
    (hpos : ∀ id conds, fr.subject = .quoted id conds → ∃ q, findFlat frs id = some q ∧ okAt senv frs n q = true)
    (hloc : posLocal senv frs (n + 1) fr.subject = true) (C : List Str) (nest : Nat) (F : Frame)
    (hC : ∀ c ∈ qrefs frs (n + 1) fr.subject ++ joinKeys fr.subject, c ∈ C)
    (hcols : ∀ c ∈ C, c ∈ F.srcCols) (hrows : RowsRep senv C F) (hclean : mpos frs n fr.subject = 1 → Clean F) :
    ∃ F1, subjectStep (frs.map toRule) (evalStar env (frs.map toRule) (n + 1)) (toRule fr) nest F = .ok F1 ∧
      (∀ φ1 ∈ F1.rows, ∃ φ ∈ F.rows, Ext nest φ φ1 ∧ ∀ id conds, fr.subject = .quoted id conds →
        ∃ S, φ1.subject = some S ∧ lookupKeep nest φ1.keep = some S ∧
          ∀ ρ, Rep senv.na C φ.src ρ → S ∈ flatPos senv frs (n + 1) ρ fr.subject) ∧
      (∀ φ ∈ F.rows, ∀ ρ, Rep senv.na C φ.src ρ → ∀ S ∈ flatPos senv frs (n + 1) ρ fr.subject,
        ∃ φ1 ∈ F1.rows, Ext nest φ φ1 ∧ ∀ id conds, fr.subject = .quoted id conds →
          φ1.subject = some S ∧ lookupKeep nest φ1.keep = some S) ∧
      (∀ c ∈ F.srcCols, c ∈ F1.srcCols) ∧ (∀ k, F1.index = some k → F.index = some k ∨ hasPP k = false) ∧
      RowsRep senv C F1 ∧ (mpos frs n fr.subject = 0 → Clean F → Clean F1) := by
  unfold subjectStep
  cases hsub : fr.subject with
  | term tm =>
    have hnq : ¬ (toRule fr).subjectMapType = .quoted := by
      rw [toRule_subject_quoted_iff]; rintro ⟨id, conds, h⟩; rw [hsub] at h; cases h
    simp only [hnq, ↓reduceIte, pure, Except.pure]
    refine ⟨F, rfl, ?_, ?_, fun c hc => hc, fun k hk => .inl hk, hrows, fun _ h => h⟩
    · intro φ1 hφ1
      exact ⟨φ1, hφ1, Ext.refl _ _, fun id conds h => by cases h⟩
    · intro φ hφ ρ _ S _
      exact ⟨φ, hφ, Ext.refl _ _, fun id conds h => by cases h⟩
  | quoted id conds =>
    have hq' : (toRule fr).subjectMapType = .quoted := by rw [toRule_subject_quoted_iff]; exact ⟨id, conds, hsub⟩
    have hv : (toRule fr).subjectMapValue = id := by rw [toRule_subjectMapValue, hsub, posOf_quoted]
    have hj : (toRule fr).subjectJoin = conds := by rw [toRule_subjectJoin, hsub, posOf_quoted]
    simp only [hq', ↓reduceIte, hv, hj]
    obtain ⟨q, hq, hqok⟩ := hpos id conds hsub
    rw [hsub] at hloc hC hclean
    obtain ⟨Fq, hFq, hpost, hcl, hrep⟩ := quotedStep_post frs n hpass hfresh setSubject (·.subject) setGet_subject id conds q hq hqok
      hloc C nest F hC hcols hrows hclean
    rw [hFq, bind_ok]
    simp only [pure, Except.pure]
    refine ⟨_, rfl, ?_, ?_, ?_, ?_, ?_, ?_⟩
    · intro φ1 hφ1
      simp only [keepSubject, Frame.addScratch, Frame.mapRows, List.mem_map] at hφ1
      obtain ⟨ψ, hψ, rfl⟩ := hφ1
      obtain ⟨φ, hφ, hext, x, hx, hsem⟩ := hpost.sound ψ hψ
      refine ⟨φ, hφ, ⟨hext.1, fun k hk => ?_⟩, fun id' conds' _ => ⟨x, hx, ?_, hsem⟩⟩
      · show lookupKeep k (setKeep (keepKey nest) ψ.subject ψ.keep) = _
        rw [keepKey_eq, lookupKeep_setKeep_ne nest k (Nat.ne_of_lt hk)]
        exact hext.2 k (Nat.lt_succ_of_lt hk)
      · show lookupKeep nest (setKeep (keepKey nest) ψ.subject ψ.keep) = _
        rw [keepKey_eq, hx, lookupKeep_setKeep_same]
    · intro φ hφ ρ hρ S hS
      obtain ⟨ψ, hψ, hext, hx⟩ := hpost.complete φ hφ ρ hρ S hS
      refine ⟨{ ψ with keep := setKeep (keepKey nest) ψ.subject ψ.keep }, ?_, ⟨hext.1, fun k hk => ?_⟩, fun id' conds' _ => ⟨hx, ?_⟩⟩
      · simp only [keepSubject, Frame.addScratch, Frame.mapRows, List.mem_map]
        exact ⟨ψ, hψ, rfl⟩
      · show lookupKeep k (setKeep (keepKey nest) ψ.subject ψ.keep) = _
        rw [keepKey_eq, lookupKeep_setKeep_ne nest k (Nat.ne_of_lt hk)]
        exact hext.2 k (Nat.lt_succ_of_lt hk)
      · show lookupKeep nest (setKeep (keepKey nest) ψ.subject ψ.keep) = _
        rw [keepKey_eq, hx, lookupKeep_setKeep_same]
    · intro c hc; exact hpost.cols c hc
    · intro k hk; exact hpost.idx k hk
    · intro φ1 hφ1
      simp only [keepSubject, Frame.addScratch, Frame.mapRows, List.mem_map] at hφ1
      obtain ⟨ψ, hψ, rfl⟩ := hφ1
      exact hrep ψ hψ
    · intro h0 hcF
      have hc1 := hcl h0 hcF
      have : Clean ((Fq.mapRows fun φ => { φ with keep := setKeep (keepKey nest) φ.subject φ.keep }).addScratch [keepName nest]) :=
        clean_addScratch _ ⟨hc1.1, hc1.2⟩ (fun x hx => by simp only [List.mem_singleton] at hx; subst hx; exact hasPP_keepName nest)
      exact this

/-- **The object block.** -/
theorem objectStep_post {env : Env} {senv : SEnv} (frs : List FlatRule) (n : Nat)
    (hpass : PassClaim env senv frs n) (hfresh : FreshClaim env senv frs n) (fr : FlatRule)
    (hpos : ∀ id conds, fr.object = .quoted id conds → ∃ q, findFlat frs id = some q ∧ okAt senv frs n q = true)
    (hloc : posLocal senv frs (n + 1) fr.object = true) (C : List Str) (nest : Nat) (F1 : Frame)
    (hC : ∀ c ∈ qrefs frs (n + 1) fr.object ++ joinKeys fr.object, c ∈ C)
    (hcols : ∀ c ∈ C, c ∈ F1.srcCols) (hrows : RowsRep senv C F1) (hclean : mpos frs n fr.object = 1 → Clean F1)
    (hK : ∀ φ1 ∈ F1.rows, SubjQuoted fr → φ1.subject = lookupKeep nest φ1.keep) :
    ∃ F2, objectStep (frs.map toRule) (evalStar env (frs.map toRule) (n + 1)) (toRule fr) nest F1 = .ok F2 ∧
      (∀ φ2 ∈ F2.rows, ∃ φ1 ∈ F1.rows, Ext nest φ1 φ2 ∧ (SubjQuoted fr → φ2.subject = φ1.subject) ∧
        ∀ id conds, fr.object = .quoted id conds →
          ∃ O, φ2.object = some O ∧ ∀ ρ, Rep senv.na C φ1.src ρ → O ∈ flatPos senv frs (n + 1) ρ fr.object) ∧
      (∀ φ1 ∈ F1.rows, ∀ ρ, Rep senv.na C φ1.src ρ → ∀ O ∈ flatPos senv frs (n + 1) ρ fr.object,
        ∃ φ2 ∈ F2.rows, Ext nest φ1 φ2 ∧ (SubjQuoted fr → φ2.subject = φ1.subject) ∧
          ∀ id conds, fr.object = .quoted id conds → φ2.object = some O) ∧
      (∀ c ∈ F1.srcCols, c ∈ F2.srcCols) ∧ (∀ k, F2.index = some k → F1.index = some k ∨ hasPP k = false) ∧
      (mpos frs n fr.object = 0 → Clean F1 → Clean F2) := by
  unfold objectStep
  cases hobj : fr.object with
  | term tm =>
    have hnq : ¬ (toRule fr).objectMapType = .quoted := by
      rw [toRule_object_quoted_iff]; rintro ⟨id, conds, h⟩; rw [hobj] at h; cases h
    simp only [hnq, ↓reduceIte, pure, Except.pure]
    refine ⟨F1, rfl, ?_, ?_, fun c hc => hc, fun k hk => .inl hk, fun _ h => h⟩
    · intro φ2 hφ2
      exact ⟨φ2, hφ2, Ext.refl _ _, fun _ => rfl, fun id conds h => by cases h⟩
    · intro φ1 hφ1 ρ _ O _
      exact ⟨φ1, hφ1, Ext.refl _ _, fun _ => rfl, fun id conds h => by cases h⟩
  | quoted id conds =>
    have hq' : (toRule fr).objectMapType = .quoted := by rw [toRule_object_quoted_iff]; exact ⟨id, conds, hobj⟩
    have hv : (toRule fr).objectMapValue = id := by rw [toRule_objectMapValue, hobj, posOf_quoted]
    have hj : (toRule fr).objectJoin = conds := by rw [toRule_objectJoin, hobj, posOf_quoted]
    simp only [hq', ↓reduceIte, hv, hj]
    obtain ⟨q, hq, hqok⟩ := hpos id conds hobj
    rw [hobj] at hloc hC hclean
    obtain ⟨Fq, hFq, hpost, hcl, _⟩ := quotedStep_post frs n hpass hfresh setObject (·.object) setGet_object id conds q hq hqok
      hloc C nest F1 hC hcols hrows hclean
    rw [hFq, bind_ok]
    simp only [pure, Except.pure]
    by_cases hsq : (toRule fr).subjectMapType = .quoted
    · have hSQ : SubjQuoted fr := (toRule_subject_quoted_iff fr).mp hsq
      simp only [hsq, ↓reduceIte, restoreSubject, subjectRestored_eq]
      refine ⟨_, rfl, ?_, ?_, ?_, ?_, ?_⟩
      · intro φ2 hφ2
        simp only [Frame.mapRows, List.mem_map] at hφ2
        obtain ⟨ψ, hψ, rfl⟩ := hφ2
        obtain ⟨φ1, hφ1, hext, x, hx, hsem⟩ := hpost.sound ψ hψ
        refine ⟨φ1, hφ1, ⟨hext.1, fun k hk => hext.2 k (Nat.lt_succ_of_lt hk)⟩, fun _ => ?_, fun id' conds' _ => ⟨x, hx, hsem⟩⟩
        show lookupKeep (keepKey nest) ψ.keep = φ1.subject
        rw [keepKey_eq, hext.2 nest (Nat.lt_succ_self nest), ← hK φ1 hφ1 hSQ]
      · intro φ1 hφ1 ρ hρ O hO
        obtain ⟨ψ, hψ, hext, hx⟩ := hpost.complete φ1 hφ1 ρ hρ O hO
        refine ⟨{ ψ with subject := lookupKeep (keepKey nest) ψ.keep }, ?_,
          ⟨hext.1, fun k hk => hext.2 k (Nat.lt_succ_of_lt hk)⟩, fun _ => ?_, fun id' conds' _ => hx⟩
        · simp only [Frame.mapRows, List.mem_map]; exact ⟨ψ, hψ, rfl⟩
        · show lookupKeep (keepKey nest) ψ.keep = φ1.subject
          rw [keepKey_eq, hext.2 nest (Nat.lt_succ_self nest), ← hK φ1 hφ1 hSQ]
      · intro c hc; exact hpost.cols c hc
      · intro k hk; exact hpost.idx k hk
      · intro h0 hcF
        have hc1 := hcl h0 hcF
        exact ⟨hc1.1, hc1.2⟩
    · have hSQ : ¬ SubjQuoted fr := fun h => hsq ((toRule_subject_quoted_iff fr).mpr h)
      simp only [hsq, ↓reduceIte]
      refine ⟨_, rfl, ?_, ?_, hpost.cols, hpost.idx, hcl⟩
      · intro φ2 hφ2
        obtain ⟨φ1, hφ1, hext, x, hx, hsem⟩ := hpost.sound φ2 hφ2
        exact ⟨φ1, hφ1, ⟨hext.1, fun k hk => hext.2 k (Nat.lt_succ_of_lt hk)⟩, fun h => absurd h hSQ, fun id' conds' _ => ⟨x, hx, hsem⟩⟩
      · intro φ1 hφ1 ρ hρ O hO
        obtain ⟨ψ, hψ, hext, hx⟩ := hpost.complete φ1 hφ1 ρ hρ O hO
        exact ⟨ψ, hψ, ⟨hext.1, fun k hk => hext.2 k (Nat.lt_succ_of_lt hk)⟩, fun h => absurd h hSQ, fun id' conds' _ => hx⟩

end Model.Star
