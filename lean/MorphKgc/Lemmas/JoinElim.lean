/-
C07 helper lemmas (4): term construction only reads the columns the term map refers to; consequences for the merged row.
-/
import MorphKgc.Lemmas.JoinRule

namespace Model
open Py Spec

theorem templateLoop_congr (cfg : TermCfg) (isT : Bool) (tt : Option TermType) (dt : Str) (row1 row2 : Str → Option Str)
    (refs : List Str) (h : ∀ r ∈ refs, row1 r = row2 r) (tpl acc : Str) :
    templateLoop cfg isT tt dt row1 refs tpl acc = templateLoop cfg isT tt dt row2 refs tpl acc := by
  induction refs generalizing tpl acc with
  | nil => rfl
  | cons r refs ih =>
    unfold templateLoop
    rw [h r (by simp)]
    cases row2 r with
    | none => rfl
    | some v => exact ih (fun r' hr' => h r' (List.mem_cons_of_mem _ hr')) _ _

/-- the column names `_materialize_template` looks up for a term map -/
def loopRefs (kind : MapType) (value : Str) : List Str :=
  getReferencesInTemplate (if kind = .reference then ['{'] ++ value ++ ['}'] else value)

theorem materializeTemplate_congr (cfg : TermCfg) (kind : MapType) (value : Str) (tt : Option TermType) (dt a1 a2 : Str)
    (row1 row2 : Str → Option Str) (h : ∀ c ∈ loopRefs kind value, row1 (a1 ++ c) = row2 (a2 ++ c)) :
    materializeTemplate cfg kind value tt dt a1 row1 = materializeTemplate cfg kind value tt dt a2 row2 := by
  unfold materializeTemplate
  unfold loopRefs at h
  simp only
  rw [templateLoop_congr cfg _ tt dt (fun r => row1 (a1 ++ r)) (fun r => row2 (a2 ++ r)) _ h]

/-- the term maps of a rule evaluated on the rule's own row: subject, predicate, graph, language / datatype -/
def ownMaps (r : Rule) : List (MapType × Str) :=
  [(r.subjectMapType, r.subjectMapValue), (r.predicateMapType, r.predicateMapValue), (r.graphMapType, r.graphMapValue)] ++
  (match r.langDatatypeMapType with | some mt => [(mt, r.langDatatypeMapValue)] | none => [])

/-- `rowTriple` depends on the row only through the columns its term maps look up -/
theorem rowTriple_congr (env : Env) (r : Rule) (ok : MapType) (ov a a' : Str) (σ σ' : SRow)
    (hown : ∀ m ∈ ownMaps r, ∀ c ∈ loopRefs m.1 m.2, lookup c σ = lookup c σ')
    (hobj : ∀ c ∈ loopRefs ok ov, lookup (a ++ c) σ = lookup (a' ++ c) σ') :
    rowTriple env r ok ov a σ = rowTriple env r ok ov a' σ' := by
  have hs := materializeTemplate_congr env.cfg r.subjectMapType r.subjectMapValue (some r.subjectTermtype) [] [] []
    (fun c => lookup c σ) (fun c => lookup c σ') (hown (r.subjectMapType, r.subjectMapValue) (by simp [ownMaps]))
  have hp := materializeTemplate_congr env.cfg r.predicateMapType r.predicateMapValue (some .iri) [] [] []
    (fun c => lookup c σ) (fun c => lookup c σ') (hown (r.predicateMapType, r.predicateMapValue) (by simp [ownMaps]))
  have hg := materializeTemplate_congr env.cfg r.graphMapType r.graphMapValue (some .iri) [] [] []
    (fun c => lookup c σ) (fun c => lookup c σ') (hown (r.graphMapType, r.graphMapValue) (by simp [ownMaps]))
  have ho := materializeTemplate_congr env.cfg ok ov (some r.objectTermtype) (litDatatype r) a a'
    (fun c => lookup c σ) (fun c => lookup c σ') hobj
  have hl : ∀ mt, r.langDatatypeMapType = some mt → ∀ tt,
      materializeTemplate env.cfg mt r.langDatatypeMapValue tt [] [] (fun c => lookup c σ) =
      materializeTemplate env.cfg mt r.langDatatypeMapValue tt [] [] (fun c => lookup c σ') := by
    intro mt hmt tt
    exact materializeTemplate_congr env.cfg mt r.langDatatypeMapValue tt [] [] [] _ _ (hown (mt, r.langDatatypeMapValue) (by simp [ownMaps, hmt]))
  unfold rowTriple
  dsimp only
  rw [hs, hp, ho]
  cases hmt : r.langDatatypeMapType with
  | none =>
    cases hld : r.langDatatype with
    | none => cases hf : env.fmt <;> simp only [hg]
    | some ld => cases ld <;> cases hf : env.fmt <;> simp only [hg]
  | some mt =>
    cases hld : r.langDatatype with
    | none => cases hf : env.fmt <;> simp only [hg]
    | some ld => cases ld <;> cases hf : env.fmt <;> simp only [hl mt hmt, hg]

/-- `rowTriple` does not read the object map type / value / join conditions stored in the rule -/
theorem rowTriple_object_fields (env : Env) (r : Rule) (omt : MapType) (omv : Str) (oj : List (Str × Str))
    (ok : MapType) (ov a : Str) (σ : SRow) :
    rowTriple env { r with objectMapType := omt, objectMapValue := omv, objectJoin := oj } ok ov a σ = rowTriple env r ok ov a σ := rfl

end Model
