/-
C13, helper lemmas X: `finish` on the frame the subject and object blocks have prepared.
-/
import MorphKgc.Lemmas.StarStep

namespace Model.Star
open Py Model Spec Spec.Star

theorem colsRead_sub_ownRefs {dg : Str} (env : Env) (fr : FlatRule) (hwf : FlatWF dg fr = true) :
    ∀ c ∈ colsRead env (toRule fr) (toRule fr).objectMapType (toRule fr).objectMapValue [], c ∈ ownRefs fr := by
  obtain ⟨hs, hp, ho, hg⟩ := FlatWF_parts hwf
  have hsw : ∀ tm, fr.subject = .term tm → WFTermMap tm = true := fun tm e => by
    have := hs tm e; simp only [SubjOK, Bool.and_eq_true] at this; exact this.1
  have how : ∀ tm, fr.object = .term tm → WFTermMap tm = true := fun tm e => by
    have := ho tm e; simp only [ObjOK, Bool.and_eq_true] at this; exact this.1
  have hpw : WFTermMap fr.pred = true := by simp only [PredOK, Bool.and_eq_true] at hp; exact hp.1
  have hgw : WFTermMap fr.graph = true := by simp only [GraphOK, Bool.and_eq_true] at hg; exact hg.1.1
  intro c hc
  unfold colsRead at hc
  simp only [List.mem_append] at hc
  simp only [ownRefs, List.mem_append]
  rcases hc with (((hc | hc) | hc) | hc) | hc
  · left; left; left
    split at hc
    · have : refsOfMap (toRule fr).subjectMapType (toRule fr).subjectMapValue = posRefs fr.subject := posOf_refs _ hsw
      rw [this] at hc; exact hc
    · cases hc
  · left; left; right
    split at hc
    · have : refsOfMap (toRule fr).predicateMapType (toRule fr).predicateMapValue = tmRefs fr.pred := refsOfMap_mapOf _ hpw
      rw [this] at hc; exact hc
    · cases hc
  · left; right
    split at hc
    · have : refsOfMap (toRule fr).objectMapType (toRule fr).objectMapValue = posRefs fr.object := posOf_refs _ how
      rw [this] at hc
      simpa using hc
    · cases hc
  · exfalso
    have hl := objLang_refs fr.object
    have h1 : (toRule fr).langDatatypeMapType = (objLang fr.object).2.1 := rfl
    have h2 : (toRule fr).langDatatypeMapValue = (objLang fr.object).2.2 := rfl
    rw [h1, h2] at hc
    split at hc
    · rename_i x mt hx hmt
      rw [hmt] at hl
      simp only at hl
      rw [hl] at hc
      cases hc
    · cases hc
  · right
    have : refsOfMap (toRule fr).graphMapType (toRule fr).graphMapValue = tmRefs fr.graph := refsOfMap_mapOf _ hgw
    split at hc
    · cases hc
    · split at hc
      · rw [this] at hc; exact hc
      · cases hc

/-- the subject / object columns of a prepared row are terms of the positions, for the source rows the origin row stands for -/
def Prepared (senv : SEnv) (frs : List FlatRule) (C : List Str) (N : Nat) (fr : FlatRule) (φ φ2 : FRow) : Prop :=
  (∀ id conds, fr.subject = .quoted id conds → ∃ S, φ2.subject = some S ∧ ∀ ρ, Rep senv.na C φ.src ρ → S ∈ flatPos senv frs N ρ fr.subject) ∧
  (∀ id conds, fr.object = .quoted id conds → ∃ O, φ2.object = some O ∧ ∀ ρ, Rep senv.na C φ.src ρ → O ∈ flatPos senv frs N ρ fr.object)

/-- **Terms and triple.** -/
theorem finish_post {env : Env} {senv : SEnv} (henv : EnvOK env senv) (frs : List FlatRule) (N : Nat) (fr : FlatRule)
    (hwf : FlatWF senv.defaultGraph fr = true) (nest : Nat) (F F2 : Frame)
    (h1 : ∀ φ2 ∈ F2.rows, ∃ φ ∈ F.rows, Ext nest φ φ2 ∧ Prepared senv frs (frefs frs (N + 1) fr) N fr φ φ2)
    (h2 : ∀ φ ∈ F.rows, ∀ ρ, Rep senv.na (frefs frs (N + 1) fr) φ.src ρ →
      ∀ S ∈ flatPos senv frs N ρ fr.subject, ∀ O ∈ flatPos senv frs N ρ fr.object,
        ∃ φ2 ∈ F2.rows, Ext nest φ φ2 ∧ (∀ id conds, fr.subject = .quoted id conds → φ2.subject = some S) ∧
          (∀ id conds, fr.object = .quoted id conds → φ2.object = some O))
    (hcols2 : ∀ c ∈ frefs frs (N + 1) fr, c ∈ F2.srcCols) (hrows : RowsRep senv (frefs frs (N + 1) fr) F) :
    ∃ F', finish env (toRule fr) nest (toRule fr).objectMapType (toRule fr).objectMapValue [] F2 = .ok F' ∧
      (∀ φ' ∈ F'.rows, ∃ φ ∈ F.rows, Ext nest φ φ' ∧ ∃ t, φ'.triple = some t ∧
        ∀ ρ, Rep senv.na (frefs frs (N + 1) fr) φ.src ρ → t ∈ flatAt senv frs nest (N + 1) fr ρ) ∧
      (∀ φ ∈ F.rows, ∀ ρ, Rep senv.na (frefs frs (N + 1) fr) φ.src ρ → ∀ t ∈ flatAt senv frs nest (N + 1) fr ρ,
        ∃ φ' ∈ F'.rows, Ext nest φ φ' ∧ φ'.triple = some t) ∧
      F'.srcCols = F2.srcCols ∧ F'.index = F2.index ∧ (∀ n ∈ F'.scratch, n ∈ F2.scratch ∨ n ∈ finishNames) := by
  let C := frefs frs (N + 1) fr
  have hown : ∀ c ∈ ownRefs fr, c ∈ C := ownRefs_sub_frefs frs N fr hwf
  -- one prepared row, for a source row its origin stands for
  have hline : ∀ φ2 ∈ F2.rows, ∀ φ, Ext nest φ φ2 → Prepared senv frs C N fr φ φ2 → ∀ ρ, Rep senv.na C φ.src ρ →
      ∃ s p o g, posVal senv fr.subject ρ φ2.subject = some s ∧ genTerm senv.safe senv.na fr.pred ρ = some p ∧
        posVal senv fr.object ρ φ2.object = some o ∧ graphTerms senv [fr.graph] ρ = [g] ∧
        lineOf (envAt env nest) (toRule fr) (toRule fr).objectMapType (toRule fr).objectMapValue [] φ2
          = .ok (stmtAt senv nest s p o g) := by
    intro φ2 _ φ hext hprep ρ hρ
    apply line_refines henv fr hwf nest ρ φ2 ((Rep.ext hρ hext).mono hown)
    · intro id conds hs
      obtain ⟨S, hS, _⟩ := hprep.1 id conds hs
      simp [hS]
    · intro id conds ho
      obtain ⟨O, hO, _⟩ := hprep.2 id conds ho
      simp [hO]
  let g : FRow → Str := fun φ2 =>
    match lineOf (envAt env nest) (toRule fr) (toRule fr).objectMapType (toRule fr).objectMapValue [] φ2 with
    | .ok t => t
    | .error _ => []
  have hg : ∀ φ2 ∈ F2.rows, lineOf (envAt env nest) (toRule fr) (toRule fr).objectMapType (toRule fr).objectMapValue [] φ2
      = .ok (g φ2) := by
    intro φ2 hφ2
    obtain ⟨φ, hφ, hext, hprep⟩ := h1 φ2 hφ2
    obtain ⟨ρ, hρ⟩ := hrows φ hφ
    obtain ⟨s, p, o, gg, _, _, _, _, hl⟩ := hline φ2 hφ2 φ hext hprep ρ hρ
    simp only [g, hl]
  obtain ⟨F', hF', hrowsF', hsc, hix, hscr⟩ := finish_ok env (toRule fr) nest _ _ [] F2 g
    (fun c hc => hcols2 c (hown c (colsRead_sub_ownRefs _ fr hwf c hc))) hg
  refine ⟨F', hF', ?_, ?_, hsc, hix, hscr⟩
  · intro φ' hφ'
    rw [hrowsF'] at hφ'
    obtain ⟨φ2, hφ2, rfl⟩ := List.mem_map.mp hφ'
    obtain ⟨φ, hφ, hext, hprep⟩ := h1 φ2 hφ2
    refine ⟨φ, hφ, ⟨hext.1, hext.2⟩, g φ2, rfl, ?_⟩
    intro ρ hρ
    obtain ⟨s, p, o, gg, hs, hp, ho, hgt, hl⟩ := hline φ2 hφ2 φ hext hprep ρ hρ
    have hgeq : g φ2 = stmtAt senv nest s p o gg := by simp only [g, hl]
    rw [hgeq, mem_flatAt]
    refine ⟨s, ?_, p, hp, o, ?_, gg, by simp [hgt], rfl⟩
    · cases hsub : fr.subject with
      | term tm => rw [hsub] at hs; simpa [posVal, mem_flatPos_term] using hs
      | quoted id conds =>
        obtain ⟨S, hS, hSm⟩ := hprep.1 id conds hsub
        rw [hsub] at hs
        simp only [posVal, hS, Option.some.injEq] at hs
        subst hs
        rw [← hsub]; exact hSm ρ hρ
    · cases hobj : fr.object with
      | term tm => rw [hobj] at ho; simpa [posVal, mem_flatPos_term] using ho
      | quoted id conds =>
        obtain ⟨O, hO, hOm⟩ := hprep.2 id conds hobj
        rw [hobj] at ho
        simp only [posVal, hO, Option.some.injEq] at ho
        subst ho
        rw [← hobj]; exact hOm ρ hρ
  · intro φ hφ ρ hρ t ht
    obtain ⟨s, hs, p, hp, o, ho, gg, hgg, rfl⟩ := (mem_flatAt senv frs nest N fr ρ t).mp ht
    obtain ⟨φ2, hφ2, hext, hsq, hoq⟩ := h2 φ hφ ρ hρ s hs o ho
    obtain ⟨φ0, hφ0, hext0, hprep0⟩ := h1 φ2 hφ2
    refine ⟨{ φ2 with triple := some (g φ2), subject := none, object := none }, ?_, ⟨hext.1, hext.2⟩, ?_⟩
    · rw [hrowsF']; exact List.mem_map.mpr ⟨φ2, hφ2, rfl⟩
    · -- the line of this row, computed for ρ through the row itself
      have hρ2 : Rep senv.na C φ2.src ρ := Rep.ext hρ hext
      obtain ⟨s', p', o', g', hs', hp', ho', hgt', hl'⟩ := line_refines henv fr hwf nest ρ φ2 (hρ2.mono hown)
        (fun id conds h => by simp [hsq id conds h]) (fun id conds h => by simp [hoq id conds h])
      have hgeq : g φ2 = stmtAt senv nest s' p' o' g' := by simp only [g, hl']
      have e1 : s' = s := by
        cases hsub : fr.subject with
        | term tm =>
          rw [hsub] at hs hs'
          rw [mem_flatPos_term] at hs
          simp only [posVal, hs, Option.some.injEq] at hs'
          exact hs'.symm
        | quoted id conds =>
          rw [hsub] at hs'
          simp only [posVal, hsq id conds hsub, Option.some.injEq] at hs'
          exact hs'.symm
      have e2 : o' = o := by
        cases hobj : fr.object with
        | term tm =>
          rw [hobj] at ho ho'
          rw [mem_flatPos_term] at ho
          simp only [posVal, ho, Option.some.injEq] at ho'
          exact ho'.symm
        | quoted id conds =>
          rw [hobj] at ho'
          simp only [posVal, hoq id conds hobj, Option.some.injEq] at ho'
          exact ho'.symm
      have e3 : p' = p := by rw [hp] at hp'; exact (Option.some.inj hp').symm
      have e4 : g' = gg := by
        rw [hgt'] at hgg
        simp only [List.mem_singleton] at hgg
        exact hgg.symm
      simp only [hgeq, e1, e2, e3, e4]

end Model.Star
