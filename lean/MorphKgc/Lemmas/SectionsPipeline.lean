/-
C12: `parseMappings` for the call sequences that occur (as it is / with the validation moved before the renumbering);
the duplicate-identifier check characterised; the raw table of a configuration = the raw table of its document.
-/
import MorphKgc.Lemmas.SectionsRenumber

namespace Model.Sections
open Py Spec Model

/-! ### call sequences up to the steps that are the identity in this model -/

def relevantStep : Step → Bool
  | .inferDatatypes => false
  | _ => true

def relevantP : PStep → Bool
  | .dropDuplicates | .normalizeRmlStar | .removeSelfJoins => true
  | _ => false

theorem runSteps_filter (g : Bool) (porder : List PStep) (cfg : Config) (order : List Step) (rs : List Rule) :
    runSteps g porder cfg order rs = runSteps g porder cfg (order.filter relevantStep) rs := by
  induction order generalizing rs with
  | nil => rfl
  | cons s ss ih =>
    cases s <;> simp only [List.filter_cons, relevantStep, ↓reduceIte, runSteps, runStep] <;> try (first | exact ih _ | rfl)
    · split
      · exact ih _
      · rfl

theorem foldl_runP_filter (g : Bool) (porder : List PStep) (rs : List Rule) :
    preprocessRules g porder rs = preprocessRules g (porder.filter relevantP) rs := by
  unfold preprocessRules
  induction porder generalizing rs with
  | nil => rfl
  | cons s ss ih =>
    cases s <;> simp only [List.filter_cons, relevantP, ↓reduceIte, List.foldl_cons, runP] <;> exact ih _

/-- `_preprocess_mappings` as it is: drop duplicates, renumber, eliminate self-joins -/
def pre (g : Bool) (rs : List Rule) : List Rule :=
  (renumber g (dedupFirst rs)).map (eliminateSelfJoin (renumber g (dedupFirst rs)))

def porderStd : List PStep := [.dropDuplicates, .normalizeRmlStar, .removeSelfJoins]
/-- `parse_mappings` as it is: the validation comes last -/
def orderAsIs : List Step := [.getFromR2rml, .preprocess, .validate]
/-- the validation before the renumbering -/
def orderFixed : List Step := [.getFromR2rml, .validate, .preprocess]

theorem preprocessRules_std (g : Bool) (porder : List PStep) (h : porder.filter relevantP = porderStd) (rs : List Rule) :
    preprocessRules g porder rs = pre g rs := by
  rw [foldl_runP_filter, h]
  rfl

theorem parse_asIs (g : Bool) (order : List Step) (porder : List PStep) (ho : order.filter relevantStep = orderAsIs)
    (hp : porder.filter relevantP = porderStd) (cfg : Config) :
    parseMappings g order porder cfg =
      if dupIds (pre g (rawRules cfg)) = [] then .ok (pre g (rawRules cfg)) else .error (.dupTriplesMap (dupIds (pre g (rawRules cfg)))) := by
  unfold parseMappings
  rw [runSteps_filter, ho]
  simp only [orderAsIs, runSteps, runStep, preprocessRules_std g porder hp]
  by_cases h : dupIds (pre g (rawRules cfg)) = [] <;> simp [h]

theorem parse_fixed (g : Bool) (order : List Step) (porder : List PStep) (ho : order.filter relevantStep = orderFixed)
    (hp : porder.filter relevantP = porderStd) (cfg : Config) :
    parseMappings g order porder cfg =
      if dupIds (rawRules cfg) = [] then .ok (pre g (rawRules cfg)) else .error (.dupTriplesMap (dupIds (rawRules cfg))) := by
  unfold parseMappings
  rw [runSteps_filter, ho]
  simp only [orderFixed, runSteps, runStep, preprocessRules_std g porder hp]
  by_cases h : dupIds (rawRules cfg) = [] <;> simp [h]

/-! ### the duplicate check -/

theorem two_of_count {α β} [BEq β] [LawfulBEq β] (f : α → β) (x : β) (l : List α) (hn : l.Nodup) (h : 1 < (l.map f).count x) :
    ∃ a ∈ l, ∃ b ∈ l, a ≠ b ∧ f a = x ∧ f b = x := by
  induction l with
  | nil => simp at h
  | cons a l ih =>
    obtain ⟨hal, hn'⟩ := List.nodup_cons.mp hn
    rw [List.map_cons, List.count_cons] at h
    by_cases hfa : (f a == x) = true
    · have hpos : 0 < (l.map f).count x := by
        simp only [hfa, ↓reduceIte] at h
        omega
      obtain ⟨b, hb, hfb⟩ := List.mem_map.mp (List.count_pos_iff.mp hpos)
      exact ⟨a, by simp, b, List.mem_cons_of_mem _ hb, fun e => hal (e ▸ hb), eq_of_beq hfa, hfb⟩
    · have : 1 < (l.map f).count x := by
        simpa [hfa] using h
      obtain ⟨p, hp, q, hq, hne, e1, e2⟩ := ih hn' this
      exact ⟨p, List.mem_cons_of_mem _ hp, q, List.mem_cons_of_mem _ hq, hne, e1, e2⟩

theorem count_of_two {α β} [BEq β] [LawfulBEq β] (f : α → β) (l : List α) {a b : α} (ha : a ∈ l) (hb : b ∈ l) (hne : a ≠ b) (hf : f a = f b) :
    1 < (l.map f).count (f a) := by
  induction l with
  | nil => simp at ha
  | cons c l ih =>
    rw [List.map_cons, List.count_cons]
    rcases List.mem_cons.mp ha with rfl | ha'
    · rcases List.mem_cons.mp hb with rfl | hb'
      · exact absurd rfl hne
      · have : 0 < (l.map f).count (f a) := List.count_pos_iff.mpr (List.mem_map.mpr ⟨b, hb', hf.symm⟩)
        simp only [beq_self_eq_true, ↓reduceIte]
        omega
    · rcases List.mem_cons.mp hb with rfl | hb'
      · have : 0 < (l.map f).count (f a) := List.count_pos_iff.mpr (List.mem_map.mpr ⟨a, ha', rfl⟩)
        have e : (f b == f a) = true := by rw [hf]; exact beq_self_eq_true _
        simp only [e, ↓reduceIte]
        omega
      · have := ih ha' hb'
        split <;> omega

/-- **what `validate_mappings` detects**: two rules with the same identifier and different source names -/
theorem dupIds_ne_nil_iff (rs : List Rule) :
    dupIds rs ≠ [] ↔ ∃ r₁ ∈ rs, ∃ r₂ ∈ rs, r₁.tmId = r₂.tmId ∧ r₁.sourceName ≠ r₂.sourceName := by
  unfold dupIds repeated
  rw [Ne, dedupFirst_eq_nil, ← Ne, List.ne_nil_iff_exists_cons]
  constructor
  · rintro ⟨x, t, hxt⟩
    have hx : x ∈ List.filter (fun x => decide ((List.map (fun x => x.2) (dedupFirst (List.map (fun r => (r.sourceName, r.tmId)) rs))).count x > 1))
        (List.map (fun x => x.2) (dedupFirst (List.map (fun r => (r.sourceName, r.tmId)) rs))) := by rw [hxt]; simp
    simp only [List.mem_filter, decide_eq_true_eq] at hx
    obtain ⟨p, hp, q, hq, hne, e1, e2⟩ := two_of_count (fun x : Str × Str => x.2) x _ (nodup_dedupFirst _) hx.2
    rw [mem_dedupFirst, List.mem_map] at hp hq
    obtain ⟨r₁, hr₁, rfl⟩ := hp
    obtain ⟨r₂, hr₂, rfl⟩ := hq
    refine ⟨r₁, hr₁, r₂, hr₂, by simp only at e1 e2; rw [e1, e2], fun hs => hne ?_⟩
    simp only at e1 e2
    rw [hs, e1, e2]
  · rintro ⟨r₁, hr₁, r₂, hr₂, hid, hs⟩
    have h1 : (r₁.sourceName, r₁.tmId) ∈ dedupFirst (rs.map fun r => (r.sourceName, r.tmId)) :=
      (mem_dedupFirst _ _).mpr (List.mem_map.mpr ⟨r₁, hr₁, rfl⟩)
    have h2 : (r₂.sourceName, r₂.tmId) ∈ dedupFirst (rs.map fun r => (r.sourceName, r.tmId)) :=
      (mem_dedupFirst _ _).mpr (List.mem_map.mpr ⟨r₂, hr₂, rfl⟩)
    have hc := count_of_two (fun x : Str × Str => x.2) _ h1 h2 (fun e => hs (Prod.ext_iff.mp e).1) hid
    have hm : r₁.tmId ∈ List.filter (fun x => decide ((List.map (fun x => x.2) (dedupFirst (List.map (fun r => (r.sourceName, r.tmId)) rs))).count x > 1))
        (List.map (fun x => x.2) (dedupFirst (List.map (fun r => (r.sourceName, r.tmId)) rs))) := by
      simp only [List.mem_filter, decide_eq_true_eq]
      exact ⟨List.mem_map.mpr ⟨_, h1, rfl⟩, hc⟩
    cases hl : List.filter (fun x => decide ((List.map (fun x => x.2) (dedupFirst (List.map (fun r => (r.sourceName, r.tmId)) rs))).count x > 1))
        (List.map (fun x => x.2) (dedupFirst (List.map (fun r => (r.sourceName, r.tmId)) rs))) with
    | nil => rw [hl] at hm; simp at hm
    | cons x t => exact ⟨x, t, rfl⟩

/-! ### after the renumbering all identifiers are different -/

theorem mem_renumberFrom {g : Bool} {all rs : List Rule} {i : Nat} {r : Rule} (h : r ∈ renumberFrom g all i rs) :
    ∃ k, i ≤ k ∧ ∃ q, rs[k - i]? = some q ∧ r = renumberRule g all k q := by
  induction rs generalizing i with
  | nil => simp [renumberFrom] at h
  | cons q rs ih =>
    rw [renumberFrom] at h
    rcases List.mem_cons.mp h with rfl | h'
    · exact ⟨i, Nat.le_refl _, q, by simp, rfl⟩
    · obtain ⟨k, hk, q', hq', e⟩ := ih h'
      refine ⟨k, by omega, q', ?_, e⟩
      have : k - i = (k - (i + 1)) + 1 := by omega
      rw [this]
      simpa using hq'

/-- two rules of a renumbered table with the same identifier are the same rule -/
theorem renumber_tmId_inj {g : Bool} {R : List Rule} {r₁ r₂ : Rule} (h₁ : r₁ ∈ renumber g R) (h₂ : r₂ ∈ renumber g R)
    (h : r₁.tmId = r₂.tmId) : r₁ = r₂ := by
  obtain ⟨k₁, _, q₁, hq₁, rfl⟩ := mem_renumberFrom h₁
  obtain ⟨k₂, _, q₂, hq₂, rfl⟩ := mem_renumberFrom h₂
  have hk : k₁ = k₂ := tmName_inj h
  subst hk
  rw [hq₁] at hq₂
  cases hq₂
  rfl

/-- **the check can never fire after `_preprocess_mappings`** -/
theorem dupIds_pre (g : Bool) (rs : List Rule) : dupIds (pre g rs) = [] := by
  apply Classical.byContradiction
  intro hne
  obtain ⟨r₁, hr₁, r₂, hr₂, hid, hs⟩ := (dupIds_ne_nil_iff _).mp hne
  unfold pre at hr₁ hr₂
  obtain ⟨a₁, ha₁, rfl⟩ := List.mem_map.mp hr₁
  obtain ⟨a₂, ha₂, rfl⟩ := List.mem_map.mp hr₂
  rw [tmId_eliminateSelfJoin, tmId_eliminateSelfJoin] at hid
  have := renumber_tmId_inj ha₁ ha₂ hid
  subst this
  exact hs rfl

/-! ### the raw table of a configuration -/

theorem secRules_eq (s : Sec) : secRules s = rawOf (secDoc s) := rfl

theorem cfgDoc_eq (cfg : Config) : cfgDoc cfg = joinDocs (cfg.map secDoc) := by
  induction cfg with
  | nil => rfl
  | cons s ss ih =>
    simp only [List.map_cons, joinDocs, ← ih]
    rfl

theorem rawRules_eq (cfg : Config) : rawRules cfg = (cfg.map secDoc).flatMap rawOf := by
  unfold rawRules
  rw [List.flatMap_map]
  rfl

theorem rawOf_joinDocs (parts : List Doc) (hc : ∀ d ∈ parts, Closed d) (hd : parts.Pairwise DisjointIds) :
    rawOf (joinDocs parts) = parts.flatMap rawOf := by
  induction parts with
  | nil => rfl
  | cons d ds ih =>
    obtain ⟨hd1, hd2⟩ := List.pairwise_cons.mp hd
    have hcds : ∀ d' ∈ ds, Closed d' := fun d' h => hc d' (List.mem_cons_of_mem _ h)
    have hdis : DisjointIds d (joinDocs ds) := by
      intro x hx hx'
      obtain ⟨d', hd', hxd'⟩ := (ids_joinDocs ds x).mp hx'
      exact hd1 d' hd' x hx hxd'
    rw [joinDocs, rawOf_append_left (hc d (by simp)), flatMap_right_closed (closed_joinDocs hcds) hdis, ih hcds hd2,
      List.flatMap_cons]

end Model.Sections
