/-
C13, helper lemmas VII: `evalStar` one level unfolded, by branch.
-/
import MorphKgc.Lemmas.StarNull

namespace Model.Star
open Py Model Spec Spec.Star

theorem bind_ok {ε α β} (a : α) (f : α → Except ε β) : (Except.ok a >>= f) = f a := rfl

theorem evalStar_some_star (env : Env) (rules : List Rule) (m : Nat) (r : Rule) (F : Frame) (pjr : List Str) (nest : Nat)
    (refs0 : List Str) (hrefs : refsStar rules (m + 1) r = .ok refs0) (hnc : isAllConstant r = false) (hstar : isStar r = true) :
    evalStar env rules (m + 1) r (some F) pjr nest =
      (subjectStep rules (evalStar env rules m) r nest F >>= fun F1 =>
        objectStep rules (evalStar env rules m) r nest F1 >>= fun F2 =>
          finish env r nest r.objectMapType r.objectMapValue [] F2) := by
  unfold evalStar
  rw [hrefs]
  simp [hnc, hstar, frameOf, frameOfStar, pure, Except.pure, bind, Except.bind]

theorem evalStar_some_plain (env : Env) (rules : List Rule) (m : Nat) (r : Rule) (F : Frame) (pjr : List Str) (nest : Nat)
    (refs0 : List Str) (hrefs : refsStar rules (m + 1) r = .ok refs0) (hnc : isAllConstant r = false) (hstar : isStar r = false)
    (hp : r.objectMapType ≠ .parentTM) :
    evalStar env rules (m + 1) r (some F) pjr nest = finish env r nest r.objectMapType r.objectMapValue [] F := by
  unfold evalStar
  rw [hrefs]
  simp [hnc, hstar, hp, frameOf, pure, Except.pure, bind, Except.bind]

theorem evalStar_none (env : Env) (rules : List Rule) (m : Nat) (r : Rule) (pjr : List Str) (nest : Nat)
    (refs0 : List Str) (hrefs : refsStar rules (m + 1) r = .ok refs0) (hnc : isAllConstant r = false)
    (hp : r.objectMapType ≠ .parentTM) (hne : (refs0 ++ pjr).isEmpty = false) :
    evalStar env rules (m + 1) r none pjr nest =
      (getData env r (refs0 ++ pjr) >>= fun F0 => evalStar env rules (m + 1) r (some F0) [] nest) := by
  cases hg : getData env r (refs0 ++ pjr) with
  | error e =>
    unfold evalStar
    rw [hrefs]
    by_cases hstar : isStar r = true <;>
      simp [hnc, hstar, hp, frameOf, frameOfStar, hne, hg, bind, Except.bind]
  | ok F0 =>
    rw [bind_ok]
    by_cases hstar : isStar r = true
    · rw [evalStar_some_star env rules m r F0 [] nest refs0 hrefs hnc hstar]
      unfold evalStar
      rw [hrefs]
      simp [hnc, hstar, frameOf, frameOfStar, hne, hg, bind, Except.bind]
    · have hstar' : isStar r = false := by simpa using hstar
      rw [evalStar_some_plain env rules m r F0 [] nest refs0 hrefs hnc hstar' hp]
      unfold evalStar
      rw [hrefs]
      simp [hnc, hstar', hp, frameOf, frameOfStar, hne, hg, bind, Except.bind]

end Model.Star
