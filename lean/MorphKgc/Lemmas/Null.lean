/-
Helper lemmas for C06: `Model.preprocessG` as a pure function of the rows that survive, invariance under changes of
unreferenced cells, and the string algebra behind `_build_sql_query`.
-/
import MorphKgc.Model.NullSources
import MorphKgc.Lemmas.EvalRule

namespace Model
open Py

/-! ### the engine's NULL test, by statement order -/

/-- is the delivered cell treated as NULL by `_preprocess_data` of order `k`? -/
def cellNullG (k : PreKind) (na : List Str) : Cell → Bool
  | .str s => na.contains s
  | .null r => match k with
    | .strThenNa => na.contains r
    | .keepNullThenNa => true

/-- the property's notion: a NULL object, or a string listed in `na_values` -/
def isNullCell (na : List Str) : Cell → Bool
  | .str s => na.contains s
  | .null _ => true

/-- no referenced cell of the row is NULL for the engine -/
def survivesG (k : PreKind) (na : List Str) (refs : List Str) (ρ : Row) : Bool :=
  refs.all fun c => match lookup c ρ with | some cell => !cellNullG k na cell | none => true

/-- no referenced cell of the row is NULL for the property -/
def noNullRef (na : List Str) (refs : List Str) (ρ : Row) : Bool :=
  refs.all fun c => match lookup c ρ with | some cell => !isNullCell na cell | none => true

/-- scope of finding C06_F1 (and of C06_F3, its XML instance): the statement order is `map(str)` first and some referenced cell
    is a NULL object whose `str()` is not listed in `na_values` -/
def scope_C06_F1 (k : PreKind) (na : List Str) (refs : List Str) (t : Table) : Bool :=
  k = .strThenNa && t.any fun ρ => refs.any fun c => match lookup c ρ with | some (.null r) => !na.contains r | _ => false

theorem cellNullG_eq_isNullCell_of_not_scope {k : PreKind} {na refs : List Str} {t : Table}
    (h : scope_C06_F1 k na refs t = false) {ρ : Row} (hρ : ρ ∈ t) {c : Str} (hc : c ∈ refs) {cell : Cell}
    (hl : lookup c ρ = some cell) : cellNullG k na cell = isNullCell na cell := by
  cases cell with
  | str s => rfl
  | null r =>
    cases k with
    | keepNullThenNa => rfl
    | strThenNa =>
      simp only [scope_C06_F1, decide_true, Bool.true_and, List.any_eq_false] at h
      have := h ρ hρ
      simp only [List.any_eq_true, not_exists, not_and] at this
      have := this c hc
      simp only [hl] at this
      simp only [cellNullG, isNullCell]
      simpa using this

/-! ### `preprocessG` on complete tables -/

theorem Complete_filter {refs : List Str} {t : Table} (p : Row → Bool) (h : Complete refs t = true) :
    Complete refs (t.filter p) = true := by
  simp only [Complete, List.all_eq_true] at h ⊢
  intro ρ hρ
  exact h ρ ((List.mem_filter.mp hρ).1)

theorem cellStr_of_lookup {ρ : Row} {c : Str} {cell : Cell} (h : lookup c ρ = some cell) : cellStr ρ c = pyStr cell := by
  simp [cellStr, h]

/-- on a complete row, the NA filter of `Model.preprocess` is the survival test of order `strThenNa` -/
theorem good_projRow_iff (na refs : List Str) (ρ : Row) (hc : ∀ c ∈ refs, (lookup c ρ).isSome = true) :
    ((projRow (dedupFirst refs) ρ).all fun p => !na.contains p.2) = survivesG .strThenNa na refs ρ := by
  rw [Bool.eq_iff_iff]
  simp only [projRow, List.all_map, List.all_eq_true, survivesG, Function.comp]
  constructor
  · intro h c hcm
    have := h c (by simpa using hcm)
    obtain ⟨cell, hl⟩ := Option.isSome_iff_exists.mp (hc c hcm)
    rw [cellStr_of_lookup hl] at this
    simp only [hl]
    cases cell <;> simpa [cellNullG, pyStr] using this
  · intro h c hcm
    have hcm' : c ∈ refs := by simpa using hcm
    have := h c hcm'
    obtain ⟨cell, hl⟩ := Option.isSome_iff_exists.mp (hc c hcm')
    rw [cellStr_of_lookup hl]
    simp only [hl] at this
    cases cell <;> simpa [cellNullG, pyStr] using this

theorem filter_map_good (na refs : List Str) (t : Table) (h : Complete refs t = true) :
    (t.map (projRow (dedupFirst refs))).filter (fun σ => σ.all fun p => !na.contains p.2) =
      (t.filter (survivesG .strThenNa na refs)).map (projRow (dedupFirst refs)) := by
  induction t with
  | nil => rfl
  | cons ρ t ih =>
    have hρ : ∀ c ∈ refs, (lookup c ρ).isSome = true := by
      simp only [Complete, List.all_cons, Bool.and_eq_true, List.all_eq_true] at h
      exact h.1
    have ht : Complete refs t = true := by
      simp only [Complete, List.all_cons, Bool.and_eq_true] at h
      exact h.2
    simp only [List.map_cons, List.filter_cons, good_projRow_iff na refs ρ hρ, ih ht]
    split <;> simp

/-- survival under `keepNullThenNa` = no raw NULL and survival of the stringified row -/
theorem survives_keepNull (na refs : List Str) (ρ : Row) :
    survivesG .keepNullThenNa na refs ρ = (!rawNullIn refs ρ && survivesG .strThenNa na refs ρ) := by
  rw [Bool.eq_iff_iff]
  simp only [survivesG, rawNullIn, List.all_eq_true, Bool.and_eq_true, Bool.not_eq_true', List.any_eq_false]
  constructor
  · intro h
    refine ⟨fun c hc => ?_, fun c hc => ?_⟩
    · have := h c hc
      cases hl : lookup c ρ with
      | none => simp
      | some cell => cases cell <;> simp_all [cellNullG]
    · have := h c hc
      cases hl : lookup c ρ with
      | none => simp
      | some cell => cases cell <;> simp_all [cellNullG]
  · rintro ⟨h1, h2⟩ c hc
    have a := h1 c hc
    have b := h2 c hc
    cases hl : lookup c ρ with
    | none => simp
    | some cell => cases cell <;> simp_all [cellNullG]

/-- **`_preprocess_data` as a function of the surviving rows** (complete tables): project the rows none of whose referenced
    cells is NULL for the engine, in order, without duplicates -/
theorem preprocessG_eq (k : PreKind) (na refs : List Str) (t : Table) (h : Complete refs t = true) :
    preprocessG k na refs t = .ok (dedupFirst ((t.filter (survivesG k na refs)).map (projRow (dedupFirst refs)))) := by
  cases k with
  | strThenNa =>
    simp only [preprocessG]
    rw [preprocess_eq na refs t h, prepRows, filter_map_good na refs t h]
  | keepNullThenNa =>
    simp only [preprocessG]
    rw [preprocess_eq na refs _ (Complete_filter _ h), prepRows, filter_map_good na refs _ (Complete_filter _ h), List.filter_filter]
    congr 3
    apply List.filter_congr
    intro ρ _
    rw [survives_keepNull, Bool.and_comm]

/-! ### cells outside the references do not matter -/

/-- pointwise relation of two lists of the same length -/
inductive Forall2 {α} (R : α → α → Prop) : List α → List α → Prop
  | nil : Forall2 R [] []
  | cons {a b l l'} : R a b → Forall2 R l l' → Forall2 R (a :: l) (b :: l')

/-- the two rows agree on every referenced column -/
def agreeOn (refs : List Str) (ρ ρ' : Row) : Prop := ∀ c ∈ refs, lookup c ρ = lookup c ρ'

theorem mapM_congr_forall₂ {α β ε} (f : α → Except ε β) {l l' : List α} (h : Forall2 (fun a b => f a = f b) l l') :
    l.mapM f = l'.mapM f := by
  induction h with
  | nil => rfl
  | cons hab _ ih => rw [List.mapM_cons, List.mapM_cons, hab, ih]

theorem forall₂_filter {α} (R : α → α → Prop) (p : α → Bool) {l l' : List α} (h : Forall2 R l l')
    (hp : ∀ a b, R a b → p a = p b) : Forall2 R (l.filter p) (l'.filter p) := by
  induction h with
  | nil => exact .nil
  | @cons a b l l' hab _ ih =>
    simp only [List.filter_cons, hp a b hab]
    split
    · exact .cons hab ih
    · exact ih

theorem forall₂_imp' {α} {R S : α → α → Prop} {l l' : List α} (h : Forall2 R l l') (hRS : ∀ a b, R a b → S a b) :
    Forall2 S l l' := by
  induction h with
  | nil => exact .nil
  | cons hab _ ih => exact .cons (hRS _ _ hab) ih

theorem projectRow_congr {refs : List Str} {ρ ρ' : Row} (h : agreeOn refs ρ ρ') :
    projectRow (dedupFirst refs) ρ = projectRow (dedupFirst refs) ρ' := by
  unfold projectRow
  have : ∀ (l : List Str), (∀ c ∈ l, c ∈ refs) →
      (l.mapM fun c => match lookup c ρ with | some cell => Except.ok (c, pyStr cell) | none => Except.error (MatErr.keyError c)) =
      (l.mapM fun c => match lookup c ρ' with | some cell => Except.ok (c, pyStr cell) | none => Except.error (MatErr.keyError c)) := by
    intro l
    induction l with
    | nil => intro _; rfl
    | cons c l ih =>
      intro hl
      rw [List.mapM_cons, List.mapM_cons, h c (hl c (by simp)), ih (fun c hc => hl c (List.mem_cons_of_mem _ hc))]
  exact this _ (fun c hc => by simpa using hc)

theorem rawNullIn_congr {refs : List Str} {ρ ρ' : Row} (h : agreeOn refs ρ ρ') : rawNullIn refs ρ = rawNullIn refs ρ' := by
  unfold rawNullIn
  rw [Bool.eq_iff_iff]
  simp only [List.any_eq_true]
  constructor
  · rintro ⟨c, hc, hx⟩; exact ⟨c, hc, by rw [← h c hc]; exact hx⟩
  · rintro ⟨c, hc, hx⟩; exact ⟨c, hc, by rw [h c hc]; exact hx⟩

theorem preprocess_congr (na refs : List Str) {t t' : Table} (h : Forall2 (agreeOn refs) t t') :
    preprocess na refs t = preprocess na refs t' := by
  unfold preprocess
  have : t.mapM (projectRow (dedupFirst refs)) = t'.mapM (projectRow (dedupFirst refs)) :=
    mapM_congr_forall₂ _ (forall₂_imp' h fun _ _ hab => projectRow_congr hab)
  simp only [this]

theorem preprocessG_congr (k : PreKind) (na refs : List Str) {t t' : Table} (h : Forall2 (agreeOn refs) t t') :
    preprocessG k na refs t = preprocessG k na refs t' := by
  cases k with
  | strThenNa => exact preprocess_congr na refs h
  | keepNullThenNa =>
    exact preprocess_congr na refs (forall₂_filter _ _ h fun a b hab => by rw [rawNullIn_congr hab])

/-- overwrite (or add) the cell of column `c` -/
def setCell (c : Str) (v : Cell) (ρ : Row) : Row := (c, v) :: ρ.filter fun kv => kv.1 ≠ c

/-- delete column `c` from the row -/
def dropCell (c : Str) (ρ : Row) : Row := ρ.filter fun kv => kv.1 ≠ c

theorem lookup_filter_ne {β} (c c' : Str) (l : List (Str × β)) (h : c' ≠ c) :
    lookup c' (l.filter fun kv => kv.1 ≠ c) = lookup c' l := by
  induction l with
  | nil => rfl
  | cons a l ih =>
    obtain ⟨a1, a2⟩ := a
    by_cases e : a1 = c <;> by_cases e' : a1 = c' <;> simp_all [List.filter_cons, lookup]

theorem agreeOn_setCell (refs : List Str) (c : Str) (v : Cell) (ρ : Row) (hc : c ∉ refs) : agreeOn refs (setCell c v ρ) ρ := by
  intro c' hc'
  have hne : c' ≠ c := fun e => hc (e ▸ hc')
  have : ¬ c = c' := fun e => hne e.symm
  have h2 := lookup_filter_ne c c' ρ hne
  simp only [setCell, lookup, this, ↓reduceIte]
  exact h2

theorem agreeOn_dropCell (refs : List Str) (c : Str) (ρ : Row) (hc : c ∉ refs) : agreeOn refs (dropCell c ρ) ρ := by
  intro c' hc'
  exact lookup_filter_ne c c' ρ (fun e => hc (e ▸ hc'))

theorem forall₂_map_left {α} (R : α → α → Prop) (f : α → α) (l : List α) (h : ∀ a, R (f a) a) : Forall2 R (l.map f) l := by
  induction l with
  | nil => exact .nil
  | cons a l ih => exact .cons (h a) ih

/-! ### environments -/

/-- the same environment over transformed tables -/
def Env.mapTables (env : Env) (g : Table → Table) : Env := { env with tables := env.tables.map fun p => (p.1, g p.2) }

theorem Env.table_mapTables (env : Env) (g : Table → Table) (hg : g [] = []) (r : Rule) :
    (env.mapTables g).table r = g (env.table r) := by
  unfold Env.table Env.mapTables
  simp only
  induction env.tables with
  | nil => simp [hg]
  | cons p ps ih =>
    simp only [List.map_cons, List.find?_cons]
    by_cases h : p.1 = (r.sourceName, r.logicalSourceValue)
    · simp [h]
    · simp only [h, decide_false]
      exact ih

/-! ### the text of the generated SELECT -/

theorem foldl_append_eq {α} (g : α → Str) (l : List α) (h : Str) :
    l.foldl (fun q r => q ++ g r) h = h ++ (l.map g).flatten := by
  induction l generalizing h with
  | nil => simp
  | cons a l ih => simp [List.foldl_cons, ih, List.append_assoc]

theorem flatten_sep_eq (sep : Str) (l : List Str) (hl : l ≠ []) :
    (l.map fun x => x ++ sep).flatten = join sep l ++ sep := by
  induction l with
  | nil => exact absurd rfl hl
  | cons a l ih =>
    cases l with
    | nil => simp [join]
    | cons b l =>
      have := ih (by simp)
      simp only [List.map_cons, List.flatten_cons] at this ⊢
      rw [this]
      simp [join, List.append_assoc]

theorem cutEnd_append (sep : Str) (hs : sep ≠ []) (a : Str) : cutEnd sep.length (a ++ sep) = a := by
  have : sep.length ≠ 0 := by simpa using hs
  simp [cutEnd, this]

/-- a separator-terminated accumulation with the last separator cut off is a `join` -/
theorem cut_foldl_join {α} (f : α → Str) (sep : Str) (hs : sep ≠ []) (l : List α) (hl : l ≠ []) (h : Str) :
    cutEnd sep.length (l.foldl (fun q r => q ++ (f r ++ sep)) h) = h ++ join sep (l.map f) := by
  rw [foldl_append_eq]
  have : (l.map fun r => f r ++ sep) = ((l.map f).map fun x => x ++ sep) := by simp
  rw [this, flatten_sep_eq sep (l.map f) (by simpa using hl), ← List.append_assoc, cutEnd_append sep hs]

end Model
