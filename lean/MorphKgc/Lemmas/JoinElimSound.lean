/-
C07 helper lemmas (5): when replacing a self-join by the row itself is sound.
-/
import MorphKgc.Lemmas.JoinElim

namespace Model
open Py Spec

/-! ### two `mapM`s over rows that yield the same values -/

theorem mapM_ok_forall {α β ε} (f : α → Except ε β) (l : List α) (ys : List β) (h : l.mapM f = .ok ys) :
    ∀ x ∈ l, ∃ y, f x = .ok y := by
  induction l generalizing ys with
  | nil => simp
  | cons a l ih =>
    rw [List.mapM_cons] at h
    cases hfa : f a with
    | error e => simp [hfa, bind, Except.bind] at h
    | ok b =>
      cases hl : l.mapM f with
      | error e => simp [hfa, hl, bind, Except.bind] at h
      | ok bs =>
        intro x hx
        rcases List.mem_cons.mp hx with rfl | hx
        · exact ⟨b, hfa⟩
        · exact ih bs hl x hx

/-- both computations raise, or both succeed with the same set of lines -/
def SameOutcome (a b : Except MatErr (List Str)) : Prop :=
  (∀ l1, a = .ok l1 → ∃ l2, b = .ok l2 ∧ ∀ x, x ∈ l1 ↔ x ∈ l2) ∧ (∀ l2, b = .ok l2 → ∃ l1, a = .ok l1)

theorem mapM_sameOutcome {α β} (f : α → Except MatErr Str) (g : β → Except MatErr Str) (l : List α) (m : List β)
    (h1 : ∀ x ∈ l, ∃ y ∈ m, f x = g y) (h2 : ∀ y ∈ m, ∃ x ∈ l, f x = g y) : SameOutcome (l.mapM f) (m.mapM g) := by
  constructor
  · intro l1 hl1
    have hall := mapM_ok_forall f l l1 hl1
    obtain ⟨l2, hl2⟩ := mapM_ok_of_forall_exists g m fun y hy => by
      obtain ⟨x, hx, hxy⟩ := h2 y hy
      obtain ⟨z, hz⟩ := hall x hx
      exact ⟨z, by rw [← hxy, hz]⟩
    refine ⟨l2, hl2, fun z => ?_⟩
    rw [mem_of_mapM_ok f l l1 hl1, mem_of_mapM_ok g m l2 hl2]
    constructor
    · rintro ⟨x, hx, hz⟩
      obtain ⟨y, hy, hxy⟩ := h1 x hx
      exact ⟨y, hy, by rw [← hxy, hz]⟩
    · rintro ⟨y, hy, hz⟩
      obtain ⟨x, hx, hxy⟩ := h2 y hy
      exact ⟨x, hx, by rw [hxy, hz]⟩
  · intro l2 hl2
    have hall := mapM_ok_forall g m l2 hl2
    exact mapM_ok_of_forall_exists f l fun x hx => by
      obtain ⟨y, hy, hxy⟩ := h1 x hx
      obtain ⟨z, hz⟩ := hall y hy
      exact ⟨z, by rw [hxy, hz]⟩

/-! ### the rewritten rule -/

/-- the rule as rewritten by `_remove_self_joins_no_condition`: the object map becomes the parent's subject map -/
def eliminated (r parent : Rule) : Rule :=
  { r with objectMapType := parent.subjectMapType, objectMapValue := parent.subjectMapValue,
           objectTermtype := parent.subjectTermtype, objectJoin := [] }

/-- references of the rule's own term maps (everything but the object map and the object join) -/
def ownRefs (r : Rule) : List Str :=
  refsOfMap r.subjectMapType r.subjectMapValue ++ refsOfMap r.predicateMapType r.predicateMapValue ++
  refsOfMap r.graphMapType r.graphMapValue ++
  (match r.langDatatypeMapType with | some mt => refsOfMap mt r.langDatatypeMapValue | none => []) ++
  r.subjectJoin.map (·.1)

theorem mem_refsOfRule_ref {r : Rule} (hpt : r.objectMapType = .parentTM) (c : Str) :
    c ∈ refsOfRule r ↔ c ∈ ownRefs r ∨ c ∈ r.objectJoin.map (·.1) := by
  have hnil : refsOfMap .parentTM r.objectMapValue = [] := rfl
  simp only [refsOfRule, ownRefs, hpt, hnil, Bool.false_eq_true, ↓reduceIte, List.mem_append, List.append_nil]
  grind

theorem mem_refsOfRule_eliminated (r parent : Rule) (c : Str) :
    c ∈ refsOfRule (eliminated r parent) ↔ c ∈ ownRefs r ∨ c ∈ refsOfMap parent.subjectMapType parent.subjectMapValue := by
  simp only [refsOfRule, eliminated, ownRefs, Bool.false_eq_true, ↓reduceIte, List.mem_append, List.map_nil, List.append_nil]
  grind

theorem mem_ownRefs_of_ownMaps {r : Rule} {m : MapType × Str} (hm : m ∈ ownMaps r) {c : Str} (hc : c ∈ refsOfMap m.1 m.2) :
    c ∈ ownRefs r := by
  simp only [ownMaps, List.mem_append, List.mem_cons, List.not_mem_nil, or_false] at hm
  simp only [ownRefs, List.mem_append]
  rcases hm with (rfl | rfl | rfl) | hm
  · exact .inl (.inl (.inl (.inl hc)))
  · exact .inl (.inl (.inl (.inr hc)))
  · exact .inl (.inl (.inr hc))
  · cases hmt : r.langDatatypeMapType with
    | none => simp [hmt] at hm
    | some mt =>
      simp only [hmt, List.mem_singleton] at hm
      subst hm
      exact .inl (.inr (by simpa [hmt] using hc))

theorem eliminated_eq {r parent : Rule} (htt : r.objectTermtype = parent.subjectTermtype) :
    eliminated r parent =
      { r with objectMapType := parent.subjectMapType, objectMapValue := parent.subjectMapValue, objectJoin := [] } := by
  unfold eliminated
  rw [← htt]

theorem table_eliminated (env : Env) (r parent : Rule) : env.table (eliminated r parent) = env.table r := rfl

theorem Complete_mono {refs refs' : List Str} {t : Table} (h : Complete refs t = true) (hs : ∀ c ∈ refs', c ∈ refs) :
    Complete refs' t = true := by
  simp only [Complete, List.all_eq_true] at h ⊢
  exact fun ρ hρ c hc => h ρ hρ c (hs c hc)

/-- the term maps look up exactly their references (no brace inside a constant or a column name: complement of C01_F3) -/
def RefsExact (m : MapType × Str) : Prop := loopRefs m.1 m.2 = refsOfMap m.1 m.2

/-- the hypotheses under which the rewriting is sound -/
structure ElimOK (env : Env) (rules : List Rule) (r parent : Rule) : Prop where
  isRef : r.objectMapType = .parentTM
  find : findRule rules r.objectMapValue = some parent
  /-- same logical source and iterator: the two triples maps read the same rows -/
  sameRows : env.table r = env.table parent
  /-- every condition compares a column with itself -/
  sameCols : ∀ cp ∈ r.objectJoin, cp.1 = cp.2
  /-- **the parent subject is built from join columns only** (the condition `_remove_self_joins_no_condition` does not test) -/
  subjInJoin : ∀ c ∈ refsOfMap parent.subjectMapType parent.subjectMapValue, c ∈ r.objectJoin.map (·.2)
  /-- **every join column is still referenced after the rewriting**, so that its NULLs keep suppressing the row -/
  joinInRefs : ∀ c ∈ r.objectJoin.map (·.2), c ∈ refsOfRule (eliminated r parent)
  termtype : r.objectTermtype = parent.subjectTermtype
  subjKind : parent.subjectMapType ≠ .parentTM
  notConst : isAllConstant (eliminated r parent) = false
  exactOwn : ∀ m ∈ ownMaps r, RefsExact m
  exactSubj : RefsExact (parent.subjectMapType, parent.subjectMapValue)
  noClash : RuleNoClash r parent
  complete : Complete (refsOfRule r) (env.table r) = true

theorem join_cols_eq {r : Rule} (h : ∀ cp ∈ r.objectJoin, cp.1 = cp.2) : r.objectJoin.map (·.1) = r.objectJoin.map (·.2) :=
  List.map_congr_left h

/-- **Soundness of the self-join elimination under `ElimOK`**: the rewritten rule and the join rule both raise or both succeed
    with the same set of statements. -/
theorem elimination_sameOutcome (env : Env) (rules : List Rule) (r parent : Rule) (h : ElimOK env rules r parent) :
    SameOutcome (evalRule env rules (eliminated r parent)) (evalRule env rules r) := by
  have hK := join_cols_eq h.sameCols
  have hsubj_refs : ∀ c ∈ refsOfMap parent.subjectMapType parent.subjectMapValue, c ∈ refsOfRule r := fun c hc =>
    (mem_refsOfRule_ref h.isRef c).mpr (.inr (by rw [hK]; exact h.subjInJoin c hc))
  -- the three reference lists against each other
  have hE_sub : ∀ c ∈ refsOfRule (eliminated r parent), c ∈ refsOfRule r := by
    intro c hc
    rcases (mem_refsOfRule_eliminated r parent c).mp hc with hc | hc
    · exact (mem_refsOfRule_ref h.isRef c).mpr (.inl hc)
    · exact hsubj_refs c hc
  have hR_sub : ∀ c ∈ refsOfRule r, c ∈ refsOfRule (eliminated r parent) := by
    intro c hc
    rcases (mem_refsOfRule_ref h.isRef c).mp hc with hc | hc
    · exact (mem_refsOfRule_eliminated r parent c).mpr (.inl hc)
    · exact h.joinInRefs c (by rw [← hK]; exact hc)
  have hP_sub : ∀ c ∈ parentRefsOf r parent, c ∈ refsOfRule r := by
    intro c hc
    rcases List.mem_append.mp hc with hc | hc
    · exact hsubj_refs c (by simpa [refsOfRule] using hc)
    · exact (mem_refsOfRule_ref h.isRef c).mpr (.inr (by rw [hK]; exact hc))
  have hcompE : Complete (refsOfRule (eliminated r parent)) (env.table (eliminated r parent)) = true :=
    Complete_mono h.complete hE_sub
  have hcompP : Complete (parentRefsOf r parent) (env.table parent) = true := by
    rw [← h.sameRows]; exact Complete_mono h.complete hP_sub
  have hptE : (eliminated r parent).objectMapType ≠ .parentTM := h.subjKind
  rw [evalRule_plain_eq' env rules _ h.notConst hptE hcompE, evalRule_ref_eq env rules r parent h.isRef h.find,
    preprocess_eq _ _ _ h.complete]
  have hcompP' := hcompP
  unfold parentRefsOf at hcompP'
  rw [preprocess_eq _ _ _ hcompP']
  show SameOutcome _ ((mergeData _ _ r.objectJoin).mapM _)
  -- the line of a row of the rewritten rule is the line of a merged row
  have hline : ∀ ρc ρp : Row, (∀ cp ∈ r.objectJoin, cellStr ρc cp.1 = cellStr ρp cp.2) →
      rowTriple env (eliminated r parent) (eliminated r parent).objectMapType (eliminated r parent).objectMapValue []
          (projRow (dedupFirst (refsOfRule (eliminated r parent))) ρc) =
        rowTriple env r parent.subjectMapType parent.subjectMapValue "parent_".toList (joinedRow r parent ρc ρp) := by
    intro ρc ρp hk
    have hlk : ∀ c ∈ refsOfRule (eliminated r parent),
        lookup c (projRow (dedupFirst (refsOfRule (eliminated r parent))) ρc) = some (cellStr ρc c) :=
      fun c hc => lookup_projRow_mem hc
    generalize projRow (dedupFirst (refsOfRule (eliminated r parent))) ρc = σ' at hlk ⊢
    rw [eliminated_eq h.termtype, rowTriple_object_fields]
    show rowTriple env r parent.subjectMapType parent.subjectMapValue [] _ = _
    apply rowTriple_congr
    · intro m hm c hc
      rw [h.exactOwn m hm] at hc
      have hown := mem_ownRefs_of_ownMaps hm hc
      rw [hlk c ((mem_refsOfRule_eliminated r parent c).mpr (.inl hown)),
        lookup_joinedRow_child ((mem_refsOfRule_ref h.isRef c).mpr (.inl hown))]
    · intro c hc
      have hc' : c ∈ refsOfMap parent.subjectMapType parent.subjectMapValue := by
        have := h.exactSubj; unfold RefsExact at this; rw [← this]; exact hc
      rw [List.nil_append, hlk c ((mem_refsOfRule_eliminated r parent c).mpr (.inr hc')),
        lookup_joinedRow_parent h.noClash (List.mem_append.mpr (.inl (by simpa [refsOfRule] using hc')))]
      obtain ⟨cp, hcp, rfl⟩ := List.mem_map.mp (h.subjInJoin c hc')
      rw [← hk cp hcp, h.sameCols cp hcp]
  have hcj : ∀ cp ∈ r.objectJoin, cp.1 ∈ refsOfRule r := fun cp hcp =>
    join_children_subset r _ (List.mem_map.mpr ⟨cp, hcp, rfl⟩)
  have hpj : ∀ cp ∈ r.objectJoin, cp.2 ∈ parentRefsOf r parent := fun cp hcp =>
    List.mem_append.mpr (.inr (List.mem_map.mpr ⟨cp, hcp, rfl⟩))
  apply mapM_sameOutcome
  · -- a row of the rewritten rule pairs with itself
    intro σ hσ
    obtain ⟨ρ, hρ, rfl, hall⟩ := (mem_prepRows _ _ _ _).mp hσ
    rw [table_eliminated] at hρ
    refine ⟨joinedRow r parent ρ ρ, (mem_mergeData _ _ _ _).mpr ⟨_, (mem_prepRows _ _ _ _).mpr ⟨ρ, hρ, rfl, ?_⟩, _,
      (mem_prepRows _ _ _ _).mpr ⟨ρ, h.sameRows ▸ hρ, rfl, ?_⟩,
      (keysMatch_projRow _ _ (parentRefsOf r parent) _ _ hcj hpj).mpr fun cp hcp => by rw [h.sameCols cp hcp], rfl⟩,
      hline ρ ρ fun cp hcp => by rw [h.sameCols cp hcp]⟩
    · exact fun c hc => hall c (hR_sub c hc)
    · exact fun c hc => hall c (hR_sub c (hP_sub c hc))
  · -- a merged row comes from its child row
    intro σ hσ
    obtain ⟨c, hc, p, hp, hk, rfl⟩ := (mem_mergeData _ _ _ _).mp hσ
    obtain ⟨ρc, hρc, rfl, hallc⟩ := (mem_prepRows _ _ _ _).mp hc
    obtain ⟨ρp, hρp, rfl, hallp⟩ := (mem_prepRows _ _ _ _).mp hp
    have hk' := (keysMatch_projRow _ _ (parentRefsOf r parent) _ _ hcj hpj).mp hk
    exact ⟨_, (mem_prepRows _ _ _ _).mpr ⟨ρc, by rw [table_eliminated]; exact hρc, rfl, fun c hc => hallc c (hE_sub c hc)⟩,
      hline ρc ρp hk'⟩

/-- scope of C07_F1: the parent subject map refers to a column that is no join column (the identity pairing then differs from
    the join as soon as a key value occurs in two rows) -/
def scope_C07_F1 (r parent : Rule) : Bool :=
  !(refsOfMap parent.subjectMapType parent.subjectMapValue).all fun c => (r.objectJoin.map (·.2)).contains c

/-- scope of C07_F2: a join column is referenced neither by the rule's own term maps nor by the parent subject map (after the
    rewriting its NULLs no longer suppress the row) -/
def scope_C07_F2 (r parent : Rule) : Bool :=
  !(r.objectJoin.map (·.2)).all fun c => (refsOfRule (eliminated r parent)).contains c

end Model
