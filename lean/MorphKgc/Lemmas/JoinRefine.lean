/-
C07 helper lemmas (3): a referencing-object-map rule of the fragment refines the generation rules over the relational join.
-/
import MorphKgc.Lemmas.JoinRule

namespace Model
open Py Spec

/-- the flat rule of a referencing object map -/
def refRuleOf (doc : Doc) (tm : TriplesMap) (pm : TermMap) (parentId : Str) (conds : List (Str × Str)) (g : MapType × Str) : Rule :=
  pomRule doc tm pm (.ref parentId conds) g

theorem refRuleOf_objectMapType (doc : Doc) (tm : TriplesMap) (pm : TermMap) (pid : Str) (conds : List (Str × Str))
    (g : MapType × Str) : (refRuleOf doc tm pm pid conds g).objectMapType = .parentTM := rfl

theorem refRuleOf_objectJoin (doc : Doc) (tm : TriplesMap) (pm : TermMap) (pid : Str) (conds : List (Str × Str))
    (g : MapType × Str) : (refRuleOf doc tm pm pid conds g).objectJoin = conds := rfl

theorem refRuleOf_objectMapValue (doc : Doc) (tm : TriplesMap) (pm : TermMap) (pid : Str) (conds : List (Str × Str))
    (g : MapType × Str) : (refRuleOf doc tm pm pid conds g).objectMapValue = pid := rfl

theorem refsOfRule_refRuleOf (doc : Doc) (tm : TriplesMap) (pm gm : TermMap) (pid : Str) (conds : List (Str × Str))
    (hs : WFTermMap tm.subject = true) (hp : WFTermMap pm = true) (hg : WFTermMap gm = true) :
    refsOfRule (refRuleOf doc tm pm pid conds (mapOf gm)) = tmRefs tm.subject ++ tmRefs pm ++ tmRefs gm ++ conds.map (·.1) := by
  simp only [refsOfRule, refRuleOf, pomRule, baseRule_eq, Bool.false_eq_true, ↓reduceIte, refsOfMap_mapOf _ hs,
    refsOfMap_mapOf _ hp, refsOfMap_mapOf _ hg]
  simp [refsOfMap]

theorem table_refRuleOf {env : Env} {senv : SEnv} (henv : EnvOK env senv) (doc : Doc) (tm : TriplesMap) (pm : TermMap)
    (pid : Str) (conds : List (Str × Str)) (g : MapType × Str) :
    env.table (refRuleOf doc tm pm pid conds g) = senv.table tm := by
  unfold Env.table SEnv.table
  rw [henv.tables]
  rfl

/-- `rowTriple` on a referencing rule, given the four terms -/
theorem rowTriple_refRuleOf (env : Env) (doc : Doc) (tm : TriplesMap) (pm : TermMap) (pid : Str) (conds : List (Str × Str))
    (g : MapType × Str) (ok : MapType) (ov alias : Str) (σ : SRow) (S P O G : Str)
    (hs : materializeTemplate env.cfg (mapOf tm.subject).1 (mapOf tm.subject).2 (some tm.subject.termType) [] []
            (fun c => lookup c σ) = .ok S)
    (hp : materializeTemplate env.cfg (mapOf pm).1 (mapOf pm).2 (some .iri) [] [] (fun c => lookup c σ) = .ok P)
    (ho : materializeTemplate env.cfg ok ov (some (refRuleOf doc tm pm pid conds g).objectTermtype) [] alias
            (fun c => lookup c σ) = .ok O)
    (hg : g.2 ≠ env.defaultGraph → materializeTemplate env.cfg g.1 g.2 (some .iri) [] [] (fun c => lookup c σ) = .ok G) :
    rowTriple env (refRuleOf doc tm pm pid conds g) ok ov alias σ =
      .ok (match env.fmt with
        | .ntriples => S ++ [' '] ++ P ++ [' '] ++ O
        | .nquads => S ++ [' '] ++ P ++ [' '] ++ O ++ [' '] ++ (if g.2 ≠ env.defaultGraph then G else [])) := by
  have hlv : litDatatype (refRuleOf doc tm pm pid conds g) = [] := rfl
  have h1 : (refRuleOf doc tm pm pid conds g).subjectMapType = (mapOf tm.subject).1 := rfl
  have h2 : (refRuleOf doc tm pm pid conds g).subjectMapValue = (mapOf tm.subject).2 := rfl
  have h3 : (refRuleOf doc tm pm pid conds g).subjectTermtype = tm.subject.termType := rfl
  have h4 : (refRuleOf doc tm pm pid conds g).predicateMapType = (mapOf pm).1 := rfl
  have h5 : (refRuleOf doc tm pm pid conds g).predicateMapValue = (mapOf pm).2 := rfl
  have h6 : (refRuleOf doc tm pm pid conds g).langDatatype = none := rfl
  have h7 : (refRuleOf doc tm pm pid conds g).graphMapType = g.1 := rfl
  have h8 : (refRuleOf doc tm pm pid conds g).graphMapValue = g.2 := rfl
  unfold rowTriple
  rw [hlv] at *
  simp only [h1, h2, h3, h4, h5, h6, h7, h8, hs, hp, ho, bind, Except.bind, pure, Except.pure]
  cases hf : env.fmt <;> by_cases hd : g.2 = env.defaultGraph <;> simp [hd, hg]

/-- hypotheses on the term maps of a referencing rule: the child's subject map, the predicate map, the graph map and the
    parent's subject map are in the fragment of C01 -/
structure RefRuleOK (dg : Str) (tm ptm : TriplesMap) (pm gm : TermMap) : Prop where
  subj : SubjOK tm.subject = true
  pred : PredOK pm = true
  graph : GraphOK dg gm = true
  psubj : SubjOK ptm.subject = true

/-- what ties the parent triples map of the document to the parent rule found in the rule table -/
structure ParentLink (env : Env) (senv : SEnv) (doc : Doc) (rules : List Rule) (ptm : TriplesMap) (prule : Rule) : Prop where
  find : findRule rules ptm.id = some prule
  doc : doc.tms.find? (fun t => t.id = ptm.id) = some ptm
  smt : prule.subjectMapType = (mapOf ptm.subject).1
  smv : prule.subjectMapValue = (mapOf ptm.subject).2
  table : env.table prule = senv.table ptm

theorem refRuleOf_objectTermtype {doc : Doc} {tm ptm : TriplesMap} {pm : TermMap} {conds : List (Str × Str)} {g : MapType × Str}
    (hdoc : doc.tms.find? (fun t => t.id = ptm.id) = some ptm) :
    (refRuleOf doc tm pm ptm.id conds g).objectTermtype = ptm.subject.termType := by
  simp [refRuleOf, pomRule, hdoc]

theorem parentRefsOf_link {env : Env} {senv : SEnv} {doc : Doc} {rules : List Rule} {ptm : TriplesMap} {prule : Rule}
    (hl : ParentLink env senv doc rules ptm prule) (hw : WFTermMap ptm.subject = true) (r : Rule) :
    parentRefsOf r prule = tmRefs ptm.subject ++ r.objectJoin.map (·.2) := by
  simp [parentRefsOf, refsOfRule, hl.smt, hl.smv, refsOfMap_mapOf _ hw]

/-- **One pair of rows, all references non-NULL**: the engine's line for the merged row is the statement the generation rules
    prescribe for the pair. -/
theorem pair_refines {env : Env} {senv : SEnv} (henv : EnvOK env senv) (doc : Doc) (rules : List Rule)
    (tm ptm : TriplesMap) (pm gm : TermMap) (conds : List (Str × Str)) (prule : Rule)
    (hr : RefRuleOK senv.defaultGraph tm ptm pm gm) (hl : ParentLink env senv doc rules ptm prule)
    (hno : RuleNoClash (refRuleOf doc tm pm ptm.id conds (mapOf gm)) prule) (ρc ρp : Row)
    (hvalc : ∀ c ∈ refsOfRule (refRuleOf doc tm pm ptm.id conds (mapOf gm)), valueOf senv.na ρc c = some (cellStr ρc c))
    (hvalp : ∀ c ∈ parentRefsOf (refRuleOf doc tm pm ptm.id conds (mapOf gm)) prule, valueOf senv.na ρp c = some (cellStr ρp c)) :
    ∃ S P O G, genTerm senv.safe senv.na tm.subject ρc = some S ∧ genTerm senv.safe senv.na pm ρc = some P ∧
      genTerm senv.safe senv.na ptm.subject ρp = some O ∧ graphTerms senv [gm] ρc = [G] ∧
      rowTriple env (refRuleOf doc tm pm ptm.id conds (mapOf gm)) prule.subjectMapType prule.subjectMapValue "parent_".toList
        (joinedRow (refRuleOf doc tm pm ptm.id conds (mapOf gm)) prule ρc ρp) = .ok (renderStmt senv.fmt S P O G) := by
  have ws : WFTermMap tm.subject = true := by have := hr.subj; simp only [SubjOK, Bool.and_eq_true] at this; exact this.1
  have wp : WFTermMap pm = true := by have := hr.pred; simp only [PredOK, Bool.and_eq_true] at this; exact this.1
  have wg : WFTermMap gm = true := by have := hr.graph; simp only [GraphOK, Bool.and_eq_true] at this; exact this.1.1
  have wps : WFTermMap ptm.subject = true := by have := hr.psubj; simp only [SubjOK, Bool.and_eq_true] at this; exact this.1
  have hrefs := refsOfRule_refRuleOf doc tm pm gm ptm.id conds ws wp wg
  have hprefs := parentRefsOf_link hl wps (refRuleOf doc tm pm ptm.id conds (mapOf gm))
  -- the lookups of the merged row
  have hσc : ∀ c ∈ refsOfRule (refRuleOf doc tm pm ptm.id conds (mapOf gm)),
      lookup c (joinedRow (refRuleOf doc tm pm ptm.id conds (mapOf gm)) prule ρc ρp) = some (cellStr ρc c) :=
    fun c hc => lookup_joinedRow_child hc
  have hσp : ∀ k ∈ parentRefsOf (refRuleOf doc tm pm ptm.id conds (mapOf gm)) prule,
      lookup ("parent_".toList ++ k) (joinedRow (refRuleOf doc tm pm ptm.id conds (mapOf gm)) prule ρc ρp) = some (cellStr ρp k) :=
    fun k hk => lookup_joinedRow_parent hno hk
  rw [hrefs] at hσc hvalc
  rw [hprefs] at hσp hvalp
  simp only [List.mem_append] at hσc hvalc hσp hvalp
  obtain ⟨vs, hvs, hms⟩ := term_refines henv.cfg senv.na tm.subject ws [] ρc _ (cellStr ρc)
    (fun c hc => hσc c (.inl (.inl (.inl hc)))) (fun c hc => hvalc c (.inl (.inl (.inl hc))))
  obtain ⟨vp, hvp, hmp⟩ := term_refines henv.cfg senv.na pm wp [] ρc _ (cellStr ρc)
    (fun c hc => hσc c (.inl (.inl (.inr hc)))) (fun c hc => hvalc c (.inl (.inl (.inr hc))))
  obtain ⟨vg, hvg, hmg⟩ := term_refines henv.cfg senv.na gm wg [] ρc _ (cellStr ρc)
    (fun c hc => hσc c (.inl (.inr hc))) (fun c hc => hvalc c (.inl (.inr hc)))
  obtain ⟨vo, hvo, hmo⟩ := term_refines henv.cfg senv.na ptm.subject wps [] ρp
    (fun c => lookup ("parent_".toList ++ c) (joinedRow (refRuleOf doc tm pm ptm.id conds (mapOf gm)) prule ρc ρp)) (cellStr ρp)
    (fun c hc => hσp c (.inl hc)) (fun c hc => hvalp c (.inl hc))
  have hpi : pm.termType = .iri := by
    have := hr.pred; simp only [PredOK, Bool.and_eq_true, beq_iff_eq] at this; exact this.2
  have hgi : gm.termType = .iri := by
    have := hr.graph; simp only [GraphOK, Bool.and_eq_true, beq_iff_eq] at this; exact this.1.2
  have hss : termSuffix tm.subject = [] := by
    have := hr.subj; simp only [SubjOK, Bool.and_eq_true, List.isEmpty_iff] at this; exact this.2
  have hpss : termSuffix ptm.subject = [] := by
    have := hr.psubj; simp only [SubjOK, Bool.and_eq_true, List.isEmpty_iff] at this; exact this.2
  rw [hpi] at hmp
  rw [hgi] at hmg
  have hmo' : materializeTemplate env.cfg prule.subjectMapType prule.subjectMapValue
      (some (refRuleOf doc tm pm ptm.id conds (mapOf gm)).objectTermtype) [] "parent_".toList
      (fun c => lookup c (joinedRow (refRuleOf doc tm pm ptm.id conds (mapOf gm)) prule ρc ρp)) =
        .ok (wrapTerm (some ptm.subject.termType) (lexOf ptm.subject.termType vo)) := by
    rw [materializeTemplate_alias, hl.smt, hl.smv, refRuleOf_objectTermtype hl.doc]
    exact hmo
  have hrt := rowTriple_refRuleOf env doc tm pm ptm.id conds (mapOf gm) prule.subjectMapType prule.subjectMapValue
    "parent_".toList _ _ _ _ (wrapTerm (some .iri) (lexOf .iri vg)) hms hmp hmo' (fun _ => hmg)
  have gs : genTerm senv.safe senv.na tm.subject ρc = some (wrapTerm (some tm.subject.termType) (lexOf tm.subject.termType vs)) := by
    simp [genTerm, hvs, renderTerm_eq, hss]
  have gp : genTerm senv.safe senv.na pm ρc = some (wrapTerm (some .iri) (lexOf .iri vp)) := by
    simp [genTerm, hvp, renderTerm_eq, termSuffix_iri hpi, hpi]
  have go : genTerm senv.safe senv.na ptm.subject ρp = some (wrapTerm (some ptm.subject.termType) (lexOf ptm.subject.termType vo)) := by
    simp [genTerm, hvo, renderTerm_eq, hpss]
  have gg : genTerm senv.safe senv.na gm ρc = some (wrapTerm (some .iri) (lexOf .iri vg)) := by
    simp [genTerm, hvg, renderTerm_eq, termSuffix_iri hgi, hgi]
  have hdg := isDefaultGraph_iff hr.graph
  rw [← henv.dg] at hdg
  by_cases hd : (mapOf gm).2 = env.defaultGraph
  · refine ⟨_, _, _, [], gs, gp, go, ?_, ?_⟩
    · rw [graphTerms_single, ← henv.dg]; simp [hdg.mpr hd]
    · rw [hrt, ← henv.fmt]
      cases hf : env.fmt <;> simp [hd, renderStmt]
  · have hnd : ¬ isDefaultGraph env.defaultGraph gm = true := fun h => hd (hdg.mp h)
    refine ⟨_, _, _, wrapTerm (some .iri) (lexOf .iri vg), gs, gp, go, ?_, ?_⟩
    · rw [graphTerms_single, ← henv.dg]; simp [hnd, gg]
    · rw [hrt, ← henv.fmt]
      cases hf : env.fmt <;> simp [hd, renderStmt]

theorem keysMatch_iff (cv pv : Str → Option Str) (conds : List (Str × Str)) :
    keysMatch cv pv conds = true ↔ ∀ cp ∈ conds, ∃ v, cv cp.1 = some v ∧ pv cp.2 = some v := by
  unfold keysMatch
  rw [List.all_eq_true]
  apply forall_congr'
  intro cp
  apply imp_congr_right
  intro _
  unfold condHolds
  cases cv cp.1 <;> cases pv cp.2 <;> simp
  exact eq_comm

/-- **One referencing rule.** For a rule built from a child subject map, a predicate map, a graph map and a parent subject map of
    the fragment, over complete tables without raw null objects, the engine does not raise and emits exactly the statements that
    the generation rules prescribe for the pairs of the relational inner equi-join of the two logical tables. -/
theorem ref_rule_refinement {env : Env} {senv : SEnv} (henv : EnvOK env senv) (doc : Doc) (rules : List Rule)
    (tm ptm : TriplesMap) (pm gm : TermMap) (conds : List (Str × Str)) (prule : Rule)
    (hr : RefRuleOK senv.defaultGraph tm ptm pm gm) (hl : ParentLink env senv doc rules ptm prule)
    (hno : RuleNoClash (refRuleOf doc tm pm ptm.id conds (mapOf gm)) prule)
    (hcomp : Complete (refsOfRule (refRuleOf doc tm pm ptm.id conds (mapOf gm))) (senv.table tm) = true)
    (hcompP : Complete (parentRefsOf (refRuleOf doc tm pm ptm.id conds (mapOf gm)) prule) (senv.table ptm) = true)
    (hnn : NoRawNulls (senv.table tm) = true) (hnnP : NoRawNulls (senv.table ptm) = true) :
    ∃ lines, evalRule env rules (refRuleOf doc tm pm ptm.id conds (mapOf gm)) = .ok lines ∧
      ∀ line, line ∈ lines ↔ line ∈ refStmts senv tm ptm conds [gm] pm := by
  have htab := table_refRuleOf henv doc tm pm ptm.id conds (mapOf gm)
  have hpt := refRuleOf_objectMapType doc tm pm ptm.id conds (mapOf gm)
  have hfind : findRule rules (refRuleOf doc tm pm ptm.id conds (mapOf gm)).objectMapValue = some prule := hl.find
  have hcomp' : Complete (refsOfRule (refRuleOf doc tm pm ptm.id conds (mapOf gm)))
      (env.table (refRuleOf doc tm pm ptm.id conds (mapOf gm))) = true := by rw [htab]; exact hcomp
  have hcompP' : Complete (parentRefsOf (refRuleOf doc tm pm ptm.id conds (mapOf gm)) prule) (env.table prule) = true := by
    rw [hl.table]; exact hcompP
  have ws : WFTermMap tm.subject = true := by have := hr.subj; simp only [SubjOK, Bool.and_eq_true] at this; exact this.1
  have wp : WFTermMap pm = true := by have := hr.pred; simp only [PredOK, Bool.and_eq_true] at this; exact this.1
  have wg : WFTermMap gm = true := by have := hr.graph; simp only [GraphOK, Bool.and_eq_true] at this; exact this.1.1
  have wps : WFTermMap ptm.subject = true := by have := hr.psubj; simp only [SubjOK, Bool.and_eq_true] at this; exact this.1
  have hrefs := refsOfRule_refRuleOf doc tm pm gm ptm.id conds ws wp wg
  have hprefs := parentRefsOf_link hl wps (refRuleOf doc tm pm ptm.id conds (mapOf gm))
  rw [refRuleOf_objectJoin] at hprefs
  simp only [Complete, List.all_eq_true] at hcomp hcompP
  simp only [NoRawNulls] at hnn hnnP
  have hvalc : ∀ ρ ∈ senv.table tm, ∀ c ∈ refsOfRule (refRuleOf doc tm pm ptm.id conds (mapOf gm)),
      valueOf senv.na ρ c = if cellStr ρ c ∈ senv.na then none else some (cellStr ρ c) := fun ρ hρ c hc =>
    valueOf_eq senv.na ρ c (hcomp ρ hρ c hc) (List.all_eq_true.mp hnn ρ hρ)
  have hvalp : ∀ ρ ∈ senv.table ptm, ∀ c ∈ parentRefsOf (refRuleOf doc tm pm ptm.id conds (mapOf gm)) prule,
      valueOf senv.na ρ c = if cellStr ρ c ∈ senv.na then none else some (cellStr ρ c) := fun ρ hρ c hc =>
    valueOf_eq senv.na ρ c (hcompP ρ hρ c hc) (List.all_eq_true.mp hnnP ρ hρ)
  -- every candidate pair yields the statement of the generation rules
  have hgood : ∀ ρc ∈ senv.table tm, ∀ ρp ∈ senv.table ptm,
      (∀ c ∈ refsOfRule (refRuleOf doc tm pm ptm.id conds (mapOf gm)), cellStr ρc c ∉ env.na) →
      (∀ c ∈ parentRefsOf (refRuleOf doc tm pm ptm.id conds (mapOf gm)) prule, cellStr ρp c ∉ env.na) →
      ∃ S P O G, genTerm senv.safe senv.na tm.subject ρc = some S ∧ genTerm senv.safe senv.na pm ρc = some P ∧
        genTerm senv.safe senv.na ptm.subject ρp = some O ∧ graphTerms senv [gm] ρc = [G] ∧
        rowTriple env (refRuleOf doc tm pm ptm.id conds (mapOf gm)) prule.subjectMapType prule.subjectMapValue "parent_".toList
          (joinedRow (refRuleOf doc tm pm ptm.id conds (mapOf gm)) prule ρc ρp) = .ok (renderStmt senv.fmt S P O G) := by
    intro ρc hρc ρp hρp hc hp
    apply pair_refines henv doc rules tm ptm pm gm conds prule hr hl hno ρc ρp
    · intro c hcm
      rw [hvalc ρc hρc c hcm]
      have := hc c hcm
      rw [henv.na] at this
      simp [this]
    · intro c hcm
      rw [hvalp ρp hρp c hcm]
      have := hp c hcm
      rw [henv.na] at this
      simp [this]
  obtain ⟨lines, hlines⟩ := evalRule_ref_ok env rules _ prule hpt hfind hcomp' hcompP' (by
    intro ρc hρc ρp hρp hc hp
    obtain ⟨S, P, O, G, _, _, _, _, h⟩ := hgood ρc (htab ▸ hρc) ρp (hl.table ▸ hρp) hc hp
    exact ⟨_, h⟩)
  refine ⟨lines, hlines, fun line => ?_⟩
  rw [mem_evalRule_ref env rules _ prule hpt hfind hcomp' hcompP' lines hlines line, htab, hl.table,
    mem_refStmts senv doc tm ptm [gm] pm conds hl.doc]
  have hjc : ∀ cp ∈ conds, cp.1 ∈ refsOfRule (refRuleOf doc tm pm ptm.id conds (mapOf gm)) := fun cp hcp => by
    rw [hrefs]; exact List.mem_append.mpr (.inr (List.mem_map.mpr ⟨cp, hcp, rfl⟩))
  have hjp : ∀ cp ∈ conds, cp.2 ∈ parentRefsOf (refRuleOf doc tm pm ptm.id conds (mapOf gm)) prule := fun cp hcp => by
    rw [hprefs]; exact List.mem_append.mpr (.inr (List.mem_map.mpr ⟨cp, hcp, rfl⟩))
  constructor
  · rintro ⟨ρc, hρc, ρp, hρp, hc, hp, hk, hrt⟩
    obtain ⟨S, P, O, G, hS, hP, hO, hG, h⟩ := hgood ρc hρc ρp hρp hc hp
    rw [h] at hrt
    cases hrt
    refine ⟨ρc, hρc, (mem_stmtsFor_ref senv doc tm ptm ρc [gm] pm conds hl.doc _).mpr
      ⟨S, P, O, ρp, G, hS, hP, hρp, ?_, hO, by rw [hG]; simp, rfl⟩⟩
    rw [keysMatch_iff]
    intro cp hcp
    refine ⟨cellStr ρc cp.1, ?_, ?_⟩
    · rw [hvalc ρc hρc _ (hjc cp hcp)]
      have := hc _ (hjc cp hcp)
      rw [henv.na] at this
      simp [this]
    · rw [hvalp ρp hρp _ (hjp cp hcp), ← hk cp (by rw [refRuleOf_objectJoin]; exact hcp)]
      have := hp _ (hjp cp hcp)
      rw [henv.na] at this
      rw [← hk cp (by rw [refRuleOf_objectJoin]; exact hcp)] at this
      simp [this]
  · rintro ⟨ρc, hρc, hst⟩
    obtain ⟨s, pt, ot, ρp, g, hs, hp, hρp, hk, hot, hg, rfl⟩ := (mem_stmtsFor_ref senv doc tm ptm ρc [gm] pm conds hl.doc _).mp hst
    rw [keysMatch_iff] at hk
    -- no reference of either row is NULL
    have hallc : ∀ c ∈ refsOfRule (refRuleOf doc tm pm ptm.id conds (mapOf gm)), cellStr ρc c ∉ env.na := by
      intro c hcm hna
      have hnone : valueOf senv.na ρc c = none := by
        rw [hvalc ρc hρc c hcm]; rw [henv.na] at hna; simp [hna]
      rw [hrefs] at hcm
      simp only [List.mem_append] at hcm
      rcases hcm with ((hcm | hcm) | hcm) | hcm
      · simp [genTerm, genValue_none _ _ _ _ ⟨c, hcm, hnone⟩] at hs
      · simp [genTerm, genValue_none _ _ _ _ ⟨c, hcm, hnone⟩] at hp
      · rw [graphTerms_single] at hg
        have hnd : ¬ isDefaultGraph senv.defaultGraph gm = true := by
          intro h
          simp only [isDefaultGraph, Bool.and_eq_true, decide_eq_true_eq] at h
          simp [tmRefs, h.1] at hcm
        simp [hnd, genTerm, genValue_none _ _ _ _ ⟨c, hcm, hnone⟩] at hg
      · obtain ⟨cp, hcp, rfl⟩ := List.mem_map.mp hcm
        obtain ⟨v, hv, _⟩ := hk cp hcp
        rw [hnone] at hv
        cases hv
    have hallp : ∀ c ∈ parentRefsOf (refRuleOf doc tm pm ptm.id conds (mapOf gm)) prule, cellStr ρp c ∉ env.na := by
      intro c hcm hna
      have hnone : valueOf senv.na ρp c = none := by
        rw [hvalp ρp hρp c hcm]; rw [henv.na] at hna; simp [hna]
      rw [hprefs] at hcm
      rcases List.mem_append.mp hcm with hcm | hcm
      · simp [genTerm, genValue_none _ _ _ _ ⟨c, hcm, hnone⟩] at hot
      · obtain ⟨cp, hcp, rfl⟩ := List.mem_map.mp hcm
        obtain ⟨v, _, hv⟩ := hk cp hcp
        rw [hnone] at hv
        cases hv
    obtain ⟨S, P, O, G, hS, hP, hO, hG, h⟩ := hgood ρc hρc ρp hρp hallc hallp
    rw [hS] at hs; rw [hP] at hp; rw [hO] at hot; rw [hG] at hg
    cases hs; cases hp; cases hot
    simp only [List.mem_singleton] at hg
    subst hg
    refine ⟨ρc, hρc, ρp, hρp, hallc, hallp, ?_, h⟩
    intro cp hcp
    rw [refRuleOf_objectJoin] at hcp
    obtain ⟨v, hv1, hv2⟩ := hk cp hcp
    rw [hvalc ρc hρc _ (hjc cp hcp)] at hv1
    rw [hvalp ρp hρp _ (hjp cp hcp)] at hv2
    split at hv1
    · cases hv1
    · split at hv2
      · cases hv2
      · simp only [Option.some.injEq] at hv1 hv2
        rw [hv1, hv2]

end Model
