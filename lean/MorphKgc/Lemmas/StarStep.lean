/-
C13, helper lemmas IX: one quoted position of the star branch.
-/
import MorphKgc.Lemmas.StarClaims

namespace Model.Star
open Py Model Spec Spec.Star

/-- what the subject / object block leaves in its column (`get`), relative to the frame it started from -/
structure PosPost (senv : SEnv) (frs : List FlatRule) (C : List Str) (nest n : Nat) (pos : Pos) (get : FRow → Option Str)
    (F F' : Frame) : Prop where
  sound : ∀ φ' ∈ F'.rows, ∃ φ ∈ F.rows, Ext (nest + 1) φ φ' ∧ ∃ x, get φ' = some x ∧
    ∀ ρ, Rep senv.na C φ.src ρ → x ∈ flatPos senv frs n ρ pos
  complete : ∀ φ ∈ F.rows, ∀ ρ, Rep senv.na C φ.src ρ → ∀ x ∈ flatPos senv frs n ρ pos,
    ∃ φ' ∈ F'.rows, Ext (nest + 1) φ φ' ∧ get φ' = some x
  cols : ∀ c ∈ F.srcCols, c ∈ F'.srcCols
  idx : ∀ k, F'.index = some k → F.index = some k ∨ hasPP k = false

/-- a setter of the `subject` / `object` column and its getter -/
structure SetGet (set : FRow → Option Str → FRow) (get : FRow → Option Str) : Prop where
  get_set : ∀ ψ v, get (set ψ v) = v
  src : ∀ ψ v, (set ψ v).src = ψ.src
  keep : ∀ ψ v, (set ψ v).keep = ψ.keep

theorem setGet_subject : SetGet setSubject (·.subject) := ⟨fun _ _ => rfl, fun _ _ => rfl, fun _ _ => rfl⟩
theorem setGet_object : SetGet setObject (·.object) := ⟨fun _ _ => rfl, fun _ _ => rfl, fun _ _ => rfl⟩

theorem Ext_set {set : FRow → Option Str → FRow} {get : FRow → Option Str} (h : SetGet set get) {nest : Nat} {φ ψ : FRow}
    (v : Option Str) (he : Ext nest φ ψ) : Ext nest φ (set ψ v) :=
  ⟨fun c x hx => by rw [h.src]; exact he.1 c x hx, fun k hk => by rw [h.keep]; exact he.2 k hk⟩

theorem hasPP_scratch : hasPP tripleCol = false ∧ hasPP refResCol = false ∧ hasPP langDtCol = false := by decide

theorem hasPP_keepName (n : Nat) : hasPP (keepName n) = false := by
  have h1 : Gen.Star.keepKeyPrefix = 'k' :: "eep_subject".toList := by decide
  have h2 : Gen.Star.parentPrefix = 'p' :: "arent_".toList := by decide
  simp [hasPP, keepName, h1, h2, List.isPrefixOf]

/-- **One quoted position.** -/
theorem quotedStep_post {env : Env} {senv : SEnv} (frs : List FlatRule) (n : Nat)
    (hpass : PassClaim env senv frs n) (hfresh : FreshClaim env senv frs n)
    (set : FRow → Option Str → FRow) (get : FRow → Option Str) (hsg : SetGet set get)
    (id : Str) (conds : List (Str × Str)) (q : FlatRule) (hq : findFlat frs id = some q) (hqok : okAt senv frs n q = true)
    (hloc : posLocal senv frs (n + 1) (.quoted id conds) = true)
    (C : List Str) (nest : Nat) (F : Frame)
    (hC : ∀ c ∈ qrefs frs (n + 1) (.quoted id conds) ++ joinKeys (.quoted id conds), c ∈ C)
    (hcols : ∀ c ∈ C, c ∈ F.srcCols) (hrows : RowsRep senv C F)
    (hclean : mpos frs n (.quoted id conds) = 1 → Clean F) :
    ∃ F', quotedStep set (frs.map toRule) (evalStar env (frs.map toRule) (n + 1)) id conds nest F = .ok F' ∧
      PosPost senv frs C nest (n + 1) (.quoted id conds) get F F' ∧
      (mpos frs n (.quoted id conds) = 0 → Clean F → Clean F') ∧ RowsRep senv C F' := by
  unfold quotedStep
  rw [findRule_map_toRule, hq]
  simp only [Option.map_some]
  by_cases hce : conds.isEmpty = true
  · -- without join condition: the quoted rule on the same frame
    simp only [hce, Bool.not_true, Bool.false_eq_true, ↓reduceIte, nextNest_eq]
    have hqr : qrefs frs (n + 1) (.quoted id conds) = frefs frs (n + 1) q := by simp [qrefs, hce, hq]
    have hmp : mpos frs n (.quoted id conds) = merges frs n q := by simp [mpos, hce, hq]
    have hsub : ∀ c ∈ frefs frs (n + 1) q, c ∈ C := fun c hc => hC c (by rw [hqr]; exact List.mem_append_left _ hc)
    obtain ⟨G, hG, hpost, hcl⟩ := hpass q hqok (nest + 1) F (fun c hc => hcols c (hsub c hc))
      (fun φ hφ => let ⟨ρ, hρ⟩ := hrows φ hφ; ⟨ρ, hρ.mono hsub⟩) (fun h => hclean (by rw [hmp]; exact h))
    rw [hG, bind_ok]
    refine ⟨_, rfl, ⟨?_, ?_, ?_, ?_⟩, ?_, ?_⟩
    · intro φ' hφ'
      simp only [Frame.mapRows, List.mem_map] at hφ'
      obtain ⟨ψ, hψ, rfl⟩ := hφ'
      obtain ⟨φ, hφ, hext, t, ht, hsem⟩ := hpost.sound ψ hψ
      refine ⟨φ, hφ, Ext_set hsg _ hext, quote t, by rw [hsg.get_set, ht, Option.map_some, wrapQuoted_eq], ?_⟩
      intro ρ hρ
      rw [mem_flatPos_quoted senv frs (n + 1) ρ id conds q hq]
      refine ⟨ρ, by simp [flatPaired, hce], t, ?_, rfl⟩
      have := hsem ρ (hρ.mono hsub)
      simpa [flatAt] using this
    · intro φ hφ ρ hρ x hx
      obtain ⟨ρ', hρ', t, ht, rfl⟩ := (mem_flatPos_quoted senv frs (n + 1) ρ id conds q hq x).mp hx
      simp only [flatPaired, hce, ↓reduceIte, List.mem_singleton] at hρ'
      subst hρ'
      obtain ⟨ψ, hψ, hext, hψt⟩ := hpost.complete φ hφ ρ' (hρ.mono hsub) t (by simpa [flatAt] using ht)
      refine ⟨set ψ (ψ.triple.map wrapQuoted), ?_, Ext_set hsg _ hext, ?_⟩
      · simp only [Frame.mapRows, List.mem_map]; exact ⟨ψ, hψ, rfl⟩
      · rw [hsg.get_set, hψt, Option.map_some, wrapQuoted_eq]
    · exact hpost.cols
    · exact hpost.idx
    · intro h0 hcF
      have := hcl (by rw [← hmp]; exact h0) hcF
      exact this
    · intro φ' hφ'
      simp only [Frame.mapRows, List.mem_map] at hφ'
      obtain ⟨ψ, hψ, rfl⟩ := hφ'
      obtain ⟨φ, hφ, hext, _⟩ := hpost.sound ψ hψ
      obtain ⟨ρ, hρ⟩ := hrows φ hφ
      exact ⟨ρ, by rw [hsg.src]; exact Rep.ext hρ hext⟩
  · -- with join conditions: the quoted rule on its own data, merged
    have hce' : conds.isEmpty = false := by simpa using hce
    simp only [hce', Bool.not_false, ↓reduceIte, nextNest_eq]
    have hmp : mpos frs n (.quoted id conds) = 1 := by simp [mpos, hce']
    simp only [posLocal, hq, hce', Bool.false_or, Bool.and_eq_true, List.all_eq_true, Bool.not_eq_true'] at hloc
    obtain ⟨⟨hnn, hcomp⟩, hppk⟩ := hloc
    obtain ⟨P, hP, hFA, hFB, hPcols, hPidx⟩ := hfresh q hqok (conds.map (·.2)) (nest + 1) hnn hcomp
      (fun c hc => by obtain ⟨cp, hcp, rfl⟩ := List.mem_map.mp hc; exact hppk cp hcp)
    rw [hP, bind_ok]
    have hkeys : ∀ cp ∈ conds, cp.1 ∈ C := fun cp hcp =>
      hC _ (List.mem_append_right _ (by simp only [joinKeys, List.mem_map]; exact ⟨cp, hcp, rfl⟩))
    obtain ⟨M, hM, hMrows, hMcols, _, hMidx⟩ := mergeFrames_ok F P conds (hclean hmp)
      (fun cp hcp => hcols _ (hkeys cp hcp)) (fun cp hcp => hPcols _ (List.mem_map.mpr ⟨cp, hcp, rfl⟩)) hPidx
    rw [hM, bind_ok]
    -- the join condition between a child row and a parent row, in terms of the source rows they stand for
    have hmatch : ∀ (l p : FRow) (ρ ρ' : Row), Rep senv.na C l.src ρ → Rep senv.na (conds.map (·.2)) p.src ρ' →
        (keysMatch conds l p = true ↔ ∀ cp ∈ conds, cellStr ρ cp.1 = cellStr ρ' cp.2) := by
      intro l p ρ ρ' hl hp
      simp only [keysMatch, List.all_eq_true, Bool.and_eq_true, decide_eq_true_eq]
      constructor
      · intro h cp hcp
        have h1 := (hl _ (hkeys cp hcp)).1
        have h2 := (hp _ (List.mem_map.mpr ⟨cp, hcp, rfl⟩)).1
        have := (h cp hcp).1
        rw [h1, h2] at this
        exact Option.some.inj this
      · intro h cp hcp
        have h1 := (hl _ (hkeys cp hcp)).1
        have h2 := (hp _ (List.mem_map.mpr ⟨cp, hcp, rfl⟩)).1
        rw [h1, h2, h cp hcp]
        simp
    have hjoin : ∀ (ρ ρ' : Row), (∀ cp ∈ conds, valueOf senv.na ρ cp.1 = some (cellStr ρ cp.1)) →
        (∀ cp ∈ conds, valueOf senv.na ρ' cp.2 = some (cellStr ρ' cp.2)) → ρ' ∈ senv.tableF q →
        (ρ' ∈ joinRows senv.na conds ρ (senv.tableF q) ↔ ∀ cp ∈ conds, cellStr ρ cp.1 = cellStr ρ' cp.2) := by
      intro ρ ρ' h1 h2 hmem
      simp only [joinRows, List.mem_filter, hmem, true_and, List.all_eq_true]
      constructor
      · intro h cp hcp
        have := h cp hcp
        rw [h1 cp hcp, h2 cp hcp] at this
        simpa using this
      · intro h cp hcp
        rw [h1 cp hcp, h2 cp hcp]
        simpa using h cp hcp
    refine ⟨_, rfl, ⟨?_, ?_, ?_, ?_⟩, ?_, ?_⟩
    · intro φ' hφ'
      simp only [Frame.dropScratch, Frame.mapRows, List.mem_map, hMrows, mergedRows, List.mem_flatMap, List.mem_filter] at hφ'
      obtain ⟨m, ⟨l, hl, p, ⟨hp, hkm⟩, rfl⟩, rfl⟩ := hφ'
      obtain ⟨ρ', hρ', hRp, t, hpt, htq⟩ := hFA p hp
      refine ⟨l, hl, Ext_set hsg _ ⟨fun c v hv => lookup_append_left hv, fun _ _ => rfl⟩, quote t, ?_, ?_⟩
      · rw [hsg.get_set]; simp [hpt, wrapQuoted_eq]
      · intro ρ hρ
        rw [mem_flatPos_quoted senv frs (n + 1) ρ id conds q hq]
        refine ⟨ρ', ?_, t, by simpa [flatAt] using htq, rfl⟩
        simp only [flatPaired, hce', Bool.false_eq_true, ↓reduceIte]
        rw [hjoin ρ ρ' (fun cp hcp => (hρ _ (hkeys cp hcp)).2) (fun cp hcp => (hRp _ (List.mem_map.mpr ⟨cp, hcp, rfl⟩)).2) hρ']
        exact (hmatch l p ρ ρ' hρ hRp).mp hkm
    · intro l hl ρ hρ x hx
      obtain ⟨ρ', hρ', t, ht, rfl⟩ := (mem_flatPos_quoted senv frs (n + 1) ρ id conds q hq x).mp hx
      simp only [flatPaired, hce', Bool.false_eq_true, ↓reduceIte] at hρ'
      have hmem : ρ' ∈ senv.tableF q := (List.mem_filter.mp hρ').1
      have hcondsat := (List.mem_filter.mp hρ').2
      simp only [List.all_eq_true] at hcondsat
      have hpnn : ∀ c ∈ conds.map (·.2), valueOf senv.na ρ' c ≠ none := by
        intro c hc
        obtain ⟨cp, hcp, rfl⟩ := List.mem_map.mp hc
        have := hcondsat cp hcp
        intro hnone
        rw [hnone] at this
        cases hv : valueOf senv.na ρ cp.1 <;> simp [hv] at this
      obtain ⟨p, hp, hRp, hpt⟩ := hFB ρ' hmem hpnn t (by simpa [flatAt] using ht)
      have hkm : keysMatch conds l p = true := by
        rw [hmatch l p ρ ρ' hρ hRp]
        exact (hjoin ρ ρ' (fun cp hcp => (hρ _ (hkeys cp hcp)).2)
          (fun cp hcp => (hRp _ (List.mem_map.mpr ⟨cp, hcp, rfl⟩)).2) hmem).mp hρ'
      refine ⟨set { l with src := l.src ++ prefixRow p.src, parentTriple := none } (some (quote t)), ?_,
        Ext_set hsg _ ⟨fun c v hv => lookup_append_left hv, fun _ _ => rfl⟩, hsg.get_set _ _⟩
      simp only [Frame.dropScratch, Frame.mapRows, List.mem_map, hMrows, mergedRows, List.mem_flatMap, List.mem_filter]
      refine ⟨{ l with src := l.src ++ prefixRow p.src, parentTriple := p.triple }, ⟨l, hl, p, ⟨hp, hkm⟩, rfl⟩, ?_⟩
      simp [hpt, wrapQuoted_eq]
    · intro c hc
      simp only [Frame.dropScratch, Frame.mapRows, hMcols]
      exact List.mem_append_left _ hc
    · intro k hk
      exact .inr (hMidx k (by simpa [Frame.dropScratch, Frame.mapRows] using hk))
    · intro h0
      rw [hmp] at h0
      cases h0
    · intro φ' hφ'
      simp only [Frame.dropScratch, Frame.mapRows, List.mem_map, hMrows, mergedRows, List.mem_flatMap, List.mem_filter] at hφ'
      obtain ⟨m, ⟨l, hl, p, _, rfl⟩, rfl⟩ := hφ'
      obtain ⟨ρ, hρ⟩ := hrows l hl
      refine ⟨ρ, ?_⟩
      rw [hsg.src]
      intro c hc
      exact ⟨lookup_append_left (hρ c hc).1, (hρ c hc).2⟩

end Model.Star
