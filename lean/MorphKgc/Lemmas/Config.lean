/-
Helper lemmas for C19: association-list get/set, ASCII case mapping, and the general theorems about
`completeWith` / `validateWith` for *arbitrary* tables and check lists satisfying decidable side conditions
(option names pairwise distinct, every check upper-cases, writes back and raises).
-/
import MorphKgc.Model.Config

namespace Lemmas.Config
open Py Model

/-! ### get / set -/

theorem cfgGet_cfgSet_eq (c : Cfg) (o v : Str) : cfgGet (cfgSet c o v) o = some v := by
  induction c with
  | nil => simp [cfgSet, cfgGet]
  | cons kv r ih =>
    obtain ⟨k, w⟩ := kv
    by_cases h : k = o
    · simp [cfgSet, cfgGet, h]
    · simp [cfgSet, cfgGet, h, ih]

theorem cfgGet_cfgSet_ne (c : Cfg) {o o' : Str} (v : Str) (h : o' ≠ o) : cfgGet (cfgSet c o v) o' = cfgGet c o' := by
  induction c with
  | nil =>
    have : ¬ o = o' := fun e => h e.symm
    simp [cfgSet, cfgGet, this]
  | cons kv r ih =>
    obtain ⟨k, w⟩ := kv
    by_cases hk : k = o
    · subst hk
      have : ¬ k = o' := fun e => h e.symm
      simp [cfgSet, cfgGet, this]
    · by_cases hk' : k = o'
      · subst hk'
        simp [cfgSet, cfgGet, hk]
      · simp [cfgSet, cfgGet, hk, hk', ih]

theorem cfgSet_of_get {c : Cfg} {o v : Str} (h : cfgGet c o = some v) : cfgSet c o v = c := by
  induction c with
  | nil => simp [cfgGet] at h
  | cons kv r ih =>
    obtain ⟨k, w⟩ := kv
    by_cases hk : k = o
    · simp [cfgGet, hk] at h
      simp [cfgSet, hk, h]
    · simp [cfgGet, hk] at h
      simp [cfgSet, hk, ih h]

/-! ### ASCII case mapping -/

theorem isLower_ofNat_sub (n : Nat) (h1 : 97 ≤ n) (h2 : n ≤ 122) : (Char.ofNat (n - 32)).isLower = false := by
  have : ∀ m, m < 123 → 97 ≤ m → (Char.ofNat (m - 32)).isLower = false := by decide
  exact this n (by omega) h1

theorem isUpper_ofNat_add (n : Nat) (h1 : 65 ≤ n) (h2 : n ≤ 90) : (Char.ofNat (n + 32)).isUpper = false := by
  have : ∀ m, m < 91 → 65 ≤ m → (Char.ofNat (m + 32)).isUpper = false := by decide
  exact this n (by omega) h1

theorem asciiUpperC_idem (c : Char) : asciiUpperC (asciiUpperC c) = asciiUpperC c := by
  unfold asciiUpperC
  by_cases h : c.isLower = true
  · have hb : 97 ≤ c.toNat ∧ c.toNat ≤ 122 := by
      simp only [Char.isLower, Bool.and_eq_true, decide_eq_true_eq] at h
      exact ⟨h.1, h.2⟩
    simp only [h, if_true]
    rw [isLower_ofNat_sub _ hb.1 hb.2]
    simp
  · simp [h]

theorem asciiLowerC_idem (c : Char) : asciiLowerC (asciiLowerC c) = asciiLowerC c := by
  unfold asciiLowerC
  by_cases h : c.isUpper = true
  · have hb : 65 ≤ c.toNat ∧ c.toNat ≤ 90 := by
      simp only [Char.isUpper, decide_eq_true_eq] at h
      exact ⟨h.1, h.2⟩
    simp only [h, if_true]
    rw [isUpper_ofNat_add _ hb.1 hb.2]
    simp
  · simp [h]

theorem asciiUpper_idem (s : Str) : asciiUpper (asciiUpper s) = asciiUpper s := by
  simp [asciiUpper, List.map_map, Function.comp_def, asciiUpperC_idem]

theorem asciiLower_idem (s : Str) : asciiLower (asciiLower s) = asciiLower s := by
  simp [asciiLower, List.map_map, Function.comp_def, asciiLowerC_idem]

theorem asciiUpper_eq_nil {s : Str} : asciiUpper s = [] ↔ s = [] := by
  simp [asciiUpper]

/-! ### defaults -/

theorem completeEntry_get_self (cpu : Nat) (c : Cfg) (e : Bool × Str × DefaultVal) :
    cfgGet (completeEntry cpu c e) e.2.1 = some (finalOf cpu e.1 e.2.2 (cfgGet c e.2.1)) := by
  unfold completeEntry isProvided
  cases hg : cfgGet c e.2.1 with
  | none => simp [finalOf, cfgGet_cfgSet_eq]
  | some v =>
    by_cases hv : v = [] ∧ e.1 = false
    · simp [finalOf, hv, cfgGet_cfgSet_eq]
    · simp [finalOf, hv, hg]

theorem completeEntry_get_other (cpu : Nat) (c : Cfg) (e : Bool × Str × DefaultVal) {o : Str} (h : o ≠ e.2.1) :
    cfgGet (completeEntry cpu c e) o = cfgGet c o := by
  unfold completeEntry
  split
  · rfl
  · exact cfgGet_cfgSet_ne c _ h

theorem foldl_complete_get_notin (cpu : Nat) (es : List (Bool × Str × DefaultVal)) (c : Cfg) {o : Str}
    (h : o ∉ es.map (·.2.1)) : cfgGet (es.foldl (completeEntry cpu) c) o = cfgGet c o := by
  induction es generalizing c with
  | nil => rfl
  | cons e es ih =>
    simp only [List.map_cons, List.mem_cons, not_or] at h
    simp only [List.foldl_cons]
    rw [ih _ h.2, completeEntry_get_other cpu c e h.1]

theorem foldl_complete_get_mem (cpu : Nat) (es : List (Bool × Str × DefaultVal)) (c : Cfg)
    (hnd : (es.map (·.2.1)).Nodup) {e : Bool × Str × DefaultVal} (he : e ∈ es) :
    cfgGet (es.foldl (completeEntry cpu) c) e.2.1 = some (finalOf cpu e.1 e.2.2 (cfgGet c e.2.1)) := by
  induction es generalizing c with
  | nil => simp at he
  | cons a es ih =>
    simp only [List.map_cons, List.nodup_cons] at hnd
    simp only [List.foldl_cons]
    rcases List.mem_cons.mp he with rfl | hmem
    · rw [foldl_complete_get_notin cpu es _ hnd.1, completeEntry_get_self]
    · have hne : e.2.1 ≠ a.2.1 := by
        intro heq
        exact hnd.1 (heq ▸ List.mem_map_of_mem hmem)
      rw [ih _ hnd.2 hmem, completeEntry_get_other cpu c a hne]

theorem foldl_complete_fix (cpu : Nat) (es : List (Bool × Str × DefaultVal)) (c : Cfg)
    (h : ∀ e ∈ es, completeEntry cpu c e = c) : es.foldl (completeEntry cpu) c = c := by
  induction es with
  | nil => rfl
  | cons a es ih =>
    simp only [List.foldl_cons]
    rw [h a (List.mem_cons_self ..)]
    exact ih fun e he => h e (List.mem_cons_of_mem _ he)

/-- an entry leaves `c` alone as soon as the option holds a value that is either provided or already the default -/
theorem completeEntry_fix (cpu : Nat) (c : Cfg) (e : Bool × Str × DefaultVal) {x : Str}
    (hx : cfgGet c e.2.1 = some x) (h : (x = [] ∧ e.1 = false) → x = e.2.2.eval cpu) :
    completeEntry cpu c e = c := by
  unfold completeEntry isProvided
  simp only [hx]
  by_cases hv : x = [] ∧ e.1 = false
  · simp only [hv, and_self, if_true]
    have := h hv
    simp only [Bool.false_eq_true, if_false]
    rw [← this]
    have hx' : cfgGet c e.2.1 = some x := hx
    rw [hv.1] at hx' ⊢
    exact cfgSet_of_get hx'
  · simp [hv]

theorem finalOf_fix (cpu : Nat) (ev : Bool) (d : DefaultVal) (cur : Option Str) :
    (finalOf cpu ev d cur = [] ∧ ev = false) → finalOf cpu ev d cur = d.eval cpu := by
  intro h
  cases cur with
  | none => rfl
  | some v =>
    by_cases hv : v = [] ∧ ev = false
    · simp [finalOf, hv]
    · exfalso
      simp only [finalOf, hv, if_false] at h

theorem completeWith_idem (steps : List CompleteStep) (cpu : Nat) (c : Cfg)
    (hnd : ((completeEntries steps).map (·.2.1)).Nodup) :
    completeWith steps cpu (completeWith steps cpu c) = completeWith steps cpu c := by
  unfold completeWith
  apply foldl_complete_fix
  intro e he
  have hg := foldl_complete_get_mem cpu _ c hnd he
  exact completeEntry_fix cpu _ e hg (finalOf_fix cpu e.1 e.2.2 _)

/-! ### validation -/

def strict (e : EnumCheck) : Bool := e.upper && e.writeBack && e.raises

theorem checkEnum_strict {e : EnumCheck} (hs : strict e = true) (c : Cfg) :
    checkEnum e c =
      match cfgGet c e.option with
      | none => .error (.noOption e.option)
      | some v => if asciiUpper v ∈ e.valid then .ok (cfgSet c e.option (asciiUpper v)) else .error (.valueError e.option) := by
  simp only [strict, Bool.and_eq_true] at hs
  obtain ⟨⟨h1, h2⟩, h3⟩ := hs
  unfold checkEnum
  cases cfgGet c e.option with
  | none => rfl
  | some v =>
    simp only [h1, h2, h3, if_true]
    cases e.setterUpper <;> simp [asciiUpper_idem]

/-- what makes one check pass -/
def Passes (e : EnumCheck) (c : Cfg) : Prop := ∃ v, cfgGet c e.option = some v ∧ asciiUpper v ∈ e.valid

theorem checkEnum_ok_iff {e : EnumCheck} (hs : strict e = true) (c c' : Cfg) :
    checkEnum e c = .ok c' ↔ ∃ v, cfgGet c e.option = some v ∧ asciiUpper v ∈ e.valid ∧ c' = cfgSet c e.option (asciiUpper v) := by
  rw [checkEnum_strict hs]
  cases hg : cfgGet c e.option with
  | none => simp
  | some v =>
    by_cases hv : asciiUpper v ∈ e.valid
    · simp only [hv, if_true, Except.ok.injEq, Option.some.injEq]
      constructor
      · intro h; exact ⟨v, rfl, hv, h.symm⟩
      · rintro ⟨w, rfl, _, h⟩; exact h.symm
    · simp only [hv, if_false]
      constructor
      · intro h; cases h
      · rintro ⟨w, hw, hw', _⟩
        cases hw
        exact absurd hw' hv

theorem checkEnum_error {e : EnumCheck} (hs : strict e = true) (c : Cfg) (err : CfgErr) (h : checkEnum e c = .error err) :
    (cfgGet c e.option = none ∧ err = .noOption e.option) ∨
    (∃ v, cfgGet c e.option = some v ∧ asciiUpper v ∉ e.valid ∧ err = .valueError e.option) := by
  rw [checkEnum_strict hs] at h
  cases hg : cfgGet c e.option with
  | none =>
    simp only [hg] at h
    left; exact ⟨rfl, by cases h; rfl⟩
  | some v =>
    simp only [hg] at h
    right
    by_cases hv : asciiUpper v ∈ e.valid
    · simp [hv] at h
    · simp only [hv, if_false] at h
      exact ⟨v, rfl, hv, by cases h; rfl⟩

/-- acceptance: every check finds an acceptable value (options pairwise distinct, so earlier write-backs
    do not disturb later reads) -/
theorem validateWith_ok_iff (checks : List EnumCheck) (hs : checks.all strict = true)
    (hnd : (checks.map (·.option)).Nodup) (c : Cfg) :
    (∃ c', validateWith checks c = .ok c') ↔ ∀ e ∈ checks, Passes e c := by
  induction checks generalizing c with
  | nil => simp [validateWith]
  | cons e es ih =>
    simp only [List.all_cons, Bool.and_eq_true] at hs
    simp only [List.map_cons, List.nodup_cons] at hnd
    have hother : ∀ v, ∀ e' ∈ es, (Passes e' (cfgSet c e.option v) ↔ Passes e' c) := by
      intro v e' he'
      have hne : e'.option ≠ e.option := fun heq => hnd.1 (heq ▸ List.mem_map_of_mem he')
      unfold Passes
      rw [cfgGet_cfgSet_ne c v hne]
    constructor
    · rintro ⟨c', h⟩
      simp only [validateWith] at h
      cases hce : checkEnum e c with
      | error err => simp [hce] at h
      | ok c1 =>
        simp only [hce] at h
        obtain ⟨v, hv, hvv, rfl⟩ := (checkEnum_ok_iff hs.1 c c1).mp hce
        intro e' he'
        rcases List.mem_cons.mp he' with rfl | hmem
        · exact ⟨v, hv, hvv⟩
        · exact (hother _ e' hmem).mp ((ih hs.2 hnd.2 _).mp ⟨c', h⟩ e' hmem)
    · intro h
      obtain ⟨v, hv, hvv⟩ := h e (List.mem_cons_self ..)
      have hce : checkEnum e c = .ok (cfgSet c e.option (asciiUpper v)) :=
        (checkEnum_ok_iff hs.1 c _).mpr ⟨v, hv, hvv, rfl⟩
      simp only [validateWith, hce]
      apply (ih hs.2 hnd.2 _).mpr
      intro e' he'
      exact (hother _ e' he').mpr (h e' (List.mem_cons_of_mem _ he'))

/-- what an accepted configuration looks like: the validated options hold the upper-cased value, nothing else moved -/
theorem validateWith_ok_get (checks : List EnumCheck) (hs : checks.all strict = true)
    (hnd : (checks.map (·.option)).Nodup) (c c' : Cfg) (h : validateWith checks c = .ok c') (o : Str) :
    cfgGet c' o = if o ∈ checks.map (·.option) then (cfgGet c o).map asciiUpper else cfgGet c o := by
  induction checks generalizing c with
  | nil =>
    simp only [validateWith, Except.ok.injEq] at h
    simp [h]
  | cons e es ih =>
    simp only [List.all_cons, Bool.and_eq_true] at hs
    simp only [List.map_cons, List.nodup_cons] at hnd
    simp only [validateWith] at h
    cases hce : checkEnum e c with
    | error err => simp [hce] at h
    | ok c1 =>
      simp only [hce] at h
      obtain ⟨v, hv, _, rfl⟩ := (checkEnum_ok_iff hs.1 c c1).mp hce
      rw [ih hs.2 hnd.2 _ h]
      by_cases ho : o = e.option
      · subst ho
        simp [hnd.1, cfgGet_cfgSet_eq, hv]
      · rw [cfgGet_cfgSet_ne c _ ho]
        simp [ho]

/-- rejection: the error is the one of the *first* check (in code order) that does not pass -/
theorem validateWith_error (checks : List EnumCheck) (hs : checks.all strict = true)
    (hnd : (checks.map (·.option)).Nodup) (c : Cfg) (err : CfgErr) (h : validateWith checks c = .error err) :
    ∃ pre e post, checks = pre ++ e :: post ∧ (∀ e' ∈ pre, Passes e' c) ∧
      ((cfgGet c e.option = none ∧ err = .noOption e.option) ∨
       (∃ v, cfgGet c e.option = some v ∧ asciiUpper v ∉ e.valid ∧ err = .valueError e.option)) := by
  induction checks generalizing c with
  | nil => simp [validateWith] at h
  | cons e es ih =>
    simp only [List.all_cons, Bool.and_eq_true] at hs
    simp only [List.map_cons, List.nodup_cons] at hnd
    simp only [validateWith] at h
    cases hce : checkEnum e c with
    | error err' =>
      simp only [hce, Except.error.injEq] at h
      subst h
      exact ⟨[], e, es, rfl, by simp, checkEnum_error hs.1 c _ hce⟩
    | ok c1 =>
      simp only [hce] at h
      obtain ⟨v, hv, hvv, rfl⟩ := (checkEnum_ok_iff hs.1 c c1).mp hce
      obtain ⟨pre, e2, post, heq, hpre, hfail⟩ := ih hs.2 hnd.2 _ h
      have hmem2 : ∀ e' ∈ es, e'.option ≠ e.option := fun e' he' heq' => hnd.1 (heq' ▸ List.mem_map_of_mem he')
      refine ⟨e :: pre, e2, post, by simp [heq], ?_, ?_⟩
      · intro e' he'
        rcases List.mem_cons.mp he' with rfl | hm
        · exact ⟨v, hv, hvv⟩
        · have hin : e' ∈ es := by rw [heq]; exact List.mem_append_left _ hm
          have := hpre e' hm
          unfold Passes at this ⊢
          rwa [cfgGet_cfgSet_ne c _ (hmem2 e' hin)] at this
      · have hin : e2 ∈ es := by rw [heq]; simp
        rwa [cfgGet_cfgSet_ne c _ (hmem2 e2 hin)] at hfail

theorem validateWith_fix (checks : List EnumCheck) (c : Cfg) (h : ∀ e ∈ checks, checkEnum e c = .ok c) :
    validateWith checks c = .ok c := by
  induction checks with
  | nil => rfl
  | cons e es ih =>
    simp only [validateWith, h e (List.mem_cons_self ..)]
    exact ih fun e' he' => h e' (List.mem_cons_of_mem _ he')

/-- validation is idempotent on what it accepts -/
theorem validateWith_idem (checks : List EnumCheck) (hs : checks.all strict = true)
    (hnd : (checks.map (·.option)).Nodup) (c c' : Cfg) (h : validateWith checks c = .ok c') :
    validateWith checks c' = .ok c' := by
  apply validateWith_fix
  intro e he
  have hpass := (validateWith_ok_iff checks hs hnd c).mp ⟨c', h⟩ e he
  obtain ⟨v, hv, hvv⟩ := hpass
  have hg := validateWith_ok_get checks hs hnd c c' h e.option
  simp only [List.mem_map_of_mem he, if_true, hv, Option.map_some] at hg
  have hse : strict e = true := List.all_eq_true.mp hs e he
  apply (checkEnum_ok_iff hse c' c').mpr
  refine ⟨asciiUpper v, hg, by rw [asciiUpper_idem]; exact hvv, ?_⟩
  rw [asciiUpper_idem]
  exact (cfgSet_of_get hg).symm

/-! ### loaders -/

theorem runSteps_filter (steps : List CompleteStep) (checks : List EnumCheck) (cpu : Nat) (ls : List LoadStep) (c : Cfg) :
    runSteps steps checks cpu ls c =
      runSteps steps checks cpu (ls.filter fun s => s = .completeDefaults ∨ s = .validate) c := by
  induction ls generalizing c with
  | nil => rfl
  | cons s ss ih =>
    cases s <;> simp [runSteps, runStep, ih]

/-! ### de-duplication keeps membership -/

theorem mem_dedup {α} [BEq α] [LawfulBEq α] (x : α) (xs : List α) : x ∈ dedup xs ↔ x ∈ xs := by
  induction xs with
  | nil => simp [dedup]
  | cons y ys ih =>
    simp only [dedup]
    by_cases h : (dedup ys).elem y = true
    · simp only [h, if_true, List.mem_cons]
      rw [ih]
      constructor
      · exact Or.inr
      · rintro (rfl | h')
        · have := List.elem_iff.mp h
          exact ih.mp this
        · exact h'
    · have h' : (dedup ys).elem y = false := by simpa using h
      simp only [h', Bool.false_eq_true, if_false, List.mem_cons]
      rw [ih]

end Lemmas.Config
