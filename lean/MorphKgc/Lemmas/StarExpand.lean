/-
C13, helper lemmas XIII: one call of `_expand_rml_star`.
-/
import MorphKgc.Model.StarNormalize
import MorphKgc.Lemmas.EvalRule
import MorphKgc.Lemmas.Grouping

namespace Model.Star
open Py Model

theorem mem_withIdsFrom (k : Nat) (rules : List Rule) (r : Rule) (id : Str) :
    (r, id) ∈ withIdsFrom k rules ↔ ∃ i, rules[i]? = some r ∧ id = ruleId (k + i) := by
  induction rules generalizing k with
  | nil => simp [withIdsFrom]
  | cons a rs ih =>
    simp only [withIdsFrom, List.mem_cons, Prod.mk.injEq, ih]
    constructor
    · rintro (⟨rfl, rfl⟩ | ⟨i, hi, rfl⟩)
      · exact ⟨0, by simp, by simp⟩
      · exact ⟨i + 1, by simpa using hi, by congr 1; omega⟩
    · rintro ⟨i, hi, rfl⟩
      cases i with
      | zero => left; simp at hi; exact ⟨hi.symm, by simp⟩
      | succ i => right; exact ⟨i, by simpa using hi, by congr 1; omega⟩

theorem mem_withIds (rules : List Rule) (r : Rule) (id : Str) :
    (r, id) ∈ withIds rules ↔ ∃ i, rules[i]? = some r ∧ id = ruleId i := by
  simp [withIds, mem_withIdsFrom]

theorem mem_idsOf (w0 : List (Rule × Str)) (tm id : Str) : id ∈ idsOf w0 tm ↔ ∃ r, (r, id) ∈ w0 ∧ r.tmId = tm := by
  simp only [idsOf, List.mem_map, List.mem_filter, decide_eq_true_eq]
  constructor
  · rintro ⟨p, ⟨hp, ht⟩, rfl⟩; exact ⟨p.1, hp, ht⟩
  · rintro ⟨r, hr, ht⟩; exact ⟨(r, id), ⟨hr, ht⟩, rfl⟩

theorem expandWholeList_eq : Gen.Star.expandWholeList = true := by decide

/-- what one position's pass appends -/
theorem mem_expandPos (subj : Bool) (w0 w w' : List (Rule × Str)) (h : expandPos subj w0 w = .ok w') (x : Rule × Str) :
    x ∈ w' ↔ x ∈ w ∨ ∃ p ∈ w, quotedAt subj p.1 = true ∧ ∃ q ∈ idsOf w0 (valAt subj p.1), x = (setVal subj p.1 q, p.2) := by
  unfold expandPos at h
  cases hm : w.mapM (expandRow subj w0) with
  | error e => simp [hm] at h
  | ok adds =>
    simp only [hm, Except.ok.injEq] at h
    subst h
    simp only [List.mem_append, List.mem_flatten]
    constructor
    · rintro (hx | ⟨l, hl, hx⟩)
      · exact .inl hx
      · right
        obtain ⟨p, hp, hfp⟩ := (mem_of_mapM_ok _ _ _ hm l).mp hl
        unfold expandRow at hfp
        by_cases hq : quotedAt subj p.1 = true
        · simp only [hq, ↓reduceIte, expandWholeList_eq] at hfp
          cases hids : idsOf w0 (valAt subj p.1) with
          | nil => simp [hids] at hfp
          | cons a as =>
            simp only [hids, Except.ok.injEq] at hfp
            subst hfp
            obtain ⟨q, hqm, rfl⟩ := List.mem_map.mp hx
            exact ⟨p, hp, hq, q, by rw [hids]; exact hqm, rfl⟩
        · simp only [hq, Bool.false_eq_true, ↓reduceIte, Except.ok.injEq] at hfp
          subst hfp
          cases hx
    · rintro (hx | ⟨p, hp, hq, q, hqm, rfl⟩)
      · exact .inl hx
      · right
        cases hids : idsOf w0 (valAt subj p.1) with
        | nil => rw [hids] at hqm; cases hqm
        | cons a as =>
          refine ⟨(a :: as).map fun q => (setVal subj p.1 q, p.2), ?_, ?_⟩
          · apply (mem_of_mapM_ok _ _ _ hm _).mpr
            refine ⟨p, hp, ?_⟩
            simp [expandRow, hq, hids, expandWholeList_eq]
          · rw [hids] at hqm
            exact List.mem_map.mpr ⟨q, hqm, rfl⟩

/-- **One call of `_expand_rml_star`, by membership**: the result consists of the rules `mapFirst r₂` renamed to the id of
    their origin, where `r₂` is a rule of the table, or a rule of the table with its quoted subject replaced by the id of a rule
    of the quoted triples map, or one of these with its quoted object replaced likewise. -/
theorem mem_expandStep (rules out : List Rule) (h : expandStep rules = .ok out) (r' : Rule) :
    r' ∈ out ↔ ∃ p2, (p2 ∈ withIds rules ∨
        (∃ p ∈ withIds rules, quotedAt true p.1 = true ∧ ∃ q ∈ idsOf (withIds rules) (valAt true p.1), p2 = (setVal true p.1 q, p.2)) ∨
        (∃ p1, (p1 ∈ withIds rules ∨ ∃ p ∈ withIds rules, quotedAt true p.1 = true ∧
            ∃ q ∈ idsOf (withIds rules) (valAt true p.1), p1 = (setVal true p.1 q, p.2)) ∧
          quotedAt false p1.1 = true ∧ ∃ q ∈ idsOf (withIds rules) (valAt false p1.1), p2 = (setVal false p1.1 q, p1.2))) ∧
      r' = { mapFirst (withIds rules) p2.1 with tmId := p2.2 } := by
  unfold expandStep at h
  cases h1 : expandPos true (withIds rules) (withIds rules) with
  | error e => simp [h1] at h
  | ok w1 =>
    cases h2 : expandPos false (withIds rules) w1 with
    | error e => simp [h1, h2] at h
    | ok w2 =>
      simp only [h1, h2, Except.ok.injEq] at h
      subst h
      simp only [List.mem_map, mem_dedupFirst, mem_expandPos false _ _ _ h2, mem_expandPos true _ _ _ h1]
      constructor
      · rintro ⟨p3, ⟨p2, hp2, rfl⟩, rfl⟩
        refine ⟨p2, ?_, rfl⟩
        rcases hp2 with (h | h) | ⟨p1, hp1, hq, q, hqm, rfl⟩
        · exact .inl h
        · exact .inr (.inl h)
        · exact .inr (.inr ⟨p1, hp1, hq, q, hqm, rfl⟩)
      · rintro ⟨p2, hp2, rfl⟩
        refine ⟨_, ⟨p2, ?_, rfl⟩, rfl⟩
        rcases hp2 with h | h | ⟨p1, hp1, hq, q, hqm, rfl⟩
        · exact .inl (.inl h)
        · exact .inl (.inr h)
        · exact .inr ⟨p1, hp1, hq, q, hqm, rfl⟩

/-! ### a normalised table is a fixpoint -/

/-- elements already present are absorbed by `dedupFirst` -/
theorem dedupFirst_append_absorb {α} [BEq α] [LawfulBEq α] (l l' : List α) (hn : l.Nodup) (hsub : ∀ x ∈ l', x ∈ l) :
    dedupFirst (l ++ l') = l := by
  unfold dedupFirst
  rw [List.foldl_append, Py.dedupFirst_fold_of_nodup l [] (by simp) hn, List.append_nil]
  have : ∀ (l' : List α) (acc : List α), (∀ x ∈ l', x ∈ acc) →
      l'.foldl (fun acc y => if acc.elem y then acc else y :: acc) acc = acc := by
    intro l'
    induction l' with
    | nil => intro acc _; rfl
    | cons y ys ih =>
      intro acc h
      rw [List.foldl_cons]
      have hy : acc.elem y = true := by simpa using h y (by simp)
      simp only [hy, ↓reduceIte]
      exact ih acc (fun x hx => h x (List.mem_cons_of_mem _ hx))
  rw [this l' l.reverse (fun x hx => by simpa using hsub x hx)]
  simp

/-- every rule is its own triples map, named by its position -/
def Positional (rules : List Rule) : Prop := ∀ i r, rules[i]? = some r → r.tmId = ruleId i

theorem withIdsFrom_positional (k : Nat) (rules : List Rule) (h : ∀ i r, rules[i]? = some r → r.tmId = ruleId (k + i)) :
    withIdsFrom k rules = rules.map fun r => (r, r.tmId) := by
  induction rules generalizing k with
  | nil => rfl
  | cons a rs ih =>
    simp only [withIdsFrom, List.map_cons]
    have h0 := h 0 a (by simp)
    rw [ih (k + 1) (fun i r hi => by have := h (i + 1) r (by simpa using hi); rw [this]; congr 1; omega)]
    simp [h0]

theorem idsOf_self (rules : List Rule) (hn : (rules.map (·.tmId)).Nodup) (v : Str) :
    idsOf (rules.map fun r => (r, r.tmId)) v = if v ∈ rules.map (·.tmId) then [v] else [] := by
  induction rules with
  | nil => simp [idsOf]
  | cons a rs ih =>
    simp only [List.map_cons, List.nodup_cons] at hn
    have ih' := ih hn.2
    simp only [idsOf, List.map_cons, List.filter_cons] at ih' ⊢
    by_cases ha : a.tmId = v
    · subst ha
      have hnot : a.tmId ∉ rs.map (·.tmId) := hn.1
      simp only [hnot, ↓reduceIte] at ih'
      simp [ih']
    · have hne : ¬ v = a.tmId := fun e => ha e.symm
      simp only [ha, decide_false, Bool.false_eq_true, ↓reduceIte, ih', List.mem_cons, hne, false_or]

theorem setVal_same (subj : Bool) (r : Rule) : setVal subj r (valAt subj r) = r := by
  cases subj <;> simp [setVal, valAt]

/-- **Fixpoint.**  On a table in which every rule is its own triples map named `#TM<position>` and every quoted reference
    names a rule, `_expand_rml_star` changes nothing: this is where `_normalize_rml_star` stops. -/
theorem expandStep_fixpoint (rules : List Rule) (hpos : Positional rules) (hn : (rules.map (·.tmId)).Nodup)
    (hres : ∀ r ∈ rules, (r.subjectMapType = .quoted → r.subjectMapValue ∈ rules.map (·.tmId)) ∧
      (r.objectMapType = .quoted → r.objectMapValue ∈ rules.map (·.tmId))) :
    expandStep rules = .ok rules := by
  have hw0 : withIds rules = rules.map fun r => (r, r.tmId) :=
    withIdsFrom_positional 0 rules (fun i r hi => by simpa using hpos i r hi)
  -- a pass appends only pairs that are already there
  have hrow : ∀ (subj : Bool) (r : Rule), r ∈ rules → ∃ l, expandRow subj (withIds rules) (r, r.tmId) = .ok l ∧
      ∀ x ∈ l, x ∈ withIds rules := by
    intro subj r hr
    unfold expandRow
    by_cases hq : quotedAt subj r = true
    · have hmem : valAt subj r ∈ rules.map (·.tmId) := by
        cases subj
        · simp only [quotedAt, Bool.false_eq_true, ↓reduceIte, decide_eq_true_eq] at hq
          simpa [valAt] using (hres r hr).2 hq
        · simp only [quotedAt, ↓reduceIte, decide_eq_true_eq] at hq
          simpa [valAt] using (hres r hr).1 hq
      simp only [hq, ↓reduceIte, hw0, idsOf_self rules hn, hmem, expandWholeList_eq, List.map_cons, List.map_nil, setVal_same]
      exact ⟨_, rfl, fun x hx => by
        simp only [List.mem_singleton] at hx; subst hx; exact List.mem_map.mpr ⟨r, hr, rfl⟩⟩
    · simp only [hq, Bool.false_eq_true, ↓reduceIte]
      exact ⟨[], rfl, fun x hx => by cases hx⟩
  have hpass : ∀ (subj : Bool) (w : List (Rule × Str)), (∀ p ∈ w, p ∈ withIds rules) →
      ∃ extra, expandPos subj (withIds rules) w = .ok (w ++ extra) ∧ ∀ x ∈ extra, x ∈ withIds rules := by
    intro subj w hw
    have hall : ∀ p ∈ w, ∃ l, expandRow subj (withIds rules) p = .ok l := by
      intro p hp
      have := hw p hp
      rw [hw0] at this
      obtain ⟨r, hr, rfl⟩ := List.mem_map.mp this
      obtain ⟨l, hl, _⟩ := hrow subj r hr
      exact ⟨l, hl⟩
    obtain ⟨adds, hadds⟩ := mapM_ok_of_forall_exists _ w hall
    refine ⟨adds.flatten, by simp [expandPos, hadds], ?_⟩
    intro x hx
    obtain ⟨l, hl, hxl⟩ := List.mem_flatten.mp hx
    obtain ⟨p, hp, hfp⟩ := (mem_of_mapM_ok _ _ _ hadds l).mp hl
    have := hw p hp
    rw [hw0] at this
    obtain ⟨r, hr, rfl⟩ := List.mem_map.mp this
    obtain ⟨l', hl', hsub⟩ := hrow subj r hr
    rw [hl'] at hfp
    cases hfp
    exact hsub x hxl
  obtain ⟨e1, h1, he1⟩ := hpass true (withIds rules) (fun p hp => hp)
  obtain ⟨e2, h2, he2⟩ := hpass false (withIds rules ++ e1) (fun p hp => by
    rcases List.mem_append.mp hp with h | h
    · exact h
    · exact he1 p h)
  -- the substitution of first ids is the identity
  have hfirst : ∀ v, firstId (withIds rules) v = v := by
    intro v
    simp only [firstId, hw0, idsOf_self rules hn]
    split <;> rfl
  have hmf : ∀ r, mapFirst (withIds rules) r = r := by
    intro r
    unfold mapFirst
    split <;> simp [hfirst]
  unfold expandStep
  simp only [h1, h2, hmf]
  have hid : ((withIds rules ++ e1 ++ e2).map fun p => (p.1, p.2)) = withIds rules ++ (e1 ++ e2) := by simp
  have hnd : (withIds rules).Nodup := by
    rw [hw0]
    have : ((rules.map fun r => (r, r.tmId)).map (·.2)) = rules.map (·.tmId) := by simp
    rw [← this] at hn
    exact (List.pairwise_map.mp hn).imp (fun h e => h (congrArg _ e))
  rw [hid, dedupFirst_append_absorb _ _ hnd (fun x hx => by
    rcases List.mem_append.mp hx with h | h
    · exact he1 x h
    · exact he2 x h), hw0]
  simp only [List.map_map]
  conv => rhs; rw [← List.map_id rules]
  congr 1

end Model.Star
