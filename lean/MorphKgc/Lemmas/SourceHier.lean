/-
C10 — the hierarchical readers (`Model.readJson`, `Model.readXml` of C06) on the structured payload of a flat table: what they deliver
agrees with the table on every referenced column, row by row, up to NULLs the engine drops.
-/
import MorphKgc.Lemmas.SourceDeliver

namespace Lemmas.Read
open Py Model Spec.Payload

/-! ## generic list / lookup facts -/

theorem breakOn_none_of_not_mem {sep s : Str} {c : Char} (hc : c ∈ sep) (hs : c ∉ s) : breakOn sep s = none := by
  induction s with
  | nil => rfl
  | cons d s ih =>
    simp only [List.mem_cons, not_or] at hs
    unfold breakOn
    have hp : sep.isPrefixOf (d :: s) = false := by
      cases hpre : sep.isPrefixOf (d :: s) with
      | false => rfl
      | true =>
        exfalso
        have hmem : c ∈ d :: s := (List.isPrefixOf_iff_prefix.mp hpre).subset hc
        rcases List.mem_cons.mp hmem with e | e
        · exact hs.1 e
        · exact hs.2 e
    simp [hp, ih hs.2]

theorem split_no_sep {s : Str} {c : Char} (h : c ∉ s) : split s [c] = [s] := by
  unfold split
  cases hn : s.length with
  | zero => rfl
  | succ n =>
    unfold splitFuel
    rw [breakOn_none_of_not_mem (List.mem_singleton.mpr rfl) h]

theorem replace_no_occ {s old new : Str} {c : Char} (hc : c ∈ old) (hs : c ∉ s) : replace s old new = s := by
  unfold replace
  cases hn : s.length with
  | zero => rfl
  | succ n =>
    unfold replaceFuel
    rw [breakOn_none_of_not_mem hc hs]

theorem lookup_filter_key {β} (q : Str → Bool) (c : Str) (l : List (Str × β)) :
    lookup c (l.filter fun kv => q kv.1) = if q c then lookup c l else none := by
  induction l with
  | nil => simp [lookup]
  | cons a l ih =>
    obtain ⟨k, v⟩ := a
    by_cases hk : k = c
    · subst hk
      cases hq : q k <;> simp [hq, lookup, ih]
    · cases hq : q k <;> simp [hq, lookup, hk, ih]

theorem lookup_filterMap_keys {β} (g : Str → Option β) (l : List Str) (c : Str) :
    lookup c (l.filterMap fun r => (g r).map fun f => (r, f)) = if c ∈ l then g c else none := by
  induction l with
  | nil => simp [lookup]
  | cons a l ih =>
    simp only [List.filterMap_cons, List.mem_cons]
    by_cases h : a = c
    · subst h
      cases hg : g a with
      | none => simp only [Option.map_none, ih, true_or, ↓reduceIte]; split <;> simp_all
      | some v => simp [lookup]
    · have hne : ¬ c = a := fun e => h e.symm
      cases g a <;> simp [lookup, h, hne, ih]

theorem lookup_append_some {β} (c : Str) (l e : List (Str × β)) (h : (lookup c l).isSome = true) : lookup c (l ++ e) = lookup c l := by
  induction l with
  | nil => simp [lookup] at h
  | cons a l ih =>
    obtain ⟨k, v⟩ := a
    simp only [List.cons_append, lookup] at h ⊢
    by_cases hk : k = c
    · simp [hk]
    · simp only [hk, ↓reduceIte] at h ⊢; exact ih h

theorem key_mem_of_lookup {β} {c : Str} {l : List (Str × β)} {v : β} (h : lookup c l = some v) : c ∈ l.map (·.1) := by
  have := lookup_mem h
  exact List.mem_map.mpr ⟨(c, v), this, rfl⟩

theorem filterMap_congr_mem {α β} (l : List α) (f g : α → Option β) (h : ∀ x ∈ l, f x = g x) : l.filterMap f = l.filterMap g := by
  induction l with
  | nil => rfl
  | cons a l ih =>
    simp only [List.filterMap_cons, h a (by simp), ih fun x hx => h x (List.mem_cons_of_mem _ hx)]

theorem flatMap_singleton_map {α β} (l : List α) (f : α → β) (g : β → List β) (h : ∀ x ∈ l, g (f x) = [f x]) :
    (l.map f).flatMap g = l.map f := by
  induction l with
  | nil => rfl
  | cons a l ih =>
    simp only [List.map_cons, List.flatMap_cons, h a (by simp), ih fun x hx => h x (List.mem_cons_of_mem _ hx)]
    rfl

/-- a reader that drops source rows which the engine would drop anyway -/
theorem preprocessG_map_filter {α} {pk : PreKind} {na refs : List Str} (rows : List α) (g : α → Row) (q : α → Bool)
    (h : ∀ r ∈ rows, survivesG pk na refs (g r) = true → q r = true) (hc : Complete refs (rows.map g) = true) :
    preprocessG pk na refs ((rows.filter q).map g) = preprocessG pk na refs (rows.map g) := by
  have hc' : Complete refs ((rows.filter q).map g) = true := by
    simp only [Complete, List.all_eq_true, List.mem_map, List.mem_filter] at hc ⊢
    rintro _ ⟨r, ⟨hr, _⟩, rfl⟩
    exact hc _ ⟨r, hr, rfl⟩
  have e : ((rows.filter q).map g).filter (survivesG pk na refs) = (rows.map g).filter (survivesG pk na refs) := by
    rw [List.filter_map, List.filter_map, List.filter_filter]
    congr 1
    apply List.filter_congr
    intro r hr
    cases hs : survivesG pk na refs (g r) with
    | false => simp [Function.comp, hs]
    | true => simp [Function.comp, hs, h r hr hs]
  rw [preprocessG_eq pk na refs _ hc', preprocessG_eq pk na refs _ hc, e]

/-! ## JSON -/

def isScalar : JField → Bool
  | .scalar _ => true
  | _ => false

def fieldCell : JField → Cell
  | .scalar v => cellOfOpt v
  | _ => .null "nan".toList

theorem jsonFlatten_scalars (rec : JRecord) (h : rec.all (fun kv => isScalar kv.2) = true) : jsonFlatten rec = [rec] := by
  induction rec with
  | nil => rfl
  | cons kv rec ih =>
    simp only [List.all_cons, Bool.and_eq_true] at h
    have := ih h.2
    unfold jsonFlatten at this ⊢
    simp only [List.foldr_cons, this]
    obtain ⟨k, f⟩ := kv
    cases f <;> simp_all [isScalar]

theorem jsonNormalizeRow_scalars (rec : JRecord) (h : rec.all (fun kv => isScalar kv.2) = true) :
    jsonNormalizeRow rec = rec.map fun kv => (kv.1, fieldCell kv.2) := by
  induction rec with
  | nil => rfl
  | cons kv rec ih =>
    simp only [List.all_cons, Bool.and_eq_true] at h
    obtain ⟨k, f⟩ := kv
    have ih' := ih h.2
    unfold jsonNormalizeRow at ih' ⊢
    rw [List.flatMap_cons, ih', List.map_cons]
    cases f with
    | scalar v => rfl
    | obj kvs => simp [isScalar] at h
    | arr vs => simp [isScalar] at h

/-- the record of one row -/
def jrec (cols : List Str) (r : List (Option Str)) : JRecord := cols.zip (r.map JField.scalar)

theorem jrec_scalars (cols : List Str) (r : List (Option Str)) : (jrec cols r).all (fun kv => isScalar kv.2) = true := by
  unfold jrec
  induction cols generalizing r with
  | nil => simp
  | cons c cols ih => cases r with
    | nil => simp
    | cons v r =>
      simp only [List.map_cons, List.zip_cons_cons, List.all_cons, isScalar, Bool.true_and]
      exact ih r

theorem all_scalars_filter (rec : JRecord) (p : Str × JField → Bool) (h : rec.all (fun kv => isScalar kv.2) = true) :
    (rec.filter p).all (fun kv => isScalar kv.2) = true := by
  simp only [List.all_eq_true, List.mem_filter] at h ⊢
  exact fun kv hkv => h kv hkv.1

theorem jsonProject_full (refs : List Str) (rec : JRecord) (hdot : ∀ c ∈ refs, '.' ∉ c) :
    jsonProject .fullReference refs rec = (dedupFirst refs).filterMap fun r' => (lookup r' rec).map fun f => (r', f) := by
  simp only [jsonProject]
  apply filterMap_congr_mem
  intro r' hr'
  have hb := breakOn_none_of_not_mem (sep := ['.']) (List.mem_singleton.mpr rfl) (hdot r' (by simpa using hr'))
  simp only [hb]

/-- the two projections on a flat record: every referenced key keeps its field, every field is a scalar, every key is a reference -/
theorem jsonProject_flat (p : JsonProjection) (refs cols : List Str) (r : List (Option Str)) (hdot : ∀ c ∈ refs, '.' ∉ c) :
    let P := jsonProject p refs (jrec cols r)
    (∀ c ∈ refs, lookup c P = lookup c (jrec cols r)) ∧ P.all (fun kv => isScalar kv.2) = true ∧ (∀ kv ∈ P, kv.1 ∈ refs) ∧
      (∀ kv ∈ P, kv ∈ jrec cols r) := by
  have hkeys : (refs.map fun r => (split r ['.']).headD []) = refs := by
    rw [show refs = refs.map id by simp, List.map_map]
    apply List.map_congr_left
    intro c hc
    simp [Function.comp, split_no_sep (hdot c hc)]
  cases p with
  | topLevelKey =>
    simp only [jsonProject, hkeys]
    refine ⟨fun c hc => ?_, all_scalars_filter _ _ (jrec_scalars cols r), fun kv hkv => ?_, fun kv hkv => (List.mem_filter.mp hkv).1⟩
    · rw [lookup_filter_key (fun k => refs.contains k)]; simp [hc]
    · simpa using (List.mem_filter.mp hkv).2
  | fullReference =>
    rw [jsonProject_full refs (jrec cols r) hdot]
    refine ⟨fun c hc => ?_, ?_, fun kv hkv => ?_, fun kv hkv => ?_⟩
    · rw [lookup_filterMap_keys]; simp [hc]
    · simp only [List.all_eq_true, List.mem_filterMap]
      rintro kv ⟨r', _, hkv⟩
      cases hl : lookup r' (jrec cols r) with
      | none => simp [hl] at hkv
      | some f =>
        simp only [hl, Option.map_some, Option.some.injEq] at hkv
        subst hkv
        have := lookup_mem hl
        have hs := jrec_scalars cols r
        simp only [List.all_eq_true] at hs
        exact hs _ this
    · simp only [List.mem_filterMap] at hkv
      obtain ⟨r', hr', hkv⟩ := hkv
      cases hl : lookup r' (jrec cols r) with
      | none => simp [hl] at hkv
      | some f =>
        simp only [hl, Option.map_some, Option.some.injEq] at hkv
        subst hkv
        simpa using hr'
    · simp only [List.mem_filterMap] at hkv
      obtain ⟨r', _, hkv⟩ := hkv
      cases hl : lookup r' (jrec cols r) with
      | none => simp [hl] at hkv
      | some f =>
        simp only [hl, Option.map_some, Option.some.injEq] at hkv
        subst hkv
        exact lookup_mem hl

theorem lookup_of_mem_nodup {β} (l : List (Str × β)) (hnd : (l.map (·.1)).Nodup) (kv : Str × β) (hkv : kv ∈ l) : lookup kv.1 l = some kv.2 := by
  induction l with
  | nil => simp at hkv
  | cons a l ih =>
    obtain ⟨k, v⟩ := a
    simp only [List.map_cons, List.nodup_cons] at hnd
    rcases List.mem_cons.mp hkv with e | e
    · subst e; simp [lookup]
    · have hne : k ≠ kv.1 := fun e' => hnd.1 (e' ▸ List.mem_map.mpr ⟨kv, e, rfl⟩)
      simp [lookup, hne, ih hnd.2 e]

theorem zip_keys_nodup {β} (cols : List Str) (x : List β) (h : cols.Nodup) : ((cols.zip x).map (·.1)).Nodup := by
  induction cols generalizing x with
  | nil => simp
  | cons c cols ih =>
    cases x with
    | nil => simp
    | cons v x =>
      simp only [List.nodup_cons] at h
      simp only [List.zip_cons_cons, List.map_cons, List.nodup_cons]
      refine ⟨fun hm => h.1 ?_, ih x h.2⟩
      obtain ⟨kv, hkv, rfl⟩ := List.mem_map.mp hm
      exact (List.of_mem_zip hkv).1

theorem lookup_jrec (cols : List Str) (r : List (Option Str)) (c : Str) :
    lookup c (jrec cols r) = (lookup c (cols.zip r)).map JField.scalar := lookup_zip_map _ c cols r

/-- **JSON readers** (file and in-memory dict / JSON text) on the records of a flat table with explicit `null`s -/
theorem json_pre {pk : PreKind} {na : List Str} (hn : NullsDropped pk na) (sh : JsonShape) (hsub : sh.dropSubset ≠ .allColumns)
    (T : StrTable) (hwf : T.WF) (refs : List Str) (hr : ∀ c ∈ refs, c ∈ T.cols) (hdot : ∀ c ∈ refs, '.' ∉ c) :
    preprocessG pk na refs (readJson sh refs (jsonRecords T)) = preprocessG pk na refs (asCells T) := by
  have hc := complete_asCells T hwf refs hr
  -- stage 1: projection, flattening
  let pr : List (Option Str) → JRecord := fun r => jsonProject sh.projection refs (jrec T.cols r)
  have hP := fun r => jsonProject_flat sh.projection refs T.cols r hdot
  have hflat : ((jsonRecords T).map (jsonProject sh.projection refs)).flatMap jsonFlatten = T.rows.map pr := by
    unfold jsonRecords
    rw [List.map_map]
    exact flatMap_singleton_map T.rows _ jsonFlatten fun r _ => jsonFlatten_scalars _ (hP r).2.1
  -- the None filter as a filter on the rows of T
  let q1 : List (Option Str) → Bool := fun r => if sh.noneFilter then !jsonHasTopNone (pr r) else true
  have hkept : (if sh.noneFilter then (T.rows.map pr).filter (fun r => !jsonHasTopNone r) else T.rows.map pr) = (T.rows.filter q1).map pr := by
    cases hnf : sh.noneFilter with
    | true => simp only [↓reduceIte, List.filter_map]; congr 1; apply List.filter_congr; intro r _; simp [q1, hnf, Function.comp]
    | false =>
      have : T.rows.filter q1 = T.rows := List.filter_eq_self.mpr fun r _ => by simp [q1, hnf]
      simp only [Bool.false_eq_true, ↓reduceIte, this]
  let rows' := T.rows.filter q1
  let colsF := dedupFirst ((rows'.map fun r => jsonNormalizeRow (pr r)).flatMap fun ρ => ρ.map (·.1))
  let F : List (Option Str) → Row := fun r =>
    let ρ := colsF.map fun c => (c, (lookup c (jsonNormalizeRow (pr r))).getD (.null "nan".toList))
    ρ ++ ((dedupFirst refs).filter fun c => (lookup c ρ).isNone).map fun c => (c, fillCell sh.missingFill)
  have hout : readJson sh refs (jsonRecords T) = dropnaBy sh.dropSubset refs (rows'.map F) := by
    unfold readJson
    simp only [hflat, hkept]
    simp only [frameOfRows, addMissing, List.map_map]
    rfl
  -- the cells on the references
  have hcell : ∀ r ∈ rows', ∀ c ∈ refs, lookup c (F r) = lookup c (T.cols.zip (r.map cellOfOpt)) := by
    intro r hrow c hcr
    have hr' : r ∈ T.rows := (List.mem_filter.mp hrow).1
    obtain ⟨v, hv⟩ := Option.isSome_iff_exists.mp (lookup_zip_isSome c T.cols r (hr c hcr) (hwf.2.2 r hr'))
    have hnorm : lookup c (jsonNormalizeRow (pr r)) = some (cellOfOpt v) := by
      rw [jsonNormalizeRow_scalars _ (hP r).2.1, lookup_map_snd, (hP r).1 c hcr, lookup_jrec, hv]
      rfl
    have hmem : c ∈ colsF := by
      simp only [colsF, mem_dedupFirst, List.mem_flatMap, List.mem_map]
      exact ⟨_, ⟨r, hrow, rfl⟩, ⟨(c, cellOfOpt v), lookup_mem hnorm, rfl⟩⟩
    have hρ : lookup c (colsF.map fun c => (c, (lookup c (jsonNormalizeRow (pr r))).getD (.null "nan".toList))) = some (cellOfOpt v) := by
      rw [lookup_map_self]; simp [hmem, hnorm]
    show lookup c (_ ++ _) = _
    rw [lookup_append_some _ _ _ (by rw [hρ]; rfl), hρ, lookup_zip_map, hv]
    rfl
  rw [hout]
  -- the final dropna removes only rows the engine drops
  have hsimF : Forall2 (RowSim pk na refs) (rows'.map F) (rows'.map fun r => T.cols.zip (r.map cellOfOpt)) :=
    forall2_map rows' _ _ fun r hrow c hcr => by
      rw [hcell r hrow c hcr]
      cases lookup c (T.cols.zip (r.map cellOfOpt)) with
      | none => trivial
      | some cell => exact .inl rfl
  have hcRows' : Complete refs (rows'.map fun r => T.cols.zip (r.map cellOfOpt)) = true := by
    unfold asCells at hc
    simp only [Complete, List.all_eq_true, List.mem_map] at hc ⊢
    rintro _ ⟨r, hrow, rfl⟩
    exact hc _ ⟨r, (List.mem_filter.mp hrow).1, rfl⟩
  have hcF := complete_sim hsimF hcRows'
  have hdrop : preprocessG pk na refs (dropnaBy sh.dropSubset refs (rows'.map F)) = preprocessG pk na refs (rows'.map F) := by
    cases hs : sh.dropSubset with
    | allColumns => exact absurd hs hsub
    | noDrop => rfl
    | references =>
      simp only [dropnaBy]
      apply preprocessG_filter _ _ _ hcF
      intro ρ hρ hsv
      simp only [survivesG, List.all_eq_true] at hsv
      simp only [rawNullIn, Bool.not_eq_true', List.any_eq_false]
      intro c hcr
      have := hsv c hcr
      obtain ⟨r, hrow, rfl⟩ := List.mem_map.mp hρ
      rw [hcell r hrow c hcr] at this ⊢
      rw [lookup_zip_map] at this ⊢
      cases hl : lookup c (T.cols.zip r) with
      | none => simp
      | some v =>
        cases v with
        | some s => simp [cellOfOpt]
        | none =>
          rw [hl] at this
          simp only [Option.map_some, cellOfOpt] at this
          rw [hn.1] at this
          exact absurd this (by decide)
  rw [hdrop, preprocessG_sim hsimF hcRows']
  -- rows removed by the None filter have a referenced NULL
  show preprocessG pk na refs ((T.rows.filter q1).map fun r => T.cols.zip (r.map cellOfOpt)) = preprocessG pk na refs (asCells T)
  apply preprocessG_map_filter T.rows _ q1 _ hc
  intro r hrow hsv
  simp only [q1]
  split
  · simp only [Bool.not_eq_true', jsonHasTopNone, List.any_eq_false]
    intro kv hkv
    have hk := (hP r).2.2.1 kv hkv
    have hmem := (hP r).2.2.2 kv hkv
    have hl := lookup_of_mem_nodup (jrec T.cols r) (zip_keys_nodup _ _ hwf.2.1) kv hmem
    rw [lookup_jrec] at hl
    simp only [survivesG, List.all_eq_true] at hsv
    have hsv' := hsv kv.1 hk
    rw [lookup_zip_map] at hsv'
    intro hnone
    cases hv : lookup kv.1 (T.cols.zip r) with
    | none => simp [hv] at hl
    | some v =>
      rw [hv] at hl hsv'
      simp only [Option.map_some, Option.some.injEq] at hl
      rw [← hl] at hnone
      simp only [decide_eq_true_eq, JField.scalar.injEq] at hnone
      subst hnone
      simp only [Option.map_some, cellOfOpt, Bool.not_eq_true'] at hsv'
      have h1 := hn.1
      rw [hsv'] at h1
      exact absurd h1 (by decide)
  · rfl

/-! ## XML -/

theorem flatMap_map_singleton {α β γ} (l : List α) (f : α → β) (g : β → List γ) (h : α → γ) (hyp : ∀ x ∈ l, g (f x) = [h x]) :
    (l.map f).flatMap g = l.map h := by
  induction l with
  | nil => rfl
  | cons a l ih =>
    simp only [List.map_cons, List.flatMap_cons, hyp a (by simp), ih fun x hx => hyp x (List.mem_cons_of_mem _ hx)]
    rfl

theorem parseXRef_plain (c : Str) (h : '@' ∉ c) : parseXRef c = .childText c := by
  unfold parseXRef
  have h1 : replace c ['/', '@'] ['@'] = c := replace_no_occ (c := '@') (by simp) h
  have h2 : startsWith c ['@'] = false := by
    cases c with
    | nil => rfl
    | cons d c =>
      simp only [List.mem_cons, not_or] at h
      have : ('@' == d) = false := by simpa using h.1
      simp [startsWith, List.isPrefixOf, this]
  have h3 : isInfix ['@'] c = false := by
    unfold isInfix; rw [breakOn_none_of_not_mem (List.mem_singleton.mpr rfl) h]; rfl
  simp only [h1, h2, h3, Bool.false_eq_true, ↓reduceIte]

/-- the children of the element of one row -/
def xmlChildren (cols : List Str) (r : List (Option Str)) : List XChild :=
  (cols.zip r).filterMap fun kv => kv.2.map fun s => { tag := kv.1, text := xmlText s }

theorem xmlChildren_tags (cols : List Str) (r : List (Option Str)) : ∀ ch ∈ xmlChildren cols r, ch.tag ∈ cols := by
  intro ch hch
  simp only [xmlChildren, List.mem_filterMap] at hch
  obtain ⟨kv, hkv, hm⟩ := hch
  cases hv : kv.2 with
  | none => simp [hv] at hm
  | some s =>
    simp only [hv, Option.map_some, Option.some.injEq] at hm
    subst hm
    exact (List.of_mem_zip hkv).1

/-- the text values the reader collects for the reference `c` -/
def xmlVals (cols : List Str) (r : List (Option Str)) (c : Str) : List (Option Str) :=
  ((xmlChildren cols r).filter fun ch => ch.tag = c).map (·.text)

theorem xmlVals_eq (cols : List Str) (hnd : cols.Nodup) (r : List (Option Str)) (c : Str) :
    xmlVals cols r c = match lookup c (cols.zip r) with | some (some s) => [xmlText s] | _ => [] := by
  induction cols generalizing r with
  | nil => simp [xmlVals, xmlChildren, lookup]
  | cons k cols ih =>
    cases r with
    | nil => simp [xmlVals, xmlChildren, lookup]
    | cons v r =>
      simp only [List.nodup_cons] at hnd
      have ih' := ih hnd.2 r
      unfold xmlVals xmlChildren at ih' ⊢
      simp only [List.zip_cons_cons, List.filterMap_cons, lookup]
      by_cases hk : k = c
      · subst hk
        have hrest : ((List.filterMap (fun kv : Str × Option Str => kv.2.map fun s => ({ tag := kv.1, text := xmlText s } : XChild)) (cols.zip r)).filter
            fun ch => ch.tag = k) = [] := by
          rw [List.filter_eq_nil_iff]
          intro ch hch
          have := xmlChildren_tags cols r ch hch
          simp only [decide_eq_true_eq]
          intro e; exact hnd.1 (e ▸ this)
        cases v with
        | none => simp [hrest]
        | some s => simp [hrest]
      · cases v with
        | none => simp only [Option.map_none, hk, ↓reduceIte]; exact ih'
        | some s =>
          simp only [Option.map_some, List.filter_cons, hk, decide_false, Bool.false_eq_true, ↓reduceIte]
          exact ih'

def cellX : List (Option Str) → Cell
  | [] => .null "nan".toList
  | v :: _ => cellOfOpt v

theorem explodeRow_single (rec : List (Str × List (Option Str))) (h : ∀ kv ∈ rec, kv.2.length ≤ 1) :
    explodeRow rec = [rec.map fun kv => (kv.1, cellX kv.2)] := by
  induction rec with
  | nil => rfl
  | cons kv rec ih =>
    have ih' := ih fun x hx => h x (List.mem_cons_of_mem _ hx)
    unfold explodeRow at ih' ⊢
    simp only [List.foldr_cons, ih']
    obtain ⟨k, vs⟩ := kv
    have hl := h (k, vs) (by simp)
    match vs, hl with
    | [], _ => simp [cellX]
    | [v], _ => simp [cellX]

/-- **XML reader** on the elements of a flat table: one child element per non-NULL cell (empty text for the empty string) -/
theorem xml_pre {pk : PreKind} {na : List Str} (hn : NullsDropped pk na) (he : ([] : Str) ∈ na) (sh : XmlShape) (hsh : sh.dropBeforeExplode = true)
    (T : StrTable) (hwf : T.WF) (refs : List Str) (hr : ∀ c ∈ refs, c ∈ T.cols) (hat : ∀ c ∈ refs, '@' ∉ c) :
    (readXml sh refs (xmlElems T)).bind (preprocessG pk na refs) = preprocessG pk na refs (asCells T) := by
  have hc := complete_asCells T hwf refs hr
  let X : List (Option Str) → Str → Cell := fun r c => cellX (xmlVals T.cols r c)
  have hrecs : (xmlElems T).mapM (fun e => (dedupFirst refs).mapM fun r => do
        let vs ← xmlValues sh e r
        pure (r, vs)) = .ok (T.rows.map fun r => (dedupFirst refs).map fun c => (c, xmlVals T.cols r c)) := by
    unfold xmlElems
    rw [show (T.rows.map fun r => (dedupFirst refs).map fun c => (c, xmlVals T.cols r c)) =
      (T.rows.map fun r => ({ children := xmlChildren T.cols r } : XElem)).map
        (fun e => (dedupFirst refs).map fun c => (c, ((e.children.filter fun ch => ch.tag = c).map (·.text)))) by
      rw [List.map_map]; rfl]
    apply mapM_ok_of_forall
    intro e _
    apply mapM_ok_of_forall
    intro c hcm
    simp only [xmlValues, parseXRef_plain c (hat c (by simpa using hcm))]
    rfl
  have hread : readXml sh refs (xmlElems T) = .ok (T.rows.map fun r => (dedupFirst refs).map fun c => (c, X r c)) := by
    unfold readXml
    simp only [hrecs, hsh, ↓reduceIte]
    show Except.ok (List.flatMap explodeRow _) = _
    congr 1
    apply flatMap_map_singleton
    intro r _
    rw [explodeRow_single]
    · simp only [List.map_map]; rfl
    · intro kv hkv
      obtain ⟨c, _, rfl⟩ := List.mem_map.mp hkv
      simp only [xmlVals_eq T.cols hwf.2.1 r c]
      split <;> simp
  rw [hread]
  show preprocessG pk na refs _ = _
  apply preprocessG_sim _ hc
  unfold asCells
  apply forall2_map
  intro r hrow c hcr
  rw [lookup_map_self, lookup_zip_map]
  simp only [mem_dedupFirst, hcr, ↓reduceIte]
  obtain ⟨v, hv⟩ := Option.isSome_iff_exists.mp (lookup_zip_isSome c T.cols r (hr c hcr) (hwf.2.2 r hrow))
  simp only [X, xmlVals_eq T.cols hwf.2.1 r c, hv, Option.map_some]
  cases v with
  | none => exact .inr ⟨hn.2, hn.1⟩
  | some s =>
    by_cases hs : s = []
    · subst hs
      refine .inr ⟨hn.1, ?_⟩
      simp [cellOfOpt, cellNullG, he]
    · refine .inl ?_
      have : s.isEmpty = false := by cases s <;> simp_all
      simp [cellX, xmlText, this, cellOfOpt]

end Lemmas.Read
