/-
C13, helper lemmas VIII: the statements proved by induction on the quoting depth, and the step from "a rule on a frame
passed down" to "a rule on its own data".
-/
import MorphKgc.Lemmas.StarUnfold

namespace Model.Star
open Py Model Spec Spec.Star

/-- what `_materialize_rml_rule(…, data=F)` returns (`F'`), relative to the frame it was given: every returned row extends a
    row of `F` and carries a triple the rule generates for every source row that row stands for; every such triple is there -/
structure PassPost (senv : SEnv) (C : List Str) (nest : Nat) (sem : Row → List Str) (F F' : Frame) : Prop where
  sound : ∀ φ' ∈ F'.rows, ∃ φ ∈ F.rows, Ext nest φ φ' ∧ ∃ t, φ'.triple = some t ∧ ∀ ρ, Rep senv.na C φ.src ρ → t ∈ sem ρ
  complete : ∀ φ ∈ F.rows, ∀ ρ, Rep senv.na C φ.src ρ → ∀ t ∈ sem ρ, ∃ φ' ∈ F'.rows, Ext nest φ φ' ∧ φ'.triple = some t
  cols : ∀ c ∈ F.srcCols, c ∈ F'.srcCols
  idx : ∀ k, F'.index = some k → F.index = some k ∨ hasPP k = false

/-- every row stands for some source row on the columns `C` -/
def RowsRep (senv : SEnv) (C : List Str) (F : Frame) : Prop := ∀ φ ∈ F.rows, ∃ ρ, Rep senv.na C φ.src ρ

/-- a rule of quoting depth at most `n`, materialised on a frame that was passed down -/
def PassClaim (env : Env) (senv : SEnv) (frs : List FlatRule) (n : Nat) : Prop :=
  ∀ fr, okAt senv frs n fr = true → ∀ (nest : Nat) (F : Frame),
    (∀ c ∈ frefs frs (n + 1) fr, c ∈ F.srcCols) → RowsRep senv (frefs frs (n + 1) fr) F →
    (merges frs n fr = 1 → Clean F) →
    ∃ F', evalStar env (frs.map toRule) (n + 1) (toRule fr) (some F) [] nest = .ok F' ∧
      PassPost senv (frefs frs (n + 1) fr) nest (flatAt senv frs nest (n + 1) fr) F F' ∧
      (merges frs n fr = 0 → Clean F → Clean F')

/-- a rule of quoting depth at most `n`, materialised on its own data (`parent_join_references = pjr`) -/
def FreshClaim (env : Env) (senv : SEnv) (frs : List FlatRule) (n : Nat) : Prop :=
  ∀ q, okAt senv frs n q = true → ∀ (pjr : List Str) (nest : Nat),
    NoRawNulls (senv.tableF q) = true → Complete (frefs frs (n + 1) q ++ pjr) (senv.tableF q) = true →
    (∀ c ∈ pjr, hasPP c = false) →
    ∃ P, evalStar env (frs.map toRule) (n + 1) (toRule q) none pjr nest = .ok P ∧
      (∀ p ∈ P.rows, ∃ ρ' ∈ senv.tableF q, Rep senv.na pjr p.src ρ' ∧ ∃ t, p.triple = some t ∧ t ∈ flatAt senv frs nest (n + 1) q ρ') ∧
      (∀ ρ' ∈ senv.tableF q, (∀ c ∈ pjr, valueOf senv.na ρ' c ≠ none) → ∀ t ∈ flatAt senv frs nest (n + 1) q ρ',
        ∃ p ∈ P.rows, Rep senv.na pjr p.src ρ' ∧ p.triple = some t) ∧
      (∀ c ∈ pjr, c ∈ P.srcCols) ∧ (∀ k, P.index = some k → hasPP k = false)

theorem tableF_eq {env : Env} {senv : SEnv} (henv : EnvOK env senv) (fr : FlatRule) : env.table (toRule fr) = senv.tableF fr := by
  unfold Env.table SEnv.tableF
  rw [henv.tables]
  rfl

theorem toRule_not_parentTM (fr : FlatRule) : (toRule fr).objectMapType ≠ .parentTM := by
  rw [toRule_objectMapType]
  cases fr.object with
  | term tm => rw [posOf_term]; exact mapOf_ne_parentTM tm
  | quoted id conds => simp [posOf_quoted]

/-- the frame `_get_data` delivers on a complete table -/
theorem getData_ok {env : Env} {senv : SEnv} (henv : EnvOK env senv) (fr : FlatRule) (refs : List Str)
    (hc : Complete refs (senv.tableF fr) = true) (hne : refs.isEmpty = false) :
    getData env (toRule fr) refs = .ok (Frame.mk (dedupFirst refs) [] none
      ((prepRows env.na refs (senv.tableF fr)).map fun σ => ({ src := σ } : FRow))) := by
  unfold getData
  rw [tableF_eq henv, preprocess_eq _ _ _ hc]
  simp only [hne]
  rfl

/-- **From passed-down to own data.** -/
theorem fresh_of_pass {env : Env} {senv : SEnv} (henv : EnvOK env senv) (frs : List FlatRule) (n : Nat)
    (hpass : PassClaim env senv frs n) : FreshClaim env senv frs n := by
  intro q hok pjr nest hnn hcomp hpjr
  have hl := localOK_facts (okAt_local hok)
  have hrefs := refsStar_toRule frs n q (okAt_depthLe hok)
  have hne : (frefs frs (n + 1) q ++ pjr).isEmpty = false := by
    have := hl.hasRefs
    cases hq : frefs frs (n + 1) q with
    | nil => rw [hq] at this; simp at this
    | cons a l => rfl
  rw [evalStar_none env _ n (toRule q) pjr nest _ hrefs hl.notConst (toRule_not_parentTM q) hne,
    getData_ok henv q _ hcomp hne, bind_ok]
  -- the frame of the rule's own data
  let F0 : Frame := Frame.mk (dedupFirst (frefs frs (n + 1) q ++ pjr)) [] none
    ((prepRows env.na (frefs frs (n + 1) q ++ pjr) (senv.tableF q)).map fun σ => ({ src := σ } : FRow))
  have hcompl := hcomp
  simp only [Complete, List.all_eq_true] at hcompl
  simp only [NoRawNulls] at hnn
  have hvalue : ∀ ρ ∈ senv.tableF q, ∀ c ∈ frefs frs (n + 1) q ++ pjr,
      valueOf senv.na ρ c = if cellStr ρ c ∈ senv.na then none else some (cellStr ρ c) := fun ρ hρ c hc =>
    valueOf_eq senv.na ρ c (hcompl ρ hρ c hc) (List.all_eq_true.mp hnn ρ hρ)
  -- a surviving row stands for its source row
  have hrep : ∀ ρ ∈ senv.tableF q, (∀ c ∈ frefs frs (n + 1) q ++ pjr, cellStr ρ c ∉ env.na) →
      Rep senv.na (frefs frs (n + 1) q ++ pjr) (projRow (dedupFirst (frefs frs (n + 1) q ++ pjr)) ρ) ρ := by
    intro ρ hρ hall c hc
    refine ⟨?_, ?_⟩
    · rw [lookup_projRow]; simp [hc]
    · rw [hvalue ρ hρ c hc]
      have := hall c hc
      rw [henv.na] at this
      simp [this]
  have hF0cols : ∀ c ∈ frefs frs (n + 1) q, c ∈ F0.srcCols := fun c hc => by
    show c ∈ dedupFirst _
    rw [mem_dedupFirst]; exact List.mem_append_left _ hc
  have hF0rep : RowsRep senv (frefs frs (n + 1) q) F0 := by
    intro φ hφ
    obtain ⟨σ, hσ, rfl⟩ := List.mem_map.mp hφ
    obtain ⟨ρ, hρ, rfl, hall⟩ := (mem_prepRows _ _ _ _).mp hσ
    exact ⟨ρ, (hrep ρ hρ hall).mono fun c hc => List.mem_append_left _ hc⟩
  have hF0clean : Clean F0 := by
    refine ⟨rfl, ?_⟩
    intro c hc
    have hc' : c ∈ dedupFirst (frefs frs (n + 1) q ++ pjr) := by simpa [Frame.allCols, F0] using hc
    rw [mem_dedupFirst] at hc'
    rcases List.mem_append.mp hc' with h | h
    · exact hl.noPP c h
    · exact hpjr c h
  obtain ⟨F', hF', hpost, _⟩ := hpass q hok nest F0 hF0cols hF0rep (fun _ => hF0clean)
  refine ⟨F', hF', ?_, ?_, ?_, ?_⟩
  · intro p hp
    obtain ⟨φ, hφ, hext, t, ht, hsem⟩ := hpost.sound p hp
    obtain ⟨σ, hσ, rfl⟩ := List.mem_map.mp hφ
    obtain ⟨ρ, hρ, rfl, hall⟩ := (mem_prepRows _ _ _ _).mp hσ
    have hR := hrep ρ hρ hall
    refine ⟨ρ, hρ, ?_, t, ht, hsem ρ (hR.mono fun c hc => List.mem_append_left _ hc)⟩
    exact (Rep.ext (φ := { src := projRow (dedupFirst (frefs frs (n + 1) q ++ pjr)) ρ }) (hR.mono fun c hc => List.mem_append_right _ hc) hext)
  · intro ρ hρ hpj t ht
    -- no reference is NULL, else the rule generates nothing
    have hall : ∀ c ∈ frefs frs (n + 1) q ++ pjr, cellStr ρ c ∉ env.na := by
      intro c hc hna
      have hv : valueOf senv.na ρ c = none := by
        rw [hvalue ρ hρ c hc]
        rw [henv.na] at hna
        simp [hna]
      rcases List.mem_append.mp hc with h | h
      · rw [flatAt_nil_of_null senv frs n q hok nest ρ ⟨c, h, hv⟩] at ht
        cases ht
      · exact hpj c h hv
    have hR := hrep ρ hρ hall
    have hmem : ({ src := projRow (dedupFirst (frefs frs (n + 1) q ++ pjr)) ρ } : FRow) ∈ F0.rows :=
      List.mem_map.mpr ⟨_, (mem_prepRows _ _ _ _).mpr ⟨ρ, hρ, rfl, hall⟩, rfl⟩
    obtain ⟨p, hp, hext, hpt⟩ := hpost.complete _ hmem ρ (hR.mono fun c hc => List.mem_append_left _ hc) t ht
    exact ⟨p, hp, Rep.ext (φ := { src := projRow (dedupFirst (frefs frs (n + 1) q ++ pjr)) ρ })
      (hR.mono fun c hc => List.mem_append_right _ hc) hext, hpt⟩
  · intro c hc
    apply hpost.cols
    show c ∈ dedupFirst _
    rw [mem_dedupFirst]; exact List.mem_append_right _ hc
  · intro k hk
    rcases hpost.idx k hk with h | h
    · cases h
    · exact h

end Model.Star
