/-
C13, helper lemmas II: one row of `finish` on a flat rule is the statement the generation rules prescribe for the
terms of its positions.
-/
import MorphKgc.Lemmas.StarBasic

namespace Model.Star
open Py Model Spec Spec.Star

/-- the frame row carries the source row on the columns `C`, and none of these cells is NULL -/
def Rep (na : List Str) (C : List Str) (src : SRow) (ρ : Row) : Prop :=
  ∀ c ∈ C, lookup c src = some (cellStr ρ c) ∧ valueOf na ρ c = some (cellStr ρ c)

theorem Rep.mono {na : List Str} {C C' : List Str} {src : SRow} {ρ : Row} (h : Rep na C src ρ) (hs : ∀ c ∈ C', c ∈ C) :
    Rep na C' src ρ := fun c hc => h c (hs c hc)

/-- the column references of the rule's own term maps -/
def ownRefs (fr : FlatRule) : List Str := posRefs fr.subject ++ tmRefs fr.pred ++ posRefs fr.object ++ tmRefs fr.graph

/-- the term of a position for a row: generated from the term map, or the quoted term the star branch has put in the column -/
def posVal (senv : SEnv) (p : Pos) (ρ : Row) (col : Option Str) : Option Str :=
  match p with
  | .term tm => genTerm senv.safe senv.na tm ρ
  | .quoted _ _ => col

/-- the statement of a rule for given terms: with the graph term at nest level 0, the bare triple below -/
def stmtAt (senv : SEnv) (nest : Nat) (s p o g : Str) : Str :=
  if nest = 0 then renderStmt senv.fmt s p o g else renderTriple s p o

theorem iri_term {tm : TermMap} (h : tm.termType = .iri) (v : Str) :
    renderTerm tm v = wrapTerm (some .iri) (lexOf .iri v) := by
  rw [renderTerm_eq, termSuffix_iri h, h]; simp

/-- **One row.** When the row carries a source row on the rule's own references (all non-NULL) and the columns of the quoted
    positions are filled, `lineOf` yields the statement of the four terms. -/
theorem line_refines {env : Env} {senv : SEnv} (henv : EnvOK env senv) (fr : FlatRule) (hwf : FlatWF senv.defaultGraph fr = true)
    (nest : Nat) (ρ : Row) (φ : FRow) (hrep : Rep senv.na (ownRefs fr) φ.src ρ)
    (hsq : ∀ id conds, fr.subject = .quoted id conds → φ.subject.isSome)
    (hoq : ∀ id conds, fr.object = .quoted id conds → φ.object.isSome) :
    ∃ s p o g, posVal senv fr.subject ρ φ.subject = some s ∧ genTerm senv.safe senv.na fr.pred ρ = some p ∧
      posVal senv fr.object ρ φ.object = some o ∧ graphTerms senv [fr.graph] ρ = [g] ∧
      lineOf (envAt env nest) (toRule fr) (toRule fr).objectMapType (toRule fr).objectMapValue [] φ
        = .ok (stmtAt senv nest s p o g) := by
  simp only [FlatWF, Bool.and_eq_true] at hwf
  obtain ⟨⟨⟨hsub, hpred⟩, hobj⟩, hgraph⟩ := hwf
  have hpw : WFTermMap fr.pred = true := by simp only [PredOK, Bool.and_eq_true] at hpred; exact hpred.1
  have hpi : fr.pred.termType = .iri := by simp only [PredOK, Bool.and_eq_true, beq_iff_eq] at hpred; exact hpred.2
  have hgw : WFTermMap fr.graph = true := by simp only [GraphOK, Bool.and_eq_true] at hgraph; exact hgraph.1.1
  have hgi : fr.graph.termType = .iri := by simp only [GraphOK, Bool.and_eq_true, beq_iff_eq] at hgraph; exact hgraph.1.2
  have hcfg : CfgOK (envAt env nest).cfg senv.safe := by
    cases nest with
    | zero => rw [envAt_zero]; exact henv.cfg
    | succ n => rw [envAt_succ]; exact henv.cfg
  have hcfgeq : (envAt env nest).cfg = env.cfg := by
    cases nest with
    | zero => rw [envAt_zero]
    | succ n => rw [envAt_succ]
  -- predicate
  obtain ⟨vp, hvp, hmp⟩ := term_refines hcfg senv.na fr.pred hpw [] ρ (fun c => lookup c φ.src) (cellStr ρ)
    (fun c hc => (hrep c (by simp [ownRefs, hc])).1) (fun c hc => (hrep c (by simp [ownRefs, hc])).2)
  rw [hpi] at hmp
  have gp : genTerm senv.safe senv.na fr.pred ρ = some (wrapTerm (some .iri) (lexOf .iri vp)) := by
    simp [genTerm, hvp, iri_term hpi]
  -- graph
  obtain ⟨vg, hvg, hmg⟩ := term_refines hcfg senv.na fr.graph hgw [] ρ (fun c => lookup c φ.src) (cellStr ρ)
    (fun c hc => (hrep c (by simp [ownRefs, hc])).1) (fun c hc => (hrep c (by simp [ownRefs, hc])).2)
  rw [hgi] at hmg
  have gg : genTerm senv.safe senv.na fr.graph ρ = some (wrapTerm (some .iri) (lexOf .iri vg)) := by
    simp [genTerm, hvg, iri_term hgi]
  have hdg := isDefaultGraph_iff hgraph
  -- subject
  have hS : ∃ s, posVal senv fr.subject ρ φ.subject = some s ∧ subjTerm (envAt env nest) (toRule fr) φ = .ok s := by
    rw [subjTerm_toRule]
    cases hsc : fr.subject with
    | term tm =>
      have hso : SubjOK tm = true := by simpa [PosOK, hsc] using hsub
      have hsw : WFTermMap tm = true := by simp only [SubjOK, Bool.and_eq_true] at hso; exact hso.1
      have hss : termSuffix tm = [] := by simp only [SubjOK, Bool.and_eq_true, List.isEmpty_iff] at hso; exact hso.2
      obtain ⟨vs, hvs, hms⟩ := term_refines hcfg senv.na tm hsw [] ρ (fun c => lookup c φ.src) (cellStr ρ)
        (fun c hc => (hrep c (by simp [ownRefs, posRefs, hsc, hc])).1) (fun c hc => (hrep c (by simp [ownRefs, posRefs, hsc, hc])).2)
      refine ⟨_, ?_, liftMat_ok hms⟩
      simp [posVal, genTerm, hvs, renderTerm_eq, hss]
    | quoted id conds =>
      have := hsq id conds hsc
      cases hφ : φ.subject with
      | none => simp [hφ] at this
      | some s => exact ⟨s, by simp [posVal], rfl⟩
  -- object
  have hO : ∃ o o', posVal senv fr.object ρ φ.object = some o ∧ o = o' ++ posSuffix fr.object ∧
      objTerm (envAt env nest) (toRule fr) (toRule fr).objectMapType (toRule fr).objectMapValue [] φ = .ok o' := by
    rw [objTerm_toRule]
    cases hoc : fr.object with
    | term tm =>
      have hoo : ObjOK tm = true := by simpa [PosOK, hoc] using hobj
      have how : WFTermMap tm = true := by simp only [ObjOK, Bool.and_eq_true] at hoo; exact hoo.1
      obtain ⟨vo, hvo, hmo⟩ := term_refines hcfg senv.na tm how (litDatatype (toRule fr)) ρ (fun c => lookup c φ.src) (cellStr ρ)
        (fun c hc => (hrep c (by simp [ownRefs, posRefs, hoc, hc])).1) (fun c hc => (hrep c (by simp [ownRefs, posRefs, hoc, hc])).2)
      refine ⟨_, _, ?_, rfl, liftMat_ok hmo⟩
      simp [posVal, genTerm, hvo, renderTerm_eq, posSuffix]
    | quoted id conds =>
      have := hoq id conds hoc
      cases hφ : φ.object with
      | none => simp [hφ] at this
      | some o => exact ⟨o, o, by simp [posVal], by simp [posSuffix], rfl⟩
  obtain ⟨s, hs1, hs2⟩ := hS
  obtain ⟨o, o', ho1, ho2, ho3⟩ := hO
  have hP : predTerm (envAt env nest) (toRule fr) φ = .ok (wrapTerm (some .iri) (lexOf .iri vp)) := by
    rw [predTerm_toRule]; exact liftMat_ok hmp
  have hline := lineOf_toRule (envAt env nest) fr φ s _ o' (wrapTerm (some .iri) (lexOf .iri vg)) hobj hs2 hP ho3 (fun _ => hmg)
  refine ⟨s, _, o, (if isDefaultGraph senv.defaultGraph fr.graph = true then [] else wrapTerm (some .iri) (lexOf .iri vg)),
    hs1, gp, ho1, ?_, ?_⟩
  · rw [graphTerms_single, gg]
    split <;> rfl
  · rw [hline, ← ho2]
    congr 1
    cases nest with
    | succ n => simp [envAt_succ, stmtAt, renderTriple]
    | zero =>
      rw [envAt_zero]
      rw [← henv.dg] at hdg
      by_cases hd : (mapOf fr.graph).2 = env.defaultGraph
      · have h1 : isDefaultGraph senv.defaultGraph fr.graph = true := by rw [← henv.dg]; exact hdg.mpr hd
        have hfm := henv.fmt
        cases hf : env.fmt <;> rw [hf] at hfm <;> simp [stmtAt, renderStmt, h1, hd, ← hfm]
      · have h1 : ¬ isDefaultGraph senv.defaultGraph fr.graph = true := by rw [← henv.dg]; exact fun h => hd (hdg.mp h)
        have hfm := henv.fmt
        cases hf : env.fmt <;> rw [hf] at hfm <;> simp [stmtAt, renderStmt, h1, hd, ← hfm]

end Model.Star
