/-
C10 — round trips of the string escapes of the textual payloads, for ALL strings:
JSON string content, XML character data and attribute values, SQL string literals and delimited identifiers.
-/
import MorphKgc.Spec.Payload
import MorphKgc.Model.SourceDecode

namespace Lemmas.Escape
open Py Model Spec.Payload

/-! ## JSON -/

theorem hex4_roundtrip : ∀ n, n < 32 →
    hex4Val (hexDigit (n / 4096 % 16)) (hexDigit (n / 256 % 16)) (hexDigit (n / 16 % 16)) (hexDigit (n % 16)) = some n := by
  decide

theorem jsonGo_escChar (c : Char) (t : Str) : jsonGo .normal (jsonEscChar c ++ t) = (jsonGo .normal t).map (c :: ·) := by
  unfold jsonEscChar
  split
  · next h => subst h; simp [jsonGo, jsonSimpleEscape]
  split
  · next h => subst h; simp [jsonGo, jsonSimpleEscape]
  split
  · next h => subst h; simp [jsonGo, jsonSimpleEscape]
  split
  · next h => subst h; simp [jsonGo, jsonSimpleEscape]
  split
  · next h => subst h; simp [jsonGo, jsonSimpleEscape]
  split
  · next h => subst h; simp [jsonGo, jsonSimpleEscape]
  split
  · next h => subst h; simp [jsonGo, jsonSimpleEscape]
  split
  · next h1 h2 h3 h4 h5 h6 h7 h =>
    have hx := hex4_roundtrip c.toNat h
    have : ¬ (0xD800 ≤ c.toNat ∧ c.toNat ≤ 0xDFFF) := by omega
    simp [hex4, jsonGo, hx, this]
  · next h1 h2 h3 h4 h5 h6 h7 h =>
    have : ¬ (c = '"' ∨ c.toNat < 32) := by
      intro hh; rcases hh with hh | hh
      · exact h1 hh
      · exact h hh
    simp [jsonGo, h2, this]

/-- **JSON string round trip** -/
theorem jsonUnescape_escape (s : Str) : jsonUnescape (jsonEscape s) = some s := by
  unfold jsonUnescape
  induction s with
  | nil => simp [jsonEscape, jsonGo]
  | cons c s ih =>
    simp only [jsonEscape, List.flatMap_cons] at ih ⊢
    rw [jsonGo_escChar, ih]
    rfl

/-! ## XML -/

theorem xmlDecode_escTextChar (c : Char) (t : Str) :
    xmlDecodeGo none false (xmlEscTextChar c ++ t) = (xmlDecodeGo none false t).map (c :: ·) := by
  unfold xmlEscTextChar
  split
  · next h => subst h; simp [xmlDecodeGo, xmlRef]
  split
  · next h => subst h; simp [xmlDecodeGo, xmlRef]
  split
  · next h => subst h; simp [xmlDecodeGo, xmlRef]
  split
  · next h =>
    subst h
    have : xmlRef ['#', '1', '3'] = some '\r' := by decide
    simp [xmlDecodeGo, this]
  · next h1 h2 h3 h4 =>
    simp [xmlDecodeGo, h1, h2, h4]

theorem xmlDecode_escAttrChar (c : Char) (t : Str) :
    xmlDecodeGo none false (xmlEscAttrChar c ++ t) = (xmlDecodeGo none false t).map (c :: ·) := by
  unfold xmlEscAttrChar
  split
  · next h => subst h; simp [xmlDecodeGo, xmlRef]
  split
  · next h =>
    subst h
    have : xmlRef ['#', '1', '0'] = some '\n' := by decide
    simp [xmlDecodeGo, this]
  split
  · next h =>
    subst h
    have : xmlRef ['#', '9'] = some '\t' := by decide
    simp [xmlDecodeGo, this]
  · exact xmlDecode_escTextChar c t

/-- **XML character data round trip** (CR survives because it is written as `&#13;`) -/
theorem xmlDecode_escapeText (s : Str) : xmlDecodeText (xmlEscapeText s) = some s := by
  unfold xmlDecodeText
  induction s with
  | nil => simp [xmlEscapeText, xmlDecodeGo]
  | cons c s ih =>
    simp only [xmlEscapeText, List.flatMap_cons] at ih ⊢
    rw [xmlDecode_escTextChar, ih]
    rfl

/-- **XML attribute value round trip** -/
theorem xmlDecode_escapeAttr (s : Str) : xmlDecodeText (xmlEscapeAttr s) = some s := by
  unfold xmlDecodeText
  induction s with
  | nil => simp [xmlEscapeAttr, xmlDecodeGo]
  | cons c s ih =>
    simp only [xmlEscapeAttr, List.flatMap_cons] at ih ⊢
    rw [xmlDecode_escAttrChar, ih]
    rfl

/-- the escaped text contains no markup delimiter and no literal CR, so it cannot end the element, open another one, or be changed by
    line-end normalisation -/
theorem xmlEscapeText_safe (s : Str) : ∀ c ∈ xmlEscapeText s, c ≠ '<' ∧ c ≠ '>' ∧ c ≠ '\r' := by
  intro c hc
  simp only [xmlEscapeText, List.mem_flatMap] at hc
  obtain ⟨x, _, hx⟩ := hc
  unfold xmlEscTextChar at hx
  split at hx
  · revert c; decide
  split at hx
  · revert c; decide
  split at hx
  · revert c; decide
  split at hx
  · revert c; decide
  · next h1 h2 h3 h4 =>
    simp only [List.mem_singleton] at hx
    subst hx
    exact ⟨h2, h3, h4⟩

/-! ## doubled quotes (SQL literals, delimited identifiers) -/

def escDoubled (q : Char) (c : Char) : Str := if c = q then [q, q] else [c]

theorem unquoteGo_esc (q : Char) (s : Str) : unquoteGo q false (s.flatMap (escDoubled q) ++ [q]) = some s := by
  induction s with
  | nil => simp [unquoteGo]
  | cons c s ih =>
    simp only [List.flatMap_cons, List.append_assoc]
    by_cases h : c = q
    · subst h
      simp [escDoubled, unquoteGo, ih]
    · simp [escDoubled, h, unquoteGo, ih]

theorem unquoteDoubled_quote (q : Char) (s : Str) : unquoteDoubled q ([q] ++ s.flatMap (escDoubled q) ++ [q]) = some s := by
  simp only [List.cons_append, unquoteDoubled, ↓reduceIte]
  exact unquoteGo_esc q s

/-- **SQL string literal round trip** -/
theorem sqlUnquote_literal (s : Str) : sqlUnquote (sqlLiteral s) = some s := by
  have : sqlEscChar = escDoubled '\'' := by funext c; rfl
  unfold sqlUnquote sqlLiteral
  rw [this]
  exact unquoteDoubled_quote '\'' s

/-- **delimited identifier round trip** (blanks, keywords, quotes inside the name survive) -/
theorem sqlUnquoteIdent_ident (s : Str) : sqlUnquoteIdent (sqlIdent s) = some s := by
  have : sqlIdEscChar = escDoubled '"' := by funext c; rfl
  unfold sqlUnquoteIdent sqlIdent
  rw [this]
  exact unquoteDoubled_quote '"' s

end Lemmas.Escape
