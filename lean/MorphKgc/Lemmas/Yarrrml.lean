/-
Lemmas for C09: `yarrrml._template_to_rml` on the YARRRML rendering of an abstract template.
-/
import MorphKgc.Model.Yarrrml

namespace Model
open Py Spec

theorem yBreak_open {a b : Str} (h : '$' ∉ a) : breakOn yOpen (a ++ yOpen ++ b) = some (a, b) := by
  induction a with
  | nil => simp [breakOn, yOpen, List.isPrefixOf]
  | cons x a ih =>
    have hx : x ≠ '$' := fun e => h (by simp [e])
    have ha : '$' ∉ a := fun e => h (by simp [e])
    have hp : yOpen.isPrefixOf (x :: (a ++ yOpen ++ b)) = false := by
      simp [yOpen, List.isPrefixOf, Ne.symm hx]
    simp only [List.cons_append, breakOn, hp, Bool.false_eq_true, if_false, ih ha]

theorem yBreak_open_none {a : Str} (h : '$' ∉ a) : breakOn yOpen a = none := by
  induction a with
  | nil => rfl
  | cons x a ih =>
    have hx : x ≠ '$' := fun e => h (by simp [e])
    have ha : '$' ∉ a := fun e => h (by simp [e])
    have hp : yOpen.isPrefixOf (x :: a) = false := by simp [yOpen, List.isPrefixOf, Ne.symm hx]
    simp only [breakOn, hp, Bool.false_eq_true, if_false, ih ha]

theorem yBreak_close {n b : Str} (h : ')' ∉ n) : breakOn yClose (n ++ yClose ++ b) = some (n, b) := by
  induction n with
  | nil => simp [breakOn, yClose, List.isPrefixOf]
  | cons x n ih =>
    have hx : x ≠ ')' := fun e => h (by simp [e])
    have hn : ')' ∉ n := fun e => h (by simp [e])
    have hp : yClose.isPrefixOf (x :: (n ++ yClose ++ b)) = false := by
      simp [yClose, List.isPrefixOf, Ne.symm hx]
    simp only [List.cons_append, breakOn, hp, Bool.false_eq_true, if_false, ih hn]

/-- the parts of a template in YARRRML syntax / in RML syntax as `_template_to_rml` writes them -/
def yParts (parts : List (Str × Str)) : Str := parts.flatMap fun p => yOpen ++ p.1 ++ yClose ++ p.2
def yPartsOut (k : Gen.YTemplateKind) (parts : List (Str × Str)) : Str :=
  parts.flatMap fun p => ['{'] ++ p.1 ++ ['}'] ++ yLit k p.2

/-- the literal text has no `$`, the reference names no `)` and no `$` -/
def YSafe (t : Tpl) : Prop := '$' ∉ t.pre ∧ ∀ p ∈ t.parts, ')' ∉ p.1 ∧ '$' ∉ p.1 ∧ '$' ∉ p.2

theorem yLoop_parts (k : Gen.YTemplateKind) :
    ∀ (parts : List (Str × Str)) (lit acc : Str) (n : Nat), parts.length ≤ n → '$' ∉ lit →
      (∀ p ∈ parts, ')' ∉ p.1 ∧ '$' ∉ p.1 ∧ '$' ∉ p.2) →
      yTemplateLoop k n acc (lit ++ yParts parts) = acc ++ yLit k lit ++ yPartsOut k parts
  | [], lit, acc, n, _, hl, _ => by
    cases n <;> simp [yTemplateLoop, yParts, yPartsOut, yBreak_open_none hl]
  | p :: ps, lit, acc, n, hn, hl, hp => by
    cases n with
    | zero => simp at hn
    | succ n =>
      obtain ⟨h1, _, h3⟩ := hp p (by simp)
      have e : lit ++ yParts (p :: ps) = lit ++ yOpen ++ (p.1 ++ yClose ++ (p.2 ++ yParts ps)) := by
        simp [yParts, List.flatMap_cons, List.append_assoc]
      rw [e]
      simp only [yTemplateLoop, yBreak_open hl, yBreak_close h1]
      rw [yLoop_parts k ps p.2 _ n (by simpa using hn) h3 (fun q hq => hp q (by simp [hq]))]
      simp [yPartsOut, List.flatMap_cons, List.append_assoc]

theorem yParts_length (parts : List (Str × Str)) : parts.length ≤ (yParts parts).length := by
  induction parts with
  | nil => simp
  | cons p ps ih =>
    simp only [yParts, yOpen, yClose, List.flatMap_cons, List.length_append, List.length_cons, List.length_nil] at ih ⊢
    omega

/-- **`_template_to_rml` on a well-formed YARRRML template**: every `$(name)` becomes `{name}`, whatever the number of references;
    the literal text is copied (`raw`) or brace-escaped (`escaped`) -/
theorem yTemplateToRml_render (k : Gen.YTemplateKind) (t : Tpl) (h : YSafe t) :
    yTemplateToRml k t.renderY = yLit k t.pre ++ yPartsOut k t.parts := by
  unfold yTemplateToRml Tpl.renderY
  have := yLoop_parts k t.parts t.pre [] ((t.pre ++ yParts t.parts).length + 1)
    (by have := yParts_length t.parts; simp only [List.length_append]; omega) h.1 h.2
  simpa [yParts] using this

theorem escBrace_of_no_brace {s : Str} (h1 : '{' ∉ s) (h2 : '}' ∉ s) : escBrace s = s := by
  induction s with
  | nil => rfl
  | cons c s ih =>
    have hc1 : c ≠ '{' := fun e => h1 (by simp [e])
    have hc2 : c ≠ '}' := fun e => h2 (by simp [e])
    have := ih (fun e => h1 (by simp [e])) (fun e => h2 (by simp [e]))
    simp only [escBrace] at this ⊢
    simp [List.flatMap_cons, hc1, hc2, this]

end Model

namespace Model
open Py Spec

/-! ### `_add_template`: when is a template read as one reference -/

theorem ySplit_parts :
    ∀ (parts : List (Str × Str)) (lit : Str) (n : Nat), parts.length ≤ n → '$' ∉ lit →
      (∀ p ∈ parts, ')' ∉ p.1 ∧ '$' ∉ p.1 ∧ '$' ∉ p.2) →
      (splitFuel yOpen n (lit ++ yParts parts)).length = parts.length + 1
  | [], lit, n, _, hl, _ => by
    cases n <;> simp [splitFuel, yParts, yBreak_open_none hl]
  | p :: ps, lit, n, hn, hl, hp => by
    cases n with
    | zero => simp at hn
    | succ n =>
      obtain ⟨_, h2, h3⟩ := hp p (by simp)
      have e : lit ++ yParts (p :: ps) = lit ++ yOpen ++ ((p.1 ++ yClose ++ p.2) ++ yParts ps) := by
        simp [yParts, List.flatMap_cons, List.append_assoc]
      have hl' : '$' ∉ p.1 ++ yClose ++ p.2 := by
        simp only [List.mem_append, yClose, List.mem_singleton, not_or]
        exact ⟨⟨h2, by decide⟩, h3⟩
      rw [e]
      simp only [splitFuel, yBreak_open hl, List.length_cons]
      rw [ySplit_parts ps _ n (by simpa using hn) hl' (fun q hq => hp q (by simp [hq]))]

theorem yCount_render (t : Tpl) (h : YSafe t) : countOcc yOpen t.renderY = t.parts.length := by
  unfold countOcc split Tpl.renderY
  have := ySplit_parts t.parts t.pre (t.pre ++ yParts t.parts).length
    (by have := yParts_length t.parts; simp only [List.length_append]; omega) h.1 h.2
  simp only [yParts] at this
  rw [this]
  simp

theorem yStartsWith_render (t : Tpl) (h : YSafe t) : startsWith t.renderY yOpen = (t.pre.isEmpty && !t.parts.isEmpty) := by
  unfold startsWith Tpl.renderY
  cases hp : t.pre with
  | nil =>
    cases hq : t.parts with
    | nil => simp [yOpen, List.isPrefixOf]
    | cons p ps => simp [yOpen, List.isPrefixOf, List.flatMap_cons]
  | cons c cs =>
    have hc : c ≠ '$' := fun e => h.1 (by simp [hp, e])
    simp [yOpen, List.isPrefixOf, Ne.symm hc]

theorem yIsInfix_render (t : Tpl) (h : YSafe t) (hne : t.parts ≠ []) : isInfix yOpen t.renderY = true := by
  unfold isInfix Tpl.renderY
  cases hq : t.parts with
  | nil => exact absurd hq hne
  | cons p ps =>
    have e : t.pre ++ List.flatMap (fun p => yOpen ++ p.1 ++ yClose ++ p.2) (p :: ps) =
        t.pre ++ yOpen ++ (p.1 ++ yClose ++ p.2 ++ yParts ps) := by
      simp [yParts, List.flatMap_cons, List.append_assoc]
    rw [e, yBreak_open h.1]
    rfl

/-- a template with literal text before its first reference, or with several references, is translated as a template —
    whichever of the two shapes of `_add_template` is in the source -/
theorem yAddTemplate_template (a : Gen.YAddKind) (k : Gen.YTemplateKind) (t : Tpl) (h : YSafe t) (hne : t.parts ≠ [])
    (hshape : ¬ (t.pre = [] ∧ t.parts.length = 1)) :
    yAddTemplate a k t.renderY = .template (yTemplateToRml k t.renderY) := by
  have hr : yIsReference a t.renderY = false := by
    have hsc : (startsWith t.renderY yOpen && countOcc yOpen t.renderY == 1) = false := by
      rw [yStartsWith_render t h, yCount_render t h]
      cases hp : t.pre with
      | cons c cs => simp
      | nil =>
        have : t.parts.length ≠ 1 := fun e => hshape ⟨hp, e⟩
        simp [this]
    cases a <;> simp [yIsReference, hsc]
  unfold yAddTemplate
  simp [hr, yIsInfix_render t h hne]

theorem dropLast_append_singleton' {α} (l : List α) (x : α) : (l ++ [x]).dropLast = l := by simp

/-- `$(name)` alone is a reference, in both shapes -/
theorem yAddTemplate_reference (a : Gen.YAddKind) (k : Gen.YTemplateKind) (r : Str) (h1 : '$' ∉ r) (h2 : ')' ∉ r) :
    yAddTemplate a k (yOpen ++ r ++ yClose) = .reference r := by
  let t : Tpl := ⟨[], [(r, [])]⟩
  have hs : YSafe t := ⟨by simp [t], by intro p hp; simp [t] at hp; subst hp; exact ⟨h2, h1, by simp⟩⟩
  have e : yOpen ++ r ++ yClose = t.renderY := by simp [Tpl.renderY, t]
  have hcount : countOcc yOpen (yOpen ++ r ++ yClose) = 1 := by rw [e, yCount_render t hs]; rfl
  have hstart : startsWith (yOpen ++ r ++ yClose) yOpen = true := by rw [e, yStartsWith_render t hs]; rfl
  have hclose : breakOn yClose (yOpen ++ r ++ yClose) = some (yOpen ++ r, []) := by
    have : ')' ∉ yOpen ++ r := by simp [yOpen, h2]
    simpa using yBreak_close (b := []) this
  have hr : yIsReference a (yOpen ++ r ++ yClose) = true := by
    cases a <;> simp only [yIsReference, hcount, hstart, hclose] <;> rfl
  unfold yAddTemplate
  rw [if_pos hr]
  simp [yOpen, yClose]

/-- the text `$(name)` followed by literal text: the shape of the source as it is reads it as a reference to the column
    `name)text-without-its-last-character` -/
theorem yAddTemplate_startsCount_trailing (k : Gen.YTemplateKind) (r lit : Str) (h1 : '$' ∉ r) (h2 : ')' ∉ r) (h3 : '$' ∉ lit) :
    yAddTemplate .startsCount k (yOpen ++ r ++ yClose ++ lit) = .reference ((r ++ yClose ++ lit).dropLast) := by
  let t : Tpl := ⟨[], [(r, lit)]⟩
  have hs : YSafe t := ⟨by simp [t], by intro p hp; simp [t] at hp; subst hp; exact ⟨h2, h1, h3⟩⟩
  have e : yOpen ++ r ++ yClose ++ lit = t.renderY := by simp [Tpl.renderY, t]
  have hcount : countOcc yOpen (yOpen ++ r ++ yClose ++ lit) = 1 := by rw [e, yCount_render t hs]; rfl
  have hstart : startsWith (yOpen ++ r ++ yClose ++ lit) yOpen = true := by rw [e, yStartsWith_render t hs]; rfl
  have hr : yIsReference .startsCount (yOpen ++ r ++ yClose ++ lit) = true := by
    simp only [yIsReference, hcount, hstart]; rfl
  unfold yAddTemplate
  rw [if_pos hr]
  simp [yOpen]

/-- … the repaired shape reads it as a template -/
theorem yAddTemplate_wholeRef_trailing (k : Gen.YTemplateKind) (r lit : Str) (h1 : '$' ∉ r) (h2 : ')' ∉ r) (h3 : '$' ∉ lit)
    (hlit : lit ≠ []) :
    yAddTemplate .wholeRef k (yOpen ++ r ++ yClose ++ lit) = .template (yTemplateToRml k (yOpen ++ r ++ yClose ++ lit)) := by
  let t : Tpl := ⟨[], [(r, lit)]⟩
  have hs : YSafe t := ⟨by simp [t], by intro p hp; simp [t] at hp; subst hp; exact ⟨h2, h1, h3⟩⟩
  have e : yOpen ++ r ++ yClose ++ lit = t.renderY := by simp [Tpl.renderY, t]
  have hclose : breakOn yClose (yOpen ++ r ++ yClose ++ lit) = some (yOpen ++ r, lit) := by
    have : ')' ∉ yOpen ++ r := by simp [yOpen, h2]
    simpa using yBreak_close (b := lit) this
  have hr : yIsReference .wholeRef (yOpen ++ r ++ yClose ++ lit) = false := by
    cases hl : lit with
    | nil => exact absurd hl hlit
    | cons c cs =>
      rw [hl] at hclose
      simp only [yIsReference, hclose, Bool.and_false]
  have hin : isInfix yOpen (yOpen ++ r ++ yClose ++ lit) = true := by rw [e]; exact yIsInfix_render t hs (by simp [t])
  unfold yAddTemplate
  rw [if_neg (by rw [hr]; decide), if_pos hin]

end Model
