/-
Grouping by `mapping_partition`, for ANY per-rule evaluator (the argument of C02's A2, stated once for an arbitrary
`ev : Rule → Except ε (List β)` so that it applies to the evaluator of rules with function-valued term maps).
-/
import MorphKgc.Model.Rule
import MorphKgc.Lemmas.Grouping

namespace Lemmas.FnmlGroup
open Py Model

variable {ε β : Type}

/-- two outcomes are the same: both raise, or both succeed with the same members -/
def Same : Except ε (List β) → Except ε (List β) → Prop
  | .ok a, .ok b => ∀ x, x ∈ a ↔ x ∈ b
  | .error _, .error _ => True
  | _, _ => False

theorem Same.symm {a b : Except ε (List β)} (h : Same a b) : Same b a := by
  cases a <;> cases b <;> simp_all [Same]

theorem Same.trans {a b c : Except ε (List β)} (h : Same a b) (h' : Same b c) : Same a c := by
  cases a <;> cases b <;> cases c <;> simp_all [Same]

variable [DecidableEq β]

def unionAll (ev : Rule → Except ε (List β)) (rules : List Rule) : Except ε (List β) := do
  let parts ← (rules.filter (·.asserted)).mapM ev
  pure (dedupFirst parts.flatten)

def unionGroup (ev : Rule → Except ε (List β)) (rules : List Rule) (l : Str) : Except ε (List β) := do
  let parts ← ((rules.filter (·.asserted)).filter (·.partition = l)).mapM ev
  pure (dedupFirst parts.flatten)

def unionGrouped (ev : Rule → Except ε (List β)) (rules : List Rule) : Except ε (List β) := do
  let groups ← (dedupFirst ((rules.filter (·.asserted)).map (·.partition))).mapM (unionGroup ev rules)
  pure (dedupFirst groups.flatten)

def Produced (ev : Rule → Except ε (List β)) (rules : List Rule) (x : β) : Prop :=
  ∃ r ∈ rules.filter (·.asserted), ∃ out, ev r = .ok out ∧ x ∈ out

omit [DecidableEq β] in
theorem mem_okVal_iff {f : Rule → Except ε (List β)} {r : Rule} {x : β} (h : ∃ out, f r = .ok out) :
    x ∈ okVal (f r) ↔ ∃ out, f r = .ok out ∧ x ∈ out := by
  obtain ⟨out, ho⟩ := h
  simp [ho, okVal]

theorem unionAll_ok (ev : Rule → Except ε (List β)) (rules : List Rule)
    (h : ∀ r ∈ rules.filter (·.asserted), ∃ out, ev r = .ok out) :
    ∃ a, unionAll ev rules = .ok a ∧ ∀ x, x ∈ a ↔ Produced ev rules x := by
  unfold unionAll
  rw [mapM_ok_of_forall _ _ h]
  refine ⟨_, rfl, ?_⟩
  intro x
  rw [mem_dedupFirst]
  simp only [List.mem_flatten, List.mem_map]
  constructor
  · rintro ⟨_, ⟨r, hr, rfl⟩, hx⟩
    exact ⟨r, hr, (mem_okVal_iff (h r hr)).mp hx⟩
  · rintro ⟨r, hr, hx⟩
    exact ⟨_, ⟨r, hr, rfl⟩, (mem_okVal_iff (h r hr)).mpr hx⟩

theorem unionAll_error (ev : Rule → Except ε (List β)) (rules : List Rule)
    (h : ∃ r ∈ rules.filter (·.asserted), ∃ e, ev r = .error e) : ∃ e, unionAll ev rules = .error e := by
  unfold unionAll
  obtain ⟨e, he⟩ := mapM_error_of_exists _ _ h
  exact ⟨e, by rw [he]; rfl⟩

theorem unionGroup_ok (ev : Rule → Except ε (List β)) (rules : List Rule)
    (h : ∀ r ∈ rules.filter (·.asserted), ∃ out, ev r = .ok out) (l : Str) :
    ∃ g, unionGroup ev rules l = .ok g ∧
      ∀ x, x ∈ g ↔ ∃ r ∈ rules.filter (·.asserted), r.partition = l ∧ ∃ out, ev r = .ok out ∧ x ∈ out := by
  unfold unionGroup
  have h' : ∀ r ∈ (rules.filter (·.asserted)).filter (·.partition = l), ∃ out, ev r = .ok out :=
    fun r hr => h r (List.mem_filter.mp hr).1
  rw [mapM_ok_of_forall _ _ h']
  refine ⟨_, rfl, ?_⟩
  intro x
  rw [mem_dedupFirst]
  simp only [List.mem_flatten, List.mem_map]
  constructor
  · rintro ⟨_, ⟨r, hr, rfl⟩, hx⟩
    have hr' := List.mem_filter.mp hr
    exact ⟨r, hr'.1, by simpa using hr'.2, (mem_okVal_iff (h' r hr)).mp hx⟩
  · rintro ⟨r, hr, hl, hx⟩
    have hr' : r ∈ (rules.filter (·.asserted)).filter (·.partition = l) :=
      List.mem_filter.mpr ⟨hr, by simpa using hl⟩
    exact ⟨_, ⟨r, hr', rfl⟩, (mem_okVal_iff (h' r hr')).mpr hx⟩

theorem unionGrouped_ok (ev : Rule → Except ε (List β)) (rules : List Rule)
    (h : ∀ r ∈ rules.filter (·.asserted), ∃ out, ev r = .ok out) :
    ∃ g, unionGrouped ev rules = .ok g ∧ ∀ x, x ∈ g ↔ Produced ev rules x := by
  unfold unionGrouped
  have hg : ∀ l ∈ dedupFirst ((rules.filter (·.asserted)).map (·.partition)), ∃ g, unionGroup ev rules l = .ok g :=
    fun l _ => let ⟨g, hg, _⟩ := unionGroup_ok ev rules h l; ⟨g, hg⟩
  rw [mapM_ok_of_forall _ _ hg]
  refine ⟨_, rfl, ?_⟩
  intro x
  rw [mem_dedupFirst]
  simp only [List.mem_flatten, List.mem_map]
  constructor
  · rintro ⟨_, ⟨l, _, rfl⟩, hx⟩
    obtain ⟨g, hgl, hmem⟩ := unionGroup_ok ev rules h l
    rw [hgl] at hx
    obtain ⟨r, hr, _, hout⟩ := (hmem x).mp hx
    exact ⟨r, hr, hout⟩
  · rintro ⟨r, hr, hout⟩
    obtain ⟨g, hgl, hmem⟩ := unionGroup_ok ev rules h r.partition
    refine ⟨_, ⟨r.partition, ?_, rfl⟩, ?_⟩
    · rw [mem_dedupFirst]; exact List.mem_map.mpr ⟨r, hr, rfl⟩
    · rw [hgl]; exact (hmem x).mpr ⟨r, hr, rfl, hout⟩

theorem unionGrouped_error (ev : Rule → Except ε (List β)) (rules : List Rule)
    (h : ∃ r ∈ rules.filter (·.asserted), ∃ e, ev r = .error e) : ∃ e, unionGrouped ev rules = .error e := by
  unfold unionGrouped
  obtain ⟨r, hr, e, he⟩ := h
  have : ∃ l ∈ dedupFirst ((rules.filter (·.asserted)).map (·.partition)), ∃ e, unionGroup ev rules l = .error e := by
    refine ⟨r.partition, ?_, ?_⟩
    · rw [mem_dedupFirst]; exact List.mem_map.mpr ⟨r, hr, rfl⟩
    · unfold unionGroup
      obtain ⟨e', he'⟩ := mapM_error_of_exists ev
        ((rules.filter (·.asserted)).filter (·.partition = r.partition))
        ⟨r, List.mem_filter.mpr ⟨hr, by simp⟩, e, he⟩
      exact ⟨e', by rw [he']; rfl⟩
  obtain ⟨e', he'⟩ := mapM_error_of_exists _ _ this
  exact ⟨e', by rw [he']; rfl⟩

/-- the group-by-group run and the plain union have the same outcome, whatever the labels are -/
theorem grouped_same_all (ev : Rule → Except ε (List β)) (rules : List Rule) :
    Same (unionGrouped ev rules) (unionAll ev rules) := by
  rcases forall_ok_or_exists_error ev (rules.filter (·.asserted)) with h | h
  · obtain ⟨a, ha, hma⟩ := unionAll_ok ev rules h
    obtain ⟨g, hg, hmg⟩ := unionGrouped_ok ev rules h
    rw [ha, hg]
    exact fun x => (hmg x).trans (hma x).symm
  · obtain ⟨e, he⟩ := unionAll_error ev rules h
    obtain ⟨e', he'⟩ := unionGrouped_error ev rules h
    rw [he, he']; trivial

/-- two rule lists that differ only in what the evaluator does not read (`ev' r' = ev r` along a correspondence that keeps
    `asserted`) have the same plain union -/
theorem unionAll_same_of_corr (ev ev' : Rule → Except ε (List β)) (rules rules' : List Rule)
    (h1 : ∀ r' ∈ rules'.filter (·.asserted), ∃ r ∈ rules.filter (·.asserted), ev' r' = ev r)
    (h2 : ∀ r ∈ rules.filter (·.asserted), ∃ r' ∈ rules'.filter (·.asserted), ev' r' = ev r) :
    Same (unionAll ev' rules') (unionAll ev rules) := by
  rcases forall_ok_or_exists_error ev (rules.filter (·.asserted)) with h | h
  · have h' : ∀ r' ∈ rules'.filter (·.asserted), ∃ out, ev' r' = .ok out := fun r' hr' => by
      obtain ⟨r, hr, e⟩ := h1 r' hr'
      rw [e]; exact h r hr
    obtain ⟨a, ha, hma⟩ := unionAll_ok ev rules h
    obtain ⟨a', ha', hma'⟩ := unionAll_ok ev' rules' h'
    rw [ha, ha']
    intro x
    rw [hma, hma']
    constructor
    · rintro ⟨r', hr', out, ho, hx⟩
      obtain ⟨r, hr, e⟩ := h1 r' hr'
      exact ⟨r, hr, out, by rw [← e]; exact ho, hx⟩
    · rintro ⟨r, hr, out, ho, hx⟩
      obtain ⟨r', hr', e⟩ := h2 r hr
      exact ⟨r', hr', out, by rw [e]; exact ho, hx⟩
  · obtain ⟨r, hr, e, he⟩ := h
    obtain ⟨r', hr', e'⟩ := h2 r hr
    obtain ⟨x, hx⟩ := unionAll_error ev rules ⟨r, hr, e, he⟩
    obtain ⟨x', hx'⟩ := unionAll_error ev' rules' ⟨r', hr', e, by rw [e']; exact he⟩
    rw [hx, hx']; trivial

end Lemmas.FnmlGroup
