/-
C13, helper lemmas XIV: `_materialize_rml_rule` never reads `mapping_partition`: relabelling the rule table (and the rule)
changes nothing.
-/
import MorphKgc.Model.Star

namespace Model.Star
open Py Model

/-- the rule with another `mapping_partition` label -/
def setLabel (r : Rule) (l : Str) : Rule := { r with partition := l }
/-- the table relabelled by `f` -/
def relabelAll (f : Rule → Str) (rules : List Rule) : List Rule := rules.map fun r => setLabel r (f r)

theorem findRule_relabelAll (f : Rule → Str) (rules : List Rule) (id : Str) :
    findRule (relabelAll f rules) id = (findRule rules id).map fun r => setLabel r (f r) := by
  unfold findRule relabelAll
  induction rules with
  | nil => rfl
  | cons a rs ih =>
    simp only [List.map_cons, List.find?_cons]
    have : (setLabel a (f a)).tmId = a.tmId := rfl
    by_cases h : a.tmId = id
    · simp [this, h]
    · simp [this, h, ih]

theorem refsOfRule_setLabel (r : Rule) (l : Str) (b : Bool) : refsOfRule (setLabel r l) b = refsOfRule r b := rfl
theorem isAllConstant_setLabel (r : Rule) (l : Str) : isAllConstant (setLabel r l) = isAllConstant r := rfl
theorem isStar_setLabel (r : Rule) (l : Str) : isStar (setLabel r l) = isStar r := rfl
theorem getData_setLabel (env : Env) (r : Rule) (l : Str) (refs : List Str) : getData env (setLabel r l) refs = getData env r refs := rfl
theorem frameOfStar_setLabel (env : Env) (r : Rule) (l : Str) (refs : List Str) (d : Option Frame) :
    frameOfStar env (setLabel r l) refs d = frameOfStar env r refs d := by
  cases d <;> rfl

theorem frameOf_setLabel (env : Env) (r : Rule) (l : Str) (refs : List Str) (d : Option Frame) :
    frameOf env (setLabel r l) refs d = frameOf env r refs d := by
  cases d <;> rfl
theorem finish_setLabel (env : Env) (r : Rule) (l : Str) (nest : Nat) (k : MapType) (v a : Str) (F : Frame) :
    finish env (setLabel r l) nest k v a F = finish env r nest k v a F := rfl

theorem refsStar_relabel (f : Rule → Str) (rules : List Rule) : ∀ (n : Nat) (r : Rule) (l : Str),
    refsStar (relabelAll f rules) n (setLabel r l) = refsStar rules n r := by
  intro n
  induction n with
  | zero => intro r l; rfl
  | succ n ih =>
    intro r l
    have hpos : ∀ (mt : MapType) (v : Str) (j : List (Str × Str)),
        posRefsStar (relabelAll f rules) (refsStar (relabelAll f rules) n) mt v j = posRefsStar rules (refsStar rules n) mt v j := by
      intro mt v j
      unfold posRefsStar
      split
      · rw [findRule_relabelAll]
        cases findRule rules v with
        | none => rfl
        | some q => simp [ih]
      · rfl
    unfold refsStar
    simp only [setLabel, hpos]
    rfl

theorem quotedStep_relabel (f : Rule → Str) (rules : List Rule) (rec rec' : Rec)
    (hrec : ∀ q data pjr nest, rec' (setLabel q (f q)) data pjr nest = rec q data pjr nest)
    (set : FRow → Option Str → FRow) (id : Str) (conds : List (Str × Str)) (nest : Nat) (F : Frame) :
    quotedStep set (relabelAll f rules) rec' id conds nest F = quotedStep set rules rec id conds nest F := by
  unfold quotedStep
  rw [findRule_relabelAll]
  cases findRule rules id with
  | none => rfl
  | some q => simp [hrec]

/-- **The label is never read.** -/
theorem evalStar_relabel (env : Env) (f : Rule → Str) (rules : List Rule) : ∀ (fuel : Nat) (r : Rule) (l : Str)
    (data : Option Frame) (pjr : List Str) (nest : Nat),
    evalStar env (relabelAll f rules) fuel (setLabel r l) data pjr nest = evalStar env rules fuel r data pjr nest := by
  intro fuel
  induction fuel with
  | zero => intro r l data pjr nest; rfl
  | succ fuel ih =>
    intro r l data pjr nest
    have hsub : ∀ F, subjectStep (relabelAll f rules) (evalStar env (relabelAll f rules) fuel) (setLabel r l) nest F =
        subjectStep rules (evalStar env rules fuel) r nest F := by
      intro F
      unfold subjectStep
      simp only [setLabel, quotedStep_relabel f rules (evalStar env rules fuel) _ (fun q d p n => ih q (f q) d p n)]
    have hobj : ∀ F, objectStep (relabelAll f rules) (evalStar env (relabelAll f rules) fuel) (setLabel r l) nest F =
        objectStep rules (evalStar env rules fuel) r nest F := by
      intro F
      unfold objectStep
      simp only [setLabel, quotedStep_relabel f rules (evalStar env rules fuel) _ (fun q d p n => ih q (f q) d p n)]
      rfl
    unfold evalStar
    simp only [refsStar_relabel, isAllConstant_setLabel, isStar_setLabel, finish_setLabel, frameOf_setLabel, frameOfStar_setLabel, hsub, hobj,
      findRule_relabelAll]
    cases hr : refsStar rules (fuel + 1) r with
    | error e => rfl
    | ok refs0 =>
      simp only [bind, Except.bind]
      by_cases hc : isAllConstant r = true
      · simp only [hc, ↓reduceIte]
        rfl
      · simp only [hc, Bool.false_eq_true, ↓reduceIte]
        by_cases hs : isStar r = true
        · simp only [hs, ↓reduceIte]
          rfl
        · simp only [hs, Bool.false_eq_true, ↓reduceIte]
          by_cases hp : r.objectMapType = .parentTM
          · have hp' : (setLabel r l).objectMapType = .parentTM := hp
            simp only [hp, hp', ↓reduceIte, show (setLabel r l).objectMapValue = r.objectMapValue from rfl,
              show (setLabel r l).objectJoin = r.objectJoin from rfl]
            cases findRule rules r.objectMapValue with
            | none => rfl
            | some parent => rfl
          · have hp' : ¬ (setLabel r l).objectMapType = .parentTM := hp
            simp only [hp, hp', ↓reduceIte]
            rfl

end Model.Star

namespace Model.Star
open Py Model

theorem evalRule_relabelAll (env : Env) (f : Rule → Str) (rules : List Rule) (r : Rule) (l : Str) :
    evalRule env (relabelAll f rules) (setLabel r l) = evalRule env rules r := by
  unfold evalRule
  by_cases hc : isAllConstant r = true
  · have hc' : isAllConstant (setLabel r l) = true := hc
    simp only [hc, hc', ↓reduceIte]
    rfl
  · have hc' : ¬ isAllConstant (setLabel r l) = true := hc
    simp only [hc, hc', Bool.false_eq_true, ↓reduceIte]
    by_cases hp : r.objectMapType = .parentTM
    · have hp' : (setLabel r l).objectMapType = .parentTM := hp
      simp only [hp, hp', ↓reduceIte, show (setLabel r l).objectMapValue = r.objectMapValue from rfl, findRule_relabelAll]
      cases findRule rules r.objectMapValue with
      | none => rfl
      | some parent => rfl
    · have hp' : ¬ (setLabel r l).objectMapType = .parentTM := hp
      simp only [hp, hp', ↓reduceIte]
      rfl

theorem evalRuleStar_relabel (env : Env) (f : Rule → Str) (rules : List Rule) (r : Rule) (l : Str) :
    evalRuleStar env (relabelAll f rules) (setLabel r l) = evalRuleStar env rules r := by
  unfold evalRuleStar
  have hlen : fuelFor (relabelAll f rules) = fuelFor rules := by simp [fuelFor, relabelAll]
  rw [isStar_setLabel, hlen, evalStar_relabel, evalRule_relabelAll]

theorem mapM_map_except {α β γ ε} (g : α → β) (h : β → Except ε γ) (l : List α) :
    (l.map g).mapM h = l.mapM (fun a => h (g a)) := by
  induction l with
  | nil => rfl
  | cons a l ih => simp only [List.map_cons, List.mapM_cons, ih]

theorem filter_asserted_relabelAll (f : Rule → Str) (rules : List Rule) :
    (relabelAll f rules).filter (·.asserted) = (rules.filter (·.asserted)).map fun r => setLabel r (f r) := by
  unfold relabelAll
  induction rules with
  | nil => rfl
  | cons a rs ih =>
    have : (setLabel a (f a)).asserted = a.asserted := rfl
    simp only [List.map_cons, List.filter_cons, this, ih]
    split <;> rfl

/-- the ungrouped result does not depend on the labels -/
theorem evalAllStar_relabel (env : Env) (f : Rule → Str) (rules : List Rule) :
    evalAllStar env (relabelAll f rules) = evalAllStar env rules := by
  unfold evalAllStar
  rw [filter_asserted_relabelAll, mapM_map_except]
  simp only [evalRuleStar_relabel]

end Model.Star
