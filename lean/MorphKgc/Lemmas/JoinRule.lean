/-
C07 helper lemmas (2): the statements of a referencing-object-map rule.
  * `mem_evalRule_ref`: membership in the engine's output in terms of pairs of logical rows (any term maps);
  * `ref_rule_refinement`: for term maps of the fragment, the output is exactly what the generation rules prescribe for the
    pairs of the relational inner equi-join.
-/
import MorphKgc.Lemmas.Join

namespace Model
open Py Spec

/-! ### membership, any term maps -/

theorem lookup_projRow_mem {refs : List Str} {ρ : Row} {c : Str} (h : c ∈ refs) :
    lookup c (projRow (dedupFirst refs) ρ) = some (cellStr ρ c) := by
  rw [lookup_projRow]
  simp [h]

theorem keys_projRow (refs : List Str) (ρ : Row) : (projRow refs ρ).map (·.1) = refs := by
  simp [projRow, List.map_map, Function.comp_def]

/-- on projected rows the join conditions compare the stringified cells -/
theorem keysMatch_projRow (conds : List (Str × Str)) (refs prefs : List Str) (ρc ρp : Row)
    (hc : ∀ cp ∈ conds, cp.1 ∈ refs) (hp : ∀ cp ∈ conds, cp.2 ∈ prefs) :
    keysMatch (srowVal (projRow (dedupFirst refs) ρc)) (srowVal (projRow (dedupFirst prefs) ρp)) conds = true ↔
      ∀ cp ∈ conds, cellStr ρc cp.1 = cellStr ρp cp.2 := by
  unfold keysMatch
  rw [List.all_eq_true]
  apply forall_congr'
  intro cp
  apply imp_congr_right
  intro hcp
  simp [condHolds, srowVal, lookup_projRow_mem (hc cp hcp), lookup_projRow_mem (hp cp hcp)]

/-- the references of the parent frame -/
def parentRefsOf (r parent : Rule) : List Str := refsOfRule parent true ++ r.objectJoin.map (·.2)

/-- the merged row of a pair of logical rows -/
def joinedRow (r parent : Rule) (ρc ρp : Row) : SRow :=
  projRow (dedupFirst (refsOfRule r)) ρc ++ prefixRow "parent_".toList (projRow (dedupFirst (parentRefsOf r parent)) ρp)

/-- **Membership in the output of a referencing rule** over complete tables: one candidate line per pair of a child row and a
    parent row that have no NULL in their references and agree on every join condition. -/
theorem mem_evalRule_ref (env : Env) (rules : List Rule) (r parent : Rule) (hpt : r.objectMapType = .parentTM)
    (hfind : findRule rules r.objectMapValue = some parent)
    (hcomp : Complete (refsOfRule r) (env.table r) = true)
    (hcompP : Complete (parentRefsOf r parent) (env.table parent) = true)
    (lines : List Str) (hl : evalRule env rules r = .ok lines) (line : Str) :
    line ∈ lines ↔ ∃ ρc ∈ env.table r, ∃ ρp ∈ env.table parent,
      (∀ c ∈ refsOfRule r, cellStr ρc c ∉ env.na) ∧ (∀ c ∈ parentRefsOf r parent, cellStr ρp c ∉ env.na) ∧
      (∀ cp ∈ r.objectJoin, cellStr ρc cp.1 = cellStr ρp cp.2) ∧
      rowTriple env r parent.subjectMapType parent.subjectMapValue "parent_".toList (joinedRow r parent ρc ρp) = .ok line := by
  rw [evalRule_ref_eq env rules r parent hpt hfind, preprocess_eq _ _ _ hcomp] at hl
  have hcompP' := hcompP
  unfold parentRefsOf at hcompP'
  rw [preprocess_eq _ _ _ hcompP'] at hl
  have := mem_of_mapM_ok _ _ _ hl line
  rw [this]
  have hcj : ∀ cp ∈ r.objectJoin, cp.1 ∈ refsOfRule r := fun cp hcp =>
    join_children_subset r _ (List.mem_map.mpr ⟨cp, hcp, rfl⟩)
  have hpj : ∀ cp ∈ r.objectJoin, cp.2 ∈ parentRefsOf r parent := fun cp hcp =>
    List.mem_append.mpr (.inr (List.mem_map.mpr ⟨cp, hcp, rfl⟩))
  constructor
  · rintro ⟨σ, hσ, hrt⟩
    obtain ⟨c, hc, p, hp, hk, rfl⟩ := (mem_mergeData _ _ _ _).mp hσ
    obtain ⟨ρc, hρc, rfl, hallc⟩ := (mem_prepRows _ _ _ _).mp hc
    obtain ⟨ρp, hρp, rfl, hallp⟩ := (mem_prepRows _ _ _ _).mp hp
    exact ⟨ρc, hρc, ρp, hρp, hallc, hallp, (keysMatch_projRow _ _ (parentRefsOf r parent) _ _ hcj hpj).mp hk, hrt⟩
  · rintro ⟨ρc, hρc, ρp, hρp, hallc, hallp, hk, hrt⟩
    refine ⟨_, (mem_mergeData _ _ _ _).mpr ⟨_, (mem_prepRows _ _ _ _).mpr ⟨ρc, hρc, rfl, hallc⟩, _,
      (mem_prepRows _ _ _ _).mpr ⟨ρp, hρp, rfl, hallp⟩,
      (keysMatch_projRow _ _ (parentRefsOf r parent) _ _ hcj hpj).mpr hk, rfl⟩, hrt⟩

/-- a referencing rule over complete tables does not raise provided every candidate row yields a line -/
theorem evalRule_ref_ok (env : Env) (rules : List Rule) (r parent : Rule) (hpt : r.objectMapType = .parentTM)
    (hfind : findRule rules r.objectMapValue = some parent)
    (hcomp : Complete (refsOfRule r) (env.table r) = true)
    (hcompP : Complete (parentRefsOf r parent) (env.table parent) = true)
    (hrow : ∀ ρc ∈ env.table r, ∀ ρp ∈ env.table parent,
      (∀ c ∈ refsOfRule r, cellStr ρc c ∉ env.na) → (∀ c ∈ parentRefsOf r parent, cellStr ρp c ∉ env.na) →
      ∃ L, rowTriple env r parent.subjectMapType parent.subjectMapValue "parent_".toList (joinedRow r parent ρc ρp) = .ok L) :
    ∃ lines, evalRule env rules r = .ok lines := by
  rw [evalRule_ref_eq env rules r parent hpt hfind, preprocess_eq _ _ _ hcomp]
  unfold parentRefsOf at hcompP
  rw [preprocess_eq _ _ _ hcompP]
  apply mapM_ok_of_forall_exists
  intro σ hσ
  obtain ⟨c, hc, p, hp, _, rfl⟩ := (mem_mergeData _ _ _ _).mp hσ
  obtain ⟨ρc, hρc, rfl, hallc⟩ := (mem_prepRows _ _ _ _).mp hc
  obtain ⟨ρp, hρp, rfl, hallp⟩ := (mem_prepRows _ _ _ _).mp hp
  exact hrow ρc hρc ρp hρp hallc hallp

/-! ### lookups in the merged row -/

theorem lookup_joinedRow_child {r parent : Rule} {ρc ρp : Row} {c : Str} (hc : c ∈ refsOfRule r) :
    lookup c (joinedRow r parent ρc ρp) = some (cellStr ρc c) := by
  unfold joinedRow
  rw [lookup_joined_child _ _ _ (by rw [keys_projRow]; simpa using hc), lookup_projRow_mem hc]

theorem lookup_joinedRow_parent {r parent : Rule} (hno : RuleNoClash r parent) {ρc ρp : Row} {k : Str}
    (hk : k ∈ parentRefsOf r parent) :
    lookup ("parent_".toList ++ k) (joinedRow r parent ρc ρp) = some (cellStr ρp k) := by
  unfold joinedRow
  rw [lookup_joined_parent _ _ _ _ (by
    rw [keys_projRow]
    intro hmem
    exact hno _ (by simpa using hmem) k hk rfl), lookup_projRow_mem hk]

theorem materializeTemplate_alias (cfg : TermCfg) (kind : MapType) (value : Str) (tt : Option TermType) (dt alias : Str)
    (row : Str → Option Str) :
    materializeTemplate cfg kind value tt dt alias row = materializeTemplate cfg kind value tt dt [] (fun c => row (alias ++ c)) := by
  unfold materializeTemplate
  simp

/-! ### the specification side -/

theorem joinRows_eq (na : List Str) (conds : List (Str × Str)) (c : Row) (parent : Table) :
    joinRows na conds c parent = parent.filter fun p => keysMatch (valueOf na c) (valueOf na p) conds := by
  unfold joinRows keysMatch
  apply List.filter_congr
  intro p _
  apply List.all_congr rfl
  intro cp
  unfold condHolds
  cases valueOf na c cp.1 <;> cases valueOf na p cp.2 <;> simp
  rename_i v1 v2
  by_cases h : v1 = v2 <;> simp [h]

/-- the parent rows the specification joins with a child row are the second components of the relational join -/
theorem joinRows_eq_joinTables (na : List Str) (conds : List (Str × Str)) (c : Row) (parent : Table) :
    joinRows na conds c parent = (joinTables na conds [c] parent).map (·.2) := by
  rw [joinRows_eq]
  simp [joinTables, innerJoin, List.map_map, Function.comp_def]

theorem mem_joinTables (na : List Str) (conds : List (Str × Str)) (child parent : Table) (c p : Row) :
    (c, p) ∈ joinTables na conds child parent ↔
      c ∈ child ∧ p ∈ parent ∧ keysMatch (valueOf na c) (valueOf na p) conds = true :=
  mem_innerJoin _ _ _ _ _ _ _

theorem mem_stmtsFor_ref (senv : SEnv) (doc : Doc) (tm ptm : TriplesMap) (ρ : Row) (gs : List TermMap) (pm : TermMap)
    (conds : List (Str × Str)) (hdoc : doc.tms.find? (fun t => t.id = ptm.id) = some ptm) (line : Str) :
    line ∈ stmtsFor senv doc tm ρ gs pm (.ref ptm.id conds) ↔
      ∃ s pt ot pr g, genTerm senv.safe senv.na tm.subject ρ = some s ∧ genTerm senv.safe senv.na pm ρ = some pt ∧
        pr ∈ senv.table ptm ∧ keysMatch (valueOf senv.na ρ) (valueOf senv.na pr) conds = true ∧
        genTerm senv.safe senv.na ptm.subject pr = some ot ∧ g ∈ graphTerms senv gs ρ ∧
        line = renderStmt senv.fmt s pt ot g := by
  unfold stmtsFor
  cases hs : genTerm senv.safe senv.na tm.subject ρ with
  | none => simp
  | some s =>
    cases hp : genTerm senv.safe senv.na pm ρ with
    | none => simp
    | some pt =>
      simp only [hdoc, List.mem_flatMap, List.mem_filterMap, List.mem_map, joinRows_eq, List.mem_filter, Option.some.injEq]
      constructor
      · rintro ⟨ot, ⟨pr, ⟨hpr, hk⟩, hot⟩, g, hg, rfl⟩
        exact ⟨s, pt, ot, pr, g, rfl, rfl, hpr, hk, hot, hg, rfl⟩
      · rintro ⟨s', pt', ot, pr, g, rfl, rfl, hpr, hk, hot, hg, rfl⟩
        exact ⟨ot, ⟨pr, ⟨hpr, hk⟩, hot⟩, g, hg, rfl⟩

/-- the statements of one child row are those of the pairs of the join that have it as first component -/
theorem mem_refStmts (senv : SEnv) (doc : Doc) (tm ptm : TriplesMap) (gs : List TermMap) (pm : TermMap)
    (conds : List (Str × Str)) (hdoc : doc.tms.find? (fun t => t.id = ptm.id) = some ptm) (line : Str) :
    line ∈ refStmts senv tm ptm conds gs pm ↔ ∃ ρ ∈ senv.table tm, line ∈ stmtsFor senv doc tm ρ gs pm (.ref ptm.id conds) := by
  unfold refStmts
  simp only [List.mem_flatMap, mem_stmtsFor_ref senv doc tm ptm _ gs pm conds hdoc]
  constructor
  · rintro ⟨⟨c, p⟩, hcp, hl⟩
    obtain ⟨hc, hp, hk⟩ := (mem_joinTables _ _ _ _ _ _).mp hcp
    refine ⟨c, hc, ?_⟩
    simp only at hl
    split at hl
    · rename_i s pt o hs hpt ho
      obtain ⟨g, hg, rfl⟩ := List.mem_map.mp hl
      exact ⟨s, pt, o, p, g, hs, hpt, hp, hk, ho, hg, rfl⟩
    · simp at hl
  · rintro ⟨c, hc, s, pt, ot, pr, g, hs, hpt, hpr, hk, hot, hg, rfl⟩
    refine ⟨(c, pr), (mem_joinTables _ _ _ _ _ _).mpr ⟨hc, hpr, hk⟩, ?_⟩
    simp only [hs, hpt, hot]
    exact List.mem_map.mpr ⟨g, hg, rfl⟩

end Model
