/-
Percent-encoding of template values (falcon `encode_value` / urllib `quote` with a safe set):
decoding gives the value back, for every Unicode string, and only unreserved / safe characters stay
unencoded.  Rests on core's `List.utf8Decode?_utf8Encode`.
-/
import MorphKgc.Model.Term
import MorphKgc.Spec.NTerm

namespace Model
open Py Spec

theorem hexVal_hexDigit : ∀ k, k < 16 → hexVal (hexDigit k) = some k := by decide

theorem toNat_ofNat_lt {n : Nat} (h : n < 128) : (Char.ofNat n).toNat = n := by
  have hv : n.isValidChar := by left; omega
  simp [Char.ofNat, hv, Char.toNat, Char.ofNatAux]

theorem isUnreserved_ne_pct {c : Char} (h : isUnreserved c = true) : c ≠ '%' := by
  intro e; subst e; revert h; decide

theorem pctBytes_cons_pct (h l : Char) (a b : Nat) (rest : Str) (ha : hexVal h = some a) (hb : hexVal l = some b) :
    pctBytes ('%' :: h :: l :: rest) = (pctBytes rest).map (UInt8.ofNat (a * 16 + b) :: ·) := by
  rw [pctBytes]; simp [ha, hb]

theorem pctBytes_cons_plain (c : Char) (rest : Str) (h1 : c ≠ '%') (h2 : c.toNat < 128) :
    pctBytes (c :: rest) = (pctBytes rest).map (UInt8.ofNat c.toNat :: ·) := by
  conv => lhs; unfold pctBytes
  simp [h1, h2]

theorem pctBytes_encByte (safe : Str) (hs : safe.contains '%' = false) (b : UInt8) (rest : Str) :
    pctBytes (encByte safe b ++ rest) = (pctBytes rest).map (b :: ·) := by
  unfold encByte
  simp only
  split
  · rename_i hc
    simp only [Bool.and_eq_true, decide_eq_true_eq, Bool.or_eq_true] at hc
    obtain ⟨hlt, hok⟩ := hc
    have hne : Char.ofNat b.toNat ≠ '%' := by
      rcases hok with h | h
      · exact isUnreserved_ne_pct h
      · intro e; rw [e, hs] at h; exact absurd h (by simp)
    simp only [List.cons_append, List.nil_append]
    rw [pctBytes_cons_plain _ _ hne (by rw [toNat_ofNat_lt hlt]; exact hlt), toNat_ofNat_lt hlt]
    simp
  · have hb : b.toNat < 256 := b.toNat_lt
    simp only [List.cons_append, List.nil_append]
    rw [pctBytes_cons_pct _ _ _ _ _ (hexVal_hexDigit _ (by omega)) (hexVal_hexDigit _ (by omega))]
    have : b.toNat / 16 * 16 + b.toNat % 16 = b.toNat := by omega
    rw [this]; simp

theorem pctBytes_flatMap (safe : Str) (hs : safe.contains '%' = false) (bs : List UInt8) :
    pctBytes (bs.flatMap (encByte safe)) = some bs := by
  induction bs with
  | nil => simp [pctBytes]
  | cons b bs ih =>
    rw [List.flatMap_cons, pctBytes_encByte safe hs, ih]; rfl

/-- **C05, IRIs**: percent-decoding a percent-encoded value yields the value, character for character. -/
theorem pctDecode_pctEncode (safe : Str) (hs : safe.contains '%' = false) (v : Str) :
    pctDecode (pctEncode safe v) = some v := by
  unfold pctDecode pctEncode
  rw [pctBytes_flatMap safe hs]
  simp only
  have : (utf8Bytes v).toByteArray = v.utf8Encode := rfl
  rw [this, List.utf8Decode?_utf8Encode]
  simp

/-- every character of an encoded value is unreserved, in the safe set, `%`, or an upper-case hex digit -/
theorem pctEncode_alphabet (safe : Str) (v : Str) :
    ∀ c ∈ pctEncode safe v, isUnreserved c = true ∨ safe.contains c = true ∨ c = '%' ∨ ("0123456789ABCDEF".toList.contains c) = true := by
  intro c hc
  unfold pctEncode at hc
  obtain ⟨b, _, hcb⟩ := List.mem_flatMap.mp hc
  unfold encByte at hcb
  simp only at hcb
  split at hcb
  · rename_i hcond
    simp only [Bool.and_eq_true, decide_eq_true_eq, Bool.or_eq_true] at hcond
    simp only [List.mem_singleton] at hcb
    subst hcb
    rcases hcond.2 with h | h
    · exact Or.inl h
    · exact Or.inr (Or.inl h)
  · have hb : b.toNat < 256 := b.toNat_lt
    have hx : ∀ k, k < 16 → ("0123456789ABCDEF".toList.contains (hexDigit k)) = true := by decide
    simp only [List.mem_cons, List.not_mem_nil, or_false] at hcb
    rcases hcb with h | h | h
    · exact Or.inr (Or.inr (Or.inl h))
    · subst h; exact Or.inr (Or.inr (Or.inr (hx _ (by omega))))
    · subst h; exact Or.inr (Or.inr (Or.inr (hx _ (by omega))))

theorem isUnreserved_lt {c : Char} (h : isUnreserved c = true) : c.toNat < 128 := by
  unfold isUnreserved at h
  simp only [Bool.or_eq_true, decide_eq_true_eq] at h
  rcases h with (((h | h) | h) | h) | h
  · simp only [Char.isAlphanum, Char.isAlpha, Char.isUpper, Char.isLower, Char.isDigit, Bool.or_eq_true,
      Bool.and_eq_true, decide_eq_true_eq, ge_iff_le] at h
    have e : c.toNat = c.val.toNat := rfl
    rw [e]
    rcases h with (⟨_, h2⟩ | ⟨_, h2⟩) | ⟨_, h2⟩ <;>
      (have := UInt32.le_iff_toNat_le.mp h2; simp at this; omega)
  all_goals (subst h; decide)

theorem unreserved_iri : ∀ n, n < 128 → isUnreserved (Char.ofNat n) = true → isIriChar (Char.ofNat n) = true := by decide

theorem isUnreserved_isIriChar {c : Char} (h : isUnreserved c = true) : isIriChar c = true := by
  have hl := isUnreserved_lt h
  have : c = Char.ofNat c.toNat := by simp
  rw [this] at h ⊢
  exact unreserved_iri _ hl h

/-- an encoded value is a valid IRIREF body whenever the safe set is -/
theorem pctEncode_isIriBody (safe : Str) (hsafe : safe.all isIriChar = true) (v : Str) :
    IsIriBody (pctEncode safe v) = true := by
  unfold IsIriBody
  rw [List.all_eq_true]
  intro c hc
  rcases pctEncode_alphabet safe v c hc with h | h | h | h
  · exact isUnreserved_isIriChar h
  · exact List.all_eq_true.mp hsafe c (by simpa using h)
  · subst h; decide
  · have : ∀ d ∈ "0123456789ABCDEF".toList, isIriChar d = true := by decide
    exact this c (by simpa using h)

end Model
