/-
Lemmas for C09: the normalisation steps of `Model/Surface.lean` — which of them commute, which orders of the steps are acceptable, and
the normal form every acceptable order computes.
-/
import MorphKgc.Model.Surface

namespace Model
open Py Spec

/-! ### which orders of the steps give the result of the canonical order

The steps are partially ordered by what each one's queries need to find:
  both vocabulary rewrites  <  class → predicate-object map  <  shortcut expansion  <  subject graph maps → predicate-object maps
                                                                                     <  default graph,
  shortcut expansion < term-type completion,     class → predicate-object map < triples-map typing.
`acceptedOrders` lists the 30 linear extensions of this order (`acceptedOrders_complete`: nothing is missing).  `_validate_termtypes`
changes nothing and may stand anywhere. -/

def allSteps : List Step :=
  [.r2rmlToRml, .legacyToRml, .classToPom, .expandShortcuts, .subjectGraphsToPom, .defaultGraph, .termtypes, .tmClass]

/-- (a, b): step a has to run before step b -/
def precedence : List (Step × Step) :=
  [(.r2rmlToRml, .classToPom), (.legacyToRml, .classToPom), (.classToPom, .expandShortcuts),
   (.expandShortcuts, .subjectGraphsToPom), (.subjectGraphsToPom, .defaultGraph), (.expandShortcuts, .termtypes),
   (.classToPom, .tmClass)]

/-- the linear extensions of `precedence` over the steps in `rest` -/
def linExt : Nat → List Step → List (List Step)
  | 0, _ => [[]]
  | n + 1, rest =>
    if rest = [] then [[]] else
    (rest.filter fun s => precedence.all fun p => !(p.2 = s && rest.contains p.1)).flatMap fun s =>
      (linExt n (rest.filter (· ≠ s))).map (s :: ·)

def acceptedOrders : List (List Step) := [
  [.r2rmlToRml, .legacyToRml, .classToPom, .expandShortcuts, .subjectGraphsToPom, .defaultGraph, .termtypes, .tmClass],
  [.r2rmlToRml, .legacyToRml, .classToPom, .expandShortcuts, .subjectGraphsToPom, .defaultGraph, .tmClass, .termtypes],
  [.r2rmlToRml, .legacyToRml, .classToPom, .expandShortcuts, .subjectGraphsToPom, .termtypes, .defaultGraph, .tmClass],
  [.r2rmlToRml, .legacyToRml, .classToPom, .expandShortcuts, .subjectGraphsToPom, .termtypes, .tmClass, .defaultGraph],
  [.r2rmlToRml, .legacyToRml, .classToPom, .expandShortcuts, .subjectGraphsToPom, .tmClass, .defaultGraph, .termtypes],
  [.r2rmlToRml, .legacyToRml, .classToPom, .expandShortcuts, .subjectGraphsToPom, .tmClass, .termtypes, .defaultGraph],
  [.r2rmlToRml, .legacyToRml, .classToPom, .expandShortcuts, .termtypes, .subjectGraphsToPom, .defaultGraph, .tmClass],
  [.r2rmlToRml, .legacyToRml, .classToPom, .expandShortcuts, .termtypes, .subjectGraphsToPom, .tmClass, .defaultGraph],
  [.r2rmlToRml, .legacyToRml, .classToPom, .expandShortcuts, .termtypes, .tmClass, .subjectGraphsToPom, .defaultGraph],
  [.r2rmlToRml, .legacyToRml, .classToPom, .expandShortcuts, .tmClass, .subjectGraphsToPom, .defaultGraph, .termtypes],
  [.r2rmlToRml, .legacyToRml, .classToPom, .expandShortcuts, .tmClass, .subjectGraphsToPom, .termtypes, .defaultGraph],
  [.r2rmlToRml, .legacyToRml, .classToPom, .expandShortcuts, .tmClass, .termtypes, .subjectGraphsToPom, .defaultGraph],
  [.r2rmlToRml, .legacyToRml, .classToPom, .tmClass, .expandShortcuts, .subjectGraphsToPom, .defaultGraph, .termtypes],
  [.r2rmlToRml, .legacyToRml, .classToPom, .tmClass, .expandShortcuts, .subjectGraphsToPom, .termtypes, .defaultGraph],
  [.r2rmlToRml, .legacyToRml, .classToPom, .tmClass, .expandShortcuts, .termtypes, .subjectGraphsToPom, .defaultGraph],
  [.legacyToRml, .r2rmlToRml, .classToPom, .expandShortcuts, .subjectGraphsToPom, .defaultGraph, .termtypes, .tmClass],
  [.legacyToRml, .r2rmlToRml, .classToPom, .expandShortcuts, .subjectGraphsToPom, .defaultGraph, .tmClass, .termtypes],
  [.legacyToRml, .r2rmlToRml, .classToPom, .expandShortcuts, .subjectGraphsToPom, .termtypes, .defaultGraph, .tmClass],
  [.legacyToRml, .r2rmlToRml, .classToPom, .expandShortcuts, .subjectGraphsToPom, .termtypes, .tmClass, .defaultGraph],
  [.legacyToRml, .r2rmlToRml, .classToPom, .expandShortcuts, .subjectGraphsToPom, .tmClass, .defaultGraph, .termtypes],
  [.legacyToRml, .r2rmlToRml, .classToPom, .expandShortcuts, .subjectGraphsToPom, .tmClass, .termtypes, .defaultGraph],
  [.legacyToRml, .r2rmlToRml, .classToPom, .expandShortcuts, .termtypes, .subjectGraphsToPom, .defaultGraph, .tmClass],
  [.legacyToRml, .r2rmlToRml, .classToPom, .expandShortcuts, .termtypes, .subjectGraphsToPom, .tmClass, .defaultGraph],
  [.legacyToRml, .r2rmlToRml, .classToPom, .expandShortcuts, .termtypes, .tmClass, .subjectGraphsToPom, .defaultGraph],
  [.legacyToRml, .r2rmlToRml, .classToPom, .expandShortcuts, .tmClass, .subjectGraphsToPom, .defaultGraph, .termtypes],
  [.legacyToRml, .r2rmlToRml, .classToPom, .expandShortcuts, .tmClass, .subjectGraphsToPom, .termtypes, .defaultGraph],
  [.legacyToRml, .r2rmlToRml, .classToPom, .expandShortcuts, .tmClass, .termtypes, .subjectGraphsToPom, .defaultGraph],
  [.legacyToRml, .r2rmlToRml, .classToPom, .tmClass, .expandShortcuts, .subjectGraphsToPom, .defaultGraph, .termtypes],
  [.legacyToRml, .r2rmlToRml, .classToPom, .tmClass, .expandShortcuts, .subjectGraphsToPom, .termtypes, .defaultGraph],
  [.legacyToRml, .r2rmlToRml, .classToPom, .tmClass, .expandShortcuts, .termtypes, .subjectGraphsToPom, .defaultGraph]
]

theorem acceptedOrders_complete : acceptedOrders = linExt 8 allSteps := by decide +kernel

def canonicalOrder : List Step :=
  [.r2rmlToRml, .legacyToRml, .classToPom, .expandShortcuts, .subjectGraphsToPom, .defaultGraph, .termtypes, .tmClass]

/-- the order of the normalisation steps is acceptable: once `_validate_termtypes` is left out it is one of the linear extensions -/
def OrderOK (order : List Step) : Bool := acceptedOrders.contains (order.filter (· != .validate))

/-! ### commutation of independent steps -/

theorem applyStep_validate (d : SDoc) : applyStep .validate d = d := rfl

theorem runNormSteps_filter_validate (order : List Step) (d : SDoc) :
    runNormSteps (order.filter (· != .validate)) d = runNormSteps order d := by
  unfold runNormSteps
  induction order generalizing d with
  | nil => rfl
  | cons s t ih =>
    by_cases h : s = .validate
    · subst h
      simp only [List.filter_cons, bne_self_eq_false, Bool.false_eq_true, if_false, List.foldl_cons, applyStep_validate]
      exact ih d
    · have : (s != Step.validate) = true := by simpa using h
      simp only [List.filter_cons, this, if_true, List.foldl_cons]
      exact ih _

theorem applyStep_structural {s : Step} (hs : isStructural s = true) (d : SDoc) :
    applyStep s d = if d.resolved then { d with tms := d.tms.map (stepTm s) } else d := by
  cases s <;> simp_all [isStructural, applyStep]

/-- two structural steps that commute on every triples map commute on documents -/
theorem applyStep_comm {a b : Step} (ha : isStructural a = true) (hb : isStructural b = true)
    (h : ∀ tm, stepTm a (stepTm b tm) = stepTm b (stepTm a tm)) (d : SDoc) :
    applyStep a (applyStep b d) = applyStep b (applyStep a d) := by
  rw [applyStep_structural hb d, applyStep_structural ha d]
  by_cases hr : d.resolved = true
  · simp only [hr, if_true]
    rw [applyStep_structural ha, applyStep_structural hb]
    have hr' : ∀ l, ({ d with tms := l } : SDoc).resolved = true := fun l => hr
    simp only [hr', if_true, List.map_map]
    congr 1
    apply List.map_congr_left
    intro tm _
    exact h tm
  · simp only [hr, Bool.false_eq_true, if_false]
    rw [applyStep_structural ha, applyStep_structural hb]
    simp [hr]

theorem isEmpty_map' {α β} (f : α → β) (l : List α) : (l.map f).isEmpty = l.isEmpty := by cases l <;> rfl

theorem tmClass_comm_shortcuts (tm : STm) :
    stepTm .expandShortcuts (stepTm .tmClass tm) = stepTm .tmClass (stepTm .expandShortcuts tm) := by
  simp [stepTm]

theorem tmClass_comm_subjGraph (tm : STm) :
    stepTm .subjectGraphsToPom (stepTm .tmClass tm) = stepTm .tmClass (stepTm .subjectGraphsToPom tm) := by
  simp [stepTm]

theorem tmClass_comm_defaultGraph (tm : STm) :
    stepTm .defaultGraph (stepTm .tmClass tm) = stepTm .tmClass (stepTm .defaultGraph tm) := by
  simp [stepTm]

theorem tmClass_comm_termtypes (tm : STm) :
    stepTm .termtypes (stepTm .tmClass tm) = stepTm .tmClass (stepTm .termtypes tm) := by
  simp [stepTm]

theorem termtypes_comm_subjGraph (tm : STm) :
    stepTm .subjectGraphsToPom (stepTm .termtypes tm) = stepTm .termtypes (stepTm .subjectGraphsToPom tm) := by
  simp [stepTm, List.map_map, Function.comp_def]

theorem termtypes_comm_defaultGraph (tm : STm) :
    stepTm .defaultGraph (stepTm .termtypes tm) = stepTm .termtypes (stepTm .defaultGraph tm) := by
  simp only [stepTm, List.map_map, Function.comp_def]
  congr 1
  apply List.map_congr_left
  intro pom _
  by_cases h : pom.graphs.any (·.isFull) = true <;> simp [h]

/-- the vocabulary rewrites are independent of each other -/
theorem vocab_comm (d : SDoc) :
    applyStep .r2rmlToRml (applyStep .legacyToRml d) = applyStep .legacyToRml (applyStep .r2rmlToRml d) := by
  unfold applyStep
  by_cases h1 : r2rmlStepOK = true <;> by_cases h2 : legacyStepOK = true <;> simp [h1, h2]

/-! ### the normal form -/

/-- the canonical order on one triples map -/
def normTm (tm : STm) : STm :=
  stepTm .tmClass (stepTm .termtypes (stepTm .defaultGraph (stepTm .subjectGraphsToPom (stepTm .expandShortcuts (stepTm .classToPom tm)))))

/-- what the steps make of a document once the vocabulary rewrites do their job -/
def normDoc (d : SDoc) : SDoc := { needsR2rml := false, needsLegacy := false, tms := d.tms.map normTm }

theorem runNormSteps_canonical (h1 : r2rmlStepOK = true) (h2 : legacyStepOK = true) (d : SDoc) :
    runNormSteps canonicalOrder d = normDoc d := by
  simp only [runNormSteps, canonicalOrder, List.foldl_cons, List.foldl_nil]
  have e1 : applyStep .legacyToRml (applyStep .r2rmlToRml d) = { d with needsR2rml := false, needsLegacy := false } := by
    simp [applyStep, h1, h2]
  rw [e1]
  simp [applyStep, SDoc.resolved, normDoc, normTm, List.map_map, Function.comp_def]

theorem comm_K_S (d) : applyStep .expandShortcuts (applyStep .tmClass d) = applyStep .tmClass (applyStep .expandShortcuts d) :=
  applyStep_comm rfl rfl tmClass_comm_shortcuts d
theorem comm_K_G (d) : applyStep .subjectGraphsToPom (applyStep .tmClass d) = applyStep .tmClass (applyStep .subjectGraphsToPom d) :=
  applyStep_comm rfl rfl tmClass_comm_subjGraph d
theorem comm_K_D (d) : applyStep .defaultGraph (applyStep .tmClass d) = applyStep .tmClass (applyStep .defaultGraph d) :=
  applyStep_comm rfl rfl tmClass_comm_defaultGraph d
theorem comm_K_T (d) : applyStep .termtypes (applyStep .tmClass d) = applyStep .tmClass (applyStep .termtypes d) :=
  applyStep_comm rfl rfl tmClass_comm_termtypes d
theorem comm_T_G (d) : applyStep .subjectGraphsToPom (applyStep .termtypes d) = applyStep .termtypes (applyStep .subjectGraphsToPom d) :=
  applyStep_comm rfl rfl termtypes_comm_subjGraph d
theorem comm_T_D (d) : applyStep .defaultGraph (applyStep .termtypes d) = applyStep .termtypes (applyStep .defaultGraph d) :=
  applyStep_comm rfl rfl termtypes_comm_defaultGraph d

/-- every accepted order computes what the canonical order computes -/
theorem runNormSteps_accepted (d : SDoc) : ∀ o ∈ acceptedOrders, runNormSteps o d = runNormSteps canonicalOrder d := by
  simp only [acceptedOrders, List.mem_cons, List.not_mem_nil, or_false, forall_eq_or_imp, forall_eq]
  simp only [runNormSteps, canonicalOrder, List.foldl_cons, List.foldl_nil, vocab_comm, comm_K_S, comm_K_G, comm_K_D, comm_K_T,
    comm_T_G, comm_T_D, and_self]

theorem runNormSteps_of_orderOK {order : List Step} (h : OrderOK order = true) (d : SDoc) :
    runNormSteps order d = runNormSteps canonicalOrder d := by
  rw [← runNormSteps_filter_validate]
  apply runNormSteps_accepted
  simpa [OrderOK] using h

end Model
