/-
The four passes of PARTIAL-AGGREGATIONS as instances of the scan lemma (C03, layer B2).
-/
import MorphKgc.Lemmas.Scan
import MorphKgc.Lemmas.Partition

namespace Model
open Py

/-! ### the sort keys are strictly ordered -/

theorem ltOpt_irrefl (a : Option Str) : ltOpt a a = false := by
  cases a <;> simp [ltOpt, ltStr_irrefl]

theorem ltOpt_trans (a b c : Option Str) : ltOpt a b = true → ltOpt b c = true → ltOpt a c = true := by
  cases a <;> cases b <;> cases c <;> simp [ltOpt]
  exact ltStr_trans _ _ _

theorem ltOpt_asymm (a b : Option Str) (h : ltOpt a b = true) : ltOpt b a = false := by
  cases h' : ltOpt b a with
  | false => rfl
  | true => have := ltOpt_trans a b a h h'; rw [ltOpt_irrefl] at this; cases this

theorem ltOpt_total (a b : Option Str) : ltOpt a b = false → ltOpt b a = false → a = b := by
  cases a <;> cases b <;> simp [ltOpt]
  exact ltStr_total _ _

theorem ltKeys_cons_cons (a b : Option Str) (as bs : List (Option Str)) :
    ltKeys (a :: as) (b :: bs) = (ltOpt a b || (!ltOpt b a && ltKeys as bs)) := by
  rw [ltKeys]
  cases ltOpt a b <;> cases ltOpt b a <;> simp

theorem ltKeys_irrefl (a : List (Option Str)) : ltKeys a a = false := by
  induction a with
  | nil => rfl
  | cons x a ih => rw [ltKeys_cons_cons, ltOpt_irrefl, ih]; rfl

theorem ltKeys_trans : ∀ (a b c : List (Option Str)), ltKeys a b = true → ltKeys b c = true → ltKeys a c = true := by
  intro a
  induction a with
  | nil => intro b c h; simp [ltKeys] at h
  | cons x a ih =>
    intro b c h1 h2
    cases b with
    | nil => simp [ltKeys] at h1
    | cons y b =>
      cases c with
      | nil => simp [ltKeys] at h2
      | cons z c =>
        rw [ltKeys_cons_cons] at h1 h2 ⊢
        simp only [Bool.or_eq_true, Bool.and_eq_true, Bool.not_eq_true'] at h1 h2 ⊢
        rcases h1 with h1 | ⟨n1, h1⟩
        · rcases h2 with h2 | ⟨n2, _⟩
          · exact Or.inl (ltOpt_trans _ _ _ h1 h2)
          · -- y and z are equal or y > z is excluded
            cases hyz : ltOpt y z with
            | true => exact Or.inl (ltOpt_trans _ _ _ h1 hyz)
            | false => rw [← ltOpt_total y z hyz n2]; exact Or.inl h1
        · cases hxy : ltOpt x y with
          | true =>
            rcases h2 with h2 | ⟨n2, _⟩
            · exact Or.inl (ltOpt_trans _ _ _ hxy h2)
            · cases hyz : ltOpt y z with
              | true => exact Or.inl (ltOpt_trans _ _ _ hxy hyz)
              | false => rw [← ltOpt_total y z hyz n2]; exact Or.inl hxy
          | false =>
            have e := ltOpt_total x y hxy n1
            subst e
            rcases h2 with h2 | ⟨n2, h2⟩
            · exact Or.inl h2
            · exact Or.inr ⟨n2, ih b c h1 h2⟩

theorem strictOrd_ltKeys {α} (keys : α → List (Option Str)) : StrictOrd fun a b => ltKeys (keys a) (keys b) where
  trans := fun a b c => ltKeys_trans _ _ _
  asymm := by
    intro a b h
    cases h' : ltKeys (keys b) (keys a) with
    | false => rfl
    | true => have := ltKeys_trans _ _ _ h h'; rw [ltKeys_irrefl] at this; cases this

theorem ltKeys_single (a b : Str) : ltKeys [some a] [some b] = ltStr a b := by
  rw [ltKeys_cons_cons]
  simp [ltOpt, ltKeys]

/-! ### the head test and the step on keys -/

/-- `enforce_invariant_non_subset`: equality instead of `startswith` -/
def relOf (enforce : Bool) : Str → Str → Bool := fun a b => if enforce then decide (a = b) else startsWith a b

theorem headRel_relOf (enforce : Bool) : HeadRel (relOf enforce) := by
  cases enforce
  · exact headRel_startsWith
  · exact headRel_eq

/-- prefix-incomparable strings -/
def Incomp (a b : Str) : Prop := startsWith a b = false ∧ startsWith b a = false

theorem unrel_relOf_false {a b : Str} : Unrel (relOf false) a b ↔ Incomp a b := Iff.rfl

theorem unrel_relOf_true {a b : Str} : Unrel (relOf true) a b ↔ a ≠ b := by
  simp [Unrel, relOf, eq_comm]

def projScan (st : Scan) : Nat × Str := (st.group, st.inv)

/-- the step of a scan *simulates* the key step on an item: same group arithmetic, same head -/
def Sim (f : Scan → PRule → Str × Scan) (rel : Str → Str → Bool) (key : PRule → Str) (x : PRule) : Prop :=
  ∀ st, (f st x).1 = natStr (keyStep rel (projScan st) (key x)).1 ∧ projScan (f st x).2 = (keyStep rel (projScan st) (key x)).2

theorem sim_pairs (f : Scan → PRule → Str × Scan) (rel : Str → Str → Bool) (key : PRule → Str) (xs : List PRule)
    (hsim : ∀ x ∈ xs, Sim f rel key x) (st : Scan) :
    ∀ p ∈ xs.zip (scanMap f st xs), ∃ n, p.2 = natStr n ∧
      (key p.1, n) ∈ (xs.map key).zip (scanMap (keyStep rel) (projScan st) (xs.map key)) := by
  induction xs generalizing st with
  | nil => intro p hp; cases hp
  | cons x xs ih =>
    intro p hp
    have hx := hsim x (by simp) st
    simp only [scanMap, List.zip_cons_cons, List.mem_cons, List.map_cons] at hp ⊢
    rcases hp with rfl | hp
    · exact ⟨_, hx.1, Or.inl rfl⟩
    · obtain ⟨n, hn, hm⟩ := ih (fun y hy => hsim y (List.mem_cons_of_mem _ hy)) (f st x).2 p hp
      rw [hx.2] at hm
      exact ⟨n, hn, Or.inr hm⟩

/-- a keyed block, sorted by its key, scanned from any state: different components ⟹ unrelated keys -/
theorem keyed_block_separates (f : Scan → PRule → Str × Scan) (enforce : Bool) (key : PRule → Str) (xs : List PRule)
    (hsim : ∀ x ∈ xs, Sim f (relOf enforce) key x) (hs : xs.Pairwise fun a b => le (key a) (key b)) (st : Scan) :
    ∀ p ∈ xs.zip (scanMap f st xs), ∀ q ∈ xs.zip (scanMap f st xs), p.2 ≠ q.2 →
      Unrel (relOf enforce) (key p.1) (key q.1) := by
  intro p hp q hq hne
  obtain ⟨n, hn, hpm⟩ := sim_pairs f _ key xs hsim st p hp
  obtain ⟨m, hm, hqm⟩ := sim_pairs f _ key xs hsim st q hq
  have hs' : SortedKeys (xs.map key) := by
    unfold SortedKeys; rw [List.pairwise_map]; exact hs
  exact scan_separates (headRel_relOf enforce) _ _ _ hs' _ hpm _ hqm (by
    intro e; apply hne; rw [hn, hm]; exact congrArg natStr e)

/-- the `byInv` branch of `scanStep` -/
def byInvOut (enforce : Bool) (st : Scan) (inv : Str) : Str × Scan :=
  if (if enforce then decide (inv = st.inv) else startsWith inv st.inv) = true then (natStr st.group, st)
  else (natStr (st.group + 1), { st with group := st.group + 1, inv := inv })

/-- `byInv` simulates the key step -/
theorem sim_byInv (enforce : Bool) (st : Scan) (inv : Str) :
    (byInvOut enforce st inv).1 = natStr (keyStep (relOf enforce) (projScan st) inv).1 ∧
      projScan (byInvOut enforce st inv).2 = (keyStep (relOf enforce) (projScan st) inv).2 := by
  unfold byInvOut keyStep relOf projScan
  dsimp only
  cases enforce
  · by_cases h : startsWith inv st.inv = true
    · simp only [Bool.false_eq_true, ↓reduceIte, h]; exact ⟨trivial, trivial⟩
    · simp only [Bool.false_eq_true, ↓reduceIte, h]; exact ⟨trivial, trivial⟩
  · by_cases h : inv = st.inv
    · simp only [↓reduceIte, h, decide_true]; exact ⟨trivial, trivial⟩
    · simp only [↓reduceIte, h, decide_false, Bool.false_eq_true]; exact ⟨trivial, trivial⟩

theorem sim_P (enforce : Bool) (x : PRule) : Sim (scanStep .P enforce) (relOf enforce) (·.pInv) x := by
  intro st; exact sim_byInv enforce st x.pInv

theorem sim_G (enforce : Bool) (x : PRule) : Sim (scanStep .G enforce) (relOf enforce) (·.gInv) x := by
  intro st; exact sim_byInv enforce st x.gInv

theorem sim_S (x : PRule) (hx : x.rule.subjectTermtype ≠ .bnode) : Sim (scanStep .S false) (relOf false) (·.sInv) x := by
  intro st
  have := sim_byInv false st x.sInv
  simp only [scanStep, hx, ↓reduceIte]
  exact this

theorem sim_O (x : PRule) (h1 : x.rule.objectTermtype ≠ .bnode) (h2 : x.rule.objectTermtype ≠ .literal) :
    Sim (scanStep .O false) (relOf false) (·.oInv) x := by
  intro st
  have := sim_byInv false st x.oInv
  simp only [scanStep, h1, h2, ↓reduceIte]
  exact this

/-! ### generic facts about pairs (item, output) of a scan -/

theorem zip_scan_out {σ α β} (f : σ → α → β × σ) (s : σ) (xs : List α) :
    ∀ p ∈ xs.zip (scanMap f s xs), ∃ st, p.2 = (f st p.1).1 := by
  induction xs generalizing s with
  | nil => intro p hp; cases hp
  | cons x xs ih =>
    intro p hp
    simp only [scanMap, List.zip_cons_cons, List.mem_cons] at hp
    rcases hp with rfl | hp
    · exact ⟨s, rfl⟩
    · exact ih _ p hp

theorem exists_zip_of_mem {α β} {x : α} {xs : List α} {ys : List β} (h : x ∈ xs) (hl : xs.length = ys.length) :
    ∃ y, (x, y) ∈ xs.zip ys := by
  induction xs generalizing ys with
  | nil => cases h
  | cons a xs ih =>
    cases ys with
    | nil => simp at hl
    | cons b ys =>
      rcases List.mem_cons.mp h with rfl | h
      · exact ⟨b, by simp⟩
      · obtain ⟨y, hy⟩ := ih h (by simpa using hl)
        exact ⟨y, by simp [hy]⟩

/-- a pair of the scan over `A ++ B ++ C` whose item is in neither `A` nor `C` is a pair of the scan over `B`
    started in the state reached after `A` -/
theorem zip_scan_block {σ α β} (f : σ → α → β × σ) (s : σ) (A B C : List α) :
    ∀ p ∈ (A ++ B ++ C).zip (scanMap f s (A ++ B ++ C)), p.1 ∉ A → p.1 ∉ C →
      p ∈ B.zip (scanMap f (scanEnd f s A) B) := by
  intro p hp hA hC
  rw [List.append_assoc, scanMap_append, scanMap_append,
    List.zip_append (by rw [scanMap_length]), List.zip_append (by rw [scanMap_length])] at hp
  rcases List.mem_append.mp hp with hp | hp
  · exact absurd (List.of_mem_zip hp).1 hA
  · rcases List.mem_append.mp hp with hp | hp
    · exact hp
    · exact absurd (List.of_mem_zip hp).1 hC

/-- a list sorted by a rank splits into the blocks below, at and above a rank -/
theorem rank_split2 {α} (rank : α → Nat) (t : Nat) (L : List α) (hs : L.Pairwise fun a b => rank a ≤ rank b) :
    L = L.filter (fun x => rank x < t) ++ L.filter (fun x => t ≤ rank x) := by
  induction L with
  | nil => rfl
  | cons a L ih =>
    rw [List.pairwise_cons] at hs
    by_cases ha : rank a < t
    · have : ¬ t ≤ rank a := by omega
      simp only [List.filter_cons, ha, this, decide_true, decide_false, ↓reduceIte, Bool.false_eq_true, List.cons_append]
      rw [← ih hs.2]
    · have h1 : L.filter (fun x => decide (rank x < t)) = [] := by
        rw [List.filter_eq_nil_iff]
        intro x hx
        have := hs.1 x hx
        simp; omega
      have h2 : L.filter (fun x => decide (t ≤ rank x)) = L := by
        rw [List.filter_eq_self]
        intro x hx
        have := hs.1 x hx
        simp; omega
      have : t ≤ rank a := by omega
      simp [ha, this, h1, h2]

theorem rank_split3 {α} (rank : α → Nat) (t : Nat) (L : List α) (hs : L.Pairwise fun a b => rank a ≤ rank b) :
    ∃ A B C, L = A ++ B ++ C ∧ (∀ x ∈ A, rank x ≠ t) ∧ (∀ x ∈ B, rank x = t) ∧ (∀ x ∈ C, rank x ≠ t) := by
  have h1 := rank_split2 rank t L hs
  have hs2 : (L.filter (fun x => t ≤ rank x)).Pairwise fun a b => rank a ≤ rank b :=
    hs.sublist List.filter_sublist
  have h2 := rank_split2 rank (t + 1) _ hs2
  refine ⟨L.filter (fun x => rank x < t), (L.filter (fun x => t ≤ rank x)).filter (fun x => rank x < t + 1),
    (L.filter (fun x => t ≤ rank x)).filter (fun x => t + 1 ≤ rank x), ?_, ?_, ?_, ?_⟩
  · rw [List.append_assoc, ← h2, ← h1]
  · intro x hx; have := (List.mem_filter.mp hx).2; simp at this; omega
  · intro x hx
    have h := List.mem_filter.mp hx
    have h' := (List.mem_filter.mp h.1).2
    have h'' := h.2
    simp at h' h''; omega
  · intro x hx; have := (List.mem_filter.mp hx).2; simp at this; omega

/-! ### the literal block of the object pass -/

/-- `str(literal_type)` -/
def optStr (τ : Option Str) : Str := match τ with | some s => s | none => "nan".toList

def litStr (r : PRule) : Str := optStr r.litType

theorem litStr_congr {a b : PRule} (h : a.litType = b.litType) : litStr a = litStr b := by
  unfold litStr; rw [h]

theorem ite_not_swap {α} (c : Prop) [Decidable c] (a b : α) : (if ¬ c then a else b) = if c then b else a := by
  by_cases h : c <;> simp [h]

theorem scanStep_O_literal (x : PRule) (hx : x.rule.objectTermtype = .literal) (st : Scan) :
    scanStep .O false st x =
      if litStr x ≠ st.lit then (natStr (st.group + 1), { st with group := st.group + 1, lit := litStr x })
      else (natStr st.group, st) := by
  cases hl : x.litType <;> simp [scanStep, hx, litStr, optStr, hl]

/-- after a literal, the state remembers its type and the component is the current group -/
theorem scanStep_O_literal_post (x : PRule) (hx : x.rule.objectTermtype = .literal) (st : Scan) :
    (scanStep .O false st x).2.lit = litStr x ∧ (scanStep .O false st x).1 = natStr (scanStep .O false st x).2.group := by
  rw [scanStep_O_literal x hx]
  by_cases h : litStr x = st.lit
  · simp [h]
  · simp [h]

theorem lit_run (τ : Option Str) (xs : List PRule) (hlit : ∀ x ∈ xs, x.rule.objectTermtype = .literal)
    (hs : xs.Pairwise fun a b => ltOpt b.litType a.litType = false) (hτ : ∀ x ∈ xs, ltOpt x.litType τ = false)
    (st : Scan) (hst : st.lit = optStr τ) :
    ∀ p ∈ xs.zip (scanMap (scanStep .O false) st xs), p.1.litType = τ → p.2 = natStr st.group := by
  induction xs with
  | nil => intro p hp; cases hp
  | cons z zs ih =>
    intro p hp hpτ
    rw [List.pairwise_cons] at hs
    by_cases hz : z.litType = τ
    · have hzs : litStr z = st.lit := by rw [hst, ← hz]; rfl
      have e : scanStep .O false st z = (natStr st.group, st) := by
        rw [scanStep_O_literal z (hlit z (by simp))]; simp [hzs]
      simp only [scanMap, e, List.zip_cons_cons, List.mem_cons] at hp
      rcases hp with rfl | hp
      · rfl
      · exact ih (fun x hx => hlit x (List.mem_cons_of_mem _ hx)) hs.2
          (fun x hx => hτ x (List.mem_cons_of_mem _ hx)) p hp hpτ
    · -- τ < z ≤ every later item: no item of type τ is left
      have hlt : ltOpt τ z.litType = true := by
        cases h : ltOpt τ z.litType with
        | true => rfl
        | false => exact absurd (ltOpt_total _ _ (hτ z (by simp)) h) hz
      have hmem : p.1 ∈ z :: zs := (List.of_mem_zip hp).1
      rcases List.mem_cons.mp hmem with h | h
      · rw [h] at hpτ; exact absurd hpτ hz
      · have := hs.1 p.1 h
        rw [hpτ, hlt] at this; cases this

/-- in a block of literals sorted by type, equal types get equal components -/
theorem lit_block (xs : List PRule) (hlit : ∀ x ∈ xs, x.rule.objectTermtype = .literal)
    (hs : xs.Pairwise fun a b => ltOpt b.litType a.litType = false) (st : Scan) :
    ∀ p ∈ xs.zip (scanMap (scanStep .O false) st xs), ∀ q ∈ xs.zip (scanMap (scanStep .O false) st xs),
      p.1.litType = q.1.litType → p.2 = q.2 := by
  induction xs generalizing st with
  | nil => intro p hp; cases hp
  | cons z zs ih =>
    have hs' := hs
    rw [List.pairwise_cons] at hs'
    have hz := hlit z (by simp)
    have hpost := scanStep_O_literal_post z hz st
    have hrun := lit_run z.litType zs (fun x hx => hlit x (List.mem_cons_of_mem _ hx)) hs'.2 hs'.1
      (scanStep .O false st z).2 hpost.1
    intro p hp q hq hpq
    simp only [scanMap, List.zip_cons_cons, List.mem_cons] at hp hq
    rcases hp with rfl | hp <;> rcases hq with rfl | hq
    · rfl
    · rw [hpost.2]; exact (hrun q hq hpq.symm).symm
    · rw [hpost.2]; exact hrun p hp hpq
    · exact ih (fun x hx => hlit x (List.mem_cons_of_mem _ hx)) hs'.2 _ p hp q hq hpq

/-! ### the four passes -/

/-- the rows in scan order, each with the component the pass gives it -/
def passPairs (pos : Pos) (rs : List PRule) : List (PRule × Str) :=
  (sortBy (fun a b => ltKeys (pos.keys a) (pos.keys b)) rs).zip
    (scanMap (scanStep pos (enforceFor pos rs)) {} (sortBy (fun a b => ltKeys (pos.keys a) (pos.keys b)) rs))

theorem passSorted (pos : Pos) (rs : List PRule) :
    (sortBy (fun a b => ltKeys (pos.keys a) (pos.keys b)) rs).Pairwise
      fun a b => ltKeys (pos.keys b) (pos.keys a) = false :=
  sortBy_sorted (strictOrd_ltKeys pos.keys) rs

/-- the component looked up for a row is the one the scan gave it -/
theorem passPairs_mem (pos : Pos) (rs : List PRule) (hnd : (rs.map (·.idx)).Nodup) (r : PRule) (hr : r ∈ rs) :
    (r, componentOf (partialPass pos rs) r.idx) ∈ passPairs pos rs := by
  have hmem : r ∈ sortBy (fun a b => ltKeys (pos.keys a) (pos.keys b)) rs := (mem_sortBy _ rs r).mpr hr
  obtain ⟨c, hc⟩ := exists_zip_of_mem hmem (scanMap_length (scanStep pos (enforceFor pos rs)) {} _).symm
  have hin : (r.idx, c) ∈ partialPass pos rs := by
    rw [partialPass_eq, List.mem_reverse]
    exact List.mem_map.mpr ⟨(r, c), hc, rfl⟩
  have hnd' : ((partialPass pos rs).map (·.1)).Nodup := by
    rw [partialPass_eq, List.map_reverse, List.map_map]
    have : List.map ((·.1) ∘ fun (p : PRule × Str) => (p.1.idx, p.2)) (passPairs pos rs)
        = (passPairs pos rs).unzip.1.map (·.idx) := by
      rw [List.unzip_eq_map, List.map_map]; rfl
    unfold passPairs at this
    rw [this, List.unzip_zip_left (by rw [scanMap_length]; exact Nat.le_refl _)]
    have hperm := (sortBy_perm (fun a b => ltKeys (pos.keys a) (pos.keys b)) rs).map (·.idx)
    have := hperm.nodup_iff.mpr hnd
    unfold List.Nodup at *
    rw [List.pairwise_reverse]
    exact this.imp fun h => h.symm
  rw [componentOf_eq hnd' hin]
  exact hc

/-- sortedness by the keys of a position -/
def KeySorted (pos : Pos) (L : List PRule) : Prop := L.Pairwise fun a b => ltKeys (pos.keys b) (pos.keys a) = false

theorem sepP_gen (L : List PRule) (hs : KeySorted .P L) (enf : Bool) (st : Scan) :
    ∀ p ∈ L.zip (scanMap (scanStep .P enf) st L), ∀ q ∈ L.zip (scanMap (scanStep .P enf) st L), p.2 ≠ q.2 →
    Unrel (relOf enf) p.1.pInv q.1.pInv := by
  refine keyed_block_separates _ _ (·.pInv) _ (fun x _ => sim_P _ x) ?_ st
  exact hs.imp fun {a b} h => by unfold le; simpa [Pos.keys, ltKeys_single] using h

theorem sepG_gen (L : List PRule) (hs : KeySorted .G L) (enf : Bool) (st : Scan) :
    ∀ p ∈ L.zip (scanMap (scanStep .G enf) st L), ∀ q ∈ L.zip (scanMap (scanStep .G enf) st L), p.2 ≠ q.2 →
    Unrel (relOf enf) p.1.gInv q.1.gInv := by
  refine keyed_block_separates _ _ (·.gInv) _ (fun x _ => sim_G _ x) ?_ st
  exact hs.imp fun {a b} h => by unfold le; simpa [Pos.keys, ltKeys_single] using h

/-- subject pass: both blank nodes get `0`; otherwise different components mean a blank node against a
    non-blank node, or prefix-incomparable invariants -/
theorem sepS_gen (L : List PRule) (hs : KeySorted .S L) (st : Scan) :
    ∀ p ∈ L.zip (scanMap (scanStep .S false) st L), ∀ q ∈ L.zip (scanMap (scanStep .S false) st L), p.2 ≠ q.2 →
    (p.1.rule.subjectTermtype = .bnode ∧ q.1.rule.subjectTermtype ≠ .bnode) ∨
    (p.1.rule.subjectTermtype ≠ .bnode ∧ q.1.rule.subjectTermtype = .bnode) ∨
    (p.1.rule.subjectTermtype ≠ .bnode ∧ q.1.rule.subjectTermtype ≠ .bnode ∧ Incomp p.1.sInv q.1.sInv) := by
  intro p hp q hq hne
  by_cases hpb : p.1.rule.subjectTermtype = .bnode <;> by_cases hqb : q.1.rule.subjectTermtype = .bnode
  · obtain ⟨s1, h1⟩ := zip_scan_out _ _ _ p hp
    obtain ⟨s2, h2⟩ := zip_scan_out _ _ _ q hq
    exfalso; apply hne
    rw [h1, h2]; simp [scanStep, hpb, hqb]
  · exact Or.inl ⟨hpb, hqb⟩
  · exact Or.inr (Or.inl ⟨hpb, hqb⟩)
  · refine Or.inr (Or.inr ⟨hpb, hqb, ?_⟩)
    let T : PRule → Bool := fun x => decide (x.rule.subjectTermtype ≠ .bnode)
    have hskip : ∀ (s : Scan) (x : PRule), T x = false → (scanStep .S false s x).2 = s := by
      intro s x hx
      have : x.rule.subjectTermtype = .bnode := by simpa [T] using hx
      simp [scanStep, this]
    have hf := scan_filter (scanStep .S false) T hskip st L
    have hp' : p ∈ (L.filter T).zip (scanMap (scanStep .S false) st (L.filter T)) := by
      rw [← hf]; exact List.mem_filter.mpr ⟨hp, by simpa [T] using hpb⟩
    have hq' : q ∈ (L.filter T).zip (scanMap (scanStep .S false) st (L.filter T)) := by
      rw [← hf]; exact List.mem_filter.mpr ⟨hq, by simpa [T] using hqb⟩
    refine keyed_block_separates (scanStep .S false) false (·.sInv) _ ?_ ?_ st p hp' q hq' hne
    · intro x hx
      exact sim_S x (by simpa [T] using (List.mem_filter.mp hx).2)
    · refine (hs.sublist List.filter_sublist).imp fun {a b} h => ?_
      unfold le; simpa [Pos.keys, ltKeys_single] using h

def ttRank : TermType → Nat
  | .bnode => 0 | .iri => 1 | .literal => 2 | .star => 3

theorem ttRank_inj {a b : TermType} (h : ttRank a = ttRank b) : a = b := by
  cases a <;> cases b <;> simp [ttRank] at h <;> rfl

/-- the term-type IRIs sort as blank node < IRI < literal < quoted triple -/
theorem ltStr_termTypeIri (a b : TermType) : ltStr (termTypeIri a) (termTypeIri b) = decide (ttRank a < ttRank b) := by
  cases a <;> cases b <;> decide +kernel

/-- what the object sort order gives for two rows in scan order -/
theorem objKeys_sorted {a b : PRule} (h : ltKeys (Pos.O.keys b) (Pos.O.keys a) = false) :
    ttRank a.rule.objectTermtype ≤ ttRank b.rule.objectTermtype ∧
    (a.rule.objectTermtype = b.rule.objectTermtype → ltOpt b.litType a.litType = false ∧
      (a.litType = b.litType → le a.oInv b.oInv)) := by
  simp only [Pos.keys, ltKeys_cons_cons, Bool.or_eq_false_iff, Bool.and_eq_false_iff, Bool.not_eq_false'] at h
  have h1 : ltStr (termTypeIri b.rule.objectTermtype) (termTypeIri a.rule.objectTermtype) = false := h.1
  rw [ltStr_termTypeIri] at h1
  refine ⟨by simpa using h1, ?_⟩
  intro e
  rcases h.2 with h2 | h2
  · have : ltStr (termTypeIri a.rule.objectTermtype) (termTypeIri b.rule.objectTermtype) = true := h2
    rw [e, ltStr_irrefl] at this; cases this
  · refine ⟨h2.1, ?_⟩
    intro e'
    rcases h2.2 with h3 | h3
    · rw [e', ltOpt_irrefl] at h3; cases h3
    · exact h3.1

/-- object pass -/
theorem sepO_gen (L : List PRule) (hsorted : KeySorted .O L)
    (hO : ∀ r ∈ L, r.rule.objectTermtype ≠ .literal → r.litType = none) (st : Scan) :
    ∀ p ∈ L.zip (scanMap (scanStep .O false) st L), ∀ q ∈ L.zip (scanMap (scanStep .O false) st L), p.2 ≠ q.2 →
    p.1.rule.objectTermtype ≠ q.1.rule.objectTermtype ∨
    (p.1.rule.objectTermtype = .literal ∧ q.1.rule.objectTermtype = .literal ∧ p.1.litType ≠ q.1.litType) ∨
    (p.1.rule.objectTermtype = q.1.rule.objectTermtype ∧ p.1.rule.objectTermtype ≠ .literal ∧
      p.1.rule.objectTermtype ≠ .bnode ∧ Incomp p.1.oInv q.1.oInv) := by
  intro p hp q hq hne
  by_cases htt' : p.1.rule.objectTermtype ≠ q.1.rule.objectTermtype
  · exact Or.inl htt'
  have htt : p.1.rule.objectTermtype = q.1.rule.objectTermtype := Decidable.not_not.mp htt'
  right
  have hrank : L.Pairwise fun a b => ttRank a.rule.objectTermtype ≤ ttRank b.rule.objectTermtype :=
    hsorted.imp fun h => (objKeys_sorted h).1
  obtain ⟨A, B, C, hL, hA, hB, hC⟩ := rank_split3 (fun x : PRule => ttRank x.rule.objectTermtype)
    (ttRank p.1.rule.objectTermtype) _ hrank
  have hBsub : B.Sublist L := by
    rw [hL]; exact (List.sublist_append_right A B).trans (List.sublist_append_left (A ++ B) C)
  have hBL : ∀ x ∈ B, x ∈ L := fun x hx => hBsub.subset hx
  have hBtt : ∀ x ∈ B, x.rule.objectTermtype = p.1.rule.objectTermtype := fun x hx => ttRank_inj (hB x hx)
  have hBsorted := List.Pairwise.sublist hBsub hsorted
  have hp' := hp
  have hq' := hq
  rw [hL] at hp' hq'
  have hpB := zip_scan_block (scanStep .O false) st A B C p hp'
    (fun h => hA _ h rfl) (fun h => hC _ h rfl)
  have hqB := zip_scan_block (scanStep .O false) st A B C q hq'
    (fun h => hA _ h (by rw [htt])) (fun h => hC _ h (by rw [htt]))
  by_cases hlit : p.1.rule.objectTermtype = .literal
  · left
    refine ⟨hlit, htt ▸ hlit, ?_⟩
    intro e
    apply hne
    refine lit_block B (fun x hx => (hBtt x hx).trans hlit) ?_ _ p hpB q hqB e
    exact List.Pairwise.imp_of_mem (fun {a b} ha hb h => ((objKeys_sorted h).2 ((hBtt a ha).trans (hBtt b hb).symm)).1) hBsorted
  · right
    by_cases hbn : p.1.rule.objectTermtype = .bnode
    · obtain ⟨s1, h1⟩ := zip_scan_out _ _ _ p hp
      obtain ⟨s2, h2⟩ := zip_scan_out _ _ _ q hq
      exfalso; apply hne
      rw [h1, h2]; simp [scanStep, hbn, htt ▸ hbn]
    · refine ⟨htt, hlit, hbn, ?_⟩
      refine keyed_block_separates (scanStep .O false) false (·.oInv) B ?_ ?_ _ p hpB q hqB hne
      · intro x hx
        exact sim_O x (by rw [hBtt x hx]; exact hbn) (by rw [hBtt x hx]; exact hlit)
      · refine List.Pairwise.imp_of_mem (fun {a b} ha hb h => ?_) hBsorted
        have hab := (hBtt a ha).trans (hBtt b hb).symm
        have hla := hO a (hBL a ha) (by rw [hBtt a ha]; exact hlit)
        have hlb := hO b (hBL b hb) (by rw [hBtt b hb]; exact hlit)
        exact ((objKeys_sorted h).2 hab).2 (hla.trans hlb.symm)

/-! ### the four passes of PARTIAL-AGGREGATIONS -/

theorem sepP (rs : List PRule) : ∀ p ∈ passPairs .P rs, ∀ q ∈ passPairs .P rs, p.2 ≠ q.2 →
    Unrel (relOf (enforceFor .P rs)) p.1.pInv q.1.pInv :=
  sepP_gen _ (passSorted .P rs) _ {}

theorem sepG (rs : List PRule) : ∀ p ∈ passPairs .G rs, ∀ q ∈ passPairs .G rs, p.2 ≠ q.2 →
    Unrel (relOf (enforceFor .G rs)) p.1.gInv q.1.gInv :=
  sepG_gen _ (passSorted .G rs) _ {}

theorem sepS (rs : List PRule) : ∀ p ∈ passPairs .S rs, ∀ q ∈ passPairs .S rs, p.2 ≠ q.2 →
    (p.1.rule.subjectTermtype = .bnode ∧ q.1.rule.subjectTermtype ≠ .bnode) ∨
    (p.1.rule.subjectTermtype ≠ .bnode ∧ q.1.rule.subjectTermtype = .bnode) ∨
    (p.1.rule.subjectTermtype ≠ .bnode ∧ q.1.rule.subjectTermtype ≠ .bnode ∧ Incomp p.1.sInv q.1.sInv) :=
  sepS_gen _ (passSorted .S rs) {}

theorem sepO (rs : List PRule) (hO : ∀ r ∈ rs, r.rule.objectTermtype ≠ .literal → r.litType = none) :
    ∀ p ∈ passPairs .O rs, ∀ q ∈ passPairs .O rs, p.2 ≠ q.2 →
    p.1.rule.objectTermtype ≠ q.1.rule.objectTermtype ∨
    (p.1.rule.objectTermtype = .literal ∧ q.1.rule.objectTermtype = .literal ∧ p.1.litType ≠ q.1.litType) ∨
    (p.1.rule.objectTermtype = q.1.rule.objectTermtype ∧ p.1.rule.objectTermtype ≠ .literal ∧
      p.1.rule.objectTermtype ≠ .bnode ∧ Incomp p.1.oInv q.1.oInv) :=
  sepO_gen _ (passSorted .O rs) (fun r hr => hO r ((mem_sortBy _ rs r).mp hr)) {}

end Model
