/-
Lemmas about `Model.Writer`: the io layers never split or lose a `write` argument, payload sizes depend on
argument sizes only, lines of a concatenation of whole-line chunks, interleavings are permutations.
-/
import MorphKgc.Model.Writer

namespace Model.Writer
open Py

/-! ### io layers: closure and conservation -/

section io
variable {α : Type} (w : α → Nat)

/-- a set of texts containing the empty text and closed under concatenation -/
structure Closed (Q : List α → Prop) : Prop where
  nil : Q []
  app : ∀ a b, Q a → Q b → Q (a ++ b)

theorem bufWrite_closed {Q : List α → Prop} (hQ : Closed Q) (B : Nat) (b d : List α) (hb : Q b) (hd : Q d) :
    (∀ c ∈ (bufWrite w B b d).1, Q c) ∧ Q (bufWrite w B b d).2 := by
  unfold bufWrite
  split
  · exact ⟨by simp, hQ.app _ _ hb hd⟩
  · split <;> split <;> simp_all [hQ.nil]

theorem bufWrite_flat (B : Nat) (b d : List α) :
    (bufWrite w B b d).1.flatten ++ (bufWrite w B b d).2 = b ++ d := by
  unfold bufWrite
  split
  · simp
  · cases b <;> split <;> split <;> simp_all

theorem textFlush_closed {Q : List α → Prop} (hQ : Closed Q) (B : Nat) (b : List α) (p : Option (List α))
    (hb : Q b) (hp : ∀ t, p = some t → Q t) :
    (∀ c ∈ (textFlush w B b p).1, Q c) ∧ Q (textFlush w B b p).2 := by
  cases p with
  | none => simp [textFlush, hb]
  | some t => exact bufWrite_closed w hQ B b t hb (hp t rfl)

theorem textFlush_flat (B : Nat) (b : List α) (p : Option (List α)) :
    (textFlush w B b p).1.flatten ++ (textFlush w B b p).2 = b ++ p.getD [] := by
  cases p with
  | none => simp [textFlush]
  | some t => simpa [textFlush] using bufWrite_flat w B b t

theorem textWrite_closed {Q : List α → Prop} (hQ : Closed Q) (C B : Nat) (b : List α) (p : Option (List α)) (d : List α)
    (hb : Q b) (hp : ∀ t, p = some t → Q t) (hd : Q d) :
    (∀ c ∈ (textWrite w C B b p d).1, Q c) ∧ Q (textWrite w C B b p d).2.1 ∧
      (∀ t, (textWrite w C B b p d).2.2 = some t → Q t) := by
  cases p with
  | none =>
    simp only [textWrite]
    split
    · have := bufWrite_closed w hQ B b d hb hd
      simp_all
    · simp_all
  | some t =>
    have ht := hp t rfl
    have h1 := bufWrite_closed w hQ B b t hb ht
    simp only [textWrite]
    split
    · -- pending flushed first, then `d` alone
      split
      · have h2 := bufWrite_closed w hQ B _ d h1.2 hd
        refine ⟨?_, h2.2, by simp⟩
        intro c hc
        rcases List.mem_append.1 hc with hc | hc
        · exact h1.1 c hc
        · exact h2.1 c hc
      · exact ⟨h1.1, h1.2, by simpa using hd⟩
    · have htd := hQ.app _ _ ht hd
      split
      · have h2 := bufWrite_closed w hQ B b (t ++ d) hb htd
        exact ⟨by simpa using h2.1, h2.2, by simp⟩
      · exact ⟨by simp, hb, by simpa using htd⟩

theorem textWrite_flat (C B : Nat) (b : List α) (p : Option (List α)) (d : List α) :
    (textWrite w C B b p d).1.flatten ++ (textWrite w C B b p d).2.1 ++ ((textWrite w C B b p d).2.2).getD []
      = b ++ p.getD [] ++ d := by
  cases p with
  | none =>
    simp only [textWrite]
    split
    · simpa using bufWrite_flat w B b d
    · simp
  | some t =>
    have h1 := bufWrite_flat w B b t
    simp only [textWrite]
    split
    · split
      · have h2 := bufWrite_flat w B (bufWrite w B b t).2 d
        simp only [List.flatten_append, List.append_assoc, Option.getD_none, List.append_nil, Option.getD_some]
        rw [h2, ← List.append_assoc, h1]; simp
      · simp only [Option.getD_some]
        rw [h1]
    · split
      · simpa using bufWrite_flat w B b (t ++ d)
      · simp

/-- every raw write of `run` lies in any closed set that contains the buffer, the pending text and all
`write` arguments -/
theorem run_closed {Q : List α → Prop} (hQ : Closed Q) (C B : Nat) (calls : List (List α)) :
    ∀ (b : List α) (p : Option (List α)), Q b → (∀ t, p = some t → Q t) → (∀ d ∈ calls, Q d) →
      ∀ c ∈ run w C B b p calls, Q c := by
  induction calls with
  | nil =>
    intro b p hb hp _ c hc
    have h := textFlush_closed w hQ B b p hb hp
    simp only [run] at hc
    rcases List.mem_append.1 hc with hc | hc
    · exact h.1 c hc
    · split at hc
      · simp at hc
      · simp at hc; exact hc ▸ h.2
  | cons d ds ih =>
    intro b p hb hp hd c hc
    have h := textWrite_closed w hQ C B b p d hb hp (hd d (by simp))
    simp only [run] at hc
    rcases List.mem_append.1 hc with hc | hc
    · exact h.1 c hc
    · exact ih _ _ h.2.1 h.2.2 (fun d' hd' => hd d' (by simp [hd'])) c hc

/-- nothing is lost, duplicated or reordered: the raw writes concatenate to buffer ++ pending ++ all arguments -/
theorem run_flat (C B : Nat) (calls : List (List α)) :
    ∀ (b : List α) (p : Option (List α)), (run w C B b p calls).flatten = b ++ p.getD [] ++ calls.flatten := by
  induction calls with
  | nil =>
    intro b p
    have h := textFlush_flat w B b p
    simp only [run, List.flatten_append, List.flatten_nil, List.append_nil]
    split
    · rename_i he
      rw [List.isEmpty_iff.1 he] at h
      simpa using h
    · simpa using h
  | cons d ds ih =>
    intro b p
    have h := textWrite_flat w C B b p d
    simp only [run, List.flatten_append, ih, List.flatten_cons]
    rw [← List.append_assoc, ← List.append_assoc, h]
    simp

theorem rawWrites_closed {Q : List α → Prop} (hQ : Closed Q) (C B : Nat) (calls : List (List α))
    (h : ∀ d ∈ calls, Q d) : ∀ c ∈ rawWrites w C B calls, Q c :=
  run_closed w hQ C B calls [] none hQ.nil (by simp) h

theorem rawWrites_flat (C B : Nat) (calls : List (List α)) :
    (rawWrites w C B calls).flatten = calls.flatten := by
  simp [rawWrites, run_flat]

/-- no raw write is empty (a `write(2)` of zero bytes is never issued) when the arguments are -/
theorem wlen_append (a b : List α) : wlen w (a ++ b) = wlen w a + wlen w b := by
  simp [wlen]

theorem wlen_eq_zero {w : α → Nat} (hw : ∀ x, 0 < w x) (l : List α) : wlen w l = 0 ↔ l = [] := by
  cases l with
  | nil => simp [wlen]
  | cons x xs =>
    have := hw x
    simp [wlen]; omega

end io

/-! ### payload sizes depend on argument sizes only -/

section sim
variable {α β : Type} {w : α → Nat} {w' : β → Nat}

theorem isEmpty_of_wlen_eq (hw : ∀ x, 0 < w x) (hw' : ∀ x, 0 < w' x) {b : List α} {b' : List β}
    (h : wlen w b = wlen w' b') : b.isEmpty = b'.isEmpty := by
  cases b with
  | nil =>
    cases b' with
    | nil => rfl
    | cons x xs => have := hw' x; simp [wlen] at h; omega
  | cons y ys =>
    cases b' with
    | nil => have := hw y; simp [wlen] at h; omega
    | cons x xs => rfl

theorem bufWrite_sim (hw : ∀ x, 0 < w x) (hw' : ∀ x, 0 < w' x) (B : Nat) {b d : List α} {b' d' : List β}
    (hb : wlen w b = wlen w' b') (hd : wlen w d = wlen w' d') :
    (bufWrite w B b d).1.map (wlen w) = (bufWrite w' B b' d').1.map (wlen w') ∧
      wlen w (bufWrite w B b d).2 = wlen w' (bufWrite w' B b' d').2 := by
  have he := isEmpty_of_wlen_eq hw hw' hb
  unfold bufWrite
  rw [hb, hd, he]
  split
  · simp [wlen_append, hb, hd]
  · split <;> split <;> simp_all [wlen]

/-- the relation kept between two runs on arguments of equal sizes -/
def PendSim (w : α → Nat) (w' : β → Nat) : Option (List α) → Option (List β) → Prop
  | none, none => True
  | some t, some t' => wlen w t = wlen w' t'
  | _, _ => False

theorem textFlush_sim (hw : ∀ x, 0 < w x) (hw' : ∀ x, 0 < w' x) (B : Nat) {b : List α} {b' : List β}
    {p : Option (List α)} {p' : Option (List β)} (hb : wlen w b = wlen w' b') (hp : PendSim w w' p p') :
    (textFlush w B b p).1.map (wlen w) = (textFlush w' B b' p').1.map (wlen w') ∧
      wlen w (textFlush w B b p).2 = wlen w' (textFlush w' B b' p').2 := by
  cases p <;> cases p' <;> simp only [PendSim] at hp
  · simp [textFlush, hb]
  · exact bufWrite_sim hw hw' B hb hp

theorem textWrite_sim (hw : ∀ x, 0 < w x) (hw' : ∀ x, 0 < w' x) (C B : Nat) {b d : List α} {b' d' : List β}
    {p : Option (List α)} {p' : Option (List β)} (hb : wlen w b = wlen w' b') (hp : PendSim w w' p p')
    (hd : wlen w d = wlen w' d') :
    (textWrite w C B b p d).1.map (wlen w) = (textWrite w' C B b' p' d').1.map (wlen w') ∧
      wlen w (textWrite w C B b p d).2.1 = wlen w' (textWrite w' C B b' p' d').2.1 ∧
      PendSim w w' (textWrite w C B b p d).2.2 (textWrite w' C B b' p' d').2.2 := by
  cases p <;> cases p' <;> simp only [PendSim] at hp
  · have h := bufWrite_sim hw hw' B hb hd
    by_cases h2 : C ≤ wlen w' d'
    · simp only [textWrite, hd, h2, if_true]
      exact ⟨by simpa using h.1, h.2, trivial⟩
    · simp only [textWrite, hd, h2, if_false]
      exact ⟨rfl, hb, hd⟩
  · rename_i t t'
    have h1 := bufWrite_sim hw hw' B hb hp
    have htd : wlen w (t ++ d) = wlen w' (t' ++ d') := by simp [wlen_append, hp, hd]
    by_cases hc1 : C < wlen w' t' + wlen w' d'
    · by_cases h2 : C ≤ wlen w' d'
      · have h3 := bufWrite_sim hw hw' B h1.2 hd
        simp only [textWrite, hp, hd, hc1, h2, if_true]
        exact ⟨by simp [h1.1, h3.1], h3.2, trivial⟩
      · simp only [textWrite, hp, hd, hc1, h2, if_true, if_false]
        exact ⟨h1.1, h1.2, hd⟩
    · by_cases h2 : C ≤ wlen w' (t' ++ d')
      · have h3 := bufWrite_sim hw hw' B hb htd
        simp only [textWrite, hp, hd, hc1, htd, h2, if_true, if_false]
        exact ⟨by simpa using h3.1, h3.2, trivial⟩
      · simp only [textWrite, hp, hd, hc1, htd, h2, if_false]
        exact ⟨rfl, hb, htd⟩

theorem run_sim (hw : ∀ x, 0 < w x) (hw' : ∀ x, 0 < w' x) (C B : Nat) :
    ∀ (calls : List (List α)) (calls' : List (List β)) (b : List α) (b' : List β) (p : Option (List α)) (p' : Option (List β)),
      calls.map (wlen w) = calls'.map (wlen w') → wlen w b = wlen w' b' → PendSim w w' p p' →
      (run w C B b p calls).map (wlen w) = (run w' C B b' p' calls').map (wlen w') := by
  intro calls
  induction calls with
  | nil =>
    intro calls' b b' p p' hc hb hp
    cases calls' with
    | cons _ _ => simp at hc
    | nil =>
      have h := textFlush_sim hw hw' B hb hp
      have he := isEmpty_of_wlen_eq hw hw' h.2
      simp only [run, List.map_append, h.1, he]
      split <;> simp [h.2]
  | cons d ds ih =>
    intro calls' b b' p p' hc hb hp
    cases calls' with
    | nil => simp at hc
    | cons d' ds' =>
      simp only [List.map_cons, List.cons.injEq] at hc
      have h := textWrite_sim hw hw' C B hb hp hc.1
      simp only [run, List.map_append, h.1]
      rw [ih ds' _ _ _ _ hc.2 h.2.1 h.2.2]

/-- two lists of `write` arguments with the same sizes give raw writes of the same sizes -/
theorem rawWrites_sim (hw : ∀ x, 0 < w x) (hw' : ∀ x, 0 < w' x) (C B : Nat) (calls : List (List α)) (calls' : List (List β))
    (h : calls.map (wlen w) = calls'.map (wlen w')) :
    (rawWrites w C B calls).map (wlen w) = (rawWrites w' C B calls').map (wlen w') :=
  run_sim hw hw' C B calls calls' [] [] none none h (by simp [wlen]) trivial

end sim

theorem utf8w_pos (c : Char) : 0 < utf8w c := Char.utf8Size_pos c

/-- `rawLens` (what the driver computes and the correspondence compares with strace) gives the payload sizes
of `rawWrites` on text -/
theorem rawLens_spec (C B : Nat) (calls : List Str) :
    (rawWrites utf8w C B calls).map (wlen utf8w) = rawLens C B (calls.map (wlen utf8w)) := by
  unfold rawLens
  apply rawWrites_sim utf8w_pos (fun n => Nat.succ_pos n)
  simp only [List.map_map]
  apply List.map_congr_left
  intro d _
  simp only [Function.comp]
  split
  · rename_i h; rw [h]; rfl
  · have : wlen (fun n => n + 1) [wlen utf8w d - 1] = wlen utf8w d - 1 + 1 := by simp [wlen]
    rw [this]; omega

/-! ### lines -/

section lines
variable {α : Type} [DecidableEq α] (nl : α)

theorem lines_line_append (c rest : List α) (h : nl ∉ c) :
    lines nl (c ++ nl :: rest) = (c ++ [nl]) :: lines nl rest := by
  induction c with
  | nil => simp [lines]
  | cons x xs ih =>
    have hx : x ≠ nl := fun e => h (by simp [e])
    have hxs : nl ∉ xs := fun e => h (by simp [e])
    simp [lines, hx, ih hxs]

theorem lines_flatten_append (ls : List (List α)) (rest : List α) (h : ∀ l ∈ ls, IsLine nl l) :
    lines nl (ls.flatten ++ rest) = ls ++ lines nl rest := by
  induction ls with
  | nil => simp
  | cons l ls ih =>
    obtain ⟨c, hc, rfl⟩ := h l (by simp)
    have := ih (fun l' hl' => h l' (by simp [hl']))
    simp only [List.flatten_cons, List.append_assoc, List.cons_append]
    rw [lines_line_append nl c _ hc, List.nil_append, this]

theorem lines_flatten (ls : List (List α)) (h : ∀ l ∈ ls, IsLine nl l) : lines nl ls.flatten = ls := by
  simpa [lines] using lines_flatten_append nl ls [] h

/-- the lines of `c ++ rest` are the lines of `c` followed by the lines of `rest` when `c` is whole lines -/
theorem lines_append_of_whole (c rest : List α) (h : WholeLines nl c) :
    lines nl (c ++ rest) = lines nl c ++ lines nl rest := by
  obtain ⟨ls, hls, rfl⟩ := h
  rw [lines_flatten_append nl ls rest hls, lines_flatten nl ls hls]

theorem lines_all_isLine_of_whole (c : List α) (h : WholeLines nl c) : ∀ l ∈ lines nl c, IsLine nl l := by
  obtain ⟨ls, hls, rfl⟩ := h
  rw [lines_flatten nl ls hls]; exact hls

omit [DecidableEq α] in
theorem wholeLines_closed : Closed (WholeLines nl) where
  nil := ⟨[], by simp, by simp⟩
  app := by
    rintro _ _ ⟨l1, h1, rfl⟩ ⟨l2, h2, rfl⟩
    exact ⟨l1 ++ l2, fun l hl => (List.mem_append.1 hl).elim (h1 l) (h2 l), by simp⟩

omit [DecidableEq α] in
theorem wholeLines_of_isLine {l : List α} (h : IsLine nl l) : WholeLines nl l :=
  ⟨[l], by simpa using h, by simp⟩

theorem wholeLinesB_of_whole (c : List α) (h : WholeLines nl c) : wholeLinesB nl c = true := by
  obtain ⟨ls, hls, rfl⟩ := h
  induction ls with
  | nil => simp [wholeLinesB]
  | cons l ls ih =>
    obtain ⟨c, _, rfl⟩ := hls l (by simp)
    have ih := ih (fun l' hl' => hls l' (by simp [hl']))
    simp only [wholeLinesB, List.flatten_cons, List.getLast?_append] at ih ⊢
    cases h : ls.flatten.getLast? with
    | none => simp
    | some x => simpa [h] using ih

theorem lines_flatMap_of_whole (sched : List (List α)) (h : ∀ c ∈ sched, WholeLines nl c) :
    lines nl sched.flatten = sched.flatMap (lines nl) := by
  induction sched with
  | nil => simp [lines]
  | cons c cs ih =>
    simp only [List.flatten_cons, List.flatMap_cons]
    rw [lines_append_of_whole nl c _ (h c (by simp)), ih (fun c' hc' => h c' (by simp [hc']))]

end lines

/-! ### the file and its schedules -/

section sched
variable {α β : Type}

theorem appendAll_eq (f0 : List α) (sched : List (List α)) : appendAll f0 sched = f0 ++ sched.flatten := by
  unfold appendAll
  induction sched generalizing f0 with
  | nil => simp
  | cons c cs ih => simp [ih]

theorem sublist_flatMap {γ : Type} (f : β → List γ) {l₁ l₂ : List β} (h : l₁.Sublist l₂) :
    (l₁.flatMap f).Sublist (l₂.flatMap f) := by
  induction h with
  | slnil => simp
  | cons a _ ih => simpa using ih.trans (List.sublist_append_right _ _)
  | cons_cons a _ ih => simpa using List.Sublist.append (List.Sublist.refl (f a)) ih

/-- a schedule is a permutation of all items of all workers -/
theorem Interleaving.perm {ws : List (List β)} {s : List β} (h : Interleaving ws s) : s.Perm ws.flatten := by
  induction h with
  | @done ws h =>
    have : ws.flatten = [] := by
      simp only [List.flatten_eq_nil_iff]; exact h
    rw [this]
  | @step pre post w c s _ ih =>
    simp only [List.flatten_append, List.flatten_cons, List.cons_append] at ih ⊢
    exact (List.Perm.cons c ih).trans List.perm_middle.symm

/-- every worker's items keep their order in the schedule -/
theorem Interleaving.sublist {ws : List (List β)} {s : List β} (h : Interleaving ws s) : ∀ w ∈ ws, w.Sublist s := by
  induction h with
  | @done ws h => intro w hw; simp [h w hw]
  | @step pre post w c s _ ih =>
    intro w' hw'
    simp only [List.mem_append, List.mem_cons] at hw'
    rcases hw' with hw' | rfl | hw'
    · exact (ih w' (by simp [hw'])).cons c
    · exact (ih w (by simp)).cons_cons c
    · exact (ih w' (by simp [hw'])).cons c

theorem Interleaving.cons_nil {ws : List (List β)} {s : List β} (h : Interleaving ws s) : Interleaving ([] :: ws) s := by
  induction h with
  | @done ws h => exact .done (by simpa using h)
  | @step pre post w c s _ ih => exact .step (pre := [] :: pre) ih

/-- running the workers one after the other is a schedule (the single-process run; non-vacuity of `Interleaving`) -/
theorem Interleaving.sequential (ws : List (List β)) : Interleaving ws ws.flatten := by
  induction ws with
  | nil => exact .done (by simp)
  | cons w ws ih =>
    induction w with
    | nil => simpa using ih.cons_nil
    | cons c w ihw => exact .step (pre := []) ihw

end sched

end Model.Writer
