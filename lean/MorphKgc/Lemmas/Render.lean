/-
Rendering lemmas for C03 (layer B3): a term built by `_materialize_template` from a constant or a template starts
with its delimiter followed by the invariant the partitioner computed — for maps without escapes.
-/
import MorphKgc.Model.Partition
import MorphKgc.Lemmas.Str

namespace Model
open Py

/-! ### `.replace` without an occurrence -/

theorem breakOn_none_of_not_mem {sep s : Str} {c : Char} (hc : c ∈ sep) (hs : c ∉ s) : breakOn sep s = none := by
  cases h : breakOn sep s with
  | none => rfl
  | some p =>
    obtain ⟨a, b⟩ := p
    have := breakOn_eq_some h
    exfalso; apply hs; rw [this]; simp [hc]

theorem replace_of_not_mem {s old new : Str} {c : Char} (hc : c ∈ old) (hs : c ∉ s) : replace s old new = s := by
  unfold replace
  cases s.length with
  | zero => rfl
  | succ n => unfold replaceFuel; rw [breakOn_none_of_not_mem hc hs]

/-- the zero-width space that ends `AUXILIAR_UNIQUE_REPLACING_STRING` -/
def zwsp : Char := Char.ofNat 0x200B

theorem zwsp_mem_aux : zwsp ∈ auxString := by decide

/-- a string without backslash and without U+200B: masking and unmasking escaped braces leave it alone -/
def EscapeFree (v : Str) : Prop := '\\' ∉ v ∧ zwsp ∉ v

theorem unescape_escapeFree {v : Str} (h : '\\' ∉ v) :
    replace (replace v ['\\', '{'] ['{']) ['\\', '}'] ['}'] = v := by
  rw [replace_of_not_mem (c := '\\') (by simp) h, replace_of_not_mem (c := '\\') (by simp) h]

theorem mask_escapeFree {v : Str} (h : '\\' ∉ v) :
    replace (replace v ['\\', '{'] auxString) ['\\', '}'] auxString = v := by
  rw [replace_of_not_mem (c := '\\') (by simp) h, replace_of_not_mem (c := '\\') (by simp) h]

/-! ### the invariant is the text before the first brace -/

/-- `a` is the part of `tpl` before its first `{` (all of `tpl` if there is none) -/
def BeforeBrace (a tpl : Str) : Prop := '{' ∉ a ∧ (tpl = a ∨ ∃ b, tpl = a ++ '{' :: b)

theorem headD_split_of_breakOn {sep s a b : Str} (hs : sep ≠ []) (h : breakOn sep s = some (a, b)) :
    (split s sep).headD [] = a := by
  have := split_head_tail sep s hs
  rw [h] at this
  simp only at this
  rw [List.headD_eq_head?_getD, this.1]; rfl

theorem headD_split_of_none {sep s : Str} (hs : sep ≠ []) (h : breakOn sep s = none) :
    (split s sep).headD [] = s := by
  have := split_head_tail sep s hs
  rw [h] at this
  simp only at this
  rw [this]; rfl

theorem getInvariant_beforeBrace {v inv : Str} (hv : EscapeFree v) (h : getInvariantOfTemplate v = some inv) :
    BeforeBrace inv v ∧ ∃ b, v = inv ++ '{' :: b := by
  unfold getInvariantOfTemplate at h
  rw [replace_of_not_mem (c := '\\') (by simp) hv.1] at h
  dsimp only at h
  unfold isInfix at h
  cases hb : breakOn ['{'] v with
  | none => simp [hb] at h
  | some p =>
    obtain ⟨a, b⟩ := p
    simp only [hb, Option.isSome_some, ↓reduceIte, Option.some.injEq] at h
    rw [headD_split_of_breakOn (by simp) hb] at h
    have hva := breakOn_eq_some hb
    have hz : zwsp ∉ a := by
      intro hz; apply hv.2; rw [hva]; simp [hz]
    rw [replace_of_not_mem zwsp_mem_aux hz] at h
    subst h
    have hnb := breakOn_single_some hb
    exact ⟨⟨hnb, Or.inr ⟨b, by simpa using hva⟩⟩, b, by simpa using hva⟩

/-- first occurrence: if `c ∉ a` then any other split of the string at a `c` happens at or after `a` -/
theorem prefix_of_first {a b x z : Str} {c : Char} (h : a ++ c :: b = x ++ c :: z) (hc : c ∉ a) : ∃ w, x = a ++ w := by
  induction a generalizing x with
  | nil => exact ⟨x, rfl⟩
  | cons d a ih =>
    cases x with
    | nil =>
      simp only [List.cons_append, List.nil_append, List.cons.injEq] at h
      exact absurd (by rw [← h.1]; simp) hc
    | cons e x =>
      simp only [List.cons_append, List.cons.injEq] at h
      obtain ⟨w, hw⟩ := ih h.2 (fun hm => hc (List.mem_cons_of_mem _ hm))
      exact ⟨w, by rw [h.1, hw]; rfl⟩

/-! ### the split/join loop -/

theorem loop_prefix (cfg : TermCfg) (isT : Bool) (tt : Option TermType) (dt : Str) (row : Str → Option Str)
    (refs : List Str) (tpl acc s : Str) (h : templateLoop cfg isT tt dt row refs tpl acc = .ok s) :
    ∃ rest, s = acc ++ rest := by
  induction refs generalizing tpl acc with
  | nil => simp only [templateLoop, Except.ok.injEq] at h; exact ⟨tpl, h.symm⟩
  | cons r refs ih =>
    unfold templateLoop at h
    cases hr : row r with
    | none => simp [hr] at h
    | some v =>
      simp only [hr] at h
      obtain ⟨rest, hrest⟩ := ih _ _ h
      exact ⟨_, by rw [hrest, List.append_assoc, List.append_assoc]⟩

/-- the result of the loop starts with the accumulator followed by the text before the first brace -/
theorem loop_beforeBrace (cfg : TermCfg) (isT : Bool) (tt : Option TermType) (dt : Str) (row : Str → Option Str)
    (refs : List Str) (tpl acc s a : Str) (ha : BeforeBrace a tpl)
    (h : templateLoop cfg isT tt dt row refs tpl acc = .ok s) : ∃ rest, s = acc ++ a ++ rest := by
  cases refs with
  | nil =>
    simp only [templateLoop, Except.ok.injEq] at h
    rcases ha.2 with e | ⟨b, e⟩
    · exact ⟨[], by rw [← h, e]; simp⟩
    · exact ⟨'{' :: b, by rw [← h, e]; simp⟩
  | cons r refs =>
    unfold templateLoop at h
    cases hr : row r with
    | none => simp [hr] at h
    | some v =>
      simp only [hr] at h
      obtain ⟨rest, hrest⟩ := loop_prefix _ _ _ _ _ _ _ _ _ h
      have hpat : (['{'] ++ r ++ ['}'] : Str) ≠ [] := by simp
      have hhead : ∃ w, (split tpl (['{'] ++ r ++ ['}'])).headD [] = a ++ w := by
        cases hb : breakOn (['{'] ++ r ++ ['}']) tpl with
        | none =>
          rw [headD_split_of_none hpat hb]
          rcases ha.2 with e | ⟨b, e⟩
          · exact ⟨[], by rw [e]; simp⟩
          · exact ⟨'{' :: b, e⟩
        | some p =>
          obtain ⟨x, y⟩ := p
          rw [headD_split_of_breakOn hpat hb]
          have hx := breakOn_eq_some hb
          rcases ha.2 with e | ⟨b, e⟩
          · exfalso; apply ha.1; rw [← e, hx]; simp
          · rw [e] at hx
            exact prefix_of_first (c := '{') (z := r ++ ['}'] ++ y) (by simpa using hx) ha.1
      obtain ⟨w, hw⟩ := hhead
      rw [hw] at hrest
      exact ⟨w ++ transformValue cfg isT tt dt v ++ rest, by rw [hrest]; simp⟩

/-! ### terms -/

/-- a constant- or template-valued map is free of escapes; a constant has no brace at all -/
def CleanMap (kind : MapType) (value : Str) : Prop :=
  (kind = .template → EscapeFree value) ∧ (kind = .constant → '\\' ∉ value ∧ '{' ∉ value)

theorem materializeTemplate_ok {cfg : TermCfg} {kind : MapType} {value : Str} {tt : Option TermType} {dt alias : Str}
    {row : Str → Option Str} {term : Str} (h : materializeTemplate cfg kind value tt dt alias row = .ok term) :
    ∃ s, templateLoop cfg (kind = .template) tt dt (fun r => row (alias ++ r))
        (getReferencesInTemplate (if kind = .reference then ['{'] ++ value ++ ['}'] else value))
        (replace (replace (if kind = .reference then ['{'] ++ value ++ ['}'] else value) ['\\', '{'] ['{']) ['\\', '}'] ['}']) []
          = .ok s ∧ term = wrapTerm tt s := by
  unfold materializeTemplate at h
  dsimp only at h
  split at h
  · rename_i s hs
    simp only [Except.ok.injEq] at h
    exact ⟨s, hs, h.symm⟩
  · cases h

/-- **B3.** The term rendered for a clean constant/template map starts with the delimiter followed by the invariant. -/
theorem render_prefix (cfg : TermCfg) (kind : MapType) (value : Str) (tt : Option TermType) (dt alias : Str)
    (row : Str → Option Str) (inv term : Str) (hc : CleanMap kind value) (hinv : invOf kind value = .ok inv)
    (h : materializeTemplate cfg kind value tt dt alias row = .ok term) : ∃ rest, term = wrapTerm tt (inv ++ rest) := by
  obtain ⟨s, hs, rfl⟩ := materializeTemplate_ok h
  cases kind with
  | template =>
    have hv := hc.1 rfl
    simp only [invOf] at hinv
    cases hg : getInvariantOfTemplate value with
    | none => simp [hg] at hinv
    | some i =>
      simp only [hg, Except.ok.injEq] at hinv
      subst hinv
      simp only [reduceCtorEq, ↓reduceIte, unescape_escapeFree hv.1] at hs
      obtain ⟨rest, hrest⟩ := loop_beforeBrace _ _ _ _ _ _ _ _ _ _ (getInvariant_beforeBrace hv hg).1 hs
      exact ⟨rest, by rw [hrest]; simp⟩
  | constant =>
    have hv := hc.2 rfl
    simp only [invOf, Except.ok.injEq] at hinv
    subst hinv
    simp only [reduceCtorEq, ↓reduceIte, unescape_escapeFree hv.1] at hs
    obtain ⟨rest, hrest⟩ := loop_beforeBrace _ _ _ _ _ _ _ _ _ _ ⟨hv.2, Or.inl rfl⟩ hs
    exact ⟨rest, by rw [hrest]; simp⟩
  | reference | execution | quoted | parentTM =>
    simp only [invOf, Except.ok.injEq] at hinv
    subst hinv
    exact ⟨s, rfl⟩

theorem findallBraceRef_none_of_not_mem (v : Str) (h : '{' ∉ v) : findallBraceRef none v = [] := by
  induction v with
  | nil => rfl
  | cons c v ih =>
    simp only [List.mem_cons, not_or] at h
    have hc : c ≠ '{' := fun e => h.1 e.symm
    simp only [findallBraceRef, hc, ↓reduceIte]
    exact ih h.2

/-- a clean constant is rendered as itself between the delimiters, whatever the row -/
theorem render_constant (cfg : TermCfg) (value : Str) (tt : Option TermType) (dt alias : Str)
    (row : Str → Option Str) (h1 : '\\' ∉ value) (h2 : '{' ∉ value) :
    materializeTemplate cfg .constant value tt dt alias row = .ok (wrapTerm tt value) := by
  unfold materializeTemplate
  simp only [reduceCtorEq, ↓reduceIte, unescape_escapeFree h1]
  unfold getReferencesInTemplate
  simp only [mask_escapeFree h1, findallBraceRef_none_of_not_mem value h2, List.map_nil, templateLoop, List.nil_append]

/-- the same for any map kind that is not a reference (the kind only matters for referenced values) -/
theorem render_noref (cfg : TermCfg) (kind : MapType) (hk : kind ≠ .reference) (value : Str) (tt : Option TermType)
    (dt alias : Str) (row : Str → Option Str) (h1 : '\\' ∉ value) (h2 : '{' ∉ value) :
    materializeTemplate cfg kind value tt dt alias row = .ok (wrapTerm tt value) := by
  unfold materializeTemplate
  simp only [hk, ↓reduceIte, unescape_escapeFree h1]
  unfold getReferencesInTemplate
  simp only [mask_escapeFree h1, findallBraceRef_none_of_not_mem value h2, List.map_nil, templateLoop, List.nil_append]

/-- the invariant of a clean map is a prefix of the map's value -/
theorem invOf_prefix {kind : MapType} {value inv : Str} (hc : CleanMap kind value) (h : invOf kind value = .ok inv) :
    inv <+: value := by
  cases kind with
  | template =>
    simp only [invOf] at h
    cases hg : getInvariantOfTemplate value with
    | none => simp [hg] at h
    | some i =>
      simp only [hg, Except.ok.injEq] at h
      subst h
      obtain ⟨b, hb⟩ := (getInvariant_beforeBrace (hc.1 rfl) hg).2
      exact ⟨'{' :: b, hb.symm⟩
  | constant =>
    simp only [invOf, Except.ok.injEq] at h
    subst h; exact List.prefix_refl _
  | reference | execution | quoted | parentTM =>
    simp only [invOf, Except.ok.injEq] at h
    subst h; exact List.nil_prefix

/-! ### when two terms differ -/

theorem wrapTerm_injective (tt : Option TermType) {x y : Str} (h : wrapTerm tt x = wrapTerm tt y) : x = y := by
  unfold wrapTerm at h
  split at h
  · simpa using h
  · simpa using h
  · simpa using h
  · exact h

/-- prefix-incomparable strings (as in `Lemmas/PartialScan`; restated on lists) -/
theorem ne_of_incomp {i₁ i₂ r₁ r₂ : Str} (h1 : startsWith i₁ i₂ = false) (h2 : startsWith i₂ i₁ = false) :
    i₁ ++ r₁ ≠ i₂ ++ r₂ := by
  intro e
  have p1 : i₁ <+: i₁ ++ r₁ := List.prefix_append _ _
  have p2 : i₂ <+: i₁ ++ r₁ := by rw [e]; exact List.prefix_append _ _
  rcases List.prefix_or_prefix_of_prefix p1 p2 with p | p
  · have : startsWith i₂ i₁ = true := List.isPrefixOf_iff_prefix.mpr p
    rw [this] at h2; cases h2
  · have : startsWith i₁ i₂ = true := List.isPrefixOf_iff_prefix.mpr p
    rw [this] at h1; cases h1

/-- terms of one type whose invariants are prefix-incomparable differ, whatever follows the invariants -/
theorem wrapTerm_ne_of_incomp (tt : Option TermType) {i₁ i₂ r₁ r₂ : Str} (h1 : startsWith i₁ i₂ = false)
    (h2 : startsWith i₂ i₁ = false) : wrapTerm tt (i₁ ++ r₁) ≠ wrapTerm tt (i₂ ++ r₂) :=
  fun e => ne_of_incomp h1 h2 (wrapTerm_injective tt e)

/-- blank nodes, IRIs and literals start with different characters -/
theorem wrapTerm_ne_of_type {t₁ t₂ : TermType} (h : t₁ ≠ t₂) (hs₁ : t₁ ≠ .star) (hs₂ : t₂ ≠ .star) (x y : Str) :
    wrapTerm (some t₁) x ≠ wrapTerm (some t₂) y := by
  cases t₁ <;> cases t₂ <;> simp_all [wrapTerm]

end Model

namespace Model
open Py

/-! ### which characters a rendered term can contain -/

theorem split_parts (sep s : Str) (hs : sep ≠ []) :
    (∀ c ∈ (split s sep).headD [], c ∈ s) ∧ (∀ c ∈ join sep (split s sep).tail, c ∈ s) := by
  cases hb : breakOn sep s with
  | none =>
    have := split_head_tail sep s hs
    rw [hb] at this
    simp only at this
    rw [this]
    simp [join]
  | some p =>
    obtain ⟨x, y⟩ := p
    have := split_head_tail sep s hs
    rw [hb] at this
    simp only at this
    rw [headD_split_of_breakOn hs hb, this.2, breakOn_eq_some hb]
    constructor <;> intro c hc <;> simp [hc]

/-- every character of the loop's result comes from the accumulator, the template, or a transformed value -/
theorem loop_chars (cfg : TermCfg) (isT : Bool) (tt : Option TermType) (dt : Str) (row : Str → Option Str)
    (refs : List Str) (tpl acc s : Str) (h : templateLoop cfg isT tt dt row refs tpl acc = .ok s) :
    ∀ c ∈ s, c ∈ acc ∨ c ∈ tpl ∨ ∃ v, c ∈ transformValue cfg isT tt dt v := by
  induction refs generalizing tpl acc with
  | nil =>
    simp only [templateLoop, Except.ok.injEq] at h
    subst h
    intro c hc
    rcases List.mem_append.mp hc with h | h
    · exact Or.inl h
    · exact Or.inr (Or.inl h)
  | cons r refs ih =>
    unfold templateLoop at h
    cases hr : row r with
    | none => simp [hr] at h
    | some v =>
      simp only [hr] at h
      have hpat : (['{'] ++ r ++ ['}'] : Str) ≠ [] := by simp
      obtain ⟨p1, p2⟩ := split_parts (['{'] ++ r ++ ['}']) tpl hpat
      intro c hc
      rcases ih _ _ h c hc with h' | h' | h'
      · rcases List.mem_append.mp h' with h'' | h''
        · rcases List.mem_append.mp h'' with h3 | h3
          · exact Or.inl h3
          · exact Or.inr (Or.inl (p1 c h3))
        · exact Or.inr (Or.inr ⟨v, h''⟩)
      · exact Or.inr (Or.inl (p2 c h'))
      · exact Or.inr (Or.inr h')

end Model
