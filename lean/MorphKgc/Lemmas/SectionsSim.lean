/-
C12: two rule tables that differ only in the identity of their rules (`tmId`, `sourceName`, the way a parent is named)
evaluate to the same statements.  Used for the `#TMi` renumbering and for moving a part to another section.
-/
import MorphKgc.Lemmas.SectionsEval

namespace Model.Sections
open Py Spec Model

/-- the second environment differs from the first in its tables only -/
def EnvSim (envA envB : Env) : Prop := envB = { envA with tables := envB.tables }

/-- what `evalRule` and `eliminateSelfJoin` read from a parent rule -/
structure ParentSim (envA envB : Env) (pa pb : Rule) : Prop where
  lsv : pa.logicalSourceValue = pb.logicalSourceValue
  iterator : pa.iterator = pb.iterator
  smt : pa.subjectMapType = pb.subjectMapType
  smv : pa.subjectMapValue = pb.subjectMapValue
  stt : pa.subjectTermtype = pb.subjectTermtype
  table : envA.table pa = envB.table pb
  smt_ne : pa.subjectMapType ≠ .parentTM

/-- `b` (in table `B`) is `a` (in table `A`) under another identity -/
structure RuleSim (envA envB : Env) (A B : List Rule) (a b : Rule) : Prop where
  fields : ∃ i s v, b = { a with tmId := i, sourceName := s, objectMapValue := v }
  omv : a.objectMapType ≠ .parentTM → b.objectMapValue = a.objectMapValue
  table : envA.table a = envB.table b
  parent : a.objectMapType = .parentTM →
    (∃ pa pb, findRule A a.objectMapValue = some pa ∧ findRule B b.objectMapValue = some pb ∧ ParentSim envA envB pa pb ∧
      -- the test of the configuration section of `_remove_self_joins_no_condition` decides the same on both sides
      (a.sourceName = pa.sourceName ↔ b.sourceName = pb.sourceName)) ∨
    (findRule A a.objectMapValue = none ∧ findRule B b.objectMapValue = none ∧ b.objectMapValue = a.objectMapValue)

theorem rowTriple_sim {envA envB : Env} (he : EnvSim envA envB) (a : Rule) (i s v : Str) (k : MapType) (ov al : Str) :
    rowTriple envB { a with tmId := i, sourceName := s, objectMapValue := v } k ov al = rowTriple envA a k ov al := by
  funext ρ
  rw [he]
  rfl

theorem evalRule_sim {envA envB : Env} (he : EnvSim envA envB) {A B : List Rule} {a b : Rule} (h : RuleSim envA envB A B a b) :
    evalRule envA A a = evalRule envB B b := by
  obtain ⟨⟨i, s, v, rfl⟩, homv, htab, hpar⟩ := h
  have hna : envB.na = envA.na := by rw [he]
  unfold evalRule
  have hc : isAllConstant { a with tmId := i, sourceName := s, objectMapValue := v } = isAllConstant a := rfl
  rw [hc]
  split
  · -- all constant: the object map is a constant
    rename_i hac
    have hne : a.objectMapType ≠ .parentTM := by
      intro h
      simp [isAllConstant, h] at hac
    have hv : v = a.objectMapValue := homv hne
    subst hv
    rw [rowTriple_sim he]
  · have hot : ({ a with tmId := i, sourceName := s, objectMapValue := v } : Rule).objectMapType = a.objectMapType := rfl
    rw [hot]
    split
    · rename_i hp
      rcases hpar hp with ⟨pa, pb, hfa, hfb, hps, _⟩ | ⟨hfa, hfb, hv⟩
      · have hfb' : findRule B v = some pb := hfb
        rw [hfa, hfb']
        simp only []
        have hrefs : refsOfRule { a with tmId := i, sourceName := s, objectMapValue := v } = refsOfRule a := by
          simp only [refsOfRule, hp, refsOfMap]
        have hprefs : refsOfRule pb true = refsOfRule pa true := by
          simp only [refsOfRule, hps.smt, hps.smv]
          rfl
        rw [hrefs, hprefs, hna, ← htab, ← hps.table, ← hps.smt, ← hps.smv, rowTriple_sim he]
      · have hfb' : findRule B v = none := hfb
        have hv' : v = a.objectMapValue := hv
        rw [hfa, hfb', hv']
    · rename_i hp
      have hv : v = a.objectMapValue := homv hp
      subst hv
      have hrefs : refsOfRule { a with tmId := i, sourceName := s, objectMapValue := a.objectMapValue } = refsOfRule a := rfl
      rw [hrefs, hna, ← htab, rowTriple_sim he]

/-! ### tables -/

/-- two lists related element by element -/
inductive Forall2 {α β} (R : α → β → Prop) : List α → List β → Prop
  | nil : Forall2 R [] []
  | cons {a b l₁ l₂} : R a b → Forall2 R l₁ l₂ → Forall2 R (a :: l₁) (b :: l₂)

/-- the two tables are row by row the same rules under other identities -/
def TableSim (envA envB : Env) (A B : List Rule) : Prop := Forall2 (RuleSim envA envB A B) A B

theorem forall2_filter {α β} {R : α → β → Prop} {p : α → Bool} {q : β → Bool} {l₁ : List α} {l₂ : List β}
    (h : Forall2 R l₁ l₂) (hpq : ∀ a b, R a b → p a = q b) : Forall2 R (l₁.filter p) (l₂.filter q) := by
  induction h with
  | nil => exact .nil
  | @cons a b l₁ l₂ hab _ ih =>
    simp only [List.filter_cons, ← hpq a b hab]
    split
    · exact .cons hab ih
    · exact ih

theorem forall2_mapM {α β γ ε : Type} {R : α → β → Prop} {f : α → Except ε γ} {g : β → Except ε γ} {l₁ : List α} {l₂ : List β}
    (h : Forall2 R l₁ l₂) (hfg : ∀ a b, R a b → f a = g b) : l₁.mapM f = l₂.mapM g := by
  induction h with
  | nil => rw [mapM_except_nil, mapM_except_nil]
  | cons hab _ ih => rw [mapM_except_cons, mapM_except_cons, hfg _ _ hab, ih]

theorem RuleSim.asserted {envA envB : Env} {A B : List Rule} {a b : Rule} (h : RuleSim envA envB A B a b) : a.asserted = b.asserted := by
  obtain ⟨i, s, v, rfl⟩ := h.fields
  rfl

/-- **similar tables evaluate to the same result** (same statements in the same order, same error) -/
theorem evalAll_sim {envA envB : Env} (he : EnvSim envA envB) {A B : List Rule} (h : TableSim envA envB A B) :
    evalAll envA A = evalAll envB B := by
  rw [evalAll_eq, evalAll_eq]
  have hf := forall2_filter (p := fun r : Rule => r.asserted) (q := fun r : Rule => r.asserted) h
    (fun a b (hab : RuleSim envA envB A B a b) => hab.asserted)
  rw [forall2_mapM hf (fun a b hab => evalRule_sim he hab)]

/-! ### self-join elimination respects similarity -/

theorem eliminateSelfJoin_keeps (A : List Rule) (r : Rule) :
    (eliminateSelfJoin A r).logicalSourceValue = r.logicalSourceValue ∧ (eliminateSelfJoin A r).iterator = r.iterator ∧
    (eliminateSelfJoin A r).subjectMapType = r.subjectMapType ∧ (eliminateSelfJoin A r).subjectMapValue = r.subjectMapValue ∧
    (eliminateSelfJoin A r).subjectTermtype = r.subjectTermtype ∧ (eliminateSelfJoin A r).sourceName = r.sourceName := by
  rcases eliminateSelfJoin_cases A r with h | ⟨_, _, _, _, h⟩ <;> rw [h] <;> exact ⟨rfl, rfl, rfl, rfl, rfl, rfl⟩

theorem table_eq_of (env : Env) {r r' : Rule} (h₁ : r'.sourceName = r.sourceName) (h₂ : r'.logicalSourceValue = r.logicalSourceValue) :
    env.table r' = env.table r := by
  unfold Env.table
  rw [h₁, h₂]

theorem findRule_map_keep (A : List Rule) (f : Rule → Rule) (hf : ∀ r, (f r).tmId = r.tmId) (p : Str) :
    findRule (A.map f) p = (findRule A p).map f := by
  unfold findRule
  rw [List.find?_map]
  congr 2
  funext r
  simp [hf]

theorem ParentSim.elim {envA envB : Env} {A B : List Rule} {pa pb : Rule} (h : ParentSim envA envB pa pb) :
    ParentSim envA envB (eliminateSelfJoin A pa) (eliminateSelfJoin B pb) := by
  obtain ⟨a1, a2, a3, a4, a5, a6⟩ := eliminateSelfJoin_keeps A pa
  obtain ⟨b1, b2, b3, b4, b5, b6⟩ := eliminateSelfJoin_keeps B pb
  refine ⟨by rw [a1, b1, h.lsv], by rw [a2, b2, h.iterator], by rw [a3, b3, h.smt], by rw [a4, b4, h.smv], by rw [a5, b5, h.stt], ?_,
    by rw [a3]; exact h.smt_ne⟩
  rw [table_eq_of envA a6 a1, table_eq_of envB b6 b1, h.table]

/-- the same pair of rules inside the tables after self-join elimination -/
theorem RuleSim.retable {envA envB : Env} {A B : List Rule} {a b : Rule} (h : RuleSim envA envB A B a b) :
    RuleSim envA envB (A.map (eliminateSelfJoin A)) (B.map (eliminateSelfJoin B)) a b := by
  refine ⟨h.fields, h.omv, h.table, fun hp => ?_⟩
  rw [findRule_map_keep A _ (tmId_eliminateSelfJoin A), findRule_map_keep B _ (tmId_eliminateSelfJoin B)]
  rcases h.parent hp with ⟨pa, pb, hfa, hfb, hps, hsn⟩ | ⟨hfa, hfb, hv⟩
  · refine .inl ⟨_, _, by rw [hfa]; rfl, by rw [hfb]; rfl, hps.elim, ?_⟩
    rw [(eliminateSelfJoin_keeps A pa).2.2.2.2.2, (eliminateSelfJoin_keeps B pb).2.2.2.2.2]
    exact hsn
  · exact .inr ⟨by rw [hfa]; rfl, by rw [hfb]; rfl, hv⟩

theorem subjRefsAreJoinCols_congr {a a' pa pb : Rule} (hj : a'.objectJoin = a.objectJoin)
    (h1 : pa.subjectMapType = pb.subjectMapType) (h2 : pa.subjectMapValue = pb.subjectMapValue) :
    subjRefsAreJoinCols a' pb = subjRefsAreJoinCols a pa := by
  unfold subjRefsAreJoinCols refsOfRule
  simp only [hj, h1, h2, ↓reduceIte]

theorem eliminateSelfJoin_sim {envA envB : Env} {A B : List Rule} {a b : Rule} (h : RuleSim envA envB A B a b) :
    RuleSim envA envB (A.map (eliminateSelfJoin A)) (B.map (eliminateSelfJoin B)) (eliminateSelfJoin A a) (eliminateSelfJoin B b) := by
  by_cases hp : a.objectMapType = .parentTM
  · rcases h.parent hp with ⟨pa, pb, hfa, hfb, hps, hsn⟩ | ⟨hfa, hfb, hv⟩
    · obtain ⟨i, s, v, rfl⟩ := h.fields
      have hsn' : decide (s = pb.sourceName) = decide (a.sourceName = pa.sourceName) := decide_eq_decide.mpr hsn.symm
      have hfb' : B.find? (fun p => p.tmId = v) = some pb := hfb
      have hfa' : A.find? (fun p => p.tmId = a.objectMapValue) = some pa := hfa
      have hsj : subjRefsAreJoinCols { a with tmId := i, sourceName := s, objectMapValue := v } pb = subjRefsAreJoinCols a pa :=
        subjRefsAreJoinCols_congr rfl hps.smt hps.smv
      by_cases hc : (a.sourceName = pa.sourceName && a.logicalSourceValue = pa.logicalSourceValue && a.iterator = pa.iterator
          && a.objectJoin.all (fun cp => cp.1 = cp.2) && subjRefsAreJoinCols a pa) = true
      · have hcb : (s = pb.sourceName && a.logicalSourceValue = pb.logicalSourceValue && a.iterator = pb.iterator
            && a.objectJoin.all (fun cp => cp.1 = cp.2)
            && subjRefsAreJoinCols { a with tmId := i, sourceName := s, objectMapValue := v } pb) = true := by
          rw [hsn', ← hps.lsv, ← hps.iterator, hsj]; exact hc
        have ea : eliminateSelfJoin A a = { a with objectMapType := pa.subjectMapType, objectMapValue := pa.subjectMapValue,
                                                    objectTermtype := pa.subjectTermtype, objectJoin := [] } := by
          unfold eliminateSelfJoin
          rw [if_pos hp, hfa']
          simp only [hc, ↓reduceIte]
        have eb : eliminateSelfJoin B { a with tmId := i, sourceName := s, objectMapValue := v }
            = { a with tmId := i, sourceName := s, objectMapType := pa.subjectMapType, objectMapValue := pa.subjectMapValue,
                       objectTermtype := pa.subjectTermtype, objectJoin := [] } := by
          unfold eliminateSelfJoin
          rw [if_pos (show ({ a with tmId := i, sourceName := s, objectMapValue := v } : Rule).objectMapType = .parentTM from hp)]
          simp only [hfb', hcb, ↓reduceIte, hps.smt, hps.smv, hps.stt]
        rw [ea, eb]
        refine ⟨⟨i, s, pa.subjectMapValue, rfl⟩, fun _ => rfl, ?_, fun hpp => absurd hpp hps.smt_ne⟩
        have := h.table
        exact this
      · have hcb : ¬ (s = pb.sourceName && a.logicalSourceValue = pb.logicalSourceValue && a.iterator = pb.iterator
            && a.objectJoin.all (fun cp => cp.1 = cp.2)
            && subjRefsAreJoinCols { a with tmId := i, sourceName := s, objectMapValue := v } pb) = true := by
          rw [hsn', ← hps.lsv, ← hps.iterator, hsj]; exact hc
        have ea : eliminateSelfJoin A a = a := by
          unfold eliminateSelfJoin
          rw [if_pos hp, hfa']
          simp only [hc]
          rfl
        have eb : eliminateSelfJoin B { a with tmId := i, sourceName := s, objectMapValue := v } = { a with tmId := i, sourceName := s, objectMapValue := v } := by
          unfold eliminateSelfJoin
          rw [if_pos (show ({ a with tmId := i, sourceName := s, objectMapValue := v } : Rule).objectMapType = .parentTM from hp)]
          simp only [hfb', hcb]
          rfl
        rw [ea, eb]
        exact h.retable
    · have ea : eliminateSelfJoin A a = a := by
        unfold eliminateSelfJoin
        have hfa' : A.find? (fun p => p.tmId = a.objectMapValue) = none := hfa
        rw [if_pos hp, hfa']
      have eb : eliminateSelfJoin B b = b := by
        obtain ⟨i, s, v, rfl⟩ := h.fields
        unfold eliminateSelfJoin
        have hfb' : B.find? (fun p => p.tmId = v) = none := hfb
        rw [if_pos (show ({ a with tmId := i, sourceName := s, objectMapValue := v } : Rule).objectMapType = .parentTM from hp), hfb']
      rw [ea, eb]
      exact h.retable
  · have ea : eliminateSelfJoin A a = a := by
      unfold eliminateSelfJoin
      rw [if_neg hp]
    have eb : eliminateSelfJoin B b = b := by
      obtain ⟨i, s, v, rfl⟩ := h.fields
      unfold eliminateSelfJoin
      rw [if_neg (show ¬ ({ a with tmId := i, sourceName := s, objectMapValue := v } : Rule).objectMapType = .parentTM from hp)]
    rw [ea, eb]
    exact h.retable

theorem forall2_map {α β α' β'} {R : α → β → Prop} {S : α' → β' → Prop} {f : α → α'} {g : β → β'} {l₁ : List α} {l₂ : List β}
    (h : Forall2 R l₁ l₂) (hfg : ∀ a b, R a b → S (f a) (g b)) : Forall2 S (l₁.map f) (l₂.map g) := by
  induction h with
  | nil => exact .nil
  | cons hab _ ih => exact .cons (hfg _ _ hab) ih

/-- `_remove_self_joins_no_condition` maps similar tables to similar tables -/
theorem TableSim.elim {envA envB : Env} {A B : List Rule} (h : TableSim envA envB A B) :
    TableSim envA envB (A.map (eliminateSelfJoin A)) (B.map (eliminateSelfJoin B)) :=
  forall2_map (S := RuleSim envA envB (A.map (eliminateSelfJoin A)) (B.map (eliminateSelfJoin B)))
    (f := eliminateSelfJoin A) (g := eliminateSelfJoin B) h fun _ _ hab => eliminateSelfJoin_sim hab

end Model.Sections
