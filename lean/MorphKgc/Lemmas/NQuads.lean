/-
Helper lemmas for C18: Python `split` / `join` on single-character separators, and the round trip
`parse ∘ render = id` of the N-Quads(-star) specification parser (`Spec/NQuads.lean`).
-/
import MorphKgc.Py.Str
import MorphKgc.Spec.NQuads

namespace Py

/-! ### `breakOn`, `split`, `join` with a one-character separator -/

theorem breakOn_single_none_nq {c : Char} {s : Str} (h : c ∉ s) : breakOn [c] s = none := by
  induction s with
  | nil => rfl
  | cons d s ih =>
    have hd : c ≠ d := by intro e; subst e; simp at h
    have hs : c ∉ s := by intro e; exact h (List.mem_cons_of_mem _ e)
    simp [breakOn, List.isPrefixOf, hd, ih hs]

theorem breakOn_single_append {c : Char} {x r : Str} (h : c ∉ x) : breakOn [c] (x ++ c :: r) = some (x, r) := by
  induction x with
  | nil => simp [breakOn, List.isPrefixOf]
  | cons d x ih =>
    have hd : c ≠ d := by intro e; subst e; simp at h
    have hs : c ∉ x := by intro e; exact h (List.mem_cons_of_mem _ e)
    simp [breakOn, List.isPrefixOf, hd, ih hs]

theorem splitFuel_join_single {c : Char} : ∀ (ls : List Str) (n : Nat), ls ≠ [] → (∀ l ∈ ls, c ∉ l) →
    ls.length ≤ n + 1 → splitFuel [c] n (join [c] ls) = ls
  | [], _, h, _, _ => absurd rfl h
  | [x], n, _, hx, _ => by
    have : c ∉ x := hx x (by simp)
    cases n <;> simp [splitFuel, join, breakOn_single_none_nq this]
  | x :: y :: r, 0, _, _, hn => by simp at hn
  | x :: y :: r, n + 1, _, hx, hn => by
    have h1 : c ∉ x := hx x (by simp)
    have ih := splitFuel_join_single (c := c) (y :: r) n (by simp) (fun l hl => hx l (List.mem_cons_of_mem _ hl))
      (by simp at hn ⊢; omega)
    simp only [join, splitFuel, List.append_assoc, List.cons_append, List.nil_append, breakOn_single_append h1, ih]

theorem length_join_single_ge {c : Char} : ∀ (ls : List Str), ls.length ≤ (join [c] ls).length + 1
  | [] => by simp [join]
  | [x] => by simp [join]
  | x :: y :: r => by
    have := length_join_single_ge (c := c) (y :: r)
    simp [join] at this ⊢; omega

/-- `'c'.join(ls).split('c') == ls` when no element contains `c` (Python: also for `ls = ['']`) -/
theorem split_join_single {c : Char} {ls : List Str} (hne : ls ≠ []) (h : ∀ l ∈ ls, c ∉ l) :
    split (join [c] ls) [c] = ls :=
  splitFuel_join_single ls _ hne h (length_join_single_ge ls)

/-- `(t + s).join(ls) + t == s.join(l + t for l in ls)` for a non-empty list -/
theorem join_append_term (t s : Str) : ∀ (ls : List Str), ls ≠ [] → join (t ++ s) ls ++ t = join s (ls.map (· ++ t))
  | [], h => absurd rfl h
  | [x], _ => by simp [join]
  | x :: y :: r, _ => by
    have ih := join_append_term t s (y :: r) (by simp)
    simp only [join, List.map, List.append_assoc] at ih ⊢
    rw [ih]

end Py

namespace Spec.NQ
open Py

/-! ### delimited tokens: IRIREF and STRING_LITERAL_QUOTE -/

/-- the encoding `enc c` of one character is read back as `c` by `pDelim` -/
def EncOK (close : Char) (plain : Char → Bool) (ech : Char → Option Char) (enc : Char → Str) (c : Char) : Prop :=
  (enc c = [c] ∧ c ≠ close ∧ c ≠ '\\' ∧ plain c = true) ∨
  (∃ e, enc c = ['\\', e] ∧ e ≠ 'u' ∧ e ≠ 'U' ∧ ech e = some c)

theorem pDelim_roundtrip (close : Char) (plain : Char → Bool) (ech : Char → Option Char) (enc : Char → Str)
    (hclose : close ≠ '\\') (rest : Str) :
    ∀ (lex : Str), (∀ c ∈ lex, EncOK close plain ech enc c) →
      pDelim close plain ech .normal (lex.flatMap enc ++ close :: rest) = some (lex, rest)
  | [], _ => by simp [pDelim]
  | c :: lex, h => by
    have ih := pDelim_roundtrip close plain ech enc hclose rest lex (fun d hd => h d (List.mem_cons_of_mem _ hd))
    rcases h c (by simp) with ⟨he, h1, h2, h3⟩ | ⟨e, he, h1, h2, h3⟩
    · simp [List.flatMap_cons, he, pDelim, h1, h2, h3, ih]
    · have : ¬ ('\\' = close) := fun x => hclose x.symm
      simp [List.flatMap_cons, he, pDelim, h1, h2, h3, ih, this]

theorem escChar_ok (c : Char) : EncOK '"' strChar echar escChar c := by
  unfold EncOK escChar
  by_cases h1 : c = '\\'; · subst h1; right; exact ⟨'\\', by decide⟩
  by_cases h2 : c = '\n'; · subst h2; right; exact ⟨'n', by decide⟩
  by_cases h3 : c = '\t'; · subst h3; right; exact ⟨'t', by decide⟩
  by_cases h4 : c = '\x08'; · subst h4; right; exact ⟨'b', by decide⟩
  by_cases h5 : c = '\x0c'; · subst h5; right; exact ⟨'f', by decide⟩
  by_cases h6 : c = '\r'; · subst h6; right; exact ⟨'r', by decide⟩
  by_cases h7 : c = '"'; · subst h7; right; exact ⟨'"', by decide⟩
  by_cases h8 : c = '\''; · subst h8; right; exact ⟨'\'', by decide⟩
  left
  simp [h1, h2, h3, h4, h5, h6, h7, h8, strChar]

theorem pString_escape (lex rest : Str) : pString (escape lex ++ '"' :: rest) = some (lex, rest) :=
  pDelim_roundtrip '"' strChar echar escChar (by decide) rest lex (fun c _ => escChar_ok c)

theorem iriChar_ok {c : Char} (h : iriChar c = true) : EncOK '>' iriChar (fun _ => none) (fun c => [c]) c := by
  left
  refine ⟨rfl, ?_, ?_, h⟩
  · intro e; subst e; revert h; decide
  · intro e; subst e; revert h; decide

theorem pIri_wf {v : Str} (h : wfIri v = true) (rest : Str) : pIri (v ++ '>' :: rest) = some (v, rest) := by
  have := pDelim_roundtrip '>' iriChar (fun _ => none) (fun c => [c]) (by decide) rest v
    (fun c hc => iriChar_ok (by simp [wfIri] at h; exact h c hc))
  simpa [pIri] using this

/-! ### blank node labels and language tags: maximal runs -/

/-- what may follow a term inside a statement the engine renders: a single space, or the final dot of the line -/
def Follow (rest : Str) : Prop := rest = ['.'] ∨ ∃ r, rest = ' ' :: r

theorem takeWhile_append_stop {p : Char → Bool} : ∀ {l : Str}, l.all p = true → ∀ {d : Char} {r : Str}, p d = false →
    (l ++ d :: r).takeWhile p = l
  | [], _, d, r, hd => by simp [hd]
  | c :: l, h, d, r, hd => by
    simp at h
    simp [h.1, takeWhile_append_stop (l := l) (by simpa using h.2) hd]

theorem takeWhile_all {p : Char → Bool} : ∀ {l : Str}, l.all p = true → l.takeWhile p = l
  | [], _ => rfl
  | c :: l, h => by
    simp at h
    simp [List.takeWhile, h.1, takeWhile_all (l := l) (by simpa using h.2)]

theorem stripDots_snoc_dot (l : Str) : stripDots (l ++ ['.']) = stripDots l := by
  simp [stripDots]

theorem drop_length_append (l r : Str) : (l ++ r).drop l.length = r := by simp

theorem pAtom_bnode {l : Str} (h : wfLabel l = true) {rest : Str} (hf : Follow rest) :
    pAtom ('_' :: ':' :: (l ++ rest)) = some (.bnode l, rest) := by
  simp only [wfLabel, Bool.and_eq_true, beq_iff_eq] at h
  obtain ⟨⟨hall, hstart⟩, hstrip⟩ := h
  have hrun : stripDots ((l ++ rest).takeWhile labelChar) = l := by
    rcases hf with rfl | ⟨r, rfl⟩
    · have : (l ++ ['.']).all labelChar = true := by
        simp only [List.all_append, hall, Bool.true_and]; decide
      rw [takeWhile_all this, stripDots_snoc_dot, hstrip]
    · rw [takeWhile_append_stop hall (by decide), hstrip]
  simp [pAtom, hrun, hstart]

theorem pAtom_iri {v : Str} (h : wfIri v = true) (rest : Str) :
    pAtom ('<' :: (v ++ '>' :: rest)) = some (.iri v, rest) := by
  simp [pAtom, pIri_wf h]

theorem pAtom_plain (lex : Str) {rest : Str} (hf : Follow rest) :
    pAtom ('"' :: (escape lex ++ '"' :: rest)) = some (.lit lex .plain, rest) := by
  rcases hf with rfl | ⟨r, rfl⟩ <;> simp [pAtom, pString_escape]

theorem pAtom_lang (lex : Str) {t : Str} (h : wfLang t = true) {rest : Str} (hf : Follow rest) :
    pAtom ('"' :: (escape lex ++ '"' :: '@' :: (t ++ rest))) = some (.lit lex (.lang t), rest) := by
  simp only [wfLang, Bool.and_eq_true] at h
  have hrun : (t ++ rest).takeWhile langChar = t := by
    rcases hf with rfl | ⟨r, rfl⟩ <;> exact takeWhile_append_stop h.1 (by decide)
  simp [pAtom, pString_escape, hrun, h.2]

theorem pAtom_typed (lex : Str) {d : Str} (h : wfIri d = true) (rest : Str) :
    pAtom ('"' :: (escape lex ++ '"' :: '^' :: '^' :: '<' :: (d ++ '>' :: rest))) = some (.lit lex (.typed d), rest) := by
  simp [pAtom, pString_escape, pIri_wf h]

/-! ### terms -/

theorem renderTerm_head (t : Term) : ∃ c r, renderTerm t = c :: r ∧ isWs c = false ∧ c ≠ '#' ∧ c ≠ '.' := by
  cases t with
  | iri v => exact ⟨'<', _, rfl, by decide⟩
  | bnode l => exact ⟨'_', _, rfl, by decide⟩
  | lit lex k => cases k <;> exact ⟨'"', _, rfl, by decide⟩
  | quoted s p o => exact ⟨'<', _, rfl, by decide⟩

theorem skipWs_of_head {c : Char} {r : Str} (h : isWs c = false) : skipWs (c :: r) = c :: r := by
  simp [skipWs, List.dropWhile, h]

theorem skipWs_space_render (t : Term) (x : Str) : skipWs (' ' :: (renderTerm t ++ x)) = renderTerm t ++ x := by
  obtain ⟨c, r, h, hc, _⟩ := renderTerm_head t
  have : isWs ' ' = true := by decide
  simp [skipWs, List.dropWhile, h, hc, this]

theorem skipWs_render (t : Term) (x : Str) : skipWs (renderTerm t ++ x) = renderTerm t ++ x := by
  obtain ⟨c, r, h, hc, _⟩ := renderTerm_head t
  simp [skipWs, h, hc]

theorem pTerm_of_not_open {s : Str} (h : quoteOpen s = none) (fuel : Nat) : pTerm fuel s = pAtom s := by
  cases fuel <;> simp [pTerm, h]

theorem quoteOpen_iri {v : Str} (h : wfIri v = true) (x : Str) : quoteOpen ('<' :: (v ++ '>' :: x)) = none := by
  cases v with
  | nil => simp [quoteOpen]
  | cons c v =>
    have : c ≠ '<' := by
      simp [wfIri] at h
      intro e; subst e; exact absurd h.1 (by decide)
    simp [quoteOpen, this]

theorem pTerm_render : ∀ (t : Term) (fuel : Nat) (rest : Str), wfTerm t = true → depth t ≤ fuel → Follow rest →
    pTerm fuel (renderTerm t ++ rest) = some (t, rest)
  | .iri v, fuel, rest, hw, _, _ => by
    have hw' : wfIri v = true := by simpa [wfTerm] using hw
    have h := quoteOpen_iri hw' rest
    simp only [renderTerm, List.cons_append, List.append_assoc, List.nil_append]
    rw [pTerm_of_not_open h, pAtom_iri hw']
  | .bnode l, fuel, rest, hw, _, hf => by
    have hw' : wfLabel l = true := by simpa [wfTerm] using hw
    simp only [renderTerm, List.cons_append]
    rw [pTerm_of_not_open (by simp [quoteOpen]), pAtom_bnode hw' hf]
  | .lit lex .plain, fuel, rest, _, _, hf => by
    simp only [renderTerm, List.cons_append, List.append_assoc, List.nil_append]
    rw [pTerm_of_not_open (by cases h : escape lex ++ '"' :: rest <;> simp [quoteOpen]), pAtom_plain lex hf]
  | .lit lex (.lang t), fuel, rest, hw, _, hf => by
    have hw' : wfLang t = true := by simpa [wfTerm] using hw
    simp only [renderTerm, List.cons_append, List.append_assoc]
    rw [pTerm_of_not_open (by cases h : escape lex ++ '"' :: '@' :: (t ++ rest) <;> simp [quoteOpen]), pAtom_lang lex hw' hf]
  | .lit lex (.typed d), fuel, rest, hw, _, _ => by
    have hw' : wfIri d = true := by simpa [wfTerm] using hw
    simp only [renderTerm, List.cons_append, List.append_assoc, List.nil_append]
    rw [pTerm_of_not_open (by cases h : escape lex ++ '"' :: '^' :: '^' :: '<' :: (d ++ '>' :: rest) <;> simp [quoteOpen]),
      pAtom_typed lex hw']
  | .quoted s p o, 0, rest, _, hd, _ => by simp [depth] at hd
  | .quoted s p o, n + 1, rest, hw, hd, _ => by
    simp only [wfTerm, Bool.and_eq_true] at hw
    obtain ⟨⟨⟨⟨hs, hp⟩, ho⟩, hos⟩, hop⟩ := hw
    simp only [depth] at hd
    have ihs := pTerm_render s n (' ' :: (renderTerm p ++ ' ' :: (renderTerm o ++ ' ' :: '>' :: '>' :: rest))) hs (by omega) (Or.inr ⟨_, rfl⟩)
    have ihp := pTerm_render p n (' ' :: (renderTerm o ++ ' ' :: '>' :: '>' :: rest)) hp (by omega) (Or.inr ⟨_, rfl⟩)
    have iho := pTerm_render o n (' ' :: '>' :: '>' :: rest) ho (by omega) (Or.inr ⟨_, rfl⟩)
    have hclose : skipWs (' ' :: '>' :: '>' :: rest) = '>' :: '>' :: rest := by
      have h1 : isWs ' ' = true := by decide
      have h2 : isWs '>' = false := by decide
      simp [skipWs, List.dropWhile, h1, h2]
    simp only [renderTerm, List.cons_append, List.append_assoc, List.nil_append, pTerm, quoteOpen, Bool.and_self, decide_true,
      if_true, skipWs_space_render, ihs, ihp, iho, hclose, quoteClose, hos, hop]

/-! ### statements -/

theorem depth_le_length : ∀ t : Term, depth t ≤ (renderTerm t).length
  | .iri _ => by simp [depth]
  | .bnode _ => by simp [depth]
  | .lit _ _ => by simp [depth]
  | .quoted s p o => by
    have := depth_le_length s; have := depth_le_length p; have := depth_le_length o
    simp [depth, renderTerm]; omega

theorem pTail_dot (f : Nat) : pTail f ['.'] = some none := by
  simp [pTail, skipWs, lineEnd]

theorem pTail_graph {g : Term} (hw : wfTerm g = true) {f : Nat} (hd : depth g ≤ f) {x : Str} (hx : x = ['.'] ∨ x = [' ', '.']) :
    pTail f (renderTerm g ++ x) = some (some g) := by
  obtain ⟨c, r, h, _, _, hc⟩ := renderTerm_head g
  have hp : pTerm f (renderTerm g ++ x) = some (g, x) :=
    pTerm_render g f x hw hd (by rcases hx with rfl | rfl; exact Or.inl rfl; exact Or.inr ⟨_, rfl⟩)
  have hs : skipWs x = ['.'] := by
    have h1 : isWs ' ' = true := by decide
    have h2 : isWs '.' = false := by decide
    rcases hx with rfl | rfl <;> simp [skipWs, List.dropWhile, h1, h2]
  rw [h] at hp ⊢
  simp only [List.cons_append] at hp
  simp only [pTail, List.cons_append, hc, if_false, hp, hs]
  simp [skipWs, lineEnd]

/-- the four tails the engine and the canonical serialiser produce after the object -/
inductive TailOf (g : Option Term) : Str → Prop
  | ntDot : g = none → TailOf g ['.']
  | nqDefault : g = none → TailOf g [' ', '.']
  | nqDefault2 : g = none → TailOf g [' ', ' ', '.']
  | nqGraph (t : Term) : g = some t → TailOf g (' ' :: (renderTerm t ++ ['.']))
  | canonGraph (t : Term) : g = some t → TailOf g (' ' :: (renderTerm t ++ [' ', '.']))

theorem parseLineF_core (st : Stmt) (hw : wfStmt st = true) (f : Nat)
    (hds : depth st.s ≤ f) (hdp : depth st.p ≤ f) (hdo : depth st.o ≤ f) (hdg : ∀ t, st.g = some t → depth t ≤ f)
    (tail : Str) (ht : TailOf st.g tail) :
    parseLineF f (renderTerm st.s ++ ' ' :: (renderTerm st.p ++ ' ' :: (renderTerm st.o ++ tail))) = some st := by
  obtain ⟨s, p, o, g⟩ := st
  simp only [wfStmt, Bool.and_eq_true] at hw
  obtain ⟨⟨⟨⟨⟨⟨hs, hp⟩, ho⟩, hos⟩, hop⟩, hg⟩, hog⟩ := hw
  have hfol : Follow tail := by
    cases ht with
    | ntDot _ => exact Or.inl rfl
    | nqDefault _ => exact Or.inr ⟨_, rfl⟩
    | nqDefault2 _ => exact Or.inr ⟨_, rfl⟩
    | nqGraph t _ => exact Or.inr ⟨_, rfl⟩
    | canonGraph t _ => exact Or.inr ⟨_, rfl⟩
  have h1 := pTerm_render s f (' ' :: (renderTerm p ++ ' ' :: (renderTerm o ++ tail))) hs hds (Or.inr ⟨_, rfl⟩)
  have h2 := pTerm_render p f (' ' :: (renderTerm o ++ tail)) hp hdp (Or.inr ⟨_, rfl⟩)
  have h3 := pTerm_render o f tail ho hdo hfol
  have h4 : pTail f (skipWs tail) = some g := by
    have w1 : isWs ' ' = true := by decide
    have w2 : isWs '.' = false := by decide
    cases ht with
    | ntDot e => simp at e; subst e; simp [skipWs, List.dropWhile, w2, pTail_dot]
    | nqDefault e => simp at e; subst e; simp [skipWs, List.dropWhile, w1, w2, pTail_dot]
    | nqDefault2 e => simp at e; subst e; simp [skipWs, List.dropWhile, w1, w2, pTail_dot]
    | nqGraph t e =>
      simp at e; subst e
      rw [skipWs_space_render]
      exact pTail_graph (by simpa using hg) (hdg t rfl) (Or.inl rfl)
    | canonGraph t e =>
      simp at e; subst e
      rw [skipWs_space_render]
      exact pTail_graph (by simpa using hg) (hdg t rfl) (Or.inr rfl)
  simp only [parseLineF, skipWs_render, skipWs_space_render, h1, h2, h3, h4, hos, hop, hog, Bool.and_self, if_true]

/-- the terminators for which the framing is proved: `.` (what the engine uses) and ` .` -/
def TermOK (term : Str) : Prop := term = ['.'] ∨ term = [' ', '.']

/-- a well-formed statement, rendered by the engine in either shape and closed by the loader's terminator, is read back -/
theorem parseLine_body (sh : Shape) (st : Stmt) (hw : wfStmt st = true) (hg : sh = .triple → st.g = none)
    {term : Str} (hterm : TermOK term) :
    parseLine (renderStmtBody sh st ++ term) = some st := by
  have hlen : ∀ (a b c x : Str), a.length ≤ (a ++ ' ' :: (b ++ ' ' :: (c ++ x))).length ∧
      b.length ≤ (a ++ ' ' :: (b ++ ' ' :: (c ++ x))).length ∧ c.length ≤ (a ++ ' ' :: (b ++ ' ' :: (c ++ x))).length := by
    intro a b c x; simp; omega
  have core := fun tail (ht : TailOf st.g tail) (hgl : ∀ t, st.g = some t → (renderTerm t).length ≤ tail.length) =>
    parseLineF_core st hw (renderTerm st.s ++ ' ' :: (renderTerm st.p ++ ' ' :: (renderTerm st.o ++ tail))).length
      (Nat.le_trans (depth_le_length _) (hlen _ _ _ _).1) (Nat.le_trans (depth_le_length _) (hlen _ _ _ _).2.1)
      (Nat.le_trans (depth_le_length _) (hlen _ _ _ _).2.2)
      (fun t e => Nat.le_trans (depth_le_length t) (Nat.le_trans (hgl t e) (by simp; omega))) tail ht
  unfold parseLine
  rcases hterm with rfl | rfl
  · cases sh with
    | triple =>
      have e := hg rfl
      have := core ['.'] (.ntDot e) (by simp [e])
      simpa [renderStmtBody] using this
    | quad =>
      cases e : st.g with
      | none =>
        have := core [' ', '.'] (.nqDefault e) (by simp [e])
        simpa [renderStmtBody, e] using this
      | some t =>
        have := core (' ' :: (renderTerm t ++ ['.'])) (.nqGraph t e) (by intro t' e'; rw [e] at e'; cases e'; simp; omega)
        simpa [renderStmtBody, e] using this
  · cases sh with
    | triple =>
      have e := hg rfl
      have := core [' ', '.'] (.nqDefault e) (by simp [e])
      simpa [renderStmtBody] using this
    | quad =>
      cases e : st.g with
      | none =>
        have := core [' ', ' ', '.'] (.nqDefault2 e) (by simp [e])
        simpa [renderStmtBody, e] using this
      | some t =>
        have := core (' ' :: (renderTerm t ++ [' ', '.'])) (.canonGraph t e) (by intro t' e'; rw [e] at e'; cases e'; simp; omega)
        simpa [renderStmtBody, e] using this

/-- the canonical serialisation is read back -/
theorem parseLine_renderStmt (st : Stmt) (hw : wfStmt st = true) : parseLine (renderStmt st) = some st := by
  have hlen : ∀ (a b c x : Str), a.length ≤ (a ++ ' ' :: (b ++ ' ' :: (c ++ x))).length ∧
      b.length ≤ (a ++ ' ' :: (b ++ ' ' :: (c ++ x))).length ∧ c.length ≤ (a ++ ' ' :: (b ++ ' ' :: (c ++ x))).length := by
    intro a b c x; simp; omega
  have core := fun tail (ht : TailOf st.g tail) (hgl : ∀ t, st.g = some t → (renderTerm t).length ≤ tail.length) =>
    parseLineF_core st hw (renderTerm st.s ++ ' ' :: (renderTerm st.p ++ ' ' :: (renderTerm st.o ++ tail))).length
      (Nat.le_trans (depth_le_length _) (hlen _ _ _ _).1) (Nat.le_trans (depth_le_length _) (hlen _ _ _ _).2.1)
      (Nat.le_trans (depth_le_length _) (hlen _ _ _ _).2.2)
      (fun t e => Nat.le_trans (depth_le_length t) (Nat.le_trans (hgl t e) (by simp; omega))) tail ht
  unfold parseLine
  cases e : st.g with
  | none =>
    have := core [' ', '.'] (.nqDefault e) (by simp [e])
    simpa [renderStmt, e] using this
  | some t =>
    have := core (' ' :: (renderTerm t ++ [' ', '.'])) (.canonGraph t e) (by intro t' e'; rw [e] at e'; cases e'; simp; omega)
    simpa [renderStmt, e] using this

/-! ### documents -/

/-- no EOL character (`\n`, `\r`) -/
def noEol (s : Str) : Bool := s.all fun c => !isEol c

theorem noEol_append (a b : Str) : noEol (a ++ b) = (noEol a && noEol b) := by simp [noEol]
theorem noEol_nil : noEol [] = true := rfl
theorem noEol_cons (c : Char) (s : Str) : noEol (c :: s) = (!isEol c && noEol s) := by simp [noEol]

theorem noEol_of_all {p : Char → Bool} (hp : ∀ c, p c = true → isEol c = false) {l : Str} (h : l.all p = true) : noEol l = true := by
  simp only [noEol, List.all_eq_true] at h ⊢
  intro c hc; simp [hp c (h c hc)]

theorem isEol_cases {c : Char} (h : isEol c = true) : c = '\n' ∨ c = '\r' := by simpa [isEol] using h

theorem iriChar_not_eol (c : Char) (h : iriChar c = true) : isEol c = false := by
  cases he : isEol c with
  | false => rfl
  | true => rcases isEol_cases he with rfl | rfl <;> revert h <;> decide

theorem labelChar_not_eol (c : Char) (h : labelChar c = true) : isEol c = false := by
  cases he : isEol c with
  | false => rfl
  | true => rcases isEol_cases he with rfl | rfl <;> revert h <;> decide

theorem langChar_not_eol (c : Char) (h : langChar c = true) : isEol c = false := by
  cases he : isEol c with
  | false => rfl
  | true => rcases isEol_cases he with rfl | rfl <;> revert h <;> decide

theorem noEol_escChar (c : Char) : noEol (escChar c) = true := by
  unfold escChar
  repeat' split
  all_goals first | decide | skip
  rename_i h1 h2 _ _ _ h6 _ _
  simp [noEol, isEol, h2, h6]

theorem noEol_escape : ∀ lex : Str, noEol (escape lex) = true
  | [] => rfl
  | c :: lex => by
    have := noEol_escape lex
    simp only [escape, List.flatMap_cons, noEol_append, noEol_escChar, Bool.true_and] at this ⊢
    exact this

theorem noEol_renderTerm : ∀ t : Term, wfTerm t = true → noEol (renderTerm t) = true
  | .iri v, h => by
    have := noEol_of_all iriChar_not_eol (l := v) (by simpa [wfTerm, wfIri] using h)
    simp [renderTerm, noEol_cons, noEol_append, this]; decide
  | .bnode l, h => by
    have hl : l.all labelChar = true := by
      simp only [wfTerm, wfLabel, Bool.and_eq_true] at h; exact h.1.1
    have := noEol_of_all labelChar_not_eol hl
    simp [renderTerm, noEol_cons, this]; decide
  | .lit lex .plain, _ => by
    simp [renderTerm, noEol_cons, noEol_append, noEol_escape]; decide
  | .lit lex (.lang t), h => by
    have hl : t.all langChar = true := by
      simp only [wfTerm, wfLang, Bool.and_eq_true] at h; exact h.1
    have := noEol_of_all langChar_not_eol hl
    simp [renderTerm, noEol_cons, noEol_append, noEol_escape, this]; decide
  | .lit lex (.typed d), h => by
    have := noEol_of_all iriChar_not_eol (l := d) (by simpa [wfTerm, wfIri] using h)
    simp [renderTerm, noEol_cons, noEol_append, noEol_escape, this]; decide
  | .quoted s p o, h => by
    simp only [wfTerm, Bool.and_eq_true] at h
    have h1 := noEol_renderTerm s h.1.1.1.1
    have h2 := noEol_renderTerm p h.1.1.1.2
    have h3 := noEol_renderTerm o h.1.1.2
    simp [renderTerm, noEol_cons, noEol_append, h1, h2, h3]; decide

theorem noEol_renderStmtBody (sh : Shape) (st : Stmt) (hw : wfStmt st = true) : noEol (renderStmtBody sh st) = true := by
  simp only [wfStmt, Bool.and_eq_true] at hw
  obtain ⟨⟨⟨⟨⟨⟨hs, hp⟩, ho⟩, _⟩, _⟩, hg⟩, _⟩ := hw
  have h1 := noEol_renderTerm _ hs
  have h2 := noEol_renderTerm _ hp
  have h3 := noEol_renderTerm _ ho
  have hsp : isEol ' ' = false := by decide
  cases sh with
  | triple => simp [renderStmtBody, noEol_append, noEol_cons, h1, h2, h3, hsp]
  | quad =>
    cases e : st.g with
    | none => simp [renderStmtBody, e, noEol_append, noEol_cons, h1, h2, h3, hsp, noEol_nil]
    | some g =>
      have h4 := noEol_renderTerm g (by simpa [e] using hg)
      simp [renderStmtBody, e, noEol_append, noEol_cons, h1, h2, h3, h4, hsp]

theorem eolSplit_noEol : ∀ {l : Str}, noEol l = true → eolSplit l = [l]
  | [], _ => rfl
  | c :: l, h => by
    simp only [noEol_cons, Bool.and_eq_true, Bool.not_eq_true'] at h
    simp [eolSplit, h.1, eolSplit_noEol h.2, consHead]

theorem eolSplit_append_lf : ∀ {l : Str}, noEol l = true → ∀ r : Str, eolSplit (l ++ '\n' :: r) = l :: eolSplit r
  | [], _, r => by simp [eolSplit, isEol]
  | c :: l, h, r => by
    simp only [noEol_cons, Bool.and_eq_true, Bool.not_eq_true'] at h
    simp [eolSplit, h.1, eolSplit_append_lf h.2 r, consHead]

theorem eolSplit_join : ∀ (ls : List Str), ls ≠ [] → (∀ l ∈ ls, noEol l = true) → eolSplit (Py.join ['\n'] ls) = ls
  | [], h, _ => absurd rfl h
  | [x], _, h => by simpa [Py.join] using eolSplit_noEol (h x (by simp))
  | x :: y :: r, _, h => by
    have ih := eolSplit_join (y :: r) (by simp) (fun l hl => h l (List.mem_cons_of_mem _ hl))
    simp only [Py.join, List.append_assoc, List.cons_append, List.nil_append]
    rw [eolSplit_append_lf (h x (by simp)), ih]

theorem isBlankLine_body (sh : Shape) (st : Stmt) (x : Str) : isBlankLine (renderStmtBody sh st ++ x) = false := by
  obtain ⟨c, r, h, hc, hh, _⟩ := renderTerm_head st.s
  simp [isBlankLine, renderStmtBody, h, skipWs, hc, lineEnd, hh]

theorem parseLines_bodies {term : Str} (hterm : TermOK term) : ∀ (sts : List (Shape × Stmt)),
    (∀ x ∈ sts, wfStmt x.2 = true ∧ (x.1 = .triple → x.2.g = none)) →
    parseLines (sts.map fun x => renderStmtBody x.1 x.2 ++ term) = some (sts.map (·.2))
  | [], _ => rfl
  | x :: sts, h => by
    have ih := parseLines_bodies hterm sts (fun y hy => h y (List.mem_cons_of_mem _ hy))
    have hx := h x (by simp)
    simp [parseLines, isBlankLine_body, parseLine_body x.1 x.2 hx.1 hx.2 hterm, ih]

theorem noEol_term {term : Str} (hterm : TermOK term) : noEol term = true := by
  rcases hterm with rfl | rfl <;> decide

/-- the framed document `(term ++ "\n").join(bodies) ++ term` is read back statement by statement -/
theorem parseDoc_framed {term : Str} (hterm : TermOK term) (sts : List (Shape × Stmt)) (hne : sts ≠ [])
    (hw : ∀ x ∈ sts, wfStmt x.2 = true ∧ (x.1 = .triple → x.2.g = none)) :
    parseDoc (Py.join (term ++ ['\n']) (sts.map fun x => renderStmtBody x.1 x.2) ++ term) = some (sts.map (·.2)) := by
  have hne' : (sts.map fun x => renderStmtBody x.1 x.2) ≠ [] := by simpa using hne
  rw [Py.join_append_term term ['\n'] _ hne', List.map_map]
  unfold parseDoc
  rw [eolSplit_join]
  · exact parseLines_bodies hterm sts hw
  · simpa using hne
  · intro l hl
    simp only [List.mem_map, Function.comp] at hl
    obtain ⟨x, hx, rfl⟩ := hl
    simp [noEol_append, noEol_renderStmtBody x.1 x.2 (hw x hx).1, noEol_term hterm]

end Spec.NQ
