/-
The literal escape chain: any chain satisfying the decidable side condition `ChainOK` produces valid
N-Triples string bodies that decode to the source value, for every Unicode string.
-/
import MorphKgc.Lemmas.Str
import MorphKgc.Spec.NTerm

namespace Py
open Spec

/-- decidable side condition on an escape chain (evaluated by `decide` on the generated chain):
    every source is one character; backslash, quote, LF and CR are among the sources; and the *whole chain*
    maps each source character to `\e` with `e` the ECHAR letter that decodes to it (this is where a wrong
    order — e.g. quotes before backslashes — shows up). -/
def ChainOK (chain : List (Str × Str)) : Bool :=
  SingleSources chain &&
  ['\\', '"', '\n', '\r'].all (fun c => chain.any fun p => p.1 == [c]) &&
  chain.all fun p =>
    match p.1, applyChain chain p.1 with
    | [c], [b, e] => b == '\\' && decodeEchar e == some c
    | _, _ => false

theorem lexBody_escaped (c e : Char) (rest : Str) (h : decodeEchar e = some c) :
    lexBody ('\\' :: e :: rest) = (lexBody rest).map (c :: ·) := by
  rw [lexBody]
  simp [h]

theorem lexBody_plain (c : Char) (rest : Str) (h1 : c ≠ '\\') (h2 : c ≠ '"') (h3 : c ≠ '\n') (h4 : c ≠ '\r') :
    lexBody (c :: rest) = (lexBody rest).map (c :: ·) := by
  conv => lhs; unfold lexBody
  simp [h1, h2, h3, h4]

theorem chainOK_roundtrip {chain : List (Str × Str)} (hc : ChainOK chain = true) (v : Str) :
    lexBody (applyChain chain v) = some v := by
  simp only [ChainOK, Bool.and_eq_true] at hc
  obtain ⟨⟨hs, hreq⟩, hall⟩ := hc
  rw [applyChain_eq_flatMap hs]
  induction v with
  | nil => simp [lexBody]
  | cons c v ih =>
    rw [List.flatMap_cons]
    by_cases hsrc : ∃ p ∈ chain, p.1 = [c]
    · obtain ⟨p, hp, hpc⟩ := hsrc
      have hp' := List.all_eq_true.mp hall p hp
      rw [hpc] at hp'
      -- the whole chain maps [c] to [\, e]
      cases hout : applyChain chain [c] with
      | nil => simp [hout] at hp'
      | cons b t =>
        cases t with
        | nil => simp [hout] at hp'
        | cons e t' =>
          cases t' with
          | cons _ _ => simp [hout] at hp'
          | nil =>
            simp only [hout, Bool.and_eq_true, beq_iff_eq] at hp'
            obtain ⟨hb, he⟩ := hp'
            subst hb
            simp only [List.cons_append, List.nil_append]
            rw [lexBody_escaped c e _ he, ih]; rfl
    · have hns : ∀ p ∈ chain, p.1 ≠ [c] := fun p hp h => hsrc ⟨p, hp, h⟩
      rw [applyChain_singleton_of_not_source c hns hs]
      have hne : ∀ d ∈ ['\\', '"', '\n', '\r'], c ≠ d := by
        intro d hd hcd
        have := List.all_eq_true.mp hreq d hd
        obtain ⟨p, hp, hpd⟩ := List.any_eq_true.mp this
        exact hns p hp (by rw [hcd]; simpa using hpd)
      simp only [List.cons_append, List.nil_append]
      rw [lexBody_plain c _ (hne _ (by simp)) (hne _ (by simp)) (hne _ (by simp)) (hne _ (by simp)), ih]; rfl

end Py
