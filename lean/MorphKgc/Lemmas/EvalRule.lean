/-
`Model.preprocess` and `Model.evalRule` on plain rules (no join, not all-constant), under the reader guarantee that
every row has every referenced column.
-/
import MorphKgc.Model.Eval
import MorphKgc.Lemmas.Template

namespace Py

theorem mem_foldl_dedup {α} [BEq α] [LawfulBEq α] (xs acc : List α) (x : α) :
    x ∈ xs.foldl (fun acc x => if acc.elem x then acc else x :: acc) acc ↔ x ∈ acc ∨ x ∈ xs := by
  induction xs generalizing acc with
  | nil => simp
  | cons y ys ih =>
    rw [List.foldl_cons, ih]
    by_cases hy : acc.elem y = true
    · have : y ∈ acc := by simpa using hy
      simp only [hy, ↓reduceIte, List.mem_cons]
      constructor
      · rintro (h | h) <;> simp [h]
      · rintro (h | h | h)
        · exact .inl h
        · exact .inl (h ▸ this)
        · exact .inr h
    · simp only [hy, Bool.false_eq_true, ↓reduceIte, List.mem_cons]
      constructor
      · rintro ((h | h) | h) <;> simp [h]
      · rintro (h | h | h) <;> simp [h]

/-- `dedupFirst` only affects multiplicity -/
@[simp] theorem mem_dedupFirst {α} [BEq α] [LawfulBEq α] (xs : List α) (x : α) : x ∈ dedupFirst xs ↔ x ∈ xs := by
  unfold dedupFirst
  rw [List.mem_reverse, mem_foldl_dedup]
  simp

theorem dedupFirst_nil {α} [BEq α] : dedupFirst ([] : List α) = [] := rfl

theorem dedupFirst_eq_nil {α} [BEq α] [LawfulBEq α] {xs : List α} : dedupFirst xs = [] ↔ xs = [] := by
  constructor
  · intro h
    cases xs with
    | nil => rfl
    | cons x xs =>
      have : x ∈ dedupFirst (x :: xs) := by simp
      rw [h] at this; simp at this
  · rintro rfl; rfl

end Py

namespace Model
open Py

/-! ### `mapM` in the `Except` monad -/

theorem mapM_ok_of_forall {α β ε} (f : α → Except ε β) (g : α → β) (l : List α) (h : ∀ x ∈ l, f x = .ok (g x)) :
    l.mapM f = .ok (l.map g) := by
  induction l with
  | nil => rfl
  | cons a l ih =>
    rw [List.mapM_cons, h a (by simp), ih (fun x hx => h x (List.mem_cons_of_mem _ hx))]
    rfl

theorem mem_of_mapM_ok {α β ε} (f : α → Except ε β) (l : List α) (ys : List β) (h : l.mapM f = .ok ys) (y : β) :
    y ∈ ys ↔ ∃ x ∈ l, f x = .ok y := by
  induction l generalizing ys with
  | nil =>
    have : ys = [] := by simpa [pure, Except.pure] using h.symm
    simp [this]
  | cons a l ih =>
    rw [List.mapM_cons] at h
    cases hfa : f a with
    | error e => simp [hfa, bind, Except.bind] at h
    | ok b =>
      cases hl : l.mapM f with
      | error e => simp [hfa, hl, bind, Except.bind] at h
      | ok bs =>
        simp only [hfa, hl, bind, Except.bind, pure, Except.pure, Except.ok.injEq] at h
        subst h
        simp only [List.mem_cons, ih bs hl, exists_eq_or_imp, hfa, Except.ok.injEq]
        constructor
        · rintro (h | h)
          · exact .inl h.symm
          · exact .inr h
        · rintro (h | h)
          · exact .inl h.symm
          · exact .inr h

/-! ### reader guarantees -/

/-- every row of the table has every referenced column -/
def Complete (refs : List Str) (t : Table) : Bool := t.all fun ρ => refs.all fun c => (lookup c ρ).isSome

/-- the reader delivers no raw null objects (`None`, `nan`, `<NA>`): nulls only arrive as NA *tokens* -/
def NoRawNulls (t : Table) : Bool := t.all fun ρ => ρ.all fun kv => match kv.2 with | .str _ => true | .null _ => false

/-- `str(cell)` of column `c` -/
def cellStr (ρ : Row) (c : Str) : Str := match lookup c ρ with | some cell => pyStr cell | none => []

/-- the row restricted to the (deduplicated) references, stringified -/
def projRow (refs : List Str) (ρ : Row) : SRow := refs.map fun c => (c, cellStr ρ c)

theorem lookup_map_self {β} (l : List Str) (f : Str → β) (c : Str) :
    lookup c (l.map fun c => (c, f c)) = if c ∈ l then some (f c) else none := by
  induction l with
  | nil => rfl
  | cons a l ih =>
    simp only [List.map_cons, lookup, List.mem_cons]
    by_cases h : a = c
    · subst h; simp
    · have : ¬ c = a := fun e => h e.symm
      simp [h, this, ih]

theorem lookup_projRow (refs : List Str) (ρ : Row) (c : Str) :
    lookup c (projRow refs ρ) = if c ∈ refs then some (cellStr ρ c) else none :=
  lookup_map_self refs (cellStr ρ) c

theorem lookup_mem {β} {k : Str} {l : List (Str × β)} {b : β} (h : lookup k l = some b) : (k, b) ∈ l := by
  induction l with
  | nil => simp [lookup] at h
  | cons a l ih =>
    obtain ⟨a1, a2⟩ := a
    simp only [lookup] at h
    by_cases e : a1 = k
    · simp only [e, ↓reduceIte, Option.some.injEq] at h
      simp [e, h]
    · simp only [e, ↓reduceIte] at h
      exact List.mem_cons_of_mem _ (ih h)

theorem projectRow_ok (refs : List Str) (ρ : Row) (h : ∀ c ∈ refs, (lookup c ρ).isSome) :
    projectRow refs ρ = .ok (projRow refs ρ) := by
  unfold projectRow projRow
  apply mapM_ok_of_forall
  intro c hc
  have := h c hc
  cases hl : lookup c ρ with
  | none => simp [hl] at this
  | some cell => simp [cellStr, hl]

/-- the result of `_preprocess_data` as a pure function of the table -/
def prepRows (na : List Str) (refs : List Str) (t : Table) : List SRow :=
  dedupFirst ((t.map (projRow (dedupFirst refs))).filter fun σ => σ.all fun p => !na.contains p.2)

/-- `_preprocess_data` does not raise on complete tables and computes `prepRows` -/
theorem preprocess_eq (na : List Str) (refs : List Str) (t : Table) (h : Complete refs t = true) :
    preprocess na refs t = .ok (prepRows na refs t) := by
  simp only [Complete, List.all_eq_true] at h
  unfold preprocess prepRows
  have : t.mapM (projectRow (dedupFirst refs)) = .ok (t.map (projRow (dedupFirst refs))) :=
    mapM_ok_of_forall _ _ _ fun ρ hρ => projectRow_ok _ _ fun c hc => h ρ hρ c (by simpa using hc)
  simp only [this]
  rfl

/-- the rows that survive: projections of the rows none of whose referenced cells is an NA token -/
theorem mem_prepRows (na : List Str) (refs : List Str) (t : Table) (σ : SRow) :
    σ ∈ prepRows na refs t ↔ ∃ ρ ∈ t, σ = projRow (dedupFirst refs) ρ ∧ ∀ c ∈ refs, cellStr ρ c ∉ na := by
  simp only [prepRows, mem_dedupFirst, List.mem_filter, List.mem_map, List.all_eq_true, Bool.not_eq_true',
    List.contains_eq_mem, decide_eq_false_iff_not]
  constructor
  · rintro ⟨⟨ρ, hρ, rfl⟩, hall⟩
    refine ⟨ρ, hρ, rfl, fun c hc => ?_⟩
    exact hall (c, cellStr ρ c) (by simp only [projRow, List.mem_map]; exact ⟨c, by simpa using hc, rfl⟩)
  · rintro ⟨ρ, hρ, rfl, hall⟩
    refine ⟨⟨ρ, hρ, rfl⟩, fun p hp => ?_⟩
    simp only [projRow, List.mem_map] at hp
    obtain ⟨c, hc, rfl⟩ := hp
    exact hall c (by simpa using hc)

theorem preprocess_ok (na : List Str) (refs : List Str) (t : Table) (h : Complete refs t = true) :
    ∃ rows, preprocess na refs t = .ok rows ∧
      ∀ σ, σ ∈ rows ↔ ∃ ρ ∈ t, σ = (dedupFirst refs).map (fun c => (c, cellStr ρ c)) ∧ ∀ c ∈ refs, cellStr ρ c ∉ na :=
  ⟨_, preprocess_eq na refs t h, mem_prepRows na refs t⟩

/-! ### plain rules -/

theorem evalRule_plain_eq (env : Env) (rules : List Rule) (r : Rule) (hc : isAllConstant r = false)
    (hp : r.objectMapType ≠ .parentTM) :
    evalRule env rules r =
      (preprocess env.na (refsOfRule r) (env.table r)) >>= fun data =>
        data.mapM (rowTriple env r r.objectMapType r.objectMapValue []) := by
  unfold evalRule
  simp [hc, hp]

/-- a plain rule over a complete table: one statement per surviving row -/
theorem evalRule_plain (env : Env) (rules : List Rule) (r : Rule) (hc : isAllConstant r = false)
    (hp : r.objectMapType ≠ .parentTM) (hcomp : Complete (refsOfRule r) (env.table r) = true) (g : SRow → Str)
    (hg : ∀ σ ∈ prepRows env.na (refsOfRule r) (env.table r),
      rowTriple env r r.objectMapType r.objectMapValue [] σ = .ok (g σ)) :
    evalRule env rules r = .ok ((prepRows env.na (refsOfRule r) (env.table r)).map g) := by
  rw [evalRule_plain_eq env rules r hc hp, preprocess_eq _ _ _ hcomp]
  exact mapM_ok_of_forall _ _ _ hg

/-- membership in the output of a plain rule -/
theorem mem_evalRule_plain (env : Env) (rules : List Rule) (r : Rule) (hc : isAllConstant r = false)
    (hp : r.objectMapType ≠ .parentTM) (hcomp : Complete (refsOfRule r) (env.table r) = true)
    (lines : List Str) (hl : evalRule env rules r = .ok lines) (line : Str) :
    line ∈ lines ↔ ∃ ρ ∈ env.table r, (∀ c ∈ refsOfRule r, cellStr ρ c ∉ env.na) ∧
      rowTriple env r r.objectMapType r.objectMapValue [] (projRow (dedupFirst (refsOfRule r)) ρ) = .ok line := by
  rw [evalRule_plain_eq env rules r hc hp, preprocess_eq _ _ _ hcomp] at hl
  have := mem_of_mapM_ok _ _ _ hl line
  rw [this]
  constructor
  · rintro ⟨σ, hσ, hrt⟩
    obtain ⟨ρ, hρ, rfl, hall⟩ := (mem_prepRows _ _ _ _).mp hσ
    exact ⟨ρ, hρ, hall, hrt⟩
  · rintro ⟨ρ, hρ, hall, hrt⟩
    exact ⟨_, (mem_prepRows _ _ _ _).mpr ⟨ρ, hρ, rfl, hall⟩, hrt⟩

end Model

/-! ### one rule of the core fragment: engine row = generation rule for that row -/

namespace Model
open Py Spec

theorem mapM_ok_of_forall_exists {α β ε} (f : α → Except ε β) (l : List α) (h : ∀ x ∈ l, ∃ y, f x = .ok y) :
    ∃ ys, l.mapM f = .ok ys := by
  induction l with
  | nil => exact ⟨[], rfl⟩
  | cons a l ih =>
    obtain ⟨b, hb⟩ := h a (by simp)
    obtain ⟨bs, hbs⟩ := ih (fun x hx => h x (List.mem_cons_of_mem _ hx))
    exact ⟨b :: bs, by rw [List.mapM_cons, hb, hbs]; rfl⟩

/-- the flat rule that `normalizeDoc` builds from a subject map, a predicate map, a term-valued object map and a
    graph map (already in `(type, value)` form) -/
def ruleOf (tm : TriplesMap) (pm om : TermMap) (g : MapType × Str) : Rule :=
  { baseRule tm with
    predicateMapType := (mapOf pm).1, predicateMapValue := (mapOf pm).2,
    objectMapType := (mapOf om).1, objectMapValue := (mapOf om).2, objectTermtype := om.termType,
    langDatatype := (langDt om).1, langDatatypeMapType := (langDt om).2.1, langDatatypeMapValue := (langDt om).2.2,
    graphMapType := g.1, graphMapValue := g.2 }

theorem baseRule_eq (tm : TriplesMap) :
    baseRule tm = { sourceName := tm.sourceName, tmId := tm.id, logicalSourceValue := tm.lsv,
                    subjectMapType := (mapOf tm.subject).1, subjectMapValue := (mapOf tm.subject).2,
                    subjectTermtype := tm.subject.termType } := rfl

/-- the correspondence between the engine's and the specification's environment -/
structure EnvOK (env : Env) (senv : SEnv) : Prop where
  cfg : CfgOK env.cfg senv.safe
  na : env.na = senv.na
  fmt : env.fmt = senv.fmt
  tables : env.tables = senv.tables
  dg : env.defaultGraph = senv.defaultGraph

/-- subject maps: well-formed and carrying no language tag / datatype (the flat rule has no place for one) -/
def SubjOK (tm : TermMap) : Bool := WFTermMap tm && (termSuffix tm).isEmpty
/-- predicate maps generate IRIs -/
def PredOK (tm : TermMap) : Bool := WFTermMap tm && tm.termType == .iri
/-- graph maps generate IRIs; only `rr:constant rr:defaultGraph` is spelled like the default graph -/
def GraphOK (dg : Str) (tm : TermMap) : Bool :=
  WFTermMap tm && tm.termType == .iri && (tm.kind == .constant || (mapOf tm).2 != dg)
/-- object maps: language tags and datatypes are escape-free and only occur on literals -/
def ObjOK (om : TermMap) : Bool :=
  WFTermMap om &&
  match om.lang, om.datatype with
  | some l, _ => PlainStr l && om.termType == .literal
  | none, some d => d == xsdNs ++ "string".toList || (PlainStr d && om.termType == .literal)
  | none, none => true

theorem langDt_mt (om : TermMap) : (langDt om).2.1 = none ∨ (langDt om).2.1 = some .constant := by
  unfold langDt
  cases om.lang <;> cases om.datatype <;> simp
  split <;> simp

theorem refsOfRule_ruleOf (tm : TriplesMap) (pm om gm : TermMap) (hs : WFTermMap tm.subject = true)
    (hp : WFTermMap pm = true) (ho : WFTermMap om = true) (hg : WFTermMap gm = true) :
    refsOfRule (ruleOf tm pm om (mapOf gm)) = tmRefs tm.subject ++ tmRefs pm ++ tmRefs om ++ tmRefs gm := by
  simp only [refsOfRule, ruleOf, baseRule_eq, Bool.false_eq_true, ↓reduceIte, List.map_nil, List.append_nil,
    refsOfMap_mapOf _ hs, refsOfMap_mapOf _ hp, refsOfMap_mapOf _ ho, refsOfMap_mapOf _ hg]
  rcases langDt_mt om with h | h <;> simp [h, refsOfMap]

theorem valueOf_eq (na : List Str) (ρ : Row) (c : Str) (hc : (lookup c ρ).isSome = true)
    (hn : ρ.all (fun kv => match kv.2 with | .str _ => true | .null _ => false) = true) :
    valueOf na ρ c = if cellStr ρ c ∈ na then none else some (cellStr ρ c) := by
  cases hl : lookup c ρ with
  | none => simp [hl] at hc
  | some cell =>
    have hm := lookup_mem hl
    have := List.all_eq_true.mp hn _ hm
    cases cell with
    | null r => simp at this
    | str v => simp [valueOf, cellStr, hl, pyStr]

theorem termSuffix_iri {tm : TermMap} (h : tm.termType = .iri) : termSuffix tm = [] := by
  simp [termSuffix, h]

/-- what `langDt` stores in the rule, and the suffix the specification writes -/
theorem langDt_cases (om : TermMap) (ho : ObjOK om = true) :
    (langDt om = (none, none, []) ∧ termSuffix om = []) ∨
    (∃ l, langDt om = (some .languageMap, some .constant, l) ∧ PlainStr l = true ∧ termSuffix om = ['@'] ++ l) ∨
    (∃ d, langDt om = (some .datatypeMap, some .constant, d) ∧ PlainStr d = true ∧
      termSuffix om = ['^', '^'] ++ wrapTerm (some .iri) d) := by
  simp only [ObjOK, Bool.and_eq_true] at ho
  obtain ⟨_, ho⟩ := ho
  unfold langDt termSuffix
  cases hl : om.lang with
  | some l =>
    simp only [hl, Bool.and_eq_true, beq_iff_eq] at ho
    exact .inr (.inl ⟨l, rfl, ho.1, by simp [ho.2]⟩)
  | none =>
    cases hd : om.datatype with
    | none => exact .inl ⟨rfl, by cases om.termType <;> rfl⟩
    | some d =>
      simp only [hl, hd, Bool.or_eq_true, beq_iff_eq, Bool.and_eq_true] at ho
      by_cases hx : d = xsdNs ++ "string".toList
      · exact .inl ⟨by simp [hx], by cases om.termType <;> simp [hx]⟩
      · rcases ho with ho | ho
        · exact absurd ho hx
        · exact .inr (.inr ⟨d, by simp only [if_neg hx], ho.1, by simp only [ho.2, if_neg hx, wrapTerm]; simp⟩)

/-- `rowTriple` on a rule built by `ruleOf`, given the four terms -/
theorem rowTriple_ruleOf (env : Env) (tm : TriplesMap) (pm om : TermMap) (g : MapType × Str) (σ : SRow)
    (S P O G : Str) (ho' : ObjOK om = true)
    (hs : materializeTemplate env.cfg (mapOf tm.subject).1 (mapOf tm.subject).2 (some tm.subject.termType) [] []
            (fun c => lookup c σ) = .ok S)
    (hp : materializeTemplate env.cfg (mapOf pm).1 (mapOf pm).2 (some .iri) [] [] (fun c => lookup c σ) = .ok P)
    (ho : ∀ dt, materializeTemplate env.cfg (mapOf om).1 (mapOf om).2 (some om.termType) dt []
            (fun c => lookup c σ) = .ok O)
    (hg : g.2 ≠ env.defaultGraph → materializeTemplate env.cfg g.1 g.2 (some .iri) [] [] (fun c => lookup c σ) = .ok G) :
    rowTriple env (ruleOf tm pm om g) (mapOf om).1 (mapOf om).2 [] σ =
      .ok (match env.fmt with
        | .ntriples => S ++ [' '] ++ P ++ [' '] ++ (O ++ termSuffix om)
        | .nquads => S ++ [' '] ++ P ++ [' '] ++ (O ++ termSuffix om) ++ [' '] ++
            (if g.2 ≠ env.defaultGraph then G else [])) := by
  unfold rowTriple
  rcases langDt_cases om ho' with ⟨h, hsx⟩ | ⟨l, h, hl, hsx⟩ | ⟨d, h, hl, hsx⟩
  · cases hf : env.fmt <;> by_cases hd : g.2 = env.defaultGraph <;>
      simp [ruleOf, baseRule_eq, litDatatype, hs, hp, ho, bind, Except.bind, h, hsx, hd, pure, Except.pure, hg]
  · cases hf : env.fmt <;> by_cases hd : g.2 = env.defaultGraph <;>
      simp [ruleOf, baseRule_eq, litDatatype, hs, hp, ho, bind, Except.bind, h, hsx, hd, pure, Except.pure, hg,
        materializeTemplate_constant env.cfg l hl, wrapTerm]
  · cases hf : env.fmt <;> by_cases hd : g.2 = env.defaultGraph <;>
      simp [ruleOf, baseRule_eq, litDatatype, hs, hp, ho, bind, Except.bind, h, hsx, hd, pure, Except.pure, hg,
        materializeTemplate_constant env.cfg d hl, wrapTerm]

/-! ### the specification side for one (subject, predicate, object, graph) combination -/

theorem stmtsFor_some {senv : SEnv} {doc : Doc} {tm : TriplesMap} {ρ : Row} {gs : List TermMap} {pm om : TermMap}
    {s pt ot : Str} (hs : genTerm senv.safe senv.na tm.subject ρ = some s) (hp : genTerm senv.safe senv.na pm ρ = some pt)
    (ho : genTerm senv.safe senv.na om ρ = some ot) :
    stmtsFor senv doc tm ρ gs pm (.term om) = (graphTerms senv gs ρ).map fun g => renderStmt senv.fmt s pt ot g := by
  simp [stmtsFor, hs, hp, ho]

theorem stmtsFor_null {senv : SEnv} {doc : Doc} {tm : TriplesMap} {ρ : Row} {gs : List TermMap} {pm om : TermMap}
    (h : genTerm senv.safe senv.na tm.subject ρ = none ∨ genTerm senv.safe senv.na pm ρ = none ∨
         genTerm senv.safe senv.na om ρ = none ∨ graphTerms senv gs ρ = []) :
    stmtsFor senv doc tm ρ gs pm (.term om) = [] := by
  unfold stmtsFor
  rcases h with h | h | h | h
  · simp [h]
  · rw [h]; split <;> simp_all
  · split
    · simp [h]
    · rfl
  · split
    · simp [h]
    · rfl

theorem graphTerms_single (senv : SEnv) (gm : TermMap) (ρ : Row) :
    graphTerms senv [gm] ρ =
      if isDefaultGraph senv.defaultGraph gm = true then [[]] else (genTerm senv.safe senv.na gm ρ).toList := by
  unfold graphTerms
  simp only [List.cons_ne_self, ↓reduceIte, List.filterMap_cons, List.filterMap_nil]
  by_cases h : isDefaultGraph senv.defaultGraph gm = true
  · simp [h]
  · simp only [h, Bool.false_eq_true, ↓reduceIte]
    cases genTerm senv.safe senv.na gm ρ <;> rfl

theorem isDefaultGraph_iff {dg : Str} {gm : TermMap} (h : GraphOK dg gm = true) :
    isDefaultGraph dg gm = true ↔ (mapOf gm).2 = dg := by
  simp only [GraphOK, Bool.and_eq_true, Bool.or_eq_true, beq_iff_eq, bne_iff_ne, ne_eq] at h
  unfold isDefaultGraph
  rcases h.2 with hk | hk
  · simp [mapOf, hk]
  · constructor
    · intro h'
      simp only [Bool.and_eq_true, decide_eq_true_eq] at h'
      simp [mapOf, h'.1, h'.2] at hk
    · intro h'; exact absurd h' hk

/-- hypotheses on the four term maps of a rule -/
structure RuleOK (dg : Str) (tm : TriplesMap) (pm om gm : TermMap) : Prop where
  subj : SubjOK tm.subject = true
  pred : PredOK pm = true
  obj : ObjOK om = true
  graph : GraphOK dg gm = true

theorem RuleOK.wf {dg : Str} {tm : TriplesMap} {pm om gm : TermMap} (h : RuleOK dg tm pm om gm) :
    WFTermMap tm.subject = true ∧ WFTermMap pm = true ∧ WFTermMap om = true ∧ WFTermMap gm = true := by
  have h1 := h.subj; have h2 := h.pred; have h3 := h.obj; have h4 := h.graph
  simp only [SubjOK, PredOK, ObjOK, GraphOK, Bool.and_eq_true] at h1 h2 h3 h4
  exact ⟨h1.1, h2.1, h3.1, h4.1.1⟩

/-- **One row, all references non-null**: the engine's line is the single statement the rules prescribe. -/
theorem row_refines_good {env : Env} {senv : SEnv} (henv : EnvOK env senv) (doc : Doc) (tm : TriplesMap)
    (pm om gm : TermMap) (hr : RuleOK senv.defaultGraph tm pm om gm) (ρ : Row) (σ : SRow)
    (hσ : ∀ c ∈ refsOfRule (ruleOf tm pm om (mapOf gm)), lookup c σ = some (cellStr ρ c))
    (hval : ∀ c ∈ refsOfRule (ruleOf tm pm om (mapOf gm)), valueOf senv.na ρ c = some (cellStr ρ c)) :
    ∃ L, rowTriple env (ruleOf tm pm om (mapOf gm)) (mapOf om).1 (mapOf om).2 [] σ = .ok L ∧
      stmtsFor senv doc tm ρ [gm] pm (.term om) = [L] := by
  obtain ⟨ws, wp, wo, wg⟩ := hr.wf
  rw [refsOfRule_ruleOf tm pm om gm ws wp wo wg] at hσ hval
  simp only [List.mem_append] at hσ hval
  obtain ⟨vs, hvs, hms⟩ := term_refines henv.cfg senv.na tm.subject ws [] ρ (fun c => lookup c σ) (cellStr ρ)
    (fun c hc => hσ c (.inl (.inl (.inl hc)))) (fun c hc => hval c (.inl (.inl (.inl hc))))
  obtain ⟨vp, hvp, hmp⟩ := term_refines henv.cfg senv.na pm wp [] ρ (fun c => lookup c σ) (cellStr ρ)
    (fun c hc => hσ c (.inl (.inl (.inr hc)))) (fun c hc => hval c (.inl (.inl (.inr hc))))
  have hmo : ∀ dt, ∃ vo, genValue senv.safe senv.na om ρ = some vo ∧ _ := fun dt =>
    term_refines henv.cfg senv.na om wo dt ρ (fun c => lookup c σ) (cellStr ρ)
      (fun c hc => hσ c (.inl (.inr hc))) (fun c hc => hval c (.inl (.inr hc)))
  obtain ⟨vo, hvo, _⟩ := hmo []
  have hmo' : ∀ dt, materializeTemplate env.cfg (mapOf om).1 (mapOf om).2 (some om.termType) dt []
      (fun c => lookup c σ) = .ok (wrapTerm (some om.termType) (lexOf om.termType vo)) := by
    intro dt
    obtain ⟨vo', hvo', h⟩ := hmo dt
    rw [hvo] at hvo'
    cases hvo'
    exact h
  obtain ⟨vg, hvg, hmg⟩ := term_refines henv.cfg senv.na gm wg [] ρ (fun c => lookup c σ) (cellStr ρ)
    (fun c hc => hσ c (.inr hc)) (fun c hc => hval c (.inr hc))
  have hpi : pm.termType = .iri := by
    have := hr.pred; simp only [PredOK, Bool.and_eq_true, beq_iff_eq] at this; exact this.2
  have hgi : gm.termType = .iri := by
    have := hr.graph; simp only [GraphOK, Bool.and_eq_true, beq_iff_eq] at this; exact this.1.2
  have hss : termSuffix tm.subject = [] := by
    have := hr.subj; simp only [SubjOK, Bool.and_eq_true, List.isEmpty_iff] at this; exact this.2
  rw [hpi] at hmp
  rw [hgi] at hmg
  have hrt := rowTriple_ruleOf env tm pm om (mapOf gm) σ _ _ _ _ hr.obj hms hmp hmo' (fun _ => hmg)
  refine ⟨_, hrt, ?_⟩
  -- the specification side
  have gs : genTerm senv.safe senv.na tm.subject ρ = some (wrapTerm (some tm.subject.termType) (lexOf tm.subject.termType vs)) := by
    simp [genTerm, hvs, renderTerm_eq, hss]
  have gp : genTerm senv.safe senv.na pm ρ = some (wrapTerm (some .iri) (lexOf .iri vp)) := by
    simp [genTerm, hvp, renderTerm_eq, termSuffix_iri hpi, hpi]
  have go : genTerm senv.safe senv.na om ρ = some (wrapTerm (some om.termType) (lexOf om.termType vo) ++ termSuffix om) := by
    simp [genTerm, hvo, renderTerm_eq]
  have gg : genTerm senv.safe senv.na gm ρ = some (wrapTerm (some .iri) (lexOf .iri vg)) := by
    simp [genTerm, hvg, renderTerm_eq, termSuffix_iri hgi, hgi]
  rw [stmtsFor_some gs gp go, graphTerms_single, gg]
  have hdg := isDefaultGraph_iff hr.graph
  rw [← henv.fmt, ← henv.dg]
  rw [← henv.dg] at hdg
  by_cases hd : (mapOf gm).2 = env.defaultGraph
  · have := hdg.mpr hd
    cases hf : env.fmt <;> simp [this, hd, renderStmt]
  · have : ¬ isDefaultGraph env.defaultGraph gm = true := fun h => hd (hdg.mp h)
    cases hf : env.fmt <;> simp [this, hd, renderStmt]

/-- **One row with a null reference**: the rules prescribe nothing. -/
theorem row_refines_null {senv : SEnv} (doc : Doc) (tm : TriplesMap) (pm om gm : TermMap)
    (hr : RuleOK senv.defaultGraph tm pm om gm) (ρ : Row)
    (hex : ∃ c ∈ refsOfRule (ruleOf tm pm om (mapOf gm)), valueOf senv.na ρ c = none) :
    stmtsFor senv doc tm ρ [gm] pm (.term om) = [] := by
  obtain ⟨ws, wp, wo, wg⟩ := hr.wf
  rw [refsOfRule_ruleOf tm pm om gm ws wp wo wg] at hex
  obtain ⟨c, hc, hv⟩ := hex
  simp only [List.mem_append] at hc
  apply stmtsFor_null
  rcases hc with ((hc | hc) | hc) | hc
  · exact .inl (by simp [genTerm, genValue_none _ _ _ _ ⟨c, hc, hv⟩])
  · exact .inr (.inl (by simp [genTerm, genValue_none _ _ _ _ ⟨c, hc, hv⟩]))
  · exact .inr (.inr (.inl (by simp [genTerm, genValue_none _ _ _ _ ⟨c, hc, hv⟩])))
  · refine .inr (.inr (.inr ?_))
    rw [graphTerms_single]
    have hnd : ¬ isDefaultGraph senv.defaultGraph gm = true := by
      intro h
      simp only [isDefaultGraph, Bool.and_eq_true, decide_eq_true_eq] at h
      simp [tmRefs, h.1] at hc
    simp [hnd, genTerm, genValue_none _ _ _ _ ⟨c, hc, hv⟩]

/-! ### one rule: no statement missing, no other statement -/

theorem mapOf_ne_parentTM (tm : TermMap) : (mapOf tm).1 ≠ .parentTM := by
  unfold mapOf; cases tm.kind <;> simp

theorem table_ruleOf {env : Env} {senv : SEnv} (henv : EnvOK env senv) (tm : TriplesMap) (pm om : TermMap)
    (g : MapType × Str) : env.table (ruleOf tm pm om g) = senv.table tm := by
  unfold Env.table SEnv.table
  rw [henv.tables]
  rfl

theorem evalRule_plain_eq' (env : Env) (rules : List Rule) (r : Rule) (hc : isAllConstant r = false)
    (hp : r.objectMapType ≠ .parentTM) (hcomp : Complete (refsOfRule r) (env.table r) = true) :
    evalRule env rules r =
      (prepRows env.na (refsOfRule r) (env.table r)).mapM (rowTriple env r r.objectMapType r.objectMapValue []) := by
  rw [evalRule_plain_eq env rules r hc hp, preprocess_eq _ _ _ hcomp]
  rfl

theorem refsOfRule_allConstant (tm : TriplesMap) (pm om : TermMap) (g : MapType × Str)
    (h : isAllConstant (ruleOf tm pm om g) = true) : refsOfRule (ruleOf tm pm om g) = [] := by
  simp only [isAllConstant, ruleOf, baseRule_eq, Bool.and_eq_true] at h
  obtain ⟨⟨⟨h1, h2⟩, h3⟩, h4⟩ := h
  have h1 := of_decide_eq_true h1
  have h2 := of_decide_eq_true h2
  have h3 := of_decide_eq_true h3
  have h4 := of_decide_eq_true h4
  simp only [refsOfRule, ruleOf, baseRule_eq, Bool.false_eq_true, ↓reduceIte, h1, h2, h3, h4, refsOfMap,
    List.map_nil, List.append_nil, List.nil_append]
  rcases langDt_mt om with h | h <;> simp [h]

/-- **One rule.** For a rule built from term maps of the fragment, over a complete table without raw nulls, the engine does
    not raise and emits exactly the statements the generation rules prescribe for this subject/predicate/object/graph
    combination.  (`hF4`: an all-constant rule is evaluated once, whatever the table: finding C01_F4.) -/
theorem rule_refinement {env : Env} {senv : SEnv} (henv : EnvOK env senv) (doc : Doc) (rules : List Rule)
    (tm : TriplesMap) (pm om gm : TermMap) (hr : RuleOK senv.defaultGraph tm pm om gm)
    (hcomp : Complete (refsOfRule (ruleOf tm pm om (mapOf gm))) (senv.table tm) = true)
    (hnn : NoRawNulls (senv.table tm) = true)
    (hF4 : isAllConstant (ruleOf tm pm om (mapOf gm)) = true → senv.table tm ≠ []) :
    ∃ lines, evalRule env rules (ruleOf tm pm om (mapOf gm)) = .ok lines ∧
      ∀ line, line ∈ lines ↔ ∃ ρ ∈ senv.table tm, line ∈ stmtsFor senv doc tm ρ [gm] pm (.term om) := by
  have htab := table_ruleOf henv tm pm om (mapOf gm)
  by_cases hac : isAllConstant (ruleOf tm pm om (mapOf gm)) = true
  · have hrefs := refsOfRule_allConstant tm pm om (mapOf gm) hac
    obtain ⟨ρ0, hρ0⟩ := List.exists_mem_of_ne_nil _ (hF4 hac)
    have hrow : ∀ ρ, ∃ L, rowTriple env (ruleOf tm pm om (mapOf gm)) (mapOf om).1 (mapOf om).2 [] [] = .ok L ∧
        stmtsFor senv doc tm ρ [gm] pm (.term om) = [L] := fun ρ =>
      row_refines_good henv doc tm pm om gm hr ρ [] (by simp [hrefs]) (by simp [hrefs])
    obtain ⟨L, hL, hst⟩ := hrow ρ0
    refine ⟨[L], ?_, fun line => ?_⟩
    · unfold evalRule
      simp only [hac, ↓reduceIte]
      have : (ruleOf tm pm om (mapOf gm)).objectMapType = (mapOf om).1 ∧
          (ruleOf tm pm om (mapOf gm)).objectMapValue = (mapOf om).2 := ⟨rfl, rfl⟩
      rw [this.1, this.2, hL]
      rfl
    · constructor
      · intro h
        exact ⟨ρ0, hρ0, by rw [hst]; exact h⟩
      · rintro ⟨ρ, _, hl⟩
        obtain ⟨L', hL', hst'⟩ := hrow ρ
        rw [hL] at hL'
        cases hL'
        rw [hst'] at hl
        exact hl
  · have hac' : isAllConstant (ruleOf tm pm om (mapOf gm)) = false := by simpa using hac
    have hp : (ruleOf tm pm om (mapOf gm)).objectMapType ≠ .parentTM := mapOf_ne_parentTM om
    have hcomp' : Complete (refsOfRule (ruleOf tm pm om (mapOf gm))) (env.table (ruleOf tm pm om (mapOf gm))) = true := by
      rw [htab]; exact hcomp
    simp only [Complete, List.all_eq_true] at hcomp
    simp only [NoRawNulls] at hnn
    have hvalue : ∀ ρ ∈ senv.table tm, ∀ c ∈ refsOfRule (ruleOf tm pm om (mapOf gm)),
        valueOf senv.na ρ c = if cellStr ρ c ∈ senv.na then none else some (cellStr ρ c) := fun ρ hρ c hc =>
      valueOf_eq senv.na ρ c (hcomp ρ hρ c hc) (List.all_eq_true.mp hnn ρ hρ)
    have hgood : ∀ ρ ∈ senv.table tm, (∀ c ∈ refsOfRule (ruleOf tm pm om (mapOf gm)), cellStr ρ c ∉ env.na) →
        ∃ L, rowTriple env (ruleOf tm pm om (mapOf gm)) (mapOf om).1 (mapOf om).2 []
              (projRow (dedupFirst (refsOfRule (ruleOf tm pm om (mapOf gm)))) ρ) = .ok L ∧
          stmtsFor senv doc tm ρ [gm] pm (.term om) = [L] := by
      intro ρ hρ hg
      apply row_refines_good henv doc tm pm om gm hr ρ
      · intro c hc
        rw [lookup_projRow]
        simp [hc]
      · intro c hc
        rw [hvalue ρ hρ c hc]
        have := hg c hc
        rw [henv.na] at this
        simp [this]
    have hbad : ∀ ρ ∈ senv.table tm, ¬ (∀ c ∈ refsOfRule (ruleOf tm pm om (mapOf gm)), cellStr ρ c ∉ env.na) →
        stmtsFor senv doc tm ρ [gm] pm (.term om) = [] := by
      intro ρ hρ hg
      apply row_refines_null doc tm pm om gm hr ρ
      have hex : ∃ c, c ∈ refsOfRule (ruleOf tm pm om (mapOf gm)) ∧ cellStr ρ c ∈ env.na := by
        apply Classical.byContradiction
        intro hne
        exact hg fun c hc hna => hne ⟨c, hc, hna⟩
      obtain ⟨c, hc, hna⟩ := hex
      refine ⟨c, hc, ?_⟩
      rw [hvalue ρ hρ c hc]
      rw [henv.na] at hna
      simp [hna]
    obtain ⟨lines, hlines⟩ : ∃ lines, evalRule env rules (ruleOf tm pm om (mapOf gm)) = .ok lines := by
      rw [evalRule_plain_eq' env rules _ hac' hp hcomp']
      apply mapM_ok_of_forall_exists
      intro σ hσ
      obtain ⟨ρ, hρ, rfl, hall⟩ := (mem_prepRows _ _ _ _).mp hσ
      obtain ⟨L, hL, _⟩ := hgood ρ (htab ▸ hρ) hall
      exact ⟨L, hL⟩
    refine ⟨lines, hlines, fun line => ?_⟩
    rw [mem_evalRule_plain env rules _ hac' hp hcomp' lines hlines line, htab]
    constructor
    · rintro ⟨ρ, hρ, hall, hrt⟩
      obtain ⟨L, hL, hst⟩ := hgood ρ hρ hall
      have : (ruleOf tm pm om (mapOf gm)).objectMapType = (mapOf om).1 ∧
          (ruleOf tm pm om (mapOf gm)).objectMapValue = (mapOf om).2 := ⟨rfl, rfl⟩
      rw [this.1, this.2, hL] at hrt
      cases hrt
      exact ⟨ρ, hρ, by rw [hst]; simp⟩
    · rintro ⟨ρ, hρ, hl⟩
      by_cases hall : ∀ c ∈ refsOfRule (ruleOf tm pm om (mapOf gm)), cellStr ρ c ∉ env.na
      · obtain ⟨L, hL, hst⟩ := hgood ρ hρ hall
        rw [hst] at hl
        simp only [List.mem_singleton] at hl
        subst hl
        exact ⟨ρ, hρ, hall, hL⟩
      · rw [hbad ρ hρ hall] at hl
        simp at hl

/-! ### documents: the rule table vs. the loops of the generation rules -/

/-- the graph map that `rr:defaultGraph` stands for -/
def defaultGm (senv : SEnv) : TermMap := { kind := .constant, value := senv.defaultGraph, termType := .iri }

/-- the graph maps in force: no graph map at all means the default graph -/
def effGraphs (senv : SEnv) (gs : List TermMap) : List TermMap := if gs = [] then [defaultGm senv] else gs

/-- the object map of a class declaration -/
def classObjTm (c : Str) : TermMap := { kind := .constant, value := c, termType := .iri }

theorem classObj_eq (c : Str) : classObj c = .term (classObjTm c) := rfl

/-- the (predicate map, object map, graph map) combinations of a triples map -/
def Combo (senv : SEnv) (tm : TriplesMap) (pm om gm : TermMap) : Prop :=
  (∃ c ∈ tm.classes, pm = classPred senv ∧ om = classObjTm c ∧ gm ∈ effGraphs senv tm.graphs) ∨
  (∃ pom ∈ tm.poms, pm ∈ pom.predicates ∧ ObjMap.term om ∈ pom.objects ∧ gm ∈ effGraphs senv (tm.graphs ++ pom.graphs))

theorem mem_graphTerms (senv : SEnv) (gs : List TermMap) (ρ : Row) (g : Str) :
    g ∈ graphTerms senv gs ρ ↔ ∃ gm ∈ effGraphs senv gs, g ∈ graphTerms senv [gm] ρ := by
  by_cases hgs : gs = []
  · subst hgs
    have : isDefaultGraph senv.defaultGraph (defaultGm senv) = true := by simp [isDefaultGraph, defaultGm]
    simp [effGraphs, this, graphTerms]
  · simp only [effGraphs, hgs, ↓reduceIte]
    unfold graphTerms
    simp only [hgs, ↓reduceIte, List.mem_filterMap, List.cons_ne_self, List.filterMap_cons, List.filterMap_nil]
    constructor
    · rintro ⟨gm, hgm, h⟩
      refine ⟨gm, hgm, ?_⟩
      rw [h]; simp
    · rintro ⟨gm, hgm, h⟩
      refine ⟨gm, hgm, ?_⟩
      split at h <;> simp_all

theorem mem_stmtsFor_graphs (senv : SEnv) (doc : Doc) (tm : TriplesMap) (ρ : Row) (gs : List TermMap)
    (pm om : TermMap) (line : Str) :
    line ∈ stmtsFor senv doc tm ρ gs pm (.term om) ↔
      ∃ gm ∈ effGraphs senv gs, line ∈ stmtsFor senv doc tm ρ [gm] pm (.term om) := by
  unfold stmtsFor
  split
  · simp only [List.mem_flatMap, List.mem_map, mem_graphTerms senv gs ρ]
    constructor
    · rintro ⟨ot, hot, g, ⟨gm, hgm, hg⟩, rfl⟩
      exact ⟨gm, hgm, ot, hot, g, hg, rfl⟩
    · rintro ⟨gm, hgm, ot, hot, g, hg, rfl⟩
      exact ⟨ot, hot, g, ⟨gm, hgm, hg⟩, rfl⟩
  · simp

/-- documents without referencing object maps -/
def NoRefObj (doc : Doc) : Bool :=
  doc.tms.all fun tm => tm.poms.all fun pom => pom.objects.all fun o => match o with | .term _ => true | .ref _ _ => false

theorem NoRefObj_term {doc : Doc} (h : NoRefObj doc = true) {tm : TriplesMap} (htm : tm ∈ doc.tms) {pom : Pom}
    (hpom : pom ∈ tm.poms) {o : ObjMap} (ho : o ∈ pom.objects) : ∃ om, o = .term om := by
  simp only [NoRefObj, List.all_eq_true] at h
  have := h tm htm pom hpom o ho
  cases o with
  | term om => exact ⟨om, rfl⟩
  | ref _ _ => simp at this

/-- the statements of a document, by combination -/
theorem mem_evalDoc (senv : SEnv) (doc : Doc) (hnr : NoRefObj doc = true) (line : Str) :
    line ∈ evalDoc senv doc ↔
      ∃ tm ∈ doc.tms, ∃ pm om gm, Combo senv tm pm om gm ∧
        ∃ ρ ∈ senv.table tm, line ∈ stmtsFor senv doc tm ρ [gm] pm (.term om) := by
  unfold evalDoc
  simp only [List.mem_flatMap, List.mem_append]
  constructor
  · rintro ⟨tm, htm, ρ, hρ, h⟩
    refine ⟨tm, htm, ?_⟩
    rcases h with ⟨c, hc, hl⟩ | ⟨pom, hpom, p, hp, o, ho, hl⟩
    · rw [classObj_eq, mem_stmtsFor_graphs] at hl
      obtain ⟨gm, hgm, hl⟩ := hl
      exact ⟨_, _, gm, .inl ⟨c, hc, rfl, rfl, hgm⟩, ρ, hρ, hl⟩
    · obtain ⟨om, rfl⟩ := NoRefObj_term hnr htm hpom ho
      rw [mem_stmtsFor_graphs] at hl
      obtain ⟨gm, hgm, hl⟩ := hl
      exact ⟨p, om, gm, .inr ⟨pom, hpom, hp, ho, hgm⟩, ρ, hρ, hl⟩
  · rintro ⟨tm, htm, pm, om, gm, hcombo, ρ, hρ, hl⟩
    refine ⟨tm, htm, ρ, hρ, ?_⟩
    rcases hcombo with ⟨c, hc, rfl, rfl, hgm⟩ | ⟨pom, hpom, hp, ho, hgm⟩
    · exact .inl ⟨c, hc, by rw [classObj_eq, mem_stmtsFor_graphs]; exact ⟨gm, hgm, hl⟩⟩
    · exact .inr ⟨pom, hpom, pm, hp, _, ho, by rw [mem_stmtsFor_graphs]; exact ⟨gm, hgm, hl⟩⟩

/-- the specification's and the engine's names for the default graph and `rdf:type` coincide -/
structure NamesOK (senv : SEnv) : Prop where
  dg : senv.defaultGraph = defaultGraphIri
  ty : senv.rdfType = rdfTypeIri

theorem mem_pomGraphs {senv : SEnv} (hn : NamesOK senv) (tm : TriplesMap) (own : List TermMap) (g : MapType × Str) :
    g ∈ pomGraphs tm own ↔ ∃ gm ∈ effGraphs senv (tm.graphs ++ own), g = mapOf gm := by
  unfold pomGraphs effGraphs
  by_cases hgs : tm.graphs ++ own = []
  · simp [hgs, defaultGm, mapOf, hn.dg]
  · have : (tm.graphs ++ own).map mapOf ≠ [] := by simpa using hgs
    simp only [this, hgs, ↓reduceIte, mem_dedupFirst, List.mem_map]
    constructor
    · rintro ⟨gm, h, rfl⟩; exact ⟨gm, h, rfl⟩
    · rintro ⟨gm, h, rfl⟩; exact ⟨gm, h, rfl⟩

theorem ruleOf_asserted (tm : TriplesMap) (pm om : TermMap) (g : MapType × Str) : (ruleOf tm pm om g).asserted = true := rfl

theorem ruleOf_objectMapType (tm : TriplesMap) (pm om : TermMap) (g : MapType × Str) :
    (ruleOf tm pm om g).objectMapType = (mapOf om).1 := rfl

/-- the predicate map of a class declaration, with the engine's spelling of `rdf:type` -/
def classPredTm : TermMap := { kind := .constant, value := rdfTypeIri, termType := .iri }

/-- the flat rule of one (predicate map, object map, graph) combination of a predicate-object map -/
def pomRule (doc : Doc) (tm : TriplesMap) (p : TermMap) (o : ObjMap) (g : MapType × Str) : Rule :=
  match o with
  | .term om => ruleOf tm p om g
  | .ref parent conds =>
    { baseRule tm with
      predicateMapType := (mapOf p).1, predicateMapValue := (mapOf p).2,
      objectMapType := .parentTM, objectMapValue := parent,
      objectTermtype := (match doc.tms.find? (fun t => t.id = parent) with | some ptm => ptm.subject.termType | none => .iri),
      objectJoin := conds, graphMapType := g.1, graphMapValue := g.2 }

/-- `rulesOfTm` in terms of `ruleOf` -/
theorem rulesOfTm_eq (doc : Doc) (tm : TriplesMap) :
    rulesOfTm doc tm =
      if (tm.classes.flatMap fun c => (pomGraphs tm []).map fun g => ruleOf tm classPredTm (classObjTm c) g) ++
         (tm.poms.flatMap fun pom => pom.predicates.flatMap fun p => pom.objects.flatMap fun o =>
            (pomGraphs tm pom.graphs).map fun g => pomRule doc tm p o g) = []
      then [{ baseRule tm with asserted := false }]
      else
        (tm.classes.flatMap fun c => (pomGraphs tm []).map fun g => ruleOf tm classPredTm (classObjTm c) g) ++
         (tm.poms.flatMap fun pom => pom.predicates.flatMap fun p => pom.objects.flatMap fun o =>
            (pomGraphs tm pom.graphs).map fun g => pomRule doc tm p o g) := by
  rfl

/-- the asserted rules of a triples map are the rules of its combinations -/
theorem mem_rulesOfTm {senv : SEnv} (hn : NamesOK senv) (doc : Doc) (hnr : NoRefObj doc = true) (tm : TriplesMap)
    (htm : tm ∈ doc.tms) (r : Rule) :
    (r ∈ rulesOfTm doc tm ∧ r.asserted = true) ↔
      ∃ pm om gm, Combo senv tm pm om gm ∧ r = ruleOf tm pm om (mapOf gm) := by
  have hcp : classPred senv = classPredTm := by simp [classPred, classPredTm, hn.ty]
  -- the two families of rules
  have hclass : ∀ r, r ∈ (tm.classes.flatMap fun c => (pomGraphs tm []).map fun g => ruleOf tm classPredTm (classObjTm c) g) ↔
      ∃ c ∈ tm.classes, ∃ gm ∈ effGraphs senv tm.graphs, r = ruleOf tm (classPred senv) (classObjTm c) (mapOf gm) := by
    intro r
    simp only [List.mem_flatMap, List.mem_map, mem_pomGraphs hn, List.append_nil, hcp]
    constructor
    · rintro ⟨c, hc, g, ⟨gm, hgm, rfl⟩, rfl⟩
      exact ⟨c, hc, gm, hgm, rfl⟩
    · rintro ⟨c, hc, gm, hgm, rfl⟩
      exact ⟨c, hc, _, ⟨gm, hgm, rfl⟩, rfl⟩
  have hpomR : ∀ r, r ∈ (tm.poms.flatMap fun pom => pom.predicates.flatMap fun p => pom.objects.flatMap fun o =>
            (pomGraphs tm pom.graphs).map fun g => pomRule doc tm p o g) ↔
      ∃ pom ∈ tm.poms, ∃ p ∈ pom.predicates, ∃ om, ObjMap.term om ∈ pom.objects ∧
        ∃ gm ∈ effGraphs senv (tm.graphs ++ pom.graphs), r = ruleOf tm p om (mapOf gm) := by
    intro r
    simp only [List.mem_flatMap, List.mem_map, mem_pomGraphs hn]
    constructor
    · rintro ⟨pom, hpom, p, hp, o, ho, g, ⟨gm, hgm, rfl⟩, rfl⟩
      obtain ⟨om, rfl⟩ := NoRefObj_term hnr htm hpom ho
      exact ⟨pom, hpom, p, hp, om, ho, gm, hgm, rfl⟩
    · rintro ⟨pom, hpom, p, hp, om, ho, gm, hgm, rfl⟩
      exact ⟨pom, hpom, p, hp, _, ho, _, ⟨gm, hgm, rfl⟩, rfl⟩
  rw [rulesOfTm_eq]
  split
  · rename_i hnil
    constructor
    · rintro ⟨hr, ha⟩
      simp only [List.mem_singleton] at hr
      subst hr
      simp at ha
    · rintro ⟨pm, om, gm, hcombo, rfl⟩
      exfalso
      have : ruleOf tm pm om (mapOf gm) ∈ ([] : List Rule) := by
        rw [← hnil, List.mem_append]
        rcases hcombo with ⟨c, hc, rfl, rfl, hgm⟩ | ⟨pom, hpom, hp, ho, hgm⟩
        · exact .inl ((hclass _).mpr ⟨c, hc, gm, hgm, rfl⟩)
        · exact .inr ((hpomR _).mpr ⟨pom, hpom, pm, hp, om, ho, gm, hgm, rfl⟩)
      simp at this
  · rw [List.mem_append, hclass, hpomR]
    constructor
    · rintro ⟨h | h, _⟩
      · obtain ⟨c, hc, gm, hgm, rfl⟩ := h
        exact ⟨_, _, gm, .inl ⟨c, hc, rfl, rfl, hgm⟩, rfl⟩
      · obtain ⟨pom, hpom, p, hp, om, ho, gm, hgm, rfl⟩ := h
        exact ⟨p, om, gm, .inr ⟨pom, hpom, hp, ho, hgm⟩, rfl⟩
    · rintro ⟨pm, om, gm, hcombo, rfl⟩
      refine ⟨?_, rfl⟩
      rcases hcombo with ⟨c, hc, rfl, rfl, hgm⟩ | ⟨pom, hpom, hp, ho, hgm⟩
      · exact .inl ⟨c, hc, gm, hgm, rfl⟩
      · exact .inr ⟨pom, hpom, pm, hp, om, ho, gm, hgm, rfl⟩

end Model
