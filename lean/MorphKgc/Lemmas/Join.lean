/-
C07 helper lemmas (1): association-list rows, the two code paths of `_merge_data` against the shared `Model.mergeData`,
and `Model.mergeData` against the nested-loop join of the specification.
-/
import MorphKgc.Model.Join
import MorphKgc.Spec.Join
import MorphKgc.Lemmas.EvalRule

namespace Model
open Py Spec

/-! ### association lists -/

theorem lookup_append {β} (k : Str) (a b : List (Str × β)) :
    lookup k (a ++ b) = (lookup k a).or (lookup k b) := by
  induction a with
  | nil => simp [lookup]
  | cons x a ih =>
    obtain ⟨x1, x2⟩ := x
    simp only [List.cons_append, lookup]
    by_cases h : x1 = k
    · simp [h]
    · simp [h, ih]

theorem lookup_isSome_iff {β} (k : Str) (a : List (Str × β)) : (lookup k a).isSome = true ↔ k ∈ a.map (·.1) := by
  induction a with
  | nil => simp [lookup]
  | cons x a ih =>
    obtain ⟨x1, x2⟩ := x
    simp only [lookup, List.map_cons, List.mem_cons]
    by_cases h : x1 = k
    · simp [h]
    · have : ¬ k = x1 := fun e => h e.symm
      simp [h, this, ih]

theorem lookup_eq_none_iff {β} (k : Str) (a : List (Str × β)) : lookup k a = none ↔ k ∉ a.map (·.1) := by
  rw [← lookup_isSome_iff]
  cases lookup k a <;> simp

theorem lookup_prefixRow (p k : Str) (ρ : SRow) : lookup (p ++ k) (prefixRow p ρ) = lookup k ρ := by
  induction ρ with
  | nil => rfl
  | cons x ρ ih =>
    obtain ⟨x1, x2⟩ := x
    simp only [prefixRow, List.map_cons, lookup, List.append_cancel_left_eq]
    by_cases h : x1 = k
    · simp [h]
    · simp only [h, ↓reduceIte]
      exact ih

theorem keys_prefixRow (p : Str) (ρ : SRow) : (prefixRow p ρ).map (·.1) = (ρ.map (·.1)).map (p ++ ·) := by
  simp [prefixRow, List.map_map, Function.comp_def]

/-- lookup in a joined row: a child column is found in the child part -/
theorem lookup_joined_child (c : Str) (σc σp : SRow) (h : c ∈ σc.map (·.1)) :
    lookup c (σc ++ σp) = lookup c σc := by
  rw [lookup_append]
  have := (lookup_isSome_iff c σc).mpr h
  cases hl : lookup c σc with
  | none => simp [hl] at this
  | some v => rfl

/-- lookup in a joined row: a prefixed parent column that is no child column is found in the parent part -/
theorem lookup_joined_parent (p k : Str) (σc σp : SRow) (h : p ++ k ∉ σc.map (·.1)) :
    lookup (p ++ k) (σc ++ prefixRow p σp) = lookup k σp := by
  rw [lookup_append, (lookup_eq_none_iff _ _).mpr h, lookup_prefixRow]
  rfl

/-! ### `dedupFirst` -/

theorem foldl_dedup_of_mem {α} [BEq α] [LawfulBEq α] (m acc : List α) (h : ∀ x ∈ m, x ∈ acc) :
    m.foldl (fun acc x => if acc.elem x then acc else x :: acc) acc = acc := by
  induction m generalizing acc with
  | nil => rfl
  | cons y ys ih =>
    have hy : acc.elem y = true := by simpa using h y (by simp)
    rw [List.foldl_cons]
    simp only [hy, ↓reduceIte]
    exact ih acc fun x hx => h x (List.mem_cons_of_mem _ hx)

/-- appending elements that already occur does not change the de-duplicated list -/
theorem dedupFirst_append_of_subset {α} [BEq α] [LawfulBEq α] (l m : List α) (h : ∀ x ∈ m, x ∈ l) :
    dedupFirst (l ++ m) = dedupFirst l := by
  unfold dedupFirst
  rw [List.foldl_append, foldl_dedup_of_mem]
  intro x hx
  rw [mem_foldl_dedup]
  exact .inr (h x hx)

/-! ### the rows of `_preprocess_data` carry exactly the de-duplicated references as labels -/

theorem mapM_ok_map {α β γ ε} (f : α → Except ε β) (g : β → γ) (k : α → γ) (hfg : ∀ a b, f a = .ok b → g b = k a)
    (l : List α) (ys : List β) (h : l.mapM f = .ok ys) : ys.map g = l.map k := by
  induction l generalizing ys with
  | nil =>
    have : ys = [] := by simpa [pure, Except.pure] using h.symm
    simp [this]
  | cons a l ih =>
    rw [List.mapM_cons] at h
    cases hfa : f a with
    | error e => simp [hfa, bind, Except.bind] at h
    | ok b =>
      cases hl : l.mapM f with
      | error e => simp [hfa, hl, bind, Except.bind] at h
      | ok bs =>
        simp only [hfa, hl, bind, Except.bind, pure, Except.pure, Except.ok.injEq] at h
        subst h
        simp [ih bs hl, hfg a b hfa]

theorem projectRow_keys (refs : List Str) (ρ : Row) (σ : SRow) (h : projectRow refs ρ = .ok σ) : σ.map (·.1) = refs := by
  unfold projectRow at h
  have := mapM_ok_map _ (·.1) id (fun c b hb => by
    cases hl : lookup c ρ with
    | none => simp [hl] at hb
    | some cell => simp only [hl, Except.ok.injEq] at hb; subst hb; rfl) refs σ h
  simpa using this

theorem preprocess_keys (na refs : List Str) (t : Table) (rows : List SRow) (h : preprocess na refs t = .ok rows) :
    ∀ σ ∈ rows, σ.map (·.1) = dedupFirst refs := by
  unfold preprocess at h
  cases hm : t.mapM (projectRow (dedupFirst refs)) with
  | error e => simp [hm, bind, Except.bind] at h
  | ok rs =>
    simp only [hm, bind, Except.bind, pure, Except.pure, Except.ok.injEq] at h
    subst h
    intro σ hσ
    rw [mem_dedupFirst, List.mem_filter] at hσ
    obtain ⟨ρ, _, hρ⟩ := (mem_of_mapM_ok _ _ _ hm σ).mp hσ.1
    exact projectRow_keys _ _ _ hρ

theorem preprocess_append_of_subset (na refs extra : List Str) (t : Table) (h : ∀ x ∈ extra, x ∈ refs) :
    preprocess na (refs ++ extra) t = preprocess na refs t := by
  unfold preprocess
  rw [dedupFirst_append_of_subset refs extra h]

/-! ### `_merge_data`: both code paths compute `Model.mergeData` -/

/-- every row carries exactly the frame's labels -/
def Frame.RowsHave (f : Frame) : Prop := ∀ σ ∈ f.rows, σ.map (·.1) = f.cols

/-- no child label equals a prefixed parent label (otherwise: `ValueError` on the index path, suffixes on the merge path) -/
def NoClash (pfx : Str) (ccols pcols : List Str) : Prop := ∀ c ∈ ccols, ∀ k ∈ pcols, c ≠ pfx ++ k

theorem firstMissing_none {ks cols : List Str} (h : ∀ k ∈ ks, k ∈ cols) : firstMissing ks cols = none := by
  unfold firstMissing
  rw [List.find?_eq_none]
  intro k hk
  simp [h k hk]

/-- the condition under which `mergeData` keeps a pair, in terms of key-value lists -/
theorem keyVals_eq_iff (conds : List (Str × Str)) (pfx : Str) (a b : SRow)
    (ha : ∀ cp ∈ conds, cp.1 ∈ a.map (·.1)) :
    (keyVals (conds.map (·.1)) a == keyVals (conds.map fun cp => pfx ++ cp.2) (prefixRow pfx b)) =
      conds.all fun cp => lookup cp.1 a = lookup cp.2 b && (lookup cp.1 a).isSome := by
  induction conds with
  | nil => simp [keyVals]
  | cons cp conds ih =>
    have ih := ih fun cp' h => ha cp' (List.mem_cons_of_mem _ h)
    have hs := (lookup_isSome_iff cp.1 a).mpr (ha cp (by simp))
    simp only [keyVals, List.map_cons, List.all_cons, lookup_prefixRow] at ih ⊢
    rw [← ih]
    simp only [hs, Bool.and_true]
    rw [List.cons_beq_cons]
    congr 1
    cases lookup cp.1 a <;> cases lookup cp.2 b <;> simp
    rename_i v1 v2
    by_cases h : v1 = v2 <;> simp [h]

theorem flatMap_congr' {α β} {l : List α} {f g : α → List β} (h : ∀ a ∈ l, f a = g a) : l.flatMap f = l.flatMap g := by
  induction l with
  | nil => rfl
  | cons a l ih =>
    rw [List.flatMap_cons, List.flatMap_cons, h a (by simp), ih fun b hb => h b (List.mem_cons_of_mem _ hb)]

/-- `Model.mergeData` with the prefix as a parameter -/
def mergeDataP (pfx : Str) (child parent : List SRow) (conds : List (Str × Str)) : List SRow :=
  child.flatMap fun c =>
    (parent.filter fun p => conds.all fun cp => lookup cp.1 c = lookup cp.2 p && (lookup cp.1 c).isSome).map fun p =>
      c ++ prefixRow pfx p

theorem mergeData_eq_mergeDataP (child parent : List SRow) (conds : List (Str × Str)) :
    mergeData child parent conds = mergeDataP "parent_".toList child parent conds := rfl

/-- the shape of `_merge_data` the theorems are proved for, with the prefix as a parameter -/
structure MergeShape.Inner (sh : MergeShape) (pfx : Str) : Prop where
  addPrefix : sh.addPrefix = pfx
  refPrefix : sh.refPrefix = pfx
  indexPathLen : sh.indexPathLen = 1
  indexChildBy : sh.indexChildBy = .child
  indexParentBy : sh.indexParentBy = .parent
  indexDrop : sh.indexDrop = false
  joinHow : sh.joinHow = .inner
  mergeHow : sh.mergeHow = .inner
  mergeLeftOn : sh.mergeLeftOn = .child
  mergeRightOn : sh.mergeRightOn = .parent

theorem MergeShape.expected_inner : MergeShape.expected.Inner "parent_".toList :=
  ⟨rfl, rfl, rfl, rfl, rfl, rfl, rfl, rfl, rfl, rfl⟩

theorem mergeFrames_eq_mergeDataP (sh : MergeShape) (pfx : Str) (hsh : sh.Inner pfx) (data parent : Frame)
    (conds : List (Str × Str)) (hne : conds ≠ [])
    (hrows : data.RowsHave) (hc : ∀ cp ∈ conds, cp.1 ∈ data.cols) (hp : ∀ cp ∈ conds, cp.2 ∈ parent.cols)
    (hno : NoClash pfx data.cols parent.cols) :
    mergeFrames sh data parent conds =
      .ok ⟨data.cols ++ parent.cols.map (pfx ++ ·), mergeDataP pfx data.rows parent.rows conds⟩ := by
  have hcj : ∀ k ∈ conds.map (·.1), k ∈ data.cols := by
    intro k hk; obtain ⟨cp, hcp, rfl⟩ := List.mem_map.mp hk; exact hc cp hcp
  have hpj : ∀ k ∈ (conds.map fun cp => pfx ++ cp.2), k ∈ parent.cols.map (pfx ++ ·) := by
    intro k hk; obtain ⟨cp, hcp, rfl⟩ := List.mem_map.mp hk; exact List.mem_map.mpr ⟨cp.2, hp cp hcp, rfl⟩
  have hov : (data.cols.filter fun c => (parent.cols.map (pfx ++ ·)).contains c) = [] := by
    rw [List.filter_eq_nil_iff]
    intro c hcm
    simp only [List.contains_eq_mem, List.mem_map, decide_eq_true_eq, not_exists, not_and]
    intro k hk e
    exact hno c hcm k hk e.symm
  have hfilt : ∀ a ∈ data.rows,
      ((parent.rows.map (prefixRow pfx)).filter fun b =>
          keyVals (conds.map (·.1)) a == keyVals (conds.map fun cp => pfx ++ cp.2) b) =
        (parent.rows.filter fun p => conds.all fun cp => lookup cp.1 a = lookup cp.2 p && (lookup cp.1 a).isSome).map
          (prefixRow pfx) := by
    intro a ha
    rw [List.filter_map]
    congr 1
    apply List.filter_congr
    intro b _
    simp only [Function.comp]
    exact keyVals_eq_iff conds _ a b fun cp hcp => by rw [hrows a ha]; exact hc cp hcp
  unfold mergeFrames
  simp only [hsh.addPrefix, hsh.refPrefix, hsh.indexPathLen, hsh.indexChildBy, hsh.indexParentBy, hsh.indexDrop, hsh.joinHow,
    hsh.mergeHow, hsh.mergeLeftOn, hsh.mergeRightOn, pickSide, Frame.addPrefix]
  by_cases hlen : (conds.map (·.1)).length = 1
  · -- index path
    simp only [hlen, ↓reduceIte]
    unfold indexJoin
    simp only [firstMissing_none hcj, firstMissing_none hpj, Bool.false_eq_true, ↓reduceIte, hov, ne_eq, not_true_eq_false]
    congr 2
    unfold mergeDataP
    apply flatMap_congr'
    intro a ha
    rw [hfilt a ha, List.map_map]
    rfl
  · -- merge path
    simp only [hlen, ↓reduceIte]
    unfold mergeOn
    have hne' : ¬ (conds.map (·.1) = [] ∨ (conds.map (·.1)).length ≠ (conds.map fun cp => pfx ++ cp.2).length) := by
      simp [hne]
    simp only [hne', ↓reduceIte, firstMissing_none hcj, firstMissing_none hpj]
    -- no key pair has one name on both sides
    have hcoal : ((conds.map (·.1)).zip (conds.map fun cp => pfx ++ cp.2)).filterMap
        (fun p => if p.1 = p.2 then some p.1 else none) = [] := by
      rw [List.filterMap_eq_nil_iff]
      intro p hpm
      rw [List.zip_map', List.mem_map] at hpm
      obtain ⟨cp, hcp, rfl⟩ := hpm
      have := hno cp.1 (hc cp hcp) cp.2 (hp cp hcp)
      simp [this]
    rw [hcoal]
    have hft : ∀ (l : List Str), l.filter (fun c => !([] : List Str).contains c) = l := fun l =>
      List.filter_eq_self.mpr (by simp)
    simp only [hft, hov, dropCols]
    have hid : ∀ (sfx : Str) (ρ : SRow), ρ.map (fun kv => (if ([] : List Str).contains kv.1 = true then kv.1 ++ sfx else kv.1, kv.2)) = ρ := by
      intro sfx ρ
      simp
    have hid2 : ∀ (ρ : SRow), ρ.filter (fun kv => !([] : List Str).contains kv.1) = ρ := fun ρ =>
      List.filter_eq_self.mpr (by simp)
    congr 2
    · simp
    · unfold mergeDataP
      apply flatMap_congr'
      intro a ha
      rw [hfilt a ha, List.map_map]
      apply List.map_congr_left
      intro b _
      simp only [Function.comp, hid, hid2]

/-- **`_merge_data` is `Model.mergeData`**, on either code path, for the shape read from /repo: for all frames whose labels do
    not clash and contain the join columns, and every non-empty list of conditions. -/
theorem mergeFrames_eq_mergeData (data parent : Frame) (conds : List (Str × Str)) (hne : conds ≠ [])
    (hrows : data.RowsHave) (hc : ∀ cp ∈ conds, cp.1 ∈ data.cols) (hp : ∀ cp ∈ conds, cp.2 ∈ parent.cols)
    (hno : NoClash "parent_".toList data.cols parent.cols) :
    mergeFrames MergeShape.expected data parent conds =
      .ok ⟨data.cols ++ parent.cols.map ("parent_".toList ++ ·), mergeData data.rows parent.rows conds⟩ := by
  rw [mergeData_eq_mergeDataP]
  exact mergeFrames_eq_mergeDataP _ _ MergeShape.expected_inner data parent conds hne hrows hc hp hno

/-! ### `Model.mergeData` is the nested-loop join of the specification (as lists: order and multiplicities included) -/

/-- a string row as a valuation: every cell of a preprocessed frame is a (non-NULL) string -/
def srowVal (σ : SRow) (c : Str) : Option Str := lookup c σ

theorem keysMatch_srow (conds : List (Str × Str)) (c p : SRow) :
    keysMatch (srowVal c) (srowVal p) conds =
      conds.all fun cp => lookup cp.1 c = lookup cp.2 p && (lookup cp.1 c).isSome := by
  unfold keysMatch
  apply List.all_congr rfl
  intro cp
  unfold condHolds srowVal
  cases lookup cp.1 c <;> cases lookup cp.2 p <;> simp
  rename_i v1 v2
  by_cases h : v1 = v2 <;> simp [h]

/-- **`_merge_data` = inner equi-join.** The merged frame consists of exactly the rows `c ++ parent_p` for the pairs `(c, p)` of
    the nested-loop join of the two frames on all conditions, in the same order and with the same multiplicities. -/
theorem mergeDataP_eq_innerJoin (pfx : Str) (child parent : List SRow) (conds : List (Str × Str)) :
    mergeDataP pfx child parent conds =
      (innerJoin srowVal srowVal conds child parent).map fun cp => cp.1 ++ prefixRow pfx cp.2 := by
  unfold mergeDataP innerJoin
  rw [List.map_flatMap]
  apply flatMap_congr'
  intro c _
  rw [List.map_map]
  have : (fun p => keysMatch (srowVal c) (srowVal p) conds) =
      fun p => conds.all fun cp => lookup cp.1 c = lookup cp.2 p && (lookup cp.1 c).isSome :=
    funext fun p => keysMatch_srow conds c p
  rw [this]
  rfl

theorem mergeData_eq_innerJoin (child parent : List SRow) (conds : List (Str × Str)) :
    mergeData child parent conds =
      (innerJoin srowVal srowVal conds child parent).map fun cp => cp.1 ++ prefixRow "parent_".toList cp.2 := by
  rw [mergeData_eq_mergeDataP, mergeDataP_eq_innerJoin]

theorem mem_innerJoin {α β} (cval : α → Str → Option Str) (pval : β → Str → Option Str) (conds : List (Str × Str))
    (child : List α) (parent : List β) (c : α) (p : β) :
    (c, p) ∈ innerJoin cval pval conds child parent ↔ c ∈ child ∧ p ∈ parent ∧ keysMatch (cval c) (pval p) conds = true := by
  unfold innerJoin
  simp only [List.mem_flatMap, List.mem_map, List.mem_filter, Prod.mk.injEq]
  constructor
  · rintro ⟨c', hc', p', ⟨hp', hk⟩, rfl, rfl⟩
    exact ⟨hc', hp', hk⟩
  · rintro ⟨hc, hp, hk⟩
    exact ⟨c, hc, p, ⟨hp, hk⟩, rfl, rfl⟩

theorem mem_mergeData (child parent : List SRow) (conds : List (Str × Str)) (σ : SRow) :
    σ ∈ mergeData child parent conds ↔
      ∃ c ∈ child, ∃ p ∈ parent, keysMatch (srowVal c) (srowVal p) conds = true ∧ σ = c ++ prefixRow "parent_".toList p := by
  rw [mergeData_eq_innerJoin, List.mem_map]
  constructor
  · rintro ⟨⟨c, p⟩, hm, rfl⟩
    obtain ⟨hc, hp, hk⟩ := (mem_innerJoin _ _ _ _ _ _ _).mp hm
    exact ⟨c, hc, p, hp, hk, rfl⟩
  · rintro ⟨c, hc, p, hp, hk, rfl⟩
    exact ⟨(c, p), (mem_innerJoin _ _ _ _ _ _ _).mpr ⟨hc, hp, hk⟩, rfl⟩

/-! ### the referencing-object-map branch, line by line, is the shared `Model.evalRule` -/

theorem isAllConstant_parentTM {r : Rule} (h : r.objectMapType = .parentTM) : isAllConstant r = false := by
  simp [isAllConstant, h]

theorem evalRule_ref_eq (env : Env) (rules : List Rule) (r parent : Rule) (hpt : r.objectMapType = .parentTM)
    (hfind : findRule rules r.objectMapValue = some parent) :
    evalRule env rules r =
      (preprocess env.na (refsOfRule r) (env.table r)) >>= fun data =>
      (preprocess env.na (refsOfRule parent true ++ r.objectJoin.map (·.2)) (env.table parent)) >>= fun pdata =>
        (mergeData data pdata r.objectJoin).mapM
          (rowTriple env r parent.subjectMapType parent.subjectMapValue "parent_".toList) := by
  unfold evalRule
  simp only [isAllConstant_parentTM hpt, Bool.false_eq_true, ↓reduceIte, hpt, hfind]

/-- no reference of the child rule is `parent_` + a reference of the parent frame -/
def RuleNoClash (r parent : Rule) : Prop :=
  NoClash "parent_".toList (refsOfRule r) (refsOfRule parent true ++ r.objectJoin.map (·.2))

theorem join_children_subset (r : Rule) : ∀ x ∈ r.objectJoin.map (·.1), x ∈ refsOfRule r := by
  intro x hx
  simp only [refsOfRule, Bool.false_eq_true, ↓reduceIte, List.mem_append]
  exact .inr hx

/-- **The join branch of `_materialize_rml_rule`, transcribed line by line with the two code paths of `_merge_data`, computes
    what the shared engine model `Model.evalRule` computes** — for every rule with at least one join condition whose
    references do not clash with the prefixed parent references, all tables, all configurations, errors included. -/
theorem evalRefRule_eq_evalRule (env : Env) (rules : List Rule) (r parent : Rule) (hpt : r.objectMapType = .parentTM)
    (hfind : findRule rules r.objectMapValue = some parent) (hne : r.objectJoin ≠ []) (hno : RuleNoClash r parent) :
    evalRefRule MergeShape.expected RefBranchShape.expected env rules r = liftMat (evalRule env rules r) := by
  rw [evalRule_ref_eq env rules r parent hpt hfind]
  unfold evalRefRule
  simp only [hfind, childRefs, parentRefs, RefBranchShape.expected, ↓reduceIte]
  rw [preprocess_append_of_subset _ _ _ _ (join_children_subset r)]
  cases hd : preprocess env.na (refsOfRule r) (env.table r) with
  | error e => rfl
  | ok data =>
    cases hpd : preprocess env.na (refsOfRule parent true ++ r.objectJoin.map (·.2)) (env.table parent) with
    | error e => rfl
    | ok pdata =>
      simp only [liftMat, bind, Except.bind]
      have hm := mergeFrames_eq_mergeData ⟨dedupFirst (refsOfRule r ++ r.objectJoin.map (·.1)), data⟩
        ⟨dedupFirst (refsOfRule parent true ++ r.objectJoin.map (·.2)), pdata⟩ r.objectJoin hne
        (by
          intro σ hσ
          rw [dedupFirst_append_of_subset _ _ (join_children_subset r)]
          exact preprocess_keys _ _ _ _ hd σ hσ)
        (by
          intro cp hcp
          simp only [mem_dedupFirst, List.mem_append, List.mem_map]
          exact .inr ⟨cp, hcp, rfl⟩)
        (by
          intro cp hcp
          simp only [mem_dedupFirst, List.mem_append, List.mem_map]
          exact .inr ⟨cp, hcp, rfl⟩)
        (by
          intro c hc k hk
          simp only [mem_dedupFirst] at hc hk
          rcases List.mem_append.mp hc with hc | hc
          · exact hno c hc k hk
          · exact hno c (join_children_subset r c hc) k hk)
      simp only [hm]

end Model
