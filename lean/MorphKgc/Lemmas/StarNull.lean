/-
C13, helper lemmas VI: a NULL in any reference of a flat rule (its own term maps, its join keys, the references of the
rules it quotes without join condition) leaves the rule nothing to generate for the row.
-/
import MorphKgc.Lemmas.StarHyp

namespace Model.Star
open Py Model Spec Spec.Star

theorem genTerm_none_of_null (safe : Str) (na : List Str) (tm : TermMap) (ρ : Row) (c : Str) (hc : c ∈ tmRefs tm)
    (hv : valueOf na ρ c = none) : genTerm safe na tm ρ = none := by
  simp [genTerm, genValue_none safe na tm ρ ⟨c, hc, hv⟩]

theorem joinRows_nil_of_null (na : List Str) (conds : List (Str × Str)) (ρ : Row) (t : Table) (cp : Str × Str)
    (hcp : cp ∈ conds) (hv : valueOf na ρ cp.1 = none) : joinRows na conds ρ t = [] := by
  unfold joinRows
  rw [List.filter_eq_nil_iff]
  intro p _
  simp only [List.all_eq_true]
  intro hall
  have := hall cp hcp
  simp [hv] at this

theorem graphTerms_nil_of_null (senv : SEnv) (gm : TermMap) (ρ : Row) (c : Str) (hc : c ∈ tmRefs gm)
    (hv : valueOf senv.na ρ c = none) : graphTerms senv [gm] ρ = [] := by
  rw [graphTerms_single]
  have hnd : ¬ isDefaultGraph senv.defaultGraph gm = true := by
    intro h
    simp only [isDefaultGraph, Bool.and_eq_true, decide_eq_true_eq] at h
    simp [tmRefs, h.1] at hc
  simp [hnd, genTerm_none_of_null senv.safe senv.na gm ρ c hc hv]

/-- **NULL.** -/
theorem flatAt_nil_of_null (senv : SEnv) (frs : List FlatRule) : ∀ (n : Nat) (fr : FlatRule), okAt senv frs n fr = true →
    ∀ (nest : Nat) (ρ : Row), (∃ c ∈ frefs frs (n + 1) fr, valueOf senv.na ρ c = none) →
      flatAt senv frs nest (n + 1) fr ρ = [] := by
  intro n
  induction n with
  | zero =>
    intro fr hok nest ρ ⟨c, hc, hv⟩
    have hl := localOK_facts (okAt_local hok)
    obtain ⟨hsq, hoq⟩ := okAt_zero_pos hok
    rw [frefs_succ, refsOfRule_toRule fr hl.wf] at hc
    rw [List.eq_nil_iff_forall_not_mem]
    intro t ht
    obtain ⟨s, hs, p, hp, o, ho, g, hg, _⟩ := (mem_flatAt senv frs nest 0 fr ρ t).mp ht
    simp only [List.mem_append] at hc
    rcases hc with ((((((hc | hc) | hc) | hc) | hc) | hc) | hc) | hc
    · cases hsub : fr.subject with
      | quoted id conds => exact hsq id conds hsub
      | term tm =>
        rw [hsub] at hc hs
        rw [mem_flatPos_term, genTerm_none_of_null _ _ tm ρ c hc hv] at hs
        cases hs
    · rw [genTerm_none_of_null _ _ fr.pred ρ c hc hv] at hp; cases hp
    · cases hobj : fr.object with
      | quoted id conds => exact hoq id conds hobj
      | term tm =>
        rw [hobj] at hc ho
        rw [mem_flatPos_term, genTerm_none_of_null _ _ tm ρ c hc hv] at ho
        cases ho
    · rw [graphTerms_nil_of_null senv fr.graph ρ c hc hv] at hg; cases hg
    · cases hsub : fr.subject with
      | quoted id conds => exact hsq id conds hsub
      | term tm => simp [hsub, joinKeys] at hc
    · cases hobj : fr.object with
      | quoted id conds => exact hoq id conds hobj
      | term tm => simp [hobj, joinKeys] at hc
    · cases hsub : fr.subject with
      | quoted id conds => exact hsq id conds hsub
      | term tm => simp [hsub, qrefs] at hc
    · cases hobj : fr.object with
      | quoted id conds => exact hoq id conds hobj
      | term tm => simp [hobj, qrefs] at hc
  | succ n ih =>
    intro fr hok nest ρ ⟨c, hc, hv⟩
    have hl := localOK_facts (okAt_local hok)
    obtain ⟨hsq, hoq⟩ := okAt_succ_pos hok
    rw [frefs_succ, refsOfRule_toRule fr hl.wf] at hc
    rw [List.eq_nil_iff_forall_not_mem]
    intro t ht
    obtain ⟨s, hs, p, hp, o, ho, g, hg, _⟩ := (mem_flatAt senv frs nest (n + 1) fr ρ t).mp ht
    -- a quoted position whose join key or whose quoted rule's reference is NULL has no term
    have hpos : ∀ (pos : Pos), (∀ id conds, pos = .quoted id conds → ∃ q, findFlat frs id = some q ∧ okAt senv frs n q = true) →
        (c ∈ joinKeys pos ∨ c ∈ qrefs frs (n + 1) pos) → flatPos senv frs (n + 1) ρ pos = [] := by
      intro pos hq hcp
      cases hpos : pos with
      | term tm => simp [hpos, joinKeys, qrefs] at hcp
      | quoted id conds =>
        obtain ⟨q, hqf, hqok⟩ := hq id conds hpos
        rw [List.eq_nil_iff_forall_not_mem]
        intro x hx
        obtain ⟨ρ', hρ', t', ht', _⟩ := (mem_flatPos_quoted senv frs (n + 1) ρ id conds q hqf x).mp hx
        rcases hcp with hcj | hcq
        · simp only [hpos, joinKeys, List.mem_map] at hcj
          obtain ⟨cp, hcp', rfl⟩ := hcj
          have hne : conds.isEmpty = false := by cases conds <;> simp_all
          simp only [flatPaired, hne, Bool.false_eq_true, ↓reduceIte] at hρ'
          rw [joinRows_nil_of_null senv.na conds ρ _ cp hcp' hv] at hρ'
          cases hρ'
        · simp only [hpos, qrefs, hqf] at hcq
          by_cases hce : conds.isEmpty = true
          · simp only [hce, ↓reduceIte] at hcq
            simp only [flatPaired, hce, ↓reduceIte, List.mem_singleton] at hρ'
            subst hρ'
            have := ih q hqok 1 ρ' ⟨c, hcq, hv⟩
            simp only [flatAt, Nat.one_ne_zero, ↓reduceIte] at this
            rw [this] at ht'
            cases ht'
          · simp [hce] at hcq
    simp only [List.mem_append] at hc
    rcases hc with ((((((hc | hc) | hc) | hc) | hc) | hc) | hc) | hc
    · cases hsub : fr.subject with
      | quoted id conds => simp [hsub, posRefs] at hc
      | term tm =>
        rw [hsub] at hc hs
        rw [mem_flatPos_term, genTerm_none_of_null _ _ tm ρ c hc hv] at hs
        cases hs
    · rw [genTerm_none_of_null _ _ fr.pred ρ c hc hv] at hp; cases hp
    · cases hobj : fr.object with
      | quoted id conds => simp [hobj, posRefs] at hc
      | term tm =>
        rw [hobj] at hc ho
        rw [mem_flatPos_term, genTerm_none_of_null _ _ tm ρ c hc hv] at ho
        cases ho
    · rw [graphTerms_nil_of_null senv fr.graph ρ c hc hv] at hg; cases hg
    · rw [hpos fr.subject hsq (.inl hc)] at hs; cases hs
    · rw [hpos fr.object hoq (.inl hc)] at ho; cases ho
    · rw [hpos fr.subject hsq (.inr hc)] at hs; cases hs
    · rw [hpos fr.object hoq (.inr hc)] at ho; cases ho

end Model.Star
