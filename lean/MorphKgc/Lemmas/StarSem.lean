/-
C13, helper lemmas IV: the pure counterparts of the engine's bookkeeping on flat rules (references, number of merges
on a frame), membership in the specification's lists, and the hypotheses of the refinement.
-/
import MorphKgc.Lemmas.StarFrame

namespace Model.Star
open Py Model Spec Spec.Star

/-! ### rule lookup -/

theorem findRule_map_toRule (frs : List FlatRule) (id : Str) :
    findRule (frs.map toRule) id = (findFlat frs id).map toRule := by
  unfold findRule findFlat
  induction frs with
  | nil => rfl
  | cons f frs ih =>
    simp only [List.map_cons, List.find?_cons]
    have : (toRule f).tmId = f.id := rfl
    by_cases h : f.id = id
    · simp [this, h]
    · simp [this, h, ih]

theorem findFlat_mem {frs : List FlatRule} {id : Str} {q : FlatRule} (h : findFlat frs id = some q) : q ∈ frs ∧ q.id = id := by
  unfold findFlat at h
  exact ⟨List.mem_of_find?_eq_some h, by simpa using List.find?_some h⟩

/-! ### projections of `toRule` -/

theorem toRule_subjectMapType (fr : FlatRule) : (toRule fr).subjectMapType = (posOf fr.subject).1 := rfl
theorem toRule_subjectMapValue (fr : FlatRule) : (toRule fr).subjectMapValue = (posOf fr.subject).2.1 := rfl
theorem toRule_subjectJoin (fr : FlatRule) : (toRule fr).subjectJoin = (posOf fr.subject).2.2.2 := rfl
theorem toRule_objectMapType (fr : FlatRule) : (toRule fr).objectMapType = (posOf fr.object).1 := rfl
theorem toRule_objectMapValue (fr : FlatRule) : (toRule fr).objectMapValue = (posOf fr.object).2.1 := rfl
theorem toRule_objectJoin (fr : FlatRule) : (toRule fr).objectJoin = (posOf fr.object).2.2.2 := rfl

/-! ### references -/

/-- `_get_references_in_rml_rule` on a flat rule: its own references and join keys, and those of the quoted rules without
    join condition (which are materialised on the same frame) -/
def frefs (frs : List FlatRule) : Nat → FlatRule → List Str
  | 0, _ => []
  | n + 1, fr =>
    let q : Pos → List Str := fun p =>
      match p with
      | .term _ => []
      | .quoted id conds =>
        if conds.isEmpty then
          match findFlat frs id with
          | some r => frefs frs n r
          | none => []
        else []
    refsOfRule (toRule fr) ++ q fr.subject ++ q fr.object

/-- the part of `frefs` that comes from a quoted position -/
def qrefs (frs : List FlatRule) (n : Nat) : Pos → List Str
  | .term _ => []
  | .quoted id conds =>
    if conds.isEmpty then
      match findFlat frs id with
      | some r => frefs frs n r
      | none => []
    else []

theorem frefs_succ (frs : List FlatRule) (n : Nat) (fr : FlatRule) :
    frefs frs (n + 1) fr = refsOfRule (toRule fr) ++ qrefs frs n fr.subject ++ qrefs frs n fr.object := by
  simp only [frefs, qrefs]

theorem posRefsStar_subject (frs : List FlatRule) (n : Nat) (fr : FlatRule)
    (ih : ∀ q, depthLe frs n q = true → refsStar (frs.map toRule) (n + 1) (toRule q) = .ok (frefs frs (n + 1) q))
    (hd : ∀ id conds, fr.subject = .quoted id conds → ∃ q, findFlat frs id = some q ∧ depthLe frs n q = true) :
    posRefsStar (frs.map toRule) (refsStar (frs.map toRule) (n + 1)) (toRule fr).subjectMapType (toRule fr).subjectMapValue
      (toRule fr).subjectJoin = .ok (qrefs frs (n + 1) fr.subject) := by
  cases hsub : fr.subject with
  | term tm => simp [posRefsStar, toRule_subjectMapType, hsub, posOf_term, mapOf_ne_quoted, qrefs]
  | quoted id conds =>
    obtain ⟨q, hq, hqd⟩ := hd id conds hsub
    by_cases hc : conds.isEmpty = true
    · simp only [posRefsStar, toRule_subjectMapType, toRule_subjectJoin, toRule_subjectMapValue, hsub, posOf_quoted, hc,
        findRule_map_toRule, hq, qrefs, decide_true, Bool.and_self, ↓reduceIte, Option.map_some, ih q hqd]
    · simp [posRefsStar, toRule_subjectMapType, toRule_subjectJoin, hsub, posOf_quoted, hc, qrefs]

theorem posRefsStar_object (frs : List FlatRule) (n : Nat) (fr : FlatRule)
    (ih : ∀ q, depthLe frs n q = true → refsStar (frs.map toRule) (n + 1) (toRule q) = .ok (frefs frs (n + 1) q))
    (hd : ∀ id conds, fr.object = .quoted id conds → ∃ q, findFlat frs id = some q ∧ depthLe frs n q = true) :
    posRefsStar (frs.map toRule) (refsStar (frs.map toRule) (n + 1)) (toRule fr).objectMapType (toRule fr).objectMapValue
      (toRule fr).objectJoin = .ok (qrefs frs (n + 1) fr.object) := by
  cases hobj : fr.object with
  | term tm => simp [posRefsStar, toRule_objectMapType, hobj, posOf_term, mapOf_ne_quoted, qrefs]
  | quoted id conds =>
    obtain ⟨q, hq, hqd⟩ := hd id conds hobj
    by_cases hc : conds.isEmpty = true
    · simp only [posRefsStar, toRule_objectMapType, toRule_objectJoin, toRule_objectMapValue, hobj, posOf_quoted, hc,
        findRule_map_toRule, hq, qrefs, decide_true, Bool.and_self, ↓reduceIte, Option.map_some, ih q hqd]
    · simp [posRefsStar, toRule_objectMapType, toRule_objectJoin, hobj, posOf_quoted, hc, qrefs]

/-- what `depthLe (n + 1)` says about a quoted position -/
theorem depthLe_succ_pos {frs : List FlatRule} {n : Nat} {fr : FlatRule} (h : depthLe frs (n + 1) fr = true) :
    (∀ id conds, fr.subject = .quoted id conds → ∃ q, findFlat frs id = some q ∧ depthLe frs n q = true) ∧
    (∀ id conds, fr.object = .quoted id conds → ∃ q, findFlat frs id = some q ∧ depthLe frs n q = true) := by
  simp only [depthLe, Bool.and_eq_true] at h
  constructor
  · intro id conds hs
    have := h.1
    simp only [hs] at this
    cases hq : findFlat frs id with
    | none => simp [hq] at this
    | some q => exact ⟨q, rfl, by simpa [hq] using this⟩
  · intro id conds ho
    have := h.2
    simp only [ho] at this
    cases hq : findFlat frs id with
    | none => simp [hq] at this
    | some q => exact ⟨q, rfl, by simpa [hq] using this⟩

theorem depthLe_zero_pos {frs : List FlatRule} {fr : FlatRule} (h : depthLe frs 0 fr = true) :
    (∀ id conds, fr.subject ≠ .quoted id conds) ∧ (∀ id conds, fr.object ≠ .quoted id conds) := by
  simp only [depthLe, Bool.and_eq_true, Option.isNone_iff_eq_none] at h
  constructor
  · intro id conds hs; simp [hs, posQuoted] at h
  · intro id conds ho; simp [ho, posQuoted] at h

theorem refsStar_toRule (frs : List FlatRule) : ∀ (n : Nat) (fr : FlatRule), depthLe frs n fr = true →
    refsStar (frs.map toRule) (n + 1) (toRule fr) = .ok (frefs frs (n + 1) fr) := by
  intro n
  induction n with
  | zero =>
    intro fr h
    obtain ⟨hs, ho⟩ := depthLe_zero_pos h
    rw [frefs_succ]
    unfold refsStar
    have h1 : posRefsStar (frs.map toRule) (refsStar (frs.map toRule) 0) (toRule fr).subjectMapType (toRule fr).subjectMapValue
        (toRule fr).subjectJoin = .ok (qrefs frs 0 fr.subject) := by
      cases hsub : fr.subject with
      | term tm => simp [posRefsStar, toRule_subjectMapType, hsub, posOf_term, mapOf_ne_quoted, qrefs]
      | quoted id conds => exact absurd hsub (hs id conds)
    have h2 : posRefsStar (frs.map toRule) (refsStar (frs.map toRule) 0) (toRule fr).objectMapType (toRule fr).objectMapValue
        (toRule fr).objectJoin = .ok (qrefs frs 0 fr.object) := by
      cases hobj : fr.object with
      | term tm => simp [posRefsStar, toRule_objectMapType, hobj, posOf_term, mapOf_ne_quoted, qrefs]
      | quoted id conds => exact absurd hobj (ho id conds)
    rw [h1, h2]
  | succ n ih =>
    intro fr h
    obtain ⟨hs, ho⟩ := depthLe_succ_pos h
    rw [frefs_succ]
    unfold refsStar
    rw [posRefsStar_subject frs n fr ih hs, posRefsStar_object frs n fr ih ho]

/-! ### merges on one frame -/

/-- the number of `_merge_data` calls performed on the frame of a rule of quoting depth at most `n`: one per quoted
    position with join conditions; a quoted rule without join condition is materialised on the same frame -/
def merges (frs : List FlatRule) : Nat → FlatRule → Nat
  | 0, _ => 0
  | n + 1, fr =>
    let m : Pos → Nat := fun p =>
      match p with
      | .term _ => 0
      | .quoted id conds =>
        if conds.isEmpty then
          match findFlat frs id with
          | some q => merges frs n q
          | none => 0
        else 1
    m fr.subject + m fr.object

def mpos (frs : List FlatRule) (n : Nat) : Pos → Nat
  | .term _ => 0
  | .quoted id conds =>
    if conds.isEmpty then
      match findFlat frs id with
      | some q => merges frs n q
      | none => 0
    else 1

theorem merges_succ (frs : List FlatRule) (n : Nat) (fr : FlatRule) :
    merges frs (n + 1) fr = mpos frs n fr.subject + mpos frs n fr.object := by
  simp only [merges, mpos]

/-! ### the specification's lists, by membership -/

theorem flatTriples_succ (senv : SEnv) (frs : List FlatRule) (d : Nat) (fr : FlatRule) (ρ : Row) :
    flatTriples senv frs (d + 1) fr ρ =
      if (graphTerms senv [fr.graph] ρ).isEmpty then [] else
      (flatPos senv frs d ρ fr.subject).flatMap fun s =>
        (genTerm senv.safe senv.na fr.pred ρ).toList.flatMap fun p =>
          (flatPos senv frs d ρ fr.object).map fun o => renderTriple s p o := by
  simp only [flatTriples, flatPos]

/-- what a rule contributes for a row at a nest level: statements with graph at level 0, bare triples below -/
def flatAt (senv : SEnv) (frs : List FlatRule) (nest : Nat) : Nat → FlatRule → Row → List Str
  | 0, _, _ => []
  | n + 1, fr, ρ => if nest = 0 then flatLines senv frs n fr ρ else flatTriples senv frs (n + 1) fr ρ

theorem mem_flatAt (senv : SEnv) (frs : List FlatRule) (nest n : Nat) (fr : FlatRule) (ρ : Row) (t : Str) :
    t ∈ flatAt senv frs nest (n + 1) fr ρ ↔
      ∃ s ∈ flatPos senv frs n ρ fr.subject, ∃ p, genTerm senv.safe senv.na fr.pred ρ = some p ∧
        ∃ o ∈ flatPos senv frs n ρ fr.object, ∃ g ∈ graphTerms senv [fr.graph] ρ, t = stmtAt senv nest s p o g := by
  unfold flatAt
  by_cases hn : nest = 0
  · subst hn
    simp only [↓reduceIte, flatLines, List.mem_flatMap, List.mem_map, Option.mem_toList, stmtAt]
    constructor
    · rintro ⟨s, hs, p, hp, o, ho, g, hg, rfl⟩
      exact ⟨s, hs, p, hp, o, ho, g, hg, rfl⟩
    · rintro ⟨s, hs, p, hp, o, ho, g, hg, rfl⟩
      exact ⟨s, hs, p, hp, o, ho, g, hg, rfl⟩
  · simp only [hn, ↓reduceIte, flatTriples_succ, stmtAt]
    by_cases hg : (graphTerms senv [fr.graph] ρ).isEmpty = true
    · simp only [hg, ↓reduceIte, List.not_mem_nil, false_iff]
      rintro ⟨s, _, p, _, o, _, g, hgm, _⟩
      rw [List.isEmpty_iff] at hg
      rw [hg] at hgm
      cases hgm
    · simp only [hg, Bool.false_eq_true, ↓reduceIte, List.mem_flatMap, List.mem_map, Option.mem_toList]
      obtain ⟨g0, hg0⟩ : ∃ g0, g0 ∈ graphTerms senv [fr.graph] ρ := by
        cases hgt : graphTerms senv [fr.graph] ρ with
        | nil => simp [hgt] at hg
        | cons a l => exact ⟨a, by simp⟩
      constructor
      · rintro ⟨s, hs, p, hp, o, ho, rfl⟩
        exact ⟨s, hs, p, hp, o, ho, g0, hg0, rfl⟩
      · rintro ⟨s, hs, p, hp, o, ho, g, _, rfl⟩
        exact ⟨s, hs, p, hp, o, ho, rfl⟩

theorem mem_flatPos_term (senv : SEnv) (frs : List FlatRule) (n : Nat) (ρ : Row) (tm : TermMap) (x : Str) :
    x ∈ flatPos senv frs n ρ (.term tm) ↔ genTerm senv.safe senv.na tm ρ = some x := by
  simp [flatPos]

theorem mem_flatPos_quoted (senv : SEnv) (frs : List FlatRule) (n : Nat) (ρ : Row) (id : Str) (conds : List (Str × Str))
    (q : FlatRule) (hq : findFlat frs id = some q) (x : Str) :
    x ∈ flatPos senv frs n ρ (.quoted id conds) ↔
      ∃ ρ' ∈ flatPaired senv conds ρ q, ∃ t ∈ flatTriples senv frs n q ρ', x = quote t := by
  simp only [flatPos, hq, List.mem_flatMap, List.mem_map]
  constructor
  · rintro ⟨ρ', h1, t, h2, rfl⟩; exact ⟨ρ', h1, t, h2, rfl⟩
  · rintro ⟨ρ', h1, t, h2, rfl⟩; exact ⟨ρ', h1, t, h2, rfl⟩

/-! ### rows that extend rows -/

/-- `φ'` still carries every cell of `φ`, and the `keep_subject<k>` columns below the current nest level -/
def Ext (nest : Nat) (φ φ' : FRow) : Prop :=
  (∀ c v, lookup c φ.src = some v → lookup c φ'.src = some v) ∧ (∀ k, k < nest → lookupKeep k φ'.keep = lookupKeep k φ.keep)

theorem Ext.refl (nest : Nat) (φ : FRow) : Ext nest φ φ := ⟨fun _ _ h => h, fun _ _ => rfl⟩

theorem Ext.trans {nest : Nat} {a b c : FRow} (h1 : Ext nest a b) (h2 : Ext nest b c) : Ext nest a c :=
  ⟨fun x v h => h2.1 x v (h1.1 x v h), fun k hk => (h2.2 k hk).trans (h1.2 k hk)⟩

theorem Ext.mono {n m : Nat} {a b : FRow} (h : Ext m a b) (hnm : n ≤ m) : Ext n a b :=
  ⟨h.1, fun k hk => h.2 k (Nat.lt_of_lt_of_le hk hnm)⟩

theorem Rep.ext {na : List Str} {C : List Str} {nest : Nat} {φ φ' : FRow} {ρ : Row} (h : Rep na C φ.src ρ) (he : Ext nest φ φ') :
    Rep na C φ'.src ρ := fun c hc => ⟨he.1 c _ (h c hc).1, (h c hc).2⟩

end Model.Star
