/-
Lemmas about the Python string primitives of `Py/Str.lean`, in simp-normal form.
-/
import MorphKgc.Py.Str

namespace Py

theorem drop_length_of_isPrefixOf {sep s : Str} (h : sep.isPrefixOf s = true) : s = sep ++ s.drop sep.length := by
  have := List.isPrefixOf_iff_prefix.mp h
  obtain ⟨t, rfl⟩ := this
  simp

/-- `breakOn` splits at an occurrence of `sep` -/
theorem breakOn_eq_some {sep s a b : Str} (h : breakOn sep s = some (a, b)) : s = a ++ sep ++ b := by
  induction s generalizing a with
  | nil => simp [breakOn] at h
  | cons c s ih =>
    unfold breakOn at h
    split at h
    · rename_i hp
      simp only [Option.some.injEq, Prod.mk.injEq] at h
      obtain ⟨rfl, rfl⟩ := h
      simpa using drop_length_of_isPrefixOf hp
    · cases hb : breakOn sep s with
      | none => simp [hb] at h
      | some p =>
        obtain ⟨a', b'⟩ := p
        simp only [hb, Option.some.injEq, Prod.mk.injEq] at h
        obtain ⟨rfl, rfl⟩ := h
        rw [ih hb]; simp

theorem breakOn_length_lt {sep s a b : Str} (hs : sep ≠ []) (h : breakOn sep s = some (a, b)) : b.length < s.length := by
  have := breakOn_eq_some h
  subst this
  have : 0 < sep.length := List.length_pos_iff.mpr hs
  simp; omega

/-- single-character separators: `breakOn` finds the first occurrence -/
theorem breakOn_single_none {c : Char} {s : Str} (h : breakOn [c] s = none) : c ∉ s := by
  induction s with
  | nil => simp
  | cons d s ih =>
    unfold breakOn at h
    split at h
    · simp at h
    · rename_i hp
      cases hb : breakOn [c] s with
      | some p => simp [hb] at h
      | none =>
        have hne : c ≠ d := by
          intro e; subst e; simp at hp
        simp [ih hb, hne]

theorem breakOn_single_some {c : Char} {s a b : Str} (h : breakOn [c] s = some (a, b)) : c ∉ a := by
  induction s generalizing a with
  | nil => simp [breakOn] at h
  | cons d s ih =>
    unfold breakOn at h
    split at h
    · simp only [Option.some.injEq, Prod.mk.injEq] at h
      obtain ⟨rfl, _⟩ := h; simp
    · rename_i hp
      cases hb : breakOn [c] s with
      | none => simp [hb] at h
      | some p =>
        obtain ⟨a', b'⟩ := p
        simp only [hb, Option.some.injEq, Prod.mk.injEq] at h
        obtain ⟨rfl, rfl⟩ := h
        have hne : c ≠ d := by
          intro e; subst e; simp at hp
        simp [ih hb, hne]

/-- the character-wise substitution that a single-character `.replace` performs -/
def subst1 (c : Char) (new : Str) (x : Char) : Str := if x = c then new else [x]

theorem flatMap_subst1_of_not_mem {c : Char} {new : Str} {a : Str} (h : c ∉ a) : a.flatMap (subst1 c new) = a := by
  induction a with
  | nil => rfl
  | cons d a ih =>
    simp only [List.mem_cons, not_or] at h
    have hd : d ≠ c := fun e => h.1 e.symm
    simp [List.flatMap_cons, subst1, hd, ih h.2]

theorem replaceFuel_single (c : Char) (new : Str) (n : Nat) (s : Str) (hn : s.length ≤ n) :
    replaceFuel [c] new n s = s.flatMap (subst1 c new) := by
  induction n generalizing s with
  | zero =>
    have : s = [] := List.length_eq_zero_iff.mp (by omega)
    subst this; rfl
  | succ n ih =>
    unfold replaceFuel
    cases hb : breakOn [c] s with
    | none =>
      simp only
      exact (flatMap_subst1_of_not_mem (breakOn_single_none hb)).symm
    | some p =>
      obtain ⟨a, b⟩ := p
      simp only
      have hs := breakOn_eq_some hb
      have hlt := breakOn_length_lt (by simp) hb
      rw [ih b (by omega)]
      subst hs
      simp [List.flatMap_append, flatMap_subst1_of_not_mem (breakOn_single_some hb), subst1]

/-- `s.replace(c, new)` for a one-character `c` is a character-wise substitution -/
theorem replace_single (s : Str) (c : Char) (new : Str) : replace s [c] new = s.flatMap (subst1 c new) :=
  replaceFuel_single c new s.length s (Nat.le_refl _)

theorem replace_single_append (s t : Str) (c : Char) (new : Str) :
    replace (s ++ t) [c] new = replace s [c] new ++ replace t [c] new := by
  simp [replace_single, List.flatMap_append]

theorem replace_single_nil (c : Char) (new : Str) : replace [] [c] new = [] := by
  simp [replace_single]

/-- a chain of single-character replacements is a monoid homomorphism on strings -/
def SingleSources (chain : List (Str × Str)) : Bool := chain.all fun p => p.1.length == 1

theorem applyChain_append {chain : List (Str × Str)} (h : SingleSources chain = true) (s t : Str) :
    applyChain chain (s ++ t) = applyChain chain s ++ applyChain chain t := by
  induction chain generalizing s t with
  | nil => rfl
  | cons p chain ih =>
    simp only [SingleSources, List.all_cons, Bool.and_eq_true, beq_iff_eq] at h
    obtain ⟨hp, hc⟩ := h
    obtain ⟨o, nw⟩ := p
    match o, hp with
    | [c], _ =>
      simp only [applyChain, List.foldl_cons]
      rw [replace_single_append]
      exact ih (by simpa [SingleSources] using hc) _ _

theorem applyChain_nil {chain : List (Str × Str)} (h : SingleSources chain = true) : applyChain chain [] = [] := by
  induction chain with
  | nil => rfl
  | cons p chain ih =>
    simp only [SingleSources, List.all_cons, Bool.and_eq_true, beq_iff_eq] at h
    obtain ⟨hp, hc⟩ := h
    obtain ⟨o, nw⟩ := p
    match o, hp with
    | [c], _ =>
      simp only [applyChain, List.foldl_cons, replace_single_nil]
      exact ih (by simpa [SingleSources] using hc)

theorem applyChain_eq_flatMap {chain : List (Str × Str)} (h : SingleSources chain = true) (s : Str) :
    applyChain chain s = s.flatMap (fun c => applyChain chain [c]) := by
  induction s with
  | nil => simpa using applyChain_nil h
  | cons c s ih =>
    rw [show c :: s = [c] ++ s from rfl, applyChain_append h, ih]
    simp [List.flatMap_cons]

/-- a character that is no source of the chain passes through unchanged -/
theorem applyChain_singleton_of_not_source {chain : List (Str × Str)} (c : Char)
    (h : ∀ p ∈ chain, p.1 ≠ [c]) (hs : SingleSources chain = true) : applyChain chain [c] = [c] := by
  induction chain with
  | nil => rfl
  | cons p chain ih =>
    simp only [SingleSources, List.all_cons, Bool.and_eq_true, beq_iff_eq] at hs
    obtain ⟨hp, hc⟩ := hs
    obtain ⟨o, nw⟩ := p
    match o, hp with
    | [d], _ =>
      have hne : c ≠ d := by
        intro e; subst e
        exact h ([c], nw) (by simp) rfl
      simp only [applyChain, List.foldl_cons]
      rw [replace_single]
      simp only [List.flatMap_cons, List.flatMap_nil, List.append_nil, subst1, hne, ↓reduceIte]
      exact ih (fun p hp => h p (List.mem_cons_of_mem _ hp)) (by simpa [SingleSources] using hc)

/-! ### split / join -/

theorem join_cons_cons (sep x : Str) (y : Str) (r : List Str) : join sep (x :: y :: r) = x ++ sep ++ join sep (y :: r) := rfl

theorem splitFuel_ne_nil (sep : Str) (n : Nat) (s : Str) : splitFuel sep n s ≠ [] := by
  cases n with
  | zero => simp [splitFuel]
  | succ n =>
    unfold splitFuel
    split <;> simp

/-- joining what `split` produced gives the string back -/
theorem join_splitFuel (sep : Str) (hs : sep ≠ []) (n : Nat) (s : Str) (hn : s.length ≤ n) :
    join sep (splitFuel sep n s) = s := by
  induction n generalizing s with
  | zero => simp [splitFuel, join]
  | succ n ih =>
    unfold splitFuel
    cases hb : breakOn sep s with
    | none => simp [join]
    | some p =>
      obtain ⟨a, b⟩ := p
      simp only
      have hlt := breakOn_length_lt hs hb
      have ihb := ih b (by omega)
      cases hsp : splitFuel sep n b with
      | nil => exact absurd hsp (splitFuel_ne_nil _ _ _)
      | cons y r =>
        rw [join_cons_cons, ← hsp, ihb]
        exact (breakOn_eq_some hb).symm

/-- The template loop's idiom: `parts = s.split(sep)`; `parts[0]` is the text before the first occurrence and
    `sep.join(parts[1:])` is the text after it. -/
theorem split_head_tail (sep s : Str) (hs : sep ≠ []) :
    match breakOn sep s with
    | none => split s sep = [s]
    | some (a, b) => (split s sep).head? = some a ∧ join sep (split s sep).tail = b := by
  unfold split
  cases hl : s.length with
  | zero =>
    have : s = [] := List.length_eq_zero_iff.mp hl
    subst this
    simp [breakOn, splitFuel]
  | succ n =>
    unfold splitFuel
    cases hb : breakOn sep s with
    | none => simp
    | some p =>
      obtain ⟨a, b⟩ := p
      simp only [List.head?_cons, List.tail_cons, true_and]
      have hlt := breakOn_length_lt hs hb
      exact join_splitFuel sep hs n b (by omega)

end Py
