/-
C12: reordering the triples maps of a document (unique identifiers) does not change the statements.
-/
import MorphKgc.Lemmas.SectionsSim

namespace Model.Sections
open Py Spec Model

/-! ### lists -/

theorem inj_of_nodup_map {α β} (f : α → β) {l : List α} (h : (l.map f).Nodup) {x y : α} (hx : x ∈ l) (hy : y ∈ l) (e : f x = f y) : x = y := by
  induction l with
  | nil => simp at hx
  | cons a l ih =>
    rw [List.map_cons, List.nodup_cons] at h
    rcases List.mem_cons.mp hx with rfl | hx' <;> rcases List.mem_cons.mp hy with rfl | hy'
    · rfl
    · exact absurd (List.mem_map.mpr ⟨y, hy', e.symm⟩) h.1
    · exact absurd (List.mem_map.mpr ⟨x, hx', e⟩) h.1
    · exact ih h.2 hx' hy'

theorem find_eq_some_of_unique {α} (p : α → Bool) {l : List α} {a : α} (ha : a ∈ l) (hp : p a = true)
    (hu : ∀ b ∈ l, p b = true → b = a) : l.find? p = some a := by
  induction l with
  | nil => simp at ha
  | cons c l ih =>
    rw [List.find?_cons]
    by_cases hc : p c = true
    · rw [hc, hu c (by simp) hc]
    · have hc' : p c = false := by simpa using hc
      rw [hc']
      rcases List.mem_cons.mp ha with rfl | ha'
      · rw [hp] at hc'; cases hc'
      · exact ih ha' fun b hb => hu b (List.mem_cons_of_mem _ hb)

/-- when at most one element satisfies `p`, `find?` does not depend on the order -/
theorem find_perm_of_unique {α} (p : α → Bool) {l l' : List α} (hperm : l.Perm l')
    (hu : ∀ a ∈ l, ∀ b ∈ l, p a = true → p b = true → a = b) : l.find? p = l'.find? p := by
  by_cases h : ∃ a ∈ l, p a = true
  · obtain ⟨a, ha, hp⟩ := h
    rw [find_eq_some_of_unique p ha hp (fun b hb hpb => hu b hb a ha hpb hp),
      find_eq_some_of_unique p (hperm.mem_iff.mp ha) hp
        (fun b hb hpb => hu b (hperm.mem_iff.mpr hb) a ha hpb hp)]
  · have h1 : l.find? p = none := by
      rw [List.find?_eq_none]
      intro a ha hp
      exact h ⟨a, ha, hp⟩
    have h2 : l'.find? p = none := by
      rw [List.find?_eq_none]
      intro a ha hp
      exact h ⟨a, hperm.mem_iff.mpr ha, hp⟩
    rw [h1, h2]

theorem mem_flatMap_perm {α β} (f : α → List β) {l l' : List α} (hperm : l.Perm l') (y : β) :
    y ∈ l.flatMap f ↔ y ∈ l'.flatMap f := by
  simp only [List.mem_flatMap]
  constructor
  · rintro ⟨a, ha, hy⟩; exact ⟨a, hperm.mem_iff.mp ha, hy⟩
  · rintro ⟨a, ha, hy⟩; exact ⟨a, hperm.mem_iff.mpr ha, hy⟩

/-! ### what is read from a parent rule -/

/-- the fields of a parent rule that `eliminateSelfJoin` and `evalRule` read -/
def pbaseOf (r : Rule) : Str × Str × Option Str × MapType × Str × TermType :=
  (r.sourceName, r.logicalSourceValue, r.iterator, r.subjectMapType, r.subjectMapValue, r.subjectTermtype)

theorem pbaseOf_eliminateSelfJoin (A : List Rule) (r : Rule) : pbaseOf (eliminateSelfJoin A r) = pbaseOf r := by
  obtain ⟨a1, a2, a3, a4, a5, a6⟩ := eliminateSelfJoin_keeps A r
  simp only [pbaseOf, a1, a2, a3, a4, a5, a6]

theorem eliminateSelfJoin_congr_pbase {A B : List Rule} {r : Rule}
    (h : r.objectMapType = .parentTM →
      (A.find? (fun p => p.tmId = r.objectMapValue)).map pbaseOf = (B.find? (fun p => p.tmId = r.objectMapValue)).map pbaseOf) :
    eliminateSelfJoin A r = eliminateSelfJoin B r := by
  unfold eliminateSelfJoin
  split
  · rename_i hp
    have := h hp
    cases ha : A.find? (fun p => p.tmId = r.objectMapValue) with
    | none =>
      cases hb : B.find? (fun p => p.tmId = r.objectMapValue) with
      | none => rfl
      | some pb => rw [ha, hb] at this; simp at this
    | some pa =>
      cases hb : B.find? (fun p => p.tmId = r.objectMapValue) with
      | none => rw [ha, hb] at this; simp at this
      | some pb =>
        rw [ha, hb] at this
        simp only [Option.map_some, Option.some.injEq, pbaseOf, Prod.mk.injEq] at this
        obtain ⟨h1, h2, h3, h4, h5, h6⟩ := this
        have hsj : subjRefsAreJoinCols r pa = subjRefsAreJoinCols r pb := by
          unfold subjRefsAreJoinCols refsOfRule
          simp only [h4, h5, ↓reduceIte]
        simp only [h1, h2, h3, h4, h5, h6, hsj]
  · rfl

theorem evalRule_congr_pbase {env : Env} {A B : List Rule} {r : Rule}
    (h : r.objectMapType = .parentTM → (findRule A r.objectMapValue).map pbaseOf = (findRule B r.objectMapValue).map pbaseOf) :
    evalRule env A r = evalRule env B r := by
  unfold evalRule
  split
  · rfl
  · split
    · rename_i hp
      have := h hp
      cases ha : findRule A r.objectMapValue with
      | none =>
        cases hb : findRule B r.objectMapValue with
        | none => rfl
        | some pb => rw [ha, hb] at this; simp at this
      | some pa =>
        cases hb : findRule B r.objectMapValue with
        | none => rw [ha, hb] at this; simp at this
        | some pb =>
          rw [ha, hb] at this
          simp only [Option.map_some, Option.some.injEq, pbaseOf, Prod.mk.injEq] at this
          obtain ⟨h1, h2, _, h4, h5, _⟩ := this
          have ht : env.table pa = env.table pb := by unfold Env.table; rw [h1, h2]
          have hr : refsOfRule pa true = refsOfRule pb true := by simp only [refsOfRule, h4, h5]; rfl
          simp only [ht, hr, h4, h5]
    · rfl

/-- in tables with the same members, where rules sharing an identifier share their base, a parent looks the same -/
theorem findRule_pbase_congr {A B : List Rule} (hmem : ∀ r, r ∈ A ↔ r ∈ B)
    (hu : ∀ r₁ ∈ A, ∀ r₂ ∈ A, r₁.tmId = r₂.tmId → pbaseOf r₁ = pbaseOf r₂) (p : Str) :
    (findRule A p).map pbaseOf = (findRule B p).map pbaseOf := by
  unfold findRule
  cases ha : A.find? (fun r => r.tmId = p) with
  | none =>
    have hb : B.find? (fun r => r.tmId = p) = none := by
      rw [List.find?_eq_none] at ha ⊢
      intro r hr
      exact ha r ((hmem r).mpr hr)
    rw [hb]
  | some a =>
    have ha' := List.find?_some ha
    have haA := List.mem_of_find?_eq_some ha
    cases hb : B.find? (fun r => r.tmId = p) with
    | none =>
      rw [List.find?_eq_none] at hb
      exact absurd ha' (hb a ((hmem a).mp haA))
    | some b =>
      have hb' := List.find?_some hb
      have hbA := (hmem b).mpr (List.mem_of_find?_eq_some hb)
      simp only [decide_eq_true_eq] at ha' hb'
      simp only [Option.map_some, Option.some.injEq]
      exact hu a haA b hbA (by rw [ha', hb'])

/-! ### evaluation only depends on the members of the table -/

theorem evalAll_congr_mem (env : Env) {A B : List Rule} (hmem : ∀ r, r ∈ A ↔ r ∈ B)
    (hev : ∀ r ∈ A, evalRule env A r = evalRule env B r) : SameSet (evalAll env A) (evalAll env B) := by
  rw [evalAll_eq, evalAll_eq]
  have hfm : ∀ r, r ∈ A.filter (·.asserted) ↔ r ∈ B.filter (·.asserted) := by
    intro r
    simp only [List.mem_filter, hmem r]
  rcases forall_ok_or_exists_error (evalRule env A) (A.filter (·.asserted)) with hok | ⟨x, hx, e, he⟩
  · have hokB : ∀ r ∈ B.filter (·.asserted), ∃ y, evalRule env B r = .ok y := by
      intro r hr
      have hrA := (hfm r).mpr hr
      rw [← hev r (List.mem_filter.mp hrA).1]
      exact hok r hrA
    obtain ⟨pa, hpa⟩ := mapM_ok_of_forall_exists _ _ hok
    obtain ⟨pb, hpb⟩ := mapM_ok_of_forall_exists _ _ hokB
    rw [hpa, hpb]
    intro l
    simp only [mem_dedupFirst, List.mem_flatten]
    constructor
    · rintro ⟨ls, hls, hl⟩
      obtain ⟨r, hr, hrl⟩ := (mem_of_mapM_ok _ _ _ hpa ls).mp hls
      refine ⟨ls, (mem_of_mapM_ok _ _ _ hpb ls).mpr ⟨r, (hfm r).mp hr, ?_⟩, hl⟩
      rw [← hev r (List.mem_filter.mp hr).1]; exact hrl
    · rintro ⟨ls, hls, hl⟩
      obtain ⟨r, hr, hrl⟩ := (mem_of_mapM_ok _ _ _ hpb ls).mp hls
      have hrA := (hfm r).mpr hr
      refine ⟨ls, (mem_of_mapM_ok _ _ _ hpa ls).mpr ⟨r, hrA, ?_⟩, hl⟩
      rw [hev r (List.mem_filter.mp hrA).1]; exact hrl
  · obtain ⟨ea, hea⟩ := mapM_error_of_exists (evalRule env A) _ ⟨x, hx, e, he⟩
    obtain ⟨eb, heb⟩ := mapM_error_of_exists (evalRule env B) (B.filter (·.asserted))
      ⟨x, (hfm x).mp hx, e, by rw [← hev x (List.mem_filter.mp hx).1]; exact he⟩
    rw [hea, heb]
    trivial

/-! ### documents -/

theorem parentTT_perm {d d' : Doc} (hperm : d.tms.Perm d'.tms) (hn : (ids d).Nodup) (q : Str) : parentTT d q = parentTT d' q := by
  unfold parentTT
  rw [find_perm_of_unique _ hperm]
  intro a ha b hb hpa hpb
  simp only [decide_eq_true_eq] at hpa hpb
  exact inj_of_nodup_map (fun t : TriplesMap => t.id) (l := d.tms) hn ha hb (by rw [hpa, hpb])

theorem mem_rawOf_perm {d d' : Doc} (hperm : d.tms.Perm d'.tms) (hn : (ids d).Nodup) (r : Rule) : r ∈ rawOf d ↔ r ∈ rawOf d' := by
  have : d'.tms.flatMap (rulesOfTm d') = d'.tms.flatMap (rulesOfTm d) :=
    flatMap_congr' fun tm _ => rulesOfTm_congr tm fun q _ => (parentTT_perm hperm hn q).symm
  unfold rawOf
  rw [this]
  exact mem_flatMap_perm _ hperm r

theorem pbase_unique_raw {d : Doc} (hn : (ids d).Nodup) {r₁ r₂ : Rule} (h₁ : r₁ ∈ rawOf d) (h₂ : r₂ ∈ rawOf d)
    (e : r₁.tmId = r₂.tmId) : pbaseOf r₁ = pbaseOf r₂ := by
  simp only [rawOf, List.mem_flatMap] at h₁ h₂
  obtain ⟨t₁, ht₁, hr₁⟩ := h₁
  obtain ⟨t₂, ht₂, hr₂⟩ := h₂
  have f₁ := fromTm_of_mem hr₁
  have f₂ := fromTm_of_mem hr₂
  have : t₁ = t₂ := inj_of_nodup_map (fun t : TriplesMap => t.id) (l := d.tms) hn ht₁ ht₂ (by rw [← f₁.tmId, ← f₂.tmId, e])
  subst this
  simp only [pbaseOf, f₁.sourceName, f₁.lsv, f₁.iterator, f₁.smt, f₁.smv, f₁.stt, f₂.sourceName, f₂.lsv, f₂.iterator, f₂.smt,
    f₂.smv, f₂.stt]

/-- two documents with the same set of flat rules (the first with unique identifiers) yield the same statements -/
theorem evalAll_same_raw (env : Env) {d d' : Doc} (hraw : ∀ r, r ∈ rawOf d ↔ r ∈ rawOf d') (hn : (ids d).Nodup) :
    SameSet (evalAll env (normalizeDoc d)) (evalAll env (normalizeDoc d')) := by
  have hmemN : ∀ r, r ∈ dedupFirst (rawOf d) ↔ r ∈ dedupFirst (rawOf d') := by
    intro r
    rw [mem_dedupFirst, mem_dedupFirst]
    exact hraw r
  have huN : ∀ r₁ ∈ dedupFirst (rawOf d), ∀ r₂ ∈ dedupFirst (rawOf d), r₁.tmId = r₂.tmId → pbaseOf r₁ = pbaseOf r₂ :=
    fun r₁ h₁ r₂ h₂ e => pbase_unique_raw hn ((mem_dedupFirst _ _).mp h₁) ((mem_dedupFirst _ _).mp h₂) e
  have helim : ∀ r, eliminateSelfJoin (dedupFirst (rawOf d)) r = eliminateSelfJoin (dedupFirst (rawOf d')) r :=
    fun r => eliminateSelfJoin_congr_pbase fun _ => findRule_pbase_congr hmemN huN _
  have hmemF : ∀ r, r ∈ normalizeDoc d ↔ r ∈ normalizeDoc d' := by
    intro r
    rw [normalizeDoc_eq, normalizeDoc_eq, List.mem_map, List.mem_map]
    constructor
    · rintro ⟨a, ha, rfl⟩; exact ⟨a, (hmemN a).mp ha, (helim a).symm⟩
    · rintro ⟨a, ha, rfl⟩; exact ⟨a, (hmemN a).mpr ha, helim a⟩
  have huF : ∀ r₁ ∈ normalizeDoc d, ∀ r₂ ∈ normalizeDoc d, r₁.tmId = r₂.tmId → pbaseOf r₁ = pbaseOf r₂ := by
    intro r₁ h₁ r₂ h₂ e
    rw [normalizeDoc_eq, List.mem_map] at h₁ h₂
    obtain ⟨a₁, ha₁, rfl⟩ := h₁
    obtain ⟨a₂, ha₂, rfl⟩ := h₂
    rw [tmId_eliminateSelfJoin, tmId_eliminateSelfJoin] at e
    rw [pbaseOf_eliminateSelfJoin, pbaseOf_eliminateSelfJoin]
    exact huN a₁ ha₁ a₂ ha₂ e
  exact evalAll_congr_mem env hmemF fun r _ => evalRule_congr_pbase fun _ => findRule_pbase_congr hmemF huF _

/-- **reordering the triples maps of a document with unique identifiers** -/
theorem evalAll_perm (env : Env) {d d' : Doc} (hperm : d.tms.Perm d'.tms) (hn : (ids d).Nodup) :
    SameSet (evalAll env (normalizeDoc d)) (evalAll env (normalizeDoc d')) :=
  evalAll_same_raw env (mem_rawOf_perm hperm hn) hn

/-! ### reordering the predicate-object maps of one triples map -/

theorem mem_rulesOfTm_pom_perm (d : Doc) (tm : TriplesMap) {poms' : List Pom} (hp : tm.poms.Perm poms') (r : Rule) :
    r ∈ rulesOfTm d tm ↔ r ∈ rulesOfTm d { tm with poms := poms' } := by
  have hpom : ∀ x, x ∈ (tm.poms.flatMap fun pom => pom.predicates.flatMap fun p => pom.objects.flatMap fun o =>
        (pomGraphs tm pom.graphs).map fun g => pomRule d tm p o g) ↔
      x ∈ (poms'.flatMap fun pom => pom.predicates.flatMap fun p => pom.objects.flatMap fun o =>
        (pomGraphs { tm with poms := poms' } pom.graphs).map fun g => pomRule d { tm with poms := poms' } p o g) := by
    intro x
    have e : ∀ (p : TermMap) (o : ObjMap) (g : MapType × Str), pomRule d { tm with poms := poms' } p o g = pomRule d tm p o g := by
      intro p o g; cases o <;> rfl
    simp only [e]
    exact mem_flatMap_perm _ hp x
  rw [rulesOfTm_eq, rulesOfTm_eq]
  have hcls : (({ tm with poms := poms' } : TriplesMap).classes.flatMap fun c =>
        (pomGraphs { tm with poms := poms' } []).map fun g => ruleOf { tm with poms := poms' } classPredTm (classObjTm c) g)
      = (tm.classes.flatMap fun c => (pomGraphs tm []).map fun g => ruleOf tm classPredTm (classObjTm c) g) := rfl
  have hbase : ({ baseRule { tm with poms := poms' } with asserted := false } : Rule) = { baseRule tm with asserted := false } := rfl
  rw [hcls, hbase]
  have hnil : ∀ (A B C : List Rule), (∀ x, x ∈ B ↔ x ∈ C) → (A ++ B = [] ↔ A ++ C = []) := by
    intro A B C h
    simp only [List.eq_nil_iff_forall_not_mem, List.mem_append]
    constructor
    · intro hb x hx
      exact hb x (hx.imp id (h x).mpr)
    · intro hc x hx
      exact hc x (hx.imp id (h x).mp)
  by_cases h1 : (tm.classes.flatMap fun c => (pomGraphs tm []).map fun g => ruleOf tm classPredTm (classObjTm c) g) ++
      (tm.poms.flatMap fun pom => pom.predicates.flatMap fun p => pom.objects.flatMap fun o =>
        (pomGraphs tm pom.graphs).map fun g => pomRule d tm p o g) = []
  · rw [if_pos h1, if_pos ((hnil _ _ _ hpom).mp h1)]
  · rw [if_neg h1, if_neg (fun h => h1 ((hnil _ _ _ hpom).mpr h))]
    simp only [List.mem_append, hpom r]

theorem parentTT_replace (pre post : List TriplesMap) (tm tm' : TriplesMap) (hid : tm'.id = tm.id) (hs : tm'.subject = tm.subject) (q : Str) :
    parentTT ⟨pre ++ tm :: post⟩ q = parentTT ⟨pre ++ tm' :: post⟩ q := by
  unfold parentTT
  simp only [List.find?_append, List.find?_cons, hid]
  cases pre.find? (fun t => decide (t.id = q)) with
  | some x => rfl
  | none =>
    simp only [Option.none_or]
    by_cases h : tm.id = q
    · simp [h, hs]
    · simp [h]

/-- **reordering the predicate-object maps of a triples map** -/
theorem evalAll_pom_perm (env : Env) (pre post : List TriplesMap) (tm : TriplesMap) {poms' : List Pom} (hp : tm.poms.Perm poms')
    (hn : (ids ⟨pre ++ tm :: post⟩).Nodup) :
    SameSet (evalAll env (normalizeDoc ⟨pre ++ tm :: post⟩)) (evalAll env (normalizeDoc ⟨pre ++ { tm with poms := poms' } :: post⟩)) := by
  apply evalAll_same_raw env _ hn
  intro r
  have hcongr : ∀ x, rulesOfTm ⟨pre ++ { tm with poms := poms' } :: post⟩ x = rulesOfTm ⟨pre ++ tm :: post⟩ x :=
    fun x => rulesOfTm_congr x fun q _ => (parentTT_replace pre post tm { tm with poms := poms' } rfl rfl q).symm
  have hfm : ∀ l : List TriplesMap, l.flatMap (rulesOfTm ⟨pre ++ { tm with poms := poms' } :: post⟩)
      = l.flatMap (rulesOfTm ⟨pre ++ tm :: post⟩) := fun l => flatMap_congr' fun x _ => hcongr x
  show r ∈ (pre ++ tm :: post).flatMap (rulesOfTm ⟨pre ++ tm :: post⟩) ↔
    r ∈ (pre ++ { tm with poms := poms' } :: post).flatMap (rulesOfTm ⟨pre ++ { tm with poms := poms' } :: post⟩)
  rw [hfm, List.flatMap_append, List.flatMap_append, List.flatMap_cons, List.flatMap_cons]
  simp only [List.mem_append]
  rw [mem_rulesOfTm_pom_perm ⟨pre ++ tm :: post⟩ tm hp r]

end Model.Sections
