/-
C13, helper lemmas III: `finish` and `mergeFrames` on frames that satisfy the column hygiene of the fragment.
-/
import MorphKgc.Lemmas.StarLine
import MorphKgc.Lemmas.Grouping

namespace Model.Star
open Py Model Spec Spec.Star

/-- the column name carries the `parent_` prefix -/
def hasPP (c : Str) : Bool := Gen.Star.parentPrefix.isPrefixOf c

theorem hasPP_prefixName (c : Str) : hasPP (prefixName c) = true := by
  simp [hasPP, prefixName, List.isPrefixOf_iff_prefix]

/-- a frame that has not been through `_merge_data`: no index name, no `parent_` column -/
def Clean (F : Frame) : Prop := F.index = none ∧ ∀ c ∈ F.allCols, hasPP c = false

theorem mapM_finishRow (env : Env) (r : Rule) (k : MapType) (v a : Str) (rows : List FRow) (g : FRow → Str)
    (h : ∀ φ ∈ rows, lineOf env r k v a φ = .ok (g φ)) :
    rows.mapM (finishRow env r k v a) =
      .ok (rows.map fun φ => { φ with triple := some (g φ), subject := none, object := none }) := by
  apply Model.mapM_ok_of_forall
  intro φ hφ
  simp [finishRow, h φ hφ]

/-- the scratch names `finish` may add -/
def finishNames : List Str := [tripleCol, refResCol, langDtCol]

theorem finish_ok (env : Env) (r : Rule) (nest : Nat) (k : MapType) (v a : Str) (F : Frame) (g : FRow → Str)
    (hcols : ∀ c ∈ colsRead (envAt env nest) r k v a, c ∈ F.srcCols)
    (hrows : ∀ φ ∈ F.rows, lineOf (envAt env nest) r k v a φ = .ok (g φ)) :
    ∃ F', finish env r nest k v a F = .ok F' ∧
      F'.rows = F.rows.map (fun φ => { φ with triple := some (g φ), subject := none, object := none }) ∧
      F'.srcCols = F.srcCols ∧ F'.index = F.index ∧ ∀ n ∈ F'.scratch, n ∈ F.scratch ∨ n ∈ finishNames := by
  have hfind : (colsRead (envAt env nest) r k v a).find? (fun c => !F.srcCols.contains c) = none := by
    rw [List.find?_eq_none]
    intro c hc
    simp [hcols c hc]
  unfold finish
  simp only [hfind, mapM_finishRow _ r k v a F.rows g hrows, bind, Except.bind, pure, Except.pure]
  refine ⟨_, rfl, rfl, rfl, rfl, ?_⟩
  intro n hn
  simp only [Frame.addScratch, List.mem_append, List.mem_filter] at hn
  rcases hn with hn | ⟨hn, _⟩
  · exact .inl hn
  · right
    simp only [finishNames, List.mem_cons, List.mem_append, List.mem_singleton, List.not_mem_nil, or_false] at hn ⊢
    rcases hn with (hn | hn) | hn
    · exact .inl hn
    · split at hn
      · simp at hn
      · simp only [List.mem_singleton] at hn; exact .inr (.inl hn)
    · split at hn
      · simp only [List.mem_singleton] at hn; exact .inr (.inr hn)
      · simp at hn

theorem suffixRow_nil (suf : Str) (σ : SRow) : suffixRow [] suf σ = σ := by
  simp [suffixRow]

theorem suffixNames_nil (suf : Str) (cs : List Str) : suffixNames [] suf cs = cs := by
  simp [suffixNames]

/-- the rows `_merge_data` produces -/
def mergedRows (L R : Frame) (conds : List (Str × Str)) : List FRow :=
  L.rows.flatMap fun l => (R.rows.filter (keysMatch conds l)).map fun p =>
    { l with src := l.src ++ prefixRow p.src, parentTriple := p.triple }

/-- `_merge_data` on a clean child frame: no overlap, no ambiguity, the inner equi-join -/
theorem mergeFrames_ok (L R : Frame) (conds : List (Str × Str)) (hclean : Clean L)
    (hck : ∀ cp ∈ conds, cp.1 ∈ L.srcCols) (hpk : ∀ cp ∈ conds, cp.2 ∈ R.srcCols)
    (hRidx : ∀ k, R.index = some k → hasPP k = false) :
    ∃ M, mergeFrames L R conds = .ok M ∧ M.rows = mergedRows L R conds ∧
      M.srcCols = L.srcCols ++ R.srcCols.map prefixName ∧ M.scratch = L.scratch ++ R.scratch.map prefixName ∧
      (∀ k, M.index = some k → hasPP k = false) := by
  obtain ⟨hidx, hpp⟩ := hclean
  have hf1 : (conds.map (·.1)).find? (fun c => !L.srcCols.contains c) = none := by
    rw [List.find?_eq_none]
    intro c hc
    obtain ⟨cp, hcp, rfl⟩ := List.mem_map.mp hc
    simp [hck cp hcp]
  have hf2 : (conds.map fun c => prefixName c.2).find? (fun c => !(R.srcCols.map prefixName).contains c) = none := by
    rw [List.find?_eq_none]
    intro c hc
    obtain ⟨cp, hcp, rfl⟩ := List.mem_map.mp hc
    have : prefixName cp.2 ∈ R.srcCols.map prefixName := List.mem_map.mpr ⟨cp.2, hpk cp hcp, rfl⟩
    simp [this]
  have hov : L.allCols.filter ((R.srcCols.map prefixName ++ R.scratch.map prefixName).contains ·) = [] := by
    rw [List.filter_eq_nil_iff]
    intro c hc hcon
    have hc' := hpp c hc
    simp only [List.contains_eq_mem, List.mem_append, List.mem_map, decide_eq_true_eq] at hcon
    rcases hcon with ⟨x, _, rfl⟩ | ⟨x, _, rfl⟩ <;> simp [hasPP_prefixName] at hc'
  have hck_pp : ∀ k ∈ conds.map (·.1), hasPP k = false := by
    intro k hk
    obtain ⟨cp, hcp, rfl⟩ := List.mem_map.mp hk
    exact hpp _ (by simp [Frame.allCols, hck cp hcp])
  unfold mergeFrames
  simp only [hf1, hf2, hov]
  by_cases h1 : (Gen.Star.singleConditionUsesJoin && decide (conds.length = 1)) = true
  · by_cases hsfx : Gen.Star.joinSuffixed = true
    · simp only [h1, ↓reduceIte, hsfx, suffixRow_nil, suffixNames_nil]
      exact ⟨_, rfl, rfl, rfl, rfl, by simp⟩
    · simp only [h1, ↓reduceIte, hsfx, Bool.false_eq_true, List.isEmpty_nil, Bool.not_true]
      refine ⟨_, rfl, rfl, rfl, rfl, ?_⟩
      intro k hk
      simp only at hk
      have : k ∈ conds.map (·.1) := List.mem_of_mem_head? hk
      exact hck_pp k this
  · simp only [h1, Bool.false_eq_true, ↓reduceIte, hidx]
    cases hR : R.index with
    | none =>
      simp only [suffixRow_nil, suffixNames_nil]
      exact ⟨_, rfl, rfl, rfl, rfl, by simp⟩
    | some k =>
      have hk := hRidx k hR
      have : ¬ k ∈ conds.map fun c => prefixName c.2 := by
        intro hmem
        obtain ⟨cp, _, rfl⟩ := List.mem_map.mp hmem
        simp [hasPP_prefixName] at hk
      simp only [List.contains_eq_mem, this, decide_false, Bool.false_eq_true, ↓reduceIte, suffixRow_nil, suffixNames_nil]
      exact ⟨_, rfl, rfl, rfl, rfl, by simp⟩

/-! ### cells of merged rows -/

theorem lookup_append {β} (c : Str) (a b : List (Str × β)) :
    lookup c (a ++ b) = match lookup c a with | some v => some v | none => lookup c b := by
  induction a with
  | nil => simp [lookup]
  | cons x a ih =>
    obtain ⟨k, v⟩ := x
    simp only [List.cons_append, lookup]
    by_cases h : k = c
    · simp [h]
    · simp [h, ih]

theorem lookup_append_left {β} {c : Str} {a b : List (Str × β)} {v : β} (h : lookup c a = some v) :
    lookup c (a ++ b) = some v := by
  rw [lookup_append, h]

end Model.Star
