/-
C13, helper lemmas V: the hypotheses of the refinement as one recursive check over the quoted rules, the references
of a flat rule, and: a NULL in any reference leaves the rule nothing to generate.
-/
import MorphKgc.Lemmas.StarSem

namespace Model.Star
open Py Model Spec Spec.Star

def joinKeys : Pos → List Str
  | .term _ => []
  | .quoted _ conds => conds.map (·.1)

theorem refsOfMap_quoted (v : Str) : refsOfMap .quoted v = [] := rfl

theorem posOf_refs (p : Pos) (hp : ∀ tm, p = .term tm → WFTermMap tm = true) :
    refsOfMap (posOf p).1 (posOf p).2.1 = posRefs p := by
  cases p with
  | term tm => simp only [posOf_term, posRefs]; exact refsOfMap_mapOf tm (hp tm rfl)
  | quoted id conds => rfl

theorem posOf_join (p : Pos) : ((posOf p).2.2.2).map (·.1) = joinKeys p := by
  cases p <;> rfl

theorem objLang_refs (p : Pos) :
    (match (objLang p).2.1 with | some mt => refsOfMap mt (objLang p).2.2 | none => []) = [] := by
  cases p with
  | quoted id conds => rfl
  | term om =>
    simp only [objLang]
    rcases langDt_mt om with h | h <;> simp [h, refsOfMap]

theorem FlatWF_parts {dg : Str} {fr : FlatRule} (h : FlatWF dg fr = true) :
    (∀ tm, fr.subject = .term tm → SubjOK tm = true) ∧ PredOK fr.pred = true ∧
    (∀ tm, fr.object = .term tm → ObjOK tm = true) ∧ GraphOK dg fr.graph = true := by
  simp only [FlatWF, Bool.and_eq_true] at h
  obtain ⟨⟨⟨hs, hp⟩, ho⟩, hg⟩ := h
  refine ⟨?_, hp, ?_, hg⟩
  · intro tm e; simpa [PosOK, e] using hs
  · intro tm e; simpa [PosOK, e] using ho

theorem refsOfRule_toRule {dg : Str} (fr : FlatRule) (h : FlatWF dg fr = true) :
    refsOfRule (toRule fr) = posRefs fr.subject ++ tmRefs fr.pred ++ posRefs fr.object ++ tmRefs fr.graph ++
      joinKeys fr.subject ++ joinKeys fr.object := by
  obtain ⟨hs, hp, ho, hg⟩ := FlatWF_parts h
  have hsw : ∀ tm, fr.subject = .term tm → WFTermMap tm = true := fun tm e => by
    have := hs tm e; simp only [SubjOK, Bool.and_eq_true] at this; exact this.1
  have how : ∀ tm, fr.object = .term tm → WFTermMap tm = true := fun tm e => by
    have := ho tm e; simp only [ObjOK, Bool.and_eq_true] at this; exact this.1
  have hpw : WFTermMap fr.pred = true := by simp only [PredOK, Bool.and_eq_true] at hp; exact hp.1
  have hgw : WFTermMap fr.graph = true := by simp only [GraphOK, Bool.and_eq_true] at hg; exact hg.1.1
  have hl := objLang_refs fr.object
  simp only [refsOfRule, Bool.false_eq_true, ↓reduceIte]
  show refsOfMap (posOf fr.subject).1 (posOf fr.subject).2.1 ++ refsOfMap (mapOf fr.pred).1 (mapOf fr.pred).2 ++
      refsOfMap (posOf fr.object).1 (posOf fr.object).2.1 ++ refsOfMap (mapOf fr.graph).1 (mapOf fr.graph).2 ++
      (match (objLang fr.object).2.1 with | some mt => refsOfMap mt (objLang fr.object).2.2 | none => []) ++
      ((posOf fr.subject).2.2.2).map (·.1) ++ ((posOf fr.object).2.2.2).map (·.1) = _
  rw [posOf_refs _ hsw, posOf_refs _ how, refsOfMap_mapOf _ hpw, refsOfMap_mapOf _ hgw, hl, posOf_join, posOf_join]
  simp

theorem ownRefs_sub_frefs {dg : Str} (frs : List FlatRule) (n : Nat) (fr : FlatRule) (h : FlatWF dg fr = true) :
    ∀ c ∈ ownRefs fr, c ∈ frefs frs (n + 1) fr := by
  intro c hc
  rw [frefs_succ, refsOfRule_toRule fr h]
  simp only [ownRefs, List.mem_append] at hc ⊢
  rcases hc with ((hc | hc) | hc) | hc
  · exact .inl (.inl (.inl (.inl (.inl (.inl (.inl hc))))))
  · exact .inl (.inl (.inl (.inl (.inl (.inl (.inr hc))))))
  · exact .inl (.inl (.inl (.inl (.inl (.inr hc)))))
  · exact .inl (.inl (.inl (.inl (.inr hc))))

theorem joinKeys_sub_frefs {dg : Str} (frs : List FlatRule) (n : Nat) (fr : FlatRule) (h : FlatWF dg fr = true) :
    (∀ c ∈ joinKeys fr.subject, c ∈ frefs frs (n + 1) fr) ∧ (∀ c ∈ joinKeys fr.object, c ∈ frefs frs (n + 1) fr) := by
  constructor <;> intro c hc <;> rw [frefs_succ, refsOfRule_toRule fr h] <;> simp only [List.mem_append]
  · exact .inl (.inl (.inl (.inr hc)))
  · exact .inl (.inl (.inr hc))

theorem qrefs_sub_frefs (frs : List FlatRule) (n : Nat) (fr : FlatRule) :
    (∀ c ∈ qrefs frs n fr.subject, c ∈ frefs frs (n + 1) fr) ∧ (∀ c ∈ qrefs frs n fr.object, c ∈ frefs frs (n + 1) fr) := by
  constructor <;> intro c hc <;> rw [frefs_succ] <;> simp only [List.mem_append]
  · exact .inl (.inr hc)
  · exact .inr hc

/-! ### the hypotheses, checked along the quoted rules -/

/-- what a quoted position needs: the quoted rule exists; with join conditions, its logical source delivers no raw null
    objects and has the columns the quoted rule and the join read, and the parent references carry no `parent_` prefix -/
def posLocal (senv : SEnv) (frs : List FlatRule) (n : Nat) : Pos → Bool
  | .term _ => true
  | .quoted id conds =>
    match findFlat frs id with
    | none => false
    | some q =>
      conds.isEmpty ||
      (NoRawNulls (senv.tableF q) && Complete (frefs frs n q ++ conds.map (·.2)) (senv.tableF q) &&
        conds.all fun cp => !hasPP cp.2)

/-- conditions on a flat rule of quoting depth at most `n` (materialised with fuel `n + 1`):
    * `FlatWF`: the term maps are of the C01 fragment;
    * not all-constant (complement of the scope of C13_F1 when the rule is quoted);
    * at most one `_merge_data` on its frame (complement of the scopes of C13_F2 and C13_F3);
    * none of its column references carries the `parent_` prefix -/
def localOK (senv : SEnv) (frs : List FlatRule) (n : Nat) (fr : FlatRule) : Bool :=
  FlatWF senv.defaultGraph fr && !isAllConstant (toRule fr) && decide (merges frs n fr ≤ 1) &&
  (frefs frs (n + 1) fr).all (fun c => !hasPP c) &&
  posLocal senv frs n fr.subject && posLocal senv frs n fr.object &&
  -- the rule reads at least one column (a reader asked for no column returns no row, whatever the table holds)
  !(frefs frs (n + 1) fr).isEmpty

def okAt (senv : SEnv) (frs : List FlatRule) : Nat → FlatRule → Bool
  | 0, fr => localOK senv frs 0 fr && depthLe frs 0 fr
  | n + 1, fr =>
    let sub : Pos → Bool := fun p =>
      match p with
      | .term _ => true
      | .quoted id _ => match findFlat frs id with | none => false | some q => okAt senv frs n q
    localOK senv frs (n + 1) fr && sub fr.subject && sub fr.object

theorem okAt_local {senv : SEnv} {frs : List FlatRule} {n : Nat} {fr : FlatRule} (h : okAt senv frs n fr = true) :
    localOK senv frs n fr = true := by
  cases n with
  | zero => simp only [okAt, Bool.and_eq_true] at h; exact h.1
  | succ n => simp only [okAt, Bool.and_eq_true] at h; exact h.1.1

theorem okAt_zero_pos {senv : SEnv} {frs : List FlatRule} {fr : FlatRule} (h : okAt senv frs 0 fr = true) :
    (∀ id conds, fr.subject ≠ .quoted id conds) ∧ (∀ id conds, fr.object ≠ .quoted id conds) := by
  simp only [okAt, Bool.and_eq_true] at h
  exact depthLe_zero_pos h.2

theorem okAt_succ_pos {senv : SEnv} {frs : List FlatRule} {n : Nat} {fr : FlatRule} (h : okAt senv frs (n + 1) fr = true) :
    (∀ id conds, fr.subject = .quoted id conds → ∃ q, findFlat frs id = some q ∧ okAt senv frs n q = true) ∧
    (∀ id conds, fr.object = .quoted id conds → ∃ q, findFlat frs id = some q ∧ okAt senv frs n q = true) := by
  simp only [okAt, Bool.and_eq_true] at h
  constructor
  · intro id conds hs
    have := h.1.2
    simp only [hs] at this
    cases hq : findFlat frs id with
    | none => simp [hq] at this
    | some q => exact ⟨q, rfl, by simpa [hq] using this⟩
  · intro id conds ho
    have := h.2
    simp only [ho] at this
    cases hq : findFlat frs id with
    | none => simp [hq] at this
    | some q => exact ⟨q, rfl, by simpa [hq] using this⟩

theorem okAt_depthLe {senv : SEnv} {frs : List FlatRule} : ∀ {n : Nat} {fr : FlatRule}, okAt senv frs n fr = true →
    depthLe frs n fr = true := by
  intro n
  induction n with
  | zero => intro fr h; simp only [okAt, Bool.and_eq_true] at h; exact h.2
  | succ n ih =>
    intro fr h
    obtain ⟨hs, ho⟩ := okAt_succ_pos h
    simp only [depthLe, Bool.and_eq_true]
    constructor
    · cases hsub : fr.subject with
      | term tm => rfl
      | quoted id conds =>
        obtain ⟨q, hq, hok⟩ := hs id conds hsub
        simp [hq, ih hok]
    · cases hobj : fr.object with
      | term tm => rfl
      | quoted id conds =>
        obtain ⟨q, hq, hok⟩ := ho id conds hobj
        simp [hq, ih hok]

structure LocalFacts (senv : SEnv) (frs : List FlatRule) (n : Nat) (fr : FlatRule) : Prop where
  wf : FlatWF senv.defaultGraph fr = true
  notConst : isAllConstant (toRule fr) = false
  oneMerge : merges frs n fr ≤ 1
  noPP : ∀ c ∈ frefs frs (n + 1) fr, hasPP c = false
  subj : posLocal senv frs n fr.subject = true
  obj : posLocal senv frs n fr.object = true
  hasRefs : (frefs frs (n + 1) fr).isEmpty = false

theorem localOK_facts {senv : SEnv} {frs : List FlatRule} {n : Nat} {fr : FlatRule} (h : localOK senv frs n fr = true) :
    LocalFacts senv frs n fr := by
  simp only [localOK, Bool.and_eq_true, Bool.not_eq_true', decide_eq_true_eq, List.all_eq_true] at h
  obtain ⟨⟨⟨⟨⟨⟨h1, h2⟩, h3⟩, h4⟩, h5⟩, h6⟩, h7⟩ := h
  exact ⟨h1, h2, h3, fun c hc => by simpa using h4 c hc, h5, h6, h7⟩

end Model.Star
