/-
C12: evaluation of a rule table made of parts (what `evalRule` reads from the rest of the table; unions).
-/
import MorphKgc.Lemmas.Sections

namespace Model.Sections
open Py Spec Model

/-! ### `mapM` in `Except` -/

theorem mapM_except_append {ε α β : Type} (f : α → Except ε β) (xs ys : List α) :
    (xs ++ ys).mapM f = (match xs.mapM f with
      | .error e => .error e
      | .ok a => match ys.mapM f with
        | .error e => .error e
        | .ok b => .ok (a ++ b)) := by
  induction xs with
  | nil =>
    rw [List.nil_append, mapM_except_nil]
    cases ys.mapM f <;> rfl
  | cons x xs ih =>
    rw [List.cons_append, mapM_except_cons, mapM_except_cons, ih]
    cases f x with
    | error e => rfl
    | ok y =>
      cases xs.mapM f with
      | error e => rfl
      | ok a => cases ys.mapM f <;> rfl

theorem mapM_except_congr {ε α β : Type} {f g : α → Except ε β} {l : List α} (h : ∀ x ∈ l, f x = g x) : l.mapM f = l.mapM g := by
  induction l with
  | nil => rw [mapM_except_nil, mapM_except_nil]
  | cons x l ih =>
    rw [mapM_except_cons, mapM_except_cons, h x (by simp), ih (fun y hy => h y (List.mem_cons_of_mem _ hy))]

/-! ### what a rule reads from the rest of the table -/

theorem evalRule_congr {env : Env} {A B : List Rule} {r : Rule}
    (h : r.objectMapType = .parentTM → findRule A r.objectMapValue = findRule B r.objectMapValue) :
    evalRule env A r = evalRule env B r := by
  unfold evalRule
  split
  · rfl
  · split
    · rename_i hp
      rw [h hp]
    · rfl

theorem evalAll_eq (env : Env) (rules : List Rule) :
    evalAll env rules = (match (rules.filter (·.asserted)).mapM (evalRule env rules) with
      | .ok parts => .ok (dedupFirst parts.flatten)
      | .error e => .error e) := by
  unfold evalAll
  cases (rules.filter (·.asserted)).mapM (evalRule env rules) <;> rfl

/-- `z` is the union of `x` and `y`: defined exactly when both are, with the statements of either -/
def UnionOf (x y z : Except MatErr (List Str)) : Prop :=
  match x, y with
  | .ok a, .ok b => ∃ c, z = .ok c ∧ ∀ l, l ∈ c ↔ l ∈ a ∨ l ∈ b
  | _, _ => ∃ e, z = .error e

/-- the same statements (as sets), or both undefined -/
def SameSet (x y : Except MatErr (List Str)) : Prop :=
  match x, y with
  | .ok a, .ok b => ∀ l, l ∈ a ↔ l ∈ b
  | .error _, .error _ => True
  | _, _ => False

theorem evalAll_append (env : Env) (A B : List Rule)
    (hA : ∀ r ∈ A, evalRule env (A ++ B) r = evalRule env A r)
    (hB : ∀ r ∈ B, evalRule env (A ++ B) r = evalRule env B r) :
    UnionOf (evalAll env A) (evalAll env B) (evalAll env (A ++ B)) := by
  rw [evalAll_eq env A, evalAll_eq env B, evalAll_eq env (A ++ B), List.filter_append, mapM_except_append]
  have h1 : (A.filter (·.asserted)).mapM (evalRule env (A ++ B)) = (A.filter (·.asserted)).mapM (evalRule env A) :=
    mapM_except_congr fun r hr => hA r (List.mem_filter.mp hr).1
  have h2 : (B.filter (·.asserted)).mapM (evalRule env (A ++ B)) = (B.filter (·.asserted)).mapM (evalRule env B) :=
    mapM_except_congr fun r hr => hB r (List.mem_filter.mp hr).1
  rw [h1, h2]
  cases (A.filter (·.asserted)).mapM (evalRule env A) with
  | error e => exact ⟨e, rfl⟩
  | ok a =>
    cases (B.filter (·.asserted)).mapM (evalRule env B) with
    | error e => exact ⟨e, rfl⟩
    | ok b =>
      refine ⟨_, rfl, fun l => ?_⟩
      simp only [mem_dedupFirst, List.flatten_append, List.mem_append]

/-- the rules of the first of two parts evaluate as they do alone -/
theorem evalAll_append_left (env : Env) (A X : List Rule)
    (hA : ∀ r ∈ A, evalRule env (A ++ X) r = evalRule env A r) :
    match evalAll env (A ++ X) with
    | .ok c => ∃ a, evalAll env A = .ok a ∧ ∀ l ∈ a, l ∈ c
    | .error _ => True := by
  rw [evalAll_eq env A, evalAll_eq env (A ++ X), List.filter_append, mapM_except_append]
  have h1 : (A.filter (·.asserted)).mapM (evalRule env (A ++ X)) = (A.filter (·.asserted)).mapM (evalRule env A) :=
    mapM_except_congr fun r hr => hA r (List.mem_filter.mp hr).1
  rw [h1]
  cases (A.filter (·.asserted)).mapM (evalRule env A) with
  | error e => trivial
  | ok a =>
    cases (X.filter (·.asserted)).mapM (evalRule env (A ++ X)) with
    | error e => trivial
    | ok b =>
      refine ⟨_, rfl, fun l hl => ?_⟩
      simp only [mem_dedupFirst, List.flatten_append, List.mem_append] at hl ⊢
      exact .inl hl

end Model.Sections

namespace Model.Sections
open Py Spec Model

/-! ### the normalised table of a closed document -/

theorem eliminateSelfJoin_cases (A : List Rule) (r : Rule) :
    eliminateSelfJoin A r = r ∨
      ∃ parent ∈ A, r.objectMapType = .parentTM ∧ parent.tmId = r.objectMapValue ∧
        eliminateSelfJoin A r = { r with objectMapType := parent.subjectMapType, objectMapValue := parent.subjectMapValue,
                                         objectTermtype := parent.subjectTermtype, objectJoin := [] } := by
  unfold eliminateSelfJoin
  split
  · rename_i hp
    split
    · rename_i parent hf
      split
      · right
        refine ⟨parent, List.mem_of_find?_eq_some hf, hp, ?_, rfl⟩
        have := List.find?_some hf
        simpa using this
      · left; rfl
    · left; rfl
  · left; rfl

theorem subjectMapType_ne_parentTM_of_raw {d : Doc} {q : Rule} (h : q ∈ dedupFirst (rawOf d)) : q.subjectMapType ≠ .parentTM := by
  have h' : q ∈ rawOf d := (mem_dedupFirst _ _).mp h
  simp only [rawOf, List.mem_flatMap] at h'
  obtain ⟨tm, _, hq⟩ := h'
  rw [(fromTm_of_mem hq).smt]
  exact mapOf_ne_parentTM _

/-- a rule of the normalised table that still references a parent is an untouched raw rule -/
theorem parentTM_of_mem_normalizeDoc {d : Doc} {r : Rule} (hr : r ∈ normalizeDoc d) (hp : r.objectMapType = .parentTM) :
    r ∈ dedupFirst (rawOf d) := by
  rw [normalizeDoc_eq, List.mem_map] at hr
  obtain ⟨r₀, hr₀, rfl⟩ := hr
  rcases eliminateSelfJoin_cases (dedupFirst (rawOf d)) r₀ with h | ⟨parent, hpar, _, _, h⟩
  · rw [h]; exact hr₀
  · rw [h] at hp
    exact absurd hp (subjectMapType_ne_parentTM_of_raw hpar)

theorem parent_mem_ids {d : Doc} (hc : Closed d) {r : Rule} (hr : r ∈ normalizeDoc d) (hp : r.objectMapType = .parentTM) :
    r.objectMapValue ∈ ids d := by
  have h' : r ∈ rawOf d := (mem_dedupFirst _ _).mp (parentTM_of_mem_normalizeDoc hr hp)
  simp only [rawOf, List.mem_flatMap] at h'
  obtain ⟨tm, htm, hq⟩ := h'
  exact hc tm htm _ (parent_of_mem hq hp)

theorem tmId_mem_normalizeDoc {d : Doc} {r : Rule} (hr : r ∈ normalizeDoc d) : r.tmId ∈ ids d := by
  rw [normalizeDoc_eq, List.mem_map] at hr
  obtain ⟨r₀, hr₀, rfl⟩ := hr
  rw [tmId_eliminateSelfJoin]
  exact tmId_mem_rawOf ((mem_dedupFirst _ _).mp hr₀)

theorem exists_rule_normalizeDoc {d : Doc} {p : Str} (h : p ∈ ids d) : ∃ r ∈ normalizeDoc d, r.tmId = p := by
  obtain ⟨r, hr, he⟩ := exists_rule_of_id (d := d) h
  refine ⟨eliminateSelfJoin (dedupFirst (rawOf d)) r, ?_, ?_⟩
  · rw [normalizeDoc_eq]
    exact List.mem_map.mpr ⟨r, (mem_dedupFirst _ _).mpr hr, rfl⟩
  · rw [tmId_eliminateSelfJoin, he]

/-- inside a table that starts with the normalised table of a closed document, the rules of that document evaluate as alone -/
theorem evalRule_normalizeDoc_append {env : Env} {d : Doc} (hc : Closed d) (X : List Rule) {r : Rule} (hr : r ∈ normalizeDoc d) :
    evalRule env (normalizeDoc d ++ X) r = evalRule env (normalizeDoc d) r := by
  apply evalRule_congr
  intro hp
  exact find_tmId_append_left (exists_rule_normalizeDoc (parent_mem_ids hc hr hp))

theorem closed_append {d₁ d₂ : Doc} (h₁ : Closed d₁) (h₂ : Closed d₂) : Closed (d₁ ++ d₂) := by
  intro tm htm p hp
  rw [ids_append, List.mem_append]
  rcases List.mem_append.mp htm with h | h
  · exact .inl (h₁ tm h p hp)
  · exact .inr (h₂ tm h p hp)

/-- a document assembled from a list of parts -/
def joinDocs : List Doc → Doc
  | [] => ⟨[]⟩
  | d :: ds => d ++ joinDocs ds

theorem ids_joinDocs (parts : List Doc) (x : Str) : x ∈ ids (joinDocs parts) ↔ ∃ d ∈ parts, x ∈ ids d := by
  induction parts with
  | nil => simp [joinDocs, ids]
  | cons d ds ih => simp [joinDocs, ids_append, ih]

theorem closed_joinDocs {parts : List Doc} (h : ∀ d ∈ parts, Closed d) : Closed (joinDocs parts) := by
  induction parts with
  | nil => intro tm htm; simp [joinDocs] at htm
  | cons d ds ih =>
    exact closed_append (h d (by simp)) (ih fun d' hd' => h d' (List.mem_cons_of_mem _ hd'))

end Model.Sections
