/-
The scan lemma behind the partitioner (C03).

`ltStr` is a strict total order on strings; the strings extending a given head form an interval of that order; hence
the head-based scan over a sorted list (`x.startswith(current_head)`, or `x == current_head` when all maps are
constants) gives different group numbers only to prefix-incomparable (resp. different) keys.
-/
import MorphKgc.Py.Str
import MorphKgc.Lemmas.Grouping

namespace Py

/-! ### `ltStr` is a strict total order -/

theorem ltStr_irrefl (a : Str) : ltStr a a = false := by
  induction a with
  | nil => rfl
  | cons x a ih => simp [ltStr, ih]

theorem ltStr_nil_right (a : Str) : ltStr a [] = false := by
  cases a <;> rfl

theorem ltStr_cons_cons (x y : Char) (a b : Str) :
    ltStr (x :: a) (y :: b) = (decide (x.toNat < y.toNat) || (decide (x.toNat = y.toNat) && ltStr a b)) := by
  rw [ltStr]
  by_cases h1 : x.toNat < y.toNat
  · simp [h1]
  · by_cases h2 : x.toNat > y.toNat
    · have h3 : x.toNat ≠ y.toNat := by omega
      simp [h1, h2, h3]
    · have h3 : x.toNat = y.toNat := by omega
      simp [h3]

theorem char_eq_of_toNat_eq {x y : Char} (h : x.toNat = y.toNat) : x = y := by
  apply Char.ext
  apply UInt32.toNat_inj.mp
  exact h

theorem ltStr_trans : ∀ (a b c : Str), ltStr a b = true → ltStr b c = true → ltStr a c = true := by
  intro a
  induction a with
  | nil =>
    intro b c h1 h2
    cases c with
    | nil => rw [ltStr_nil_right] at h2; cases h2
    | cons _ _ => rfl
  | cons x a ih =>
    intro b c h1 h2
    cases b with
    | nil => simp [ltStr] at h1
    | cons y b =>
      cases c with
      | nil => simp [ltStr] at h2
      | cons z c =>
        rw [ltStr_cons_cons] at h1 h2 ⊢
        simp only [Bool.or_eq_true, Bool.and_eq_true, decide_eq_true_eq] at h1 h2 ⊢
        rcases h1 with h1 | ⟨e1, h1⟩
        · rcases h2 with h2 | ⟨e2, _⟩
          · left; omega
          · left; omega
        · rcases h2 with h2 | ⟨e2, h2⟩
          · left; omega
          · right; exact ⟨by omega, ih b c h1 h2⟩

theorem ltStr_asymm : ∀ (a b : Str), ltStr a b = true → ltStr b a = false := by
  intro a b h
  cases h' : ltStr b a with
  | false => rfl
  | true =>
    have := ltStr_trans a b a h h'
    rw [ltStr_irrefl] at this; cases this

/-- trichotomy -/
theorem ltStr_total : ∀ (a b : Str), ltStr a b = false → ltStr b a = false → a = b := by
  intro a
  induction a with
  | nil =>
    intro b h1 _
    cases b with
    | nil => rfl
    | cons _ _ => simp [ltStr] at h1
  | cons x a ih =>
    intro b h1 h2
    cases b with
    | nil => simp [ltStr] at h2
    | cons y b =>
      rw [ltStr_cons_cons] at h1 h2
      simp only [Bool.or_eq_false_iff, Bool.and_eq_false_iff, decide_eq_false_iff_not] at h1 h2
      have hxy : x.toNat = y.toNat := by omega
      have h1' : ltStr a b = false := by
        rcases h1.2 with h | h
        · exact absurd hxy h
        · exact h
      have h2' : ltStr b a = false := by
        rcases h2.2 with h | h
        · exact absurd hxy.symm h
        · exact h
      rw [char_eq_of_toNat_eq hxy, ih b h1' h2']

theorem strictOrd_ltStr : StrictOrd ltStr := ⟨ltStr_asymm, ltStr_trans⟩

/-- `a ≤ b` in code-point order -/
def le (a b : Str) : Prop := ltStr b a = false

theorem le_refl (a : Str) : le a a := ltStr_irrefl a

theorem le_antisymm {a b : Str} (h1 : le a b) (h2 : le b a) : a = b := ltStr_total a b h2 h1

theorem le_trans {a b c : Str} (h1 : le a b) (h2 : le b c) : le a c := by
  unfold le at *
  cases h : ltStr c a with
  | false => rfl
  | true =>
    cases h' : ltStr a b with
    | true => rw [ltStr_trans c a b h h'] at h2; cases h2
    | false =>
      have : a = b := ltStr_total a b h' h1
      subst this
      rw [h] at h2; cases h2

/-! ### prefixes and the order -/

theorem startsWith_nil (s : Str) : startsWith s [] = true := by simp [startsWith]

theorem startsWith_refl (s : Str) : startsWith s s = true := by simp [startsWith]

theorem startsWith_cons_cons (x y : Char) (s p : Str) :
    startsWith (x :: s) (y :: p) = (decide (y = x) && startsWith s p) := by
  simp only [startsWith, List.isPrefixOf]
  congr 1

theorem startsWith_nil_left (p : Str) : startsWith [] p = true ↔ p = [] := by
  cases p <;> simp [startsWith]

theorem startsWith_trans {a b c : Str} (h1 : startsWith a b = true) (h2 : startsWith b c = true) :
    startsWith a c = true := by
  unfold startsWith at *
  rw [List.isPrefixOf_iff_prefix] at *
  exact h2.trans h1

/-- a string is at least any of its prefixes -/
theorem le_of_startsWith : ∀ {x h : Str}, startsWith x h = true → le h x := by
  intro x h
  induction h generalizing x with
  | nil => intro _; exact ltStr_nil_right x
  | cons c h ih =>
    intro hs
    cases x with
    | nil => simp [startsWith] at hs
    | cons d x =>
      rw [startsWith_cons_cons] at hs
      simp only [Bool.and_eq_true, decide_eq_true_eq] at hs
      obtain ⟨rfl, hs⟩ := hs
      unfold le
      rw [ltStr_cons_cons]
      simp [show ¬ (c.toNat < c.toNat) by omega]
      exact ih hs

/-- **prefix interval**: the strings extending `a` form an interval: `a ≤ b ≤ c` and `c` extends `a` ⟹ `b` extends `a` -/
theorem prefix_interval : ∀ {a b c : Str}, le a b → le b c → startsWith c a = true → startsWith b a = true := by
  intro a
  induction a with
  | nil => intro b _ _ _ _; exact startsWith_nil b
  | cons x a ih =>
    intro b c hab hbc hc
    cases c with
    | nil => simp [startsWith] at hc
    | cons z c =>
      rw [startsWith_cons_cons] at hc
      simp only [Bool.and_eq_true, decide_eq_true_eq] at hc
      obtain ⟨rfl, hc⟩ := hc
      cases b with
      | nil => simp [le, ltStr] at hab
      | cons y b =>
        unfold le at hab hbc
        rw [ltStr_cons_cons] at hab hbc
        simp only [Bool.or_eq_false_iff, Bool.and_eq_false_iff, decide_eq_false_iff_not] at hab hbc
        have hxy : x.toNat = y.toNat := by omega
        have e := char_eq_of_toNat_eq hxy
        subst e
        rw [startsWith_cons_cons]
        simp only [decide_true, Bool.true_and]
        refine ih (c := c) ?_ ?_ hc
        · rcases hab.2 with h | h
          · exact absurd rfl h
          · exact h
        · rcases hbc.2 with h | h
          · exact absurd rfl h
          · exact h

/-! ### the scan -/

/-- what the scan needs of the "joins the current head" test (`startswith`, or `==`) -/
structure HeadRel (rel : Str → Str → Bool) : Prop where
  refl : ∀ k, rel k k = true
  le : ∀ {x h}, rel x h = true → le h x
  trans : ∀ {a b c}, rel a b = true → rel b c = true → rel a c = true
  interval : ∀ {a b c}, Py.le a b → Py.le b c → rel c a = true → rel b a = true

theorem headRel_startsWith : HeadRel startsWith :=
  ⟨startsWith_refl, le_of_startsWith, startsWith_trans, prefix_interval⟩

theorem headRel_eq : HeadRel (fun a b : Str => decide (a = b)) where
  refl := by simp
  le := by intro x h e; simp at e; subst e; exact le_refl _
  trans := by intro a b c h1 h2; simp at *; exact h1.trans h2
  interval := by
    intro a b c hab hbc e
    simp at e ⊢; subst e
    exact le_antisymm hbc hab

/-- the scan on keys: `(group, head)`; a key related to the head joins the group, otherwise it opens group+1 and
    becomes the head -/
def keyStep (rel : Str → Str → Bool) (st : Nat × Str) (k : Str) : Nat × (Nat × Str) :=
  if rel k st.2 then (st.1, st) else (st.1 + 1, (st.1 + 1, k))

/-- keys are sorted -/
def SortedKeys (ks : List Str) : Prop := ks.Pairwise fun a b => le a b

/-- two keys are unrelated both ways (`startswith`: prefix-incomparable; `==`: different) -/
def Unrel (rel : Str → Str → Bool) (a b : Str) : Prop := rel a b = false ∧ rel b a = false

theorem unrel_of_le {rel : Str → Str → Bool} (hr : HeadRel rel) {x y : Str} (hle : le x y) (h : rel y x = false) :
    Unrel rel x y := by
  refine ⟨?_, h⟩
  cases h' : rel x y with
  | false => rfl
  | true =>
    have : x = y := le_antisymm hle (hr.le h')
    subst this
    rw [hr.refl] at h; cases h

/-- while the head is below all keys, every key related to the head is in the head's group -/
theorem scan_head_group {rel : Str → Str → Bool} (hr : HeadRel rel) (g : Nat) (h : Str) (ks : List Str)
    (hs : SortedKeys ks) (hle : ∀ k ∈ ks, le h k) :
    ∀ p ∈ ks.zip (scanMap (keyStep rel) (g, h) ks), rel p.1 h = true → p.2 = g := by
  induction ks with
  | nil => intro p hp; cases hp
  | cons k ks ih =>
    intro p hp hrel
    rw [SortedKeys, List.pairwise_cons] at hs
    by_cases hk : rel k h = true
    · have e : keyStep rel (g, h) k = (g, (g, h)) := by simp [keyStep, hk]
      simp only [scanMap, e, List.zip_cons_cons, List.mem_cons] at hp
      rcases hp with rfl | hp
      · rfl
      · exact ih hs.2 (fun k' hk' => hle k' (List.mem_cons_of_mem _ hk')) p hp hrel
    · -- no later key is related to `h`
      have hno : ∀ k' ∈ k :: ks, rel k' h = false := by
        intro k' hk'
        rcases List.mem_cons.mp hk' with rfl | hk'
        · simpa using hk
        · cases h' : rel k' h with
          | false => rfl
          | true => exact absurd (hr.interval (hle k (by simp)) (hs.1 k' hk') h') hk
      have : p.1 ∈ k :: ks := (List.of_mem_zip hp).1
      rw [hno p.1 this] at hrel; cases hrel

/-- **Scan lemma.** Over sorted keys, from any initial state, two keys that receive different group numbers are
    unrelated both ways. -/
theorem scan_separates {rel : Str → Str → Bool} (hr : HeadRel rel) (g : Nat) (h : Str) (ks : List Str)
    (hs : SortedKeys ks) :
    ∀ p ∈ ks.zip (scanMap (keyStep rel) (g, h) ks), ∀ q ∈ ks.zip (scanMap (keyStep rel) (g, h) ks),
      p.2 ≠ q.2 → Unrel rel p.1 q.1 := by
  induction ks generalizing g h with
  | nil => intro p hp; cases hp
  | cons k ks ih =>
    have hs' := hs
    rw [SortedKeys, List.pairwise_cons] at hs'
    -- the head pair against a later pair
    have headCase : ∀ (g' : Nat) (h' : Str), rel k h' = true → (∀ k' ∈ ks, le h' k') →
        ∀ q ∈ ks.zip (scanMap (keyStep rel) (g', h') ks), g' ≠ q.2 → Unrel rel k q.1 := by
      intro g' h' hkh hle q hq hne
      have hq1 : q.1 ∈ ks := (List.of_mem_zip hq).1
      have hnq : rel q.1 h' = false := by
        cases hc : rel q.1 h' with
        | false => rfl
        | true => exact absurd (scan_head_group hr g' h' ks hs'.2 hle q hq hc).symm hne
      refine unrel_of_le hr (hs'.1 q.1 hq1) ?_
      cases hc : rel q.1 k with
      | false => rfl
      | true => rw [hr.trans hc hkh] at hnq; cases hnq
    intro p hp q hq hne
    by_cases hk : rel k h = true
    · have e : keyStep rel (g, h) k = (g, (g, h)) := by simp [keyStep, hk]
      simp only [scanMap, e, List.zip_cons_cons, List.mem_cons] at hp hq
      have hle : ∀ k' ∈ ks, le h k' := fun k' hk' => le_trans (hr.le hk) (hs'.1 k' hk')
      rcases hp with rfl | hp <;> rcases hq with rfl | hq
      · exact absurd rfl hne
      · exact headCase g h hk hle q hq hne
      · have := headCase g h hk hle p hp (fun e => hne e.symm)
        exact ⟨this.2, this.1⟩
      · exact ih g h hs'.2 p hp q hq hne
    · have e : keyStep rel (g, h) k = (g + 1, (g + 1, k)) := by simp [keyStep, hk]
      simp only [scanMap, e, List.zip_cons_cons, List.mem_cons] at hp hq
      rcases hp with rfl | hp <;> rcases hq with rfl | hq
      · exact absurd rfl hne
      · exact headCase (g + 1) k (hr.refl k) hs'.1 q hq hne
      · have := headCase (g + 1) k (hr.refl k) hs'.1 p hp (fun e => hne e.symm)
        exact ⟨this.2, this.1⟩
      · exact ih (g + 1) k hs'.2 p hp q hq hne

end Py
