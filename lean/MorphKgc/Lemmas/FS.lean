/-
Helper lemmas for C17: the removal loop, the write loop, frame conditions, directories, and the path primitives
on simple names.  The property theorems are in `Props/C17.lean`.
-/
import MorphKgc.Model.FS

namespace Model
open Py

/-! ### the loops never touch anything but output paths (no success hypothesis needed) -/

theorem removeEach_dirs (r : RunCfg) (gs : List Str) (fs : FS) : (removeEach r fs gs).fs.dirs = fs.dirs := by
  induction gs generalizing fs with
  | nil => rfl
  | cons g gs ih =>
    simp only [removeEach]
    split
    · rfl
    · rw [ih]; rfl

theorem removeEach_frame (r : RunCfg) (gs : List Str) (fs : FS) (q : Path)
    (hq : ∀ g : Option Str, r.path g ≠ .ok q) : (removeEach r fs gs).fs.files q = fs.files q := by
  induction gs generalizing fs with
  | nil => rfl
  | cons g gs ih =>
    simp only [removeEach]
    split
    · rfl
    · rename_i p hp
      rw [ih]
      have : q ≠ p := fun h => hq (some g) (h ▸ hp)
      simp [FS.remove, this]

theorem openWrite_dirs {mode : Gen.OpenMode} {fs fs' : FS} {p : Path} {ls : List Line}
    (h : fs.openWrite mode p ls = .ok fs') : fs'.dirs = fs.dirs := by
  unfold FS.openWrite at h
  split at h
  · cases mode <;> simp at h <;> subst h <;> rfl
  · simp at h

theorem writeGroups_dirs (mode : Gen.OpenMode) (r : RunCfg) (gs : List (Str × List Str)) (fs : FS) :
    (writeGroups mode r fs gs).fs.dirs = fs.dirs := by
  induction gs generalizing fs with
  | nil => rfl
  | cons g gs ih =>
    simp only [writeGroups]
    split
    · rfl
    · split
      · rfl
      · rename_i fs' h
        rw [ih, openWrite_dirs h]

theorem openWrite_frame {mode : Gen.OpenMode} {fs fs' : FS} {p : Path} {ls : List Line}
    (h : fs.openWrite mode p ls = .ok fs') (q : Path) (hq : q ≠ p) : fs'.files q = fs.files q := by
  unfold FS.openWrite at h
  split at h
  · cases mode <;> simp at h <;> subst h <;> simp [FS.append, FS.write, hq]
  · simp at h

theorem writeGroups_frame (mode : Gen.OpenMode) (r : RunCfg) (gs : List (Str × List Str)) (fs : FS) (q : Path)
    (hq : ∀ g : Option Str, r.path g ≠ .ok q) : (writeGroups mode r fs gs).fs.files q = fs.files q := by
  induction gs generalizing fs with
  | nil => rfl
  | cons g gs ih =>
    simp only [writeGroups]
    split
    · rfl
    · rename_i p hp
      split
      · rfl
      · rename_i fs' h
        rw [ih, openWrite_frame h]
        exact fun e => hq (some g.1) (e ▸ hp)

/-! ### the removal loop -/

theorem removeEach_files (r : RunCfg) (gs : List Str) (fs : FS) (h : (removeEach r fs gs).err = none) (p : Path) :
    (removeEach r fs gs).fs.files p = if gs.any (fun g => r.goesTo g p) then none else fs.files p := by
  induction gs generalizing fs with
  | nil => simp [removeEach]
  | cons g gs ih =>
    simp only [removeEach] at h ⊢
    split
    · rename_i e he
      simp [he] at h
    · rename_i q hq
      simp only [hq] at h
      rw [ih _ h]
      simp only [List.any_cons, RunCfg.goesTo, hq]
      by_cases hpq : q = p
      · subst hpq; simp [FS.remove]
      · have : ¬ p = q := fun e => hpq e.symm
        simp [FS.remove, hpq, this]

/-! ### the write loop in append mode -/

theorem stmtsOf_nil_of_not_any (r : RunCfg) (gs : List (Str × List Str)) (p : Path)
    (h : gs.any (fun g => r.goesTo g.1 p) = false) : stmtsOf r gs p = [] := by
  induction gs with
  | nil => rfl
  | cons g gs ih =>
    simp only [List.any_cons, Bool.or_eq_false_iff] at h
    simp [stmtsOf, h.1]
    have := ih h.2
    simpa [stmtsOf] using this

theorem writeGroups_untouched (mode : Gen.OpenMode) (r : RunCfg) (gs : List (Str × List Str)) (fs : FS) (p : Path)
    (h : gs.any (fun g => r.goesTo g.1 p) = false) : (writeGroups mode r fs gs).fs.files p = fs.files p := by
  induction gs generalizing fs with
  | nil => rfl
  | cons g gs ih =>
    simp only [List.any_cons, Bool.or_eq_false_iff] at h
    simp only [writeGroups]
    split
    · rfl
    · rename_i q hq
      split
      · rfl
      · rename_i fs' hw
        rw [ih _ h.2, openWrite_frame hw]
        intro e
        have := h.1
        simp [RunCfg.goesTo, hq, e] at this

theorem writeGroups_append_files (r : RunCfg) (gs : List (Str × List Str)) (fs : FS)
    (h : (writeGroups .append r fs gs).err = none) (p : Path) (hp : gs.any (fun g => r.goesTo g.1 p) = true) :
    (writeGroups .append r fs gs).fs.files p = some ((fs.files p).getD [] ++ stmtsOf r gs p) := by
  induction gs generalizing fs with
  | nil => simp at hp
  | cons g gs ih =>
    simp only [writeGroups] at h ⊢
    split
    · rename_i e he
      simp [he] at h
    · rename_i q hq
      simp only [hq] at h
      split
      · rename_i e he
        simp [he] at h
      · rename_i fs' hw
        simp only [hw] at h
        have hfs' : fs' = fs.append q (g.2.map lineOf) := by
          unfold FS.openWrite at hw
          split at hw
          · simp at hw; exact hw.symm
          · simp at hw
        by_cases hq' : q = p
        · -- this group goes to `p`
          have hg : r.goesTo g.1 p = true := by simp [RunCfg.goesTo, hq, hq']
          have hfp : fs'.files p = some ((fs.files p).getD [] ++ g.2.map lineOf) := by
            subst hfs'; subst hq'; simp [FS.append]
          cases hrest : gs.any (fun g => r.goesTo g.1 p) with
          | true =>
            rw [ih _ h hrest, hfp]
            simp [stmtsOf, hg]
          | false =>
            rw [writeGroups_untouched _ _ _ _ _ hrest, hfp]
            have hnil := stmtsOf_nil_of_not_any r gs p hrest
            have e : stmtsOf r (g :: gs) p = g.2.map lineOf ++ stmtsOf r gs p := by simp [stmtsOf, hg]
            rw [e, hnil]; simp
        · have hg : r.goesTo g.1 p = false := by simp [RunCfg.goesTo, hq, hq']
          have hrest : gs.any (fun g => r.goesTo g.1 p) = true := by
            simpa [List.any_cons, hg] using hp
          have hfp : fs'.files p = fs.files p := by
            subst hfs'
            have : ¬ p = q := fun e => hq' e.symm
            simp [FS.append, this]
          rw [ih _ h hrest, hfp]
          simp [stmtsOf, hg]

/-- all opens succeed when every group has a path whose directory exists -/
theorem writeGroups_ok (mode : Gen.OpenMode) (r : RunCfg) (gs : List (Str × List Str)) (fs : FS)
    (h : ∀ g ∈ gs, ∃ p, r.path (some g.1) = .ok p ∧ fs.dirExists (parsePath (dirname p)) = true) :
    (writeGroups mode r fs gs).err = none := by
  induction gs generalizing fs with
  | nil => rfl
  | cons g gs ih =>
    obtain ⟨p, hp, hd⟩ := h g (List.mem_cons_self ..)
    simp only [writeGroups, hp]
    simp only [FS.openWrite, hd, if_true]
    apply ih
    intro g' hg'
    obtain ⟨p', hp', hd'⟩ := h g' (List.mem_cons_of_mem _ hg')
    refine ⟨p', hp', ?_⟩
    cases mode <;> simpa [FS.dirExists, FS.append, FS.write] using hd'

theorem mem_targets {r : RunCfg} {p : Path} : p ∈ targets r ↔ ∃ g ∈ r.groups, r.path (some g.1) = .ok p := by
  simp only [targets, List.mem_filterMap]
  constructor
  · rintro ⟨g, hg, h⟩
    refine ⟨g, hg, ?_⟩
    split at h <;> simp_all
  · rintro ⟨g, hg, h⟩
    exact ⟨g, hg, by simp [h]⟩

theorem any_goesTo_of_mem_targets {r : RunCfg} {p : Path} (h : p ∈ targets r) :
    r.groups.any (fun g => r.goesTo g.1 p) = true := by
  obtain ⟨g, hg, hp⟩ := mem_targets.mp h
  simp only [List.any_eq_true]
  exact ⟨g, hg, by simp [RunCfg.goesTo, hp]⟩

/-! ### path primitives -/

theorem joinSlash_snoc (l : List Str) (x : Str) :
    joinSlash (l ++ [x]) = (if l = [] then [] else joinSlash l ++ ['/']) ++ x := by
  induction l with
  | nil => simp [joinSlash]
  | cons a l ih =>
    cases l with
    | nil => simp [joinSlash]
    | cons b l =>
      simp only [List.cons_append, joinSlash] at ih ⊢
      rw [ih]
      simp

theorem splitSlash_of_no_slash (g : Str) (h : '/' ∉ g) : splitSlash g = [g] := by
  induction g with
  | nil => rfl
  | cons c g ih =>
    have hc : c ≠ '/' := fun e => h (e ▸ List.mem_cons_self ..)
    have hg : '/' ∉ g := fun e => h (List.mem_cons_of_mem _ e)
    simp [splitSlash, hc, ih hg]

theorem splitRoot_of_not_slash (g : Str) (h : g.head? ≠ some '/') : splitRoot g = ([], g) := by
  unfold splitRoot
  split <;> simp_all

/-- a non-empty name without `/` and `.` (every partition label of the engine is of this kind: digits and `-`) -/
def SimpleName (g : Str) : Prop := g ≠ [] ∧ '/' ∉ g ∧ '.' ∉ g

instance (g : Str) : Decidable (SimpleName g) := by unfold SimpleName; infer_instance

theorem parsePath_simple {g : Str} (h : SimpleName g) : parsePath g = { root := [], parts := [g] } := by
  obtain ⟨hne, hs, hd⟩ := h
  have hh : g.head? ≠ some '/' := by
    cases g with
    | nil => simp
    | cons c g =>
      simp only [List.head?_cons, ne_eq, Option.some.injEq]
      exact fun e => hs (e ▸ List.mem_cons_self ..)
  have hdot : g ≠ ['.'] := fun e => hd (e ▸ List.mem_cons_self ..)
  simp [parsePath, splitRoot_of_not_slash g hh, splitSlash_of_no_slash g hs, hne, hdot]

theorem takeWhile_all {α} (p : α → Bool) (l : List α) (h : ∀ x ∈ l, p x = true) : l.takeWhile p = l := by
  induction l with
  | nil => rfl
  | cons a l ih =>
    simp [h a (List.mem_cons_self ..), ih (fun x hx => h x (List.mem_cons_of_mem _ hx))]

theorem splitSuffix_no_dot {g : Str} (hd : '.' ∉ g) : splitSuffix g = (g, []) := by
  unfold splitSuffix
  have : g.reverse.takeWhile (· ≠ '.') = g.reverse := by
    apply takeWhile_all
    intro c hc
    have : c ≠ '.' := fun e => hd (e ▸ List.mem_reverse.mp hc)
    simpa using this
  rw [this]; simp

/-! ### well-formed parsed paths: `parsePath ∘ pathStr = id`, `dirname ∘ pathStr = pathStr ∘ parent` -/

def WfParts (ps : List Str) : Prop := ∀ x ∈ ps, x ≠ [] ∧ '/' ∉ x ∧ x ≠ ['.']
def WfRoot (root : Str) : Prop := root = [] ∨ root = ['/'] ∨ root = ['/', '/']

theorem splitSlash_ne_nil (s : Str) : splitSlash s ≠ [] := by
  induction s with
  | nil => simp [splitSlash]
  | cons c s ih =>
    simp only [splitSlash]
    split
    · simp
    · split <;> simp

theorem splitSlash_mem_no_slash (s : Str) : ∀ x ∈ splitSlash s, '/' ∉ x := by
  induction s with
  | nil => simp [splitSlash]
  | cons c s ih =>
    simp only [splitSlash]
    split
    · intro x hx
      rcases List.mem_cons.mp hx with rfl | hx
      · simp
      · exact ih x hx
    · rename_i hc
      split
      · rename_i y ys hy
        intro x hx
        rcases List.mem_cons.mp hx with rfl | hx
        · intro hmem
          rcases List.mem_cons.mp hmem with e | hmem
          · exact hc e.symm
          · exact ih y (hy ▸ List.mem_cons_self ..) hmem
        · exact ih x (hy ▸ List.mem_cons_of_mem _ hx)
      · intro x hx
        simp at hx
        subst hx
        simpa using fun e => hc e.symm

theorem splitRoot_wf (s : Str) : WfRoot (splitRoot s).1 := by
  unfold splitRoot WfRoot
  split <;> simp

theorem parsePath_wf (s : Str) : WfRoot (parsePath s).root ∧ WfParts (parsePath s).parts := by
  refine ⟨splitRoot_wf s, ?_⟩
  intro x hx
  simp only [parsePath, List.mem_filter, decide_eq_true_eq] at hx
  exact ⟨hx.2.1, splitSlash_mem_no_slash _ x hx.1, hx.2.2⟩

theorem splitSlash_append_slash (a b : Str) (ha : '/' ∉ a) : splitSlash (a ++ '/' :: b) = a :: splitSlash b := by
  induction a with
  | nil => simp [splitSlash]
  | cons c a ih =>
    have hc : c ≠ '/' := fun e => ha (e ▸ List.mem_cons_self ..)
    have ha' : '/' ∉ a := fun e => ha (List.mem_cons_of_mem _ e)
    simp [splitSlash, hc, ih ha']

theorem splitSlash_joinSlash (ps : List Str) (hne : ps ≠ []) (h : ∀ x ∈ ps, '/' ∉ x) : splitSlash (joinSlash ps) = ps := by
  induction ps with
  | nil => exact absurd rfl hne
  | cons x ps ih =>
    cases ps with
    | nil => simp [joinSlash, splitSlash_of_no_slash x (h x (List.mem_cons_self ..))]
    | cons y r =>
      simp only [joinSlash]
      rw [splitSlash_append_slash _ _ (h x (List.mem_cons_self ..)), ih (by simp) (fun z hz => h z (List.mem_cons_of_mem _ hz))]

theorem joinSlash_head (ps : List Str) (h : WfParts ps) : (joinSlash ps).head? ≠ some '/' := by
  cases ps with
  | nil => simp [joinSlash]
  | cons x ps =>
    obtain ⟨hne, hs, _⟩ := h x (List.mem_cons_self ..)
    cases x with
    | nil => exact absurd rfl hne
    | cons c x =>
      have hc : c ≠ '/' := fun e => hs (e ▸ List.mem_cons_self ..)
      cases ps <;> simp [joinSlash, hc]

/-- `parsePath ∘ pathStr` is the identity on well-formed paths -/
theorem parsePath_root_join (root : Str) (ps : List Str) (hr : WfRoot root) (h : WfParts ps) :
    parsePath (root ++ joinSlash ps) = { root := root, parts := ps } := by
  have hh := joinSlash_head ps h
  have hsr : splitRoot (root ++ joinSlash ps) = (root, joinSlash ps) := by
    rcases hr with rfl | rfl | rfl
    · simpa using splitRoot_of_not_slash _ hh
    · cases hj : joinSlash ps with
      | nil => simp [splitRoot]
      | cons c s =>
        have hc : c ≠ '/' := by intro e; rw [hj] at hh; simp [e] at hh
        simp only [List.cons_append, List.nil_append]
        unfold splitRoot
        split <;> simp_all
    · cases hj : joinSlash ps with
      | nil => simp [splitRoot]
      | cons c s =>
        have hc : c ≠ '/' := by intro e; rw [hj] at hh; simp [e] at hh
        simp only [List.cons_append, List.nil_append]
        unfold splitRoot
        split
        · simp_all
        · simp_all
        · rename_i h1 h2
          simp only [List.cons.injEq, true_and] at h2
          exact absurd h2.symm (h1 _)
        · simp_all
  simp only [parsePath, hsr]
  cases hps : ps with
  | nil => simp [joinSlash, splitSlash]
  | cons a l =>
    rw [← hps, splitSlash_joinSlash ps (by simp [hps]) (fun x hx => (h x hx).2.1)]
    congr 1
    apply List.filter_eq_self.mpr
    intro x hx
    have := h x hx
    simp [this.1, this.2.2]

theorem dropWhile_append_all {α} (p : α → Bool) (l₁ l₂ : List α) (h : ∀ a ∈ l₁, p a = true) :
    (l₁ ++ l₂).dropWhile p = l₂.dropWhile p := by
  induction l₁ with
  | nil => rfl
  | cons a l ih =>
    simp [h a (List.mem_cons_self ..), ih (fun x hx => h x (List.mem_cons_of_mem _ hx))]

theorem joinSlash_last (ps : List Str) (hne : ps ≠ []) (h : WfParts ps) :
    ∃ init c, joinSlash ps = init ++ [c] ∧ c ≠ '/' := by
  obtain ⟨ps', y, rfl⟩ : ∃ ps' y, ps = ps' ++ [y] := by
    rcases List.eq_nil_or_concat ps with e | ⟨l, a, e⟩
    · exact absurd e hne
    · exact ⟨l, a, by simpa using e⟩
  obtain ⟨hy, hs, _⟩ := h y (by simp)
  obtain ⟨y', c, rfl⟩ : ∃ y' c, y = y' ++ [c] := by
    rcases List.eq_nil_or_concat y with e | ⟨l, a, e⟩
    · exact absurd e hy
    · exact ⟨l, a, by simpa using e⟩
  refine ⟨(if ps' = [] then [] else joinSlash ps' ++ ['/']) ++ y', c, ?_, ?_⟩
  · rw [joinSlash_snoc]; simp
  · exact fun e => hs (by simp [e])

/-- `os.path.dirname` of a rendered well-formed path is the rendered parent -/
theorem dirname_root_join_snoc (root : Str) (ps : List Str) (x : Str) (hr : WfRoot root) (h : WfParts ps)
    (hx : '/' ∉ x) : dirname (root ++ joinSlash (ps ++ [x])) = root ++ joinSlash ps := by
  have hxall : ∀ a ∈ x.reverse, (decide (a ≠ '/')) = true := by
    intro a ha
    have : a ≠ '/' := fun e => hx (e ▸ List.mem_reverse.mp ha)
    simpa using this
  cases hps : ps with
  | nil =>
    have hd : ((root ++ x).reverse.dropWhile (· ≠ '/')).reverse = root := by
      rw [List.reverse_append, dropWhile_append_all _ _ _ hxall]
      rcases hr with rfl | rfl | rfl <;> simp
    simp only [List.nil_append, joinSlash, dirname, hd]
    rcases hr with rfl | rfl | rfl <;> simp
  | cons a l =>
    rw [← hps]
    have hne : ps ≠ [] := by simp [hps]
    obtain ⟨init, c, hj, hc⟩ := joinSlash_last ps hne h
    have e1 : root ++ joinSlash (ps ++ [x]) = (root ++ joinSlash ps ++ ['/']) ++ x := by
      rw [joinSlash_snoc]; simp [hne]
    have hd : ((root ++ joinSlash (ps ++ [x])).reverse.dropWhile (· ≠ '/')).reverse = root ++ joinSlash ps ++ ['/'] := by
      rw [e1, List.reverse_append, dropWhile_append_all _ _ _ hxall]
      simp
    simp only [dirname, hd]
    have hall : (root ++ joinSlash ps ++ ['/']).all (· = '/') = false := by
      rw [hj]
      simp [hc]
    rw [hall]
    simp only [Bool.false_eq_true, if_false]
    rw [hj]
    simp [hc]


/-- the write loop cannot raise FileNotFoundError when the directory of every computable group path exists -/
theorem writeGroups_no_fnf (mode : Gen.OpenMode) (r : RunCfg) (gs : List (Str × List Str)) (fs : FS)
    (h : ∀ g ∈ gs, ∀ p, r.path (some g.1) = .ok p → fs.dirExists (parsePath (dirname p)) = true) :
    (writeGroups mode r fs gs).err ≠ some .fileNotFound := by
  induction gs generalizing fs with
  | nil => simp [writeGroups]
  | cons g gs ih =>
    simp only [writeGroups]
    split
    · simp
    · rename_i p hp
      have hd := h g (List.mem_cons_self ..) p hp
      simp only [FS.openWrite, hd, if_true]
      apply ih
      intro g' hg' p' hp'
      have := h g' (List.mem_cons_of_mem _ hg') p' hp'
      cases mode <;> simpa [FS.dirExists, FS.append, FS.write] using this

end Model
