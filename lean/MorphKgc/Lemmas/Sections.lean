/-
Helper lemmas for C12 (documents composed of parts; renumbering; duplicate check).
-/
import MorphKgc.Model.Sections
import MorphKgc.Lemmas.Grouping
import MorphKgc.Lemmas.EvalRule

namespace Model.Sections
open Py Spec Model

/-! ### lists -/

theorem dedupFirst_fold_append {α} [BEq α] [LawfulBEq α] (xs ys acc : List α) :
    (xs ++ ys).foldl (fun acc x => if acc.elem x then acc else x :: acc) acc
      = ys.foldl (fun acc x => if acc.elem x then acc else x :: acc)
          (xs.foldl (fun acc x => if acc.elem x then acc else x :: acc) acc) := by
  rw [List.foldl_append]

/-- folding a second list none of whose elements has been seen = folding it on its own, on top -/
theorem dedup_fold_disjoint {α} [BEq α] [LawfulBEq α] (ys acc acc' : List α) (h : ∀ y ∈ ys, y ∉ acc) :
    ys.foldl (fun acc x => if acc.elem x then acc else x :: acc) (acc' ++ acc)
      = ys.foldl (fun acc x => if acc.elem x then acc else x :: acc) acc' ++ acc := by
  induction ys generalizing acc' with
  | nil => rfl
  | cons y ys ih =>
    simp only [List.foldl_cons]
    have hy : y ∉ acc := h y (by simp)
    have : (acc' ++ acc).elem y = acc'.elem y := by
      simp only [List.elem_eq_mem, List.mem_append, hy, or_false]
    rw [this]
    by_cases hc : acc'.elem y = true
    · simp only [hc, ↓reduceIte]
      exact ih acc' (fun z hz => h z (List.mem_cons_of_mem _ hz))
    · simp only [hc]
      have := ih (y :: acc') (fun z hz => h z (List.mem_cons_of_mem _ hz))
      simpa using this

theorem dedupFirst_append_of_disjoint {α} [BEq α] [LawfulBEq α] (xs ys : List α) (h : ∀ y ∈ ys, y ∉ xs) :
    dedupFirst (xs ++ ys) = dedupFirst xs ++ dedupFirst ys := by
  unfold dedupFirst
  rw [List.foldl_append]
  have hacc : ∀ y ∈ ys, y ∉ xs.foldl (fun acc x => if acc.elem x then acc else x :: acc) [] := by
    intro y hy hmem
    have : y ∈ dedupFirst xs := by unfold dedupFirst; simpa using hmem
    exact h y hy ((mem_dedupFirst xs y).mp this)
  have := dedup_fold_disjoint ys (xs.foldl (fun acc x => if acc.elem x then acc else x :: acc) []) [] hacc
  simp only [List.nil_append] at this
  rw [this, List.reverse_append]

theorem flatMap_congr' {α β} {l : List α} {f g : α → List β} (h : ∀ a ∈ l, f a = g a) : l.flatMap f = l.flatMap g := by
  induction l with
  | nil => rfl
  | cons a l ih =>
    simp only [List.flatMap_cons]
    rw [h a (by simp), ih (fun b hb => h b (List.mem_cons_of_mem _ hb))]

/-! ### `#TMi` names -/

theorem toDigits_inj {a b : Nat} (h : Nat.toDigits 10 a = Nat.toDigits 10 b) : a = b := by
  have ha := Nat.ofDigitChars_ten_toDigits (n := a)
  have hb := Nat.ofDigitChars_ten_toDigits (n := b)
  rw [h] at ha
  omega

theorem tmName_inj {a b : Nat} (h : tmName a = tmName b) : a = b := by
  unfold tmName at h
  exact toDigits_inj (List.append_cancel_left h)

/-! ### documents and their parts -/

def ids (d : Doc) : List Str := d.tms.map (·.id)

def refOfObj : ObjMap → Option Str
  | .ref p _ => some p
  | .term _ => none

/-- the triples maps a triples map references -/
def parentsOfTm (tm : TriplesMap) : List Str := tm.poms.flatMap fun pom => pom.objects.filterMap refOfObj

/-- a part is closed when it contains every triples map its members reference -/
def Closed (d : Doc) : Prop := ∀ tm ∈ d.tms, ∀ p ∈ parentsOfTm tm, p ∈ ids d

def DisjointIds (d₁ d₂ : Doc) : Prop := ∀ x ∈ ids d₁, x ∉ ids d₂

instance : Append Doc := ⟨fun a b => ⟨a.tms ++ b.tms⟩⟩

@[simp] theorem tms_append (a b : Doc) : (a ++ b).tms = a.tms ++ b.tms := rfl

theorem ids_append (a b : Doc) : ids (a ++ b) = ids a ++ ids b := by simp [ids]

/-- what `rulesOfTm` reads from the rest of the document: the term type of a referenced subject map -/
def parentTT (d : Doc) (p : Str) : TermType :=
  match d.tms.find? (fun t => t.id = p) with
  | some ptm => ptm.subject.termType
  | none => .iri

theorem pomRule_congr {d d' : Doc} (tm : TriplesMap) (p : TermMap) (o : ObjMap) (g : MapType × Str)
    (h : ∀ q, refOfObj o = some q → parentTT d q = parentTT d' q) : pomRule d tm p o g = pomRule d' tm p o g := by
  cases o with
  | term om => rfl
  | ref parent conds =>
    have := h parent rfl
    unfold parentTT at this
    unfold pomRule
    cases hd : d.tms.find? (fun t => t.id = parent) <;> cases hd' : d'.tms.find? (fun t => t.id = parent) <;>
      simp only [hd, hd'] at this ⊢ <;> (try rw [this])

theorem rulesOfTm_congr {d d' : Doc} (tm : TriplesMap) (h : ∀ q ∈ parentsOfTm tm, parentTT d q = parentTT d' q) :
    rulesOfTm d tm = rulesOfTm d' tm := by
  have hp : (tm.poms.flatMap fun pom => pom.predicates.flatMap fun p => pom.objects.flatMap fun o =>
              (pomGraphs tm pom.graphs).map fun g => pomRule d tm p o g)
          = (tm.poms.flatMap fun pom => pom.predicates.flatMap fun p => pom.objects.flatMap fun o =>
              (pomGraphs tm pom.graphs).map fun g => pomRule d' tm p o g) := by
    apply flatMap_congr'
    intro pom hpom
    apply flatMap_congr'
    intro p _
    apply flatMap_congr'
    intro o ho
    apply List.map_congr_left
    intro g _
    apply pomRule_congr
    intro q hq
    apply h q
    simp only [parentsOfTm, List.mem_flatMap, List.mem_filterMap]
    exact ⟨pom, hpom, o, ho, hq⟩
  rw [rulesOfTm_eq, rulesOfTm_eq, hp]

/-- the fields every flat rule of a triples map inherits from it -/
structure FromTm (tm : TriplesMap) (r : Rule) : Prop where
  tmId : r.tmId = tm.id
  sourceName : r.sourceName = tm.sourceName
  lsv : r.logicalSourceValue = tm.lsv
  iterator : r.iterator = none
  smt : r.subjectMapType = (mapOf tm.subject).1
  smv : r.subjectMapValue = (mapOf tm.subject).2
  stt : r.subjectTermtype = tm.subject.termType

theorem fromTm_pomRule (d : Doc) (tm : TriplesMap) (p : TermMap) (o : ObjMap) (g : MapType × Str) : FromTm tm (pomRule d tm p o g) := by
  cases o <;> exact ⟨rfl, rfl, rfl, rfl, rfl, rfl, rfl⟩

theorem mem_rulesOfTm_cases {d : Doc} {tm : TriplesMap} {r : Rule} (h : r ∈ rulesOfTm d tm) :
    r = { baseRule tm with asserted := false } ∨
    (∃ c g, r = ruleOf tm classPredTm (classObjTm c) g) ∨
    (∃ pom ∈ tm.poms, ∃ p, ∃ o ∈ pom.objects, ∃ g, r = pomRule d tm p o g) := by
  rw [rulesOfTm_eq] at h
  split at h
  · left; simpa using h
  · right
    simp only [List.mem_append, List.mem_flatMap, List.mem_map] at h
    rcases h with ⟨c, _, g, _, rfl⟩ | ⟨pom, hpom, p, _, o, ho, g, _, rfl⟩
    · exact .inl ⟨c, g, rfl⟩
    · exact .inr ⟨pom, hpom, p, o, ho, g, rfl⟩

theorem fromTm_of_mem {d : Doc} {tm : TriplesMap} {r : Rule} (h : r ∈ rulesOfTm d tm) : FromTm tm r := by
  rcases mem_rulesOfTm_cases h with rfl | ⟨c, g, rfl⟩ | ⟨pom, _, p, o, _, g, rfl⟩
  · exact ⟨rfl, rfl, rfl, rfl, rfl, rfl, rfl⟩
  · exact ⟨rfl, rfl, rfl, rfl, rfl, rfl, rfl⟩
  · exact fromTm_pomRule d tm p o g

theorem rulesOfTm_ne_nil (d : Doc) (tm : TriplesMap) : rulesOfTm d tm ≠ [] := by
  rw [rulesOfTm_eq]
  split
  · simp
  · assumption

/-- a rule that references a parent comes from a referencing object map of its triples map -/
theorem parent_of_mem {d : Doc} {tm : TriplesMap} {r : Rule} (h : r ∈ rulesOfTm d tm) (hp : r.objectMapType = .parentTM) :
    r.objectMapValue ∈ parentsOfTm tm := by
  rcases mem_rulesOfTm_cases h with rfl | ⟨c, g, rfl⟩ | ⟨pom, hpom, p, o, ho, g, rfl⟩
  · simp [baseRule_eq] at hp
  · exact absurd hp (mapOf_ne_parentTM _)
  · cases o with
    | term om => exact absurd hp (mapOf_ne_parentTM _)
    | ref parent conds =>
      simp only [parentsOfTm, List.mem_flatMap, List.mem_filterMap]
      exact ⟨pom, hpom, _, ho, rfl⟩

/-! ### normalisation of a document made of two parts -/

def rawOf (d : Doc) : List Rule := d.tms.flatMap (rulesOfTm d)

theorem normalizeDoc_eq (d : Doc) :
    normalizeDoc d = (dedupFirst (rawOf d)).map (eliminateSelfJoin (dedupFirst (rawOf d))) := rfl

theorem find_id_isSome {d : Doc} {p : Str} (h : p ∈ ids d) : ∃ t, d.tms.find? (fun t => t.id = p) = some t := by
  simp only [ids, List.mem_map] at h
  obtain ⟨t, ht, rfl⟩ := h
  have : (d.tms.find? (fun t' => t'.id = t.id)).isSome := by
    rw [List.find?_isSome]
    exact ⟨t, ht, by simp⟩
  exact Option.isSome_iff_exists.mp this

theorem find_id_none {d : Doc} {p : Str} (h : p ∉ ids d) : d.tms.find? (fun t => t.id = p) = none := by
  rw [List.find?_eq_none]
  intro t ht
  simp only [decide_eq_true_eq]
  intro he
  exact h (by simp only [ids, List.mem_map]; exact ⟨t, ht, he⟩)

theorem parentTT_append_left {d₁ d₂ : Doc} {p : Str} (h : p ∈ ids d₁) : parentTT (d₁ ++ d₂) p = parentTT d₁ p := by
  obtain ⟨t, ht⟩ := find_id_isSome h
  unfold parentTT
  rw [tms_append, List.find?_append, ht]
  rfl

theorem parentTT_append_right {d₁ d₂ : Doc} {p : Str} (h : p ∉ ids d₁) : parentTT (d₁ ++ d₂) p = parentTT d₂ p := by
  unfold parentTT
  rw [tms_append, List.find?_append, find_id_none h]
  rfl

theorem tmId_mem_of_flatMap {d : Doc} {l : List TriplesMap} {r : Rule} (h : r ∈ l.flatMap (rulesOfTm d)) :
    r.tmId ∈ l.map (·.id) := by
  simp only [List.mem_flatMap] at h
  obtain ⟨tm, htm, hr⟩ := h
  rw [(fromTm_of_mem hr).tmId]
  exact List.mem_map.mpr ⟨tm, htm, rfl⟩

theorem tmId_mem_rawOf {d : Doc} {r : Rule} (h : r ∈ rawOf d) : r.tmId ∈ ids d := tmId_mem_of_flatMap h

/-- every triples map leaves a rule carrying its identifier -/
theorem exists_rule_of_id {d : Doc} {l : List TriplesMap} {p : Str} (h : p ∈ l.map (·.id)) :
    ∃ r ∈ l.flatMap (rulesOfTm d), r.tmId = p := by
  simp only [List.mem_map] at h
  obtain ⟨tm, htm, rfl⟩ := h
  obtain ⟨r, hr⟩ := List.exists_mem_of_ne_nil _ (rulesOfTm_ne_nil d tm)
  exact ⟨r, List.mem_flatMap.mpr ⟨tm, htm, hr⟩, (fromTm_of_mem hr).tmId⟩

theorem rawOf_append_left {d₁ d₂ : Doc} (hc : Closed d₁) :
    rawOf (d₁ ++ d₂) = rawOf d₁ ++ d₂.tms.flatMap (rulesOfTm (d₁ ++ d₂)) := by
  unfold rawOf
  rw [tms_append, List.flatMap_append]
  congr 1
  apply flatMap_congr'
  intro tm htm
  apply rulesOfTm_congr
  intro q hq
  exact parentTT_append_left (hc tm htm q hq)

theorem flatMap_right_closed {d₁ d₂ : Doc} (hc : Closed d₂) (hd : DisjointIds d₁ d₂) :
    d₂.tms.flatMap (rulesOfTm (d₁ ++ d₂)) = rawOf d₂ := by
  unfold rawOf
  apply flatMap_congr'
  intro tm htm
  apply rulesOfTm_congr
  intro q hq
  exact parentTT_append_right (fun h1 => hd q h1 (hc tm htm q hq))

theorem tmId_eliminateSelfJoin (A : List Rule) (r : Rule) : (eliminateSelfJoin A r).tmId = r.tmId := by
  unfold eliminateSelfJoin
  split
  · split
    · split <;> rfl
    · rfl
  · rfl

theorem eliminateSelfJoin_congr {A B : List Rule} {r : Rule}
    (h : r.objectMapType = .parentTM → A.find? (fun p => p.tmId = r.objectMapValue) = B.find? (fun p => p.tmId = r.objectMapValue)) :
    eliminateSelfJoin A r = eliminateSelfJoin B r := by
  unfold eliminateSelfJoin
  split
  · rename_i hp
    rw [h hp]
  · rfl

theorem find_tmId_append_left {A B : List Rule} {p : Str} (h : ∃ r ∈ A, r.tmId = p) :
    (A ++ B).find? (fun r => r.tmId = p) = A.find? (fun r => r.tmId = p) := by
  rw [List.find?_append]
  obtain ⟨r, hr, he⟩ := h
  have : (A.find? (fun r => r.tmId = p)).isSome := by
    rw [List.find?_isSome]
    exact ⟨r, hr, by simp [he]⟩
  obtain ⟨x, hx⟩ := Option.isSome_iff_exists.mp this
  rw [hx]
  rfl

theorem find_tmId_append_right {A B : List Rule} {p : Str} (h : ∀ r ∈ A, r.tmId ≠ p) :
    (A ++ B).find? (fun r => r.tmId = p) = B.find? (fun r => r.tmId = p) := by
  rw [List.find?_append]
  have : A.find? (fun r => r.tmId = p) = none := by
    rw [List.find?_eq_none]
    intro r hr
    simpa using h r hr
  rw [this]
  rfl

/-- **adding a part**: the rules of a closed part are not touched by whatever is appended (with other identifiers) -/
theorem normalizeDoc_append_left {d₁ d₂ : Doc} (hc : Closed d₁) (hd : DisjointIds d₁ d₂) :
    ∃ X, normalizeDoc (d₁ ++ d₂) = normalizeDoc d₁ ++ X ∧ ∀ r ∈ X, r.tmId ∈ ids d₂ := by
  have hdis : ∀ y ∈ d₂.tms.flatMap (rulesOfTm (d₁ ++ d₂)), y ∉ rawOf d₁ := by
    intro y hy hy1
    exact hd _ (tmId_mem_rawOf hy1) (tmId_mem_of_flatMap hy)
  rw [normalizeDoc_eq, rawOf_append_left hc, dedupFirst_append_of_disjoint _ _ hdis, List.map_append]
  refine ⟨(dedupFirst (d₂.tms.flatMap (rulesOfTm (d₁ ++ d₂)))).map
    (eliminateSelfJoin (dedupFirst (rawOf d₁) ++ dedupFirst (d₂.tms.flatMap (rulesOfTm (d₁ ++ d₂))))), ?_, ?_⟩
  · congr 1
    rw [normalizeDoc_eq]
    apply List.map_congr_left
    intro r hr
    apply eliminateSelfJoin_congr
    intro hp
    apply find_tmId_append_left
    -- the parent of `r` is a triples map of the first part
    have hr' : r ∈ rawOf d₁ := (mem_dedupFirst _ _).mp hr
    simp only [rawOf, List.mem_flatMap] at hr'
    obtain ⟨tm, htm, hrtm⟩ := hr'
    have hpid : r.objectMapValue ∈ ids d₁ := hc tm htm _ (parent_of_mem hrtm hp)
    obtain ⟨r', hr', he⟩ := exists_rule_of_id (d := d₁) hpid
    exact ⟨r', (mem_dedupFirst _ _).mpr hr', he⟩
  · intro r hr
    simp only [List.mem_map] at hr
    obtain ⟨r₀, hr₀, rfl⟩ := hr
    rw [tmId_eliminateSelfJoin]
    exact tmId_mem_of_flatMap ((mem_dedupFirst _ _).mp hr₀)

/-- **two closed parts with different identifiers**: the rule table of the whole is the concatenation of the rule tables -/
theorem normalizeDoc_append {d₁ d₂ : Doc} (hc₁ : Closed d₁) (hc₂ : Closed d₂) (hd : DisjointIds d₁ d₂) :
    normalizeDoc (d₁ ++ d₂) = normalizeDoc d₁ ++ normalizeDoc d₂ := by
  have hdis : ∀ y ∈ rawOf d₂, y ∉ rawOf d₁ := by
    intro y hy hy1
    exact hd _ (tmId_mem_rawOf hy1) (tmId_mem_rawOf hy)
  rw [normalizeDoc_eq, rawOf_append_left hc₁, flatMap_right_closed hc₂ hd, dedupFirst_append_of_disjoint _ _ hdis, List.map_append]
  congr 1
  · rw [normalizeDoc_eq]
    apply List.map_congr_left
    intro r hr
    apply eliminateSelfJoin_congr
    intro hp
    apply find_tmId_append_left
    have hr' : r ∈ rawOf d₁ := (mem_dedupFirst _ _).mp hr
    simp only [rawOf, List.mem_flatMap] at hr'
    obtain ⟨tm, htm, hrtm⟩ := hr'
    have hpid : r.objectMapValue ∈ ids d₁ := hc₁ tm htm _ (parent_of_mem hrtm hp)
    obtain ⟨r', hr', he⟩ := exists_rule_of_id (d := d₁) hpid
    exact ⟨r', (mem_dedupFirst _ _).mpr hr', he⟩
  · rw [normalizeDoc_eq]
    apply List.map_congr_left
    intro r hr
    apply eliminateSelfJoin_congr
    intro hp
    apply find_tmId_append_right
    intro r₁ hr₁ he
    have hr' : r ∈ rawOf d₂ := (mem_dedupFirst _ _).mp hr
    simp only [rawOf, List.mem_flatMap] at hr'
    obtain ⟨tm, htm, hrtm⟩ := hr'
    have hpid : r.objectMapValue ∈ ids d₂ := hc₂ tm htm _ (parent_of_mem hrtm hp)
    have h1 : r₁.tmId ∈ ids d₁ := tmId_mem_rawOf ((mem_dedupFirst _ _).mp hr₁)
    rw [he] at h1
    exact hd _ h1 hpid

end Model.Sections
