/-
Helper lemmas for C14: NULL removal and `explode` act on each (row, result) pair separately; the frame-level pipeline of
`execute_fnml` is the `flatMap` of a per-row function.
-/
import MorphKgc.Spec.Fnml

namespace Lemmas.Fnml
open Py Model Model.Fnml Spec.Fnml

theorem flatMap_pure_map {α β} (f : α → β) (l : List α) : l.flatMap (fun x => [f x]) = l.map f := by
  induction l with
  | nil => rfl
  | cons a l ih => simp [List.flatMap_cons, ih]

theorem flatMap_congr' {α β} {f g : α → List β} {l : List α} (h : ∀ x ∈ l, f x = g x) : l.flatMap f = l.flatMap g := by
  induction l with
  | nil => rfl
  | cons a l ih =>
    simp only [List.flatMap_cons]
    rw [h a (by simp), ih fun x hx => h x (List.mem_cons_of_mem _ hx)]

/-! ### NULL removal and explode, one result at a time -/

/-- `remove_null_values_from_dataframe` on one result -/
def rnV (na : List Str) (v : PyVal) : List PyVal := if isNullVal (naReplace na v) then [] else [naReplace na v]

/-- `explode` on one result -/
def exV : PyVal → List PyVal
  | .list [] => [.atom (.null "nan".toList)]
  | .list xs => xs.map .atom
  | .atom a => [.atom a]

def liftV (k : PyVal → List PyVal) (st : List (FR × PyVal)) : List (FR × PyVal) :=
  st.flatMap fun p => (k p.2).map fun v => (p.1, v)

theorem removeNulls_eq (na : List Str) (st : List (FR × PyVal)) : removeNulls na st = liftV (rnV na) st := by
  unfold removeNulls liftV
  induction st with
  | nil => rfl
  | cons p st ih =>
    simp only [List.map_cons, List.filter_cons, List.flatMap_cons]
    rw [ih]
    unfold rnV
    by_cases h : isNullVal (naReplace na p.2) = true <;> simp [h]

theorem explode_eq (st : List (FR × PyVal)) : explode st = liftV exV st := by
  unfold explode liftV
  congr 1
  funext p
  obtain ⟨σ, v⟩ := p
  cases v with
  | atom a => simp [exV]
  | list xs => cases xs <;> simp [exV]

theorem liftV_liftV (k1 k2 : PyVal → List PyVal) (st : List (FR × PyVal)) :
    liftV k2 (liftV k1 st) = liftV (fun v => (k1 v).flatMap k2) st := by
  unfold liftV
  rw [List.flatMap_assoc]
  congr 1
  funext p
  simp [List.flatMap_map, List.map_flatMap]

/-- the results a function value stands for, in the order the code removes NULLs and spreads lists -/
def finishVals (ord : NullOrder) (na : List Str) (v : PyVal) : List PyVal :=
  match ord with
  | .dropnaThenExplode => (rnV na v).flatMap exV
  | .explodeThenDropna => (exV v).flatMap (rnV na)

def finishRow (ord : NullOrder) (na : List Str) (v : PyVal) : List Atom := (finishVals ord na v).map cellOf

/-- L112-120 of `execute_fnml` act row by row -/
theorem finish_eq (ord : NullOrder) (na : List Str) (id : Str) (fr : Frame) (v : FR → PyVal) :
    finish ord na id (fr.map fun σ => (σ, v σ)) = fr.flatMap fun σ => (finishRow ord na (v σ)).map (setCol σ id) := by
  have key : ∀ k : PyVal → List PyVal,
      (liftV k (fr.map fun σ => (σ, v σ))).map (fun p => setCol p.1 id (cellOf p.2)) =
      fr.flatMap fun σ => ((k (v σ)).map cellOf).map (setCol σ id) := by
    intro k
    unfold liftV
    rw [List.flatMap_map, List.map_flatMap]
    congr 1
    funext σ
    simp [List.map_map, Function.comp_def]
  unfold finish
  cases ord with
  | dropnaThenExplode =>
    simp only [removeNulls_eq, explode_eq, liftV_liftV]
    rw [key]; rfl
  | explodeThenDropna =>
    simp only [removeNulls_eq, explode_eq, liftV_liftV]
    rw [key]; rfl

theorem rnV_atom (na : List Str) (a : Atom) : (rnV na (.atom a)).map cellOf = if nullish na a then [] else [a] := by
  cases a with
  | str s => by_cases h : s ∈ na <;> simp [rnV, naReplace, isNullVal, nullish, cellOf, h]
  | null r => simp [rnV, naReplace, isNullVal, nullish]
  | other r => simp [rnV, naReplace, isNullVal, nullish, cellOf]
  | exc n => simp [rnV, naReplace, isNullVal, nullish, cellOf]

theorem rnV_atoms (na : List Str) (l : List Atom) :
    ((l.map PyVal.atom).flatMap (rnV na)).map cellOf = l.filter fun a => !nullish na a := by
  induction l with
  | nil => rfl
  | cons a l ih =>
    simp only [List.map_cons, List.flatMap_cons, List.map_append, ih, rnV_atom, List.filter_cons]
    by_cases h : nullish na a = true <;> simp [h]

/-- **explode first, then NULL removal** is the specification, for every result -/
theorem finishRow_explodeThenDropna (na : List Str) (v : PyVal) :
    finishRow .explodeThenDropna na v = resultAtoms na v := by
  unfold finishRow finishVals
  cases v with
  | atom a => simp [exV, resultAtoms, rnV_atom]
  | list xs =>
    cases xs with
    | nil => simp [exV, resultAtoms, rnV, naReplace, isNullVal]
    | cons x xs => simpa [exV, resultAtoms] using rnV_atoms na (x :: xs)

/-- **NULL removal first, then explode** agrees with the specification on every result that is not a `BadList` -/
theorem finishRow_dropnaThenExplode (na : List Str) (v : PyVal) (h : BadList na v = false) :
    finishRow .dropnaThenExplode na v = resultAtoms na v := by
  unfold finishRow finishVals
  cases v with
  | atom a =>
    cases a with
    | str s => by_cases hs : s ∈ na <;> simp [rnV, naReplace, isNullVal, exV, resultAtoms, nullish, cellOf, hs]
    | null r => simp [rnV, naReplace, isNullVal, resultAtoms, nullish]
    | other r => simp [rnV, naReplace, isNullVal, exV, resultAtoms, nullish, cellOf]
    | exc n => simp [rnV, naReplace, isNullVal, exV, resultAtoms, nullish, cellOf]
  | list xs =>
    cases xs with
    | nil => simp [BadList] at h
    | cons x xs =>
      simp only [BadList, List.isEmpty_cons, Bool.false_or, List.any_eq_false] at h
      have hf : (x :: xs).filter (fun a => !nullish na a) = x :: xs :=
        List.filter_eq_self.mpr fun a ha => by simpa using h a ha
      simp only [rnV, naReplace, isNullVal, Bool.false_eq_true, ↓reduceIte, List.flatMap_cons, List.flatMap_nil,
        List.append_nil, exV, resultAtoms, hf]
      simp [List.map_map, Function.comp_def, cellOf]

/-! ### the frame-level pipeline is row-wise -/

theorem innerRow_flatMap (rec : Str → FR → Frame) (rows : List FRow) (acc : Frame) :
    innerRow rec rows acc = acc.flatMap fun σ => innerRow rec rows [σ] := by
  induction rows generalizing acc with
  | nil => simp [innerRow]
  | cons r rs ih =>
    simp only [innerRow]
    by_cases h : r.vtype = .execution
    · simp only [h, ↓reduceIte, List.flatMap_cons, List.flatMap_nil, List.append_nil]
      rw [ih (acc.flatMap (rec r.value)), List.flatMap_assoc]
      congr 1
      funext σ
      exact (ih (rec r.value σ)).symm
    · simp only [h, ↓reduceIte]
      exact ih acc

theorem innerPhase_eq (exec : Str → Frame → Frame) (rec : Str → FR → Frame)
    (h : ∀ id fr, exec id fr = fr.flatMap (rec id)) (rows : List FRow) (fr : Frame) :
    innerPhase exec rows fr = fr.flatMap fun σ => innerRow rec rows [σ] := by
  induction rows generalizing fr with
  | nil => simp [innerPhase, innerRow]
  | cons r rs ih =>
    simp only [innerPhase]
    by_cases hv : r.vtype = .execution
    · simp only [hv, ↓reduceIte]
      rw [ih, h, List.flatMap_assoc]
      congr 1
      funext σ
      simp only [innerRow, hv, ↓reduceIte, List.flatMap_cons, List.flatMap_nil, List.append_nil]
      exact (innerRow_flatMap rec rs (rec r.value σ)).symm
    · simp only [hv, ↓reduceIte]
      rw [ih]
      congr 1
      funext σ
      simp [innerRow, hv]

/-- **`execute_fnml` is the `flatMap` of a per-row function**, for either order of NULL removal and `explode`,
    every function environment, every FNML table and every frame. -/
theorem executeFnml_rowwise (env : FunEnv) (ord : NullOrder) (na : List Str) (df : FnmlDf) :
    ∀ (n : Nat) (id : Str) (fr : Frame),
      executeFnml env ord na df n id fr = fr.flatMap (execRowWith bindArgs (finishRow ord na) env df n id) := by
  intro n
  induction n with
  | zero =>
    intro id fr
    show _ = fr.flatMap fun σ => execRowWith bindArgs (finishRow ord na) env df 0 id σ
    simp only [executeFnml, execRowWith, poisonAll, flatMap_pure_map]
  | succ n ih =>
    intro id fr
    show _ = fr.flatMap fun σ => execRowWith bindArgs (finishRow ord na) env df (n + 1) id σ
    cases hr : rowsOf df id with
    | nil =>
      have h1 : executeFnml env ord na df (n + 1) id fr = poisonAll fr id "IndexError" := by
        rw [executeFnml]; simp only [hr]
      have h2 : ∀ σ, execRowWith bindArgs (finishRow ord na) env df (n + 1) id σ = [setCol σ id (.exc "IndexError".toList)] :=
        fun σ => by rw [execRowWith]; simp only [hr]
      rw [h1]; simp only [h2, poisonAll, flatMap_pure_map]
    | cons r0 rs =>
      cases hs : env.sigs r0.fn with
      | none =>
        have h1 : executeFnml env ord na df (n + 1) id fr =
            poisonAll (innerPhase (executeFnml env ord na df n) (r0 :: rs) fr) id "KeyError" := by
          rw [executeFnml]; simp only [hr, hs]
        have h2 : ∀ σ, execRowWith bindArgs (finishRow ord na) env df (n + 1) id σ =
            (innerRow (execRowWith bindArgs (finishRow ord na) env df n) (r0 :: rs) [σ]).map
              fun σ' => setCol σ' id (.exc "KeyError".toList) :=
          fun σ => by rw [execRowWith]; simp only [hr, hs]
        rw [h1, innerPhase_eq _ _ ih]; simp only [h2, poisonAll, List.map_flatMap]
      | some sig =>
        have h1 : executeFnml env ord na df (n + 1) id fr =
            finish ord na id (callLevel env (r0 :: rs) sig r0.fn (innerPhase (executeFnml env ord na df n) (r0 :: rs) fr)) := by
          rw [executeFnml]; simp only [hr, hs]
        have h2 : ∀ σ, execRowWith bindArgs (finishRow ord na) env df (n + 1) id σ =
            (innerRow (execRowWith bindArgs (finishRow ord na) env df n) (r0 :: rs) [σ]).flatMap
              fun σ' => (finishRow ord na (callOn env r0.fn (bindArgs sig (r0 :: rs)) σ')).map (setCol σ' id) :=
          fun σ => by rw [execRowWith]; simp only [hr, hs]
        rw [h1, innerPhase_eq _ _ ih]; simp only [h2, callLevel]
        rw [finish_eq, List.flatMap_assoc]

/-! ### congruence of the per-row semantics -/

theorem innerRow_congr (recA recB : Str → FR → Frame) (sc : Str → FR → Bool)
    (h : ∀ v σ, sc v σ = false → recA v σ = recB v σ) (rows : List FRow) (acc : Frame)
    (hs : scopeInner sc recB rows acc = false) : innerRow recA rows acc = innerRow recB rows acc := by
  induction rows generalizing acc with
  | nil => rfl
  | cons r rs ih =>
    simp only [innerRow]
    simp only [scopeInner] at hs
    by_cases hv : r.vtype = .execution
    · simp only [hv, ↓reduceIte, Bool.or_eq_false_iff, List.any_eq_false] at hs ⊢
      have : acc.flatMap (recA r.value) = acc.flatMap (recB r.value) :=
        flatMap_congr' fun σ hσ => h r.value σ (by simpa using hs.1 σ hσ)
      rw [this]
      exact ih _ hs.2
    · simp only [hv, ↓reduceIte] at hs ⊢
      exact ih _ hs

end Lemmas.Fnml
