/-
C12: the `#TMi` renumbering of `_expand_rml_star` yields a table similar to the one it started from (`TableSim`), provided
every parent reference resolves, and no other value is mistaken for a triples-map identifier.
-/
import MorphKgc.Lemmas.SectionsSim

namespace Model.Sections
open Py Spec Model

/-- every referencing rule names a triples map of the table -/
def Resolves (R : List Rule) : Prop := ∀ r ∈ R, r.objectMapType = .parentTM → ∃ q ∈ R, q.tmId = r.objectMapValue

/-- the rewriting through `tm_to_id_dict` leaves subject values and non-referencing object values alone -/
def Stable (g : Bool) (R : List Rule) : Prop :=
  ∀ r ∈ R, mapVal g R r.subjectMapType r.subjectMapValue = r.subjectMapValue ∧
    (r.objectMapType ≠ .parentTM → mapVal g R r.objectMapType r.objectMapValue = r.objectMapValue)

def SubjNoRef (R : List Rule) : Prop := ∀ r ∈ R, r.subjectMapType ≠ .parentTM

theorem firstIdx_some {p : Str} {R : List Rule} (h : ∃ q ∈ R, q.tmId = p) :
    ∃ k q, firstIdx p R = some k ∧ R[k]? = some q ∧ findRule R p = some q := by
  induction R with
  | nil => simp at h
  | cons r rs ih =>
    by_cases hr : r.tmId = p
    · exact ⟨0, r, by simp [firstIdx, hr], rfl, by simp [findRule, hr]⟩
    · obtain ⟨q, hq, hqp⟩ := h
      rcases List.mem_cons.mp hq with rfl | hq'
      · exact absurd hqp hr
      · obtain ⟨k, q', hk, hget, hfind⟩ := ih ⟨q, hq', hqp⟩
        refine ⟨k + 1, q', by simp [firstIdx, hr, hk], by simpa using hget, ?_⟩
        unfold findRule at hfind ⊢
        rw [List.find?_cons]
        simp [hr, hfind]

theorem firstIdx_none {p : Str} {R : List Rule} (h : ∀ q ∈ R, q.tmId ≠ p) : firstIdx p R = none := by
  induction R with
  | nil => rfl
  | cons r rs ih =>
    have hr : r.tmId ≠ p := h r (by simp)
    simp [firstIdx, hr, ih (fun q hq => h q (List.mem_cons_of_mem _ hq))]

theorem firstIdx_isSome_iff {p : Str} {R : List Rule} : (firstIdx p R).isSome = true ↔ ∃ q ∈ R, q.tmId = p := by
  constructor
  · intro h
    apply Classical.byContradiction
    intro hn
    have : firstIdx p R = none := firstIdx_none (fun q hq he => hn ⟨q, hq, he⟩)
    rw [this] at h
    cases h
  · intro h
    obtain ⟨k, _, hk, _, _⟩ := firstIdx_some h
    rw [hk]; rfl

theorem tmId_renumberRule (g : Bool) (all : List Rule) (i : Nat) (r : Rule) : (renumberRule g all i r).tmId = tmName i := rfl

/-- the rule that carries the name `#TM(i+k)` is the `k`-th one -/
theorem findRule_renumberFrom (g : Bool) (all : List Rule) (rs : List Rule) (i k : Nat) :
    findRule (renumberFrom g all i rs) (tmName (i + k)) = (rs[k]?).map (renumberRule g all (i + k)) := by
  induction rs generalizing i k with
  | nil => rfl
  | cons r rs ih =>
    unfold findRule
    rw [renumberFrom, List.find?_cons]
    cases k with
    | zero => simp [tmId_renumberRule]
    | succ k' =>
      have hne : ¬ tmName i = tmName (i + (k' + 1)) := fun h => by have := tmName_inj h; omega
      simp only [tmId_renumberRule, hne, decide_false]
      have := ih (i + 1) k'
      unfold findRule at this
      have e : i + 1 + k' = i + (k' + 1) := by omega
      rw [e] at this
      simpa using this

theorem mapVal_parent (g : Bool) (R : List Rule) (v : Str) :
    mapVal g R .parentTM v = (match firstIdx v R with | some k => tmName k | none => v) := by
  unfold mapVal
  simp only [decide_true, Bool.true_or, Bool.not_true, Bool.and_false, Bool.false_eq_true, ↓reduceIte]
  cases firstIdx v R <;> rfl

/-- **the renumbered table is similar to the original one** -/
theorem tableSim_renumber (env : Env) (g : Bool) (R : List Rule) (hres : Resolves R) (hst : Stable g R) (hsub : SubjNoRef R) :
    TableSim env env R (renumber g R) := by
  have key : ∀ (rs : List Rule) (i : Nat), (∀ r ∈ rs, r ∈ R) →
      Forall2 (RuleSim env env R (renumber g R)) rs (renumberFrom g R i rs) := by
    intro rs
    induction rs with
    | nil => intro i _; exact .nil
    | cons r rs ih =>
      intro i hmem
      have hr : r ∈ R := hmem r (by simp)
      refine .cons ?_ (ih (i + 1) fun q hq => hmem q (List.mem_cons_of_mem _ hq))
      obtain ⟨hs, ho⟩ := hst r hr
      have hb : renumberRule g R i r = { r with tmId := tmName i, sourceName := r.sourceName,
                                                objectMapValue := mapVal g R r.objectMapType r.objectMapValue } := by
        unfold renumberRule
        rw [hs]
      rw [hb]
      refine ⟨⟨_, _, _, rfl⟩, ho, rfl, fun hp => ?_⟩
      left
      obtain ⟨k, q, hk, hget, hfind⟩ := firstIdx_some (hres r hr hp)
      have hq : q ∈ R := List.mem_of_getElem? hget
      refine ⟨q, renumberRule g R k q, hfind, ?_, ?_⟩
      · show findRule (renumber g R) (mapVal g R r.objectMapType r.objectMapValue) = _
        rw [hp, mapVal_parent, hk]
        have := findRule_renumberFrom g R R 0 k
        simp only [Nat.zero_add, hget, Option.map_some] at this
        exact this
      · obtain ⟨hqs, _⟩ := hst q hq
        exact ⟨⟨rfl, rfl, rfl, hqs.symm, rfl, rfl, hsub q hq⟩, Iff.rfl⟩
  exact key R 0 (fun _ h => h)

theorem envSim_refl (env : Env) : EnvSim env env := rfl

/-- the renumbering changes no statement (before or after self-join elimination) -/
theorem evalAll_renumber (env : Env) (g : Bool) (R : List Rule) (hres : Resolves R) (hst : Stable g R) (hsub : SubjNoRef R) :
    evalAll env (renumber g R) = evalAll env R :=
  (evalAll_sim (envSim_refl env) (tableSim_renumber env g R hres hst hsub)).symm

theorem evalAll_renumber_elim (env : Env) (g : Bool) (R : List Rule) (hres : Resolves R) (hst : Stable g R) (hsub : SubjNoRef R) :
    evalAll env ((renumber g R).map (eliminateSelfJoin (renumber g R))) = evalAll env (R.map (eliminateSelfJoin R)) :=
  (evalAll_sim (envSim_refl env) (tableSim_renumber env g R hres hst hsub).elim).symm

/-- without a value that clashes with an identifier (complement of the scope of C12_F2) the rewriting is stable -/
theorem stable_of_noClash (g : Bool) (R : List Rule) (h : valueClash R = false) : Stable g R := by
  intro r hr
  simp only [valueClash, List.any_eq_false, Bool.or_eq_true, Bool.and_eq_true, bne_iff_ne, ne_eq, not_or, not_and,
    Bool.not_eq_true, Option.isSome_eq_false_iff, Option.isNone_iff_eq_none] at h
  obtain ⟨h1, h2⟩ := h r hr
  constructor
  · unfold mapVal
    split
    · rfl
    · rw [h1]
  · intro hp
    unfold mapVal
    split
    · rfl
    · rw [h2 hp]

end Model.Sections
