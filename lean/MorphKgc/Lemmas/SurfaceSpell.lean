/-
Lemmas for C09: what each respelling of a triples map does to its normal form (`Model.normTm`).
-/
import MorphKgc.Lemmas.Surface

namespace Model
open Py Spec

/-- `constant_shortcuts_dict` covers the four term-map shortcuts and the language / datatype shortcuts -/
def shortcutTableOK : Bool := expandsSubject && expandsPredicate && expandsObject && expandsGraph && expandsLangDt

theorem stepS_eq (h : shortcutTableOK = true) (tm : STm) : stepTm .expandShortcuts tm = expandShortcutsTm tm := by
  simp only [shortcutTableOK, Bool.and_eq_true] at h
  obtain ⟨⟨⟨⟨h1, h2⟩, h3⟩, h4⟩, h5⟩ := h
  simp [stepTm, expandShortcutsTm, h1, h2, h3, h4, h5]

theorem expandSlot_idem (s : SSlot) : expandSlot true (expandSlot true s) = expandSlot true s := by
  cases s <;> simp [expandSlot]

theorem expandSlot_isFull (s : SSlot) : (expandSlot true s).isFull = true := by
  cases s <;> simp [expandSlot, SSlot.isFull]

theorem expandObj_idem (o : SObj) : expandObj true true (expandObj true true o) = expandObj true true o := by
  cases o with
  | ref p j => rfl
  | slot s => cases s <;> simp [expandObj, expandSlot, expandLd]

theorem expandShortcutsTm_idem (tm : STm) : expandShortcutsTm (expandShortcutsTm tm) = expandShortcutsTm tm := by
  simp [expandShortcutsTm, expandSlot_idem, expandObj_idem, List.map_map, Function.comp_def]

/-- shortcut expansion after class expansion: expanding the written shortcuts first makes no difference -/
theorem expand_class_expand (tm : STm) :
    expandShortcutsTm (stepTm .classToPom (expandShortcutsTm tm)) = expandShortcutsTm (stepTm .classToPom tm) := by
  simp [expandShortcutsTm, stepTm, expandSlot_idem, expandObj_idem, List.map_map, Function.comp_def]

theorem normTm_expandShortcuts (h : shortcutTableOK = true) (tm : STm) : normTm (expandShortcutsTm tm) = normTm tm := by
  unfold normTm
  rw [stepS_eq h, stepS_eq h, expand_class_expand]

/-- `_rdf_class_to_pom` finds nothing left to do on a document whose classes are already predicate-object maps -/
theorem classToPom_idem (tm : STm) : stepTm .classToPom (classAsPomTm tm) = stepTm .classToPom tm := by
  simp [stepTm, classAsPomTm]

theorem normTm_classAsPom (tm : STm) : normTm (classAsPomTm tm) = normTm tm := by
  unfold normTm
  rw [classToPom_idem]

theorem filter_full_expand (l : List SSlot) : (l.map (expandSlot true)).filter (·.isFull) = l.map (expandSlot true) := by
  induction l with
  | nil => rfl
  | cons a t ih => simp [List.filter_cons, expandSlot_isFull, ih]

theorem filter_notfull_expand (l : List SSlot) : (l.map (expandSlot true)).filter (!·.isFull) = [] := by
  induction l with
  | nil => rfl
  | cons a t ih => simp [List.filter_cons, expandSlot_isFull, ih]

/-- graph propagation after class and shortcut expansion: writing the subject's graph slots on every predicate-object map (classes
    included) first makes no difference -/
theorem graphs_on_poms_norm (tm : STm) :
    stepTm .subjectGraphsToPom (expandShortcutsTm (stepTm .classToPom (graphsOnPomsTm (classAsPomTm tm)))) =
    stepTm .subjectGraphsToPom (expandShortcutsTm (stepTm .classToPom tm)) := by
  simp [stepTm, expandShortcutsTm, graphsOnPomsTm, classAsPomTm, filter_full_expand, filter_notfull_expand, List.map_map,
    Function.comp_def]

theorem normTm_graphsOnPoms (h : shortcutTableOK = true) (tm : STm) : normTm (graphsOnPomsTm (classAsPomTm tm)) = normTm tm := by
  unfold normTm
  rw [stepS_eq h, stepS_eq h, graphs_on_poms_norm]

end Model
