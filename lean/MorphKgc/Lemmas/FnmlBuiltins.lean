/-
Contracts of the Python string primitives behind the pure built-in functions (`str.replace`, `str.split`, `str.strip`,
`s[::-1]`, `str.index`, indexing and slicing), proved over `Py.Str` for all strings.
-/
import MorphKgc.Model.FnmlBuiltins
import MorphKgc.Lemmas.Str

namespace Lemmas.FnmlBuiltins
open Py Model Model.Fnml

/-! ### `str.replace` -/

theorem replaceFuel_irrel (old new : Str) (ho : old ≠ []) :
    ∀ (n m : Nat) (s : Str), s.length ≤ n → s.length ≤ m → replaceFuel old new n s = replaceFuel old new m s := by
  intro n
  induction n with
  | zero =>
    intro m s hn _
    have : s = [] := List.length_eq_zero_iff.mp (by omega)
    subst this
    cases m with
    | zero => rfl
    | succ m => simp [replaceFuel, breakOn]
  | succ n ih =>
    intro m s hn hm
    cases m with
    | zero =>
      have : s = [] := List.length_eq_zero_iff.mp (by omega)
      subst this
      simp [replaceFuel, breakOn]
    | succ m =>
      unfold replaceFuel
      cases hb : breakOn old s with
      | none => rfl
      | some p =>
        obtain ⟨a, b⟩ := p
        have := breakOn_length_lt ho hb
        simp only
        rw [ih m b (by omega) (by omega)]

/-- no occurrence: unchanged -/
theorem replace_none (s old new : Str) (h : breakOn old s = none) : replace s old new = s := by
  unfold replace
  cases hs : s.length with
  | zero => rfl
  | succ n => unfold replaceFuel; rw [h]

/-- the FIRST occurrence is replaced and the scan continues behind it (left to right, non-overlapping): together with
    `replace_none` this determines `str.replace` on every string -/
theorem replace_first (s old new a b : Str) (ho : old ≠ []) (h : breakOn old s = some (a, b)) :
    replace s old new = a ++ new ++ replace b old new := by
  unfold replace
  have hlt := breakOn_length_lt ho h
  cases hs : s.length with
  | zero => omega
  | succ n =>
    rw [replaceFuel, h]
    simp only
    rw [replaceFuel_irrel old new ho n b.length b (by omega) (Nat.le_refl _)]

/-- a one-character `old`: EVERY occurrence is replaced -/
theorem replace_char (s : Str) (c : Char) (new : Str) :
    pyReplace s [c] new = s.flatMap fun x => if x = c then new else [x] := by
  unfold pyReplace
  simp only [List.cons_ne_nil, ↓reduceIte]
  rw [replace_single]
  rfl

/-! ### `str.split` -/

theorem split_absent (s sep : Str) (h : breakOn sep s = none) : split s sep = [s] := by
  unfold split
  cases hs : s.length with
  | zero => rfl
  | succ n => unfold splitFuel; rw [h]

theorem splitFuel_char_parts (c : Char) : ∀ (n : Nat) (s : Str), s.length ≤ n → ∀ p ∈ splitFuel [c] n s, c ∉ p := by
  intro n
  induction n with
  | zero =>
    intro s hn p hp
    have : s = [] := List.length_eq_zero_iff.mp (by omega)
    subst this
    simp [splitFuel] at hp
    subst hp
    simp
  | succ n ih =>
    intro s hn p hp
    unfold splitFuel at hp
    cases hb : breakOn [c] s with
    | none =>
      rw [hb] at hp
      simp at hp
      subst hp
      exact breakOn_single_none hb
    | some ab =>
      obtain ⟨a, b⟩ := ab
      rw [hb] at hp
      simp only [List.mem_cons] at hp
      rcases hp with rfl | hp
      · exact breakOn_single_some hb
      · have := breakOn_length_lt (by simp) hb
        exact ih b (by omega) p hp

/-- a one-character separator: no part contains it, and joining the parts with it gives the string back -/
theorem split_char (s : Str) (c : Char) :
    (∀ p ∈ split s [c], c ∉ p) ∧ join [c] (split s [c]) = s :=
  ⟨splitFuel_char_parts c s.length s (Nat.le_refl _), join_splitFuel [c] (by simp) s.length s (Nat.le_refl _)⟩

/-! ### `str.strip()` -/

theorem mem_takeWhile (p : Char → Bool) (l : Str) : ∀ x ∈ l.takeWhile p, p x = true := by
  intro x hx
  induction l with
  | nil => simp at hx
  | cons a l ih =>
    rw [List.takeWhile_cons] at hx
    by_cases h : p a = true
    · simp [h] at hx; rcases hx with rfl | hx
      · exact h
      · exact ih hx
    · simp [h] at hx

theorem dropWhile_decomp (p : Char → Bool) (s : Str) : ∃ l, s = l ++ s.dropWhile p ∧ l.all p = true :=
  ⟨s.takeWhile p, (List.takeWhile_append_dropWhile).symm, by
    rw [List.all_eq_true]; exact mem_takeWhile p s⟩

theorem head_dropWhile (p : Char → Bool) (s : Str) (c : Char) (h : (s.dropWhile p).head? = some c) : p c = false := by
  induction s with
  | nil => simp at h
  | cons x xs ih =>
    rw [List.dropWhile_cons] at h
    by_cases hx : p x = true
    · simp only [hx, ↓reduceIte] at h; exact ih h
    · simp only [hx] at h
      simp only [Bool.false_eq_true, ↓reduceIte, List.head?_cons, Option.some.injEq] at h
      subst h; simpa using hx

/-- `strip()` removes a prefix and a suffix made of whitespace only, and what is left neither starts nor ends with whitespace -/
theorem strip_spec (s : Str) :
    (∃ l r, s = l ++ pyStrip s ++ r ∧ l.all pyIsSpace = true ∧ r.all pyIsSpace = true) ∧
    (∀ c, (pyStrip s).head? = some c → pyIsSpace c = false) ∧
    (∀ c, (pyStrip s).getLast? = some c → pyIsSpace c = false) := by
  obtain ⟨l, hl, hlp⟩ := dropWhile_decomp pyIsSpace s
  obtain ⟨r, hr, hrp⟩ := dropWhile_decomp pyIsSpace (s.dropWhile pyIsSpace).reverse
  have hstrip : pyStrip s = ((s.dropWhile pyIsSpace).reverse.dropWhile pyIsSpace).reverse := rfl
  have hmid : s.dropWhile pyIsSpace = pyStrip s ++ r.reverse := by
    have := congrArg List.reverse hr
    rw [List.reverse_reverse, List.reverse_append] at this
    rw [hstrip]; exact this
  refine ⟨⟨l, r.reverse, ?_, hlp, by simpa using hrp⟩, ?_, ?_⟩
  · calc s = l ++ s.dropWhile pyIsSpace := hl
      _ = l ++ (pyStrip s ++ r.reverse) := by rw [← hmid]
      _ = l ++ pyStrip s ++ r.reverse := by simp
  · intro c hc
    -- the head of `pyStrip s` is the head of `s.dropWhile`, unless `pyStrip s` is empty
    cases hp : pyStrip s with
    | nil => simp [hp] at hc
    | cons x xs =>
      rw [hp] at hc hmid
      simp only [List.head?_cons, Option.some.injEq] at hc
      subst hc
      exact head_dropWhile pyIsSpace s x (by rw [hmid]; rfl)
  · intro c hc
    rw [hstrip, List.getLast?_reverse] at hc
    exact head_dropWhile pyIsSpace _ c hc

/-! ### `str.index` -/

/-- `s.index(sub)` returns `i` iff `sub` occurs at position `i` — the text before it has length `i` (and, by the scan of
    `breakOn`, it is the first occurrence); it raises iff `breakOn` finds nothing -/
theorem indexOf_spec (s sub : Str) (ho : sub ≠ []) :
    (∀ i, pyIndexOf s sub = some i → ∃ a b, s = a ++ sub ++ b ∧ a.length = i) ∧
    (pyIndexOf s sub = none ↔ breakOn sub s = none) := by
  unfold pyIndexOf
  simp only [ho, ↓reduceIte]
  refine ⟨fun i h => ?_, ?_⟩
  · cases hb : breakOn sub s with
    | none => simp [hb] at h
    | some p =>
      obtain ⟨a, b⟩ := p
      simp only [hb, Option.map_some, Option.some.injEq] at h
      exact ⟨a, b, breakOn_eq_some hb, h⟩
  · cases breakOn sub s <;> simp

/-! ### indexing and slicing -/

theorem pyIndex_nonneg {α} (l : List α) (i : Nat) : pyIndex l (i : Int) = l[i]? := by
  unfold pyIndex
  simp

theorem pyIndex_neg {α} (l : List α) (k : Nat) (hk : 0 < k) (hl : k ≤ l.length) :
    pyIndex l (-(k : Int)) = l[l.length - k]? := by
  unfold pyIndex
  have h1 : ¬ (0 : Int) ≤ -(k : Int) := by omega
  have h2 : (k : Int) ≤ (l.length : Int) := by omega
  simp only [h1, ↓reduceIte, Int.neg_neg, Int.toNat_natCast, h2]

theorem pySlice_nonneg {α} (l : List α) (a b : Nat) :
    pySlice l (a : Int) (some (b : Int)) = (l.drop (min a l.length)).take (min b l.length - min a l.length) := by
  unfold pySlice clampIdx
  simp

theorem pySlice_to_end {α} (l : List α) (a : Nat) : pySlice l (a : Int) none = l.drop a := by
  unfold pySlice clampIdx
  simp only [Int.natCast_nonneg, ↓reduceIte, Int.toNat_natCast]
  by_cases h : a ≤ l.length
  · rw [Nat.min_eq_left h, List.take_of_length_le (by simp)]
  · have h' : l.length ≤ a := by omega
    rw [Nat.min_eq_right h', List.drop_of_length_le (Nat.le_refl _), List.drop_of_length_le h']
    simp

end Lemmas.FnmlBuiltins
