/-
Lemmas for C09: rule tables that are equal as sets evaluate to the same set of statements (and fail together), provided rules with
the same triples-map id agree on what a referencing rule reads from its parent.
-/
import MorphKgc.Lemmas.SurfaceSplit
import MorphKgc.Lemmas.EvalRule

namespace Model
open Py Spec

/-- equal as sets of rules -/
def RuleSetEq (a b : List Rule) : Prop := ∀ r, r ∈ a ↔ r ∈ b

theorem RuleSetEq.symm {a b : List Rule} (h : RuleSetEq a b) : RuleSetEq b a := fun r => (h r).symm
theorem RuleSetEq.refl (a : List Rule) : RuleSetEq a a := fun _ => Iff.rfl
theorem RuleSetEq.trans {a b c : List Rule} (h : RuleSetEq a b) (h' : RuleSetEq b c) : RuleSetEq a c := fun r => (h r).trans (h' r)
theorem RuleSetEq.of_perm {a b : List Rule} (h : a.Perm b) : RuleSetEq a b := fun _ => h.mem_iff
theorem RuleSetEq.of_eq {a b : List Rule} (h : a = b) : RuleSetEq a b := h ▸ RuleSetEq.refl a

/-- what a rule that references a triples map (join parent) reads from the rule it finds for it -/
structure ParentView where
  subjectMapType : MapType
  subjectMapValue : Str
  subjectTermtype : TermType
  sourceName : Str
  logicalSourceType : Option LogicalSourceType
  logicalSourceValue : Str
  iterator : Option Str
  deriving DecidableEq

def parentView (r : Rule) : ParentView :=
  ⟨r.subjectMapType, r.subjectMapValue, r.subjectTermtype, r.sourceName, r.logicalSourceType, r.logicalSourceValue, r.iterator⟩

/-- rules with the same triples-map id have the same subject map and logical source (they come from one triples map) -/
def Coherent (rs : List Rule) : Prop := ∀ r ∈ rs, ∀ r' ∈ rs, r.tmId = r'.tmId → parentView r = parentView r'

theorem Coherent.of_setEq {a b : List Rule} (h : RuleSetEq a b) (hc : Coherent a) : Coherent b :=
  fun r hr r' hr' e => hc r ((h r).mpr hr) r' ((h r').mpr hr') e

/-- looking a parent up in two tables that are equal as sets: found in both or in neither, and the two agree on the view -/
theorem find_parent_congr {a b : List Rule} (h : RuleSetEq a b) (hc : Coherent a) (id : Str) :
    (a.find? (fun r => r.tmId = id) = none ∧ b.find? (fun r => r.tmId = id) = none) ∨
    ∃ p p', a.find? (fun r => r.tmId = id) = some p ∧ b.find? (fun r => r.tmId = id) = some p' ∧ parentView p = parentView p' := by
  cases ha : a.find? (fun r => r.tmId = id) with
  | none =>
    left
    refine ⟨rfl, ?_⟩
    rw [List.find?_eq_none] at ha ⊢
    intro r hr
    exact ha r ((h r).mpr hr)
  | some p =>
    right
    cases hb : b.find? (fun r => r.tmId = id) with
    | none =>
      rw [List.find?_eq_none] at hb
      have hp := List.mem_of_find?_eq_some ha
      have := List.find?_some ha
      exact absurd this (hb p ((h p).mp hp))
    | some p' =>
      refine ⟨p, p', rfl, rfl, ?_⟩
      have hp := List.mem_of_find?_eq_some ha
      have hp' := (h p').mpr (List.mem_of_find?_eq_some hb)
      have e1 : p.tmId = id := by simpa using List.find?_some ha
      have e2 : p'.tmId = id := by simpa using List.find?_some hb
      exact hc p hp p' hp' (e1.trans e2.symm)

/-- `evalRule` with the parent lookup made explicit -/
def evalRuleWith (env : Env) (parent : Option Rule) (r : Rule) : Except MatErr (List Str) := do
  if isAllConstant r then
    let t ← rowTriple env r r.objectMapType r.objectMapValue [] []
    pure [t]
  else if r.objectMapType = .parentTM then
    match parent with
    | none => .error (.keyError r.objectMapValue)
    | some parent =>
      let refs := refsOfRule r
      let prefs := refsOfRule parent true ++ r.objectJoin.map (·.2)
      let data ← preprocess env.na refs (env.table r)
      let pdata ← preprocess env.na prefs (env.table parent)
      let merged := mergeData data pdata r.objectJoin
      merged.mapM (rowTriple env r parent.subjectMapType parent.subjectMapValue "parent_".toList)
  else do
    let data ← preprocess env.na (refsOfRule r) (env.table r)
    data.mapM (rowTriple env r r.objectMapType r.objectMapValue [])

theorem evalRule_eq_with (env : Env) (rules : List Rule) (r : Rule) :
    evalRule env rules r = evalRuleWith env (findRule rules r.objectMapValue) r := by
  unfold evalRule evalRuleWith
  rfl

theorem evalRuleWith_view (env : Env) (p p' : Rule) (h : parentView p = parentView p') (r : Rule) :
    evalRuleWith env (some p) r = evalRuleWith env (some p') r := by
  simp only [parentView, ParentView.mk.injEq] at h
  obtain ⟨h1, h2, _, h4, _, h6, _⟩ := h
  simp only [evalRuleWith, refsOfRule, Env.table, h1, h2, h4, h6, ↓reduceIte]

theorem evalRule_congr (env : Env) {a b : List Rule} (h : RuleSetEq a b) (hc : Coherent a) (r : Rule) :
    evalRule env a r = evalRule env b r := by
  rw [evalRule_eq_with, evalRule_eq_with]
  unfold findRule
  rcases find_parent_congr h hc r.objectMapValue with ⟨ha, hb⟩ | ⟨p, p', ha, hb, hv⟩
  · rw [ha, hb]
  · rw [ha, hb]
    exact evalRuleWith_view env p p' hv r

theorem mapM_ok_each {α β ε} (f : α → Except ε β) (l : List α) (ys : List β) (h : l.mapM f = .ok ys) :
    ∀ x ∈ l, ∃ y, f x = .ok y := by
  induction l generalizing ys with
  | nil => simp
  | cons a l ih =>
    rw [List.mapM_cons] at h
    cases hfa : f a with
    | error e => simp [hfa, bind, Except.bind] at h
    | ok b =>
      cases hl : l.mapM f with
      | error e => simp [hfa, hl, bind, Except.bind] at h
      | ok bs =>
        intro x hx
        rcases List.mem_cons.mp hx with rfl | hx
        · exact ⟨b, hfa⟩
        · exact ih bs hl x hx

/-- `evalAll` succeeds iff every asserted rule evaluates, and then holds exactly the lines of the asserted rules -/
theorem evalAll_iff (env : Env) (rules : List Rule) (out : List Str) (h : evalAll env rules = .ok out) :
    (∀ r ∈ rules, r.asserted = true → ∃ lines, evalRule env rules r = .ok lines) ∧
    ∀ line, line ∈ out ↔ ∃ r ∈ rules, r.asserted = true ∧ ∃ lines, evalRule env rules r = .ok lines ∧ line ∈ lines := by
  unfold evalAll at h
  cases hp : (rules.filter (·.asserted)).mapM (evalRule env rules) with
  | error e => simp [hp, bind, Except.bind] at h
  | ok parts =>
    simp only [hp, bind, Except.bind, pure, Except.pure, Except.ok.injEq] at h
    subst h
    refine ⟨fun r hr ha => mapM_ok_each _ _ _ hp r (by simp [List.mem_filter, hr, ha]), fun line => ?_⟩
    rw [mem_dedupFirst, List.mem_flatten]
    constructor
    · rintro ⟨l, hl, hline⟩
      obtain ⟨r, hr, hrl⟩ := (mem_of_mapM_ok _ _ _ hp l).mp hl
      simp only [List.mem_filter] at hr
      exact ⟨r, hr.1, hr.2, l, hrl, hline⟩
    · rintro ⟨r, hr, ha, l, hrl, hline⟩
      exact ⟨l, (mem_of_mapM_ok _ _ _ hp l).mpr ⟨r, by simp [List.mem_filter, hr, ha], hrl⟩, hline⟩

theorem evalAll_ok_of_forall (env : Env) (rules : List Rule)
    (h : ∀ r ∈ rules, r.asserted = true → ∃ lines, evalRule env rules r = .ok lines) : ∃ out, evalAll env rules = .ok out := by
  obtain ⟨parts, hparts⟩ := mapM_ok_of_forall_exists (evalRule env rules) (rules.filter (·.asserted))
    (fun r hr => by
      simp only [List.mem_filter] at hr
      exact h r hr.1 hr.2)
  exact ⟨dedupFirst parts.flatten, by unfold evalAll; rw [hparts]; rfl⟩

/-- **rule tables that are equal as sets evaluate alike** -/
theorem evalAll_resp (env : Env) {a b : List Rule} (h : RuleSetEq a b) (hc : Coherent a) (out : List Str)
    (ha : evalAll env a = .ok out) : ∃ out', evalAll env b = .ok out' ∧ ∀ line, line ∈ out ↔ line ∈ out' := by
  obtain ⟨hall, hmem⟩ := evalAll_iff env a out ha
  have hallb : ∀ r ∈ b, r.asserted = true → ∃ lines, evalRule env b r = .ok lines := by
    intro r hr has
    rw [← evalRule_congr env h hc r]
    exact hall r ((h r).mpr hr) has
  obtain ⟨out', hb⟩ := evalAll_ok_of_forall env b hallb
  refine ⟨out', hb, fun line => ?_⟩
  rw [hmem line, (evalAll_iff env b out' hb).2 line]
  constructor
  · rintro ⟨r, hr, has, l, hl, hline⟩
    exact ⟨r, (h r).mp hr, has, l, by rw [← evalRule_congr env h hc r]; exact hl, hline⟩
  · rintro ⟨r, hr, has, l, hl, hline⟩
    exact ⟨r, (h r).mpr hr, has, l, by rw [evalRule_congr env h hc r]; exact hl, hline⟩

/-! ### `_preprocess_mappings` respects set equality -/

theorem setEq_dedupFirst {a b : List Rule} (h : RuleSetEq a b) : RuleSetEq (dedupFirst a) (dedupFirst b) := by
  intro r; simp only [mem_dedupFirst]; exact h r

theorem setEq_map (f : Rule → Rule) {a b : List Rule} (h : RuleSetEq a b) : RuleSetEq (a.map f) (b.map f) := by
  intro r
  simp only [List.mem_map]
  constructor
  · rintro ⟨x, hx, rfl⟩; exact ⟨x, (h x).mp hx, rfl⟩
  · rintro ⟨x, hx, rfl⟩; exact ⟨x, (h x).mpr hx, rfl⟩

theorem parentView_undelim {r r' : Rule} (h : parentView r = parentView r') :
    parentView (undelimRule r) = parentView (undelimRule r') := by
  simp only [parentView, ParentView.mk.injEq] at h
  obtain ⟨h1, h2, h3, h4, h5, h6, h7⟩ := h
  simp [parentView, undelimRule, h1, h2, h3, h4, h5, h6, h7]

theorem coherent_dedupFirst {a : List Rule} (hc : Coherent a) : Coherent (dedupFirst a) :=
  Coherent.of_setEq (fun r => (mem_dedupFirst a r).symm) hc

theorem coherent_map_undelim {a : List Rule} (hc : Coherent a) : Coherent (a.map undelimRule) := by
  intro r hr r' hr' e
  simp only [List.mem_map] at hr hr'
  obtain ⟨x, hx, rfl⟩ := hr
  obtain ⟨x', hx', rfl⟩ := hr'
  exact parentView_undelim (hc x hx x' hx' e)

theorem eliminateSelfJoin_congr {a b : List Rule} (h : RuleSetEq a b) (hc : Coherent a) (r : Rule) :
    eliminateSelfJoin a r = eliminateSelfJoin b r := by
  unfold eliminateSelfJoin
  by_cases hpt : r.objectMapType = .parentTM
  · simp only [hpt, if_true]
    rcases find_parent_congr h hc r.objectMapValue with ⟨ha, hb⟩ | ⟨p, p', ha, hb, hv⟩
    · rw [ha, hb]
    · rw [ha, hb]
      simp only [parentView, ParentView.mk.injEq] at hv
      obtain ⟨h1, h2, h3, h4, _, h6, h7⟩ := hv
      have hsj : subjRefsAreJoinCols r p = subjRefsAreJoinCols r p' := by
        unfold subjRefsAreJoinCols refsOfRule
        simp only [h1, h2, ↓reduceIte]
      simp only [h1, h2, h3, h4, h6, h7, hsj]
  · simp [hpt]

theorem eliminateSelfJoin_view (rules : List Rule) (r : Rule) :
    (eliminateSelfJoin rules r).tmId = r.tmId ∧ parentView (eliminateSelfJoin rules r) = parentView r := by
  unfold eliminateSelfJoin
  split
  · split
    · split <;> exact ⟨rfl, rfl⟩
    · exact ⟨rfl, rfl⟩
  · exact ⟨rfl, rfl⟩

/-- `drop_duplicates`, delimiter removal and self-join elimination respect set equality -/
theorem post_resp {a b : List Rule} (h : RuleSetEq a b) (hc : Coherent a) : RuleSetEq (post a) (post b) := by
  unfold post
  have hA : RuleSetEq ((dedupFirst a).map undelimRule) ((dedupFirst b).map undelimRule) := setEq_map _ (setEq_dedupFirst h)
  have hcA : Coherent ((dedupFirst a).map undelimRule) := coherent_map_undelim (coherent_dedupFirst hc)
  intro r
  rw [List.mem_map, List.mem_map]
  constructor
  · rintro ⟨x, hx, rfl⟩
    exact ⟨x, (hA x).mp hx, (eliminateSelfJoin_congr hA hcA x).symm⟩
  · rintro ⟨x, hx, rfl⟩
    exact ⟨x, (hA x).mpr hx, eliminateSelfJoin_congr hA hcA x⟩

theorem coherent_post {a : List Rule} (hc : Coherent a) : Coherent (post a) := by
  unfold post
  have hcA : Coherent ((dedupFirst a).map undelimRule) := coherent_map_undelim (coherent_dedupFirst hc)
  intro r hr r' hr' e
  rw [List.mem_map] at hr hr'
  obtain ⟨x, hx, rfl⟩ := hr
  obtain ⟨x', hx', rfl⟩ := hr'
  rw [(eliminateSelfJoin_view _ x).2, (eliminateSelfJoin_view _ x').2]
  rw [(eliminateSelfJoin_view _ x).1, (eliminateSelfJoin_view _ x').1] at e
  exact hcA x hx x' hx' e

end Model
