/-
Bridge between the generation rules (`Spec/Rules.lean`, statements as strings) and the N-Quads grammar
(`Spec/NQuads.lean`, statements as terms with a verified lexer): every string the rules generate for a
document inside the decidable scope `GrammarOK` is the rendering of a well-formed statement.  Used by
`Props/C05.lean` for the whole-line validity / round-trip theorem.
-/
import MorphKgc.Spec.Rules
import MorphKgc.Spec.NQuads
import MorphKgc.Lemmas.NQuads
import MorphKgc.Lemmas.Pct

namespace Spec
open Py Model

/-! ### terms -/

def litKindOf (tm : TermMap) : NQ.LitKind :=
  match tm.lang, tm.datatype with
  | some l, _ => .lang l
  | none, some d => if d = xsdNs ++ "string".toList then .plain else .typed d
  | none, none => .plain

/-- the grammar term denoted by a term map and the lexical value generated for it -/
def toNQ (tm : TermMap) (v : Str) : NQ.Term :=
  match tm.termType with
  | .iri => .iri v
  | .bnode => .bnode v
  | .literal => .lit v (litKindOf tm)
  | .star => .iri v

theorem escChar_eq (c : Char) :
    (if c = '\\' then ['\\', '\\'] else if c = '"' then ['\\', '"'] else if c = '\'' then ['\\', '\'']
      else if c = '\n' then ['\\', 'n'] else if c = '\r' then ['\\', 'r'] else if c = '\t' then ['\\', 't']
      else if c = Char.ofNat 8 then ['\\', 'b'] else if c = Char.ofNat 12 then ['\\', 'f'] else [c]) = NQ.escChar c := by
  unfold NQ.escChar
  have h8 : Char.ofNat 8 = '\x08' := by decide
  have h12 : Char.ofNat 12 = '\x0c' := by decide
  rw [h8, h12]
  by_cases h1 : c = '\\'
  · subst h1; decide
  by_cases h2 : c = '"'
  · subst h2; decide
  by_cases h3 : c = '\''
  · subst h3; decide
  by_cases h4 : c = '\n'
  · subst h4; decide
  by_cases h5 : c = '\r'
  · subst h5; decide
  by_cases h6 : c = '\t'
  · subst h6; decide
  by_cases h7 : c = '\x08'
  · subst h7; decide
  by_cases h8 : c = '\x0c'
  · subst h8; decide
  simp [h1, h2, h3, h4, h5, h6, h7, h8]

theorem escapeLit_eq_escape (v : Str) : escapeLit v = NQ.escape v := by
  unfold escapeLit NQ.escape
  congr 1
  funext c
  exact escChar_eq c

/-- the string the rules render for a term is the serialisation of the grammar term -/
theorem renderTerm_toNQ (tm : TermMap) (v : Str) (h : tm.termType ≠ .star) :
    NQ.renderTerm (toNQ tm v) = renderTerm tm v := by
  unfold toNQ renderTerm
  cases htt : tm.termType with
  | iri => simp [NQ.renderTerm]
  | bnode => simp [NQ.renderTerm]
  | star => exact absurd htt h
  | literal =>
    simp only [litKindOf]
    rw [escapeLit_eq_escape]
    cases hl : tm.lang with
    | some l => simp [NQ.renderTerm]
    | none =>
      cases hd : tm.datatype with
      | none => simp [NQ.renderTerm]
      | some d =>
        dsimp only
        by_cases hx : d = xsdNs ++ "string".toList
        · rw [if_pos hx, if_pos hx]; simp [NQ.renderTerm]
        · rw [if_neg hx, if_neg hx]; simp [NQ.renderTerm]

theorem iriChar_eq : NQ.iriChar = isIriChar := rfl

/-- decidable scope of the grammar theorem for one term map.  What it excludes is exactly the recorded findings
    C05_F1 (reference-valued IRIs are not encoded) and C05_F2 (data-derived blank-node labels are raw), RDF-star
    term maps (C13) and syntactically invalid constants / language tags / datatype IRIs in the mapping itself. -/
def TMGrammarOK (safe : Str) (tm : TermMap) : Bool :=
  match tm.termType with
  | .iri =>
    (match tm.kind with
     | .constant => NQ.wfIri tm.value
     | .template => NQ.wfIri tm.tpl.pre && tm.tpl.parts.all (fun p => NQ.wfIri p.2) && safe.all NQ.iriChar
     | .reference => false)
  | .bnode =>
    (match tm.kind with
     | .constant => NQ.wfLabel tm.value
     | .template => tm.tpl.parts.isEmpty && NQ.wfLabel tm.tpl.pre
     | .reference => false)
  | .literal =>
    (match tm.lang, tm.datatype with
     | some l, _ => NQ.wfLang l
     | none, some d => NQ.wfIri d
     | none, none => true)
  | .star => false

theorem wfIri_append {a b : Str} (ha : NQ.wfIri a = true) (hb : NQ.wfIri b = true) : NQ.wfIri (a ++ b) = true := by
  simp only [NQ.wfIri, List.all_append, Bool.and_eq_true] at *
  exact ⟨ha, hb⟩

theorem wfIri_pctEncode {safe : Str} (hs : safe.all NQ.iriChar = true) (v : Str) : NQ.wfIri (pctEncode safe v) = true := by
  have := pctEncode_isIriBody safe (by rw [← iriChar_eq]; exact hs) v
  simpa [IsIriBody, NQ.wfIri, iriChar_eq] using this

/-- invariant of a fold over `Option` accumulators that stays `none` once it is `none` -/
theorem foldl_opt_inv {α : Type} (P : Str → Prop) (f : Option Str → α → Option Str) (hnone : ∀ x, f none x = none) :
    ∀ (xs : List α) (acc : Option Str) (v : Str),
      (∀ a x r, x ∈ xs → P a → f (some a) x = some r → P r) → (∀ a, acc = some a → P a) →
      xs.foldl f acc = some v → P v
  | [], acc, v, _, hacc, h => hacc v (by simpa using h)
  | x :: xs, acc, v, hstep, hacc, h => by
    rw [List.foldl_cons] at h
    refine foldl_opt_inv P f hnone xs (f acc x) v (fun a y r hy => hstep a y r (List.mem_cons_of_mem _ hy)) ?_ h
    intro r hr
    cases acc with
    | none => rw [hnone] at hr; cases hr
    | some a => exact hstep a x r (List.mem_cons_self) (hacc a rfl) hr

/-- every value generated by a term map of the scope denotes a well-formed grammar term -/
theorem genValue_wf (safe : Str) (na : List Str) (tm : TermMap) (ρ : Row) (hok : TMGrammarOK safe tm = true) (v : Str)
    (h : genValue safe na tm ρ = some v) : NQ.wfTerm (toNQ tm v) = true := by
  unfold TMGrammarOK at hok
  unfold toNQ
  cases htt : tm.termType with
  | star => simp [htt] at hok
  | literal =>
    simp only [htt] at hok
    simp only [litKindOf]
    cases hl : tm.lang with
    | some l => simpa [hl, NQ.wfTerm] using hok
    | none =>
      cases hd : tm.datatype with
      | none => simp [NQ.wfTerm]
      | some d =>
        dsimp only
        by_cases hx : d = xsdNs ++ "string".toList
        · rw [if_pos hx]; simp [NQ.wfTerm]
        · rw [if_neg hx]; simpa [hl, hd, NQ.wfTerm] using hok
  | bnode =>
    simp only [htt] at hok
    simp only [NQ.wfTerm]
    unfold genValue at h
    cases hk : tm.kind with
    | reference => simp [hk] at hok
    | constant =>
      simp only [hk, Option.some.injEq] at h hok
      subst h; exact hok
    | template =>
      simp only [hk, Bool.and_eq_true, List.isEmpty_iff] at h hok
      rw [hok.1] at h
      simp only [List.foldl_nil, Option.some.injEq] at h
      subst h; exact hok.2
  | iri =>
    simp only [htt] at hok
    simp only [NQ.wfTerm]
    unfold genValue at h
    cases hk : tm.kind with
    | reference => simp [hk] at hok
    | constant =>
      simp only [hk, Option.some.injEq] at h hok
      subst h; exact hok
    | template =>
      simp only [hk, Bool.and_eq_true] at h hok
      simp only [htt, if_true] at h
      refine foldl_opt_inv (fun a => NQ.wfIri a = true) _ (fun x => rfl) tm.tpl.parts (some tm.tpl.pre) v ?_
        (fun a ha => by cases ha; exact hok.1.1) h
      intro a x r hx ha hr
      have hx2 := List.all_eq_true.mp hok.1.2 x hx
      cases hv : valueOf na ρ x.1 with
      | none => simp [hv] at hr
      | some w =>
        simp only [hv, Option.some.injEq] at hr
        subst hr
        exact wfIri_append (wfIri_append ha (wfIri_pctEncode hok.2 w)) hx2

/-- … and the rendered string is that term's serialisation -/
theorem genTerm_wf (safe : Str) (na : List Str) (tm : TermMap) (ρ : Row) (hok : TMGrammarOK safe tm = true) (s : Str)
    (h : genTerm safe na tm ρ = some s) :
    ∃ v, genValue safe na tm ρ = some v ∧ NQ.wfTerm (toNQ tm v) = true ∧ NQ.renderTerm (toNQ tm v) = s := by
  unfold genTerm at h
  cases hv : genValue safe na tm ρ with
  | none => simp [hv] at h
  | some v =>
    simp only [hv, Option.map_some, Option.some.injEq] at h
    refine ⟨v, rfl, genValue_wf safe na tm ρ hok v hv, ?_⟩
    rw [renderTerm_toNQ tm v ?_, h]
    intro hs
    simp [TMGrammarOK, hs] at hok

/-! ### positions -/

def SubjGOK (safe : Str) (tm : TermMap) : Bool := TMGrammarOK safe tm && tm.termType != .literal
def PredGOK (safe : Str) (tm : TermMap) : Bool := TMGrammarOK safe tm && tm.termType == .iri
def GraphGOK (safe dg : Str) (tm : TermMap) : Bool :=
  isDefaultGraph dg tm || (TMGrammarOK safe tm && (tm.termType == .iri || tm.termType == .bnode))

theorem okSubj_toNQ {tm : TermMap} (h : (tm.termType != .literal) = true) (v : Str) : NQ.okSubj (toNQ tm v) = true := by
  unfold toNQ
  cases htt : tm.termType <;> simp_all [NQ.okSubj]

theorem okPred_toNQ {tm : TermMap} (h : (tm.termType == .iri) = true) (v : Str) : NQ.okPred (toNQ tm v) = true := by
  unfold toNQ
  cases htt : tm.termType <;> simp_all [NQ.okPred]

theorem okGraph_toNQ {tm : TermMap} (h : (tm.termType == .iri || tm.termType == .bnode) = true) (v : Str) :
    NQ.okGraph (some (toNQ tm v)) = true := by
  unfold toNQ
  cases htt : tm.termType <;> simp_all [NQ.okGraph]

/-- the graph component of a statement of the scope: the default graph (empty string) or a well-formed graph term -/
theorem graphTerms_wf (env : SEnv) (gs : List TermMap) (ρ : Row) (hgs : gs.all (GraphGOK env.safe env.defaultGraph) = true)
    (g : Str) (hg : g ∈ graphTerms env gs ρ) :
    g = [] ∨ ∃ t, NQ.wfTerm t = true ∧ NQ.okGraph (some t) = true ∧ NQ.renderTerm t = g := by
  unfold graphTerms at hg
  by_cases he : gs = []
  · simp [he] at hg; exact .inl hg
  · simp only [he, if_false, List.mem_filterMap] at hg
    obtain ⟨gm, hgm, hval⟩ := hg
    by_cases hd : isDefaultGraph env.defaultGraph gm = true
    · simp [hd] at hval; exact .inl hval
    · simp only [hd, Bool.false_eq_true, if_false] at hval
      have hok := List.all_eq_true.mp hgs gm hgm
      simp only [GraphGOK, hd, Bool.false_or, Bool.and_eq_true] at hok
      obtain ⟨v, _, hwf, hr⟩ := genTerm_wf env.safe env.na gm ρ hok.1 g hval
      exact .inr ⟨_, hwf, okGraph_toNQ hok.2 v, hr⟩

/-- referencing object maps generate the parent's subject, which is checked where the parent is declared -/
def ObjGOK (safe : Str) : ObjMap → Bool
  | .term om => TMGrammarOK safe om
  | .ref _ _ => true

def shapeOf : OutFmt → NQ.Shape
  | .ntriples => .triple
  | .nquads => .quad

/-- a rendered statement of the rules is the engine-shaped body of a well-formed grammar statement -/
theorem renderStmt_body (fmt : OutFmt) (s p o : NQ.Term) (g : Str)
    (hs : NQ.wfTerm s = true) (hp : NQ.wfTerm p = true) (ho : NQ.wfTerm o = true)
    (hos : NQ.okSubj s = true) (hop : NQ.okPred p = true)
    (hg : g = [] ∨ ∃ t, NQ.wfTerm t = true ∧ NQ.okGraph (some t) = true ∧ NQ.renderTerm t = g) :
    ∃ st : NQ.Stmt, NQ.wfStmt st = true ∧ st.s = s ∧ st.p = p ∧ st.o = o ∧ (shapeOf fmt = .triple → st.g = none) ∧
      renderStmt fmt (NQ.renderTerm s) (NQ.renderTerm p) (NQ.renderTerm o) g = NQ.renderStmtBody (shapeOf fmt) st := by
  cases fmt with
  | ntriples =>
    refine ⟨⟨s, p, o, none⟩, ?_, rfl, rfl, rfl, fun _ => rfl, ?_⟩
    · simp [NQ.wfStmt, hs, hp, ho, hos, hop, NQ.okGraph]
    · simp [renderStmt, NQ.renderStmtBody, shapeOf]
  | nquads =>
    rcases hg with rfl | ⟨t, hwt, hgt, rfl⟩
    · refine ⟨⟨s, p, o, none⟩, ?_, rfl, rfl, rfl, fun h => (by simp [shapeOf] at h), ?_⟩
      · simp [NQ.wfStmt, hs, hp, ho, hos, hop, NQ.okGraph]
      · simp [renderStmt, NQ.renderStmtBody, shapeOf]
    · refine ⟨⟨s, p, o, some t⟩, ?_, rfl, rfl, rfl, fun h => (by simp [shapeOf] at h), ?_⟩
      · simp [NQ.wfStmt, hs, hp, ho, hos, hop, hwt, hgt]
      · simp [renderStmt, NQ.renderStmtBody, shapeOf]

/-! ### documents -/

/-- decidable scope of the whole-line theorem -/
def GrammarOK (env : SEnv) (doc : Doc) : Bool :=
  NQ.wfIri env.rdfType &&
  doc.tms.all fun tm =>
    SubjGOK env.safe tm.subject && tm.classes.all NQ.wfIri && tm.graphs.all (GraphGOK env.safe env.defaultGraph) &&
    tm.poms.all fun pom =>
      pom.predicates.all (PredGOK env.safe) &&
      pom.objects.all (ObjGOK env.safe) &&
      pom.graphs.all (GraphGOK env.safe env.defaultGraph)

/-- what is known about the object term of a statement: generated by a term-valued object map from the row, or the
    subject of a parent triples map of the document generated from a joined parent row -/
def ObjFrom (env : SEnv) (doc : Doc) (ρ : Row) : ObjMap → NQ.Term → Prop
  | .term om, t => ∃ v, genValue env.safe env.na om ρ = some v ∧ t = toNQ om v
  | .ref pid conds, t =>
    ∃ ptm, doc.tms.find? (fun t => t.id = pid) = some ptm ∧ ∃ pr ∈ joinRows env.na conds ρ (env.table ptm),
      ∃ v, genValue env.safe env.na ptm.subject pr = some v ∧ t = toNQ ptm.subject v

theorem stmtsFor_wf (env : SEnv) (doc : Doc) (hdoc : ∀ t ∈ doc.tms, SubjGOK env.safe t.subject = true)
    (tm : TriplesMap) (ρ : Row) (gs : List TermMap) (p : TermMap) (o : ObjMap)
    (hs : SubjGOK env.safe tm.subject = true) (hp : PredGOK env.safe p = true)
    (ho : ObjGOK env.safe o = true)
    (hgs : gs.all (GraphGOK env.safe env.defaultGraph) = true) (line : Str) (hl : line ∈ stmtsFor env doc tm ρ gs p o) :
    ∃ st : NQ.Stmt, NQ.wfStmt st = true ∧ (shapeOf env.fmt = .triple → st.g = none) ∧
      line = NQ.renderStmtBody (shapeOf env.fmt) st ∧
      (∃ v, genValue env.safe env.na tm.subject ρ = some v ∧ st.s = toNQ tm.subject v) ∧
      (∃ v, genValue env.safe env.na p ρ = some v ∧ st.p = toNQ p v) ∧
      ObjFrom env doc ρ o st.o := by
  unfold stmtsFor at hl
  simp only [SubjGOK, PredGOK, Bool.and_eq_true] at hs hp
  cases hsv : genTerm env.safe env.na tm.subject ρ with
  | none => simp [hsv] at hl
  | some s =>
    cases hpv : genTerm env.safe env.na p ρ with
    | none => simp [hsv, hpv] at hl
    | some pt =>
      simp only [hsv, hpv, List.mem_flatMap, List.mem_map] at hl
      obtain ⟨ot, hot, g, hg, rfl⟩ := hl
      obtain ⟨sv, hsv1, hswf, hsr⟩ := genTerm_wf _ _ _ _ hs.1 s hsv
      obtain ⟨pv, hpv1, hpwf, hpr⟩ := genTerm_wf _ _ _ _ hp.1 pt hpv
      have hgw := graphTerms_wf env gs ρ hgs g hg
      -- the object term
      have hobj : ∃ t, NQ.wfTerm t = true ∧ NQ.renderTerm t = ot ∧ ObjFrom env doc ρ o t := by
        cases o with
        | term om =>
          simp only [Option.mem_toList] at hot
          obtain ⟨ov, hov, howf, hor⟩ := genTerm_wf _ _ _ _ (by simpa [ObjGOK] using ho) ot hot
          exact ⟨_, howf, hor, ov, hov, rfl⟩
        | ref pid conds =>
          simp only at hot
          cases hf : doc.tms.find? (fun t => t.id = pid) with
          | none => simp [hf] at hot
          | some ptm =>
            simp only [hf, List.mem_filterMap] at hot
            obtain ⟨pr, hpr, hval⟩ := hot
            have hmem : ptm ∈ doc.tms := List.mem_of_find?_eq_some hf
            have hpsub := hdoc ptm hmem
            simp only [SubjGOK, Bool.and_eq_true] at hpsub
            obtain ⟨ov, hov, howf, hor⟩ := genTerm_wf _ _ _ _ hpsub.1 ot hval
            exact ⟨_, howf, hor, ptm, hf, pr, hpr, ov, hov, rfl⟩
      obtain ⟨t, htwf, htr, hfrom⟩ := hobj
      obtain ⟨st, hwf, e1, e2, e3, hgn, hrender⟩ := renderStmt_body env.fmt (toNQ tm.subject sv) (toNQ p pv) t g hswf hpwf htwf
        (okSubj_toNQ hs.2 sv) (okPred_toNQ hp.2 pv) hgw
      refine ⟨st, hwf, hgn, ?_, ⟨sv, hsv1, e1⟩, ⟨pv, hpv1, e2⟩, e3 ▸ hfrom⟩
      rw [← hrender, hsr, hpr, htr]

theorem classPred_ok (env : SEnv) (h : NQ.wfIri env.rdfType = true) : PredGOK env.safe (classPred env) = true := by
  simp [PredGOK, classPred, TMGrammarOK, h]

theorem classObj_ok (env : SEnv) (c : Str) (h : NQ.wfIri c = true) :
    ObjGOK env.safe (classObj c) = true := by
  simp [ObjGOK, classObj, TMGrammarOK, h]

/-- **every line the generation rules produce for a document of the scope is the engine-shaped rendering of a
    well-formed N-Triples / N-Quads statement** -/
theorem evalDoc_wf (env : SEnv) (doc : Doc) (hok : GrammarOK env doc = true) (line : Str) (hl : line ∈ evalDoc env doc) :
    ∃ st : NQ.Stmt, NQ.wfStmt st = true ∧ (shapeOf env.fmt = .triple → st.g = none) ∧
      line = NQ.renderStmtBody (shapeOf env.fmt) st := by
  simp only [GrammarOK, Bool.and_eq_true, List.all_eq_true] at hok
  obtain ⟨hrdf, hdoc⟩ := hok
  have hsubj : ∀ t ∈ doc.tms, SubjGOK env.safe t.subject = true := fun t ht => (hdoc t ht).1.1.1
  unfold evalDoc at hl
  simp only [List.mem_flatMap, List.mem_append] at hl
  obtain ⟨tm, htm, ρ, _, h⟩ := hl
  obtain ⟨⟨⟨hs, hcls⟩, hgr⟩, hpoms⟩ := hdoc tm htm
  rcases h with ⟨c, hc, hline⟩ | ⟨pom, hpom, p, hp, o, ho, hline⟩
  · obtain ⟨st, h1, h2, h3, _⟩ := stmtsFor_wf env doc hsubj tm ρ tm.graphs (classPred env) (classObj c) hs
      (classPred_ok env hrdf) (classObj_ok env c (hcls c hc)) (List.all_eq_true.mpr hgr) line hline
    exact ⟨st, h1, h2, h3⟩
  · obtain ⟨⟨hpreds, hobjs⟩, hpg⟩ := hpoms pom hpom
    have hgs : (tm.graphs ++ pom.graphs).all (GraphGOK env.safe env.defaultGraph) = true := by
      simp only [List.all_append, Bool.and_eq_true, List.all_eq_true]
      exact ⟨hgr, hpg⟩
    obtain ⟨st, h1, h2, h3, _⟩ := stmtsFor_wf env doc hsubj tm ρ (tm.graphs ++ pom.graphs) p o hs (hpreds p hp) (hobjs o ho) hgs line hline
    exact ⟨st, h1, h2, h3⟩

end Spec
