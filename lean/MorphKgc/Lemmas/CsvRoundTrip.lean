/-
C10 — the CSV round trip: the tokenizer contract `Model.Csv.parse` reads back exactly the records `Spec.Payload.renderCsvRecords` wrote,
for every list of non-empty records over arbitrary strings and every separator other than `"`, CR, LF.
-/
import MorphKgc.Spec.Payload
import MorphKgc.Model.SourceDecode

namespace Lemmas.Csv
open Py Model Model.Csv Spec.Payload

/-- the separators the theorem covers -/
def SepOk (sep : Char) : Prop := sep ≠ '"' ∧ sep ≠ '\r' ∧ sep ≠ '\n'

theorem run_append (sep : Char) (g : Cfg) (a b : Str) : run sep g (a ++ b) = run sep (run sep g a) b := by
  simp [run, List.foldl_append]

theorem run_cons (sep : Char) (g : Cfg) (c : Char) (s : Str) : run sep g (c :: s) = run sep (step sep g c) s := rfl

theorem run_nil (sep : Char) (g : Cfg) : run sep g [] = g := rfl

theorem isBlank_eq (c : Char) : Model.Csv.isBlank c = Spec.Payload.isBlank c := rfl

/-- an ordinary character of an unquoted field -/
theorem plain_iff {sep c : Char} : csvSpecial sep c = false ↔ c ≠ sep ∧ c ≠ '"' ∧ c ≠ '\r' ∧ c ≠ '\n' := by
  simp [csvSpecial, and_assoc]

/-! ### unquoted text -/

theorem run_inField (sep : Char) (f cur : Str) (row : List Str) (acc : List (List Str)) (hf : ∀ c ∈ f, csvSpecial sep c = false) :
    run sep ⟨.inField, cur, row, acc⟩ f = ⟨.inField, cur ++ f, row, acc⟩ := by
  induction f generalizing cur with
  | nil => simp [run_nil]
  | cons c f ih =>
    obtain ⟨h1, _, h3, h4⟩ := plain_iff.mp (hf c (by simp))
    rw [run_cons]
    have : step sep ⟨.inField, cur, row, acc⟩ c = ⟨.inField, cur ++ [c], row, acc⟩ := by
      simp [step, stepInField, h1, h3, h4, push]
    rw [this, ih _ (fun x hx => hf x (List.mem_cons_of_mem _ hx))]
    simp

theorem run_wsLine (sep : Char) (f cur : Str) (row : List Str) (acc : List (List Str)) (hf : ∀ c ∈ f, csvSpecial sep c = false) :
    run sep ⟨.wsLine, cur, row, acc⟩ f = ⟨if f.all Spec.Payload.isBlank then .wsLine else .inField, cur ++ f, row, acc⟩ := by
  induction f generalizing cur with
  | nil => simp [run_nil]
  | cons c f ih =>
    obtain ⟨h1, _, h3, h4⟩ := plain_iff.mp (hf c (by simp))
    have hf' : ∀ x ∈ f, csvSpecial sep x = false := fun x hx => hf x (List.mem_cons_of_mem _ hx)
    rw [run_cons]
    by_cases hb : Spec.Payload.isBlank c = true
    · have : step sep ⟨.wsLine, cur, row, acc⟩ c = ⟨.wsLine, cur ++ [c], row, acc⟩ := by
        simp [step, stepWsLine, h1, h3, h4, push, isBlank_eq, hb]
      rw [this, ih _ hf']
      simp [hb]
    · have hb' : Spec.Payload.isBlank c = false := by simpa using hb
      have : step sep ⟨.wsLine, cur, row, acc⟩ c = ⟨.inField, cur ++ [c], row, acc⟩ := by
        simp [step, stepWsLine, stepInField, h1, h3, h4, push, isBlank_eq, hb']
      rw [this, run_inField sep f _ row acc hf']
      simp [hb']

/-- reading an unquoted field from the beginning of a field (`start = false`) or of a record (`start = true`) -/
def afterUnquoted (start : Bool) (f : Str) : St :=
  match f with
  | [] => if start then .startRecord else .startField
  | _ => if start && f.all Spec.Payload.isBlank then .wsLine else .inField

theorem run_unquoted (sep : Char) (start : Bool) (f : Str) (row : List Str) (acc : List (List Str))
    (hf : ∀ c ∈ f, csvSpecial sep c = false) :
    run sep ⟨if start then .startRecord else .startField, [], row, acc⟩ f = ⟨afterUnquoted start f, f, row, acc⟩ := by
  cases f with
  | nil => cases start <;> simp [run_nil, afterUnquoted]
  | cons c f =>
    obtain ⟨h1, h2, h3, h4⟩ := plain_iff.mp (hf c (by simp))
    have hf' : ∀ x ∈ f, csvSpecial sep x = false := fun x hx => hf x (List.mem_cons_of_mem _ hx)
    rw [run_cons]
    cases start with
    | false =>
      have : step sep ⟨.startField, [], row, acc⟩ c = ⟨.inField, [c], row, acc⟩ := by
        simp [step, stepStartField, h1, h2, h3, h4, push]
      simp only [Bool.false_eq_true, ↓reduceIte, this, run_inField sep f _ row acc hf', afterUnquoted, Bool.false_and]
      simp
    | true =>
      by_cases hb : Spec.Payload.isBlank c = true
      · have : step sep ⟨.startRecord, [], row, acc⟩ c = ⟨.wsLine, [c], row, acc⟩ := by
          simp [step, stepStartRecord, h1, h3, h4, push, isBlank_eq, hb]
        simp only [↓reduceIte, this, run_wsLine sep f _ row acc hf', afterUnquoted, Bool.true_and, List.all_cons, hb]
        simp
      · have hb' : Spec.Payload.isBlank c = false := by simpa using hb
        have : step sep ⟨.startRecord, [], row, acc⟩ c = ⟨.inField, [c], row, acc⟩ := by
          simp [step, stepStartRecord, stepStartField, h1, h2, h3, h4, push, isBlank_eq, hb']
        simp only [↓reduceIte, this, run_inField sep f _ row acc hf', afterUnquoted, Bool.true_and, List.all_cons, hb', Bool.false_and]
        simp

/-! ### quoted text -/

theorem run_inQuoted (sep : Char) (f cur : Str) (row : List Str) (acc : List (List Str)) :
    run sep ⟨.inQuoted, cur, row, acc⟩ (f.flatMap csvEscChar) = ⟨.inQuoted, cur ++ f, row, acc⟩ := by
  induction f generalizing cur with
  | nil => simp [run_nil]
  | cons c f ih =>
    rw [List.flatMap_cons, run_append]
    by_cases hq : c = '"'
    · subst hq
      have : run sep ⟨.inQuoted, cur, row, acc⟩ (csvEscChar '"') = ⟨.inQuoted, cur ++ ['"'], row, acc⟩ := by
        simp [csvEscChar, run_cons, run_nil, step, stepQuoteInQuoted, push]
      rw [this, ih]; simp
    · have : run sep ⟨.inQuoted, cur, row, acc⟩ (csvEscChar c) = ⟨.inQuoted, cur ++ [c], row, acc⟩ := by
        simp [csvEscChar, hq, run_cons, run_nil, step, push]
      rw [this, ih]; simp

theorem run_quoted (sep : Char) (start : Bool) (f : Str) (row : List Str) (acc : List (List Str)) :
    run sep ⟨if start then .startRecord else .startField, [], row, acc⟩ (csvQuote f) = ⟨.quoteInQuoted, f, row, acc⟩ := by
  unfold csvQuote
  rw [List.append_assoc, List.singleton_append, run_cons]
  have : step sep ⟨if start then .startRecord else .startField, [], row, acc⟩ '"' = ⟨.inQuoted, [], row, acc⟩ := by
    cases start <;> simp [step, stepStartRecord, stepStartField, Model.Csv.isBlank]
  rw [this, run_append, run_inQuoted]
  simp [run_cons, run_nil, step]

/-! ### one field followed by the separator or by CRLF -/

/-- the states a finished field text can leave the tokenizer in -/
def FieldDone (f : Str) (row : List Str) (acc : List (List Str)) (g : Cfg) : Prop :=
  g.cur = f ∧ g.row = row ∧ g.acc = acc ∧
    (g.st = .inField ∨ g.st = .quoteInQuoted ∨ (g.st = .startField ∧ f = []) ∨ (g.st = .startRecord ∧ f = []) ∨ g.st = .wsLine)

theorem step_sep_of_done {sep : Char} (hs : SepOk sep) {f : Str} {row : List Str} {acc : List (List Str)} {g : Cfg}
    (h : FieldDone f row acc g) : step sep g sep = ⟨.startField, [], row ++ [f], acc⟩ := by
  obtain ⟨s1, s2, s3⟩ := hs
  obtain ⟨st, cur, row', acc'⟩ := g
  obtain ⟨h1, h2, h3, h4⟩ := h
  simp only at h1 h2 h3 h4
  subst h1 h2 h3
  rcases h4 with h | h | ⟨h, _⟩ | ⟨h, _⟩ | h <;> subst h <;>
    simp [step, stepInField, stepQuoteInQuoted, stepStartField, stepStartRecord, stepWsLine, s1, s2, s3, endField]

/-- the subset from which CRLF ends the record (a whitespace-only or empty first field would make the line a blank line) -/
def LineDone (f : Str) (row : List Str) (acc : List (List Str)) (g : Cfg) : Prop :=
  g.cur = f ∧ g.row = row ∧ g.acc = acc ∧ (g.st = .inField ∨ g.st = .quoteInQuoted ∨ (g.st = .startField ∧ f = []))

theorem run_crlf_of_done {sep : Char} (hs : SepOk sep) {f : Str} {row : List Str} {acc : List (List Str)} {g : Cfg}
    (h : LineDone f row acc g) : run sep g crlf = ⟨.startRecord, [], [], acc ++ [row ++ [f]]⟩ := by
  obtain ⟨s1, s2, s3⟩ := hs
  obtain ⟨st, cur, row', acc'⟩ := g
  obtain ⟨h1, h2, h3, h4⟩ := h
  simp only at h1 h2 h3 h4
  subst h1 h2 h3
  have e1 : ('\r' : Char) ≠ sep := fun e => s2 e.symm
  rcases h4 with h | h | ⟨h, _⟩ <;> subst h <;>
    simp [crlf, run_cons, run_nil, step, stepInField, stepQuoteInQuoted, stepStartField, e1, endField, endLine]

theorem not_needsQuote {sep : Char} {sole : Bool} {f : Str} (h : csvNeedsQuote sep sole f = false) :
    (∀ c ∈ f, csvSpecial sep c = false) ∧ (sole = true → f.all Spec.Payload.isBlank = false) := by
  simp only [csvNeedsQuote, Bool.or_eq_false_iff, List.any_eq_false, Bool.and_eq_false_iff] at h
  refine ⟨fun c hc => by simpa using h.1 c hc, fun hs => ?_⟩
  rcases h.2 with h2 | h2
  · simp [hs] at h2
  · exact h2

/-- after the text of a field (quoted or not), from the start of a field or of a record -/
theorem fieldDone_after (sep : Char) (start sole : Bool) (f : Str) (row : List Str) (acc : List (List Str)) :
    FieldDone f row acc (run sep ⟨if start then .startRecord else .startField, [], row, acc⟩ (csvField sep sole f)) := by
  unfold csvField
  cases hq : csvNeedsQuote sep sole f with
  | true => simp only [↓reduceIte]; rw [run_quoted]; exact ⟨rfl, rfl, rfl, .inr (.inl rfl)⟩
  | false =>
    simp only [Bool.false_eq_true, ↓reduceIte]
    rw [run_unquoted sep start f row acc (not_needsQuote hq).1]
    refine ⟨rfl, rfl, rfl, ?_⟩
    cases f with
    | nil => cases start <;> simp [afterUnquoted]
    | cons c f => simp only [afterUnquoted]; split <;> simp

theorem lineDone_after (sep : Char) (start sole : Bool) (hss : start = true → sole = true) (f : Str) (row : List Str)
    (acc : List (List Str)) :
    LineDone f row acc (run sep ⟨if start then .startRecord else .startField, [], row, acc⟩ (csvField sep sole f)) := by
  unfold csvField
  cases hq : csvNeedsQuote sep sole f with
  | true => simp only [↓reduceIte]; rw [run_quoted]; exact ⟨rfl, rfl, rfl, .inr (.inl rfl)⟩
  | false =>
    simp only [Bool.false_eq_true, ↓reduceIte]
    rw [run_unquoted sep start f row acc (not_needsQuote hq).1]
    refine ⟨rfl, rfl, rfl, ?_⟩
    cases start with
    | false => cases f <;> simp [afterUnquoted]
    | true =>
      have hb := (not_needsQuote hq).2 (hss rfl)
      cases f with
      | nil => simp at hb
      | cons c f => simp only [afterUnquoted, Bool.true_and, hb]; simp

theorem run_field_sep {sep : Char} (hs : SepOk sep) (start sole : Bool) (f : Str) (row : List Str) (acc : List (List Str)) :
    run sep ⟨if start then .startRecord else .startField, [], row, acc⟩ (csvField sep sole f ++ [sep]) =
      ⟨.startField, [], row ++ [f], acc⟩ := by
  rw [run_append, run_cons, run_nil, step_sep_of_done hs (fieldDone_after sep start sole f row acc)]

theorem run_field_crlf {sep : Char} (hs : SepOk sep) (start sole : Bool) (hss : start = true → sole = true) (f : Str)
    (row : List Str) (acc : List (List Str)) :
    run sep ⟨if start then .startRecord else .startField, [], row, acc⟩ (csvField sep sole f ++ crlf) =
      ⟨.startRecord, [], [], acc ++ [row ++ [f]]⟩ := by
  rw [run_append, run_crlf_of_done hs (lineDone_after sep start sole hss f row acc)]

/-! ### records -/

/-- the fields after the first one -/
theorem run_tail_fields {sep : Char} (hs : SepOk sep) (fs : List Str) (hne : fs ≠ []) (row : List Str) (acc : List (List Str)) :
    run sep ⟨.startField, [], row, acc⟩ (join [sep] (fs.map (csvField sep false)) ++ crlf) = ⟨.startRecord, [], [], acc ++ [row ++ fs]⟩ := by
  induction fs generalizing row with
  | nil => exact absurd rfl hne
  | cons f fs ih =>
    cases fs with
    | nil =>
      simp only [List.map_cons, List.map_nil, join]
      exact run_field_crlf hs false false (by simp) f row acc
    | cons f2 rest =>
      simp only [List.map_cons, join_cons_cons_eq]
      rw [List.append_assoc, List.append_assoc, ← List.append_assoc (csvField sep false f), run_append]
      have := run_field_sep hs false false f row acc
      simp only [Bool.false_eq_true, ↓reduceIte] at this
      rw [this]
      have ih' := ih (by simp) (row ++ [f])
      simp only [List.map_cons] at ih'
      rw [ih']
      simp
where
  join_cons_cons_eq : ∀ (sep x y : Str) (r : List Str), join sep (x :: y :: r) = x ++ sep ++ join sep (y :: r) := fun _ _ _ _ => rfl

theorem run_record {sep : Char} (hs : SepOk sep) (r : List Str) (hne : r ≠ []) (acc : List (List Str)) :
    run sep ⟨.startRecord, [], [], acc⟩ (csvRecord sep r) = ⟨.startRecord, [], [], acc ++ [r]⟩ := by
  unfold csvRecord
  cases r with
  | nil => exact absurd rfl hne
  | cons f fs =>
    cases fs with
    | nil =>
      simp only [List.length_cons, List.length_nil, Nat.zero_add, beq_self_eq_true, List.map_cons, List.map_nil, join]
      have := run_field_crlf hs true true (fun _ => rfl) f [] acc
      simpa using this
    | cons f2 rest =>
      have hl : ((f :: f2 :: rest).length == 1) = false := by simp
      simp only [hl, List.map_cons]
      show run sep _ (csvField sep false f ++ [sep] ++ join [sep] (csvField sep false f2 :: rest.map (csvField sep false)) ++ crlf) = _
      rw [List.append_assoc, run_append]
      have := run_field_sep hs true false f [] acc
      simp only [↓reduceIte, List.nil_append] at this
      rw [this]
      have := run_tail_fields hs (f2 :: rest) (by simp) [f] acc
      simp only [List.map_cons] at this
      rw [this]
      simp

theorem run_records {sep : Char} (hs : SepOk sep) (recs : List (List Str)) (hne : ∀ r ∈ recs, r ≠ []) (acc : List (List Str)) :
    run sep ⟨.startRecord, [], [], acc⟩ (renderCsvRecords sep recs) = ⟨.startRecord, [], [], acc ++ recs⟩ := by
  induction recs generalizing acc with
  | nil => simp [renderCsvRecords, run_nil]
  | cons r recs ih =>
    simp only [renderCsvRecords, List.map_cons, List.flatten_cons]
    rw [run_append, run_record hs r (hne r (by simp)) acc]
    have := ih (fun x hx => hne x (List.mem_cons_of_mem _ hx)) (acc ++ [r])
    simp only [renderCsvRecords] at this
    rw [this]
    simp

/-- **CSV round trip**: for every separator other than `"`, CR, LF and every list of non-empty records of arbitrary strings, the
    tokenizer reads back exactly what the RFC 4180 renderer wrote -/
theorem parse_render {sep : Char} (hs : SepOk sep) (recs : List (List Str)) (hne : ∀ r ∈ recs, r ≠ []) :
    parse sep (renderCsvRecords sep recs) = some recs := by
  unfold parse
  have := run_records hs recs hne []
  simp only [List.nil_append] at this
  have e : ({} : Cfg) = ⟨.startRecord, [], [], []⟩ := rfl
  rw [e, this]
  rfl

end Lemmas.Csv
