/-
C13, helper lemmas I: the generated constants, `liftMat`, frame operations, and one row of `finish`
(`lineOf`) on a flat rule in terms of the terms of its four positions.
-/
import MorphKgc.Model.StarFlat
import MorphKgc.Lemmas.EvalRule

namespace Model.Star
open Py Model Spec Spec.Star

/-! ### what the proofs use of `Gen/Star.lean` (re-checked against the Python source on every build) -/

theorem wrapQuoted_eq (t : Str) : wrapQuoted t = quote t := by
  have h1 : Gen.Star.quoteOpen = "<< ".toList := by decide
  have h2 : Gen.Star.quoteClose = " >>".toList := by decide
  simp [wrapQuoted, quote, h1, h2]

theorem nextNest_eq (n : Nat) : nextNest n = n + 1 := by
  have : Gen.Star.nestIncrement = 1 := by decide
  simp [nextNest, this]

theorem keepKey_eq (n : Nat) : keepKey n = n := by
  have : Gen.Star.keepKeyPerLevel = true := by decide
  simp [keepKey, this]

theorem graphApplies_eq (n : Nat) : graphApplies n = (n == 0) := by
  have : Gen.Star.graphAtNestZeroOnly = true := by decide
  simp [graphApplies, this]

theorem subjectRestored_eq : Gen.Star.subjectRestored = true := by decide
theorem singleJoin_eq : Gen.Star.singleConditionUsesJoin = true := by decide
theorem parentPrefix_eq : Gen.Star.parentPrefix = "parent_".toList := by decide

theorem envAt_zero (env : Env) : envAt env 0 = env := by simp [envAt, graphApplies_eq]
theorem envAt_succ (env : Env) (n : Nat) : envAt env (n + 1) = { env with fmt := .ntriples } := by
  simp [envAt, graphApplies_eq]

/-! ### `liftMat` -/

theorem liftMat_ok {α} {x : Except MatErr α} {a : α} (h : x = .ok a) : liftMat x = .ok a := by
  subst h; rfl

theorem liftMat_eq_ok {α} {x : Except MatErr α} {a : α} : liftMat x = .ok a ↔ x = .ok a := by
  cases x with
  | ok b => simp [liftMat]
  | error e => cases e; simp [liftMat]

/-! ### `lookupKeep` / `setKeep` -/

theorem lookupKeep_setKeep_same (k : Nat) (v : Str) (l : List (Nat × Str)) :
    lookupKeep k (setKeep k (some v) l) = some v := by
  simp [setKeep, lookupKeep]

theorem lookupKeep_filter_ne (k j : Nat) (h : j ≠ k) (l : List (Nat × Str)) :
    lookupKeep j (l.filter (fun x => !decide (x.fst = k))) = lookupKeep j l := by
  induction l with
  | nil => rfl
  | cons a l ih =>
    obtain ⟨a1, a2⟩ := a
    rw [List.filter_cons]
    by_cases ha : a1 = k
    · subst ha
      have hne : ¬ a1 = j := fun e => h e.symm
      simp only [decide_true, Bool.not_true, Bool.false_eq_true, ↓reduceIte, ih, lookupKeep, hne]
    · by_cases hj : a1 = j
      · subst hj; simp [ha, lookupKeep]
      · simp only [ha, decide_false, Bool.not_false, ↓reduceIte, lookupKeep, hj, ih]

theorem lookupKeep_setKeep_ne (k j : Nat) (h : j ≠ k) (v : Option Str) (l : List (Nat × Str)) :
    lookupKeep j (setKeep k v l) = lookupKeep j l := by
  have hf : ∀ l : List (Nat × Str), l.filter (fun x => decide (x.fst ≠ k)) = l.filter (fun x => !decide (x.fst = k)) := by
    intro l; congr 1; funext x; simp
  cases v with
  | none => simp only [setKeep, hf, lookupKeep_filter_ne k j h]
  | some s =>
    have hne : ¬ k = j := fun e => h e.symm
    simp only [setKeep, hf, lookupKeep, hne, ↓reduceIte, lookupKeep_filter_ne k j h]

/-! ### the positions of a flat rule as the engine sees them -/

theorem posOf_term (tm : TermMap) : posOf (.term tm) = ((mapOf tm).1, (mapOf tm).2, tm.termType, []) := rfl
theorem posOf_quoted (id : Str) (conds : List (Str × Str)) : posOf (.quoted id conds) = (.quoted, id, .star, conds) := rfl

theorem isTermKind_mapOf (tm : TermMap) : isTermKind (mapOf tm).1 = true := by
  unfold mapOf isTermKind; cases tm.kind <;> simp

theorem mapOf_ne_quoted (tm : TermMap) : (mapOf tm).1 ≠ .quoted := by
  unfold mapOf; cases tm.kind <;> simp

/-- term positions of the fragment -/
def PosOK (subj : Bool) : Pos → Bool
  | .term tm => if subj then SubjOK tm else ObjOK tm
  | .quoted _ _ => true

/-- a flat rule of the fragment: its term maps are escape-free (the hypotheses of the C01 refinement) -/
def FlatWF (dg : Str) (fr : FlatRule) : Bool :=
  PosOK true fr.subject && PredOK fr.pred && PosOK false fr.object && GraphOK dg fr.graph

/-- the column references of a position's own term map -/
def posRefs : Pos → List Str
  | .term tm => tmRefs tm
  | .quoted _ _ => []

/-- the suffix (language tag / datatype) the object position carries -/
def posSuffix : Pos → Str
  | .term tm => termSuffix tm
  | .quoted _ _ => []

theorem subjTerm_toRule (env : Env) (fr : FlatRule) (φ : FRow) :
    subjTerm env (toRule fr) φ = (match fr.subject with
      | .term tm => liftMat (materializeTemplate env.cfg (mapOf tm).1 (mapOf tm).2 (some tm.termType) [] [] (fun c => lookup c φ.src))
      | .quoted _ _ => match φ.subject with
        | some s => .ok s
        | none => .error (.keyError "subject".toList)) := by
  cases hsub : fr.subject with
  | term tm => simp [subjTerm, toRule, hsub, posOf_term, isTermKind_mapOf]
  | quoted id conds =>
    simp only [subjTerm, toRule, hsub, posOf_quoted, isTermKind]
    cases φ.subject <;> simp

theorem predTerm_toRule (env : Env) (fr : FlatRule) (φ : FRow) :
    predTerm env (toRule fr) φ =
      liftMat (materializeTemplate env.cfg (mapOf fr.pred).1 (mapOf fr.pred).2 (some .iri) [] [] (fun c => lookup c φ.src)) := by
  simp [predTerm, toRule, isTermKind_mapOf]

theorem objTerm_toRule (env : Env) (fr : FlatRule) (φ : FRow) :
    objTerm env (toRule fr) (toRule fr).objectMapType (toRule fr).objectMapValue [] φ = (match fr.object with
      | .term tm => liftMat (materializeTemplate env.cfg (mapOf tm).1 (mapOf tm).2 (some tm.termType)
          (litDatatype (toRule fr)) [] (fun c => lookup c φ.src))
      | .quoted _ _ => match φ.object with
        | some o => .ok o
        | none => .error (.keyError "object".toList)) := by
  cases hobj : fr.object with
  | term tm => simp [objTerm, toRule, hobj, posOf_term, isTermKind_mapOf]
  | quoted id conds =>
    simp only [objTerm, toRule, hobj, posOf_quoted, isTermKind]
    cases φ.object <;> simp

theorem objSuffixed_toRule (env : Env) (fr : FlatRule) (φ : FRow) (o : Str) (hobj : PosOK false fr.object = true) :
    objSuffixed env (toRule fr) φ o = .ok (o ++ posSuffix fr.object) := by
  cases hobjc : fr.object with
  | quoted id conds => simp [objSuffixed, toRule, hobjc, objLang, posSuffix]
  | term om =>
    have hoo : ObjOK om = true := by simpa [PosOK, hobjc] using hobj
    rcases langDt_cases om hoo with ⟨h, hsx⟩ | ⟨l, h, hl, hsx⟩ | ⟨d, h, hl, hsx⟩
    · simp [objSuffixed, toRule, hobjc, objLang, posSuffix, h, hsx]
    · simp [objSuffixed, toRule, hobjc, objLang, posSuffix, h, hsx, materializeTemplate_constant env.cfg l hl, wrapTerm, liftMat]
    · simp [objSuffixed, toRule, hobjc, objLang, posSuffix, h, hsx, materializeTemplate_constant env.cfg d hl, wrapTerm, liftMat]

theorem withGraph_toRule (env : Env) (fr : FlatRule) (φ : FRow) (t G : Str)
    (hg : (mapOf fr.graph).2 ≠ env.defaultGraph →
      materializeTemplate env.cfg (mapOf fr.graph).1 (mapOf fr.graph).2 (some .iri) [] [] (fun c => lookup c φ.src) = .ok G) :
    withGraph env (toRule fr) φ t = .ok (match env.fmt with
      | .ntriples => t
      | .nquads => t ++ [' '] ++ (if (mapOf fr.graph).2 ≠ env.defaultGraph then G else [])) := by
  unfold withGraph
  cases hf : env.fmt with
  | ntriples => rfl
  | nquads =>
    by_cases hd : (mapOf fr.graph).2 = env.defaultGraph
    · simp [toRule, hd]
    · simp [toRule, hd, liftMat_ok (hg hd)]

/-- one row of `finish` on a flat rule, given the terms of its positions -/
theorem lineOf_toRule (env : Env) (fr : FlatRule) (φ : FRow) (S P O G : Str)
    (hobj : PosOK false fr.object = true)
    (hs : subjTerm env (toRule fr) φ = .ok S)
    (hp : predTerm env (toRule fr) φ = .ok P)
    (ho : objTerm env (toRule fr) (toRule fr).objectMapType (toRule fr).objectMapValue [] φ = .ok O)
    (hg : (mapOf fr.graph).2 ≠ env.defaultGraph →
      materializeTemplate env.cfg (mapOf fr.graph).1 (mapOf fr.graph).2 (some .iri) [] [] (fun c => lookup c φ.src) = .ok G) :
    lineOf env (toRule fr) (toRule fr).objectMapType (toRule fr).objectMapValue [] φ =
      .ok (match env.fmt with
        | .ntriples => S ++ [' '] ++ P ++ [' '] ++ (O ++ posSuffix fr.object)
        | .nquads => S ++ [' '] ++ P ++ [' '] ++ (O ++ posSuffix fr.object) ++ [' '] ++
            (if (mapOf fr.graph).2 ≠ env.defaultGraph then G else [])) := by
  unfold lineOf
  rw [hs, hp, ho]
  simp only [objSuffixed_toRule env fr φ O hobj]
  exact withGraph_toRule env fr φ _ G hg

end Model.Star
