/-
C13, helper lemmas XII: the induction on the quoting depth.
-/
import MorphKgc.Lemmas.StarPass

namespace Model.Star
open Py Model Spec Spec.Star

theorem isStar_toRule (fr : FlatRule) :
    isStar (toRule fr) = true ↔ (SubjQuoted fr ∨ ∃ id conds, fr.object = .quoted id conds) := by
  simp only [isStar, Bool.or_eq_true, decide_eq_true_eq, toRule_subject_quoted_iff, toRule_object_quoted_iff]

theorem clean_finish {F2 F' : Frame} (hsc : F'.srcCols = F2.srcCols) (hix : F'.index = F2.index)
    (hscr : ∀ n ∈ F'.scratch, n ∈ F2.scratch ∨ n ∈ finishNames) (h : Clean F2) : Clean F' := by
  refine ⟨by rw [hix]; exact h.1, ?_⟩
  intro c hc
  simp only [Frame.allCols, List.mem_append] at hc
  rcases hc with hc | hc
  · exact h.2 c (by simp [Frame.allCols, ← hsc, hc])
  · rcases hscr c hc with h' | h'
    · exact h.2 c (by simp [Frame.allCols, h'])
    · simp only [finishNames, List.mem_cons, List.not_mem_nil, or_false] at h'
      rcases h' with rfl | rfl | rfl
      · exact hasPP_scratch.1
      · exact hasPP_scratch.2.1
      · exact hasPP_scratch.2.2

/-- a rule without quoted position on a frame passed down -/
theorem pass_plain {env : Env} {senv : SEnv} (henv : EnvOK env senv) (frs : List FlatRule) (N : Nat) (fr : FlatRule)
    (hok : okAt senv frs N fr = true) (hs : ¬ SubjQuoted fr) (ho : ¬ ∃ id conds, fr.object = .quoted id conds)
    (nest : Nat) (F : Frame) (hcols : ∀ c ∈ frefs frs (N + 1) fr, c ∈ F.srcCols)
    (hrows : RowsRep senv (frefs frs (N + 1) fr) F) :
    ∃ F', evalStar env (frs.map toRule) (N + 1) (toRule fr) (some F) [] nest = .ok F' ∧
      PassPost senv (frefs frs (N + 1) fr) nest (flatAt senv frs nest (N + 1) fr) F F' ∧ (Clean F → Clean F') := by
  have hl := localOK_facts (okAt_local hok)
  have hstar : isStar (toRule fr) = false := by
    rw [Bool.eq_false_iff]; intro h
    rcases (isStar_toRule fr).mp h with h | h
    · exact hs h
    · exact ho h
  rw [evalStar_some_plain env _ N (toRule fr) F [] nest _ (refsStar_toRule frs N fr (okAt_depthLe hok)) hl.notConst hstar
    (toRule_not_parentTM fr)]
  obtain ⟨F', hF', hsound, hcomplete, hsc, hix, hscr⟩ := finish_post henv frs N fr hl.wf nest F F
    (fun φ2 hφ2 => ⟨φ2, hφ2, Ext.refl _ _, fun id conds h => absurd ⟨id, conds, h⟩ hs, fun id conds h => absurd ⟨id, conds, h⟩ ho⟩)
    (fun φ hφ ρ _ S _ O _ => ⟨φ, hφ, Ext.refl _ _, fun id conds h => absurd ⟨id, conds, h⟩ hs, fun id conds h => absurd ⟨id, conds, h⟩ ho⟩)
    hcols hrows
  exact ⟨F', hF', ⟨hsound, hcomplete, fun c hc => by rw [hsc]; exact hc, fun k hk => .inl (by rw [← hix]; exact hk)⟩,
    clean_finish hsc hix hscr⟩

theorem pass_zero {env : Env} {senv : SEnv} (henv : EnvOK env senv) (frs : List FlatRule) : PassClaim env senv frs 0 := by
  intro fr hok nest F hcols hrows _
  obtain ⟨hs, ho⟩ := okAt_zero_pos hok
  obtain ⟨F', hF', hpost, hcl⟩ := pass_plain henv frs 0 fr hok (fun ⟨id, conds, h⟩ => hs id conds h)
    (fun ⟨id, conds, h⟩ => ho id conds h) nest F hcols hrows
  exact ⟨F', hF', hpost, fun _ => hcl⟩

theorem pass_succ {env : Env} {senv : SEnv} (henv : EnvOK env senv) (frs : List FlatRule) (n : Nat)
    (hpass : PassClaim env senv frs n) : PassClaim env senv frs (n + 1) := by
  have hfresh := fresh_of_pass henv frs n hpass
  intro fr hok nest F hcols hrows hclean
  have hl := localOK_facts (okAt_local hok)
  obtain ⟨hsq, hoq⟩ := okAt_succ_pos hok
  by_cases hstar : isStar (toRule fr) = true
  · rw [evalStar_some_star env _ (n + 1) (toRule fr) F [] nest _ (refsStar_toRule frs (n + 1) fr (okAt_depthLe hok)) hl.notConst hstar]
    have hm := merges_succ frs n fr
    have hone := hl.oneMerge
    rw [hm] at hone hclean
    let C := frefs frs (n + 2) fr
    have hqs := qrefs_sub_frefs frs (n + 1) fr
    have hjk := joinKeys_sub_frefs frs (n + 1) fr hl.wf
    -- subject block
    obtain ⟨F1, hF1, s1, s2, s3, s4, s5, s6⟩ := subjectStep_post frs n hpass hfresh fr hsq hl.subj C nest F
      (fun c hc => by rcases List.mem_append.mp hc with h | h; exact hqs.1 c h; exact hjk.1 c h) hcols hrows
      (fun h => hclean (by omega))
    rw [hF1, bind_ok]
    -- object block
    have hK : ∀ φ1 ∈ F1.rows, SubjQuoted fr → φ1.subject = lookupKeep nest φ1.keep := by
      intro φ1 hφ1 ⟨id, conds, hsub⟩
      obtain ⟨φ, _, _, hS⟩ := s1 φ1 hφ1
      obtain ⟨S, h1, h2, _⟩ := hS id conds hsub
      rw [h1, h2]
    obtain ⟨F2, hF2, o1, o2, o3, o4, o5⟩ := objectStep_post frs n hpass hfresh fr hoq hl.obj C nest F1
      (fun c hc => by rcases List.mem_append.mp hc with h | h; exact hqs.2 c h; exact hjk.2 c h)
      (fun c hc => s3 c (hcols c hc)) s5
      (fun h => s6 (by omega) (hclean (by omega))) hK
    rw [hF2, bind_ok]
    -- terms and triple
    obtain ⟨F', hF', hsound, hcomplete, hsc, hix, hscr⟩ := finish_post henv frs (n + 1) fr hl.wf nest F F2
      (by
        intro φ2 hφ2
        obtain ⟨φ1, hφ1, hext2, hsubj, hobj⟩ := o1 φ2 hφ2
        obtain ⟨φ, hφ, hext1, hS⟩ := s1 φ1 hφ1
        refine ⟨φ, hφ, hext1.trans hext2, ?_, ?_⟩
        · intro id conds hsub
          obtain ⟨S, h1, _, h3⟩ := hS id conds hsub
          exact ⟨S, by rw [hsubj ⟨id, conds, hsub⟩, h1], h3⟩
        · intro id conds hob
          obtain ⟨O, h1, h2⟩ := hobj id conds hob
          exact ⟨O, h1, fun ρ hρ => h2 ρ (Rep.ext hρ hext1)⟩)
      (by
        intro φ hφ ρ hρ S hS O hO
        obtain ⟨φ1, hφ1, hext1, hs1⟩ := s2 φ hφ ρ hρ S hS
        obtain ⟨φ2, hφ2, hext2, hsubj, hobj⟩ := o2 φ1 hφ1 ρ (Rep.ext hρ hext1) O hO
        refine ⟨φ2, hφ2, hext1.trans hext2, ?_, hobj⟩
        intro id conds hsub
        rw [hsubj ⟨id, conds, hsub⟩]
        exact (hs1 id conds hsub).1)
      (fun c hc => o3 c (s3 c (hcols c hc))) hrows
    refine ⟨F', hF', ⟨hsound, hcomplete, ?_, ?_⟩, ?_⟩
    · intro c hc; rw [hsc]; exact o3 c (s3 c hc)
    · intro k hk
      rw [hix] at hk
      rcases o4 k hk with h | h
      · exact s4 k h
      · exact .inr h
    · intro h0 hcF
      rw [hm] at h0
      exact clean_finish hsc hix hscr (o5 (by omega) (s6 (by omega) hcF))
  · have hstar' : ¬ (SubjQuoted fr ∨ ∃ id conds, fr.object = .quoted id conds) := fun h => hstar ((isStar_toRule fr).mpr h)
    obtain ⟨F', hF', hpost, hcl⟩ := pass_plain henv frs (n + 1) fr hok (fun h => hstar' (.inl h)) (fun h => hstar' (.inr h))
      nest F hcols hrows
    exact ⟨F', hF', hpost, fun _ => hcl⟩

theorem pass_all {env : Env} {senv : SEnv} (henv : EnvOK env senv) (frs : List FlatRule) : ∀ n, PassClaim env senv frs n
  | 0 => pass_zero henv frs
  | n + 1 => pass_succ henv frs n (pass_all henv frs n)

theorem fresh_all {env : Env} {senv : SEnv} (henv : EnvOK env senv) (frs : List FlatRule) (n : Nat) : FreshClaim env senv frs n :=
  fresh_of_pass henv frs n (pass_all henv frs n)

end Model.Star
