/-
C11 — the algebra of *row-wise* table functions.

`RowWise F` says that a function `F` from tables (lists of rows) to results-with-errors is determined row by row:
  * it succeeds iff a table-independent condition holds and every row passes a per-row test, and
  * an element is in the result iff it is a table-independent element or is contributed by some row of the table.
Everything the property C11 asks for (union over splits, permutation, duplication, "a row alone renders as within the table")
follows from `RowWise F` for every table, without any bound; the engine-specific work is to show that rule evaluation is
`RowWise` (Props/C11.lean), which is done through the closure lemmas and the pipeline lemma below.
-/
import MorphKgc.Lemmas.Null

namespace Model
open Py

/-! ### results with errors, compared as sets -/

def IsOk {ε α} : Except ε α → Prop
  | .ok _ => True
  | .error _ => False

@[simp] theorem isOk_ok {ε α} (x : α) : IsOk (Except.ok x : Except ε α) = True := rfl
@[simp] theorem isOk_error {ε α} (e : ε) : IsOk (Except.error e : Except ε α) = False := rfl

theorem isOk_iff {ε α} (a : Except ε α) : IsOk a ↔ ∃ x, a = .ok x := by
  cases a <;> simp

/-- both fail, or both succeed with the same *set* of elements (order and multiplicity ignored: the sink is a Python `set`) -/
def SetEq {ε β} (a b : Except ε (List β)) : Prop :=
  match a, b with
  | .ok x, .ok y => ∀ z, z ∈ x ↔ z ∈ y
  | .error _, .error _ => True
  | _, _ => False

/-- the union of two results: fails if either fails -/
def unionE {ε β} (a b : Except ε (List β)) : Except ε (List β) := do
  let x ← a
  let y ← b
  pure (x ++ y)

theorem SetEq.refl {ε β} (a : Except ε (List β)) : SetEq a a := by
  cases a <;> simp [SetEq]

theorem SetEq.symm {ε β} {a b : Except ε (List β)} (h : SetEq a b) : SetEq b a := by
  cases a <;> cases b <;> simp_all [SetEq]

theorem SetEq.trans {ε β} {a b c : Except ε (List β)} (h : SetEq a b) (h' : SetEq b c) : SetEq a c := by
  cases a <;> cases b <;> cases c <;> simp_all [SetEq]

theorem SetEq.of_eq {ε β} {a b : Except ε (List β)} (h : a = b) : SetEq a b := h ▸ SetEq.refl a

/-- `SetEq` from "succeed together" and "same elements when both succeed" -/
theorem SetEq.intro {ε β} {a b : Except ε (List β)} (hok : IsOk a ↔ IsOk b)
    (hmem : ∀ x y, a = .ok x → b = .ok y → ∀ z, z ∈ x ↔ z ∈ y) : SetEq a b := by
  cases a <;> cases b <;> simp_all [SetEq]

theorem isOk_unionE {ε β} (a b : Except ε (List β)) : IsOk (unionE a b) ↔ IsOk a ∧ IsOk b := by
  cases a <;> cases b <;> simp [unionE, bind, Except.bind, pure, Except.pure]

theorem mem_unionE {ε β} {a b : Except ε (List β)} {x y zs : List β} (ha : a = .ok x) (hb : b = .ok y)
    (h : unionE a b = .ok zs) (z : β) : z ∈ zs ↔ z ∈ x ∨ z ∈ y := by
  subst ha hb
  simp only [unionE, bind, Except.bind, pure, Except.pure, Except.ok.injEq] at h
  subst h
  simp

/-! ### `mapM` in `Except` -/

theorem isOk_mapM {α β ε} (f : α → Except ε β) (l : List α) : IsOk (l.mapM f) ↔ ∀ x ∈ l, IsOk (f x) := by
  induction l with
  | nil => simp [pure, Except.pure]
  | cons a l ih =>
    rw [List.mapM_cons]
    cases hfa : f a with
    | error e => simp [hfa, bind, Except.bind]
    | ok b =>
      cases hl : l.mapM f with
      | error e =>
        have : ¬ ∀ x ∈ l, IsOk (f x) := by rw [← ih, hl]; simp
        simp [hfa, bind, Except.bind, this]
      | ok bs =>
        have : ∀ x ∈ l, IsOk (f x) := by rw [← ih, hl]; simp
        simpa [hfa, bind, Except.bind, pure, Except.pure] using this

/-! ### row-wise functions -/

/-- `F` is determined row by row (see the header) -/
def RowWise {ρ ε β} (F : List ρ → Except ε (List β)) : Prop :=
  ∃ (okC : Prop) (okP : ρ → Prop) (memC : β → Prop) (memQ : ρ → β → Prop),
    (∀ t, IsOk (F t) ↔ okC ∧ ∀ r ∈ t, okP r) ∧
    (∀ t ys, F t = .ok ys → ∀ y, y ∈ ys ↔ memC y ∨ ∃ r ∈ t, memQ r y)

/-- **the result depends only on the set of rows** -/
theorem RowWise.setExt {ρ ε β} {F : List ρ → Except ε (List β)} (h : RowWise F) {t t' : List ρ}
    (hs : ∀ r, r ∈ t ↔ r ∈ t') : SetEq (F t) (F t') := by
  obtain ⟨okC, okP, memC, memQ, hok, hmem⟩ := h
  apply SetEq.intro
  · rw [hok, hok]
    constructor
    · rintro ⟨c, a⟩; exact ⟨c, fun r hr => a r ((hs r).mpr hr)⟩
    · rintro ⟨c, a⟩; exact ⟨c, fun r hr => a r ((hs r).mp hr)⟩
  · intro x y hx hy z
    rw [hmem t x hx z, hmem t' y hy z]
    constructor
    · rintro (m | ⟨r, hr, q⟩)
      · exact .inl m
      · exact .inr ⟨r, (hs r).mp hr, q⟩
    · rintro (m | ⟨r, hr, q⟩)
      · exact .inl m
      · exact .inr ⟨r, (hs r).mpr hr, q⟩

/-- **union over a split**: the result over `t₁ ++ t₂` is the union of the results over `t₁` and over `t₂` -/
theorem RowWise.union {ρ ε β} {F : List ρ → Except ε (List β)} (h : RowWise F) (t₁ t₂ : List ρ) :
    SetEq (F (t₁ ++ t₂)) (unionE (F t₁) (F t₂)) := by
  obtain ⟨okC, okP, memC, memQ, hok, hmem⟩ := h
  apply SetEq.intro
  · rw [isOk_unionE, hok, hok, hok]
    constructor
    · rintro ⟨c, a⟩
      exact ⟨⟨c, fun r hr => a r (List.mem_append_left _ hr)⟩, ⟨c, fun r hr => a r (List.mem_append_right _ hr)⟩⟩
    · rintro ⟨⟨c, a⟩, ⟨_, b⟩⟩
      refine ⟨c, fun r hr => ?_⟩
      rcases List.mem_append.mp hr with h | h
      · exact a r h
      · exact b r h
  · intro x y hx hy z
    obtain ⟨x₁, h₁⟩ := (isOk_iff _).mp ((isOk_unionE _ _).mp (by rw [hy]; trivial)).1
    obtain ⟨x₂, h₂⟩ := (isOk_iff _).mp ((isOk_unionE _ _).mp (by rw [hy]; trivial)).2
    rw [mem_unionE h₁ h₂ hy z, hmem _ x hx z, hmem _ x₁ h₁ z, hmem _ x₂ h₂ z]
    constructor
    · rintro (m | ⟨r, hr, q⟩)
      · exact .inl (.inl m)
      · rcases List.mem_append.mp hr with h | h
        · exact .inl (.inr ⟨r, h, q⟩)
        · exact .inr (.inr ⟨r, h, q⟩)
    · rintro ((m | ⟨r, hr, q⟩) | (m | ⟨r, hr, q⟩))
      · exact .inl m
      · exact .inr ⟨r, List.mem_append_left _ hr, q⟩
      · exact .inl m
      · exact .inr ⟨r, List.mem_append_right _ hr, q⟩

/-- **row order is irrelevant** -/
theorem RowWise.perm {ρ ε β} {F : List ρ → Except ε (List β)} (h : RowWise F) {t t' : List ρ} (hp : t.Perm t') :
    SetEq (F t) (F t') :=
  h.setExt fun _ => hp.mem_iff

/-- **duplicate rows add nothing**: appending rows that are already in the table changes nothing -/
theorem RowWise.dup {ρ ε β} {F : List ρ → Except ε (List β)} (h : RowWise F) (t d : List ρ) (hd : ∀ r ∈ d, r ∈ t) :
    SetEq (F (t ++ d)) (F t) :=
  h.setExt fun r => by
    rw [List.mem_append]
    exact ⟨fun hr => hr.elim id (hd r), .inl⟩

/-- **a row renders alone as it renders within the table**: when the whole table succeeds, every row succeeds alone, and the result is
    exactly what the empty table gives together with what each row gives alone -/
theorem RowWise.alone {ρ ε β} {F : List ρ → Except ε (List β)} (h : RowWise F) (t : List ρ) (ys : List β)
    (ht : F t = .ok ys) :
    (∀ r ∈ t, IsOk (F [r])) ∧ IsOk (F []) ∧
    ∀ y, y ∈ ys ↔ (∃ y0, F [] = .ok y0 ∧ y ∈ y0) ∨ ∃ r ∈ t, ∃ yr, F [r] = .ok yr ∧ y ∈ yr := by
  obtain ⟨okC, okP, memC, memQ, hok, hmem⟩ := h
  have hOk : okC ∧ ∀ r ∈ t, okP r := (hok t).mp (by rw [ht]; trivial)
  have h1 : ∀ r ∈ t, IsOk (F [r]) := fun r hr => (hok [r]).mpr ⟨hOk.1, by simpa using hOk.2 r hr⟩
  have h0 : IsOk (F []) := (hok []).mpr ⟨hOk.1, by simp⟩
  refine ⟨h1, h0, fun y => ?_⟩
  obtain ⟨y0, hy0⟩ := (isOk_iff _).mp h0
  rw [hmem t ys ht y]
  constructor
  · rintro (m | ⟨r, hr, q⟩)
    · exact .inl ⟨y0, hy0, (hmem [] y0 hy0 y).mpr (.inl m)⟩
    · obtain ⟨yr, hyr⟩ := (isOk_iff _).mp (h1 r hr)
      exact .inr ⟨r, hr, yr, hyr, (hmem [r] yr hyr y).mpr (.inr ⟨r, by simp, q⟩)⟩
  · rintro (⟨y0', hy0', hy⟩ | ⟨r, hr, yr, hyr, hy⟩)
    · rcases (hmem [] y0' hy0' y).mp hy with m | ⟨_, hr, _⟩
      · exact .inl m
      · simp at hr
    · rcases (hmem [r] yr hyr y).mp hy with m | ⟨r', hr', q⟩
      · exact .inl m
      · have : r' = r := by simpa using hr'
        exact .inr ⟨r, hr, this ▸ q⟩

/-! ### closure properties -/

theorem RowWise.const {ρ ε β} (c : Except ε (List β)) : RowWise (fun _ : List ρ => c) := by
  refine ⟨IsOk c, fun _ => True, fun y => ∃ ys, c = .ok ys ∧ y ∈ ys, fun _ _ => False, ?_, ?_⟩
  · intro t; simp
  · intro t ys h y
    dsimp only at h ⊢
    constructor
    · intro hy; exact .inl ⟨ys, h, hy⟩
    · rintro (⟨ys', h', hy⟩ | ⟨_, _, f⟩)
      · have : ys' = ys := by rw [h] at h'; exact (Except.ok.inj h').symm
        exact this ▸ hy
      · exact f.elim

theorem RowWise.of_never_ok {ρ ε β} {F : List ρ → Except ε (List β)} (h : ∀ t, ¬ IsOk (F t)) : RowWise F := by
  refine ⟨False, fun _ => True, fun _ => False, fun _ _ => False, ?_, ?_⟩
  · intro t; simp [h t]
  · intro t ys ht; exact absurd (by rw [ht]; trivial) (h t)

theorem RowWise.congr {ρ ε β} {F G : List ρ → Except ε (List β)} (h : RowWise F) (hFG : ∀ t, G t = F t) : RowWise G := by
  have : G = F := funext hFG
  rw [this]; exact h

theorem RowWise.unionE {ρ ε β} {F G : List ρ → Except ε (List β)} (hF : RowWise F) (hG : RowWise G) :
    RowWise (fun t => Model.unionE (F t) (G t)) := by
  obtain ⟨c1, p1, m1, q1, ok1, mem1⟩ := hF
  obtain ⟨c2, p2, m2, q2, ok2, mem2⟩ := hG
  refine ⟨c1 ∧ c2, fun r => p1 r ∧ p2 r, fun y => m1 y ∨ m2 y, fun r y => q1 r y ∨ q2 r y, ?_, ?_⟩
  · intro t
    rw [isOk_unionE, ok1, ok2]
    constructor
    · rintro ⟨⟨a, b⟩, ⟨c, d⟩⟩; exact ⟨⟨a, c⟩, fun r hr => ⟨b r hr, d r hr⟩⟩
    · rintro ⟨⟨a, c⟩, h⟩; exact ⟨⟨a, fun r hr => (h r hr).1⟩, ⟨c, fun r hr => (h r hr).2⟩⟩
  · intro t ys h y
    dsimp only at h ⊢
    obtain ⟨x₁, h₁⟩ := (isOk_iff _).mp ((isOk_unionE _ _).mp (by rw [h]; trivial)).1
    obtain ⟨x₂, h₂⟩ := (isOk_iff _).mp ((isOk_unionE _ _).mp (by rw [h]; trivial)).2
    rw [mem_unionE h₁ h₂ h y, mem1 t x₁ h₁ y, mem2 t x₂ h₂ y]
    constructor
    · rintro ((a | ⟨r, hr, q⟩) | (a | ⟨r, hr, q⟩))
      · exact .inl (.inl a)
      · exact .inr ⟨r, hr, .inl q⟩
      · exact .inl (.inr a)
      · exact .inr ⟨r, hr, .inr q⟩
    · rintro ((a | a) | ⟨r, hr, (q | q)⟩)
      · exact .inl (.inl a)
      · exact .inr (.inl a)
      · exact .inl (.inr ⟨r, hr, q⟩)
      · exact .inr (.inr ⟨r, hr, q⟩)

/-- post-processing that keeps the set of elements (de-duplication, sorting, …) -/
theorem RowWise.mapSame {ρ ε β} {F : List ρ → Except ε (List β)} (hF : RowWise F) (g : List β → List β)
    (hg : ∀ l y, y ∈ g l ↔ y ∈ l) : RowWise (fun t => (F t).map g) := by
  obtain ⟨c, p, m, q, ok, mem⟩ := hF
  refine ⟨c, p, m, q, ?_, ?_⟩
  · intro t
    rw [← ok t]
    cases hFt : F t <;> simp [Except.map, hFt]
  · intro t ys h y
    dsimp only at h
    cases hFt : F t with
    | error e => simp [hFt, Except.map] at h
    | ok xs =>
      simp only [hFt, Except.map, Except.ok.injEq] at h
      subst h
      rw [hg, mem t xs hFt y]

theorem RowWise.filter {ρ ε β} {F : List ρ → Except ε (List β)} (hF : RowWise F) (p : ρ → Bool) :
    RowWise (fun t => F (t.filter p)) := by
  obtain ⟨c, okP, m, q, ok, mem⟩ := hF
  refine ⟨c, fun r => p r = true → okP r, m, fun r y => p r = true ∧ q r y, ?_, ?_⟩
  · intro t
    rw [ok]
    constructor
    · rintro ⟨a, b⟩; exact ⟨a, fun r hr hp => b r (List.mem_filter.mpr ⟨hr, hp⟩)⟩
    · rintro ⟨a, b⟩; exact ⟨a, fun r hr => b r (List.mem_filter.mp hr).1 (List.mem_filter.mp hr).2⟩
  · intro t ys h y
    rw [mem _ ys h y]
    constructor
    · rintro (a | ⟨r, hr, hq⟩)
      · exact .inl a
      · exact .inr ⟨r, (List.mem_filter.mp hr).1, (List.mem_filter.mp hr).2, hq⟩
    · rintro (a | ⟨r, hr, hp, hq⟩)
      · exact .inl a
      · exact .inr ⟨r, List.mem_filter.mpr ⟨hr, hp⟩, hq⟩

theorem RowWise.comap {ρ ρ' ε β} {F : List ρ → Except ε (List β)} (hF : RowWise F) (g : ρ' → ρ) :
    RowWise (fun t : List ρ' => F (t.map g)) := by
  obtain ⟨c, okP, m, q, ok, mem⟩ := hF
  refine ⟨c, fun r => okP (g r), m, fun r y => q (g r) y, ?_, ?_⟩
  · intro t
    rw [ok]
    simp
  · intro t ys h y
    rw [mem _ ys h y]
    constructor
    · rintro (a | ⟨r, hr, hq⟩)
      · exact .inl a
      · obtain ⟨r', hr', rfl⟩ := List.mem_map.mp hr
        exact .inr ⟨r', hr', hq⟩
    · rintro (a | ⟨r, hr, hq⟩)
      · exact .inl a
      · exact .inr ⟨g r, List.mem_map.mpr ⟨r, hr, rfl⟩, hq⟩

/-- the union over a list of row-wise functions (rules of a mapping group, groups of a document) -/
theorem RowWise.flattenMapM {ρ ε β ι} (Fs : ι → List ρ → Except ε (List β)) (l : List ι) (h : ∀ i ∈ l, RowWise (Fs i)) :
    RowWise (fun t => (l.mapM fun i => Fs i t) >>= fun parts => pure parts.flatten) := by
  induction l with
  | nil => exact (RowWise.const (.ok [])).congr fun t => rfl
  | cons a l ih =>
    have ha := h a (by simp)
    have hl := ih fun i hi => h i (List.mem_cons_of_mem _ hi)
    refine (ha.unionE hl).congr fun t => ?_
    rw [List.mapM_cons]
    cases Fs a t with
    | error e => rfl
    | ok x =>
      cases l.mapM (fun i => Fs i t) with
      | error e => rfl
      | ok xs => rfl

/-! ### the pipeline: per-row projection, row filter, de-duplication, per-row expansion, per-row term construction -/

/-- the shape of `_materialize_rml_rule` on one logical source: `f` projects and stringifies a row (may raise), `good` is the NULL filter,
    the rows are de-duplicated, `expand` attaches the matching rows of the other side of a join (membership-wise a per-row expansion `e`;
    the identity for a rule without join), `g` builds the statement -/
theorem rowWise_pipeline {ρ σ τ ε β} [BEq σ] [LawfulBEq σ] (f : ρ → Except ε σ) (good : σ → Bool) (expand : List σ → List τ)
    (e : σ → List τ) (hE : ∀ l m, m ∈ expand l ↔ ∃ s ∈ l, m ∈ e s) (g : τ → Except ε β) :
    RowWise (fun t : List ρ => t.mapM f >>= fun rows => (expand (dedupFirst (rows.filter good))).mapM g) := by
  refine ⟨True, fun r => ∃ s, f r = .ok s ∧ (good s = true → ∀ m ∈ e s, IsOk (g m)), fun _ => False,
    fun r y => ∃ s, f r = .ok s ∧ good s = true ∧ ∃ m ∈ e s, g m = .ok y, ?_, ?_⟩
  · intro t
    dsimp only
    cases hm : t.mapM f with
    | error err =>
      have : ¬ ∀ x ∈ t, IsOk (f x) := by rw [← isOk_mapM, hm]; simp
      simp only [bind, Except.bind, isOk_error, true_and, false_iff]
      intro hall
      exact this fun x hx => by obtain ⟨s, hs, _⟩ := hall x hx; rw [hs]; trivial
    | ok rows =>
      have hrows := mem_of_mapM_ok f t rows hm
      simp only [bind, Except.bind, true_and]
      rw [isOk_mapM]
      constructor
      · intro hall r hr
        have : IsOk (f r) := ((isOk_mapM f t).mp (by rw [hm]; trivial)) r hr
        obtain ⟨s, hs⟩ := (isOk_iff _).mp this
        refine ⟨s, hs, fun hg m hme => hall m ?_⟩
        rw [hE]
        exact ⟨s, by simp only [mem_dedupFirst, List.mem_filter]; exact ⟨(hrows s).mpr ⟨r, hr, hs⟩, hg⟩, hme⟩
      · intro hall m hm'
        obtain ⟨s, hs, hme⟩ := (hE _ m).mp hm'
        simp only [mem_dedupFirst, List.mem_filter] at hs
        obtain ⟨r, hr, hfr⟩ := (hrows s).mp hs.1
        obtain ⟨s', hs', hh⟩ := hall r hr
        have : s' = s := by rw [hfr] at hs'; exact (Except.ok.inj hs').symm
        subst this
        exact hh hs.2 m hme
  · intro t ys h y
    dsimp only at h
    cases hm : t.mapM f with
    | error err => simp [hm, bind, Except.bind] at h
    | ok rows =>
      have hrows := mem_of_mapM_ok f t rows hm
      simp only [hm, bind, Except.bind] at h
      rw [mem_of_mapM_ok g _ ys h y]
      simp only [false_or]
      constructor
      · rintro ⟨m, hm', hgm⟩
        obtain ⟨s, hs, hme⟩ := (hE _ m).mp hm'
        simp only [mem_dedupFirst, List.mem_filter] at hs
        obtain ⟨r, hr, hfr⟩ := (hrows s).mp hs.1
        exact ⟨r, hr, s, hfr, hs.2, m, hme, hgm⟩
      · rintro ⟨r, hr, s, hfr, hg, m, hme, hgm⟩
        refine ⟨m, (hE _ m).mpr ⟨s, ?_, hme⟩, hgm⟩
        simp only [mem_dedupFirst, List.mem_filter]
        exact ⟨(hrows s).mpr ⟨r, hr, hfr⟩, hg⟩

end Model
