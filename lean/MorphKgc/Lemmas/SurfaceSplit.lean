/-
Lemmas for C09: a multi-valued predicate-object map and its split into one map per (predicate, object) pair give the same rows.
-/
import MorphKgc.Lemmas.SurfaceSpell

namespace Model
open Py Spec

/-- a predicate-object map has at least one predicate slot and one object slot (R2RML 6.3) -/
def PomWF (pom : SPom) : Prop := pom.predicates ≠ [] ∧ pom.objects ≠ []
def TmWF (tm : STm) : Prop := ∀ pom ∈ tm.poms, PomWF pom
def DocWF (d : SDoc) : Prop := ∀ tm ∈ d.tms, TmWF tm

theorem splitPom_classPom (c : Str) : splitPom (classPom c) = [classPom c] := rfl

theorem flatMap_split_classPoms (l : List Str) : (l.map classPom).flatMap splitPom = l.map classPom := by
  induction l with
  | nil => rfl
  | cons a t ih => simp [List.flatMap_cons, splitPom_classPom, ih]

theorem splitPom_ne_nil {pom : SPom} (h : PomWF pom) : splitPom pom ≠ [] := by
  obtain ⟨hp, ho⟩ := h
  cases hp' : pom.predicates with
  | nil => exact absurd hp' hp
  | cons p ps =>
    cases ho' : pom.objects with
    | nil => exact absurd ho' ho
    | cons o os => simp [splitPom, hp', ho']

theorem isEmpty_flatMap_split {poms : List SPom} (h : ∀ pom ∈ poms, PomWF pom) :
    (poms.flatMap splitPom).isEmpty = poms.isEmpty := by
  cases poms with
  | nil => rfl
  | cons a t =>
    have := splitPom_ne_nil (h a (by simp))
    cases hs : splitPom a with
    | nil => exact absurd hs this
    | cons x xs => simp [List.flatMap_cons, hs]

theorem flatMap_congr' {α β} {l : List α} {f g : α → List β} (h : ∀ x ∈ l, f x = g x) : l.flatMap f = l.flatMap g := by
  induction l with
  | nil => rfl
  | cons a t ih =>
    simp only [List.flatMap_cons]
    rw [h a (by simp), ih (fun x hx => h x (by simp [hx]))]

/-! each step commutes with splitting -/

theorem split_comm_class (tm : STm) : stepTm .classToPom (splitPomsTm tm) = splitPomsTm (stepTm .classToPom tm) := by
  simp [stepTm, splitPomsTm, List.flatMap_append, flatMap_split_classPoms]

theorem split_comm_shortcuts (tm : STm) : stepTm .expandShortcuts (splitPomsTm tm) = splitPomsTm (stepTm .expandShortcuts tm) := by
  simp [stepTm, splitPomsTm, splitPom, List.map_flatMap, List.flatMap_map, List.map_map, Function.comp_def]

theorem split_comm_subjGraph (tm : STm) :
    stepTm .subjectGraphsToPom (splitPomsTm tm) = splitPomsTm (stepTm .subjectGraphsToPom tm) := by
  simp [stepTm, splitPomsTm, splitPom, List.map_flatMap, List.flatMap_map, List.map_map, Function.comp_def]

theorem split_comm_defaultGraph (tm : STm) : stepTm .defaultGraph (splitPomsTm tm) = splitPomsTm (stepTm .defaultGraph tm) := by
  simp only [stepTm, splitPomsTm, splitPom, List.map_flatMap, List.flatMap_map, List.map_map, Function.comp_def]
  congr 1
  apply flatMap_congr'
  intro pom _
  by_cases h : pom.graphs.any (·.isFull) = true <;> simp [h]

theorem split_comm_termtypes (tm : STm) : stepTm .termtypes (splitPomsTm tm) = splitPomsTm (stepTm .termtypes tm) := by
  simp [stepTm, splitPomsTm, splitPom, List.map_flatMap, List.flatMap_map, List.map_map, Function.comp_def]

theorem split_comm_tmClass {tm : STm} (h : TmWF tm) : stepTm .tmClass (splitPomsTm tm) = splitPomsTm (stepTm .tmClass tm) := by
  simp [stepTm, splitPomsTm, isEmpty_flatMap_split h]

theorem TmWF_classToPom {tm : STm} (h : TmWF tm) : TmWF (stepTm .classToPom tm) := by
  intro pom hp
  simp only [stepTm, List.mem_append, List.mem_map] at hp
  rcases hp with ⟨c, _, rfl⟩ | hp
  · exact ⟨by simp [classPom], by simp [classPom]⟩
  · exact h pom hp

/-- triples-map typing can be done right after class expansion -/
theorem normTm_alt (tm : STm) :
    normTm tm = stepTm .termtypes (stepTm .defaultGraph (stepTm .subjectGraphsToPom (stepTm .expandShortcuts
      (stepTm .tmClass (stepTm .classToPom tm))))) := by
  unfold normTm
  rw [tmClass_comm_shortcuts, tmClass_comm_subjGraph, tmClass_comm_defaultGraph, tmClass_comm_termtypes]

theorem normTm_split {tm : STm} (h : TmWF tm) : normTm (splitPomsTm tm) = splitPomsTm (normTm tm) := by
  rw [normTm_alt, normTm_alt, split_comm_class, split_comm_tmClass (TmWF_classToPom h), split_comm_shortcuts, split_comm_subjGraph,
    split_comm_defaultGraph, split_comm_termtypes]

end Model

namespace Model
open Py Spec

/-! ### the rows of a split predicate-object map -/

theorem fullMaps_flatMap {β} (l : List SSlot) (G : STermMap → List β) :
    (fullMaps l).flatMap G = l.flatMap fun p => (fullMaps [p]).flatMap G := by
  induction l with
  | nil => rfl
  | cons a t ih =>
    cases a with
    | short v b => simpa [fullMaps, List.filterMap_cons] using ih
    | full tm =>
      simp only [fullMaps, List.filterMap_cons, List.flatMap_cons, List.filterMap_nil, List.flatMap_nil, List.append_nil] at ih ⊢
      rw [ih]

theorem splitPom_rowsAll (d : SDoc) (b : Rule) (pom : SPom) : (splitPom pom).flatMap (pomRowsAll d b) = pomRowsAll d b pom := by
  unfold pomRowsAll splitPom
  rw [fullMaps_flatMap pom.predicates]
  simp only [List.flatMap_assoc, List.flatMap_map, List.flatMap_cons, List.flatMap_nil, List.append_nil]
  apply flatMap_congr'
  intro x _
  cases x with
  | short v l => simp [fullMaps]
  | full tm => simp [fullMaps]

/-! ### finding C09_F3: a referencing object map next to an ordinary object map is not delivered by the parsing query -/

def SObj.isSlot : SObj → Bool
  | .slot _ => true
  | _ => false

/-- scope of `C09_F3`: the predicate-object map has both an object map and a referencing object map -/
def scopeF3 (pom : SPom) : Bool := pom.objects.any (·.isSlot) && pom.objects.any (·.isRef)

/-- the predicate-object map is outside the scope of `C09_F3` — asked for only while the parsing query has the shape with two
    consecutive OPTIONAL blocks -/
def PomNoMix (pom : SPom) : Prop := Gen.objectDelivery = .consecutiveOptionals → scopeF3 pom = false
def TmNoMix (tm : STm) : Prop := ∀ pom ∈ tm.poms, PomNoMix pom
def DocNoMix (d : SDoc) : Prop := ∀ tm ∈ d.tms, TmNoMix tm

theorem flatMap_filter_of_nil {α β} (p : α → Bool) (F : α → List β) :
    ∀ (l : List α), (∀ x ∈ l, p x = false → F x = []) → (l.filter p).flatMap F = l.flatMap F
  | [], _ => rfl
  | a :: t, h => by
    have ih := flatMap_filter_of_nil p F t (fun x hx => h x (by simp [hx]))
    by_cases hp : p a = true
    · simp [List.filter_cons, hp, ih]
    · have hp' : p a = false := by simpa using hp
      simp [List.filter_cons, hp', ih, h a (by simp) hp']

/-- outside the scope of `C09_F3` the parsing query delivers every object map -/
theorem pomRows_eq_all (d : SDoc) (b : Rule) {pom : SPom} (h : PomNoMix pom) : pomRows d b pom = pomRowsAll d b pom := by
  unfold pomRows pomRowsAll effObjects
  cases hk : Gen.objectDelivery with
  | union => rfl
  | consecutiveOptionals =>
    have h := h hk
    simp only [effObjectsWith]
    by_cases hany : pom.objects.any (·.isOrdinary) = true
    · simp only [hany, if_true]
      have hslot : pom.objects.any (·.isSlot) = true := by
        rw [List.any_eq_true] at hany ⊢
        obtain ⟨o, ho, hord⟩ := hany
        refine ⟨o, ho, ?_⟩
        cases o with
        | slot s => rfl
        | ref p j => simp [SObj.isOrdinary] at hord
      have hnoref : pom.objects.any (·.isRef) = false := by
        simpa [scopeF3, hslot] using h
      apply flatMap_congr'
      intro p _
      apply flatMap_filter_of_nil
      intro o ho hord
      cases o with
      | ref pr j =>
        rw [List.any_eq_false] at hnoref
        exact absurd (rfl : (SObj.ref pr j).isRef = true) (hnoref _ ho)
      | slot sl =>
        cases sl with
        | full tm => simp [SObj.isOrdinary] at hord
        | short v l => simp [objRules]
    · simp [hany]

theorem pomRows_single (d : SDoc) (b : Rule) (ps : List SSlot) (o : SObj) (gs : List SSlot) :
    pomRows d b { predicates := ps, objects := [o], graphs := gs } = pomRowsAll d b { predicates := ps, objects := [o], graphs := gs } := by
  unfold pomRows pomRowsAll effObjects
  cases Gen.objectDelivery with
  | union => rfl
  | consecutiveOptionals => by_cases h : o.isOrdinary = true <;> simp [effObjectsWith, h]

theorem splitPom_rows (d : SDoc) (b : Rule) {pom : SPom} (h : PomNoMix pom) : (splitPom pom).flatMap (pomRows d b) = pomRows d b pom := by
  rw [pomRows_eq_all d b h, ← splitPom_rowsAll]
  apply flatMap_congr'
  intro piece hp
  simp only [splitPom, List.mem_flatMap, List.mem_map] at hp
  obtain ⟨p, _, o, _, rfl⟩ := hp
  exact pomRows_single d b [p] o pom.graphs

theorem flatMap_split_rows (d : SDoc) (b : Rule) {poms : List SPom} (h : ∀ pom ∈ poms, PomNoMix pom) :
    (poms.flatMap splitPom).flatMap (pomRows d b) = poms.flatMap (pomRows d b) := by
  rw [List.flatMap_assoc]
  exact flatMap_congr' fun pom hp => splitPom_rows d b (h pom hp)

theorem extractTm_split (d : SDoc) {tm : STm} (h : TmWF tm) (hm : TmNoMix tm) : extractTm d (splitPomsTm tm) = extractTm d tm := by
  unfold extractTm
  cases hs : tm.subject with
  | short v b => simp [splitPomsTm, hs]
  | full sm =>
    simp only [splitPomsTm, hs, isEmpty_flatMap_split h, flatMap_split_rows d _ hm]
    rfl

/-! ### the document only enters through the parents' subject maps -/

def parentKey (tm : STm) : Str × SSlot := (tm.id, tm.subject)

theorem parentTermType_congr {d d' : SDoc} (h : d'.tms.map parentKey = d.tms.map parentKey) (p : Str) :
    parentTermType d' p = parentTermType d p := by
  unfold parentTermType
  generalize d'.tms = l' at h
  generalize d.tms = l at h
  induction l generalizing l' with
  | nil => cases l' <;> simp_all
  | cons a t ih =>
    cases l' with
    | nil => simp at h
    | cons a' t' =>
      simp only [List.map_cons, List.cons.injEq, parentKey, Prod.mk.injEq] at h
      obtain ⟨⟨hid, hsub⟩, ht⟩ := h
      simp only [List.find?_cons, hid]
      by_cases hp : a.id = p
      · simp [hp, hsub]
      · simp only [hp, decide_false]
        exact ih t' ht

theorem objRules_congr {d d' : SDoc} (h : d'.tms.map parentKey = d.tms.map parentKey) (b : Rule) (p g : STermMap) (o : SObj) :
    objRules d' b p g o = objRules d b p g o := by
  cases o with
  | slot s => cases s <;> rfl
  | ref parent conds => simp [objRules, parentTermType_congr h]

theorem extractTm_congr {d d' : SDoc} (h : d'.tms.map parentKey = d.tms.map parentKey) (tm : STm) :
    extractTm d' tm = extractTm d tm := by
  unfold extractTm pomRows
  simp only [objRules_congr h]

/-! ### well-formedness is kept by the steps -/

theorem TmWF_step (s : Step) {tm : STm} (h : TmWF tm) : TmWF (stepTm s tm) := by
  cases s
  case classToPom => exact TmWF_classToPom h
  case expandShortcuts =>
    intro pom hp
    simp only [stepTm, List.mem_map] at hp
    obtain ⟨q, hq, rfl⟩ := hp
    obtain ⟨h1, h2⟩ := h q hq
    exact ⟨by simpa using h1, by simpa using h2⟩
  case subjectGraphsToPom =>
    intro pom hp
    simp only [stepTm, List.mem_map] at hp
    obtain ⟨q, hq, rfl⟩ := hp
    exact h q hq
  case defaultGraph =>
    intro pom hp
    simp only [stepTm, List.mem_map] at hp
    obtain ⟨q, hq, rfl⟩ := hp
    by_cases hg : q.graphs.any (·.isFull) = true <;> simp only [hg, if_true, Bool.false_eq_true, if_false] <;> exact h q hq
  case termtypes =>
    intro pom hp
    simp only [stepTm, List.mem_map] at hp
    obtain ⟨q, hq, rfl⟩ := hp
    obtain ⟨h1, h2⟩ := h q hq
    exact ⟨h1, by simpa using h2⟩
  all_goals exact h

theorem TmWF_normTm {tm : STm} (h : TmWF tm) : TmWF (normTm tm) := by
  unfold normTm
  exact TmWF_step _ (TmWF_step _ (TmWF_step _ (TmWF_step _ (TmWF_step _ (TmWF_step _ h)))))

theorem any_map_of_inv {α} (p : α → Bool) (f : α → α) (hf : ∀ x, p (f x) = p x) (l : List α) : (l.map f).any p = l.any p := by
  induction l with
  | nil => rfl
  | cons a t ih => simp [hf, ih]

theorem expandObj_isSlot (a b : Bool) (o : SObj) : (expandObj a b o).isSlot = o.isSlot := by cases o <;> rfl
theorem expandObj_isRef (a b : Bool) (o : SObj) : (expandObj a b o).isRef = o.isRef := by cases o <;> rfl
theorem completeObj_isSlot (o : SObj) : (completeObj o).isSlot = o.isSlot := by cases o <;> rfl
theorem completeObj_isRef (o : SObj) : (completeObj o).isRef = o.isRef := by cases o <;> rfl

theorem TmNoMix_step (s : Step) {tm : STm} (h : TmNoMix tm) : TmNoMix (stepTm s tm) := by
  cases s
  case classToPom =>
    intro pom hp
    simp only [stepTm, List.mem_append, List.mem_map] at hp
    rcases hp with ⟨c, _, rfl⟩ | hp
    · intro _; simp [scopeF3, classPom, SObj.isRef]
    · exact h pom hp
  case expandShortcuts =>
    intro pom hp
    simp only [stepTm, List.mem_map] at hp
    obtain ⟨q, hq, rfl⟩ := hp
    have := h q hq
    simp only [PomNoMix, scopeF3, any_map_of_inv _ _ (expandObj_isSlot _ _), any_map_of_inv _ _ (expandObj_isRef _ _)]
    exact this
  case subjectGraphsToPom =>
    intro pom hp
    simp only [stepTm, List.mem_map] at hp
    obtain ⟨q, hq, rfl⟩ := hp
    exact h q hq
  case defaultGraph =>
    intro pom hp
    simp only [stepTm, List.mem_map] at hp
    obtain ⟨q, hq, rfl⟩ := hp
    by_cases hg : q.graphs.any (·.isFull) = true <;> simp only [hg, if_true, Bool.false_eq_true, if_false] <;> exact h q hq
  case termtypes =>
    intro pom hp
    simp only [stepTm, List.mem_map] at hp
    obtain ⟨q, hq, rfl⟩ := hp
    have := h q hq
    simp only [PomNoMix, scopeF3, any_map_of_inv _ _ completeObj_isSlot, any_map_of_inv _ _ completeObj_isRef]
    exact this
  all_goals exact h

theorem TmNoMix_normTm {tm : STm} (h : TmNoMix tm) : TmNoMix (normTm tm) := by
  unfold normTm
  exact TmNoMix_step _ (TmNoMix_step _ (TmNoMix_step _ (TmNoMix_step _ (TmNoMix_step _ (TmNoMix_step _ h)))))

theorem parentKey_splitPomsTm (tm : STm) : parentKey (splitPomsTm tm) = parentKey tm := rfl

/-- the rows of the normal form of a document and of its split form are the same list (outside the scope of `C09_F3`) -/
theorem rows_splitPoms {d : SDoc} (h : DocWF d) (hm : DocNoMix d) :
    (normDoc (splitPoms d)).tms.flatMap (extractTm (normDoc (splitPoms d))) = (normDoc d).tms.flatMap (extractTm (normDoc d)) := by
  have htms : (normDoc (splitPoms d)).tms = (normDoc d).tms.map splitPomsTm := by
    simp only [normDoc, splitPoms, List.map_map]
    apply List.map_congr_left
    intro tm htm
    exact normTm_split (h tm htm)
  have hkey : (normDoc (splitPoms d)).tms.map parentKey = (normDoc d).tms.map parentKey := by
    rw [htms, List.map_map]
    apply List.map_congr_left
    intro tm _
    exact parentKey_splitPomsTm tm
  rw [htms, List.flatMap_map]
  apply flatMap_congr'
  intro tm htm
  rw [extractTm_congr hkey]
  simp only [normDoc, List.mem_map] at htm
  obtain ⟨tm0, h0, rfl⟩ := htm
  exact extractTm_split _ (TmWF_normTm (h tm0 h0)) (TmNoMix_normTm (hm tm0 h0))

end Model
