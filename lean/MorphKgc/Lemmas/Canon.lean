/-
Helper lemmas for C15: Python `replace` with a one-character pattern, `replace` when the pattern cannot
occur, the anchored `.0` regex against the XSD integer lexical space, the dateTime alphabet.
-/
import MorphKgc.Model.Canon
import MorphKgc.Spec.Lexical

namespace Lemmas.Canon
open Py Model Spec

/-! ### `str.replace` -/

theorem breakOn_single_ne {c d : Char} (h : d ≠ c) (s : Str) :
    breakOn [c] (d :: s) = (match breakOn [c] s with | some (a, b) => some (d :: a, b) | none => none) := by
  have : ([c].isPrefixOf (d :: s)) = false := by
    simp [List.isPrefixOf, Ne.symm h]
  simp only [breakOn, this, Bool.false_eq_true, if_false]
  rfl

theorem breakOn_single_eq (c : Char) (s : Str) : breakOn [c] (c :: s) = some ([], s) := by
  simp [breakOn, List.isPrefixOf]

theorem replaceFuel_single_ne {c d : Char} (h : d ≠ c) (new : Str) (n : Nat) (s : Str) :
    replaceFuel [c] new (n + 1) (d :: s) = d :: replaceFuel [c] new (n + 1) s := by
  simp only [replaceFuel, breakOn_single_ne h]
  cases breakOn [c] s with
  | none => rfl
  | some ab => rfl

theorem replaceFuel_single_eq (c : Char) (new : Str) (n : Nat) (s : Str) :
    replaceFuel [c] new (n + 1) (c :: s) = new ++ replaceFuel [c] new n s := by
  simp [replaceFuel, breakOn_single_eq]

theorem replaceFuel_single (c : Char) (new : Str) :
    ∀ (s : Str) (n : Nat), s.length ≤ n → replaceFuel [c] new n s = s.flatMap (fun d => if d = c then new else [d]) := by
  intro s
  induction s with
  | nil => intro n _; cases n <;> simp [replaceFuel, breakOn]
  | cons d s ih =>
    intro n hn
    cases n with
    | zero => simp at hn
    | succ m =>
      by_cases h : d = c
      · subst h
        rw [replaceFuel_single_eq, ih m (by simpa using hn)]
        simp
      · rw [replaceFuel_single_ne h, ih (m + 1) (by simp at hn; omega)]
        simp [h]

/-- `s.replace(c, d)` for one-character `c`, `d` replaces every occurrence: it is a `map` -/
theorem replace_char_char (c d : Char) (s : Str) :
    replace s [c] [d] = s.map (fun x => if x = c then d else x) := by
  unfold replace
  rw [replaceFuel_single c [d] s s.length (Nat.le_refl _)]
  induction s with
  | nil => rfl
  | cons x s ih =>
    simp only [List.flatMap_cons, List.map_cons, ih]
    by_cases h : x = c <;> simp [h]

theorem map_subst_of_not_mem (c d : Char) (s : Str) (h : c ∉ s) :
    s.map (fun x => if x = c then d else x) = s := by
  induction s with
  | nil => rfl
  | cons x s ih =>
    simp only [List.mem_cons, not_or] at h
    simp [ih h.2, Ne.symm h.1]

theorem breakOn_none_of_not_mem {old : Str} {c : Char} (hc : c ∈ old) :
    ∀ (s : Str), c ∉ s → breakOn old s = none := by
  intro s
  induction s with
  | nil => intro _; rfl
  | cons x s ih =>
    intro hs
    have hpre : old.isPrefixOf (x :: s) = false := by
      cases hp : old.isPrefixOf (x :: s) with
      | false => rfl
      | true =>
        exact absurd ((List.isPrefixOf_iff_prefix.mp hp).subset hc) hs
    simp only [List.mem_cons, not_or] at hs
    simp [breakOn, hpre, ih hs.2]

/-- a pattern containing a character that does not occur in `s` leaves `s` unchanged -/
theorem replace_of_not_mem {old new : Str} {c : Char} (hc : c ∈ old) (s : Str) (hs : c ∉ s) :
    replace s old new = s := by
  unfold replace
  cases h : s.length with
  | zero => rfl
  | succ n => simp [replaceFuel, breakOn_none_of_not_mem hc s hs]

/-- every pattern of the chain contains a character that needs escaping -/
def ChainOK (chain : List (Str × Str)) : Bool := chain.all fun p => p.1.any needsEscape

/-- `escape` does nothing to strings free of `\`, `"`, `'` and control characters -/
def EscapeIdOnPlain (escape : Str → Str) : Prop :=
  ∀ s : Str, (∀ c ∈ s, needsEscape c = false) → escape s = s

theorem applyChain_idOnPlain (chain : List (Str × Str)) (h : ChainOK chain = true) :
    EscapeIdOnPlain (applyChain chain) := by
  intro s hs
  unfold applyChain
  induction chain with
  | nil => rfl
  | cons p chain ih =>
    simp only [ChainOK, List.all_cons, Bool.and_eq_true] at h
    obtain ⟨c, hc, hne⟩ := List.any_eq_true.mp h.1
    have : c ∉ s := fun hm => by simp [hs c hm] at hne
    simp only [List.foldl_cons, replace_of_not_mem hc s this]
    exact ih (by simpa [ChainOK] using h.2)

/-! ### digits -/

theorem isDec_iff_isDigit (c : Char) : isDec c = c.isDigit := by
  simp only [isDec, Char.isDigit, Char.toNat, UInt32.le_iff_toNat_le, ge_iff_le]
  rfl

theorem isDigits_iff : ∀ (s : Str), isDigits s = true ↔ s ≠ [] ∧ ∀ c ∈ s, isDec c = true := by
  intro s
  induction s with
  | nil => simp [isDigits]
  | cons c s ih =>
    cases s with
    | nil => simp [isDigits]
    | cons d s =>
      simp only [isDigits, Bool.and_eq_true, ih]
      simp

theorem isDec_not_needsEscape {c : Char} (h : isDec c = true) : needsEscape c = false := by
  simp only [isDec, Bool.and_eq_true, decide_eq_true_eq] at h
  simp only [needsEscape, Bool.or_eq_false_iff, decide_eq_false_iff_not]
  omega

/-- characters of an integer lexical: digits and a sign -/
theorem integerLexical_chars {v : Str} (h : IsIntegerLexical v) :
    ∀ c ∈ v, isDec c = true ∨ c = '+' ∨ c = '-' := by
  unfold IsIntegerLexical isIntegerLexical at h
  split at h
  · intro c hc
    rcases List.mem_cons.mp hc with rfl | hc
    · simp
    · exact Or.inl (((isDigits_iff _).mp h).2 c hc)
  · intro c hc
    rcases List.mem_cons.mp hc with rfl | hc
    · simp
    · exact Or.inl (((isDigits_iff _).mp h).2 c hc)
  · intro c hc
    exact Or.inl (((isDigits_iff _).mp h).2 c hc)

theorem integerLexical_plain {v : Str} (h : IsIntegerLexical v) : ∀ c ∈ v, needsEscape c = false := by
  intro c hc
  rcases integerLexical_chars h c hc with h | rfl | rfl
  · exact isDec_not_needsEscape h
  · decide
  · decide

theorem takeWhile_all {p : Char → Bool} : ∀ (l : Str), ∀ c ∈ l.takeWhile p, p c = true := by
  intro l
  induction l with
  | nil => intro c hc; simp at hc
  | cons x l ih =>
    intro c hc
    by_cases hx : p x = true
    · simp only [List.takeWhile_cons, hx, if_true, List.mem_cons] at hc
      rcases hc with rfl | hc
      · exact hx
      · exact ih c hc
    · simp [hx] at hc

theorem takeWhile_append_stop {p : Char → Bool} {d : Str} (hd : ∀ c ∈ d, p c = true) {x : Char} (hx : p x = false) (r : Str) :
    (d ++ x :: r).takeWhile p = d ∧ (d ++ x :: r).dropWhile p = x :: r := by
  induction d with
  | nil => simp [hx]
  | cons c d ih =>
    have hc : p c = true := hd c (by simp)
    have := ih (fun c hc => hd c (by simp [hc]))
    simp [hc, this.1, this.2]

theorem dropSign_digits {d : Str} (h : isDigits d = true) (r : Str) : dropSign (d ++ r) = d ++ r := by
  obtain ⟨hne, hall⟩ := (isDigits_iff d).mp h
  cases d with
  | nil => exact absurd rfl hne
  | cons c d =>
    have hc : isDec c = true := hall c (by simp)
    have h1 : c ≠ '+' := by intro h; subst h; revert hc; decide
    have h2 : c ≠ '-' := by intro h; subst h; revert hc; decide
    simp only [List.cons_append]
    unfold dropSign
    split
    · rename_i heq; simp at heq; exact absurd heq.1 h1
    · rename_i heq; simp at heq; exact absurd heq.1 h2
    · rfl

theorem matches_digits_dotZero {d : Str} (h : isDigits d = true) :
    (!(((d ++ ['.', '0']).takeWhile Char.isDigit).isEmpty) && (d ++ ['.', '0']).dropWhile Char.isDigit == ['.', '0']) = true := by
  obtain ⟨hne, hall⟩ := (isDigits_iff d).mp h
  have hd : ∀ c ∈ d, Char.isDigit c = true := fun c hc => by rw [← isDec_iff_isDigit]; exact hall c hc
  have := takeWhile_append_stop hd (x := '.') (by decide) ['0']
  rw [this.1, this.2]
  cases d with
  | nil => exact absurd rfl hne
  | cons _ _ => simp

/-- the regex matches every integer lexical followed by `.0` -/
theorem matchesDotZero_of_lexical {w : Str} (h : IsIntegerLexical w) : matchesDotZero (w ++ ['.', '0']) = true := by
  unfold IsIntegerLexical isIntegerLexical at h
  split at h
  · simp only [matchesDotZero, List.cons_append, dropSign]; exact matches_digits_dotZero h
  · simp only [matchesDotZero, List.cons_append, dropSign]; exact matches_digits_dotZero h
  · simp only [matchesDotZero, dropSign_digits h]; exact matches_digits_dotZero h

theorem isIntegerLexical_of_digits {d : Str} (h : isDigits d = true) : IsIntegerLexical d := by
  obtain ⟨hne, hall⟩ := (isDigits_iff d).mp h
  cases d with
  | nil => exact absurd rfl hne
  | cons c d =>
    have hc : isDec c = true := hall c (by simp)
    have h1 : c ≠ '+' := by intro h; subst h; revert hc; decide
    have h2 : c ≠ '-' := by intro h; subst h; revert hc; decide
    unfold IsIntegerLexical isIntegerLexical
    split
    · rename_i heq; simp at heq; exact absurd heq.1 h1
    · rename_i heq; simp at heq; exact absurd heq.1 h2
    · exact h

/-- … and nothing else -/
theorem dotZero_of_matches {v : Str} (h : matchesDotZero v = true) : IsIntegerDotZero v := by
  simp only [matchesDotZero, Bool.and_eq_true, Bool.not_eq_true', beq_iff_eq] at h
  obtain ⟨hne, hrest⟩ := h
  have hsplit : dropSign v = (dropSign v).takeWhile Char.isDigit ++ ['.', '0'] := by
    conv => lhs; rw [← List.takeWhile_append_dropWhile (p := Char.isDigit) (l := dropSign v)]
    rw [hrest]
  have hdig : isDigits ((dropSign v).takeWhile Char.isDigit) = true := by
    rw [isDigits_iff]
    refine ⟨by intro h; simp [h] at hne, fun c hc => ?_⟩
    rw [isDec_iff_isDigit]
    exact takeWhile_all _ c hc
  generalize (dropSign v).takeWhile Char.isDigit = d at hsplit hdig
  unfold dropSign at hsplit
  split at hsplit
  · exact ⟨'+' :: d, by simpa [IsIntegerLexical, isIntegerLexical] using hdig, by simp [hsplit]⟩
  · exact ⟨'-' :: d, by simpa [IsIntegerLexical, isIntegerLexical] using hdig, by simp [hsplit]⟩
  · exact ⟨d, isIntegerLexical_of_digits hdig, hsplit⟩

theorem matchesDotZero_iff (v : Str) : matchesDotZero v = true ↔ IsIntegerDotZero v :=
  ⟨dotZero_of_matches, fun ⟨_, hw, hv⟩ => hv ▸ matchesDotZero_of_lexical hw⟩

theorem stripDotZero_dotZero {w : Str} (h : IsIntegerLexical w) : stripDotZero (w ++ ['.', '0']) = w := by
  simp [stripDotZero, matchesDotZero_of_lexical h]

theorem stripDotZero_other {v : Str} (h : ¬ IsIntegerDotZero v) : stripDotZero v = v := by
  have : matchesDotZero v = false := by
    cases hm : matchesDotZero v with
    | false => rfl
    | true => exact absurd (dotZero_of_matches hm) h
  simp [stripDotZero, this]

/-- an integer lexical never ends in `.0` (it has no `.`) -/
theorem lexical_not_dotZero {v : Str} (h : IsIntegerLexical v) : ¬ IsIntegerDotZero v := by
  rintro ⟨w, _, rfl⟩
  rcases integerLexical_chars h '.' (by simp) with h | h | h
  · revert h; decide
  · revert h; decide
  · revert h; decide

/-- the decidable form of `IsIntegerDotZero` -/
theorem isIntegerDotZero_iff (v : Str) : isIntegerDotZero v = true ↔ IsIntegerDotZero v := by
  constructor
  · intro h
    simp only [isIntegerDotZero, endsWith, Bool.and_eq_true] at h
    obtain ⟨t, ht⟩ := List.isSuffixOf_iff_suffix.mp h.1
    refine ⟨t, ?_, ht.symm⟩
    have : v.take (v.length - 2) = t := by rw [← ht]; simp
    rw [← this]; exact h.2
  · rintro ⟨w, hw, rfl⟩
    simp only [isIntegerDotZero, endsWith, Bool.and_eq_true]
    refine ⟨List.isSuffixOf_iff_suffix.mpr ⟨w, rfl⟩, ?_⟩
    have : (w ++ ['.', '0']).take ((w ++ ['.', '0']).length - 2) = w := by simp
    rw [this]; exact hw

instance (v : Str) : Decidable (IsIntegerDotZero v) := decidable_of_iff _ (isIntegerDotZero_iff v)

theorem intValue_isSome_iff (v : Str) : (intValue v).isSome = true ↔ IsIntegerLexical v := by
  unfold intValue IsIntegerLexical isIntegerLexical
  split <;> (split <;> simp_all)

/-! ### boolean -/

theorem booleanLexical_cases {v : Str} (h : IsBooleanLexical v) :
    v = "true".toList ∨ v = "false".toList ∨ v = "1".toList ∨ v = "0".toList := by
  unfold IsBooleanLexical boolValue booleanLexicals at h
  by_cases h1 : v = ['t', 'r', 'u', 'e']
  · exact Or.inl h1
  by_cases h2 : v = ['f', 'a', 'l', 's', 'e']
  · exact Or.inr (Or.inl h2)
  by_cases h3 : v = ['1']
  · exact Or.inr (Or.inr (Or.inl h3))
  by_cases h4 : v = ['0']
  · exact Or.inr (Or.inr (Or.inr h4))
  have e1 : (['t', 'r', 'u', 'e'] == v) = false := by simpa using Ne.symm h1
  have e2 : (['f', 'a', 'l', 's', 'e'] == v) = false := by simpa using Ne.symm h2
  have e3 : (['1'] == v) = false := by simpa using Ne.symm h3
  have e4 : (['0'] == v) = false := by simpa using Ne.symm h4
  simp [List.find?, e1, e2, e3, e4] at h

/-! ### dateTime -/

theorem dtLex_chars : ∀ {v : Str} {ts : List DtTok}, dtLex v = some ts → ∀ c ∈ v, (dtTok c).isSome = true := by
  intro v
  induction v with
  | nil => intro _ _ c hc; simp at hc
  | cons x v ih =>
    intro ts h c hc
    simp only [dtLex] at h
    cases hx : dtTok x with
    | none => simp [hx] at h
    | some t =>
      cases hv : dtLex v with
      | none => simp [hx, hv] at h
      | some ts' =>
        rcases List.mem_cons.mp hc with rfl | hc
        · simp [hx]
        · exact ih hv c hc

theorem dateTimeLexical_chars {v : Str} (h : IsDateTimeLexical v) : ∀ c ∈ v, (dtTok c).isSome = true := by
  unfold IsDateTimeLexical isDateTimeLexical at h
  cases hl : dtLex v with
  | none => simp [hl] at h
  | some ts => exact dtLex_chars hl

theorem dateTimeLexical_no_space {v : Str} (h : IsDateTimeLexical v) : ' ' ∉ v := by
  intro hm
  have := dateTimeLexical_chars h ' ' hm
  revert this; decide

theorem dtTok_plain {c : Char} (h : (dtTok c).isSome = true) : needsEscape c = false := by
  unfold dtTok at h
  by_cases hd : isDec c = true
  · exact isDec_not_needsEscape hd
  · simp only [hd, Bool.false_eq_true, if_false] at h
    by_cases h1 : c = '-'
    · subst h1; decide
    by_cases h2 : c = '+'
    · subst h2; decide
    by_cases h3 : c = ':'
    · subst h3; decide
    by_cases h4 : c = '.'
    · subst h4; decide
    by_cases h5 : c = 'T'
    · subst h5; decide
    by_cases h6 : c = 'Z'
    · subst h6; decide
    simp [h1, h2, h3, h4, h5, h6] at h

theorem dateTimeLexical_plain {v : Str} (h : IsDateTimeLexical v) : ∀ c ∈ v, needsEscape c = false :=
  fun c hc => dtTok_plain (dateTimeLexical_chars h c hc)

end Lemmas.Canon
