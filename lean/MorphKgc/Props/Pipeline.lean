/-
Pipeline — the command-line run end to end, composed from the property theorems.

mapping document ─normalise→ rule table ─partition→ mapping groups ─materialise→ statements per group
   ─one `triples_to_file` per group, any number of processes, any interleaving→ output file ─read back→ statements

The statement below is what a user of `python -m morph_kgc` relies on as a whole; every arrow is one of the property
theorems (C01 refinement, C02 partitioning, C03 disjointness, C04 writer and schedules, C05 grammar), so it holds for
every document of the fragment, every table, every partitioning mode, every buffer size and every schedule.
-/
import MorphKgc.Props.C01
import MorphKgc.Props.C03
import MorphKgc.Props.C04
import MorphKgc.Props.C05

namespace Props.Pipeline
open Py Model Spec Model.Writer Props.C01 Props.C02 Props.C03 Props.C04 Props.C05

/-- the per-group statement lists the worker tasks write (`_materialize_mapping_group_to_file` per group label) -/
def groupResults (env : Env) (rules : List Rule) : Except MatErr (List (List Str)) :=
  (dedupFirst ((rules.filter (·.asserted)).map (·.partition))).mapM (evalGroup env rules)

theorem noNL_of_noEol {l : Str} (h : NQ.noEol l = true) : NL ∉ l := by
  intro hm
  have := List.all_eq_true.mp h NL hm
  simp [NQ.isEol, NL] at this

/-- **The command-line run, N-QUADS.**  For every document of the core fragment inside the grammar scope, all tables that
    satisfy the reader guarantees, every partitioning mode, every previous content of the output file, every chunk and
    buffer size and EVERY interleaving of the workers' raw writes:

    * the engine raises nowhere (normalisation, partitioning given, materialisation of every group);
    * the lines of the output file are, up to order, exactly the rendered statements of all groups;
    * no statement is written twice (the groups are disjoint and each is de-duplicated);
    * a statement is in the file iff the R2RML/RML generation rules prescribe it;
    * every statement written is a well-formed N-Quads statement that the verified lexer reads back.

    `hsafe` is the token-safety hypothesis of C03 (complement of findings C03_F2 / C01_F1 on the rule table). -/
theorem cli_nquads {env : Env} {senv : SEnv} (henv : EnvOK env senv) (hn : NamesOK senv) (hf : env.fmt = .nquads)
    (doc : Doc) (hfrag : FragmentOK senv doc = true) (htab : TablesOK senv doc = true) (hF4 : NoF4 senv doc = true)
    (hok : GrammarOK senv doc = true)
    (mode : PartMode) (ls : List Str) (hp : partitionLabels mode (normalizeDoc doc) = .ok ls)
    (hsafe : ∀ r ∈ normalizeDoc doc, TokenSafe env (normalizeDoc doc) r)
    (old : Str) (chunk buf : Nat) :
    ∃ groups, groupResults env (withLabels (normalizeDoc doc) ls) = .ok groups ∧
      groups.flatten.Nodup ∧
      (∀ x, x ∈ groups.flatten ↔ x ∈ evalDoc senv doc) ∧
      (∀ x ∈ groups.flatten, ∃ st : NQ.Stmt, NQ.wfStmt st = true ∧ NQ.parseLine (x ++ ['.']) = some st ∧
        x = NQ.renderStmtBody (shapeOf senv.fmt) st) ∧
      ∀ sched, Interleaving (groups.map (workerWrites Gen.writerShape chunk buf)) sched →
        (lines NL (cliFile Gen.mainShape old sched)).Perm (groups.flatten.map (renderLine Gen.writerShape)) := by
  -- C01: the engine does not raise and its result is the rules' result
  obtain ⟨out, hout, hiff⟩ := C01_refinement_partial henv hn doc hfrag htab hF4
  have hall : AllOk env (normalizeDoc doc) := by
    intro r hr
    unfold evalAll at hout
    cases hm : ((normalizeDoc doc).filter (·.asserted)).mapM (evalRule env (normalizeDoc doc)) with
    | error e => simp [hm, bind, Except.bind] at hout
    | ok parts =>
      exact Py.mapM_ok_forall _ _ _ hm r hr
  -- C03: the groups evaluate, are disjoint and duplicate-free; their concatenation is the grouped result
  obtain ⟨groups, hgroups, hnd, hgrouped⟩ := C03_file_nodup env hf mode (normalizeDoc doc) ls hp hsafe hall
  -- C02: the grouped result is the plain union over the rules
  have hsame := C02_eq_union env (normalizeDoc doc) mode ls hp
  rw [hgrouped, hout] at hsame
  have hmem : ∀ x, x ∈ groups.flatten ↔ x ∈ evalDoc senv doc := fun x => (hsame x).trans (hiff x)
  -- C05: every statement is in the grammar
  have hgram : ∀ x ∈ groups.flatten, ∃ st : NQ.Stmt, NQ.wfStmt st = true ∧ NQ.parseLine (x ++ ['.']) = some st ∧
      x = NQ.renderStmtBody (shapeOf senv.fmt) st :=
    fun x hx => C05_rules_lines_valid senv doc hok x ((hmem x).mp hx) (Or.inl rfl)
  refine ⟨groups, hgroups, hnd, hmem, hgram, fun sched hs => ?_⟩
  -- C04: any schedule of the raw writes gives the same lines
  refine C04_cli_any_schedule old groups (fun g hg t ht => ?_) chunk buf sched hs
  obtain ⟨st, hwf, _, rfl⟩ := hgram t (List.mem_flatten.mpr ⟨g, hg, ht⟩)
  exact noNL_of_noEol (NQ.noEol_renderStmtBody _ st hwf)


/-- **The command-line run, either format, any rule table shape.**  Without the token-safety hypothesis and for N-TRIPLES
    as well as N-QUADS: the engine raises nowhere, and for every schedule the *set* of lines of the output file is exactly
    the set of rendered statements that the generation rules prescribe (a statement may be written by more than one group:
    finding C03_F1), each of them a well-formed statement of the grammar. -/
theorem cli_set {env : Env} {senv : SEnv} (henv : EnvOK env senv) (hn : NamesOK senv)
    (doc : Doc) (hfrag : FragmentOK senv doc = true) (htab : TablesOK senv doc = true) (hF4 : NoF4 senv doc = true)
    (hok : GrammarOK senv doc = true)
    (mode : PartMode) (ls : List Str) (hp : partitionLabels mode (normalizeDoc doc) = .ok ls)
    (old : Str) (chunk buf : Nat) :
    ∃ groups, groupResults env (withLabels (normalizeDoc doc) ls) = .ok groups ∧
      (∀ x, x ∈ groups.flatten ↔ x ∈ evalDoc senv doc) ∧
      (∀ x ∈ groups.flatten, ∃ st : NQ.Stmt, NQ.wfStmt st = true ∧ NQ.parseLine (x ++ ['.']) = some st ∧
        x = NQ.renderStmtBody (shapeOf senv.fmt) st) ∧
      ∀ sched, Interleaving (groups.map (workerWrites Gen.writerShape chunk buf)) sched →
        ∀ l, l ∈ lines NL (cliFile Gen.mainShape old sched) ↔ ∃ x ∈ evalDoc senv doc, l = renderLine Gen.writerShape x := by
  obtain ⟨out, hout, hiff⟩ := C01_refinement_partial henv hn doc hfrag htab hF4
  have hall : AllOk env (normalizeDoc doc) := by
    intro r hr
    unfold evalAll at hout
    cases hm : ((normalizeDoc doc).filter (·.asserted)).mapM (evalRule env (normalizeDoc doc)) with
    | error e => simp [hm, bind, Except.bind] at hout
    | ok parts => exact Py.mapM_ok_forall _ _ _ hm r hr
  have hl := partitionLabels_length mode (normalizeDoc doc) ls hp
  have hall' := (allOk_withLabels env (normalizeDoc doc) ls hl).mpr hall
  have hg : ∀ l ∈ dedupFirst (((withLabels (normalizeDoc doc) ls).filter (·.asserted)).map (·.partition)),
      ∃ g, evalGroup env (withLabels (normalizeDoc doc) ls) l = .ok g :=
    fun l _ => let ⟨g, hg, _⟩ := evalGroup_ok env _ hall' l; ⟨g, hg⟩
  have hmap := Py.mapM_ok_of_forall _ _ hg
  have hsame := C02_eq_union env (normalizeDoc doc) mode ls hp
  rw [evalGrouped_eq, hmap, hout] at hsame
  simp only [bind, Except.bind, pure, Except.pure, SameOutcome] at hsame
  have hmem : ∀ x, x ∈ (List.map (fun l => Py.okVal (evalGroup env (withLabels (normalizeDoc doc) ls) l))
      (dedupFirst (((withLabels (normalizeDoc doc) ls).filter (·.asserted)).map (·.partition)))).flatten ↔ x ∈ evalDoc senv doc :=
    fun x => (by simpa using hsame x : _ ↔ x ∈ out).trans (hiff x)
  have hgram : ∀ x ∈ (List.map (fun l => Py.okVal (evalGroup env (withLabels (normalizeDoc doc) ls) l))
      (dedupFirst (((withLabels (normalizeDoc doc) ls).filter (·.asserted)).map (·.partition)))).flatten,
      ∃ st : NQ.Stmt, NQ.wfStmt st = true ∧ NQ.parseLine (x ++ ['.']) = some st ∧ x = NQ.renderStmtBody (shapeOf senv.fmt) st :=
    fun x hx => C05_rules_lines_valid senv doc hok x ((hmem x).mp hx) (Or.inl rfl)
  refine ⟨_, hmap, hmem, hgram, fun sched hs l => ?_⟩
  have hperm := C04_cli_any_schedule old _ (fun g hg t ht => by
    obtain ⟨st, hwf, _, rfl⟩ := hgram t (List.mem_flatten.mpr ⟨g, hg, ht⟩)
    exact noNL_of_noEol (NQ.noEol_renderStmtBody _ st hwf)) chunk buf sched hs
  rw [hperm.mem_iff, List.mem_map]
  constructor
  · rintro ⟨x, hx, rfl⟩; exact ⟨x, (hmem x).mp hx, rfl⟩
  · rintro ⟨x, hx, rfl⟩; exact ⟨x, (hmem x).mpr hx, rfl⟩

instance (k : MapType) (v : Str) (tt : TermType) : Decidable (SynMap k v tt) := by unfold SynMap EscapeFree; infer_instance
instance (k : MapType) (v : Str) : Decidable (CleanMap k v) := by unfold CleanMap EscapeFree; infer_instance

instance (env : Env) (rules : List Rule) (r : Rule) : Decidable (SynSafe env rules r) :=
  decidable_of_iff
    ((' ' ∉ env.cfg.safe) ∧ SynMap r.subjectMapType r.subjectMapValue r.subjectTermtype ∧
     SynMap r.predicateMapType r.predicateMapValue .iri ∧ SynMap r.graphMapType r.graphMapValue .iri ∧
     CleanMap (objMapOf rules r).1 (objMapOf rules r).2.1 ∧ r.objectTermtype ≠ .star ∧
     ((r.langDatatype = none ∧ r.langDatatypeMapType = none) ∨
      (r.objectTermtype = .literal ∧ r.langDatatype.isSome = true ∧ r.langDatatypeMapType = some .constant ∧
        '\\' ∉ r.langDatatypeMapValue ∧ '{' ∉ r.langDatatypeMapValue ∧ '"' ∉ r.langDatatypeMapValue)))
    ⟨fun ⟨a, b, c, d, e, f, g⟩ => ⟨a, b, c, d, e, f, g⟩, fun h => ⟨h.safe, h.subj, h.pred, h.graph, h.obj, h.noStarO, h.lang⟩⟩

/-- token safety read off the mapping (decidable, executable): every rule of the normalised table is `SynSafe` -/
def DocSynSafe (env : Env) (doc : Doc) : Bool :=
  (normalizeDoc doc).all fun r => decide (SynSafe env (normalizeDoc doc) r)

/-- the same with hypotheses that are all decidable predicates of the mapping document, the tables and the configuration -/
theorem cli_nquads_syntactic {env : Env} {senv : SEnv} (henv : EnvOK env senv) (hn : NamesOK senv) (hf : env.fmt = .nquads)
    (doc : Doc) (hfrag : FragmentOK senv doc = true) (htab : TablesOK senv doc = true) (hF4 : NoF4 senv doc = true)
    (hok : GrammarOK senv doc = true) (hsyn : DocSynSafe env doc = true)
    (mode : PartMode) (ls : List Str) (hp : partitionLabels mode (normalizeDoc doc) = .ok ls)
    (old : Str) (chunk buf : Nat) :
    ∃ groups, groupResults env (withLabels (normalizeDoc doc) ls) = .ok groups ∧
      groups.flatten.Nodup ∧
      (∀ x, x ∈ groups.flatten ↔ x ∈ evalDoc senv doc) ∧
      (∀ x ∈ groups.flatten, ∃ st : NQ.Stmt, NQ.wfStmt st = true ∧ NQ.parseLine (x ++ ['.']) = some st ∧
        x = NQ.renderStmtBody (shapeOf senv.fmt) st) ∧
      ∀ sched, Interleaving (groups.map (workerWrites Gen.writerShape chunk buf)) sched →
        (lines NL (cliFile Gen.mainShape old sched)).Perm (groups.flatten.map (renderLine Gen.writerShape)) :=
  cli_nquads henv hn hf doc hfrag htab hF4 hok mode ls hp
    (fun r hr => tokenSafe_of_synSafe _ _ r (by
      have := List.all_eq_true.mp hsyn r hr
      simpa using this)) old chunk buf

/-! ### non-vacuity: the example document of C01 satisfies every hypothesis, in both partitioning modes -/

namespace Ex
open Props.C01.Ex

theorem synSafe : DocSynSafe env doc = true := by decide +kernel

theorem labels : partitionLabels .partialAggregations (normalizeDoc doc) =
    .ok ["1-3-1-2".toList, "1-2-2-1".toList, "1-1-3-2".toList] := by decide +kernel

theorem labelsMax : partitionLabels .maximal (normalizeDoc doc) =
    .ok ["1-3-1-1".toList, "1-2-1-1".toList, "1-1-1-1".toList] := by decide +kernel

example (old : Str) (chunk buf : Nat) := cli_nquads_syntactic envOK namesOK rfl doc fragmentOK tablesOK noF4 (by decide +kernel)
  synSafe .partialAggregations _ labels old chunk buf
example (old : Str) (chunk buf : Nat) := cli_nquads_syntactic envOK namesOK rfl doc fragmentOK tablesOK noF4 (by decide +kernel)
  synSafe .maximal _ labelsMax old chunk buf

end Ex

end Props.Pipeline
