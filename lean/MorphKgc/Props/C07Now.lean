/-
C07 on the tree as it is now (after the `fix:` commits 6642bb9 — self-join elimination only when the parent subject map uses exactly
the join references —, a032c47 — referencing and term-valued object maps of one predicate-object map are UNION branches of the
parsing query — and the repair of C07_F5 — self-join elimination only when both triples maps belong to the same configuration
section).  No hypothesis on the generated shape: these theorems hold because the translator reads the repaired shapes from
/repo, and stop checking, with the shape as witness, if the source regresses to C07_F1 / C07_F2 / C07_F4 / C07_F5.
-/
import MorphKgc.Props.C07

namespace Props.C07
open Py Model Spec

theorem C07_current_elim_shape : Gen.elimShape = ElimShape.current := by decide

theorem C07_current_object_query : Gen.objectQueryShape = .union := by decide

/-- on the current tree a rewritten rule and its parent read the same rows: same section and same logical source value
    (this was a hypothesis before the repair of C07_F5) -/
theorem C07_current_same_table (env : Env) (r parent : Rule) (ht : elimTests Gen.elimShape r parent = true) :
    env.table r = env.table parent :=
  C07_tests_same_table Gen.elimShape (by decide) (by decide) env r parent ht

/-- **C07_elimination on the current tree**: every rewriting the normaliser performs on a join with conditions is sound -/
theorem C07_elimination_current (env : Env) (rules : List Rule) (r parent : Rule)
    (hpt : r.objectMapType = .parentTM) (hfind : findRule rules r.objectMapValue = some parent) (hne : r.objectJoin ≠ [])
    (htt : r.objectTermtype = parent.subjectTermtype) (hnc : isAllConstant (eliminated r parent) = false)
    (hex : ∀ m ∈ ownMaps r, RefsExact m) (hexs : RefsExact (parent.subjectMapType, parent.subjectMapValue))
    (hno : RuleNoClash r parent) (hcomp : Complete (refsOfRule r) (env.table r) = true) :
    SameOutcome (evalRule env rules (eliminateSelfJoinG Gen.elimShape rules r)) (evalRule env rules r) :=
  C07_elimination_repaired (by decide) env rules r parent hpt hfind hne (C07_current_same_table env r parent) htt hnc hex hexs hno hcomp

/-- the shared normaliser model (`Model.eliminateSelfJoin`, used by C01 / C08 / C09 / C12) is the rewriting as the source performs it now -/
theorem C07_shared_model_is_current (rules : List Rule) (r : Rule) :
    eliminateSelfJoinG Gen.elimShape rules r = eliminateSelfJoin rules r := by
  rw [C07_current_elim_shape]; exact C07_elim_current_is_shared rules r

/-- C07_F4 repaired: the parsing query delivers every object map of a predicate-object map -/
theorem C07_objects_seen_current (objs : List ObjMap) : objectsSeen Gen.objectQueryShape objs = objs := by
  rw [C07_current_object_query]; rfl

end Props.C07
